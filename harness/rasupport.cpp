// X05 harness: register-allocator support structures driven stand-alone (private headers) and in vivo.
//
//   rasupport script <component> <scripts.ndjson> <trace.ndjson>   one execution per script line ({"hdr":{..},"ops":[[..],..]})
//   rasupport random <component> <trace.ndjson> <executions> <steps>
//   rasupport tables <obs.ndjson>                                   pointwise observations (RARegCount/Index/Mask, RAConstraints, flags)
//   rasupport vivo   <obs.ndjson> <functions>                       compile random functions, snapshot the pass in on_done()
//
// components: stack (RAStackAllocator), assign (RAAssignment), spans (RALiveSpans), tied (RAInstBuilder/RATiedReg),
//             blocks (RABlock successors/predecessors/flags)
//
// Every event carries the full projection of the object(s) after the call ("st"), read through the accessors of the
// private headers.  ASMJIT_ASSERT is compiled out (NDEBUG): the drivers only issue calls whose asserted preconditions
// hold (random mode consults the real object's accessors, script mode replays behaviours of the specification).
#include <asmjit/core.h>
#include <asmjit/x86.h>
#include <asmjit/a64.h>
#include <asmjit/core/rastack_p.h>
#include <asmjit/core/raassignment_p.h>
#include <asmjit/core/radefs_p.h>
#include <asmjit/core/rareg_p.h>
#include <asmjit/core/rainst_p.h>
#include <asmjit/core/racfgblock_p.h>
#include <asmjit/core/raconstraints_p.h>
#include <asmjit/core/rapass_p.h>
#include <asmjit/x86/x86rapass_p.h>
#include <asmjit/arm/a64rapass_p.h>
#include "vjson.h"
#include <algorithm>
#include <map>
#include <set>

using namespace asmjit;

static const char* err_name(Error e) {
  switch (e) {
    case Error::kOk: return "Ok";
    case Error::kOutOfMemory: return "OutOfMemory";
    case Error::kInvalidArgument: return "InvalidArgument";
    case Error::kInvalidState: return "InvalidState";
    case Error::kInvalidArch: return "InvalidArch";
    case Error::kByPass: return "ByPass";
    case Error::kOverlappedRegs: return "OverlappedRegs";
    case Error::kTooLarge: return "TooLarge";
    default: return "Other";
  }
}

static void bits(vj::W& w, const char* k, uint32_t m) {
  w.key(k); w.beginArr();
  for (unsigned i = 0; i < 32; i++) if (m & (1u << i)) w.val(i);
  w.endArr();
}
static void bits_val(vj::W& w, uint32_t m) {
  w.beginArr();
  for (unsigned i = 0; i < 32; i++) if (m & (1u << i)) w.val(i);
  w.endArr();
}

// =========================================================================================================
// stack: RAStackAllocator
// =========================================================================================================
struct StackWorld {
  FILE* out;
  Arena arena{8192};
  RAStackAllocator alloc;
  std::vector<RAStackSlot*> created;       // creation index -> slot
  uint32_t scale = 1;                      // sizes/offsets are logged divided by `scale` (exact or flagged)
  bool exact = true;
  vj::W w;

  StackWorld(FILE* f, uint32_t scale_, const char* tag) : out(f), scale(scale_) {
    alloc.reset(&arena);
    w.beginObj().kv("e", "Reset").kv("c", "stack").kv("scale", scale).kv("tag", tag);
    state();
    w.endObj().emit(out);
  }
  long long sc(long long v) { if (v % (long long)scale) exact = false; return v / (long long)scale; }
  int index_of(RAStackSlot* s) { for (size_t i = 0; i < created.size(); i++) if (created[i] == s) return int(i); return -1; }

  void state() {
    exact = true;
    w.key("st").beginObj();
    w.kv("n", alloc.slot_count());
    w.key("order").beginArr();
    for (RAStackSlot* s : alloc.slots()) w.val(index_of(s));
    w.endArr();
    w.key("slots").beginArr();
    for (RAStackSlot* s : created) {
      w.beginArr();
      w.val(sc(s->size())).val(s->alignment()).val(s->flags()).val(s->use_count()).val(s->weight()).val(sc(s->offset())).val(s->base_reg_id());
      w.val(s->is_reg_home()).val(s->is_stack_arg());
      w.endArr();
    }
    w.endArr();
    long long ss = sc(alloc.stack_size());
    long long bu = sc(alloc.bytes_used());
    w.kv("ssize", ss).kv("aalign", alloc.alignment()).kv("bused", bu).kv("exact", exact);
    w.endObj();
  }

  void op(const vj::Value& o) {
    const std::string& k = o[0].s();
    w.beginObj();
    if (k == "new") {
      uint32_t size = uint32_t(o[1].i()) * scale, align = uint32_t(o[2].i()), flags = uint32_t(o[3].i()), base = uint32_t(o[4].i());
      RAStackSlot* s = alloc.new_slot(base, size, align, flags);
      if (s) created.push_back(s);
      w.kv("e", "New").kv("size", o[1].i()).kv("align", align).kv("flags", flags).kv("base", base).kv("r", s ? int(created.size() - 1) : -1);
    }
    else if (k == "use") {
      RAStackSlot* s = created[size_t(o[1].i())];
      s->add_use_count(uint32_t(o[2].i()));
      w.kv("e", "Use").kv("i", o[1].i()).kv("k", o[2].i());
    }
    else if (k == "flag") {
      RAStackSlot* s = created[size_t(o[1].i())];
      s->add_flags(uint32_t(o[2].i()));
      w.kv("e", "Flag").kv("i", o[1].i()).kv("f", o[2].i());
    }
    else if (k == "setoff") {
      RAStackSlot* s = created[size_t(o[1].i())];
      s->set_offset(int32_t(o[2].i() * (long long)scale));
      w.kv("e", "SetOff").kv("i", o[1].i()).kv("off", o[2].i());
    }
    else if (k == "setbase") {
      RAStackSlot* s = created[size_t(o[1].i())];
      s->set_base_reg_id(uint32_t(o[2].i()));
      w.kv("e", "SetBase").kv("i", o[1].i()).kv("base", o[2].i());
    }
    else if (k == "calc") {
      Error e = alloc.calculate_stack_frame();
      w.kv("e", "Calc").kv("r", err_name(e));
    }
    else if (k == "adjust") {
      Error e = alloc.adjust_slot_offsets(int32_t(o[1].i() * (long long)scale));
      w.kv("e", "Adjust").kv("d", o[1].i()).kv("r", err_name(e));
    }
    else if (k == "reset") {
      alloc.reset(&arena);
      created.clear();
      w.kv("e", "ResetAlloc");
    }
    else { fprintf(stderr, "stack: unknown op %s\n", k.c_str()); exit(3); }
    state();
    w.endObj().emit(out);
  }
};

// Many slots: columns sorted by offset, one event (the contract is evaluated on neighbours).
static void stack_big(FILE* out, unsigned n, vj::Rng& r) {
  Arena arena{65536};
  RAStackAllocator alloc;
  alloc.reset(&arena);
  std::vector<RAStackSlot*> v;
  static const uint32_t sizes[] = {1, 2, 4, 8, 16, 32, 64, 3, 12, 24, 40, 100};
  static const uint32_t aligns[] = {1, 2, 4, 8, 16, 32, 64};
  unsigned nargs = 0;
  for (unsigned i = 0; i < n; i++) {
    uint32_t sz = sizes[r.below(12)], al = aligns[r.below(7)];
    uint32_t fl = r.chance(3, 4) ? uint32_t(RAStackSlot::kFlagRegHome) : 0u;
    RAStackSlot* s = alloc.new_slot(4, sz, al, fl);
    if (!s) { fprintf(stderr, "oom\n"); exit(3); }
    s->add_use_count(uint32_t(r.below(40)));
    if (r.chance(1, 500)) { s->add_flags(RAStackSlot::kFlagStackArg); s->set_offset(int32_t(100000000 + i)); nargs++; }
    v.push_back(s);
  }
  std::vector<int32_t> before;
  for (auto* s : v) before.push_back(s->offset());
  Error e = alloc.calculate_stack_frame();
  bool args_kept = true;
  for (size_t i = 0; i < v.size(); i++) if (v[i]->is_stack_arg() && v[i]->offset() != before[i]) args_kept = false;
  std::vector<RAStackSlot*> live;
  for (auto* s : v) if (!s->is_stack_arg()) live.push_back(s);
  std::sort(live.begin(), live.end(), [](RAStackSlot* a, RAStackSlot* b) { return a->offset() != b->offset() ? a->offset() < b->offset() : a->size() < b->size(); });
  vj::W w;
  w.beginObj().kv("e", "Reset").kv("c", "stack").kv("scale", 1).kv("tag", "big");
  w.key("st").beginObj().kv("n", 0).key("order").beginArr().endArr().key("slots").beginArr().endArr()
   .kv("ssize", 0).kv("aalign", 1).kv("bused", 0).kv("exact", true).endObj();
  w.endObj().emit(out);
  w.beginObj().kv("e", "BigCalc").kv("r", err_name(e)).kv("n", alloc.slot_count()).kv("nargs", nargs).kv("argskept", args_kept)
   .kv("ssize", alloc.stack_size()).kv("aalign", alloc.alignment());
  w.key("off").beginArr(); for (auto* s : live) w.val(s->offset()); w.endArr();
  w.key("size").beginArr(); for (auto* s : live) w.val(s->size()); w.endArr();
  w.key("align").beginArr(); for (auto* s : live) w.val(s->alignment()); w.endArr();
  w.endObj().emit(out);
}

static void stack_random(FILE* out, unsigned nexec, unsigned steps, vj::Rng& r) {
  static const long long sizes[] = {1, 2, 4, 8, 16, 32, 64, 3, 5, 6, 12, 24, 48, 100, 128, 256, 1000, 4, 8, 16};
  static const long long aligns[] = {0, 1, 2, 4, 8, 16, 32, 64, 128, 4, 8, 16};
  for (unsigned x = 0; x < nexec; x++) {
    StackWorld W(out, 1, "random");
    unsigned n = 2 + unsigned(r.below(steps));
    bool calculated = false;
    for (unsigned i = 0; i < n; i++) {
      vj::Value o; o.kind = vj::Value::Arr;
      auto S = [&](const char* s) { vj::Value v; v.kind = vj::Value::Str; v.str = s; o.arr.push_back(v); };
      auto I = [&](long long k) { vj::Value v; v.kind = vj::Value::Num; v.inum = k; v.num = double(k); o.arr.push_back(v); };
      unsigned c = unsigned(r.below(100));
      size_t cnt = W.created.size();
      if (cnt == 0 || (c < 45 && cnt < 14 && !calculated)) {
        long long sz = sizes[r.below(20)], al = aligns[r.below(12)];
        if (r.chance(1, 3)) al = std::min<long long>(sz & -sz, 64);              // natural alignment of a register
        long long fl = r.chance(2, 3) ? 1 : 0;
        if (r.chance(1, 9)) fl |= 2;
        S("new"); I(sz); I(al); I(fl); I(r.chance(1, 2) ? 4 : 31);
      }
      else if (c < 60) { S("use"); I((long long)r.below(cnt)); I(r.chance(1, 10) ? 100000 : (long long)r.below(9)); }
      else if (c < 66 && !calculated) { S("flag"); I((long long)r.below(cnt)); I(r.chance(1, 2) ? 2 : 1); }
      else if (c < 70) {
        size_t i2 = r.below(cnt);
        if (W.created[i2]->is_stack_arg()) { S("setoff"); I((long long)i2); I((long long)r.below(4096) - 1024); }
        else { S("setbase"); I((long long)i2); I(r.chance(1, 2) ? 5 : 29); }
      }
      else if (c < 86) { S("calc"); calculated = true; }
      else if (c < 96 && calculated) { S("adjust"); I((long long)r.below(2048) - 512); }
      else if (c < 98) { S("reset"); calculated = false; }
      else { S("calc"); calculated = true; }
      W.op(o);
    }
    { vj::Value o; o.kind = vj::Value::Arr; vj::Value v; v.kind = vj::Value::Str; v.str = "calc"; o.arr.push_back(v); W.op(o); }
  }
}

// =========================================================================================================
// assign: RAAssignment (two objects A, B over one layout) + a detached PhysToWorkMap M
// =========================================================================================================
struct AssignWorld {
  FILE* out;
  Arena arena{16384};
  RARegCount pc;
  std::vector<unsigned> wg;                         // group of each work register
  ArenaVector<RAWorkReg*> work_regs;
  RAAssignment A, B;
  RAAssignment::PhysToWorkMap* M = nullptr;
  uint32_t ptotal = 0;
  vj::W w;

  RAAssignment& obj(const std::string& s) { return s == "A" ? A : B; }

  AssignWorld(FILE* f, const std::vector<unsigned>& counts, const std::vector<unsigned>& groups) : out(f), wg(groups) {
    pc.reset();
    for (unsigned g = 0; g < 4; g++) pc.set(RegGroup(g), counts[g]);
    for (size_t i = 0; i < wg.size(); i++) {
      VirtReg* vr = arena.new_oneshot<VirtReg>(RegType::kGp64, VirtRegFlags::kNone, uint32_t(Operand::kVirtIdMin + i), 8u, TypeId::kInt64);
      RAWorkReg* wr = arena.new_oneshot<RAWorkReg>(vr, OperandSignature::from_reg_group(RegGroup(wg[i])), RAWorkId(uint32_t(i)));
      (void)work_regs.append(arena, wr);
    }
    A.init_layout(pc, work_regs);
    B.init_layout(pc, work_regs);
    ptotal = A._layout.phys_total;
    auto mk = [&](RAAssignment& o) {
      auto* p = arena.alloc_oneshot<RAAssignment::PhysToWorkMap>(RAAssignment::PhysToWorkMap::size_of(ptotal));
      auto* q = arena.alloc_oneshot<RAAssignment::WorkToPhysMap>(RAAssignment::WorkToPhysMap::size_of(wg.size()));
      memset((void*)p, 0xA5, RAAssignment::PhysToWorkMap::size_of(ptotal));
      memset((void*)q, 0xA5, RAAssignment::WorkToPhysMap::size_of(wg.size()));
      p->reset(ptotal);
      q->reset(wg.size());
      o.init_maps(p, q);
    };
    mk(A); mk(B);
    M = arena.alloc_oneshot<RAAssignment::PhysToWorkMap>(RAAssignment::PhysToWorkMap::size_of(ptotal));
    memset((void*)M, 0xA5, RAAssignment::PhysToWorkMap::size_of(ptotal));
    M->reset(ptotal);
    w.beginObj().kv("e", "Reset").kv("c", "assign");
    w.key("pc").beginArr(); for (unsigned g = 0; g < 4; g++) w.val(pc.get(RegGroup(g))); w.endArr();
    w.key("wg").beginArr(); for (unsigned g : wg) w.val(g); w.endArr();
    w.key("pidx").beginArr(); for (unsigned g = 0; g < 4; g++) w.val(A._layout.phys_index.get(RegGroup(g))); w.endArr();
    w.kv("ptotal", ptotal).kv("wcount", A._layout.work_count);
    state();
    w.endObj().emit(out);
  }

  void proj(const char* name, RAAssignment& o) {
    w.key(name).beginObj();
    w.key("w2p").beginArr();
    for (size_t i = 0; i < wg.size(); i++) {
      uint32_t p = o.work_to_phys_id(RegGroup(wg[i]), RAWorkId(uint32_t(i)));
      w.val(p == RAAssignment::kPhysNone ? -1 : int(p));
    }
    w.endArr();
    w.key("p2w").beginArr();
    for (unsigned g = 0; g < 4; g++) {
      w.beginArr();
      for (unsigned p = 0; p < pc.get(RegGroup(g)); p++) { RAWorkId id = o.phys_to_work_id(RegGroup(g), p); w.val(id == kBadWorkId ? -1 : int(uint32_t(id))); }
      w.endArr();
    }
    w.endArr();
    w.key("asg").beginArr();
    for (unsigned g = 0; g < 4; g++) { w.beginArr(); for (unsigned p = 0; p < pc.get(RegGroup(g)); p++) if (o.is_phys_assigned(RegGroup(g), p)) w.val(p); w.endArr(); }
    w.endArr();
    w.key("dty").beginArr();
    for (unsigned g = 0; g < 4; g++) { w.beginArr(); for (unsigned p = 0; p < pc.get(RegGroup(g)); p++) if (o.is_phys_dirty(RegGroup(g), p)) w.val(p); w.endArr(); }
    w.endArr();
    w.key("asgx").beginArr(); for (unsigned g = 0; g < 4; g++) bits_val(w, o.assigned(RegGroup(g))); w.endArr();
    w.key("dtyx").beginArr(); for (unsigned g = 0; g < 4; g++) bits_val(w, o.dirty(RegGroup(g))); w.endArr();
    w.endObj();
  }
  void projM() {
    w.key("M").beginObj();
    w.key("p2w").beginArr();
    for (unsigned g = 0; g < 4; g++) {
      w.beginArr();
      uint32_t base = A._layout.phys_index.get(RegGroup(g));
      for (unsigned p = 0; p < pc.get(RegGroup(g)); p++) { RAWorkId id = M->work_ids[base + p]; w.val(id == kBadWorkId ? -1 : int(uint32_t(id))); }
      w.endArr();
    }
    w.endArr();
    w.key("asgx").beginArr(); for (unsigned g = 0; g < 4; g++) bits_val(w, M->assigned[RegGroup(g)]); w.endArr();
    w.key("dtyx").beginArr(); for (unsigned g = 0; g < 4; g++) bits_val(w, M->dirty[RegGroup(g)]); w.endArr();
    w.endObj();
  }
  void state() {
    w.key("st").beginObj();
    proj("A", A); proj("B", B); projM();
    w.endObj();
  }

  void op(const vj::Value& o) {
    const std::string& k = o[0].s();
    w.beginObj();
    w.kv("e", "Op").key("op").beginArr();
    for (auto& x : o.arr) { if (x.kind == vj::Value::Str) w.val(x.str); else w.val((long long)x.i()); }
    w.endArr();
    if (k == "assign") obj(o[1].s()).assign(RegGroup(o[2].i()), RAWorkId(uint32_t(o[3].i())), uint32_t(o[4].i()), o[5].i() != 0);
    else if (k == "unassign") obj(o[1].s()).unassign(RegGroup(o[2].i()), RAWorkId(uint32_t(o[3].i())), uint32_t(o[4].i()));
    else if (k == "reassign") obj(o[1].s()).reassign(RegGroup(o[2].i()), RAWorkId(uint32_t(o[3].i())), uint32_t(o[4].i()), uint32_t(o[5].i()));
    else if (k == "swap") obj(o[1].s()).swap(RegGroup(o[2].i()), RAWorkId(uint32_t(o[3].i())), uint32_t(o[4].i()), RAWorkId(uint32_t(o[5].i())), uint32_t(o[6].i()));
    else if (k == "dirty") obj(o[1].s()).make_dirty(RegGroup(o[2].i()), RAWorkId(uint32_t(o[3].i())), uint32_t(o[4].i()));
    else if (k == "clean") obj(o[1].s()).make_clean(RegGroup(o[2].i()), RAWorkId(uint32_t(o[3].i())), uint32_t(o[4].i()));
    else if (k == "copy") obj(o[1].s()).copy_from(obj(o[2].s()));
    else if (k == "copymaps") { RAAssignment& s = obj(o[2].s()); obj(o[1].s()).copy_from(s.phys_to_work_map(), s.work_to_phys_map()); }
    else if (k == "copyp2w") { obj(o[1].s()).copy_from(o[2].s() == "M" ? M : obj(o[2].s()).phys_to_work_map()); }
    else if (k == "clone") M->copy_from(obj(o[1].s()).phys_to_work_map(), ptotal);
    else if (k == "munassign") { RegGroup g = RegGroup(o[1].i()); uint32_t p = uint32_t(o[2].i()); M->unassign(g, p, A._layout.phys_index.get(g) + p); }
    else if (k == "mreset") M->reset(ptotal);
    else if (k == "swapobj") A.swap(B);
    else if (k == "equals") { bool r = obj(o[1].s()).equals(obj(o[2].s())); w.kv("r", r); }
    else if (k == "resetmaps") { RAAssignment& t = obj(o[1].s()); t.phys_to_work_map()->reset(ptotal); t.work_to_phys_map()->reset(wg.size()); }
    else { fprintf(stderr, "assign: unknown op %s\n", k.c_str()); exit(3); }
    state();
    w.endObj().emit(out);
  }
};

static vj::Value mkop(std::initializer_list<std::string> strs, std::initializer_list<long long> ints) {
  vj::Value o; o.kind = vj::Value::Arr;
  for (auto& s : strs) { vj::Value v; v.kind = vj::Value::Str; v.str = s; o.arr.push_back(v); }
  for (auto k : ints) { vj::Value v; v.kind = vj::Value::Num; v.inum = k; v.num = double(k); o.arr.push_back(v); }
  return o;
}

static void assign_random(FILE* out, unsigned nexec, unsigned steps, vj::Rng& r) {
  static const unsigned layouts[][4] = {{16, 16, 8, 8}, {8, 8, 8, 8}, {32, 32, 0, 0}, {16, 32, 8, 8}, {4, 3, 2, 1}, {2, 1, 0, 1}, {31, 32, 8, 0}};
  for (unsigned x = 0; x < nexec; x++) {
    const unsigned* L = layouts[r.below(7)];
    std::vector<unsigned> counts(L, L + 4), groups;
    unsigned nw = 1 + unsigned(r.below(14));
    for (unsigned i = 0; i < nw; i++) { unsigned g; do { g = unsigned(r.below(4)); } while (counts[g] == 0); groups.push_back(g); }
    AssignWorld W(out, counts, groups);
    unsigned n = 1 + unsigned(r.below(steps));
    for (unsigned i = 0; i < n; i++) {
      std::string on = r.chance(2, 3) ? "A" : "B";
      RAAssignment& o = W.obj(on);
      unsigned c = unsigned(r.below(100));
      unsigned wi = unsigned(r.below(nw)), g = groups[wi];
      uint32_t cur = o.work_to_phys_id(RegGroup(g), RAWorkId(wi));
      auto free_phys = [&](unsigned grp) -> int {
        std::vector<unsigned> fr;
        for (unsigned p = 0; p < counts[grp]; p++) if (!o.is_phys_assigned(RegGroup(grp), p) && o.phys_to_work_id(RegGroup(grp), p) == kBadWorkId) fr.push_back(p);
        return fr.empty() ? -1 : int(fr[r.below(fr.size())]);
      };
      if (c < 40) {
        if (cur == RAAssignment::kPhysNone) { int p = free_phys(g); if (p >= 0) W.op(mkop({"assign", on}, {g, wi, p, (long long)r.below(2)})); }
        else if (r.chance(1, 2)) W.op(mkop({"unassign", on}, {g, wi, cur}));
        else { int p = free_phys(g); if (p >= 0) W.op(mkop({"reassign", on}, {g, wi, p, cur})); }
      }
      else if (c < 52) {
        // swap two assigned registers of one group
        std::vector<unsigned> as;
        for (unsigned p = 0; p < counts[g]; p++) if (o.is_phys_assigned(RegGroup(g), p)) as.push_back(p);
        if (as.size() >= 2) {
          unsigned a = as[r.below(as.size())], b;
          do { b = as[r.below(as.size())]; } while (b == a);
          W.op(mkop({"swap", on}, {g, (long long)uint32_t(o.phys_to_work_id(RegGroup(g), a)), a, (long long)uint32_t(o.phys_to_work_id(RegGroup(g), b)), b}));
        }
      }
      else if (c < 64) { if (cur != RAAssignment::kPhysNone) W.op(mkop({r.chance(1, 2) ? "dirty" : "clean", on}, {g, wi, cur})); }
      else if (c < 70) W.op(mkop({"copy", on, on == "A" ? "B" : "A"}, {}));
      else if (c < 74) W.op(mkop({"copymaps", on, on == "A" ? "B" : "A"}, {}));
      else if (c < 79) W.op(mkop({"clone", on}, {}));
      else if (c < 85) {
        unsigned gg = g;
        std::vector<unsigned> as;
        for (unsigned p = 0; p < counts[gg]; p++) if (W.M->assigned[RegGroup(gg)] & (1u << p)) as.push_back(p);
        if (!as.empty()) W.op(mkop({"munassign"}, {gg, as[r.below(as.size())]}));
      }
      else if (c < 89) W.op(mkop({"copyp2w", on, r.chance(2, 3) ? "M" : (on == "A" ? "B" : "A")}, {}));
      else if (c < 92) W.op(mkop({"swapobj"}, {}));
      else if (c < 97) W.op(mkop({"equals", "A", "B"}, {}));
      else if (c < 98) W.op(mkop({"mreset"}, {}));
      else if (c < 99) W.op(mkop({"resetmaps", on}, {}));
      else W.op(mkop({"equals", on, on}, {}));
    }
    W.op(mkop({"equals", "A", "B"}, {}));
  }
}

// =========================================================================================================
// spans: RALiveSpans objects X, Y, T
// =========================================================================================================
struct SpansWorld {
  FILE* out;
  Arena arena{8192};
  RALiveSpans X, Y, T;
  bool tjunk = false;                      // T was the target of a refused union (contents unspecified)
  uint32_t inf;
  vj::W w;
  RALiveSpans& obj(const std::string& s) { return s == "X" ? X : s == "Y" ? Y : T; }
  NodePosition pos(long long v) { return (uint32_t(v) == inf) ? RALiveSpan::kInf : NodePosition(uint32_t(v)); }
  long long unpos(NodePosition p) { return p == RALiveSpan::kInf ? (long long)inf : (long long)uint32_t(p); }

  SpansWorld(FILE* f, uint32_t inf_) : out(f), inf(inf_) {
    w.beginObj().kv("e", "Reset").kv("c", "spans").kv("inf", inf);
    state();
    w.endObj().emit(out);
  }
  void one(const char* k, RALiveSpans& s) {
    w.key(k).beginArr();
    for (size_t i = 0; i < s.size(); i++) { w.beginArr().val(unpos(s.data()[i].a)).val(unpos(s.data()[i].b)).endArr(); }
    w.endArr();
  }
  void state() { w.key("st").beginObj(); one("X", X); one("Y", Y); one("T", T); w.endObj(); }

  void op(const vj::Value& o) {
    const std::string& k = o[0].s();
    w.beginObj().kv("e", "Op").key("op").beginArr();
    for (auto& x : o.arr) { if (x.kind == vj::Value::Str) w.val(x.str); else w.val((long long)x.i()); }
    w.endArr();
    if (k == "open") {
      bool was_open = false;
      Error e = obj(o[1].s()).open_at(arena, pos(o[2].i()), pos(o[3].i()), was_open);
      w.kv("r", err_name(e)).kv("was", was_open);
    }
    else if (k == "open2") {        // the overload without the out parameter
      Error e = obj(o[1].s()).open_at(arena, pos(o[2].i()), pos(o[3].i()));
      w.kv("r", err_name(e));
    }
    else if (k == "close") obj(o[1].s()).close_at(pos(o[2].i()));
    else if (k == "isect") {
      bool r1 = RALiveSpans::intersects(obj(o[1].s()), obj(o[2].s()));
      bool r2 = obj(o[1].s()).intersects(obj(o[2].s()));
      w.kv("r", r1).kv("r2", r2);
    }
    else if (k == "union") {
      Error e = T.non_overlapping_union_of(arena, obj(o[1].s()), obj(o[2].s()));
      tjunk = e != Error::kOk;
      w.kv("r", err_name(e));
    }
    else if (k == "swap") obj(o[1].s()).swap(obj(o[2].s()));
    else if (k == "reset") { obj(o[1].s()).reset(); if (o[1].s() == "T") tjunk = false; }
    else if (k == "release") { obj(o[1].s()).release(arena); if (o[1].s() == "T") tjunk = false; }
    else if (k == "width") w.kv("r", (long long)obj(o[1].s()).width());
    else if (k == "isopen") w.kv("r", obj(o[1].s()).is_open()).kv("empty", obj(o[1].s()).is_empty()).kv("size", (long long)obj(o[1].s()).size());
    else { fprintf(stderr, "spans: unknown op %s\n", k.c_str()); exit(3); }
    state();
    w.endObj().emit(out);
  }
};

static void spans_random(FILE* out, unsigned nexec, unsigned steps, vj::Rng& r) {
  for (unsigned x = 0; x < nexec; x++) {
    uint32_t inf = 40 + uint32_t(r.below(3)) * 12;
    SpansWorld W(out, inf);
    // per object: next legal position (protocol of build_liveness: positions never decrease)
    unsigned n = 4 + unsigned(r.below(steps));
    for (unsigned i = 0; i < n; i++) {
      unsigned c = unsigned(r.below(100));
      std::string on = r.chance(1, 2) ? "X" : "Y";
      RALiveSpans& o = W.obj(on);
      long long la = o.is_empty() ? 0 : W.unpos(o.data()[o.size() - 1].a);
      long long lb = o.is_empty() ? 0 : W.unpos(o.data()[o.size() - 1].b);
      if (c < 40) {
        long long lo = o.is_empty() ? (long long)r.below(4) : la + (long long)r.below(1 + std::min<long long>(8, inf - 2 - la));
        if (r.chance(1, 2) && !o.is_empty() && lb < inf - 2) lo = std::max(lo, lb + (long long)r.below(3));     // at / just after the end
        if (lo > (long long)inf - 3) continue;
        long long hi = r.chance(1, 3) ? (long long)inf : lo + 1 + (long long)r.below(std::min<long long>(10, inf - 2 - lo));
        W.op(mkop({r.chance(1, 6) ? "open2" : "open", on}, {lo, hi}));
      }
      else if (c < 58) {
        if (o.is_empty()) continue;
        long long hi = std::min<long long>(lb, inf - 2);
        if (hi <= la) continue;
        long long e = la + 1 + (long long)r.below(hi - la);
        W.op(mkop({"close", on}, {e}));
      }
      else if (c < 72) W.op(mkop({"isect", "X", "Y"}, {}));
      else if (c < 84) W.op(mkop({"union", "X", "Y"}, {}));
      else if (c < 88) { if (!W.tjunk && !W.T.is_empty()) W.op(mkop({"swap", on, "T"}, {})); }
      else if (c < 92) { if (!o.is_open()) W.op(mkop({"width", on}, {})); }
      else if (c < 96) W.op(mkop({"isopen", on}, {}));
      else if (c < 98) W.op(mkop({"reset", on}, {}));
      else if (!W.tjunk) W.op(mkop({"isect", on, "T"}, {}));
    }
    W.op(mkop({"isect", "X", "Y"}, {}));
    W.op(mkop({"union", "X", "Y"}, {}));
  }
}

// =========================================================================================================
// tied: RAInstBuilder + RATiedReg
// =========================================================================================================
struct TiedWorld {
  FILE* out;
  Arena arena{16384};
  std::vector<unsigned> wg;
  std::vector<RAWorkReg*> regs;
  RAInstBuilder* b;
  vj::W w;

  TiedWorld(FILE* f, const std::vector<unsigned>& groups) : out(f), wg(groups) {
    for (size_t i = 0; i < wg.size(); i++) {
      VirtReg* vr = arena.new_oneshot<VirtReg>(RegType::kGp64, VirtRegFlags::kNone, uint32_t(Operand::kVirtIdMin + i), 8u, TypeId::kInt64);
      regs.push_back(arena.new_oneshot<RAWorkReg>(vr, OperandSignature::from_reg_group(RegGroup(wg[i])), RAWorkId(uint32_t(i))));
    }
    b = new RAInstBuilder(RABlockId(0));
    w.beginObj().kv("e", "Reset").kv("c", "tied");
    w.key("wg").beginArr(); for (unsigned g : wg) w.val(g); w.endArr();
    state();
    w.endObj().emit(out);
  }
  ~TiedWorld() { delete b; }

  int widx(RAWorkReg* r) { for (size_t i = 0; i < regs.size(); i++) if (regs[i] == r) return int(i); return -1; }

  void state() {
    w.key("st").beginObj();
    w.key("cnt").beginArr(); for (unsigned g = 0; g < 4; g++) w.val(b->_count.get(RegGroup(g))); w.endArr();
    bits(w, "agg", uint32_t(b->aggregated_flags()));
    bits(w, "stats", b->_stats._packed);
    w.key("used").beginArr(); for (unsigned g = 0; g < 4; g++) bits_val(w, b->_used[RegGroup(g)]); w.endArr();
    w.key("clob").beginArr(); for (unsigned g = 0; g < 4; g++) bits_val(w, b->_clobbered[RegGroup(g)]); w.endArr();
    w.kv("n", b->tied_reg_count());
    w.key("tied").beginArr();
    for (uint32_t i = 0; i < b->tied_reg_count(); i++) {
      RATiedReg* t = (*b)[i];
      w.beginObj();
      w.kv("w", widx(t->work_reg()));
      bits(w, "f", uint32_t(t->flags()));
      w.kv("ref", t->ref_count()).kv("rm", t->rm_size()).kv("uid", t->use_id()).kv("oid", t->out_id());
      bits(w, "um", t->use_reg_mask()); bits(w, "om", t->out_reg_mask());
      bits(w, "urw", t->use_rewrite_mask()); bits(w, "orw", t->out_rewrite_mask());
      w.kv("par", t->has_consecutive_parent() ? widx(t->consecutive_parent()) : -1);
      w.kv("cdata", t->consecutive_data());
      // predicate accessors, in a fixed order (the specification recomputes each from the flags / ids)
      w.key("pred").beginArr();
      bool preds[] = { t->is_read(), t->is_write(), t->is_read_only(), t->is_write_only(), t->is_read_write(), t->is_use(), t->is_out(),
                       t->is_lead_consecutive(), t->is_use_consecutive(), t->is_out_consecutive(), t->is_unique(), t->has_any_consecutive_flag(),
                       t->has_use_rm(), t->has_out_rm(), t->is_duplicate(), t->is_first(), t->is_last(), t->is_kill(), t->is_out_or_kill(),
                       t->has_use_id(), t->has_out_id(), t->is_use_done(), t->is_out_done() };
      for (bool p : preds) w.val(p);
      w.endArr();
      w.endObj();
    }
    w.endArr();
    // every work register's tied pointer designates its entry
    w.key("wt").beginArr();
    for (RAWorkReg* r : regs) {
      int idx = -1;
      if (r->has_tied_reg()) idx = int(r->tied_reg() - b->begin());
      w.val(idx);
    }
    w.endArr();
    w.endObj();
  }

  // returns false when the execution must end (error reported)
  bool op(const vj::Value& o) {
    const std::string& k = o[0].s();
    bool go = true;
    w.beginObj().kv("e", "Op").key("op").beginArr();
    for (auto& x : o.arr) { if (x.kind == vj::Value::Str) w.val(x.str); else w.val((long long)x.i()); }
    w.endArr();
    auto mask = [](long long v) { return uint32_t(uint64_t(v)); };
    if (k == "add") {
      // ["add", w, flagsLo, flagsHi, useMask, useId, useRw, outMask, outId, outRw, rm, parent]
      uint32_t flags = uint32_t(o[2].i()) | (uint32_t(o[3].i()) << 16);
      RAWorkReg* par = o[11].i() < 0 ? nullptr : regs[size_t(o[11].i())];
      Error e = b->add(regs[size_t(o[1].i())], RATiedFlags(flags), mask(o[4].i()), uint32_t(o[5].i()), mask(o[6].i()),
                       mask(o[7].i()), uint32_t(o[8].i()), mask(o[9].i()), uint32_t(o[10].i()), par);
      w.kv("r", err_name(e));
      go = e == Error::kOk;
    }
    else if (k == "arg") { Error e = b->add_call_arg(regs[size_t(o[1].i())], uint32_t(o[2].i())); w.kv("r", err_name(e)); go = e == Error::kOk; }
    else if (k == "ret") { Error e = b->add_call_ret(regs[size_t(o[1].i())], uint32_t(o[2].i())); w.kv("r", err_name(e)); go = e == Error::kOk; }
    else if (k == "ro") regs[size_t(o[1].i())]->tied_reg()->make_read_only();
    else if (k == "wo") regs[size_t(o[1].i())]->tied_reg()->make_write_only();
    else if (k == "usedone") regs[size_t(o[1].i())]->tied_reg()->mark_use_done();
    else if (k == "outdone") regs[size_t(o[1].i())]->tied_reg()->mark_out_done();
    else if (k == "cdata") {   // static helpers: round trip of the consecutive payload
      RATiedFlags f = RATiedReg::consecutive_data_to_flags(uint32_t(o[1].i()));
      w.kv("cd", (long long)RATiedReg::consecutive_data_from_flags(f));
      bits(w, "fl", uint32_t(f));
    }
    else if (k == "aggr") b->add_aggregated_flags(RATiedFlags(uint32_t(o[1].i())));
    else if (k == "reset") { b->reset(RABlockId(uint32_t(o[1].i()))); for (RAWorkReg* r : regs) r->reset_tied_reg(); }
    else { fprintf(stderr, "tied: unknown op %s\n", k.c_str()); exit(3); }
    state();
    w.endObj().emit(out);
    return go;
  }
};

static void tied_random(FILE* out, unsigned nexec, unsigned steps, vj::Rng& r) {
  static const uint32_t flagsets[] = {
    0x1 | 0x4, 0x3 | 0x4, 0x2 | 0x8, 0x1 | 0x4 | 0x10, 0x2 | 0x8 | 0x20, 0x3 | 0x4 | 0x10, 0x1 | 0x4 | 0x400, 0x2 | 0x8 | 0x800,
    0x1 | 0x4 | 0x400 | 0x1000, 0x2 | 0x8 | 0x800 | 0x1000, 0x1 | 0x4 | 0x8000, 0x1 | 0x4 | 0x01000000, 0x3 | 0x4 | 0x20000, 0x1 | 0x4 | 0x40000 | 0x80000 };
  for (unsigned x = 0; x < nexec; x++) {
    unsigned nw = 1 + unsigned(r.below(7));
    std::vector<unsigned> groups;
    for (unsigned i = 0; i < nw; i++) groups.push_back(unsigned(r.below(10) < 6 ? 0 : r.below(4)));
    TiedWorld W(out, groups);
    unsigned n = 1 + unsigned(r.below(steps));
    for (unsigned i = 0; i < n; i++) {
      unsigned c = unsigned(r.below(100));
      unsigned wi = unsigned(r.below(nw));
      bool has = W.regs[wi]->has_tied_reg();
      bool go = true;
      if (c < 55) {
        uint32_t fl = flagsets[r.below(14)];
        if (fl & 0x1400) fl |= uint32_t(r.below(4)) << 13;          // consecutive payload
        long long uid = r.chance(1, 4) ? (long long)r.below(16) : 0xFF, oid = r.chance(1, 5) ? (long long)r.below(16) : 0xFF;
        long long um = r.chance(1, 2) ? 0xFFFF : (long long)(r.next() & 0xFFFF), om = r.chance(1, 2) ? 0xFFFF : (long long)(r.next() & 0xFFFF);
        long long par = r.chance(1, 6) ? (long long)r.below(nw) : -1;
        go = W.op(mkop({"add"}, {wi, fl & 0xFFFF, fl >> 16, um, uid, (long long)(1u << r.below(6)), om, oid, (long long)(1u << r.below(6)), (long long)(r.chance(1, 2) ? 0 : (1 << r.below(7))), par}));
      }
      else if (c < 65) go = W.op(mkop({"arg"}, {wi, (long long)r.below(16)}));
      else if (c < 72) go = W.op(mkop({"ret"}, {wi, (long long)r.below(16)}));
      else if (c < 77) { if (has) W.op(mkop({"ro"}, {wi})); }
      else if (c < 82) { if (has) W.op(mkop({"wo"}, {wi})); }
      else if (c < 86) { if (has) W.op(mkop({r.chance(1, 2) ? "usedone" : "outdone"}, {wi})); }
      else if (c < 90) W.op(mkop({"cdata"}, {(long long)r.below(4)}));
      else if (c < 93) W.op(mkop({"aggr"}, {(long long)(1u << r.below(20))}));
      else W.op(mkop({"reset"}, {(long long)r.below(5)}));
      if (!go) break;
    }
  }
}

// =========================================================================================================
// blocks: RABlock successor / predecessor lists and flags (needs a pass object for the arena)
// =========================================================================================================
struct BlocksWorld {
  FILE* out;
  Arena arena{16384};
  x86::Compiler cc;
  x86::X86RAPass pass;
  std::vector<RABlock*> blocks;
  vj::W w;

  BlocksWorld(FILE* f, unsigned n) : out(f), pass(cc) {
    pass._arena = &arena;
    for (unsigned i = 0; i < n; i++) {
      RABlock* b = pass.new_block(nullptr);
      if (!b || pass.add_block(b) != Error::kOk) { fprintf(stderr, "oom\n"); exit(3); }
      blocks.push_back(b);
    }
    w.beginObj().kv("e", "Reset").kv("c", "blocks").kv("n", n).kv("created", pass._created_block_count).kv("count", (long long)pass.block_count());
    state();
    w.endObj().emit(out);
  }
  ~BlocksWorld() { pass._blocks.reset(); pass._arena = nullptr; }
  int bidx(const RABlock* b) { for (size_t i = 0; i < blocks.size(); i++) if (blocks[i] == b) return int(i); return -1; }
  void state() {
    w.key("st").beginArr();
    for (RABlock* b : blocks) {
      w.beginObj();
      w.kv("id", (long long)uint32_t(b->block_id()));
      w.key("succ").beginArr(); for (RABlock* s : b->successors()) w.val(bidx(s)); w.endArr();
      w.key("pred").beginArr(); for (RABlock* s : b->predecessors()) w.val(bidx(s)); w.endArr();
      bits(w, "f", uint32_t(b->flags()));
      w.key("q").beginArr();
      bool q[] = { b->is_assigned(), b->is_constructed(), b->is_reachable(), b->is_targetable(), b->is_allocated(), b->is_func_exit(), b->is_enqueued(),
                   b->has_terminator(), b->has_consecutive(), b->has_jump_table(), b->has_predecessors(), b->has_successors() };
      for (bool x : q) w.val(x);
      w.endArr();
      w.kv("cons", (b->has_successors() && b->consecutive()) ? bidx(b->consecutive()) : -1);   // consecutive() presumes a successor
      w.endObj();
    }
    w.endArr();
  }
  void op(const vj::Value& o) {
    const std::string& k = o[0].s();
    w.beginObj().kv("e", "Op").key("op").beginArr();
    for (auto& x : o.arr) { if (x.kind == vj::Value::Str) w.val(x.str); else w.val((long long)x.i()); }
    w.endArr();
    RABlock* a = blocks[size_t(o[1].i())];
    if (k == "append") { Error e = a->append_successor(blocks[size_t(o[2].i())]); w.kv("r", err_name(e)); }
    else if (k == "prepend") { Error e = a->prepend_successor(blocks[size_t(o[2].i())]); w.kv("r", err_name(e)); }
    else if (k == "hassucc") w.kv("r", a->has_successor(blocks[size_t(o[2].i())]));
    else if (k == "flag") a->add_flags(RABlockFlags(uint32_t(o[2].i())));
    else if (k == "clear") a->clear_flags(RABlockFlags(uint32_t(o[2].i())));
    else if (k == "reach") a->make_reachable();
    else if (k == "target") a->make_targetable();
    else if (k == "alloc") a->make_allocated();
    else if (k == "constructed") { RARegsStats s; a->make_constructed(s); }
    else { fprintf(stderr, "blocks: unknown op %s\n", k.c_str()); exit(3); }
    state();
    w.endObj().emit(out);
  }
};

static void blocks_random(FILE* out, unsigned nexec, unsigned steps, vj::Rng& r) {
  static const long long fl[] = {0x1, 0x2, 0x4, 0x8, 0x10, 0x20, 0x100, 0x200, 0x400, 0x800, 0x1000, 0x300, 0x33};
  for (unsigned x = 0; x < nexec; x++) {
    unsigned nb = 1 + unsigned(r.below(6));
    BlocksWorld W(out, nb);
    unsigned n = 1 + unsigned(r.below(steps));
    for (unsigned i = 0; i < n; i++) {
      unsigned c = unsigned(r.below(100));
      long long a = (long long)r.below(nb), b = (long long)r.below(nb);
      if (c < 40) W.op(mkop({"append"}, {a, b}));
      else if (c < 55) W.op(mkop({"prepend"}, {a, b}));
      else if (c < 70) W.op(mkop({"hassucc"}, {a, b}));
      else if (c < 82) W.op(mkop({"flag"}, {a, fl[r.below(13)]}));
      else if (c < 90) W.op(mkop({"clear"}, {a, fl[r.below(13)]}));
      else if (c < 93) W.op(mkop({"reach"}, {a}));
      else if (c < 96) W.op(mkop({"target"}, {a}));
      else if (c < 98) W.op(mkop({"alloc"}, {a}));
      else W.op(mkop({"constructed"}, {a}));
    }
  }
}

#include "rasupport_part2.h"

// =========================================================================================================
int main(int argc, char** argv) {
  if (argc < 3) { fprintf(stderr, "usage: rasupport script|random|tables|vivo ...\n"); return 3; }
  std::string mode = argv[1];
  if (mode == "script" && argc >= 5) {
    std::string comp = argv[2];
    auto scripts = vj::read_ndjson(argv[3]);
    FILE* out = fopen(argv[4], "w");
    setvbuf(out, nullptr, _IOLBF, 1 << 16);      // a sanitizer abort must not swallow the events before it
    vj::install_abort_handlers(out);
    for (auto& s : scripts) {
      const vj::Value& hdr = s["hdr"];
      if (comp == "stack") {
        StackWorld W(out, hdr.has("scale") ? uint32_t(hdr["scale"].i()) : 1u, hdr.has("tag") ? hdr["tag"].s().c_str() : "script");
        for (auto& op : s["ops"].arr) W.op(op);
      }
      else if (comp == "assign") {
        std::vector<unsigned> pc, wg;
        for (auto& v : hdr["pc"].arr) pc.push_back(unsigned(v.i()));
        for (auto& v : hdr["wg"].arr) wg.push_back(unsigned(v.i()));
        AssignWorld W(out, pc, wg);
        for (auto& op : s["ops"].arr) W.op(op);
      }
      else if (comp == "spans") {
        SpansWorld W(out, uint32_t(hdr["inf"].i()));
        for (auto& op : s["ops"].arr) W.op(op);
      }
      else if (comp == "tied") {
        std::vector<unsigned> wg;
        for (auto& v : hdr["wg"].arr) wg.push_back(unsigned(v.i()));
        TiedWorld W(out, wg);
        for (auto& op : s["ops"].arr) if (!W.op(op)) break;
      }
      else if (comp == "blocks") {
        BlocksWorld W(out, unsigned(hdr["n"].i()));
        for (auto& op : s["ops"].arr) W.op(op);
      }
      else return 3;
      fflush(out);
    }
    fclose(out);
    return 0;
  }
  if (mode == "random" && argc >= 6) {
    std::string comp = argv[2];
    FILE* out = fopen(argv[3], "w");
    vj::install_abort_handlers(out);
    unsigned nexec = unsigned(atoi(argv[4])), steps = unsigned(atoi(argv[5]));
    vj::Rng r(vj::env_seed());
    if (comp == "stack") stack_random(out, nexec, steps, r);
    else if (comp == "stackbig") { for (unsigned i = 0; i < nexec; i++) stack_big(out, steps, r); }
    else if (comp == "assign") assign_random(out, nexec, steps, r);
    else if (comp == "spans") spans_random(out, nexec, steps, r);
    else if (comp == "tied") tied_random(out, nexec, steps, r);
    else if (comp == "blocks") blocks_random(out, nexec, steps, r);
    else return 3;
    fclose(out);
    return 0;
  }
  if (mode == "tables") {
    FILE* out = fopen(argv[2], "w");
    vj::install_abort_handlers(out);
    vj::Rng r(vj::env_seed());
    tables(out, r, argc > 3 ? unsigned(atoi(argv[3])) : 400);
    fclose(out);
    return 0;
  }
  if (mode == "vivo" && argc >= 4) {
    FILE* out = fopen(argv[2], "w");
    vj::install_abort_handlers(out);
    vj::Rng r(vj::env_seed());
    vivo(out, r, unsigned(atoi(argv[3])));
    fclose(out);
    return 0;
  }
  fprintf(stderr, "bad arguments\n");
  return 3;
}
