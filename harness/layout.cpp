// C10 harness: drives a real asmjit::CodeHolder through section creation, flatten(), code_size(),
// copy_flattened_data(), copy_section_data() and relocate_to_base(), and records an ndjson trace for
// spec/code/LayoutTrace.tla.  The harness only *projects* (offsets, sizes, run-length encoded bytes); every
// judgement is made by the specification.
//
//   layout script <scripts.ndjson> <trace.ndjson>
//        one execution per line: {"ops":[["new",name,align,order],["embed",id,n],["vsize",id,v],["far",id,target,call]...],
//                                 "copies":[[mode,n,flags]...]   (mode "need": size = code_size()+n, "abs": size = n;  absent = full matrix),
//                                 "seccopies":k}
//   layout random <trace.ndjson> <executions>            (seed: VERIF_SEED)
#include <asmjit/core.h>
#include <asmjit/x86.h>
#include "vjson.h"
#include <limits>
#include <csignal>

using namespace asmjit;

static const uint8_t kU = 0xCD;          // "previous content" of every destination / guard cell
static const size_t kGuard = 256;       // contiguous overruns always cross the adjacent guard cells first
static const uint64_t kBase = 0x10000000ull;

static const char* err_name(Error e) {
  switch (e) {
    case Error::kOk: return "Ok";
    case Error::kOutOfMemory: return "OutOfMemory";
    case Error::kInvalidArgument: return "InvalidArgument";
    case Error::kTooLarge: return "TooLarge";
    case Error::kInvalidSectionName: return "InvalidSectionName";
    case Error::kInvalidSection: return "InvalidSection";
    default: return "Other";
  }
}

static void rle(vj::W& w, const char* key, const uint8_t* d, size_t n) {
  w.key(key).beginArr();
  size_t i = 0;
  while (i < n) {
    size_t j = i + 1;
    while (j < n && d[j] == d[i]) j++;
    w.beginArr().val((long long)(j - i)).val((long long)d[i]).endArr();
    i = j;
  }
  w.endArr();
}

static long long off_of(const Section* s) {
  return s->offset() == Globals::kNoSectionOffset || s->offset() > 0x7fffffffull ? -1 : (long long)s->offset();
}
static long long clampi(uint64_t v) { return v > 0x7fffffffull ? 0x7fffffffll : (long long)v; }

struct Copy { bool need; long long n; uint32_t flags; };

// Section::name() as a C string, read with a bound (the name array holds 36 characters).
static std::string cname(const Section* s) { return std::string(s->name(), strnlen(s->name(), Globals::kMaxSectionNameSize + 1)); }

// Make malloc hand out memory that is not zero: the CodeHolder's arena blocks are not cleared either.
static void dirty_heap() {
  static const size_t sizes[] = {64, 600, 4096, 16384, 16384 + 64, 32768, 65536 + 64, 131072};
  std::vector<void*> big, fence;
  for (int rep = 0; rep < 6; rep++)
    for (size_t sz : sizes) {
      void* p = malloc(sz);
      if (p) { memset(p, 0xA5, sz); big.push_back(p); }
      fence.push_back(malloc(24));
    }
  for (void* p : big) free(p);
  static std::vector<void*> keep;                  // the fences stay allocated so that the chunks are not merged away
  keep.insert(keep.end(), fence.begin(), fence.end());
}

struct Exec {
  FILE* out;
  CodeHolder own_;
  CodeHolder& code;            // own_, or a holder shared by consecutive executions (re-used through reset() + init())
  x86::Assembler a;
  vj::W w;
  bool dead = false;

  std::vector<std::string> names;

  Exec(FILE* f, unsigned salt, unsigned seccopies, CodeHolder* shared = nullptr, bool hard = false) : out(f), code(shared ? *shared : own_) {
    Environment env(Arch::kX64);
    // a re-used holder must lay out the new program exactly like a fresh one: whatever flatten() / relocation left in the
    // sections of the previous program (virtual sizes, offsets, the address table) is gone after reset() + init().
    // (reinit() is left to C16: it keeps the base address of an earlier relocate_to_base(), a listed finding there.)
    if (code.is_initialized()) code.reset(hard ? ResetPolicy::kHard : ResetPolicy::kSoft);
    code.init(env);
    code.attach(&a);
    Section* t = code.text_section();
    w.beginObj().kv("e", "Reset").kv("salt", (long long)salt).kv("seccopies", (long long)seccopies).key("text").beginObj().kv("name", cname(t)).kv("order", (long long)t->order()).kv("align", (long long)t->alignment())
     .kv("off", off_of(t)).kv("vs", clampi(t->virtual_size())).kv("buf", (long long)t->buffer_size()).endObj().kv("reused", shared != nullptr).endObj().emit(out);
  }

  void new_section(const std::string& name, uint32_t align, int32_t order) {
    Section* s = nullptr;
    Error err = code.new_section(Out(s), name.c_str(), name.size(), SectionFlags::kNone, align, order);
    w.beginObj().kv("e", "New").kv("name", name).kv("nlen", (long long)name.size()).kv("order", (long long)order).kv("align", (long long)align)
     .kv("r", err_name(err)).kv("id", s ? (long long)s->section_id() : -1).kv("count", (long long)code.section_count())
     .kv("rname", s ? cname(s) : std::string()).endObj().emit(out);
    if (s) {
      names.push_back(name);
      lookup(name);
      if (!name.empty()) lookup(name.substr(0, name.size() - 1));                    // proper prefix
      if (name.size() < Globals::kMaxSectionNameSize) lookup(name + "x");            // extension
    }
  }

  void lookup(const std::string& q) {
    Section* s = code.section_by_name(q.c_str(), q.size());
    w.beginObj().kv("e", "Lookup").kv("name", q).kv("id", s ? (long long)s->section_id() : -1).endObj().emit(out);
  }

  // n marker bytes: head, middle..., tail - distinct per section, never 0 and never kU
  void embed(uint32_t id, size_t n) {
    if (!code.is_section_valid(id) || n == 0) return;
    Section* s = code.section_by_id(id);
    if (s == code._address_table_section) return;          // the table belongs to the code
    std::vector<uint8_t> d(n);
    unsigned i = (id + 1) & 15;
    for (size_t k = 0; k < n; k++) d[k] = uint8_t(16 * i + (k == 0 ? 1 : k == n - 1 ? 3 : 2));
    Error err = a.section(s);
    if (err == Error::kOk) err = a.embed(d.data(), n);
    w.beginObj().kv("e", "Embed").kv("id", (long long)id).kv("r", err_name(err));
    rle(w, "rle", d.data(), n);
    w.kv("buf", (long long)s->buffer_size()).endObj().emit(out);
  }

  void vsize(uint32_t id, uint64_t v) {
    if (!code.is_section_valid(id)) return;
    Section* s = code.section_by_id(id);
    if (s == code._address_table_section) return;
    s->set_virtual_size(v);
    w.beginObj().kv("e", "VSize").kv("id", (long long)id).kv("v", (long long)v).kv("rv", clampi(s->virtual_size())).endObj().emit(out);
  }

  // far jmp/call to an absolute address: creates / grows the address table
  bool used_far = false;
  void far(uint32_t id, unsigned target, bool call) {
    used_far = true;
    if (!code.is_section_valid(id)) return;
    Section* s = code.section_by_id(id);
    if (s == code._address_table_section) return;
    static const uint64_t targets[] = { kBase + 0x1000, kBase + 0x700000000000ull, kBase + 0x700000100000ull, kBase + 0x2000, kBase + 0x700000200000ull };
    uint64_t t = targets[target % 5];
    Error err = a.section(s);
    size_t before = s->buffer_size();
    if (err == Error::kOk) err = call ? a.call(imm(t)) : a.jmp(imm(t));
    size_t after = s->buffer_size();
    Section* at = code._address_table_section;
    if (err != Error::kOk || !at || after < before) {      // not a C10 matter: leave the configuration without this jump
      w.beginObj().kv("e", "Note").kv("what", "far-jump-not-emitted").kv("r", err_name(err)).endObj().emit(out);
      if (after != before) dead = true;
      return;
    }
    w.beginObj().kv("e", "Far").kv("id", (long long)id).kv("t", (long long)(target % 5)).kv("call", call);
    rle(w, "rle", s->data() + before, after - before);
    w.kv("buf", (long long)after);
    w.key("at").beginObj().kv("id", (long long)at->section_id()).kv("name", cname(at)).kv("align", (long long)at->alignment()).kv("order", (long long)at->order())
     .kv("vsize", clampi(at->virtual_size())).kv("buf", (long long)at->buffer_size()).endObj();
    w.endObj().emit(out);
    lookup(".addrtab");
  }

  void table(const char* key, bool with_data) {
    w.key(key).beginArr();
    for (Section* s : code.sections()) {
      w.beginObj().kv("off", off_of(s)).kv("vsize", clampi(s->virtual_size())).kv("buf", (long long)s->buffer_size());
      if (with_data) rle(w, "data", s->data(), s->buffer_size());
      w.endObj();
    }
    w.endArr();
  }

  void code_size() {
    size_t n = code.code_size();
    w.beginObj().kv("e", "CodeSize").kv("n", clampi(n)).endObj().emit(out);
  }

  void flatten(const char* ev) {
    std::vector<long long> before;
    for (Section* s : code.sections()) { before.push_back(off_of(s)); before.push_back(clampi(s->virtual_size())); }
    Error err = code.flatten();
    std::vector<long long> after;
    for (Section* s : code.sections()) { after.push_back(off_of(s)); after.push_back(clampi(s->virtual_size())); }
    w.beginObj().kv("e", ev).kv("r", err_name(err));
    table("secs", false);
    w.kv("same", before == after);
    w.key("byorder").beginArr();
    for (Section* s : code.sections_by_order()) w.val((long long)s->section_id());
    w.endArr();
    w.endObj().emit(out);
  }

  void copy_flat(size_t size, uint32_t flags) {
    std::vector<uint8_t> buf(size + 2 * kGuard, kU);
    Error err = code.copy_flattened_data(buf.data() + kGuard, size, CopySectionFlags(flags));
    w.beginObj().kv("e", "Copy").kv("size", (long long)size).kv("flags", (long long)flags).kv("r", err_name(err));
    rle(w, "runs", buf.data() + kGuard, size);
    rle(w, "gpre", buf.data(), kGuard);
    rle(w, "gpost", buf.data() + kGuard + size, kGuard);
    w.endObj().emit(out);
  }

  void copy_sec(uint32_t id, size_t size, uint32_t flags) {
    std::vector<uint8_t> buf(size + 2 * kGuard, kU);
    Error err = code.copy_section_data(buf.data() + kGuard, size, id, CopySectionFlags(flags));
    w.beginObj().kv("e", "CopySec").kv("id", (long long)id).kv("size", (long long)size).kv("flags", (long long)flags).kv("r", err_name(err));
    rle(w, "runs", buf.data() + kGuard, size);
    rle(w, "gpre", buf.data(), kGuard);
    rle(w, "gpost", buf.data() + kGuard + size, kGuard);
    w.endObj().emit(out);
  }

  bool relocate() {
    CodeHolder::RelocationSummary sum;
    sum.code_size_reduction = 0;
    Error err = code.relocate_to_base(kBase, &sum);
    w.beginObj().kv("e", "Reloc").kv("r", err_name(err));
    table("secs", true);
    w.kv("reduction", clampi(sum.code_size_reduction));
    Section* at = code._address_table_section;
    w.kv("at_last", at && code._sections_by_order.last() == at);
    w.endObj().emit(out);
    return err == Error::kOk;
  }

  void run_copies(const std::vector<Copy>& copies, size_t need) {
    std::vector<std::pair<size_t, uint32_t>> done;
    for (auto& c : copies) {
      long long sz = c.need ? (long long)need + c.n : c.n;
      if (sz < 0 || sz > 0x4000000) continue;
      auto key = std::make_pair((size_t)sz, c.flags);
      bool dup = false;
      for (auto& d : done) dup |= d == key;
      if (dup) continue;
      done.push_back(key);
      copy_flat((size_t)sz, c.flags);
    }
  }

  // the fixed tail of every execution
  void end() { w.beginObj().kv("e", "End").endObj().emit(out); }

  void finish(const std::vector<Copy>& copies, unsigned seccopies, unsigned salt) {
    if (!dead) tail(copies, seccopies, salt);
    end();                                    // an execution without End was cut short (crash) and is rejected
  }

  // Alternative tail (jitruntime.cpp is part of C10's code): JitRuntime::_add lays the sections out itself (flatten +
  // relocate) and copies them into executable memory - "writes each section's bytes at its offset, zero-fills padding".
  // The memory handed out by the allocator holds the fill pattern kU, so a byte that was not written shows. Recorded as
  // the events the contract already knows: Flatten (layout after _add; executions with far jumps are excluded, so
  // relocation does not change it) and Copy of exactly code_size() bytes with the pad-section flag.
  bool install_tail(unsigned salt) {
    lookup(".text");
    code_size();
    JitAllocator::CreateParams params;
    params.options = JitAllocatorOptions::kFillUnusedMemory | JitAllocatorOptions::kCustomFillPattern | ((salt & 8) ? JitAllocatorOptions::kUseDualMapping : JitAllocatorOptions::kNone);
    params.fill_pattern = 0x01010101u * kU;
    JitRuntime rt(&params);
    void* p = nullptr;
    Error err = rt._add(&p, &code);
    if (err != Error::kOk || !p) {
      w.beginObj().kv("e", "Note").kv("what", "install-refused").kv("r", err_name(err)).endObj().emit(out);
      return false;
    }
    std::vector<long long> dummy;
    w.beginObj().kv("e", "Flatten").kv("r", "Ok");
    table("secs", false);
    w.kv("same", false);
    w.key("byorder").beginArr();
    for (Section* s : code.sections_by_order()) w.val((long long)s->section_id());
    w.endArr();
    w.endObj().emit(out);
    size_t size = code.code_size();
    code_size();
    std::vector<uint8_t> guard(kGuard, kU);
    w.beginObj().kv("e", "Copy").kv("size", (long long)size).kv("flags", 1).kv("r", "Ok");
    rle(w, "runs", static_cast<const uint8_t*>(p), size);
    rle(w, "gpre", guard.data(), kGuard);
    rle(w, "gpost", guard.data(), kGuard);
    w.endObj().emit(out);
    rt._release(p);
    return true;
  }

  void tail(const std::vector<Copy>& copies, unsigned seccopies, unsigned salt) {
    if (!used_far && salt % 4 == 3) { install_tail(salt); return; }
    lookup(".text");
    for (size_t i = 0; i < names.size() && i < 4; i++) lookup(names[(salt + i) % names.size()]);   // after everything else was created
    code_size();                              // estimate before flatten
    flatten("Flatten");
    size_t need = code.code_size();
    code_size();
    run_copies(copies, need);
    unsigned nsec = code.section_count();
    for (unsigned k = 0; k < seccopies && nsec; k++) {
      uint32_t id = (salt + k) % nsec;
      size_t b = code.section_by_id(id)->buffer_size();
      static const long long deltas[] = {0, -1, 5, 1};
      long long sz = (long long)b + deltas[(salt / 3 + k) % 4];
      if (sz < 0) sz = 0;
      copy_sec(id, (size_t)sz, (salt + k) % 4);
    }
    if (seccopies) copy_sec(nsec + 1, 8, 1);  // invalid section id: must not write
    if (!relocate()) return;
    size_t need2 = code.code_size();
    code_size();
    std::vector<Copy> after = { {true, 0, 3}, {true, 0, 0}, {true, -1, 1}, {true, 3, 2} };
    run_copies(after, need2);
    flatten("Flatten2");                      // informational only (the header says flatten() is called once)
  }
};

static std::vector<Copy> full_matrix() {
  std::vector<Copy> c;
  for (uint32_t f = 0; f < 4; f++) {
    c.push_back({false, 0, f});
    c.push_back({true, -1, f});
    c.push_back({true, 0, f});
    c.push_back({true, 7, f});
  }
  return c;
}

static std::string rand_name(vj::Rng& r, std::vector<std::string>& used) {
  unsigned c = (unsigned)r.below(100);
  if (c < 15 && !used.empty()) return r.pick(used);                 // duplicate
  if (c < 20) return ".text";
  if (c < 24) return ".addrtab";
  if (c < 28) return "";
  size_t len = c < 36 ? 35 : c < 42 ? 36 + r.below(30) : 1 + r.below(12);   // max length, too long, ordinary
  std::string s;
  for (size_t i = 0; i < len; i++) s += char(c < 50 && i % 3 == 0 ? '.' : 'a' + r.below(26));
  if (c >= 50 && c < 55) s[0] = char(0x80 + r.below(0x7f));           // non-ASCII byte
  used.push_back(s);
  return s;
}

static void on_signal(int) { vj::abort_line(); _exit(71); }

int main(int argc, char** argv) {
  if (argc < 3) { fprintf(stderr, "usage\n"); return 3; }
  std::string mode = argv[1];
  signal(SIGSEGV, on_signal); signal(SIGBUS, on_signal); signal(SIGABRT, on_signal); signal(SIGFPE, on_signal);
  if (mode == "script") {
    auto scripts = vj::read_ndjson(argv[2]);
    FILE* out = fopen(argv[3], "w");
    vj::install_abort_handlers(out);
    unsigned n = 0;
    dirty_heap();
    for (auto& s : scripts) {
      if (n % 64 == 63) dirty_heap();
      unsigned sc = s.has("seccopies") ? (unsigned)s["seccopies"].i() : 2;
      unsigned salt = s.has("salt") ? (unsigned)s["salt"].i() : n;
      Exec ex(out, salt, sc);
      for (auto& op : s["ops"].arr) {
        const std::string& k = op[0].s();
        if (k == "new") ex.new_section(op[1].s(), (uint32_t)op[2].i(), (int32_t)op[3].i());
        else if (k == "embed") ex.embed((uint32_t)op[1].i(), (size_t)op[2].i());
        else if (k == "vsize") ex.vsize((uint32_t)op[1].i(), (uint64_t)op[2].i());
        else if (k == "far") ex.far((uint32_t)op[1].i(), (unsigned)op[2].i(), op[3].i() != 0);
      }
      std::vector<Copy> copies;
      if (s.has("copies")) {
        for (auto& c : s["copies"].arr) copies.push_back({c[0].s() == "need", c[1].i(), (uint32_t)c[2].i()});
      } else copies = full_matrix();
      ex.finish(copies, sc, salt);
      n++;
    }
    fclose(out);
    return 0;
  }
  if (mode == "random") {
    FILE* out = fopen(argv[2], "w");
    vj::install_abort_handlers(out);
    unsigned nexec = (unsigned)atoi(argv[3]);
    vj::Rng r(vj::env_seed());
    static const int32_t orders[] = { std::numeric_limits<int32_t>::min(), -100, -5, -1, -1, 0, 0, 0, 1, 1, 2, 7, 1000, std::numeric_limits<int32_t>::max(), std::numeric_limits<int32_t>::max() };
    dirty_heap();
    for (unsigned x = 0; x < nexec; x++) {
      if (x % 64 == 63) dirty_heap();
      unsigned salt = (unsigned)r.below(1000);
      static CodeHolder shared;
      bool reuse = r.chance(1, 2), hard = r.chance(1, 2);
      Exec ex(out, salt, 2, reuse ? &shared : nullptr, hard);
      std::vector<std::string> used;
      unsigned nsec = (unsigned)r.below(13);
      unsigned maxlog = r.chance(1, 3) ? 16 : r.chance(1, 2) ? 6 : 3;          // alignments up to 64 KiB / 64 / 8
      unsigned created = 1;
      unsigned nops = nsec + (unsigned)r.below(3 * nsec + 4);
      for (unsigned i = 0; i < nops; i++) {
        unsigned c = (unsigned)r.below(100);
        unsigned cnt = ex.code.section_count();
        if ((c < 40 && created <= nsec) || cnt == 0) {
          uint32_t align = r.chance(1, 10) ? 0 : r.chance(1, 25) ? (uint32_t)(3 + r.below(60)) : (1u << r.below(maxlog + 1));
          ex.new_section(rand_name(r, used), align, orders[r.below(15)]);
          created++;
        } else if (c < 70) {
          static const size_t ns[] = {1, 2, 3, 5, 8, 16, 17, 63, 64, 100, 300};
          ex.embed((uint32_t)r.below(cnt), ns[r.below(11)]);
        } else if (c < 88) {
          static const uint64_t vs[] = {0, 1, 3, 8, 40, 64, 100, 4096, 100000};
          ex.vsize((uint32_t)r.below(cnt), vs[r.below(9)]);
        } else {
          ex.far((uint32_t)r.below(cnt), (unsigned)r.below(5), r.chance(1, 2));
        }
      }
      std::vector<Copy> copies;
      unsigned ncp = 4 + (unsigned)r.below(4);
      for (unsigned i = 0; i < ncp; i++) {
        static const long long ds[] = {0, 0, -1, 1, 7, -7, 64, -64, -4096, 100};
        if (r.chance(1, 6)) copies.push_back({false, (long long)r.below(64), (uint32_t)r.below(4)});
        else copies.push_back({true, ds[r.below(10)], (uint32_t)r.below(4)});
      }
      ex.finish(copies, 2, salt);
    }
    fclose(out);
    return 0;
  }
  return 3;
}
