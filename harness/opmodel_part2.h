// X04 harness, part 2: register, immediate, label, register-list, RegOnly and Environment machines (included by opmodel.cpp)

// ---- registers -------------------------------------------------------------------------------------------
static const RegType kTypePreds[] = { RegType::kGp8Lo, RegType::kGp8Hi, RegType::kGp16, RegType::kGp32, RegType::kGp64, RegType::kVec8, RegType::kVec16, RegType::kVec32,
  RegType::kVec64, RegType::kVec128, RegType::kVec256, RegType::kVec512, RegType::kMask, RegType::kTile, RegType::kSegment, RegType::kControl, RegType::kDebug,
  RegType::kX86_Mm, RegType::kX86_St, RegType::kX86_Bnd, RegType::kPC };

template<typename T>
static void type_flags(const T& r, bool f[21]) {
  f[0] = r.is_gp8_lo(); f[1] = r.is_gp8_hi(); f[2] = r.is_gp16(); f[3] = r.is_gp32(); f[4] = r.is_gp64(); f[5] = r.is_vec8(); f[6] = r.is_vec16(); f[7] = r.is_vec32();
  f[8] = r.is_vec64(); f[9] = r.is_vec128(); f[10] = r.is_vec256(); f[11] = r.is_vec512(); f[12] = r.is_mask_reg(); f[13] = r.is_tile_reg(); f[14] = r.is_segment_reg();
  f[15] = r.is_control_reg(); f[16] = r.is_debug_reg(); f[17] = r.is_mm_reg(); f[18] = r.is_st_reg(); f[19] = r.is_bnd_reg(); f[20] = r.is_pc();
}
template<typename T>
static void type_flags_id(const T& r, uint32_t id, bool f[21]) {
  f[0] = r.is_gp8_lo(id); f[1] = r.is_gp8_hi(id); f[2] = r.is_gp16(id); f[3] = r.is_gp32(id); f[4] = r.is_gp64(id); f[5] = r.is_vec8(id); f[6] = r.is_vec16(id); f[7] = r.is_vec32(id);
  f[8] = r.is_vec64(id); f[9] = r.is_vec128(id); f[10] = r.is_vec256(id); f[11] = r.is_vec512(id); f[12] = r.is_mask_reg(id); f[13] = r.is_tile_reg(id); f[14] = r.is_segment_reg(id);
  f[15] = r.is_control_reg(id); f[16] = r.is_debug_reg(id); f[17] = r.is_mm_reg(id); f[18] = r.is_st_reg(id); f[19] = r.is_bnd_reg(id); f[20] = true;
}
template<typename T>
static bool id_variants_ok(const T& r, uint32_t id) {
  bool a[21], b[21], c[21];
  type_flags(r, a); type_flags_id(r, id, b); type_flags_id(r, id ^ 1u, c);
  bool ok = true;
  for (int i = 0; i < 20; i++) ok = ok && a[i] == b[i] && !c[i];
  ok = ok && r.is_kreg() == a[12] && r.is_tmm_reg() == a[13] && r.is_kreg(id) == a[12] && r.is_tmm_reg(id) == a[13] && !r.is_kreg(id ^ 1u) && !r.is_tmm_reg(id ^ 1u);
  ok = ok && r.is_gp8(id) == r.is_gp8() && !r.is_gp8(id ^ 1u);
  for (int i = 0; i < 21; i++) ok = ok && r.is_reg(kTypePreds[i]) == a[i] && r.is_reg(kTypePreds[i], id) == a[i] && !r.is_reg(kTypePreds[i], id ^ 1u);
  return ok;
}
static void flags_arr(W& w, const char* k, const bool f[21]) { w.key(k).beginArr(); for (int i = 0; i < 21; i++) w.val((long long)f[i]); w.endArr(); }

static void reg_view(W& w, const Reg& r) {
  using S = OperandSignature;
  const Operand_& o = r;
  S sg = S::from_op_type(o.op_type()) | S::from_reg_type(r.reg_type()) | S::from_reg_group(r.reg_group()) | S::from_size(r.size()) | S::from_predicate(r.predicate());
  if (r.is_reg() || true) {
    const a64::Vec& v = r.as<a64::Vec>();
    sg |= S::from_value<a64::Vec::kSignatureRegElementTypeMask>(v.element_type()) | S::from_value<a64::Vec::kSignatureRegElementIndexMask>(v.element_index()) |
          S::from_bits(v.has_element_index() ? a64::Vec::kSignatureRegElementFlagMask : 0u);
  }
  Reg c(sg, r.id());
  bool derived = r.has_size(r.size()) && r.base_signature() == (r.signature() & Reg::kBaseSignatureMask) && r.clone().equals(r) && Reg(r, r.id()).equals(r);
  common_view(w, r, c, derived);
  bool same = r.is_same(c) && c.is_same(r) && !r.is_same(Reg(sg, r.id() ^ 1u)) && r.has_base_signature(c) && r.has_base_signature(c.base_signature()) && r.has_base_signature(c.base_signature().bits());
  w.kv("same", same).kv("valid", r.is_valid()).kv("phys", r.is_phys_reg()).kv("virt", r.is_virt_reg()).kv("ophys", o.is_phys_reg()).kv("ovirt", o.is_virt_reg())
   .kv("rt", (unsigned)r.reg_type()).kv("grp", (unsigned)r.reg_group()).kv("size", r.size()).kv("hassize", r.has_size()).kv("pred", r.predicate());
  bool f[21];
  type_flags(o, f); flags_arr(w, "otf", f);
  w.kv("ogp", o.is_gp()).kv("ovec", o.is_vec()).kv("ogp8", o.is_gp8());
  uint32_t id = r.id();
  w.kv("ogpid", o.is_gp(id)).kv("ovecid", o.is_vec(id)).kv("otid", o.is_reg(r.reg_type(), id) && o.is_reg(r.reg_group(), id) && o.is_reg(r.reg_type()) && o.is_reg(r.reg_group()));
  w.kv("ogpidx", o.is_gp(id ^ 1u)).kv("ovecidx", o.is_vec(id ^ 1u)).kv("otidx", o.is_reg(r.reg_type(), id ^ 1u) || o.is_reg(r.reg_group(), id ^ 1u));
  w.kv("oidvar", id_variants_ok(o, id));
  type_flags(r, f); flags_arr(w, "rtf", f);
  w.kv("rgp", r.is_gp()).kv("rvec", r.is_vec()).kv("rgp8", r.is_gp8()).kv("ridvar", id_variants_ok(r, id) && r.is_gp(id) == r.is_gp() && r.is_vec(id) == r.is_vec() && !r.is_gp(id ^ 1u) && !r.is_vec(id ^ 1u));
  w.kv("basesig", r.has_base_signature(Reg::signature_of(r.reg_type())));
}

struct RegM : Machine {
  Reg r;
  bool a64;
  explicit RegM(bool a) : a64(a) {}
  const char* name() const override { return a64 ? "a64reg" : "x86reg"; }
  void reset() override { r = Reg(); }

  static Reg x86_make(uint32_t rt, uint32_t id, uint32_t via, uint32_t sub) {
    if (via == 0) return Reg::from_type_and_id(RegType(rt), id);
    if (via == 2) return is_vec_rt(rt) ? Reg(x86::Vec::from_type_and_id(RegType(rt), id)) : Reg(x86::Gp::from_type_and_id(RegType(rt), id));
    switch (RegType(rt)) {
      case RegType::kGp8Lo: switch (sub % 6) { case 0: return x86::Gp::make_r8(id); case 1: return x86::Gp::make_r8_lo(id); case 2: return x86::gpb(id); case 3: return x86::gp8(id); case 4: return x86::gpb_lo(id); default: return x86::gp8_lo(id); }
      case RegType::kGp8Hi: switch (sub % 3) { case 0: return x86::Gp::make_r8_hi(id); case 1: return x86::gpb_hi(id); default: return x86::gp8_hi(id); }
      case RegType::kGp16: switch (sub % 3) { case 0: return x86::Gp::make_r16(id); case 1: return x86::gpw(id); default: return x86::gp16(id); }
      case RegType::kGp32: switch (sub % 4) { case 0: return x86::Gp::make_r32(id); case 1: return x86::gpd(id); case 2: return x86::gp32(id); default: return UniGp::make_r32(id); }
      case RegType::kGp64: switch (sub % 4) { case 0: return x86::Gp::make_r64(id); case 1: return x86::gpq(id); case 2: return x86::gp64(id); default: return UniGp::make_r64(id); }
      case RegType::kVec128: switch (sub % 4) { case 0: return x86::Vec::make_v128(id); case 1: return x86::Vec::make_xmm(id); case 2: return x86::xmm(id); default: return UniVec::make_v128(id); }
      case RegType::kVec256: switch (sub % 4) { case 0: return x86::Vec::make_v256(id); case 1: return x86::Vec::make_ymm(id); case 2: return x86::ymm(id); default: return UniVec::make_v256(id); }
      case RegType::kVec512: switch (sub % 4) { case 0: return x86::Vec::make_v512(id); case 1: return x86::Vec::make_zmm(id); case 2: return x86::zmm(id); default: return UniVec::make_v512(id); }
      case RegType::kMask: return sub % 2 ? Reg(x86::k(id)) : Reg(x86::KReg(id));
      case RegType::kX86_Mm: return sub % 2 ? Reg(x86::mm(id)) : Reg(x86::Mm(id));
      case RegType::kControl: return sub % 2 ? Reg(x86::cr(id)) : Reg(x86::CReg(id));
      case RegType::kDebug: return sub % 2 ? Reg(x86::dr(id)) : Reg(x86::DReg(id));
      case RegType::kX86_St: return sub % 2 ? Reg(x86::st(id)) : Reg(x86::St(id));
      case RegType::kX86_Bnd: return sub % 2 ? Reg(x86::bnd(id)) : Reg(x86::Bnd(id));
      case RegType::kTile: return sub % 2 ? Reg(x86::tmm(id)) : Reg(x86::Tmm(id));
      case RegType::kSegment: return x86::SReg(id);
      case RegType::kPC: return x86::Rip(id);
      default: return Reg::from_type_and_id(RegType(rt), id);
    }
  }
  static Reg a64_make(uint32_t rt, uint32_t id, uint32_t via, uint32_t sub) {
    if (via == 0) return Reg::from_type_and_id(RegType(rt), id);
    if (via == 2) return is_vec_rt(rt) ? Reg(a64::Vec::from_type_and_id(RegType(rt), id)) : Reg(a64::Gp::from_type_and_id(RegType(rt), id));
    switch (RegType(rt)) {
      case RegType::kGp32: switch (sub % 4) { case 0: return a64::Gp::make_r32(id); case 1: return a64::Gp::make_w(id); case 2: return a64::w(id); default: return a64::gp32(id); }
      case RegType::kGp64: switch (sub % 4) { case 0: return a64::Gp::make_r64(id); case 1: return a64::Gp::make_x(id); case 2: return a64::x(id); default: return a64::gp64(id); }
      case RegType::kVec8: switch (sub % 3) { case 0: return a64::Vec::make_v8(id); case 1: return a64::Vec::make_b(id); default: return a64::b(id); }
      case RegType::kVec16: switch (sub % 3) { case 0: return a64::Vec::make_v16(id); case 1: return a64::Vec::make_h(id); default: return a64::h(id); }
      case RegType::kVec32: switch (sub % 3) { case 0: return a64::Vec::make_v32(id); case 1: return a64::Vec::make_s(id); default: return a64::s(id); }
      case RegType::kVec64: switch (sub % 3) { case 0: return a64::Vec::make_v64(id); case 1: return a64::Vec::make_d(id); default: return a64::d(id); }
      case RegType::kVec128: switch (sub % 4) { case 0: return a64::Vec::make_v128(id); case 1: return a64::Vec::make_q(id); case 2: return a64::q(id); default: return a64::v(id); }
      default: return Reg::from_type_and_id(RegType(rt), id);
    }
  }

  template<RegType RT> void set_reg_t_(uint32_t id) { r.set_reg_t<RT>(id); }
  bool set_reg_t(uint32_t rt, uint32_t id) {
    switch (RegType(rt)) {
#define C(T) case RegType::T: set_reg_t_<RegType::T>(id); return true;
      C(kGp8Lo) C(kGp8Hi) C(kGp16) C(kGp32) C(kGp64) C(kVec8) C(kVec16) C(kVec32) C(kVec64) C(kVec128) C(kVec256) C(kVec512) C(kVecNLen) C(kMask) C(kTile)
      C(kSegment) C(kControl) C(kDebug) C(kX86_Mm) C(kX86_St) C(kX86_Bnd) C(kPC)
#undef C
      default: return false;
    }
  }

  bool cast(const std::string& fn) {
    if (fn == "u_r32") { r = r.as<UniGp>().r32(); return true; }
    if (fn == "u_r64") { r = r.as<UniGp>().r64(); return true; }
    if (fn == "u_v128") { r = r.as<UniVec>().v128(); return true; }
    if (fn == "u_v256") { r = r.as<UniVec>().v256(); return true; }
    if (fn == "u_v512") { r = r.as<UniVec>().v512(); return true; }
    if (!a64) {
      const x86::Gp& g = r.as<x86::Gp>(); const x86::Vec& v = r.as<x86::Vec>();
      if (fn == "r8") r = g.r8(); else if (fn == "r8_lo") r = g.r8_lo(); else if (fn == "r8_hi") r = g.r8_hi(); else if (fn == "r16") r = g.r16();
      else if (fn == "r32") r = g.r32(); else if (fn == "r64") r = g.r64(); else if (fn == "v128") r = v.v128(); else if (fn == "v256") r = v.v256();
      else if (fn == "v512") r = v.v512(); else if (fn == "xmm") r = v.xmm(); else if (fn == "ymm") r = v.ymm(); else if (fn == "zmm") r = v.zmm();
      else return false;
    }
    else {
      const a64::Gp& g = r.as<a64::Gp>(); const a64::Vec& v = r.as<a64::Vec>();
      if (fn == "r32") r = g.r32(); else if (fn == "r64") r = g.r64(); else if (fn == "w") r = g.w(); else if (fn == "x") r = g.x();
      else if (fn == "v8") r = v.v8(); else if (fn == "v16") r = v.v16(); else if (fn == "v32") r = v.v32(); else if (fn == "v64") r = v.v64(); else if (fn == "v128") r = v.v128();
      else if (fn == "b") r = v.b(); else if (fn == "h") r = v.h(); else if (fn == "s") r = v.s(); else if (fn == "d") r = v.d(); else if (fn == "q") r = v.q();
      else return false;
    }
    return true;
  }

  bool exec(const Value& ev, std::string&) override {
    const std::string& e = ev["e"].s();
    uint32_t via = ev.has("via") ? uint32_t(ev["via"].i()) : 0, sub = ev.has("sub") ? uint32_t(ev["sub"].i()) : 0;
    if (e == "reset") static_cast<Operand_&>(r).reset();
    else if (e == "default") {
      if (via == 0) r = Reg();
      else if (a64) r = (sub & 1) ? Reg(a64::Gp()) : Reg(a64::Vec());
      else r = (sub & 1) ? Reg(x86::Gp()) : Reg(x86::Vec());
      // abstract register classes default to the bare register signature as well
    }
    else if (e == "make") r = a64 ? a64_make(uint32_t(ev["rt"].i()), r32(ev["id"]), via, sub) : x86_make(uint32_t(ev["rt"].i()), r32(ev["id"]), via, sub);
    else if (e == "set_id") r.set_id(r32(ev["id"]));
    else if (e == "set_predicate") r.set_predicate(uint32_t(ev["n"].i()));
    else if (e == "reset_predicate") r.reset_predicate();
    else if (e == "set_reg_t") return set_reg_t(uint32_t(ev["rt"].i()), r32(ev["id"]));
    else if (e == "set_signature_and_id") r.set_signature_and_id(Reg::signature_of(RegType(ev["rt"].i())) | OperandSignature::from_predicate(uint32_t(ev["n"].i())), r32(ev["id"]));
    else if (e == "clone_as") {
      Reg other(Reg::signature_of(RegType(ev["rt"].i())) | OperandSignature::from_predicate(uint32_t(ev["n"].i())), 77);
      r = r.clone_as(other);
    }
    else if (e == "clone") r = r.clone();
    else if (e == "cast") return cast(ev["fn"].s());
    else if (e == "half") r = r.as<x86::Vec>().half();
    else if (e == "arrangement") {
      const a64::Vec& v = r.as<a64::Vec>(); const std::string& fn = ev["fn"].s();
      if (fn == "b8") r = v.b8(); else if (fn == "b16") r = v.b16(); else if (fn == "h2") r = v.h2(); else if (fn == "h4") r = v.h4(); else if (fn == "h8") r = v.h8();
      else if (fn == "s2") r = v.s2(); else if (fn == "s4") r = v.s4(); else if (fn == "d2") r = v.d2(); else return false;
    }
    else if (e == "element") {
      const a64::Vec& v = r.as<a64::Vec>(); const std::string& fn = ev["fn"].s(); uint32_t n = uint32_t(ev["n"].i());
      if (fn == "b_i") r = v.b(n); else if (fn == "h_i") r = v.h(n); else if (fn == "s_i") r = v.s(n); else if (fn == "d_i") r = v.d(n);
      else if (fn == "h2_i") r = v.h2(n); else if (fn == "b4_i") r = v.b4(n); else return false;
    }
    else if (e == "make_et") {
      uint32_t rt = uint32_t(ev["rt"].i()), id = r32(ev["id"]); a64::VecElementType et = a64::VecElementType(ev["n"].i());
      r = rt == 9 ? a64::Vec::make_v32_with_element_type(et, id) : rt == 10 ? a64::Vec::make_v64_with_element_type(et, id) : a64::Vec::make_v128_with_element_type(et, id);
    }
    else if (e == "make_ei") r = a64::Vec::make_v128_with_element_index(a64::VecElementType(ev["et"].i()), uint32_t(ev["n"].i()), r32(ev["id"]));
    else if (e == "set_element_type") r.as<a64::Vec>().set_element_type(a64::VecElementType(ev["n"].i()));
    else if (e == "reset_element_type") r.as<a64::Vec>().reset_element_type();
    else if (e == "set_element_index") r.as<a64::Vec>().set_element_index(uint32_t(ev["n"].i()));
    else if (e == "reset_element_index") r.as<a64::Vec>().reset_element_index();
    else if (e == "at") r = r.as<a64::Vec>().at(uint32_t(ev["n"].i()));
    else return false;
    return true;
  }

  void view(W& w) override {
    reg_view(w, r);
    if (!a64) { const x86::Vec& v = r.as<x86::Vec>(); w.kv("xmm", v.is_xmm()).kv("ymm", v.is_ymm()).kv("zmm", v.is_zmm()); }
    else {
      const a64::Gp& g = r.as<a64::Gp>(); const a64::Vec& v = r.as<a64::Vec>();
      w.kv("zr", g.is_zr()).kv("sp", g.is_sp()).kv("et", (unsigned)v.element_type()).kv("haset", v.has_element_type()).kv("hasei", v.has_element_index())
       .kv("ei", v.element_index()).kv("hasetoi", v.has_element_type_or_index()).kv("vb8", v.is_vec_b8()).kv("vh4", v.is_vec_h4()).kv("vs2", v.is_vec_s2())
       .kv("vb16", v.is_vec_b16()).kv("vh8", v.is_vec_h8()).kv("vs4", v.is_vec_s4()).kv("vd2", v.is_vec_d2()).kv("vb4x4", v.is_vec_b4x4()).kv("vh2x4", v.is_vec_h2x4());
    }
  }

  std::string gen(vj::Rng& rr) override {
    static const uint32_t x86rts[] = { 2, 3, 4, 5, 6, 11, 12, 13, 16, 17, 25, 26, 27, 28, 29, 30, 31 };
    static const uint32_t a64rts[] = { 5, 6, 7, 8, 9, 10, 11, 15, 16, 31 };
    auto rt = [&]() { return a64 ? a64rts[rr.below(10)] : x86rts[rr.below(17)]; };
    unsigned k = unsigned(rr.below(a64 ? 26 : 17));
    switch (k) {
      case 0: return EvB("reset").done();
      case 1: return EvB("default").n("via", rr.below(2)).n("sub", rr.below(2)).done();
      case 2: case 3: case 4: return EvB("make").n("rt", rt()).u32("id", rnd_id(rr)).n("via", rr.below(3)).n("sub", rr.below(12)).done();
      case 5: return EvB("set_id").u32("id", rnd_id(rr)).done();
      case 6: return EvB("set_predicate").n("n", rr.below(16)).done();
      case 7: return EvB("reset_predicate").done();
      case 8: return EvB("set_reg_t").n("rt", rt()).u32("id", rnd_id(rr)).done();
      case 9: return EvB("set_signature_and_id").n("rt", rt()).n("n", rr.below(16)).u32("id", rnd_id(rr)).done();
      case 10: return EvB("clone_as").n("rt", rt()).n("n", rr.chance(1, 2) ? 0 : rr.below(16)).done();
      case 11: return EvB("clone").done();
      case 12: case 13: case 14: case 15: {
        static const char* xc[] = { "r8", "r8_lo", "r8_hi", "r16", "r32", "r64", "v128", "v256", "v512", "xmm", "ymm", "zmm", "u_r32", "u_r64", "u_v128", "u_v256", "u_v512" };
        static const char* ac[] = { "r32", "r64", "w", "x", "v8", "v16", "v32", "v64", "v128", "b", "h", "s", "d", "q", "u_r32", "u_r64", "u_v128", "u_v256", "u_v512" };
        return EvB("cast").s("fn", a64 ? ac[rr.below(19)] : xc[rr.below(17)]).done();
      }
      case 16: if (!a64) return EvB("half").done(); /* fallthrough */
      case 17: { static const char* ar[] = { "b8", "b16", "h2", "h4", "h8", "s2", "s4", "d2" }; return EvB("arrangement").s("fn", ar[rr.below(8)]).done(); }
      case 18: { static const char* el[] = { "b_i", "h_i", "s_i", "d_i", "h2_i", "b4_i" }; return EvB("element").s("fn", el[rr.below(6)]).n("n", rr.below(16)).done(); }
      case 19: return EvB("make_et").n("rt", 9 + rr.below(3)).n("n", rr.below(7)).u32("id", rnd_id(rr)).done();
      case 20: return EvB("make_ei").n("et", rr.below(7)).n("n", rr.below(16)).u32("id", rnd_id(rr)).done();
      case 21: return EvB("set_element_type").n("n", rr.below(7)).done();
      case 22: return EvB("reset_element_type").done();
      case 23: return EvB("set_element_index").n("n", rr.below(16)).done();
      case 24: return EvB("reset_element_index").done();
      default: return EvB("at").n("n", rr.below(16)).done();
    }
  }
};

// ---- immediates ------------------------------------------------------------------------------------------
struct ImmM : Machine {
  Imm im;
  const char* name() const override { return "imm"; }
  void reset() override { im = Imm(); }

  template<typename T> static Imm mk(uint64_t v, uint32_t pred, bool with_pred) { return with_pred ? Imm(T(v), pred) : Imm(T(v)); }
  bool exec(const Value& ev, std::string& extra) override {
    const std::string& e = ev["e"].s();
    if (e == "reset") static_cast<Operand_&>(im).reset();
    else if (e == "default") im = Imm();
    else if (e == "make_int" || e == "set_value_int") {
      const std::string& T = ev["T"].s(); uint64_t v = r64(ev["v"]); uint32_t p = e == "make_int" ? uint32_t(ev["n"].i()) : 0; bool wp = p != 0 || (ev.has("via") && ev["via"].i() == 1);
      bool make = e == "make_int";
#define TT(name, type) if (T == name) { if (make) { im = (ev.has("via") && ev["via"].i() == 2 && p == 0) ? imm(type(v)) : mk<type>(v, p, wp); } else im.set_value(type(v)); return true; }
      TT("i8", int8_t) TT("u8", uint8_t) TT("i16", int16_t) TT("u16", uint16_t) TT("i32", int32_t) TT("u32", uint32_t) TT("i64", int64_t) TT("u64", uint64_t)
#undef TT
      return false;
    }
    else if (e == "make_fp" || e == "set_value_fp") {
      const std::string& T = ev["T"].s(); bool make = e == "make_fp"; uint32_t p = make ? uint32_t(ev["n"].i()) : 0;
      uint64_t dbits;
      if (T == "f32") {
        float f = ev.has("fb") ? Support::bit_cast<float>(r32(ev["fb"])) : float(Support::bit_cast<double>(r64(ev["d"])));
        double d = double(f); memcpy(&dbits, &d, 8);
        if (make) im = p ? Imm(f, p) : Imm(f); else im.set_value(f);
      }
      else {
        double d = Support::bit_cast<double>(r64(ev["d"])); dbits = r64(ev["d"]);
        if (make) im = p ? Imm(d, p) : Imm(d); else im.set_value(d);
      }
      if (!ev.has("d")) { W w; w.first = false; w64(w, "d", dbits); extra = w.s; }
      else if (r64(ev["d"]) != dbits) return false;
    }
    else if (e == "make_shift") im = Imm(arm::Shift(arm::ShiftOp(ev["sop"].i()), r32(ev["v"])));
    else if (e == "set_type") im.set_type(ImmType(ev["n"].i()));
    else if (e == "reset_type") im.reset_type();
    else if (e == "set_predicate") im.set_predicate(uint32_t(ev["n"].i()));
    else if (e == "reset_predicate") im.reset_predicate();
    else if (e == "clone") im = im.clone();
    else if (e == "sign_extend_int8") im.sign_extend_int8();
    else if (e == "sign_extend_int16") im.sign_extend_int16();
    else if (e == "sign_extend_int32") im.sign_extend_int32();
    else if (e == "zero_extend_uint8") im.zero_extend_uint8();
    else if (e == "zero_extend_uint16") im.zero_extend_uint16();
    else if (e == "zero_extend_uint32") im.zero_extend_uint32();
    else return false;
    return true;
  }

  void view(W& w) override {
    using S = OperandSignature;
    const Operand_& o = im;
    S sg = S::from_op_type(o.op_type()) | S::from_value<S::kImmTypeMask>(im.type()) | S::from_predicate(im.predicate());
    Operand c(Globals::Init, sg, 0, uint32_t(uint64_t(im.value()) & 0xFFFFFFFFu), uint32_t(uint64_t(im.value()) >> 32));
    bool derived = uint32_t(im.int_lo32()) == im.uint_lo32() && uint32_t(im.int_hi32()) == im.uint_hi32() &&
                   (im.type() == ImmType::kDouble ? (im.value_as<double>() == Support::bit_cast<double>(im.value()) || im.value_as<double>() != im.value_as<double>()) : true);
    common_view(w, im, c, derived);
    w.kv("ity", (unsigned)im.type()).kv("isint", im.is_int()).kv("isdouble", im.is_double()).kv("pred", im.predicate());
    w64(w, "val", uint64_t(im.value()));
    w.kv("isi8", im.is_int8()).kv("isu8", im.is_uint8()).kv("isi16", im.is_int16()).kv("isu16", im.is_uint16()).kv("isi32", im.is_int32()).kv("isu32", im.is_uint32());
    w.key("as").beginObj();
    w64(w, "i8", uint64_t(uint8_t(im.value_as<int8_t>()))); w64(w, "u8", im.value_as<uint8_t>()); w64(w, "i16", uint64_t(uint16_t(im.value_as<int16_t>()))); w64(w, "u16", im.value_as<uint16_t>());
    w64(w, "i32", uint64_t(uint32_t(im.value_as<int32_t>()))); w64(w, "u32", im.value_as<uint32_t>()); w64(w, "i64", uint64_t(im.value_as<int64_t>())); w64(w, "u64", im.value_as<uint64_t>());
    w.endObj();
    w32(w, "lo", im.uint_lo32()); w32(w, "hi", im.uint_hi32());
  }

  std::string gen(vj::Rng& r) override {
    static const char* Ts[] = { "i8", "u8", "i16", "u16", "i32", "u32", "i64", "u64" };
    static const unsigned bits[] = { 8, 8, 16, 16, 32, 32, 64, 64 };
    auto val = [&](unsigned t) { uint64_t v = rnd_v64(r); return bits[t] == 64 ? v : (v & ((uint64_t(1) << bits[t]) - 1)); };
    switch (r.below(20)) {
      case 0: return EvB("reset").done();
      case 1: return EvB("default").done();
      case 2: case 3: case 4: { unsigned t = unsigned(r.below(8)); return EvB("make_int").s("T", Ts[t]).u64("v", val(t)).n("n", r.chance(1, 2) ? 0 : r.below(16)).n("via", r.below(3)).done(); }
      case 5: case 6: { unsigned t = unsigned(r.below(8)); return EvB("set_value_int").s("T", Ts[t]).u64("v", val(t)).done(); }
      case 7: { bool f32 = r.chance(1, 2); EvB b("make_fp"); b.s("T", f32 ? "f32" : "f64"); if (f32) b.u32("fb", uint32_t(rnd_v64(r))); else b.u64("d", rnd_v64(r)); return b.n("n", r.chance(1, 2) ? 0 : r.below(16)).done(); }
      case 8: { bool f32 = r.chance(1, 2); EvB b("set_value_fp"); b.s("T", f32 ? "f32" : "f64"); if (f32) b.u32("fb", uint32_t(rnd_v64(r))); else b.u64("d", rnd_v64(r)); return b.done(); }
      case 9: return EvB("make_shift").n("sop", r.below(14)).u32("v", r.chance(1, 2) ? uint32_t(r.below(64)) : uint32_t(r.next())).done();
      case 10: return EvB("set_type").n("n", r.below(2)).done();
      case 11: return EvB("reset_type").done();
      case 12: return EvB("set_predicate").n("n", r.below(16)).done();
      case 13: return EvB("reset_predicate").done();
      case 14: return EvB("clone").done();
      default: if (!im.is_int()) return EvB("reset_type").done(); else { static const char* ex[] = { "sign_extend_int8", "sign_extend_int16", "sign_extend_int32", "zero_extend_uint8", "zero_extend_uint16", "zero_extend_uint32" }; return EvB(ex[r.below(6)]).done(); }
    }
  }
};

// ---- label -----------------------------------------------------------------------------------------------
struct LabelM : Machine {
  Label lb;
  const char* name() const override { return "label"; }
  void reset() override { lb = Label(); }
  bool exec(const Value& ev, std::string&) override {
    const std::string& e = ev["e"].s();
    if (e == "default") lb = Label();
    else if (e == "make") lb = Label(r32(ev["id"]));
    else if (e == "set_id") lb.set_id(r32(ev["id"]));
    else if (e == "reset") lb.reset();
    else if (e == "op_reset") static_cast<Operand_&>(lb).reset();
    else if (e == "clone") { Label c(lb); lb = c; }
    else return false;
    return true;
  }
  void view(W& w) override {
    Operand c(Globals::Init, OperandSignature::from_op_type(as_op(lb).op_type()), lb.id(), 0, 0);
    common_view(w, lb, c);
    w.kv("valid", lb.is_valid());
  }
  std::string gen(vj::Rng& r) override {
    switch (r.below(6)) {
      case 0: return EvB("default").done();
      case 1: return EvB("make").u32("id", rnd_id(r)).done();
      case 2: return EvB("set_id").u32("id", rnd_id(r)).done();
      case 3: return EvB("reset").done();
      case 4: return EvB("op_reset").done();
      default: return EvB("clone").done();
    }
  }
};

// ---- register list ---------------------------------------------------------------------------------------
struct RegListM : Machine {
  RegListT<Reg> rl;
  const char* name() const override { return "reglist"; }
  void reset() override { rl = RegListT<Reg>(); }
  static OperandSignature list_sig(uint32_t rt) {
    using S = OperandSignature;
    S t = Reg::signature_of(RegType(rt));
    return S::from_op_type(OperandType::kRegList) | S::from_reg_type(RegType(rt)) | S::from_reg_group(t.reg_group()) | S::from_size(t.size());
  }
  bool exec(const Value& ev, std::string&) override {
    const std::string& e = ev["e"].s();
    uint32_t via = ev.has("via") ? uint32_t(ev["via"].i()) : 0;
    if (e == "make") rl = RegListT<Reg>(list_sig(uint32_t(ev["rt"].i())), RegMask(r32(ev["v"])));
    else if (e == "default") rl = RegListT<Reg>();
    else if (e == "set_list") rl.set_list(r32(ev["v"]));
    else if (e == "reset_list") rl.reset_list();
    else if (e == "add_list") { if (via) rl.add_list(RegListT<Reg>(rl.signature(), RegMask(r32(ev["v"])))); else rl.add_list(RegMask(r32(ev["v"]))); }
    else if (e == "clear_list") { if (via) rl.clear_list(RegListT<Reg>(rl.signature(), RegMask(r32(ev["v"])))); else rl.clear_list(RegMask(r32(ev["v"]))); }
    else if (e == "and_list") { if (via) rl.and_list(RegListT<Reg>(rl.signature(), RegMask(r32(ev["v"])))); else rl.and_list(RegMask(r32(ev["v"]))); }
    else if (e == "xor_list") { if (via) rl.xor_list(RegListT<Reg>(rl.signature(), RegMask(r32(ev["v"])))); else rl.xor_list(RegMask(r32(ev["v"]))); }
    else if (e == "add_reg") rl.add_reg(uint32_t(ev["n"].i()));
    else if (e == "clear_reg") rl.clear_reg(uint32_t(ev["n"].i()));
    else if (e == "add_reg_r") { if (via) rl.add_regs({ make_reg(6, r32(ev["id"])) }); else rl.add_reg(make_reg(6, r32(ev["id"]))); }
    else if (e == "clear_reg_r") { if (via) rl.clear_regs({ make_reg(6, r32(ev["id"])) }); else rl.clear_reg(make_reg(6, r32(ev["id"]))); }
    else if (e == "clone") { BaseRegList c = rl.clone(); rl = RegListT<Reg>(c.signature(), c.list()); }
    else return false;
    return true;
  }
  void view(W& w) override {
    using S = OperandSignature;
    BaseRegList c(S::from_op_type(OperandType::kRegList) | S::from_reg_type(rl.reg_type()) | S::from_reg_group(rl.reg_group()) | S::from_size(rl.size()), rl.list());
    bool derived = rl.is_type(rl.reg_type()) && rl.is_group(rl.reg_group()) && as_op(rl).is_reg_list(rl.reg_type());
    common_view(w, rl, c, derived);
    w.kv("rt", (unsigned)rl.reg_type()).kv("grp", (unsigned)rl.reg_group()).kv("size", rl.size());
    w32(w, "list", rl.list());
    w.kv("valid", rl.is_valid()).kv("isgp", rl.is_gp()).kv("isvec", rl.is_vec());
    w.key("has").beginArr(); for (uint32_t i = 0; i < 34; i++) w.val((long long)rl.has_reg(i)); w.endArr();
  }
  std::string gen(vj::Rng& r) override {
    auto mask = [&]() { return r.chance(1, 2) ? uint32_t(r.next()) : (uint32_t[]){ 0u, 1u, 0x80000000u, 0xFFFFFFFFu, 0x0000FFFFu, 0xFFFF0000u, 0x55555555u }[r.below(7)]; };
    switch (r.below(13)) {
      case 0: return EvB("make").n("rt", (uint32_t[]){ 0, 5, 6, 10, 11 }[r.below(5)]).u32("v", mask()).done();
      case 1: return EvB("default").done();
      case 2: return EvB("set_list").u32("v", mask()).done();
      case 3: return EvB("reset_list").done();
      case 4: return EvB("add_list").u32("v", mask()).n("via", r.below(2)).done();
      case 5: return EvB("clear_list").u32("v", mask()).n("via", r.below(2)).done();
      case 6: return EvB("and_list").u32("v", mask()).n("via", r.below(2)).done();
      case 7: return EvB("xor_list").u32("v", mask()).n("via", r.below(2)).done();
      case 8: return EvB("add_reg").n("n", r.below(32)).done();
      case 9: return EvB("clear_reg").n("n", r.below(32)).done();
      case 10: return EvB("add_reg_r").u32("id", r.chance(3, 4) ? uint32_t(r.below(34)) : rnd_id(r)).n("via", r.below(2)).done();
      case 11: return EvB("clear_reg_r").u32("id", r.chance(3, 4) ? uint32_t(r.below(34)) : rnd_id(r)).n("via", r.below(2)).done();
      default: return EvB("clone").done();
    }
  }
};

// ---- RegOnly ---------------------------------------------------------------------------------------------
struct RegOnlyM : Machine {
  RegOnly ro;
  Reg src;
  const char* name() const override { return "regonly"; }
  void reset() override { ro.reset(); src = Reg(OperandSignature::from_bits(0), 0); }
  bool exec(const Value& ev, std::string&) override {
    const std::string& e = ev["e"].s();
    uint32_t via = ev.has("via") ? uint32_t(ev["via"].i()) : 0;
    if (e == "reset") { ro.reset(); src = Reg(OperandSignature::from_bits(0), 0); }
    else if (e == "init") {
      src = make_reg(uint32_t(ev["rt"].i()), r32(ev["id"]));
      if (via == 0) ro.init(src); else if (via == 1) ro.init(src.signature(), src.id()); else { RegOnly t; t.init(src); ro.init(t); }
    }
    else if (e == "set_id") { ro.set_id(r32(ev["id"])); src.set_id(r32(ev["id"])); }
    else return false;
    return true;
  }
  void view(W& w) override {
    w.kv("isnone", ro.is_none()).kv("isreg", ro.is_reg()).kv("phys", ro.is_phys_reg()).kv("virt", ro.is_virt_reg());
    w32(w, "id", ro.id());
    w.kv("rt", (unsigned)ro.type()).kv("grp", (unsigned)ro.group());
    Reg back = ro.to_reg<Reg>();
    w.kv("back", back.signature() == ro.signature() && back.id() == ro.id() && back.is_same(src));
  }
  std::string gen(vj::Rng& r) override {
    switch (r.below(4)) {
      case 0: return EvB("reset").done();
      case 1: case 2: return EvB("init").n("rt", rnd_rt(r)).u32("id", rnd_id(r)).n("via", r.below(3)).done();
      default: return EvB("set_id").u32("id", rnd_id(r)).done();
    }
  }
};

// ---- Environment -----------------------------------------------------------------------------------------
struct EnvM : Machine {
  Environment en;
  const char* name() const override { return "env"; }
  void reset() override { en = Environment(); }
  bool exec(const Value& ev, std::string&) override {
    const std::string& e = ev["e"].s();
    uint32_t via = ev.has("via") ? uint32_t(ev["via"].i()) : 0;
    if (e == "reset") en.reset();
    else if (e == "init") {
      Arch a = Arch(ev["arch"].i()); Platform p = Platform(ev["plat"].i()); PlatformABI abi = PlatformABI(ev["abi"].i()); ObjectFormat f = ObjectFormat(ev["fmt"].i()); FloatABI fa = FloatABI(ev["fabi"].i());
      if (via == 0) en.init(a, SubArch::kUnknown, Vendor::kUnknown, p, abi, f, fa);
      else en = Environment(a, SubArch::kUnknown, Vendor::kUnknown, p, abi, f, fa);
    }
    else if (e == "set_arch") en.set_arch(Arch(ev["n"].i()));
    else if (e == "set_sub_arch") en.set_sub_arch(SubArch(ev["n"].i()));
    else if (e == "set_vendor") en.set_vendor(Vendor(ev["n"].i()));
    else if (e == "set_platform") en.set_platform(Platform(ev["n"].i()));
    else if (e == "set_platform_abi") en.set_platform_abi(PlatformABI(ev["n"].i()));
    else if (e == "set_object_format") en.set_object_format(ObjectFormat(ev["n"].i()));
    else if (e == "set_float_abi") en.set_float_abi(FloatABI(ev["n"].i()));
    else if (e == "copy") { Environment c(en); en = c; }
    else return false;
    return true;
  }
  void view(W& w) override {
    Environment c(en.arch(), en.sub_arch(), en.vendor(), en.platform(), en.platform_abi(), en.object_format(), en.float_abi());
    Arch a = en.arch();
    bool stat = en.is_32bit() == Environment::is_32bit(a) && en.is_64bit() == Environment::is_64bit(a) && en.is_little_endian() == Environment::is_little_endian(a) &&
                en.is_big_endian() == Environment::is_big_endian(a) && en.is_family_x86() == Environment::is_family_x86(a) && en.is_family_arm() == Environment::is_family_arm(a) &&
                en.is_family_aarch32() == Environment::is_family_aarch32(a) && en.is_family_aarch64() == Environment::is_family_aarch64(a) && en.is_family_mips() == Environment::is_family_mips(a) &&
                en.is_family_riscv() == Environment::is_family_riscv(a) && en.is_arch_arm() == Environment::is_arch_arm(a) && en.is_arch_thumb() == Environment::is_arch_thumb(a) &&
                en.is_arch_aarch64() == Environment::is_arch_aarch64(a) && en.is_arch_mips32() == Environment::is_arch_mips32(a) && en.is_arch_mips64() == Environment::is_arch_mips64(a) &&
                en.register_size() == Environment::reg_size_of_arch(a);
    w.kv("arch", (unsigned)en.arch()).kv("sub", (unsigned)en.sub_arch()).kv("vendor", (unsigned)en.vendor()).kv("plat", (unsigned)en.platform()).kv("abi", (unsigned)en.platform_abi())
     .kv("fmt", (unsigned)en.object_format()).kv("fabi", (unsigned)en.float_abi()).kv("empty", en.is_empty()).kv("init", en.is_initialized())
     .kv("eqcopy", en.equals(c) && en == c && !(en != c) && stat)
     .kv("isx86", en.is_arch_x86()).kv("isx64", en.is_arch_x64()).kv("isarm", en.is_arch_arm()).kv("isthumb", en.is_arch_thumb()).kv("isa64", en.is_arch_aarch64())
     .kv("ismips32", en.is_arch_mips32()).kv("ismips64", en.is_arch_mips64()).kv("isrv32", en.is_arch_riscv32()).kv("isrv64", en.is_arch_riscv64())
     .kv("is32", en.is_32bit()).kv("is64", en.is_64bit()).kv("le", en.is_little_endian()).kv("be", en.is_big_endian())
     .kv("famx86", en.is_family_x86()).kv("famarm", en.is_family_arm()).kv("fama32", en.is_family_aarch32()).kv("fama64", en.is_family_aarch64())
     .kv("fammips", en.is_family_mips()).kv("famrv", en.is_family_riscv())
     .kv("pwin", en.is_platform_windows()).kv("plinux", en.is_platform_linux()).kv("phurd", en.is_platform_hurd()).kv("phaiku", en.is_platform_haiku())
     .kv("pbsd", en.is_platform_bsd()).kv("papple", en.is_platform_apple()).kv("amsvc", en.is_msvc_abi()).kv("agnu", en.is_gnu_abi()).kv("adarwin", en.is_darwin_abi())
     .kv("regsize", en.register_size()).kv("stackalign", en.stack_alignment());
  }
  std::string gen(vj::Rng& r) override {
    switch (r.below(10)) {
      case 0: return EvB("reset").done();
      case 1: case 2: return EvB("init").n("arch", r.below(17)).n("plat", r.below(15)).n("abi", r.below(7)).n("fmt", r.below(7)).n("fabi", r.below(2)).n("via", r.below(2)).done();
      case 3: return EvB("set_arch").n("n", r.below(17)).done();
      case 4: return EvB("set_platform").n("n", r.below(15)).done();
      case 5: return EvB("set_platform_abi").n("n", r.below(7)).done();
      case 6: return EvB("set_object_format").n("n", r.below(7)).done();
      case 7: return EvB("set_float_abi").n("n", r.below(2)).done();
      case 8: return r.chance(1, 2) ? EvB("set_sub_arch").n("n", 0).done() : EvB("set_vendor").n("n", 0).done();
      default: return EvB("copy").done();
    }
  }
};

static Machine* new_machine(const std::string& m) {
  if (m == "x86mem") return new X86MemM();
  if (m == "a64mem") return new A64MemM();
  if (m == "basemem") return new BaseMemM();
  if (m == "x86reg") return new RegM(false);
  if (m == "a64reg") return new RegM(true);
  if (m == "imm") return new ImmM();
  if (m == "label") return new LabelM();
  if (m == "reglist") return new RegListM();
  if (m == "regonly") return new RegOnlyM();
  if (m == "env") return new EnvM();
  return nullptr;
}
static const char* kMachines[] = { "x86mem", "a64mem", "basemem", "x86reg", "a64reg", "imm", "label", "reglist", "regonly", "env" };

#include "opmodel_part3.h"
