// lib_a64forms.h - header-only helpers shared by the AArch64 form-driven harnesses (C02 a64sweep; reusable by C12/C13/C20).
//
// A CASE is one JSON object (one ndjson line) produced by the sweep generator (checks/c02.py, class Gen, driven by the rows
// exported by tools/db_export_a64.js):
//
//   {"n": mnemonic, "iid": ordinal of a64::Inst::kId<Name> in the public enum (optional; else InstAPI::string_to_inst_id),
//    "o": [operand descriptor, ...], ... any further fields are the caller's and are copied through untouched }
//
// Operand descriptors (compact, asmjit-independent; the same objects are logged in the observations and judged by TLC):
//   {"k":"r","t":"w"|"x","id":0..31|>31 (invalid on purpose),"sp":0|1}        GP register; id 31 + sp=1 is WSP/SP, id 31 + sp=0 is WZR/XZR
//        optional "ids":[..]  -> a consecutive register list passed as several operands (casp, ld64b ...)
//   {"k":"v","t":"b|h|s|d|q" (scalar) or "v","id":n,"arr":"8B|16B|4H|8H|2S|4S|1D|2D|2H|4B" or element type "B|H|S|D|4B|2H","ei":lane or -1}
//        optional "ids":[..]  -> vector list { Vt, Vt+1, ... } passed as several operands
//   {"k":"i","v":small int,"big":0|1,"l":[four 16-bit limbs of the 64-bit two's complement value]}       immediate (limbs are what is passed)
//   {"k":"f","l":[limbs of the IEEE double bit pattern]}                          floating-point immediate (passed as Imm(double))
//   {"k":"s","op":"lsl|lsr|asr|ror|msl|uxtb..sxtx","amt":n or -1}                 shift/extend modifier operand (Imm with ShiftOp predicate)
//   {"k":"c","c":0..15}                                                           condition operand, Arm numbering (eq=0 .. nv=15), mapped BY NAME to CondCode
//   {"k":"cc","c":0..15}                                                          condition SUFFIX (b.<cond>): composed into the instruction id, not an operand
//   {"k":"l","v":byte displacement,"page":0|1}                                    pc-relative target, passed as absolute Imm = kBase + v (case emitted at offset 0)
//   {"k":"l",...,"lab":1,"lpos":P,"pc":Q}                                         the same target passed as a Label operand: the caller binds the label at section
//                                                                                 offset P and emits the instruction at offset Q (build() only inserts the Label)
//   {"k":"m","pcrel":1,"lab":1,"lpos":P,"pc":Q,"moff":O, ...}                     label-based memory operand a64::Mem(label, O)  (ldr literal, ldrsw, prfm)
//   {"k":"m","b":base id,"bsp":0|1,"mode":"o|pre|post","off":int,"xi":index id or -1,"xt":"w|x","xsp":0|1,"sh":"" or shift name,"amt":n or -1}
//   {"k":"-"}                                                                     an optional operand that is absent (skipped)
//
// API
//   a64forms::kBase                                  base address the CodeHolder must be initialised with (pc-relative cases)
//   bool a64forms::label_case(const vj::Value& c, long long& pc, long long& lpos)  true when an operand carries "lab":1 (gives its placement)
//   bool a64forms::build(const vj::Value& c, a64forms::Built& out, const Label* label = nullptr)
//        fills out.inst_id (0 = unknown mnemonic), out.ops[0..out.n) ; returns false when a descriptor cannot be turned into an
//        asmjit operand at all (unknown kind / arrangement) - the caller should log the case as not built.
//   a64forms::cond_by_name / shift_by_name / kCondNames                          name tables (the only place CondCode/ShiftOp numbering is touched)
#pragma once
#include <asmjit/core.h>
#include <asmjit/a64.h>
#include "vjson.h"
#include <string>
#include <cstring>

namespace a64forms {
using namespace asmjit;

static const uint64_t kBase = 0x40000000ull;

static inline bool cond_by_name(const std::string& s, arm::CondCode& cc) {
  static const struct { const char* n; arm::CondCode c; } T[] = {
    {"eq", arm::CondCode::kEQ}, {"ne", arm::CondCode::kNE}, {"cs", arm::CondCode::kCS}, {"hs", arm::CondCode::kHS}, {"cc", arm::CondCode::kCC},
    {"lo", arm::CondCode::kLO}, {"mi", arm::CondCode::kMI}, {"pl", arm::CondCode::kPL}, {"vs", arm::CondCode::kVS}, {"vc", arm::CondCode::kVC},
    {"hi", arm::CondCode::kHI}, {"ls", arm::CondCode::kLS}, {"ge", arm::CondCode::kGE}, {"lt", arm::CondCode::kLT}, {"gt", arm::CondCode::kGT},
    {"le", arm::CondCode::kLE}, {"al", arm::CondCode::kAL}, {"nv", arm::CondCode::kNA}};
  for (auto& e : T) if (s == e.n) { cc = e.c; return true; }
  return false;
}
static const char* kCondNames[16] = {"eq", "ne", "cs", "cc", "mi", "pl", "vs", "vc", "hi", "ls", "ge", "lt", "gt", "le", "al", "nv"};

static inline bool shift_by_name(const std::string& s, arm::ShiftOp& op) {
  static const struct { const char* n; arm::ShiftOp o; } T[] = {
    {"lsl", arm::ShiftOp::kLSL}, {"lsr", arm::ShiftOp::kLSR}, {"asr", arm::ShiftOp::kASR}, {"ror", arm::ShiftOp::kROR}, {"msl", arm::ShiftOp::kMSL},
    {"uxtb", arm::ShiftOp::kUXTB}, {"uxth", arm::ShiftOp::kUXTH}, {"uxtw", arm::ShiftOp::kUXTW}, {"uxtx", arm::ShiftOp::kUXTX},
    {"sxtb", arm::ShiftOp::kSXTB}, {"sxth", arm::ShiftOp::kSXTH}, {"sxtw", arm::ShiftOp::kSXTW}, {"sxtx", arm::ShiftOp::kSXTX}};
  for (auto& e : T) if (s == e.n) { op = e.o; return true; }
  return false;
}

static inline uint32_t gp_id(long long id, long long sp) { return id == 31 ? (sp ? a64::Gp::kIdSp : a64::Gp::kIdZr) : uint32_t(id); }
static inline a64::Gp make_gp(const std::string& t, long long id, long long sp) {
  return t == "x" ? a64::Gp::make_r64(gp_id(id, sp)) : a64::Gp::make_r32(gp_id(id, sp));
}

static inline bool make_vec(const vj::Value& d, uint32_t id, a64::Vec& out) {
  const std::string& t = d["t"].s();
  const std::string& arr = d["arr"].s();
  long long ei = d["ei"].i();
  using ET = a64::VecElementType;
  if (t != "v") {
    if (t == "b") out = a64::Vec::make_v8(id); else if (t == "h") out = a64::Vec::make_v16(id); else if (t == "s") out = a64::Vec::make_v32(id);
    else if (t == "d") out = a64::Vec::make_v64(id); else if (t == "q") out = a64::Vec::make_v128(id); else return false;
    return true;
  }
  if (ei >= 0) {
    ET et;
    if (arr == "B") et = ET::kB; else if (arr == "H") et = ET::kH; else if (arr == "S") et = ET::kS; else if (arr == "D") et = ET::kD;
    else if (arr == "4B") et = ET::kB4; else if (arr == "2H") et = ET::kH2; else return false;
    // The operand is built the way user code builds it: directly, through the typed lane accessors, or by re-indexing a
    // lane operand with at() - all three must denote the requested lane.
    unsigned how = unsigned(id + uint32_t(ei)) % 3u;
    uint32_t lanes = et == ET::kB ? 16u : et == ET::kH ? 8u : et == ET::kS ? 4u : et == ET::kD ? 2u : 4u;
    if (how == 1 && (et == ET::kB || et == ET::kH || et == ET::kS || et == ET::kD) && uint32_t(ei) < lanes) {
      a64::Vec v = a64::Vec::make_v128(id);
      out = et == ET::kB ? v.b(uint32_t(ei)) : et == ET::kH ? v.h(uint32_t(ei)) : et == ET::kS ? v.s(uint32_t(ei)) : v.d(uint32_t(ei));
    }
    else if (how == 2 && uint32_t(ei) < lanes) {
      uint32_t other = (uint32_t(ei) + 1u + (id & 1u) * 2u) % lanes;         // some other lane first, then at(ei)
      out = a64::Vec::make_v128_with_element_index(et, other, id).at(uint32_t(ei));
    }
    else {
      out = a64::Vec::make_v128_with_element_index(et, uint32_t(ei), id);
    }
    return true;
  }
  if (arr == "8B") out = a64::Vec::make_v64_with_element_type(ET::kB, id);
  else if (arr == "16B") out = a64::Vec::make_v128_with_element_type(ET::kB, id);
  else if (arr == "4H") out = a64::Vec::make_v64_with_element_type(ET::kH, id);
  else if (arr == "8H") out = a64::Vec::make_v128_with_element_type(ET::kH, id);
  else if (arr == "2S") out = a64::Vec::make_v64_with_element_type(ET::kS, id);
  else if (arr == "4S") out = a64::Vec::make_v128_with_element_type(ET::kS, id);
  else if (arr == "1D") out = a64::Vec::make_v64_with_element_type(ET::kD, id);
  else if (arr == "2D") out = a64::Vec::make_v128_with_element_type(ET::kD, id);
  else if (arr == "2H") out = a64::Vec::make_v32_with_element_type(ET::kH, id);
  else if (arr == "4B") out = a64::Vec::make_v32_with_element_type(ET::kB, id);
  else if (arr == "1Q") out = a64::Vec::make_v128(id);
  else return false;
  return true;
}

static inline uint64_t limbs(const vj::Value& l) {
  uint64_t v = 0;
  for (size_t k = 0; k < 4 && k < l.size(); k++) v |= uint64_t(l[k].i() & 0xFFFF) << (16 * k);
  return v;
}

struct Built {
  InstId inst_id = 0;
  Operand ops[8];
  size_t n = 0;
};

static inline bool label_case(const vj::Value& c, long long& pc, long long& lpos) {
  const vj::Value& od = c["o"];
  for (size_t k = 0; k < od.size(); k++) {
    if (od[k].has("lab") && od[k]["lab"].i() == 1) { pc = od[k]["pc"].i(); lpos = od[k]["lpos"].i(); return true; }
  }
  return false;
}

static inline bool build(const vj::Value& c, Built& out, const Label* label = nullptr) {
  const std::string& name = c["n"].s();
  // "iid" = ordinal of a64::Inst::kId<Name> in the public header enum (what a.<name>(...) passes to _emitI); the textual
  // lookup InstAPI::string_to_inst_id is only a fallback (it does not know every mnemonic in this tree).
  InstId id = c.has("iid") ? InstId(c["iid"].i()) : InstAPI::string_to_inst_id(Arch::kAArch64, name.data(), name.size());
  Operand* ops = out.ops;
  size_t n = 0;
  bool built = id != 0;
  const vj::Value& od = c["o"];
  for (size_t k = 0; built && k < od.size(); k++) {
    const vj::Value& d = od[k];
    const std::string& kind = d["k"].s();
    if (kind == "-") continue;
    if (kind == "cc") {          // condition suffix of b.<cond>: part of the instruction id, not an operand
      arm::CondCode cc; long long cv = d["c"].i();
      if (cv < 0 || cv > 15 || !cond_by_name(kCondNames[cv], cc)) { built = false; break; }
      id = BaseInst::compose_arm_inst_id(id, cc);
      continue;
    }
    if (n >= 6) { built = false; break; }
    if (kind == "r") {
      if (d.has("ids")) { for (size_t j = 0; j < d["ids"].size() && n < 6; j++) ops[n++] = make_gp(d["t"].s(), d["ids"][j].i(), 0); }
      else ops[n++] = make_gp(d["t"].s(), d["id"].i(), d["sp"].i());
    } else if (kind == "v") {
      if (d.has("ids")) {
        for (size_t j = 0; j < d["ids"].size() && n < 6; j++) { a64::Vec v; if (!make_vec(d, uint32_t(d["ids"][j].i()), v)) { built = false; break; } ops[n++] = v; }
      } else { a64::Vec v; if (!make_vec(d, uint32_t(d["id"].i()), v)) { built = false; break; } ops[n++] = v; }
    } else if (kind == "i") {
      ops[n++] = Imm(int64_t(limbs(d["l"])));
    } else if (kind == "f") {
      uint64_t bits = limbs(d["l"]); double x; memcpy(&x, &bits, 8);
      ops[n++] = Imm(x);
    } else if (kind == "s") {
      arm::ShiftOp so;
      if (!shift_by_name(d["op"].s(), so)) { built = false; break; }
      long long amt = d["amt"].i();
      ops[n++] = Imm(arm::Shift(so, uint32_t(amt < 0 ? 0 : amt)));
    } else if (kind == "c") {
      long long cv = d["c"].i();
      arm::CondCode cc;
      if (cv < 0 || cv > 15 || !cond_by_name(kCondNames[cv], cc)) { built = false; break; }
      ops[n++] = Imm(uint32_t(cc));
    } else if (kind == "l" && d.has("lab") && d["lab"].i() == 1) {
      if (!label) { built = false; break; }
      ops[n++] = *label;
    } else if (kind == "m" && d.has("pcrel") && d["pcrel"].i() == 1) {
      if (!label) { built = false; break; }
      ops[n++] = a64::Mem(*label, int32_t(d["moff"].i()));
    } else if (kind == "l") {
      uint64_t pc = kBase;       // the case is emitted at offset 0
      int64_t v = d["v"].i();
      if (d["page"].i()) pc &= ~uint64_t(4095);
      ops[n++] = Imm(int64_t(pc + uint64_t(v)));
    } else if (kind == "m") {
      a64::Gp base = a64::Gp::make_r64(gp_id(d["b"].i(), d["bsp"].i()));
      a64::Mem m;
      long long xi = d["xi"].i();
      if (xi >= 0) {
        a64::Gp index = make_gp(d["xt"].s(), xi, d["xsp"].i());
        const std::string& sh = d["sh"].s();
        long long amt = d["amt"].i();
        if (sh.empty() && amt < 0) m = a64::Mem(base, index);
        else {
          arm::ShiftOp so = arm::ShiftOp::kLSL;
          if (!sh.empty() && !shift_by_name(sh, so)) { built = false; break; }
          m = a64::Mem(base, index, arm::Shift(so, uint32_t(amt < 0 ? 0 : amt)));
        }
      } else {
        m = a64::Mem(base, int32_t(d["off"].i()));
      }
      const std::string& mode = d["mode"].s();
      if (mode == "pre") m.make_pre_index(); else if (mode == "post") m.make_post_index();
      ops[n++] = m;
    } else { built = false; }
  }
  out.inst_id = id;
  out.n = n;
  return built;
}

} // namespace a64forms
