// C05 harness: register allocation preserves the meaning of Compiler programs.
//
//   regalloc run <programs.ndjson> <obs.ndjson>
//       Leg 2.  Every program of the virtual-register language of spec/machine/RegAllocInterp.tla is built with
//       x86::Compiler for the host (x86-64), finalized, added to a JitRuntime and executed on its inputs in a forked
//       child (miscompiled code may crash or hang).  One observation record per program:
//       {id, meta, prog, inputs, obs:[{ret,out,log}], status}.  Nothing is compared here; RegAllocProgObs.tla does.
//   regalloc record <arch:x64|x86|a64> <programs.ndjson> <rec.ndjson>
//       Leg 1.  Builds every program for <arch> (each in a forked child: an allocator crash becomes a record), walks the
//       node list before and after run_passes() and writes one raw record per function: nodes (identity = pointer ->
//       index), operands, InstAPI::query_rw_info per operand, jump annotations, invoke/func ABI values, virtual registers.
//       checks/c05_tv.py turns it into the op list of spec/machine/RegAlloc.tla.  Nothing is judged here.
//   regalloc recordgen <arch:x64|a64> <rec.ndjson> <seed> <count>
//       same, for the built-in seeded generator (mixed register classes/sizes, partial writes, same-register idioms,
//       a64 ld1/ld2/st1/tbl register lists).
//   regalloc recordtests <arch> <rec.ndjson>
//       same, for the TestCase::compile functions of the repository's asmjit_test_compiler_x86.cpp / _a64.cpp.
//   regalloc asm <programs.ndjson> <id> | asmgen <arch> <seed> <i>      developer aids (annotated listing)
//
// The expansion of a language instruction into target instructions (build_x86 / build_a64) is part of the trusted base:
// it is a fixed, syntax-directed macro expansion (listed in RegAllocInterp.tla's header).
#include <asmjit/core.h>
#include <asmjit/x86.h>
#include <asmjit/a64.h>
#include <asmjit/core/rapass_p.h>
#include "vjson.h"
#include <sys/wait.h>
#include <signal.h>
#include <set>
#include <algorithm>
#include <functional>

// The repository's own Compiler test functions (TestCase classes with compile(cc)) are a Leg 1 source: the test
// sources are included as they are (they only need TestApp::add, which is inline).
#include "/repo/asmjit-testing/tests/asmjit_test_compiler_x86.cpp"
#include "/repo/asmjit-testing/tests/asmjit_test_compiler_a64.cpp"

using namespace asmjit;

static const int NOUT = 8, NS = 8;

// ---------------------------------------------------------------------------------------------------------
// C helpers called by generated code (the call log is the observable "same calls with the same arguments")
// ---------------------------------------------------------------------------------------------------------
static std::vector<std::vector<uint32_t>> g_log;
// miscompiled code may call a helper millions of times: the log is capped, the overflow is reported as a final entry
// [99, n] that no well-defined program produces
static const size_t kLogCap = 512;
static uint32_t g_log_overflow = 0;
static void log_call(std::vector<uint32_t> e) { if (g_log.size() < kLogCap) g_log.push_back(std::move(e)); else g_log_overflow++; }
static uint32_t helper1(uint32_t a, uint32_t b) {
  log_call({1, a, b});
  return (3 * a + b + 7) & 0xFFFF;
}
static uint32_t helper3(uint64_t a, uint32_t b) {
  log_call({3, uint32_t(a >> 32), uint32_t(a), b});
  return uint32_t((a >> 32) + 3 * (a & 0xFFFFFFFFu) + b + 11) & 0xFFFF;
}
static uint64_t helper4(uint32_t a) {
  log_call({4, a});
  return (uint64_t((5 * a + 1) & 0xFFFF) << 32) | ((a + 9) & 0xFFFF);
}
static uint32_t helper2(uint32_t a1, uint32_t a2, uint32_t a3, uint32_t a4, uint32_t a5, uint32_t a6, uint32_t a7, uint32_t a8) {
  log_call({2, a1, a2, a3, a4, a5, a6, a7, a8});
  return (a1 + 2 * a2 + 3 * a3 + 4 * a4 + 5 * a5 + 6 * a6 + 7 * a7 + 8 * a8 + 1) & 0xFFFF;
}

struct ErrH : public ErrorHandler {
  Error err = Error::kOk;
  std::string msg;
  void handle_error(Error e, const char* m, BaseEmitter*) override { if (err == Error::kOk) { err = e; msg = m ? m : ""; } }
};

static uint32_t init_const(uint32_t v) { return (v * 7919u + 13u) % 65536u; }

static unsigned prog_max_xreg(const vj::Value& prog) {
  long long mx = 0;
  for (auto& I : prog.arr) {
    const std::string& op = I[0].s();
    auto upd = [&](size_t k) { if (I[k].i() > mx) mx = I[k].i(); };
    if (op == "vset") upd(1);
    else if (op == "vget") upd(2);
    else if (op == "vmov" || op == "vxor" || op == "vor" || op == "vand" || op == "vandn" || op == "vinitall") { upd(1); upd(2); }
    else if (op == "vfold") { upd(2); upd(3); }
  }
  return unsigned(mx);
}

static unsigned prog_max_qreg(const vj::Value& prog) {
  long long mx = 0;
  for (auto& I : prog.arr) {
    const std::string& op = I[0].s();
    auto upd = [&](size_t k) { if (I[k].i() > mx) mx = I[k].i(); };
    if (op == "qset" || op == "qsx" || op == "qset16" || op == "qset8" || op == "call4") upd(1);
    else if (op == "qhi" || op == "qlo" || op == "qop0" || op == "call3") upd(2);
    else if (op == "qsh") upd(3);
    else if (op == "qmov" || op == "qxor" || op == "qmov32" || op == "qinitall") { upd(1); upd(2); }
    else if (op == "qfold") { upd(2); upd(3); }
  }
  return unsigned(mx);
}

// TypeId of every virtual register is a dimension: a register of the language has a WIDTH only; which TypeId of that
// width the Compiler is given is chosen from these tables by (program's type salt + register index).
static const TypeId kTypes32[] = { TypeId::kUInt32, TypeId::kInt32 };
static const TypeId kTypes64[] = { TypeId::kInt64, TypeId::kUInt64, TypeId::kInt64, TypeId::kIntPtr, TypeId::kInt64, TypeId::kUIntPtr, TypeId::kInt64 };
static const TypeId kTypesV128[] = { TypeId::kInt32x4, TypeId::kFloat32x4, TypeId::kFloat64x2, TypeId::kInt8x16, TypeId::kUInt8x16, TypeId::kInt16x8,
                                     TypeId::kUInt16x8, TypeId::kUInt32x4, TypeId::kInt64x2, TypeId::kUInt64x2 };
template<size_t N> static TypeId pick_type(const TypeId (&tab)[N], unsigned salt, unsigned i) { return tab[(salt * 7u + i) % N]; }

struct Prog {
  unsigned salt = 0;      // meta[5] of the program record
  void init_salt() { if (rec && (*rec)["meta"].kind == vj::Value::Arr && (*rec)["meta"].size() > 5) salt = unsigned((*rec)["meta"][5].i()); }
  long long id = 0;
  const vj::Value* rec = nullptr;
  const vj::Value* prog = nullptr;
  unsigned nv = 0;       // highest virtual register id
};

static unsigned prog_max_reg(const vj::Value& prog) {
  long long mx = 4;
  for (auto& I : prog.arr) {
    const std::string& op = I[0].s();
    auto upd = [&](size_t k) { if (I[k].kind == vj::Value::Num && I[k].i() > mx) mx = I[k].i(); };
    if (op == "movi" || op == "addi" || op == "subi" || op == "muli" || op == "andi" || op == "ori" || op == "ld" || op == "sld") upd(1);
    else if (op == "st" || op == "sst") upd(2);
    else if (op == "jcc") { upd(2); upd(3); }
    else if (op == "jcci") upd(2);
    else if (op == "setcc") { upd(2); upd(3); upd(4); }
    else if (op == "cmov") { upd(2); upd(3); upd(4); upd(5); }
    else if (op == "jtab" || op == "jtabx") upd(1);
    else if (op == "call2") { upd(1); for (auto& a : I[2].arr) if (a.i() > mx) mx = a.i(); }
    else if (op == "label" || op == "jmp" || op == "vmov" || op == "vxor" || op == "vor" || op == "vand" || op == "vandn" || op == "vinitall") {}
    else if (op == "vset") upd(2);
    else if (op == "vget" || op == "vfold") upd(1);
    else if (op == "qset") { upd(2); upd(3); }
    else if (op == "qhi" || op == "qlo" || op == "qfold") upd(1);
    else if (op == "qsh") upd(2);
    else if (op == "call3") { upd(1); upd(3); }
    else if (op == "qsx" || op == "qset16" || op == "qset8" || op == "call4") upd(2);
    else if (op == "qmov" || op == "qxor" || op == "qmov32" || op == "qop0" || op == "qinitall") {}
    else for (size_t k = 1; k < I.size(); k++) upd(k);
  }
  return unsigned(mx);
}

// ---------------------------------------------------------------------------------------------------------
// x86 / x86-64 expansion
// ---------------------------------------------------------------------------------------------------------
static x86::CondCode x86_cc(const std::string& c) {
  if (c == "e") return x86::CondCode::kE;
  if (c == "ne") return x86::CondCode::kNE;
  if (c == "b") return x86::CondCode::kB;
  if (c == "ae") return x86::CondCode::kAE;
  if (c == "be") return x86::CondCode::kBE;
  return x86::CondCode::kA;
}

struct JTab { Label table; std::vector<Label> targets; };

// targets of UN-annotated indirect jumps (the Compiler is not told; the Leg 1 translator needs the real successors)
static std::map<const BaseNode*, std::vector<uint32_t>> g_jump_hints;

// an indirect jump through a table of absolute label addresses (language instruction "jtabx")
template<typename GpT>
struct JTabX { Label table; std::vector<Label> targets; GpT base; std::string form; bool ann = true; bool on_stack = false; };

// Builds one function `uint32_t f(uint32_t in0, uint32_t in1, uint32_t* out)`.  Returns the FuncNode.
static FuncNode* build_x86(x86::Compiler& cc, const Prog& p) {
  const vj::Value& prog = *p.prog;
  std::vector<x86::Gp> v(p.nv + 1);
  for (unsigned i = 1; i <= p.nv; i++) v[i] = cc.new_gp(pick_type(kTypes32, p.salt, i), "v%u", i);
  unsigned nx = prog_max_xreg(prog);
  std::vector<x86::Vec> xv(nx + 1);
  // more than 16 vector registers: AVX-512 frame (xmm/ymm 16..31 allocatable), VEX instruction forms, every third register 256-bit
  const bool avx = cc.is_64bit() && nx >= 17;
  static const TypeId kTypesV256[] = { TypeId::kInt32x8, TypeId::kFloat32x8, TypeId::kFloat64x4, TypeId::kInt8x32, TypeId::kUInt16x16, TypeId::kInt64x4 };
  for (unsigned i = 1; i <= nx; i++) xv[i] = avx && i % 3 == 0 ? cc.new_vec(pick_type(kTypesV256, p.salt, i), "y%u", i) : cc.new_vec(pick_type(kTypesV128, p.salt, i), "x%u", i);
  auto XV = [&](const vj::Value& I, size_t k) -> x86::Vec& { return xv[size_t(I[k].i())]; };
  unsigned nq = prog_max_qreg(prog);
  std::vector<x86::Gp> qv(nq + 1);
  for (unsigned i = 1; i <= nq; i++) qv[i] = cc.new_gp(pick_type(kTypes64, p.salt, i), "q%u", i);
  auto QR = [&](const vj::Value& I, size_t k) -> x86::Gp& { return qv[size_t(I[k].i())]; };
  x86::Gp outp = cc.new_gp_ptr("outp");
  x86::Mem stk = cc.new_stack(NS * 4, 4, "stk");
  std::map<long long, Label> labels;
  auto L = [&](long long id) -> Label { auto it = labels.find(id); if (it != labels.end()) return it->second; Label l = cc.new_label(); labels[id] = l; return l; };
  std::vector<JTab> tabs;

  FuncNode* fn = cc.add_func(FuncSignature::build<uint32_t, uint32_t, uint32_t, void*>());
  fn->set_arg(0, v[1]);
  fn->set_arg(1, v[2]);
  fn->set_arg(2, outp);
  if (avx) { fn->frame().set_avx_enabled(); fn->frame().set_avx512_enabled(); }
  auto mask = [&](const x86::Gp& r) { cc.and_(r, 0xFFFF); };
  auto outcell = [&](long long k) { return x86::dword_ptr(outp, int32_t(4 * k)); };
  // jtabx: table bases are loaded into long-lived registers at function entry
  const uint32_t W = cc.is_64bit() ? 8 : 4, WS = cc.is_64bit() ? 3 : 2;
  std::vector<JTabX<x86::Gp>> xtabs;
  for (auto& I : prog.arr) {
    if (I[0].s() != "jtabx") continue;
    JTabX<x86::Gp> jt;
    jt.table = cc.new_label();
    for (auto& l : I[2].arr) jt.targets.push_back(L(l.i()));
    jt.form = I[3].s();
    jt.ann = I[4].b;
    if (jt.form == "mli" && cc.is_64bit()) jt.form = "mbi";            // [label + index*W] only exists in 32-bit mode
    if (jt.form != "mli") {
      jt.base = cc.new_gp_ptr("jx_base");
      if (jt.form == "mstk") {
        x86::Mem st = cc.new_stack(4 * W, W, "jx_tab");
        x86::Gp t = cc.new_gp_ptr("jx_t");
        for (size_t k = 0; k < 4; k++) { cc.lea(t, x86::ptr(jt.targets[k])); x86::Mem m = st.clone_adjusted(int64_t(k * W)); m.set_size(W); cc.mov(m, t); }
        cc.lea(jt.base, st);
        jt.on_stack = true;
      }
      else {
        cc.lea(jt.base, x86::ptr(jt.table));
        if (jt.form == "mbid") cc.sub(jt.base, 16);
      }
    }
    xtabs.push_back(jt);
  }
  size_t xtab_next = 0;
  auto stkcell = [&](long long k) { x86::Mem m = stk.clone_adjusted(4 * k); m.set_size(4); return m; };

  for (auto& I : prog.arr) {
    const std::string& op = I[0].s();
    auto R = [&](size_t k) -> x86::Gp& { return v[size_t(I[k].i())]; };
    if (op == "movi") cc.mov(R(1), I[2].i());
    else if (op == "mov") cc.mov(R(1), R(2));
    else if (op == "add") { cc.add(R(1), R(2)); mask(R(1)); }
    else if (op == "sub") { cc.sub(R(1), R(2)); mask(R(1)); }
    else if (op == "imul") { cc.imul(R(1), R(2)); mask(R(1)); }
    else if (op == "and") cc.and_(R(1), R(2));
    else if (op == "or") cc.or_(R(1), R(2));
    else if (op == "xor") cc.xor_(R(1), R(2));
    else if (op == "addi") { cc.add(R(1), I[2].i()); mask(R(1)); }
    else if (op == "subi") { cc.sub(R(1), I[2].i()); mask(R(1)); }
    else if (op == "muli") { cc.imul(R(1), R(1), I[2].i()); mask(R(1)); }
    else if (op == "andi") cc.and_(R(1), I[2].i());
    else if (op == "ori") cc.or_(R(1), I[2].i());
    else if (op == "neg") { cc.neg(R(1)); mask(R(1)); }
    else if (op == "not") { cc.not_(R(1)); mask(R(1)); }
    else if (op == "xorself") cc.xor_(R(1), R(1));
    else if (op == "shl") { cc.shl(R(1), R(2).r8()); mask(R(1)); }
    else if (op == "shr") cc.shr(R(1), R(2).r8());
    else if (op == "sar") cc.sar(R(1), R(2).r8());
    else if (op == "label") cc.bind(L(I[1].i()));
    else if (op == "jmp") cc.jmp(L(I[1].i()));
    else if (op == "jcc") { cc.cmp(R(2), R(3)); cc.j(x86_cc(I[1].s()), L(I[4].i())); }
    else if (op == "jcci") { cc.cmp(R(2), I[3].i()); cc.j(x86_cc(I[1].s()), L(I[4].i())); }
    else if (op == "jtab") {
      x86::Gp t = cc.new_gp_ptr("jt_idx");
      x86::Gp off = cc.new_gp_ptr("jt_off");
      x86::Gp tgt = cc.new_gp_ptr("jt_tgt");
      JTab jt;
      jt.table = cc.new_label();
      cc.mov(t.r32(), R(1));
      cc.and_(t.r32(), 3);
      cc.lea(off, x86::ptr(jt.table));
      if (cc.is_64bit()) cc.movsxd(tgt, x86::dword_ptr(off, t, 2)); else cc.mov(tgt, x86::dword_ptr(off, t, 2));
      cc.add(tgt, off);
      JumpAnnotation* ann = cc.new_jump_annotation();
      for (auto& l : I[2].arr) { jt.targets.push_back(L(l.i())); ann->add_label(L(l.i())); }
      cc.jmp(tgt, ann);
      tabs.push_back(jt);
    }
    else if (op == "jtabx") {
      JTabX<x86::Gp>& jt = xtabs[xtab_next++];
      x86::Gp idx = cc.is_64bit() ? R(1).r64() : R(1);          // the program register itself is the index (value < 4)
      JumpAnnotation* ann = nullptr;
      std::vector<uint32_t> ids;
      for (auto& t : jt.targets) ids.push_back(t.id());
      if (jt.ann) { ann = cc.new_jump_annotation(); for (auto& t : jt.targets) ann->add_label(t); }
      auto sized = [&](x86::Mem m) { m.set_size(W); return m; };
      if (jt.form == "reg") {
        x86::Gp tgt = cc.new_gp_ptr("jx_tgt");
        cc.mov(tgt, sized(x86::ptr(jt.base, idx, WS)));
        if (ann) cc.jmp(tgt, ann); else cc.jmp(tgt);
      }
      else if (jt.form == "mb") {
        x86::Gp addr = cc.new_gp_ptr("jx_addr");
        cc.lea(addr, x86::ptr(jt.base, idx, WS));
        if (ann) cc.jmp(sized(x86::ptr(addr)), ann); else cc.jmp(sized(x86::ptr(addr)));
      }
      else {
        x86::Mem m = jt.form == "mli" ? x86::ptr(jt.table, idx, WS) : jt.form == "mbid" ? x86::ptr(jt.base, idx, WS, 16) : x86::ptr(jt.base, idx, WS);
        if (ann) cc.jmp(sized(m), ann); else cc.jmp(sized(m));
      }
      if (!ann) g_jump_hints[cc.cursor()] = ids;
    }
    else if (op == "setcc") { cc.cmp(R(2), R(3)); cc.set(x86_cc(I[1].s()), R(4).r8()); }
    else if (op == "cmov") { cc.cmp(R(2), R(3)); cc.cmov(x86_cc(I[1].s()), R(4), R(5)); }
    else if (op == "div") cc.div(R(1), R(2), R(3));
    else if (op == "idiv") cc.idiv(R(1), R(2), R(3));
    else if (op == "mul") { cc.mul(R(1), R(2), R(3)); mask(R(2)); }
    else if (op == "xchg") cc.xchg(R(1), R(2));
    else if (op == "cmpxchg") cc.cmpxchg(R(1), R(2), R(3));
    else if (op == "st") cc.mov(outcell(I[1].i()), R(2));
    else if (op == "ld") cc.mov(R(1), outcell(I[2].i()));
    else if (op == "sst") cc.mov(stkcell(I[1].i()), R(2));
    else if (op == "sld") cc.mov(R(1), stkcell(I[2].i()));
    else if (op == "sstx" || op == "sldx") {
      x86::Gp t = cc.new_gp_ptr("sx_idx");
      bool st = op == "sstx";
      cc.mov(t.r32(), st ? R(1) : R(2));
      cc.and_(t.r32(), NS - 1);
      x86::Mem m = stk.clone();
      m.set_index(t, 2);
      m.set_size(4);
      if (st) cc.mov(m, R(2)); else cc.mov(R(1), m);
    }
    else if (op == "call1") {
      InvokeNode* inv;
      cc.invoke(Out(inv), imm((void*)helper1), FuncSignature::build<uint32_t, uint32_t, uint32_t>());
      inv->set_arg(0, R(2));
      inv->set_arg(1, R(3));
      inv->set_ret(0, R(1));
    }
    else if (op == "call2") {
      InvokeNode* inv;
      cc.invoke(Out(inv), imm((void*)helper2), FuncSignature::build<uint32_t, uint32_t, uint32_t, uint32_t, uint32_t, uint32_t, uint32_t, uint32_t, uint32_t>());
      for (unsigned k = 0; k < 8; k++) inv->set_arg(k, v[size_t(I[2][k].i())]);
      inv->set_ret(0, R(1));
    }
    else if (op == "initall") { for (long long r = I[1].i(); r <= I[2].i(); r++) cc.mov(v[size_t(r)], init_const(uint32_t(r))); }
    else if (op == "fold") {
      for (long long r = I[2].i(); r <= I[3].i(); r++) { cc.imul(R(1), R(1), 31); cc.add(R(1), v[size_t(r)]); mask(R(1)); }
    }
    else if (avx && (op == "vset" || op == "vget" || op == "vmov" || op == "vxor" || op == "vor" || op == "vand" || op == "vandn")) {
      // VEX forms; both operands in the width both registers have (ymm only if both are 256-bit registers)
      if (op == "vset") cc.vmovd(XV(I, 1).xmm(), R(2));
      else if (op == "vget") cc.vmovd(R(1), XV(I, 2).xmm());
      else {
        bool y = XV(I, 1).is_vec256() && XV(I, 2).is_vec256();
        x86::Vec d = y ? XV(I, 1).ymm() : XV(I, 1).xmm(), s2 = y ? XV(I, 2).ymm() : XV(I, 2).xmm();
        if (op == "vmov") { if (I[1].i() % 2) cc.vmovdqa(d, s2); else cc.vmovdqu(d, s2); }
        else if (op == "vxor") cc.vpxor(d, d, s2);
        else if (op == "vor") cc.vpor(d, d, s2);
        else if (op == "vand") cc.vpand(d, d, s2);
        else cc.vpandn(d, d, s2);                     // d = ~d & s2
      }
    }
    else if (op == "vset") cc.movd(xv[size_t(I[1].i())], R(2));
    else if (op == "vget") cc.movd(R(1), xv[size_t(I[2].i())]);
    else if (op == "vmov") cc.movdqa(xv[size_t(I[1].i())], xv[size_t(I[2].i())]);
    else if (op == "vxor") cc.pxor(xv[size_t(I[1].i())], xv[size_t(I[2].i())]);
    else if (op == "vor") cc.por(xv[size_t(I[1].i())], xv[size_t(I[2].i())]);
    else if (op == "vand") cc.pand(xv[size_t(I[1].i())], xv[size_t(I[2].i())]);
    else if (op == "vandn") cc.pandn(xv[size_t(I[1].i())], xv[size_t(I[2].i())]);
    else if (op == "vinitall") {
      x86::Gp t = cc.new_gp32("vi");
      for (long long r = I[1].i(); r <= I[2].i(); r++) { cc.mov(t, init_const(uint32_t(1000 + r))); if (avx) cc.vmovd(xv[size_t(r)].xmm(), t); else cc.movd(xv[size_t(r)], t); }
    }
    else if (op == "vfold") {
      x86::Gp t = cc.new_gp32("vf");
      for (long long r = I[2].i(); r <= I[3].i(); r++) { if (avx) cc.vmovd(t, xv[size_t(r)].xmm()); else cc.movd(t, xv[size_t(r)]); cc.imul(R(1), R(1), 31); cc.add(R(1), t); mask(R(1)); }
    }
    else if (op == "qinitall") {
      for (long long r = I[1].i(); r <= I[2].i(); r++) cc.mov(qv[size_t(r)], uint64_t((uint64_t(init_const(uint32_t(2000 + r))) << 32) | init_const(uint32_t(3000 + r))));
    }
    else if (op == "qset") { x86::Gp t = cc.new_gp64("qs"); cc.mov(QR(I, 1).r32(), R(2)); cc.shl(QR(I, 1), 32); cc.mov(t.r32(), R(3)); cc.or_(QR(I, 1), t); }
    else if (op == "qhi") { x86::Gp t = cc.new_gp64("qh"); cc.mov(t, QR(I, 2)); cc.shr(t, 32); cc.mov(R(1), t.r32()); }
    else if (op == "qlo") cc.mov(R(1), QR(I, 2).r32());
    else if (op == "qmov") cc.mov(QR(I, 1), QR(I, 2));
    else if (op == "qxor") cc.xor_(QR(I, 1), QR(I, 2));
    else if (op == "qmov32") cc.mov(QR(I, 1).r32(), QR(I, 2).r32());
    else if (op == "qsx") cc.movsxd(QR(I, 1), R(2));
    else if (op == "qop0") {
      const std::string& o = I[1].s();
      x86::Gp q32 = QR(I, 2).r32();
      if (o == "add") cc.add(q32, 0); else if (o == "sub") cc.sub(q32, 0); else if (o == "xor") cc.xor_(q32, 0); else if (o == "or") cc.or_(q32, 0);
      else if (o == "shl") cc.shl(q32, 0); else if (o == "shr") cc.shr(q32, 0); else if (o == "sar") cc.sar(q32, 0); else if (o == "rol") cc.rol(q32, 0); else cc.ror(q32, 0);
    }
    else if (op == "qset16") cc.mov(QR(I, 1).r16(), R(2).r16());
    else if (op == "qset8") cc.mov(QR(I, 1).r8(), R(2).r8());
    else if (op == "qsh") {
      const std::string& o = I[1].s();
      if (o == "shl") { cc.shl(R(2), QR(I, 3).r8()); mask(R(2)); } else if (o == "shr") cc.shr(R(2), QR(I, 3).r8()); else cc.sar(R(2), QR(I, 3).r8());
    }
    else if (op == "call3") {
      InvokeNode* inv;
      cc.invoke(Out(inv), imm((void*)helper3), FuncSignature::build<uint32_t, uint64_t, uint32_t>());
      inv->set_arg(0, QR(I, 2));
      inv->set_arg(1, R(3));
      inv->set_ret(0, R(1));
    }
    else if (op == "call4") {
      InvokeNode* inv;
      cc.invoke(Out(inv), imm((void*)helper4), FuncSignature::build<uint64_t, uint32_t>());
      inv->set_arg(0, R(2));
      inv->set_ret(0, QR(I, 1));
    }
    else if (op == "qfold") {
      x86::Gp t = cc.new_gp64("qf");
      for (long long r = I[2].i(); r <= I[3].i(); r++) {
        cc.mov(t, qv[size_t(r)]); cc.shr(t, 32);
        cc.imul(R(1), R(1), 31); cc.add(R(1), t.r32()); mask(R(1));
        cc.imul(R(1), R(1), 31); cc.add(R(1), qv[size_t(r)].r32()); mask(R(1));
      }
    }
    else if (op == "ret") cc.ret(R(1));
    else { fprintf(stderr, "unknown op %s\n", op.c_str()); exit(3); }
  }
  cc.end_func();
  for (auto& jt : tabs) {
    cc.bind(jt.table);
    for (auto& t : jt.targets) cc.embed_label_delta(t, jt.table, 4);
  }
  for (auto& jt : xtabs) {
    if (jt.on_stack) continue;
    cc.align(AlignMode::kData, W);
    cc.bind(jt.table);
    for (auto& t : jt.targets) cc.embed_label(t);
  }
  return fn;
}

static FuncNode* build_a64(a64::Compiler& cc, const Prog& p);

// ---------------------------------------------------------------------------------------------------------
// Leg 2: run on the host
// ---------------------------------------------------------------------------------------------------------
static void clampv(vj::W& w, uint32_t x) { w.val((long long)(x > 65535 ? 99999999 : x)); }

// child: build, run, write the obs part to fd
static void run_child(const Prog& p, int fd) {
  alarm(10);
  JitRuntime rt;
  CodeHolder code;
  code.init(rt.environment(), rt.cpu_features());
  ErrH eh;
  code.set_error_handler(&eh);
  x86::Compiler cc(&code);
  build_x86(cc, p);
  Error e = cc.finalize();
  vj::W w;
  w.beginObj();
  if (e != Error::kOk || eh.err != Error::kOk) {
    w.kv("status", "compile_error").kv("msg", eh.msg.c_str());
  }
  else {
    typedef uint32_t (*Fn)(uint32_t, uint32_t, uint32_t*);
    Fn fn = nullptr;
    e = rt.add(&fn, &code);
    if (e != Error::kOk) { w.kv("status", "compile_error").kv("msg", "JitRuntime::add failed"); }
    else {
      w.kv("status", "ran");
      w.key("obs").beginArr();
      std::string raw;
      for (auto& in : (*p.rec)["inputs"].arr) {
        uint32_t guard[NOUT + 16];
        for (auto& g : guard) g = 0xCDCDCDCD;
        uint32_t* out = guard + 8;
        memset(out, 0, NOUT * 4);
        g_log.clear();
        g_log_overflow = 0;
        uint32_t ret = fn(uint32_t(in[0].i()), uint32_t(in[1].i()), out);
        bool guards_ok = true;
        for (int i = 0; i < 8; i++) guards_ok &= guard[i] == 0xCDCDCDCD && guard[8 + NOUT + i] == 0xCDCDCDCD;
        w.beginObj();
        w.key("ret"); clampv(w, ret);
        w.key("out").beginArr(); for (int i = 0; i < NOUT; i++) clampv(w, out[i]); w.endArr();
        w.key("log").beginArr();
        for (auto& c : g_log) { w.beginArr(); for (auto x : c) clampv(w, x); w.endArr(); }
        if (g_log_overflow) { w.beginArr(); w.val(99); clampv(w, g_log_overflow); w.endArr(); }
        w.endArr();
        w.kv("guards", guards_ok);
        char b[64]; snprintf(b, sizeof b, "%08x", ret); raw += b;
        w.kv("rawret", b);
        w.endObj();
      }
      w.endArr();
    }
  }
  w.endObj();
  w.s += "\n";
  size_t off = 0;
  while (off < w.s.size()) { ssize_t n = write(fd, w.s.data() + off, w.s.size() - off); if (n <= 0) break; off += size_t(n); }
  _exit(0);
}

static std::string json_of(const vj::Value& v) {
  std::string s;
  switch (v.kind) {
    case vj::Value::Null: return "null";
    case vj::Value::Bool: return v.b ? "true" : "false";
    case vj::Value::Num: return std::to_string(v.inum);
    case vj::Value::Str: { vj::W w; w.str(v.str.c_str()); return w.s; }
    case vj::Value::Arr: s = "["; for (size_t i = 0; i < v.arr.size(); i++) { if (i) s += ","; s += json_of(v.arr[i]); } return s + "]";
    case vj::Value::Obj: s = "{"; for (size_t i = 0; i < v.obj.size(); i++) { if (i) s += ","; vj::W w; w.str(v.obj[i].first.c_str()); s += w.s + ":" + json_of(v.obj[i].second); } return s + "}";
  }
  return s;
}

static int cmd_run(const char* in_path, const char* out_path) {
  auto recs = vj::read_ndjson(in_path);
  FILE* out = fopen(out_path, "w");
  if (!out) { perror(out_path); return 3; }
  for (auto& rec : recs) {
    Prog p;
    p.id = rec["id"].i();
    p.rec = &rec;
    p.prog = &rec["prog"];
    p.nv = prog_max_reg(*p.prog); p.init_salt();
    int fds[2];
    if (pipe(fds) != 0) { perror("pipe"); return 3; }
    fflush(out);
    pid_t pid = fork();
    if (pid == 0) { close(fds[0]); run_child(p, fds[1]); }
    close(fds[1]);
    std::string buf;
    char tmp[65536];
    for (;;) { ssize_t n = read(fds[0], tmp, sizeof tmp); if (n <= 0) break; buf.append(tmp, size_t(n)); }
    close(fds[0]);
    int st = 0;
    waitpid(pid, &st, 0);
    std::string head = "{\"id\":" + std::to_string(p.id) + ",\"meta\":" + json_of(rec["meta"]) + ",\"prog\":" + json_of(rec["prog"]) + ",\"inputs\":" + json_of(rec["inputs"]);
    if (WIFEXITED(st) && WEXITSTATUS(st) == 0 && !buf.empty() && buf.back() == '\n') {
      // splice the child's object into the record
      std::string body = buf.substr(1, buf.size() - 3);   // strip '{' ... '}\n'
      fprintf(out, "%s,%s}\n", head.c_str(), body.c_str());
    }
    else {
      int sig = WIFSIGNALED(st) ? WTERMSIG(st) : 0;
      fprintf(out, "%s,\"status\":\"crash\",\"signal\":%d,\"obs\":[]}\n", head.c_str(), sig);
    }
  }
  fclose(out);
  return 0;
}


// ---------------------------------------------------------------------------------------------------------
// Leg 1: record node lists before / after run_passes()
// ---------------------------------------------------------------------------------------------------------
struct Recorder {
  BaseCompiler& cc;
  Arch arch;
  std::map<const BaseNode*, int> ids;
  int next_id = 1;
  explicit Recorder(BaseCompiler& c) : cc(c), arch(c.arch()) {}

  int id_of(const BaseNode* n) { auto it = ids.find(n); if (it != ids.end()) return it->second; ids[n] = next_id; return next_id++; }

  void reg(vj::W& w, RegType rt, uint32_t id) {
    w.beginObj();
    bool virt = Operand::is_virt_id(id);
    w.kv("k", "r").kv("g", int(RegUtils::group_of(rt))).kv("t", int(rt)).kv("sz", int(RegUtils::signature_of(rt).size())).kv("v", virt).kv("id", (long long)(virt ? Operand::virt_id_to_index(id) : id));
    w.endObj();
  }

  void operand(vj::W& w, const Operand_& op) {
    if (op.is_reg()) { const Reg& r = op.as<Reg>(); reg(w, r.reg_type(), r.id()); }
    else if (op.is_mem()) {
      const BaseMem& m = op.as<BaseMem>();
      w.beginObj().kv("k", "m").kv("sz", int(Environment::is_family_x86(arch) ? op.as<x86::Mem>().size() : 0)).kv("home", m.is_reg_home());
      w.key("b");
      if (m.has_base_label()) { w.beginObj().kv("k", "l").kv("id", (long long)m.base_id()).endObj(); }
      else if (m.has_base_reg()) reg(w, m.base_type(), m.base_id());
      else w.null();
      w.key("x");
      if (m.has_index_reg()) reg(w, m.index_type(), m.index_id()); else w.null();
      int64_t off = m.offset();
      w.kv("d", (long long)(off > 1000000000 || off < -1000000000 ? 999999999 : off));
      int mode = 0;
      if (Environment::is_family_arm(arch)) { const a64::Mem& am = op.as<a64::Mem>(); mode = am.is_pre_index() ? 1 : am.is_post_index() ? 2 : 0; }
      w.kv("mode", mode);
      w.endObj();
    }
    else if (op.is_imm()) { int64_t v = op.as<Imm>().value(); w.beginObj().kv("k", "i").kv("v", (long long)(v > 1000000000 || v < -1000000000 ? 999999999 : v)).endObj(); }
    else if (op.is_label()) { w.beginObj().kv("k", "l").kv("id", (long long)op.as<Label>().id()).endObj(); }
    else { w.beginObj().kv("k", "n").endObj(); }
  }

  static int popc(uint64_t x) { return __builtin_popcountll(x); }

  void inst_common(vj::W& w, const InstNode* in) {
    String nm;
    InstId real_id = Environment::is_family_arm(arch) ? BaseInst::extract_real_id(in->inst_id()) : in->inst_id();
    InstAPI::inst_id_to_string(arch, real_id, InstStringifyOptions::kNone, nm);
    w.kv("i", nm.data());
    if (Environment::is_family_arm(arch)) w.kv("cc", int(BaseInst::extract_arm_cond_code(in->inst_id())));
    w.key("ops").beginArr();
    for (const Operand& op : in->operands()) operand(w, op);
    w.endArr();
    if (in->has_extra_reg()) { w.key("extra"); reg(w, in->extra_reg().type(), in->extra_reg().id()); }
    { auto h = g_jump_hints.find(in); if (h != g_jump_hints.end()) { w.key("annu").beginArr(); for (uint32_t l : h->second) w.val((long long)l); w.endArr(); } }
    InstRWInfo rw;
    Error e = InstAPI::query_rw_info(arch, in->baseInst(), in->operands().data(), in->op_count(), &rw);
    if (e == Error::kOk) {
      w.key("rw").beginArr();
      for (size_t k = 0; k < in->op_count(); k++) {
        const OpRWInfo& o = rw.operand(k);
        w.beginObj().kv("r", o.is_read()).kv("w", o.is_write())
         .kv("wb", popc(o.write_byte_mask())).kv("eb", popc(o.extend_byte_mask())).kv("wlo", o.write_byte_mask() ? __builtin_ctzll(o.write_byte_mask()) : 0)
         .kv("rb", popc(o.read_byte_mask()))
         .kv("mbr", o.is_mem_base_read()).kv("mbw", o.is_mem_base_write()).kv("mxr", o.is_mem_index_read()).kv("mxw", o.is_mem_index_write())
         .kv("phys", int(o.phys_id())).kv("cons", int(o.consecutive_lead_count())).endObj();
      }
      w.endArr();
      w.kv("movop", rw.is_mov_op());
    }
    else w.kv("rwerr", int(e));
  }

  void func_value(vj::W& w, const FuncValue& fv) {
    w.beginObj();
    if (fv.is_reg()) { w.kv("k", fv.is_indirect() ? "ind" : "reg").kv("g", int(RegUtils::group_of(fv.reg_type()))).kv("id", int(fv.reg_id())); }
    else if (fv.is_stack()) { w.kv("k", fv.is_indirect() ? "inds" : "stack").kv("off", int(fv.stack_offset())); }
    else w.kv("k", "none");
    w.kv("ty", int(fv.type_id()));
    w.endObj();
  }

  void node(vj::W& w, const BaseNode* n) {
    w.beginObj().kv("n", id_of(n));
    switch (n->type()) {
      case NodeType::kInst: w.kv("t", "inst"); inst_common(w, n->as<InstNode>()); break;
      case NodeType::kJump: {
        w.kv("t", "jump"); inst_common(w, n->as<InstNode>());
        const JumpNode* j = n->as<JumpNode>();
        if (j->annotation()) { w.key("ann").beginArr(); for (uint32_t l : j->annotation()->label_ids()) w.val((long long)l); w.endArr(); }
        break;
      }
      case NodeType::kLabel: w.kv("t", "label").kv("lab", (long long)n->as<LabelNode>()->label_id()); break;
      case NodeType::kFunc: {
        const FuncNode* f = n->as<FuncNode>();
        w.kv("t", "func").kv("lab", (long long)f->label_id()).kv("exit", (long long)f->exit_node()->label_id()).kv("end", id_of(f->end_node()));
        w.key("args").beginArr();
        for (uint32_t a = 0; a < f->arg_count(); a++) {
          w.beginObj();
          w.key("abi"); func_value(w, f->detail().arg(a));
          const RegOnly& ro = f->arg_pack(a)[0];
          w.key("v");
          if (ro.is_reg()) reg(w, ro.type(), ro.id()); else w.null();
          w.endObj();
        }
        w.endArr();
        w.key("ret"); func_value(w, f->detail().ret(0));
        break;
      }
      case NodeType::kFuncRet: w.kv("t", "ret"); inst_common(w, n->as<InstNode>()); break;
      case NodeType::kInvoke: {
        const InvokeNode* iv = n->as<InvokeNode>();
        w.kv("t", "invoke"); inst_common(w, iv);
        const FuncDetail& fd = iv->detail();
        w.key("args").beginArr();
        for (uint32_t a = 0; a < iv->arg_count(); a++) {
          w.beginObj(); w.key("abi"); func_value(w, fd.arg(a)); w.key("op"); operand(w, iv->arg(a, 0)); w.endObj();
        }
        w.endArr();
        w.key("rets").beginArr();
        for (uint32_t r = 0; r < Globals::kMaxValuePack; r++) {
          if (!fd.ret(r)) break;
          w.beginObj(); w.key("abi"); func_value(w, fd.ret(r)); w.key("op"); operand(w, iv->ret(r)); w.endObj();
        }
        w.endArr();
        w.key("preserved").beginArr();
        for (RegGroup g : Support::enumerate(RegGroup::kMaxVirt)) w.val((long long)fd.preserved_regs(g));
        w.endArr();
        w.key("srsz").beginArr();
        for (RegGroup g : Support::enumerate(RegGroup::kMaxVirt)) w.val((long long)fd.call_conv().save_restore_reg_size(g));
        w.endArr();
        w.kv("callee_pops", fd.has_flag(CallConvFlags::kCalleePopsStack));
        break;
      }
      case NodeType::kSentinel: w.kv("t", "sentinel"); break;
      case NodeType::kAlign: w.kv("t", "align"); break;
      case NodeType::kComment: w.kv("t", "comment"); break;
      case NodeType::kSection: w.kv("t", "section"); break;
      default: w.kv("t", "data"); break;
    }
    w.endObj();
  }

  void list(vj::W& w, const char* key) {
    w.key(key).beginArr();
    for (BaseNode* n = cc.first_node(); n; n = n->next()) node(w, n);
    w.endArr();
  }

  void virt_regs(vj::W& w) {
    w.key("vregs").beginArr();
    for (VirtReg* vr : cc.virt_regs()) {
      w.beginObj().kv("g", int(RegUtils::group_of(vr->reg_type()))).kv("sz", int(vr->virt_size())).kv("stack", vr->is_stack_area()).kv("name", vr->name()).endObj();
    }
    w.endArr();
  }
};

static const char* arch_name(Arch a) { return a == Arch::kX64 ? "x64" : a == Arch::kX86 ? "x86" : "a64"; }

// records one Compiler (one or more functions): before-list, run_passes(), after-list
template<typename CC>
static void record_compiler(FILE* out, CC& cc, ErrH& eh, long long id, const std::string& src, const std::string& meta_json) {
  Recorder r(cc);
  vj::W w;
  w.beginObj().kv("e", "Func").kv("id", id).kv("src", src.c_str()).kv("arch", arch_name(cc.arch()));
  w.key("meta"); w.sep(); w.s += meta_json; w.first = false;
  w.kv("W", int(cc.register_size()));
  r.list(w, "before");
  Error e = cc.run_passes();
  w.kv("err", int(e)).kv("errmsg", eh.msg.c_str());
  r.virt_regs(w);
  if (e == Error::kOk) r.list(w, "after");
  w.endObj();
  w.emit(out);
}

// ---------------------------------------------------------------------------------------------------------
// Leg 1 extra source: seeded random functions over mixed register classes and sizes (no execution needed,
// so instructions are free-form).  Every register is initialised at the top and stored at the end.
//   x86-64: gp8/gp16/gp32/gp64 + xmm, partial-register writes, same-register idioms, shifts by CL, mul/div,
//           calls (all xmm are call-clobbered on SysV), diamond + loop.
//   a64   : w/x + s/d/q vector registers, ld1/st1 lists of 2..4 CONSECUTIVE registers, tbl with register lists,
//           calls (only the low 64 bits of v8..v15 are preserved), diamond + loop.
// ---------------------------------------------------------------------------------------------------------
static void gen_x64(x86::Compiler& cc, vj::Rng& rng) {
  unsigned n8 = rng.below(4), n16 = rng.below(4), n32 = 2 + rng.below(14), n64 = 1 + rng.below(8), nx = 2 + rng.below(24);
  std::vector<x86::Gp> g8, g16, g32, g64;
  std::vector<x86::Vec> xs;
  // 1 pointer + 1..13 integer arguments: beyond the register arguments they arrive on the stack
  bool ymode = rng.chance(1, 3);            // 256-bit registers + Win64 calls (needs a frame without stack arguments)
  unsigned nargs = ymode ? 1 + unsigned(rng.below(4)) : 1 + unsigned(rng.below(13));
  FuncSignature sig(CallConvId::kCDecl);
  sig.set_ret_t<void>();
  sig.add_arg_t<void*>();
  for (unsigned i = 0; i < nargs; i++) sig.add_arg_t<uint32_t>();
  FuncNode* fn = cc.add_func(sig);
  x86::Gp p = cc.new_gp_ptr("p");
  x86::Gp a1 = cc.new_gp32("a1");
  fn->set_arg(0, p);
  fn->set_arg(1, a1);
  if (n32 < nargs) n32 = nargs;
  for (unsigned i = 0; i < n8; i++) { g8.push_back(cc.new_gp8("b%u", i)); cc.mov(g8.back(), int(i + 1)); }
  for (unsigned i = 0; i < n16; i++) { g16.push_back(cc.new_gp16("h%u", i)); cc.mov(g16.back(), int(i + 100)); }
  for (unsigned i = 0; i < n32; i++) {
    g32.push_back(cc.new_gp32("w%u", i));
    if (i == 0) cc.mov(g32.back(), a1);
    else if (i < nargs) fn->set_arg(i + 1, g32.back());          // argument i+1 lives in w<i> from the start
    else cc.mov(g32.back(), int(i + 1000));
  }
  for (unsigned i = 0; i < n64; i++) { g64.push_back(cc.new_gp64("q%u", i)); cc.mov(g64.back(), int(i + 5000)); }
  for (unsigned i = 0; i < nx; i++) { xs.push_back(cc.new_xmm("x%u", i)); if (rng.chance(1, 2)) cc.movd(xs.back(), g32[rng.below(n32)]); else cc.pxor(xs.back(), xs.back()); }
  // wide vector registers kept across two Win64 calls: the first call spills them (they are dirty), the reads reload them
  // (clean), the second call must again treat ymm6..15 as clobbered in their upper halves
  std::vector<x86::Vec> ys;
  if (ymode) {
    static const TypeId yt[] = { TypeId::kInt32x8, TypeId::kFloat32x8, TypeId::kFloat64x4, TypeId::kInt8x32, TypeId::kUInt16x16, TypeId::kInt64x4 };
    unsigned ny = 8 + unsigned(rng.below(8));
    for (unsigned i = 0; i < ny; i++) { ys.push_back(cc.new_vec(yt[rng.below(6)], "y%u", i)); cc.vmovups(ys.back(), x86::ptr(p, int(32 * (i % 4)))); }
    for (int round = 0; round < 2; round++) {
      InvokeNode* inv;
      cc.invoke(Out(inv), imm((void*)helper1), FuncSignature::build<uint32_t, uint32_t, uint32_t>(CallConvId::kX64Windows));
      inv->set_arg(0, g32[rng.below(n32)]); inv->set_arg(1, g32[rng.below(n32)]); inv->set_ret(0, g32[rng.below(n32)]);
      for (auto& y : ys) cc.vmovups(x86::ptr(p, int(32 * rng.below(4))), y);
    }
  }
  x86::Gp cnt = cc.new_gp32("cnt");
  Label L1 = cc.new_label(), L2 = cc.new_label(), Lloop = cc.new_label();
  auto G32 = [&]() -> x86::Gp& { return g32[rng.below(n32)]; };
  auto G64 = [&]() -> x86::Gp& { return g64[rng.below(n64)]; };
  auto X = [&]() -> x86::Vec& { return xs[rng.below(nx)]; };
  auto block = [&](unsigned n) {
    for (unsigned k = 0; k < n; k++) {
      switch (rng.below(22)) {
        case 0: cc.add(G32(), G32()); break;
        case 1: cc.add(G64(), G64()); break;
        case 2: if (n16) cc.add(g16[rng.below(n16)], g16[rng.below(n16)]); break;
        case 3: if (n8) cc.add(g8[rng.below(n8)], g8[rng.below(n8)]); break;
        case 4: if (n8) cc.movzx(G32(), g8[rng.below(n8)]); break;
        case 5: cc.paddd(X(), X()); break;
        case 6: cc.movaps(X(), X()); break;
        case 7: cc.movd(G32(), X()); break;
        case 8: cc.movd(X(), G32()); break;
        case 9: cc.mov(x86::dword_ptr(p, int(4 * rng.below(16))), G32()); break;
        case 10: cc.movups(x86::ptr(p, int(16 * rng.below(8))), X()); break;
        case 11: { x86::Gp& d = G32(); x86::Gp& c = G32(); if (d.id() != c.id()) cc.shl(d, c.r8()); break; }
        case 12: { x86::Gp& r = G32(); cc.xor_(r, r); break; }
        case 13: cc.pxor(X(), X()); break;
        case 14: if (n32 >= 3) { unsigned i = rng.below(n32), j = (i + 1) % n32, k2 = (i + 2) % n32; cc.mul(g32[i], g32[j], g32[k2]); } break;
        case 15: cc.movq(G64(), X()); break;
        case 16: cc.mov(G32().r8(), int(rng.below(200))); break;                 // partial write of a 32-bit register
        case 17: if (n16) cc.mov(G32().r16(), g16[rng.below(n16)]); break;       // partial write
        case 18: cc.add(G32(), x86::dword_ptr(p, int(4 * rng.below(16)))); break;
        case 19: cc.lea(G64(), x86::ptr(G64(), G64(), 1, 8)); break;
        case 20: if (rng.chance(1, 3)) {
          InvokeNode* inv;
          cc.invoke(Out(inv), imm((void*)helper1), FuncSignature::build<uint32_t, uint32_t, uint32_t>());
          inv->set_arg(0, G32()); inv->set_arg(1, G32()); inv->set_ret(0, G32());
        } break;
        case 21: cc.pshufd(X(), X(), int(rng.below(256))); break;
      }
    }
  };
  unsigned bl = 3 + rng.below(8);
  block(bl);
  cc.cmp(G32(), G32());
  cc.jb(L1);
  block(bl);
  cc.jmp(L2);
  cc.bind(L1);
  block(bl);
  cc.bind(L2);
  cc.mov(cnt, 3);
  cc.bind(Lloop);
  block(bl);
  cc.sub(cnt, 1);
  cc.jnz(Lloop);
  block(bl);
  int off = 0;
  for (auto& r : g8) { cc.mov(x86::byte_ptr(p, off), r); off += 1; }
  for (auto& r : g16) { cc.mov(x86::word_ptr(p, off), r); off += 2; }
  for (auto& r : g32) { cc.mov(x86::dword_ptr(p, off), r); off += 4; }
  for (auto& r : g64) { cc.mov(x86::qword_ptr(p, off), r); off += 8; }
  for (auto& r : xs) { cc.movups(x86::ptr(p, off), r); off += 16; }
  for (auto& r : ys) { cc.vmovups(x86::ptr(p, off), r); off += 32; }
  cc.ret();
  cc.end_func();
}

static void gen_a64(a64::Compiler& cc, vj::Rng& rng) {
  unsigned nw = 2 + rng.below(20), nxr = 1 + rng.below(12), nq = 4 + rng.below(30), nd = rng.below(6), ns = rng.below(6);
  std::vector<a64::Gp> w, x;
  std::vector<a64::Vec> q, d, sv;
  unsigned nargs = 1 + rng.below(13);
  FuncSignature sig(CallConvId::kCDecl);
  sig.set_ret_t<void>();
  sig.add_arg_t<void*>();
  for (unsigned i = 0; i < nargs; i++) sig.add_arg_t<uint32_t>();
  FuncNode* fn = cc.add_func(sig);
  a64::Gp p = cc.new_gp_ptr("p");
  a64::Gp a1 = cc.new_gp32("a1");
  fn->set_arg(0, p);
  fn->set_arg(1, a1);
  if (nw < nargs) nw = nargs;
  for (unsigned i = 0; i < nw; i++) {
    w.push_back(cc.new_gp32("w%u", i));
    if (i == 0) cc.mov(w.back(), a1);
    else if (i < nargs) fn->set_arg(i + 1, w.back());
    else cc.mov(w.back(), int(i + 1000));
  }
  for (unsigned i = 0; i < nxr; i++) { x.push_back(cc.new_gp64("x%u", i)); cc.mov(x.back(), int(i + 5000)); }
  for (unsigned i = 0; i < nq; i++) { q.push_back(cc.new_vec_q("q%u", i)); cc.ldr(q.back(), a64::ptr(p, int(16 * (i % 8)))); }
  for (unsigned i = 0; i < nd; i++) { d.push_back(cc.new_vec_d("d%u", i)); cc.ldr(d.back(), a64::ptr(p, int(8 * i))); }
  for (unsigned i = 0; i < ns; i++) { sv.push_back(cc.new_vec_s("s%u", i)); cc.ldr(sv.back(), a64::ptr(p, int(4 * i))); }
  // 128-bit registers kept across two calls (AAPCS64 preserves only the low 64 bits of v8..v15)
  if (rng.chance(1, 2)) {
    for (int round = 0; round < 2; round++) {
      InvokeNode* inv;
      cc.invoke(Out(inv), imm((void*)helper1), FuncSignature::build<uint32_t, uint32_t, uint32_t>());
      inv->set_arg(0, w[rng.below(nw)]); inv->set_arg(1, w[rng.below(nw)]); inv->set_ret(0, w[rng.below(nw)]);
      for (auto& r : q) cc.str(r, a64::ptr(p, int(16 * rng.below(8))));
    }
  }
  a64::Gp cnt = cc.new_gp32("cnt");
  Label L1 = cc.new_label(), L2 = cc.new_label(), Lloop = cc.new_label();
  auto W = [&]() -> a64::Gp& { return w[rng.below(nw)]; };
  auto XR = [&]() -> a64::Gp& { return x[rng.below(nxr)]; };
  auto Q = [&]() -> a64::Vec& { return q[rng.below(nq)]; };
  // k distinct q registers
  auto pickq = [&](unsigned k, std::vector<unsigned>& idx) {
    idx.clear();
    while (idx.size() < k) { unsigned c = unsigned(rng.below(nq)); if (std::find(idx.begin(), idx.end(), c) == idx.end()) idx.push_back(c); }
  };
  std::vector<unsigned> ix;
  auto block = [&](unsigned n) {
    for (unsigned k = 0; k < n; k++) {
      switch (rng.below(20)) {
        case 0: cc.add(W(), W(), W()); break;
        case 1: cc.add(XR(), XR(), XR()); break;
        case 2: cc.add(Q().s4(), Q().s4(), Q().s4()); break;
        case 3: cc.mov(Q().b16(), Q().b16()); break;
        case 4: cc.fmov(W(), Q().s()); break;
        case 5: cc.eor(W(), W(), W()); break;
        case 6: cc.str(W(), a64::ptr(p, int(4 * rng.below(16)))); break;
        case 7: cc.str(Q(), a64::ptr(p, int(16 * rng.below(8)))); break;
        case 8: pickq(2, ix); cc.ld1(q[ix[0]].b16(), q[ix[1]].b16(), a64::ptr(p)); break;
        case 9: if (nq >= 3) { pickq(3, ix); cc.ld1(q[ix[0]].b16(), q[ix[1]].b16(), q[ix[2]].b16(), a64::ptr(p)); } break;
        case 10: if (nq >= 4) { pickq(4, ix); cc.ld1(q[ix[0]].b16(), q[ix[1]].b16(), q[ix[2]].b16(), q[ix[3]].b16(), a64::ptr(p)); } break;
        case 11: pickq(2, ix); cc.st1(q[ix[0]].b16(), q[ix[1]].b16(), a64::ptr(p)); break;
        case 12: if (nq >= 4) { pickq(4, ix); cc.st1(q[ix[0]].b16(), q[ix[1]].b16(), q[ix[2]].b16(), q[ix[3]].b16(), a64::ptr(p)); } break;
        case 13: if (nq >= 4) { pickq(4, ix); cc.tbl(q[ix[0]].b16(), q[ix[1]].b16(), q[ix[2]].b16(), q[ix[3]].b16()); } break;
        case 14: if (nq >= 3) { pickq(3, ix); cc.ld2(q[ix[0]].s4(), q[ix[1]].s4(), a64::ptr(p)); } break;
        case 15: if (nd) cc.fadd(d[rng.below(nd)], d[rng.below(nd)], d[rng.below(nd)]); break;
        case 16: if (ns) cc.fadd(sv[rng.below(ns)], sv[rng.below(ns)], sv[rng.below(ns)]); break;
        case 17: cc.ldr(W(), a64::ptr(p, int(4 * rng.below(16)))); break;
        case 18: if (rng.chance(1, 3)) {
          InvokeNode* inv;
          cc.invoke(Out(inv), imm((void*)helper1), FuncSignature::build<uint32_t, uint32_t, uint32_t>());
          inv->set_arg(0, W()); inv->set_arg(1, W()); inv->set_ret(0, W());
        } break;
        case 19: cc.lsl(W(), W(), W()); break;
      }
    }
  };
  unsigned bl = 3 + rng.below(8);
  block(bl);
  cc.cmp(W(), W());
  cc.b_lo(L1);
  block(bl);
  cc.b(L2);
  cc.bind(L1);
  block(bl);
  cc.bind(L2);
  cc.mov(cnt, 3);
  cc.bind(Lloop);
  block(bl);
  cc.subs(cnt, cnt, 1);
  cc.b_ne(Lloop);
  block(bl);
  int off = 0;
  for (auto& r : w) { cc.str(r, a64::ptr(p, off)); off += 4; }
  off = (off + 7) & ~7;
  for (auto& r : x) { cc.str(r, a64::ptr(p, off)); off += 8; }
  for (auto& r : d) { cc.str(r, a64::ptr(p, off)); off += 8; }
  for (auto& r : sv) { cc.str(r, a64::ptr(p, off)); off += 4; }
  off = (off + 15) & ~15;
  for (auto& r : q) { cc.str(r, a64::ptr(p, off)); off += 16; }
  cc.ret();
  cc.end_func();
}


// run `body` (which writes one record to `out`) in a forked child; a crash of the allocator becomes a record
template<typename F>
static void in_child(FILE* out, long long id, const char* arch_s, const std::string& meta_json, F&& body) {
  fflush(out);
  pid_t pid = fork();
  if (pid == 0) { alarm(60); body(); fflush(out); _exit(0); }
  int st = 0;
  waitpid(pid, &st, 0);
  if (!(WIFEXITED(st) && WEXITSTATUS(st) == 0)) {
    fprintf(out, "{\"e\":\"Func\",\"id\":%lld,\"arch\":\"%s\",\"meta\":%s,\"crashed\":%d}\n", id, arch_s, meta_json.c_str(), WIFSIGNALED(st) ? WTERMSIG(st) : -1);
    fflush(out);
  }
}

static int cmd_record_gen(const char* arch_s, const char* out_path, long long seed, long long count) {
  Arch arch = !strcmp(arch_s, "x64") ? Arch::kX64 : Arch::kAArch64;
  FILE* out = fopen(out_path, "w");
  if (!out) { perror(out_path); return 3; }
  for (long long i = 0; i < count; i++) {
    vj::Rng rng(uint64_t(seed) * 1000003ull + uint64_t(i));
    CodeHolder code;
    code.init(Environment(arch));
    ErrH eh;
    code.set_error_handler(&eh);
    char meta[96];
    snprintf(meta, sizeof meta, "[\"gen\",%lld,%lld]", seed, i);
    in_child(out, i + 1, arch_s, meta, [&]() {
      if (arch == Arch::kAArch64) { a64::Compiler cc(&code); gen_a64(cc, rng); record_compiler(out, cc, eh, i + 1, "gen", meta); }
      else { x86::Compiler cc(&code); gen_x64(cc, rng); record_compiler(out, cc, eh, i + 1, "gen", meta); }
    });
  }
  fclose(out);
  return 0;
}

// ---------------------------------------------------------------------------------------------------------
// Leg 1 source: the functions of asmjit_test_compiler_x86.cpp / _a64.cpp
// ---------------------------------------------------------------------------------------------------------
static int cmd_record_tests(const char* arch_s, const char* out_path) {
  Arch arch = !strcmp(arch_s, "x64") ? Arch::kX64 : !strcmp(arch_s, "x86") ? Arch::kX86 : Arch::kAArch64;
  TestApp app;
  if (arch == Arch::kAArch64) compiler_add_a64_tests(app); else compiler_add_x86_tests(app);
  FILE* out = fopen(out_path, "w");
  if (!out) { perror(out_path); return 3; }
  long long id = 0;
  for (auto& t : app._tests) {
    id++;
    CodeHolder code;
    Environment env(arch);
    code.init(env, CpuInfo::host().features());
    ErrH eh;
    code.set_error_handler(&eh);
    vj::W mw; mw.beginArr().val("test").val(t->name()).endArr();
    std::string meta = mw.s;
    in_child(out, id, arch_s, meta, [&]() {
      if (arch == Arch::kAArch64) { a64::Compiler cc(&code); t->compile(cc); record_compiler(out, cc, eh, id, "test", meta); }
      else { x86::Compiler cc(&code); t->compile(cc); record_compiler(out, cc, eh, id, "test", meta); }
    });
  }
  fclose(out);
  return 0;
}

// developer aid: log of one generated function
static int cmd_asm_gen(const char* arch_s, long long seed, long long i) {
  Arch arch = !strcmp(arch_s, "x64") ? Arch::kX64 : Arch::kAArch64;
  vj::Rng rng(uint64_t(seed) * 1000003ull + uint64_t(i));
  CodeHolder code;
  code.init(Environment(arch));
  FileLogger lg(stdout);
  code.set_logger(&lg);
  if (arch == Arch::kAArch64) { a64::Compiler cc(&code); cc.add_diagnostic_options(DiagnosticOptions::kRAAnnotate | DiagnosticOptions::kRADebugAll); gen_a64(cc, rng); fflush(stdout); Error e = cc.finalize(); printf("error=%u\n", unsigned(e)); }
  else { x86::Compiler cc(&code); cc.add_diagnostic_options(DiagnosticOptions::kRAAnnotate | DiagnosticOptions::kRADebugAll); gen_x64(cc, rng); Error e = cc.finalize(); printf("error=%u\n", unsigned(e)); }
  return 0;
}

// developer aid: print the code before/after register allocation
static int cmd_asm(const char* in_path, long long id) {
  auto recs = vj::read_ndjson(in_path);
  for (auto& rec : recs) {
    if (rec["id"].i() != id) continue;
    Prog p; p.id = id; p.rec = &rec; p.prog = &rec["prog"]; p.nv = prog_max_reg(*p.prog); p.init_salt();
    CodeHolder code;
    code.init(Environment::host());
    StringLogger lg;
    lg.add_flags(FormatFlags::kRegCasts);
    code.set_logger(&lg);
    x86::Compiler cc(&code);
    cc.add_diagnostic_options(DiagnosticOptions::kRAAnnotate | DiagnosticOptions::kRADebugAll);
    build_x86(cc, p);
    Error e = cc.finalize();
    printf("%s\nerror=%u\n", lg.data(), unsigned(e));
  }
  return 0;
}

static int cmd_record(const char* arch_s, const char* in_path, const char* out_path) {
  Arch arch = !strcmp(arch_s, "x64") ? Arch::kX64 : !strcmp(arch_s, "x86") ? Arch::kX86 : Arch::kAArch64;
  auto recs = vj::read_ndjson(in_path);
  FILE* out = fopen(out_path, "w");
  if (!out) { perror(out_path); return 3; }
  for (auto& rec : recs) {
    Prog p; p.id = rec["id"].i(); p.rec = &rec; p.prog = &rec["prog"]; p.nv = prog_max_reg(*p.prog); p.init_salt();
    CodeHolder code;
    code.init(Environment(arch));
    ErrH eh;
    code.set_error_handler(&eh);
    in_child(out, p.id, arch_s, json_of(rec["meta"]), [&]() {
      if (arch == Arch::kAArch64) {
        a64::Compiler cc(&code);
        build_a64(cc, p);
        record_compiler(out, cc, eh, p.id, "leg2", json_of(rec["meta"]));
      }
      else {
        x86::Compiler cc(&code);
        build_x86(cc, p);
        record_compiler(out, cc, eh, p.id, "leg2", json_of(rec["meta"]));
      }
    });
  }
  fclose(out);
  return 0;
}

int main(int argc, char** argv) {
  if (argc >= 4 && !strcmp(argv[1], "recordtests")) return cmd_record_tests(argv[2], argv[3]);
  if (argc >= 5 && !strcmp(argv[1], "asmgen")) return cmd_asm_gen(argv[2], atoll(argv[3]), atoll(argv[4]));
  if (argc >= 6 && !strcmp(argv[1], "recordgen")) return cmd_record_gen(argv[2], argv[3], atoll(argv[4]), atoll(argv[5]));
  if (argc >= 5 && !strcmp(argv[1], "record")) return cmd_record(argv[2], argv[3], argv[4]);
  if (argc >= 4 && !strcmp(argv[1], "run")) return cmd_run(argv[2], argv[3]);
  if (argc >= 4 && !strcmp(argv[1], "asm")) return cmd_asm(argv[2], atoll(argv[3]));
  fprintf(stderr, "usage: regalloc run <programs.ndjson> <obs.ndjson>\n");
  return 3;
}

// ---------------------------------------------------------------------------------------------------------
// AArch64 expansion (Leg 1 only: cannot execute here)
// ---------------------------------------------------------------------------------------------------------
static arm::CondCode a64_cc(const std::string& c) {
  if (c == "e") return arm::CondCode::kEQ;
  if (c == "ne") return arm::CondCode::kNE;
  if (c == "b") return arm::CondCode::kLO;
  if (c == "ae") return arm::CondCode::kHS;
  if (c == "be") return arm::CondCode::kLS;
  return arm::CondCode::kHI;
}

struct JTabA { Label table; std::vector<Label> targets; };

static FuncNode* build_a64(a64::Compiler& cc, const Prog& p) {
  const vj::Value& prog = *p.prog;
  std::vector<a64::Gp> v(p.nv + 1);
  for (unsigned i = 1; i <= p.nv; i++) v[i] = cc.new_gp(pick_type(kTypes32, p.salt, i), "v%u", i);
  unsigned nx = prog_max_xreg(prog);
  std::vector<a64::Vec> xv(nx + 1);
  for (unsigned i = 1; i <= nx; i++) xv[i] = cc.new_vec(pick_type(kTypesV128, p.salt, i), "x%u", i);
  unsigned nq = prog_max_qreg(prog);
  std::vector<a64::Gp> qv(nq + 1);
  for (unsigned i = 1; i <= nq; i++) qv[i] = cc.new_gp(pick_type(kTypes64, p.salt, i), "q%u", i);
  auto QR = [&](const vj::Value& I, size_t k) -> a64::Gp& { return qv[size_t(I[k].i())]; };
  a64::Gp outp = cc.new_gp_ptr("outp");
  a64::Mem stk = cc.new_stack(NS * 4, 4, "stk");
  std::map<long long, Label> labels;
  auto L = [&](long long id) -> Label { auto it = labels.find(id); if (it != labels.end()) return it->second; Label l = cc.new_label(); labels[id] = l; return l; };
  std::vector<JTabA> tabs;

  FuncNode* fn = cc.add_func(FuncSignature::build<uint32_t, uint32_t, uint32_t, void*>());
  fn->set_arg(0, v[1]);
  fn->set_arg(1, v[2]);
  fn->set_arg(2, outp);
  auto mask = [&](const a64::Gp& r) { cc.and_(r, r, 0xFFFF); };
  auto tmp_imm = [&](long long imm) { a64::Gp t = cc.new_gp32("imm"); cc.mov(t, imm); return t; };
  std::vector<JTabX<a64::Gp>> xtabs;
  for (auto& I : prog.arr) {
    if (I[0].s() != "jtabx") continue;
    JTabX<a64::Gp> jt;
    jt.table = cc.new_label();
    for (auto& l : I[2].arr) jt.targets.push_back(L(l.i()));
    jt.form = I[3].s();
    jt.ann = I[4].b;
    jt.base = cc.new_gp_ptr("jx_base");
    if (jt.form == "mstk") {
      a64::Mem st = cc.new_stack(32, 8, "jx_tab");
      a64::Gp t = cc.new_gp_ptr("jx_t");
      for (size_t k = 0; k < 4; k++) { cc.adr(t, jt.targets[k]); cc.str(t, st.clone_adjusted(int64_t(k * 8))); }
      cc.load_address_of(jt.base, st);
      jt.on_stack = true;
    }
    else {
      cc.adr(jt.base, jt.table);
      if (jt.form == "mbid") cc.sub(jt.base, jt.base, 16);
    }
    xtabs.push_back(jt);
  }
  size_t xtab_next = 0;
  auto stkcell = [&](long long k) { return stk.clone_adjusted(4 * k); };

  for (auto& I : prog.arr) {
    const std::string& op = I[0].s();
    auto R = [&](size_t k) -> a64::Gp& { return v[size_t(I[k].i())]; };
    if (op == "movi") cc.mov(R(1), I[2].i());
    else if (op == "mov") cc.mov(R(1), R(2));
    else if (op == "add") { cc.add(R(1), R(1), R(2)); mask(R(1)); }
    else if (op == "sub") { cc.sub(R(1), R(1), R(2)); mask(R(1)); }
    else if (op == "imul") { cc.mul(R(1), R(1), R(2)); mask(R(1)); }
    else if (op == "and") cc.and_(R(1), R(1), R(2));
    else if (op == "or") cc.orr(R(1), R(1), R(2));
    else if (op == "xor") cc.eor(R(1), R(1), R(2));
    else if (op == "addi") { cc.add(R(1), R(1), tmp_imm(I[2].i())); mask(R(1)); }
    else if (op == "subi") { cc.sub(R(1), R(1), tmp_imm(I[2].i())); mask(R(1)); }
    else if (op == "muli") { cc.mul(R(1), R(1), tmp_imm(I[2].i())); mask(R(1)); }
    else if (op == "andi") cc.and_(R(1), R(1), tmp_imm(I[2].i()));
    else if (op == "ori") cc.orr(R(1), R(1), tmp_imm(I[2].i()));
    else if (op == "neg") { cc.neg(R(1), R(1)); mask(R(1)); }
    else if (op == "not") { cc.mvn(R(1), R(1)); mask(R(1)); }
    else if (op == "xorself") cc.eor(R(1), R(1), R(1));
    else if (op == "shl") { cc.lsl(R(1), R(1), R(2)); mask(R(1)); }
    else if (op == "shr") cc.lsr(R(1), R(1), R(2));
    else if (op == "sar") cc.asr(R(1), R(1), R(2));
    else if (op == "label") cc.bind(L(I[1].i()));
    else if (op == "jmp") cc.b(L(I[1].i()));
    else if (op == "jcc") { cc.cmp(R(2), R(3)); cc.b(a64_cc(I[1].s()), L(I[4].i())); }
    else if (op == "jcci") { cc.cmp(R(2), tmp_imm(I[3].i())); cc.b(a64_cc(I[1].s()), L(I[4].i())); }
    else if (op == "jtab") {
      a64::Gp t = cc.new_gp_ptr("jt_idx");
      a64::Gp off = cc.new_gp_ptr("jt_off");
      a64::Gp tgt = cc.new_gp_ptr("jt_tgt");
      JTabA jt;
      jt.table = cc.new_label();
      cc.and_(t.w(), R(1), 3);
      cc.adr(tgt, jt.table);
      cc.ldrsw(off, a64::ptr(tgt, t, a64::lsl(2)));
      cc.add(tgt, tgt, off);
      JumpAnnotation* ann = cc.new_jump_annotation();
      for (auto& l : I[2].arr) { jt.targets.push_back(L(l.i())); ann->add_label(L(l.i())); }
      cc.br(tgt, ann);
      tabs.push_back(jt);
    }
    else if (op == "jtabx") {
      // br reg, the address loaded from the table through two virtual registers (long-lived base, program register as index)
      JTabX<a64::Gp>& jt = xtabs[xtab_next++];
      a64::Gp tgt = cc.new_gp_ptr("jx_tgt");
      std::vector<uint32_t> ids;
      for (auto& t : jt.targets) ids.push_back(t.id());
      if (jt.form == "mbid") { a64::Gp b2 = cc.new_gp_ptr("jx_b2"); cc.add(b2, jt.base, 16); cc.ldr(tgt, a64::ptr(b2, R(1), a64::uxtw(3))); }
      else cc.ldr(tgt, a64::ptr(jt.base, R(1), a64::uxtw(3)));
      if (jt.ann) { JumpAnnotation* ann = cc.new_jump_annotation(); for (auto& t : jt.targets) ann->add_label(t); cc.br(tgt, ann); }
      else { cc.br(tgt); g_jump_hints[cc.cursor()] = ids; }
    }
    else if (op == "setcc") {
      a64::Gp t = cc.new_gp32("cs");
      cc.cmp(R(2), R(3));
      cc.cset(t, a64_cc(I[1].s()));
      cc.and_(R(4), R(4), 0xFF00);
      cc.orr(R(4), R(4), t);
    }
    else if (op == "cmov") { cc.cmp(R(2), R(3)); cc.csel(R(4), R(5), R(4), a64_cc(I[1].s())); }
    else if (op == "div" || op == "idiv") {
      a64::Gp q = cc.new_gp32("q");
      cc.udiv(q, R(2), R(3));
      cc.msub(R(1), q, R(3), R(2));
      cc.mov(R(2), q);
    }
    else if (op == "mul") { cc.mul(R(2), R(2), R(3)); mask(R(2)); cc.mov(R(1), 0); }
    else if (op == "xchg") { a64::Gp t = cc.new_gp32("xt"); cc.mov(t, R(1)); cc.mov(R(1), R(2)); cc.mov(R(2), t); }
    else if (op == "cmpxchg") {
      a64::Gp t = cc.new_gp32("cx");
      cc.cmp(R(3), R(1));
      cc.csel(t, R(2), R(1), arm::CondCode::kEQ);
      cc.csel(R(3), R(3), R(1), arm::CondCode::kEQ);
      cc.mov(R(1), t);
    }
    else if (op == "st") cc.str(R(2), a64::ptr(outp, int32_t(4 * I[1].i())));
    else if (op == "ld") cc.ldr(R(1), a64::ptr(outp, int32_t(4 * I[2].i())));
    else if (op == "sst") cc.str(R(2), stkcell(I[1].i()));
    else if (op == "sld") cc.ldr(R(1), stkcell(I[2].i()));
    else if (op == "sstx" || op == "sldx") {
      bool st = op == "sstx";
      a64::Gp t = cc.new_gp_ptr("sx_idx");
      a64::Gp base = cc.new_gp_ptr("sx_base");
      cc.and_(t.w(), st ? R(1) : R(2), NS - 1);
      cc.load_address_of(base, stk);
      if (st) cc.str(R(2), a64::ptr(base, t, a64::lsl(2))); else cc.ldr(R(1), a64::ptr(base, t, a64::lsl(2)));
    }
    else if (op == "call1") {
      InvokeNode* inv;
      cc.invoke(Out(inv), imm((void*)helper1), FuncSignature::build<uint32_t, uint32_t, uint32_t>());
      inv->set_arg(0, R(2));
      inv->set_arg(1, R(3));
      inv->set_ret(0, R(1));
    }
    else if (op == "call2") {
      InvokeNode* inv;
      cc.invoke(Out(inv), imm((void*)helper2), FuncSignature::build<uint32_t, uint32_t, uint32_t, uint32_t, uint32_t, uint32_t, uint32_t, uint32_t, uint32_t>());
      for (unsigned k = 0; k < 8; k++) inv->set_arg(k, v[size_t(I[2][k].i())]);
      inv->set_ret(0, R(1));
    }
    else if (op == "initall") { for (long long r = I[1].i(); r <= I[2].i(); r++) cc.mov(v[size_t(r)], init_const(uint32_t(r))); }
    else if (op == "fold") {
      a64::Gp k31 = cc.new_gp32("k31");
      cc.mov(k31, 31);
      for (long long r = I[2].i(); r <= I[3].i(); r++) { cc.mul(R(1), R(1), k31); cc.add(R(1), R(1), v[size_t(r)]); mask(R(1)); }
    }
    else if (op == "vset") cc.fmov(xv[size_t(I[1].i())].s(), R(2));
    else if (op == "vget") cc.fmov(R(1), xv[size_t(I[2].i())].s());
    else if (op == "vmov") cc.mov(xv[size_t(I[1].i())].b16(), xv[size_t(I[2].i())].b16());
    else if (op == "vxor") cc.eor(xv[size_t(I[1].i())].b16(), xv[size_t(I[1].i())].b16(), xv[size_t(I[2].i())].b16());
    else if (op == "vor") cc.orr(xv[size_t(I[1].i())].b16(), xv[size_t(I[1].i())].b16(), xv[size_t(I[2].i())].b16());
    else if (op == "vand") cc.and_(xv[size_t(I[1].i())].b16(), xv[size_t(I[1].i())].b16(), xv[size_t(I[2].i())].b16());
    else if (op == "vandn") cc.bic(xv[size_t(I[1].i())].b16(), xv[size_t(I[2].i())].b16(), xv[size_t(I[1].i())].b16());     // x = y & ~x
    else if (op == "vinitall") {
      a64::Gp t = cc.new_gp32("vi");
      for (long long r = I[1].i(); r <= I[2].i(); r++) { cc.mov(t, init_const(uint32_t(1000 + r))); cc.fmov(xv[size_t(r)].s(), t); }
    }
    else if (op == "vfold") {
      a64::Gp t = cc.new_gp32("vf");
      a64::Gp k31 = cc.new_gp32("k31");
      cc.mov(k31, 31);
      for (long long r = I[2].i(); r <= I[3].i(); r++) { cc.fmov(t, xv[size_t(r)].s()); cc.mul(R(1), R(1), k31); cc.add(R(1), R(1), t); mask(R(1)); }
    }
    else if (op == "qinitall") {
      for (long long r = I[1].i(); r <= I[2].i(); r++) cc.mov(qv[size_t(r)], uint64_t((uint64_t(init_const(uint32_t(2000 + r))) << 32) | init_const(uint32_t(3000 + r))));
    }
    else if (op == "qset") { a64::Gp t = cc.new_gp64("qs"); cc.mov(QR(I, 1).w(), R(2)); cc.lsl(QR(I, 1), QR(I, 1), 32); cc.mov(t.w(), R(3)); cc.orr(QR(I, 1), QR(I, 1), t); }
    else if (op == "qhi") { a64::Gp t = cc.new_gp64("qh"); cc.lsr(t, QR(I, 2), 32); cc.mov(R(1), t.w()); }
    else if (op == "qlo") cc.mov(R(1), QR(I, 2).w());
    else if (op == "qmov") cc.mov(QR(I, 1), QR(I, 2));
    else if (op == "qxor") cc.eor(QR(I, 1), QR(I, 1), QR(I, 2));
    else if (op == "qmov32") cc.mov(QR(I, 1).w(), QR(I, 2).w());
    else if (op == "qsx") cc.sxtw(QR(I, 1), R(2));
    else if (op == "qop0") {
      const std::string& o = I[1].s();
      a64::Gp w = QR(I, 2).w();
      if (o == "add" || o == "or" || o == "xor") cc.add(w, w, 0); else if (o == "sub") cc.sub(w, w, 0); else if (o == "shl" || o == "rol") cc.lsl(w, w, 0); else cc.lsr(w, w, 0);
    }
    else if (op == "qset16") cc.bfi(QR(I, 1), R(2).x(), 0, 16);
    else if (op == "qset8") cc.bfi(QR(I, 1), R(2).x(), 0, 8);
    else if (op == "qsh") {
      const std::string& o = I[1].s();
      if (o == "shl") { cc.lsl(R(2), R(2), QR(I, 3).w()); mask(R(2)); } else if (o == "shr") cc.lsr(R(2), R(2), QR(I, 3).w()); else cc.asr(R(2), R(2), QR(I, 3).w());
    }
    else if (op == "call3") {
      InvokeNode* inv;
      cc.invoke(Out(inv), imm((void*)helper3), FuncSignature::build<uint32_t, uint64_t, uint32_t>());
      inv->set_arg(0, QR(I, 2));
      inv->set_arg(1, R(3));
      inv->set_ret(0, R(1));
    }
    else if (op == "call4") {
      InvokeNode* inv;
      cc.invoke(Out(inv), imm((void*)helper4), FuncSignature::build<uint64_t, uint32_t>());
      inv->set_arg(0, R(2));
      inv->set_ret(0, QR(I, 1));
    }
    else if (op == "qfold") {
      a64::Gp t = cc.new_gp64("qf");
      a64::Gp k31 = cc.new_gp32("k31");
      cc.mov(k31, 31);
      for (long long r = I[2].i(); r <= I[3].i(); r++) {
        cc.lsr(t, qv[size_t(r)], 32);
        cc.mul(R(1), R(1), k31); cc.add(R(1), R(1), t.w()); mask(R(1));
        cc.mul(R(1), R(1), k31); cc.add(R(1), R(1), qv[size_t(r)].w()); mask(R(1));
      }
    }
    else if (op == "ret") cc.ret(R(1));
    else { fprintf(stderr, "unknown op %s\n", op.c_str()); exit(3); }
  }
  cc.end_func();
  for (auto& jt : tabs) {
    cc.bind(jt.table);
    for (auto& t : jt.targets) cc.embed_label_delta(t, jt.table, 4);
  }
  for (auto& jt : xtabs) {
    if (jt.on_stack) continue;
    cc.align(AlignMode::kData, 8);
    cc.bind(jt.table);
    for (auto& t : jt.targets) cc.embed_label(t);
  }
  return fn;
}
