// C12 harness (leg 1): observations of InstAPI::query_rw_info / query_features of the real library over the forms of the ISA database.
//
//   rwinfo x86 <forms.ndjson> <out.ndjson> <quick|thorough>     instantiates every DB form (tools/db_export_x86.js table) x {64,32}-bit
//                                                                 x every register/memory alternative x several register assignments
//                                                                 (distinct, rotated / high ids, all-same, pairwise-same) x {k}{z}{er}
//   rwinfo x86replay <in.ndjson> <out.ndjson>                    re-queries recorded requests on the current tree
//   rwinfo a64 <cases.ndjson> <out.ndjson>                       AArch64 register-list cases (lib_a64forms.h descriptors)
//
// The harness only builds operands, calls the public InstAPI and records what it returned; all judgement is in spec/isa/RWInfo.tla.
// Observation = request (see lib_x86forms.h) + "val" InstAPI::validate error, "e" query_rw_info error, "rw": per operand
// {fl op_flags, ph phys_id, rm rm_size, cl consecutive_lead_count, r/w/x = read/write/extend byte masks as 8 bytes (little endian)},
// "xr" the same for the extra {k} register, "if" inst flags, "rf"/"wf" CpuRWFlags read/written, "rmf" rm_feature name,
// "fe" query_features error, "feat": feature names (Formatter::format_feature).
#include "lib_x86forms.h"
#include "lib_a64forms.h"
#include <asmjit/core/formatter.h>
#include <set>

using namespace asmjit;
using namespace x86forms;

static void mask8(vj::W& w, const char* k, uint64_t v) {
  w.key(k).beginArr(); for (int j = 0; j < 8; j++) w.val(int((v >> (8 * j)) & 0xFF)); w.endArr();
}

static void write_op_rw(vj::W& w, const OpRWInfo& op) {
  w.beginObj();
  w.kv("fl", (long long)uint32_t(op.op_flags())).kv("ph", int(op.phys_id())).kv("rm", int(op.rm_size())).kv("cl", int(op.consecutive_lead_count()));
  mask8(w, "r", op.read_byte_mask()); mask8(w, "w", op.write_byte_mask()); mask8(w, "x", op.extend_byte_mask());
  w.endObj();
}

static std::string feature_name(Arch arch, uint32_t id) {
  String s;
  Formatter::format_feature(s, arch, id);
  return std::string(s.data(), s.size());
}

static void write_result(vj::W& w, Arch arch, const BaseInst& inst, const Operand_* ops, size_t n) {
  Error ve = InstAPI::validate(arch, inst, ops, n, ValidationFlags::kNone);
  w.kv("val", (long long)uint32_t(ve));
  InstRWInfo rw{};
  Error e = InstAPI::query_rw_info(arch, inst, ops, n, &rw);
  w.kv("e", (long long)uint32_t(e));
  w.key("rw").beginArr();
  if (e == Error::kOk) for (size_t j = 0; j < n; j++) write_op_rw(w, rw.operand(j));
  w.endArr();
  if (e == Error::kOk) {
    w.key("xr"); write_op_rw(w, rw.extra_reg());
    w.kv("if", (long long)uint32_t(rw.inst_flags())).kv("rf", (long long)uint32_t(rw.read_flags())).kv("wf", (long long)uint32_t(rw.write_flags()));
    w.kv("rmf", rw.rm_feature() ? feature_name(arch, rw.rm_feature()) : std::string(""));
  }
  CpuFeatures f;
  Error fe = InstAPI::query_features(arch, inst, ops, n, &f);
  w.kv("fe", (long long)uint32_t(fe));
  w.key("feat").beginArr();
  if (fe == Error::kOk) {
    CpuFeatures::Iterator it = f.iterator();
    while (it.has_next()) w.val(feature_name(arch, uint32_t(it.next())));
  }
  w.endArr();
}

// ---------------------------------------------------------------------------------------------------------------
// x86
// ---------------------------------------------------------------------------------------------------------------
static long g_n = 0, g_valid = 0;
static vj::Rng* g_rng = nullptr;
static const char* g_dim = "base";      // which sweep dimension produced the request: base | imm | bid

// the real assembler, one per mode: the request is also EMITTED so that the spec can judge the reported features against the
// encoding the library actually produces ("ae" assembler error, "b" bytes)
struct AsmMode {
  CodeHolder code; x86::Assembler* a = nullptr; Environment env;
  void init(int bits) { env = Environment(bits == 64 ? Arch::kX64 : Arch::kX86); reset(); }
  void reset() { delete a; code.reset(); code.init(env); a = new x86::Assembler(&code); }
};
static AsmMode g_asm64, g_asm32;

static void write_emitted(vj::W& w, const Inst& in, InstId id, const Operand_* ops, size_t n) {
  AsmMode& md = in.m == 64 ? g_asm64 : g_asm32;
  if (!md.a) md.init(in.m);
  if (md.code.text_section()->buffer().size() > (8u << 20)) md.reset();
  x86::Assembler& a = *md.a;
  a.set_inst_options(inst_options(in));
  if (in.k) a.set_extra_reg(x86::k(in.k)); else a.reset_extra_reg();
  size_t before = a.offset();
  Error e = a.emit_op_array(id, ops, n);
  size_t after = a.offset();
  a.reset_inst_options(); a.reset_extra_reg();
  w.kv("ae", (long long)uint32_t(e));
  const uint8_t* p = md.code.text_section()->buffer().data();
  w.key("b").beginArr(); for (size_t x = before; x < after && x < before + 15; x++) w.val(int(p[x])); w.endArr();
}

static void query_x86(const Inst& in, FILE* out) {
  Arch arch = in.m == 64 ? Arch::kX64 : Arch::kX86;
  InstId id = InstAPI::string_to_inst_id(arch, in.n.c_str(), in.n.size());
  if (id == BaseInst::kIdNone) return;
  Operand_ ops[6];
  size_t n = in.ops.size();
  if (n > 6) return;
  for (size_t j = 0; j < n; j++) if (!build_operand(in.ops[j], ops[j])) return;
  BaseInst inst(id, inst_options(in));
  if (in.k) inst.set_extra_reg(x86::k(in.k));
  vj::W w;
  w.beginObj();
  write_request(w, in);
  w.kv("dim", g_dim);
  write_result(w, arch, inst, ops, n);
  write_emitted(w, in, id, ops, n);
  w.endObj();
  g_n++;
  if (w.s.find("\"val\":0,") != std::string::npos) g_valid++;
  w.emit(out);
}

// register id pools; rsp/r12 (SIB) and the registers of the memory operand (base 14, index 13) are never register operands
static int gp_pool(int mode, int variant, int slot) {
  static const int p64[2][6] = {{8, 9, 10, 11, 6, 7}, {1, 3, 15, 2, 9, 5}};
  static const int p32[2][6] = {{1, 3, 2, 5, 0, 1}, {3, 1, 5, 2, 1, 0}};       // 32-bit mode: memory operand uses esi/edi
  return (mode == 64 ? p64 : p32)[variant & 1][slot % 6];
}
static int vec_pool(int mode, int variant, int slot, bool evex) {
  static const int a[6] = {1, 2, 3, 4, 5, 6}, b[6] = {9, 12, 15, 7, 10, 11}, c[6] = {17, 25, 31, 3, 20, 9};
  if (mode == 32) return a[(slot + variant) % 6];
  if (variant & 1) return (evex ? c : b)[slot % 6];
  return a[slot % 6];
}

static void gen_form(const Form& f, int mode, bool thorough, FILE* out) {
  if ((f.arch == "X64" && mode != 64) || (f.arch == "X86" && mode != 32)) return;
  size_t nops = f.ops.size();
  if (nops > 6) return;
  std::vector<std::vector<char>> alts(nops);
  size_t combos = 1;
  for (size_t j = 0; j < nops; j++) {
    const FOp& fo = f.ops[j];
    if (fo.ibits || fo.iconst >= 0) alts[j] = {'i'};
    else if (fo.rbits) return;                       // control flow (label operand): outside C12's quantifier
    else {
      if (!fo.regs.empty()) alts[j].push_back('r');
      if (fo.msz >= 0) alts[j].push_back('m');
    }
    if (alts[j].empty()) return;
    combos *= alts[j].size();
  }
  bool evex = f.pk == "E";
  int nvar = thorough ? 6 : 4;
  for (size_t cix = 0; cix < combos; cix++) {
    std::vector<char> kind(nops);
    size_t x = cix; int nmem = 0;
    for (size_t j = 0; j < nops; j++) { kind[j] = alts[j][x % alts[j].size()]; x /= alts[j].size(); if (kind[j] == 'm') nmem++; }
    // one request.  v = register assignment / decoration variant (see below); the overrides cross further dimensions:
    //   immOv   (use = true) value of every immediate operand
    //   maskOv  -1 variant's own decoration, 0 no mask, 1 {k} merge, 2 {k}{z}
    //   bpos/bid  the free vector register operand number bpos (or the VSIB index when bpos == 100) gets the id bid
    //   optOv   option bits (lib_x86forms.h O_VEX / O_VEX3 / O_EVEX) added to the request: the encoding selectors
    auto one = [&](int v, bool useImm, int64_t immOv, int maskOv, int bpos, int bid, uint32_t optOv = 0) {
      Inst in; in.f = f.id; in.n = f.name; in.m = mode; in.opt = optOv;
      int slot = 0; bool bad = false;
      std::string firstClass; int firstId = -1, prevId = -1; std::string prevClass;
      int nfree = 0;
      for (size_t j = 0; j < nops; j++) if (kind[j] == 'r' && f.ops[j].fixed < 0 && !f.ops[j].pair) nfree++;
      int freeSeen = 0, vecSeen = 0;
      for (size_t j = 0; j < nops && !bad; j++) {
        const FOp& fo = f.ops[j];
        if (fo.pair) {
          Opd o = R("k", 0);
          for (const Opd& p : in.ops) if (p.t == 'r' && p.c == "k") { o.id = p.id + 1; break; }
          in.ops.push_back(o); continue;
        }
        if (kind[j] == 'r') {
          std::string c = fo.regs[0];
          if (fo.regs.size() > 1 && (v % 2) == 1) c = fo.regs[1];              // r8: gpb in even variants, gph in odd ones
          if (fo.fixed >= 0) { in.ops.push_back(R(c.c_str(), fo.fixed)); continue; }
          freeSeen++;
          int id;
          bool isvec = c == "xmm" || c == "ymm" || c == "zmm";
          bool isgp = c == "gpb" || c == "gpw" || c == "gpd" || c == "gpq" || c == "gph";
          if (isgp) id = c == "gph" ? (slot % 4) : gp_pool(mode, v, slot);
          else if (isvec) id = vec_pool(mode, v, slot, evex);
          else if (c == "k") id = 1 + ((slot * 2 + v) % 6);                     // pairs need an even lead: handled below
          else if (c == "mm" || c == "st" || c == "tmm") id = (1 + slot + v) % 8;
          else if (c == "sreg") id = (v % 2) ? 4 : 0;                             // es / fs
          else if (c == "creg") id = (v % 2) ? 3 : 0;
          else if (c == "dreg") id = (v % 2) ? 7 : 0;
          else if (c == "bnd") id = (slot + v) % 4;
          else id = 0;
          if (c == "gpb" && mode == 32) id %= 4;
          // gph cannot be combined with REX registers: use low ids everywhere in that variant
          bool classLike = (isgp && !prevClass.empty() && (prevClass[0] == 'g')) || (isvec && (prevClass == "xmm" || prevClass == "ymm" || prevClass == "zmm")) || prevClass == c;
          if (v == 2 && firstId >= 0 && ((isgp && firstClass[0] == 'g') || (isvec && firstClass[1] == 'm' && firstClass != "mm") || firstClass == c)) id = firstId;
          if (v == 3 && freeSeen == nfree && classLike && prevId >= 0) id = prevId;
          if (c == "gph") id %= 4;
          if (isvec) { if (bpos == vecSeen) id = bid; vecSeen++; }
          if (j + 1 < nops && f.ops[j + 1].pair) id &= ~1;                        // mask pair lead
          if (firstId < 0) { firstId = id; firstClass = c; }
          prevId = id; prevClass = c;
          in.ops.push_back(R(c.c_str(), id));
          slot++;
        } else if (kind[j] == 'i') {
          static const int64_t vals[6] = {1, 0x7F, 0xAA, 0x0F, 0x55, 3};
          int64_t val = fo.iconst >= 0 ? fo.iconst : (useImm ? immOv : vals[v % 6]);
          if (fo.ibits == 4) val &= 15;
          in.ops.push_back(I(val));
        } else {
          Opd o; o.t = 'm'; o.sz = fo.msz > 0 ? fo.msz : 0;
          std::string nat = mode == 64 ? "gpq" : "gpd";
          if (!fo.memreg.empty()) {
            o.bt = nat; o.b = fo.memreg == "zdi" ? 7 : fo.memreg == "zsi" ? 6 : fo.memreg == "zbx" ? 3 : 0;
            if (fo.mseg == "es") o.sg = 1;
          } else if (fo.fld == "moff") {
            o.d = 0x1000;
          } else {
            o.bt = nat; o.b = mode == 64 ? 14 : 6; o.d = (v % 2) ? 64 : 0;
            if (!fo.vsib.empty()) { o.it = fo.vsib; o.i = bpos == 100 ? bid : vec_pool(mode, v, 5, evex); o.sh = v % 3; }
            else if (v % 2) { o.it = nat; o.i = mode == 64 ? 13 : 7; o.sh = v % 4; }
            if (fo.bcst && v == 3) { o.bc = (fo.msz * 8) / fo.bcst; o.sz = fo.bcst / 8; if (o.bc < 2) { o.bc = 0; o.sz = fo.msz; } }
          }
          in.ops.push_back(o);
        }
      }
      if (bad) return;
      if (f.pk == "E") {
        if (maskOv < 0) {
          if (f.k && (v % 4) != 0) in.k = 1 + v;
          if (f.k && f.z && (v % 4) == 2 && !(nops > 0 && kind[0] == 'm')) in.z = 1;
          if (nmem == 0 && f.er && v == 1) in.er = 1;
          else if (nmem == 0 && f.sae && v == 1) in.sae = 1;
        } else if (maskOv > 0) {
          in.k = maskOv == 1 ? 2 : 5;
          if (maskOv == 2) in.z = 1;
        }
      }
      query_x86(in, out);
    };
    int nfree = 0, nvecfree = 0; bool hasImm = false, hasVsib = false;
    for (size_t j = 0; j < nops; j++) {
      if (kind[j] == 'r' && f.ops[j].fixed < 0 && !f.ops[j].pair) { nfree++; const std::string& c = f.ops[j].regs[0]; if (c == "xmm" || c == "ymm" || c == "zmm") nvecfree++; }
      if (kind[j] == 'i' && f.ops[j].iconst < 0 && f.ops[j].ibits >= 8) hasImm = true;
      if (kind[j] == 'm' && !f.ops[j].vsib.empty()) hasVsib = true;
    }
    for (int v = 0; v < nvar; v++) {
      // v0 distinct, v1 distinct (other ids / high vector ids / gph), v2 all free registers of a class equal, v3 last two free registers equal,
      // v4/v5 (thorough) = v0/v1 with other immediates / decorations
      if ((v == 2 || v == 3) && nfree < 2 && !(v == 2 && nfree == 1)) continue;
      if (v == 3 && nfree < 3) continue;
      if (mode == 32 && !thorough && (v == 1 || v == 3)) continue;        // quick tier, 32-bit mode: distinct and all-same assignments only
      g_dim = "base";
      one(v, false, 0, -1, -1, 0);
    }
    // ---- dimension: immediate value x masking x {distinct, all-same} (instruction-specific special cases are selected by the
    //      immediate: vpternlog truth tables, and/or/test with 0 / -1, shift counts 0, blend / shuffle / permute selectors ...)
    if (hasImm) {
      static const int64_t imms[] = {0, 0xFF, -1, 0x11, 0x22, 0x44, 0x88, 0xCC, 0x0F, 0xF0, 0x55, 0xAA, 0x5A};
      bool maskable = f.pk == "E" && f.k;
      bool memDest = nops > 0 && kind[0] == 'm';
      for (int assign = 0; assign < 2; assign++) {
        if (assign == 1 && nfree < 2) continue;
        int v = assign == 0 ? 0 : 2;
        for (int mk = 0; mk < 3; mk++) {
          if (mk > 0 && !maskable) continue;
          if (mk == 2 && (!f.z || memDest)) continue;
          size_t ni = sizeof(imms) / sizeof(imms[0]);
          g_dim = "imm";
          for (size_t q = 0; q < ni + 1; q++) {
            // the full list for maskable (EVEX) forms in 64-bit mode; elsewhere 0 / 0xFF / -1 and the nibble patterns 0x0F 0xF0 0xAA
            bool shortList = !maskable || mode == 32 || (!thorough && (mk == 2 || assign == 1));
            if (shortList && !(q < 3 || (mode == 64 && (q == 8 || q == 9 || q == 11)) || (maskable && q == 11))) continue;
            if (mode == 32 && assign == 1) continue;
            int64_t val = q < ni ? imms[q] : int64_t(g_rng->next() & 0xFF);
            one(v, true, val, mk, -1, 0);
          }
        }
      }
    }
    // ---- dimension: boundary register ids in every vector operand position, one at a time (others low): 7|8 REX/VEX.R, 15|16 the
    //      first id that needs EVEX, 17, 31
    if (mode == 64 && (f.pk == "V" || f.pk == "E") && (nvecfree > 0 || hasVsib) && (thorough || hasVsib || nmem == 0)) {
      static const int bids[] = {0, 7, 8, 15, 16, 17, 31};
      for (int pos = 0; pos < nvecfree + (hasVsib ? 1 : 0); pos++)
        for (int bid : bids) {
          if (!thorough && pos > 0 && bid < 15) continue;       // quick tier: 0 / 7 / 8 in the first vector position only, 15 | 16 | 17 | 31 in every position
          g_dim = "bid"; one(0, false, 0, 0, pos < nvecfree ? pos : 100, bid);
        }
    }
    // ---- dimension: encoding selectors {vex} {vex3} {evex} on every VEX- or EVEX-encodable form, low register ids, no mask (the
    //      unselected request is base variant 0), plus {evex} with one id >= 16.  Which encoding results is the assembler's
    //      answer (recorded bytes); requests it refuses are dropped by the check.
    if (mode == 64 && (f.pk == "V" || f.pk == "E")) {
      g_dim = "sel";
      for (uint32_t sel : {uint32_t(O_VEX), uint32_t(O_VEX3), uint32_t(O_EVEX)}) one(0, false, 0, 0, -1, 0, sel);
      if (nvecfree > 0) one(0, false, 0, 0, 0, 16, O_EVEX);
    }
  }
}

// ---------------------------------------------------------------------------------------------------------------
// AArch64 register lists
// ---------------------------------------------------------------------------------------------------------------
static void run_a64(const char* in_path, const char* out_path) {
  FILE* out = fopen(out_path, "w");
  if (!out) { fprintf(stderr, "cannot write %s\n", out_path); exit(3); }
  long line = 0;
  std::ifstream f(in_path);
  std::string text;
  while (std::getline(f, text)) {
    if (text.empty()) continue;
    line++;
    vj::Value c = vj::parse(text);
    a64forms::Built b;
    bool ok = a64forms::build(c, b);
    vj::W w;
    w.beginObj();
    w.kv("ln", line).kv("n", c["n"].s()).kv("built", ok && b.inst_id != 0).kv("nops", (long long)b.n);
    if (ok && b.inst_id != 0) {
      BaseInst inst(b.inst_id);
      w.key("kinds").beginArr();
      for (size_t j = 0; j < b.n; j++) w.val(b.ops[j].is_reg() ? "r" : b.ops[j].is_mem() ? "m" : "i");
      w.endArr();
      write_result(w, Arch::kAArch64, inst, b.ops, b.n);
    }
    w.endObj();
    w.emit(out);
  }
  fclose(out);
}

int main(int argc, char** argv) {
  if (argc >= 2 && std::string(argv[1]) == "featnames") {       // every feature name the library can report (x86)
    vj::W w; w.beginArr();
    for (uint32_t id = 1; id <= uint32_t(CpuFeatures::X86::kMaxValue); id++) w.val(feature_name(Arch::kX64, id));
    w.endArr(); w.emit(stdout);
    return 0;
  }
  if (argc < 4) { fprintf(stderr, "usage: rwinfo x86 <forms> <out> <tier> | x86replay <in> <out> | a64 <cases> <out>\n"); return 2; }
  std::string cmd = argv[1];
  if (cmd == "a64") { run_a64(argv[2], argv[3]); return 0; }
  FILE* out = fopen(argv[3], "w");
  if (!out) { fprintf(stderr, "cannot write %s\n", argv[3]); return 3; }
  if (cmd == "x86replay") {
    for (const vj::Value& v : vj::read_ndjson(argv[2])) query_x86(read_request(v), out);
    fclose(out);
    return 0;
  }
  bool thorough = argc > 4 && std::string(argv[4]) == "thorough";
  vj::Rng rng(vj::env_seed()); g_rng = &rng;
  std::vector<Form> forms = load_forms(argv[2]);
  for (const Form& f : forms) {
    gen_form(f, 64, thorough, out);
    gen_form(f, 32, thorough, out);
  }
  fclose(out);
  fprintf(stderr, "queries=%ld valid=%ld\n", g_n, g_valid);
  return 0;
}
