// X04 harness, part 3: table rows and pointwise observations.  Every row is produced by exec_row(input) so that
// `replay` can re-execute any recorded row from its input fields.

// ---------------------------------------------------------------------------------------------------------
// table rows
// ---------------------------------------------------------------------------------------------------------
template<size_t... I> static const uint32_t* trait_valid(std::index_sequence<I...>) { static const uint32_t t[] = { RegTraits<RegType(I)>::kValid... }; return t; }
template<size_t... I> static const uint32_t* trait_size(std::index_sequence<I...>) { static const uint32_t t[] = { RegTraits<RegType(I)>::kSize... }; return t; }
template<size_t... I> static const uint32_t* trait_sig(std::index_sequence<I...>) { static const uint32_t t[] = { RegTraits<RegType(I)>::kSignature... }; return t; }
template<size_t... I> static const uint32_t* trait_group(std::index_sequence<I...>) { static const uint32_t t[] = { uint32_t(RegTraits<RegType(I)>::kGroup)... }; return t; }
template<size_t... I> static const uint32_t* trait_tid(std::index_sequence<I...>) { static const uint32_t t[] = { uint32_t(RegTraits<RegType(I)>::kTypeId)... }; return t; }

struct RegName { const char* arch; const char* fam; int n; const char* name; Reg reg; };
static std::vector<RegName> reg_names() {
  std::vector<RegName> v;
#define X1(nm) v.push_back(RegName{"x86", "", -1, #nm, x86::nm});
#define XF(f, n) v.push_back(RegName{"x86", #f, n, #f #n, x86::f##n});
#define A1(nm) v.push_back(RegName{"a64", "", -1, #nm, a64::nm});
#define AF(f, n) v.push_back(RegName{"a64", #f, n, #f #n, a64::f##n});
#define R8(M, f) M(f, 0) M(f, 1) M(f, 2) M(f, 3) M(f, 4) M(f, 5) M(f, 6) M(f, 7)
#define R16(M, f) R8(M, f) M(f, 8) M(f, 9) M(f, 10) M(f, 11) M(f, 12) M(f, 13) M(f, 14) M(f, 15)
#define R31(M, f) R16(M, f) M(f, 16) M(f, 17) M(f, 18) M(f, 19) M(f, 20) M(f, 21) M(f, 22) M(f, 23) M(f, 24) M(f, 25) M(f, 26) M(f, 27) M(f, 28) M(f, 29) M(f, 30)
#define R32(M, f) R31(M, f) M(f, 31)
  X1(al) X1(bl) X1(cl) X1(dl) X1(spl) X1(bpl) X1(sil) X1(dil) X1(r8b) X1(r9b) X1(r10b) X1(r11b) X1(r12b) X1(r13b) X1(r14b) X1(r15b)
  X1(ah) X1(bh) X1(ch) X1(dh)
  X1(ax) X1(bx) X1(cx) X1(dx) X1(sp) X1(bp) X1(si) X1(di) X1(r8w) X1(r9w) X1(r10w) X1(r11w) X1(r12w) X1(r13w) X1(r14w) X1(r15w)
  X1(eax) X1(ebx) X1(ecx) X1(edx) X1(esp) X1(ebp) X1(esi) X1(edi) X1(r8d) X1(r9d) X1(r10d) X1(r11d) X1(r12d) X1(r13d) X1(r14d) X1(r15d)
  X1(rax) X1(rbx) X1(rcx) X1(rdx) X1(rsp) X1(rbp) X1(rsi) X1(rdi) X1(r8) X1(r9) X1(r10) X1(r11) X1(r12) X1(r13) X1(r14) X1(r15)
  R32(XF, xmm) R32(XF, ymm) R32(XF, zmm) R8(XF, mm) R8(XF, k) R16(XF, cr) R16(XF, dr) R8(XF, st) XF(bnd, 0) XF(bnd, 1) XF(bnd, 2) XF(bnd, 3) R8(XF, tmm)
  X1(no_seg) X1(es) X1(cs) X1(ss) X1(ds) X1(fs) X1(gs) X1(rip)
  R31(AF, w) R31(AF, x) A1(wzr) A1(wsp) A1(xzr) A1(sp)
  R32(AF, b) R32(AF, h) R32(AF, s) R32(AF, d) R32(AF, q) R32(AF, v)
#undef X1
#undef XF
#undef A1
#undef AF
  return v;
}

struct CxxType { const char* name; uint32_t tid; uint32_t size; bool is_signed; int cat; /* 0 int, 1 float, 2 pointer/ref/func, 3 tag */ };
enum StrongEnumU8 : uint8_t { kSE8 };
enum class StrongEnumI32 : int32_t { kSE32 };
static std::vector<CxxType> cxx_types() {
  std::vector<CxxType> v;
#define TI(T) v.push_back(CxxType{#T, uint32_t(TypeUtils::type_id_of_t<T>()), uint32_t(sizeof(T)), std::is_signed_v<T>, 0});
#define TF(T) v.push_back(CxxType{#T, uint32_t(TypeUtils::type_id_of_t<T>()), uint32_t(sizeof(T)), true, 1});
#define TP(T) v.push_back(CxxType{#T, uint32_t(TypeUtils::type_id_of_t<T>()), uint32_t(sizeof(void*)), false, 2});
#define TG(T, nm) v.push_back(CxxType{nm, uint32_t(TypeUtils::type_id_of_t<T>()), 0, false, 3});
  TI(int8_t) TI(uint8_t) TI(int16_t) TI(uint16_t) TI(int32_t) TI(uint32_t) TI(int64_t) TI(uint64_t) TI(char) TI(signed char) TI(unsigned char) TI(short) TI(unsigned short)
  TI(int) TI(unsigned) TI(long) TI(unsigned long) TI(long long) TI(unsigned long long) TI(bool) TI(intptr_t) TI(uintptr_t) TI(size_t) TI(wchar_t) TI(char16_t) TI(char32_t)
  v.push_back(CxxType{"StrongEnumU8", uint32_t(TypeUtils::type_id_of_t<StrongEnumU8>()), 1, false, 0});
  v.push_back(CxxType{"StrongEnumI32", uint32_t(TypeUtils::type_id_of_t<StrongEnumI32>()), 4, true, 0});
  TF(float) TF(double)
  TP(void*) TP(const char*) TP(int&) TP(int**)
  v.push_back(CxxType{"void(int)", uint32_t(TypeUtils::type_id_of_t<void(int)>()), uint32_t(sizeof(void*)), false, 2});
  TG(void, "void") TG(Type::Bool, "Type::Bool") TG(Type::Int8, "Type::Int8") TG(Type::UInt8, "Type::UInt8") TG(Type::Int16, "Type::Int16") TG(Type::UInt16, "Type::UInt16")
  TG(Type::Int32, "Type::Int32") TG(Type::UInt32, "Type::UInt32") TG(Type::Int64, "Type::Int64") TG(Type::UInt64, "Type::UInt64") TG(Type::IntPtr, "Type::IntPtr")
  TG(Type::UIntPtr, "Type::UIntPtr") TG(Type::Float32, "Type::Float32") TG(Type::Float64, "Type::Float64") TG(Type::Vec128, "Type::Vec128") TG(Type::Vec256, "Type::Vec256")
  TG(Type::Vec512, "Type::Vec512")
#undef TI
#undef TF
#undef TP
#undef TG
  return v;
}

static bool row_table(const Value& in, W& w) {
  const std::string& k = in["k"].s();
  auto seq = std::make_index_sequence<32>();
  if (k == "regtrait") {
    uint32_t rt = uint32_t(in["rt"].i());
    w.kv("valid", trait_valid(seq)[rt] != 0).kv("tsize", trait_size(seq)[rt]).kv("tgrp", trait_group(seq)[rt]).kv("ttid", trait_tid(seq)[rt]);
    w32(w, "tsig", trait_sig(seq)[rt]);
    w32(w, "sig", RegUtils::signature_of(RegType(rt)).bits());
    w32(w, "rsig", Reg::signature_of(RegType(rt)).bits());
    w.kv("grp", (unsigned)RegUtils::group_of(RegType(rt))).kv("tid", (unsigned)RegUtils::type_id_of(RegType(rt)));
    Reg r = Reg::from_type_and_id(RegType(rt), 3);
    w.kv("rrt", (unsigned)r.reg_type()).kv("rgrp", (unsigned)r.reg_group()).kv("rsize", r.size()).kv("rot", (unsigned)r.op_type());
  }
  else if (k == "vecsize") {
    w32(w, "sig", RegUtils::signature_of_vec_by_size(uint32_t(in["size"].i())).bits());
  }
  else if (k == "typeid") {
    TypeId t = TypeId(in["t"].i());
    using namespace TypeUtils;
    w.kv("size", size_of(t)).kv("scalar", (unsigned)scalar_of(t));
    bool f[] = { is_void(t), is_valid(t), is_scalar(t), is_abstract(t), is_int(t), is_int8(t), is_uint8(t), is_int16(t), is_uint16(t), is_int32(t), is_uint32(t), is_int64(t), is_uint64(t),
                 is_gp8(t), is_gp16(t), is_gp32(t), is_gp64(t), is_float(t), is_float32(t), is_float64(t), is_float80(t), is_mask(t), is_mask8(t), is_mask16(t), is_mask32(t), is_mask64(t),
                 is_mmx(t), is_mmx32(t), is_mmx64(t), is_vec(t), is_vec32(t), is_vec64(t), is_vec128(t), is_vec256(t), is_vec512(t) };
    w.key("f").beginArr(); for (bool b : f) w.val((long long)b); w.endArr();
    w.kv("de4", (unsigned)deabstract(t, deabstract_delta_of_size(4))).kv("de8", (unsigned)deabstract(t, deabstract_delta_of_size(8)));
    w.kv("dd4", deabstract_delta_of_size(4)).kv("dd8", deabstract_delta_of_size(8));
    w.key("s2v").beginArr();
    for (TypeId vs : { TypeId::_kVec32Start, TypeId::_kVec64Start, TypeId::_kVec128Start, TypeId::_kVec256Start, TypeId::_kVec512Start }) w.val((long long)(unsigned)scalar_to_vector(t, vs));
    w.endArr();
  }
  else if (k == "cxxtype") {
    for (const CxxType& c : cxx_types()) if (in["name"].s() == c.name) { w.kv("t", c.tid).kv("size", c.size).kv("sgn", c.is_signed).kv("cat", c.cat); return true; }
    return false;
  }
  else if (k == "arch") {
    uint32_t a = uint32_t(in["a"].i());
    const ArchTraits& t = ArchTraits::by_arch(Arch(a));
    w.kv("sp", t.sp_reg_id()).kv("fp", t.fp_reg_id()).kv("lr", t.link_reg_id()).kv("pc", t.pc_reg_id()).kv("hw", t.hw_stack_alignment()).kv("haslr", t.has_link_reg());
    w32(w, "min", t.min_stack_offset()); w32(w, "max", t.max_stack_offset()); w32(w, "regs", t._supported_reg_types);
    w.key("hasrt").beginArr(); for (uint32_t i = 0; i < 32; i++) w.val((long long)t.has_reg_type(RegType(i))); w.endArr();
    w.key("hints").beginArr(); for (uint32_t g = 0; g < Globals::kNumVirtGroups; g++) w.val((long long)(unsigned)t.inst_feature_hints(RegGroup(g))); w.endArr();
    w.key("swap").beginArr(); for (uint32_t g = 0; g < Globals::kNumVirtGroups; g++) w.val((long long)t.has_inst_reg_swap(RegGroup(g))); w.endArr();
    w.key("pushpop").beginArr(); for (uint32_t g = 0; g < Globals::kNumVirtGroups; g++) w.val((long long)t.has_inst_push_pop(RegGroup(g))); w.endArr();
    w.key("t2r").beginArr(); for (uint32_t i = 0; i < 32; i++) w.val((long long)(unsigned)t._type_id_to_reg_type[i]); w.endArr();
    w.key("names").beginArr(); for (uint32_t i = 0; i < 4; i++) w.val((long long)(unsigned)t.type_name_id_by_index(i)); w.endArr();
    w.kv("defined", Environment::is_defined_arch(Arch(a))).kv("validarch", Environment::is_valid_arch(Arch(a)));
  }
  else if (k == "t2r") {
    TypeId tout = TypeId(0xEE); OperandSignature sg{0xEEEEEEEEu};
    Error err = ArchUtils::type_id_to_reg_signature(Arch(in["a"].i()), TypeId(in["t"].i()), Out<TypeId>(tout), Out<OperandSignature>(sg));
    w.kv("err", (unsigned)err).kv("tout", (unsigned)tout); w32(w, "sig", sg.bits());
  }
  else if (k == "err") {
    uint32_t code = r32(in["code"]);
    const char* s = DebugUtils::error_as_string(Error(code));
    w.kv("s", s ? s : "(null)");
  }
  else if (k == "regname") {
    for (const RegName& r : reg_names()) {
      if (in["arch"].s() == r.arch && in["name"].s() == r.name) {
        w32(w, "sig", r.reg.signature().bits()); w32(w, "id", r.reg.id());
        w.kv("d0", (r.reg._data[0] | r.reg._data[1]) == 0);
        return true;
      }
    }
    return false;
  }
  else if (k == "host") {
    Environment h = Environment::host();
    w.kv("arch", (unsigned)h.arch()).kv("sub", (unsigned)h.sub_arch()).kv("vendor", (unsigned)h.vendor()).kv("plat", (unsigned)h.platform()).kv("abi", (unsigned)h.platform_abi())
     .kv("fmt", (unsigned)h.object_format()).kv("fabi", (unsigned)h.float_abi()).kv("khost", (unsigned)Arch::kHost).kv("ptr", (unsigned)sizeof(void*));
#if defined(__x86_64__)
    w.kv("cc_arch", "x86_64");
#elif defined(__i386__)
    w.kv("cc_arch", "i386");
#elif defined(__aarch64__)
    w.kv("cc_arch", "aarch64");
#else
    w.kv("cc_arch", "other");
#endif
#if defined(__linux__)
    w.kv("cc_os", "linux");
#else
    w.kv("cc_os", "other");
#endif
#if defined(__GLIBC__)
    w.kv("cc_libc", "glibc");
#else
    w.kv("cc_libc", "other");
#endif
    uint16_t probe = 1; w.kv("cc_le", *reinterpret_cast<uint8_t*>(&probe) == 1).kv("native_le", Support::ByteOrder::kNative == Support::ByteOrder::kLE);
  }
  else if (k == "virtid") {
    uint32_t x = r32(in["x"]);
    w.kv("isvirt", Operand_::is_virt_id(x)); w32(w, "toid", Operand_::virt_index_to_virt_id(x)); w32(w, "toidx", Operand_::virt_id_to_index(x));
  }
  else return false;
  return true;
}

// ---------------------------------------------------------------------------------------------------------
// OperandSignature field operations
// ---------------------------------------------------------------------------------------------------------
struct SigField { const char* name; uint32_t mask; };
static const SigField kSigFields[] = {
  {"optype", OperandSignature::kOpTypeMask}, {"regtype", OperandSignature::kRegTypeMask}, {"reggroup", OperandSignature::kRegGroupMask},
  {"membase", OperandSignature::kMemBaseTypeMask}, {"memindex", OperandSignature::kMemIndexTypeMask}, {"home", OperandSignature::kMemRegHomeFlag},
  {"immtype", OperandSignature::kImmTypeMask}, {"pred", OperandSignature::kPredicateMask}, {"size", OperandSignature::kSizeMask},
  {"x86addr", x86::Mem::kSignatureMemAddrTypeMask}, {"x86shift", x86::Mem::kSignatureMemShiftValueMask}, {"x86seg", x86::Mem::kSignatureMemSegmentMask},
  {"x86bcst", x86::Mem::kSignatureMemBroadcastMask}, {"a64et", a64::Vec::kSignatureRegElementTypeMask}, {"a64ef", a64::Vec::kSignatureRegElementFlagMask},
  {"a64ei", a64::Vec::kSignatureRegElementIndexMask}, {"a64sh", a64::Mem::kSignatureMemShiftValueMask}, {"a64sop", a64::Mem::kSignatureMemShiftOpMask},
  {"a64mode", a64::Mem::kSignatureMemOffsetModeMask}
};

template<uint32_t M>
static void sig_ops(W& w, uint32_t bits, uint32_t v) {
  OperandSignature s{bits};
  w.kv("get", s.get_field<M>()).kv("has", s.has_field<M>()).kv("hasv", s.has_field<M>(v)).kv("hasself", s.has_field<M>(s.get_field<M>()));
  OperandSignature t = s; t.set_field<M>(v); w32(w, "set", t.bits());
  w32(w, "repl", s.replaced_value<M>(v).bits());
  w32(w, "from", OperandSignature::from_value<M>(v).bits());
  w.kv("msig", s.matches_signature<M>(OperandSignature::from_value<M>(v))).kv("mf", s.matches_fields<M>(OperandSignature::from_value<M>(v).bits()))
   .kv("mfs", s.matches_fields<M>(OperandSignature::from_value<M>(v)));
}

static bool row_sigf(const Value& in, W& w) {
  const std::string& f = in["f"].s();
  uint32_t bits = r32(in["bits"]), v = uint32_t(in["v"].i());
  using S = OperandSignature;
#define F(nm, M) if (f == nm) { sig_ops<M>(w, bits, v); }
  F("optype", S::kOpTypeMask) F("regtype", S::kRegTypeMask) F("reggroup", S::kRegGroupMask) F("membase", S::kMemBaseTypeMask) F("memindex", S::kMemIndexTypeMask)
  F("home", S::kMemRegHomeFlag) F("immtype", S::kImmTypeMask) F("pred", S::kPredicateMask) F("size", S::kSizeMask)
  F("x86addr", x86::Mem::kSignatureMemAddrTypeMask) F("x86shift", x86::Mem::kSignatureMemShiftValueMask) F("x86seg", x86::Mem::kSignatureMemSegmentMask)
  F("x86bcst", x86::Mem::kSignatureMemBroadcastMask) F("a64et", a64::Vec::kSignatureRegElementTypeMask) F("a64ef", a64::Vec::kSignatureRegElementFlagMask)
  F("a64ei", a64::Vec::kSignatureRegElementIndexMask) F("a64sh", a64::Mem::kSignatureMemShiftValueMask) F("a64sop", a64::Mem::kSignatureMemShiftOpMask)
  F("a64mode", a64::Mem::kSignatureMemOffsetModeMask)
#undef F
  // named accessors of the core fields
  S s{bits};
  w.kv("a_ot", (unsigned)s.op_type()).kv("a_rt", (unsigned)s.reg_type()).kv("a_grp", (unsigned)s.reg_group()).kv("a_mb", (unsigned)s.mem_base_type()).kv("a_mi", (unsigned)s.mem_index_type())
   .kv("a_pred", s.predicate()).kv("a_size", s.size()).kv("a_valid", s.is_valid()).kv("a_isreg", s.is_reg()).kv("a_isregt", s.is_reg(RegType(v & 31))).kv("a_isregg", s.is_reg(RegGroup(v & 15)))
   .kv("a_isot", s.is_op_type(OperandType(v & 7))).kv("a_not", !s).kv("a_bool", bool(s));
  S t;
  t = s; if (f == "optype") t.set_op_type(OperandType(v)); else if (f == "regtype") t.set_reg_type(RegType(v)); else if (f == "reggroup") t.set_reg_group(RegGroup(v));
  else if (f == "membase") t.set_mem_base_type(RegType(v)); else if (f == "memindex") t.set_mem_index_type(RegType(v)); else if (f == "pred") t.set_predicate(v);
  else if (f == "size") t.set_size(v);
  w32(w, "nset", t.bits());
  S u{0};
  if (f == "optype") u = S::from_op_type(OperandType(v)); else if (f == "regtype") u = S::from_reg_type(RegType(v)); else if (f == "reggroup") u = S::from_reg_group(RegGroup(v));
  else if (f == "membase") u = S::from_mem_base_type(RegType(v)); else if (f == "memindex") u = S::from_mem_index_type(RegType(v)); else if (f == "pred") u = S::from_predicate(v);
  else if (f == "size") u = S::from_size(v); else u = S::from_bits(0);
  w32(w, "nfrom", u.bits());
  uint32_t m = r32(in["m"]);
  w32(w, "and", (s & m).bits()); w32(w, "or", (s | S{m}).bits()); w32(w, "xor", (s ^ m).bits()); w32(w, "not", (~s).bits()); w32(w, "subset", s.subset(m).bits());
  w.kv("eqm", s == m).kv("nem", s != S{m});
  return true;
}

#include "opmodel_part4.h"
