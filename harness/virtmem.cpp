// X01 harness: VirtMem / JitRuntime life cycle of virtual-memory mappings.  Records an ndjson trace for VirtMemTrace.tla.
// LDFLAGS: -Wl,--wrap=mmap,--wrap=mmap64,--wrap=munmap,--wrap=mprotect,--wrap=madvise,--wrap=ftruncate,--wrap=ftruncate64,--wrap=open,--wrap=open64,--wrap=close,--wrap=shm_open,--wrap=shm_unlink,--wrap=unlink,--wrap=syscall,--wrap=read,--wrap=uname,--wrap=malloc,--wrap=_ZN6asmjit5v1_217VirtMem5allocEPPvmNS1_11MemoryFlagsE,--wrap=_ZN6asmjit5v1_217VirtMem7releaseEPvm,--wrap=_ZN6asmjit5v1_217VirtMem7protectEPvmNS1_11MemoryFlagsE,--wrap=_ZN6asmjit5v1_217VirtMem18alloc_dual_mappingENS0_3OutINS1_11DualMappingEEEmNS1_11MemoryFlagsE,--wrap=_ZN6asmjit5v1_217VirtMem20release_dual_mappingERNS1_11DualMappingEm,--wrap=_ZN6asmjit5v1_217VirtMem4infoEv,--wrap=_ZN6asmjit5v1_217VirtMem15large_page_sizeEv,--wrap=_ZN6asmjit5v1_217VirtMem21hardened_runtime_infoEv,--wrap=_ZN6asmjit5v1_217VirtMem18protect_jit_memoryENS1_16ProtectJitAccessE,--wrap=_ZN6asmjit5v1_217VirtMem23flush_instruction_cacheEPvm
//
//   virtmem run <scripts.ndjson> <trace.ndjson>
//
// One script line = one *scenario*: {"x":id, "env":{...}, "fail":"none"|"each"|[[k,"ERRNO"],...], "sticky":bool,
// "errnos":"first"|"all", "ops":[...]}.  Every execution of a scenario runs in a freshly forked process, because
// virtmem.cpp caches what it learns about the OS in function-local statics (hardened runtime, anonymous-memory
// strategy, memfd_create support, large page size): a new process = all fall-back logic runs again.
//   fail = "each": the scenario is executed once without failure; that run numbers the failable OS requests 1..N;
//   then one execution per k in 1..N (and per errno of the request's list) with the k-th request failing.
//
// Event layers (see spec/vm/VirtMem.tla):
//   Os       libc requests issued by asmjit code, interposed at link time (--wrap) INSIDE this executable: arguments,
//            result, whether the failure was injected (inj) or belongs to the simulated environment (pol);
//   VmCall / VmRet   public VirtMem functions (the mangled names are wrapped too, so the calls JitAllocator makes as a
//            client are recorded exactly like the driver's), with observations taken from /proc/self/maps and by
//            using the memory (write / read back through the other view / execute);
//   Jit / Flush      protect_jit_memory, flush_instruction_cache;
//   RtCall / RtRet   JitRuntime operations executed by the driver, with query(), image comparison, execution.
// Addresses are written raw; checks/x01.py compresses the page numbers per execution (TLC integers are 32 bit).
#include <asmjit/core.h>
#include <asmjit/x86.h>
#include "vjson.h"
#include <sys/mman.h>
#include <sys/stat.h>
#include <sys/syscall.h>
#include <sys/utsname.h>
#include <sys/wait.h>
#include <dirent.h>
#include <errno.h>
#include <fcntl.h>
#include <signal.h>
#include <stdarg.h>
#include <algorithm>
#include <string>
#include <vector>

using namespace asmjit;

// =========================================================================================================
// Recorder state
// =========================================================================================================
static FILE* g_out = nullptr;
static volatile int g_armed = 0;       // events are recorded / failures injected only while the driver is inside an API call
static int g_vm_depth = 0;             // nesting of wrapped VirtMem functions (only the outermost is recorded)
static int g_rt_depth = 0;             // inside a JitRuntime operation
static bool g_malloc_failable = false; // malloc is a failable request only inside JitRuntime::add
static bool g_munmap_failable = false; // munmap is failable only in release / release_dual_mapping called by the driver

struct Env { bool memfd = true, shmexec = true, rwx = true, oldkernel = false, hugesim = false, lpfile = true; int eexist = 0; };
static Env g_env;
static int g_eexist_left = 0;

struct PlanEntry { long k; int err; char letter; };      // letter 0: k-th failable request overall, else k-th request of that class
struct Plan { std::vector<PlanEntry> ks; bool sticky = false; };
static Plan g_plan;
static long g_fcount = 0;              // failable requests seen while armed
static std::string g_fseq;             // one letter per failable request (for "each")
static long g_lcount[128];             // failable requests per class

static const char* errno_name(int e) {
  switch (e) {
    case 0: return "";
    case ENOMEM: return "ENOMEM"; case EINVAL: return "EINVAL"; case EACCES: return "EACCES"; case EAGAIN: return "EAGAIN";
    case EMFILE: return "EMFILE"; case ENFILE: return "ENFILE"; case ENOSYS: return "ENOSYS"; case EEXIST: return "EEXIST";
    case ENOSPC: return "ENOSPC"; case EFBIG: return "EFBIG"; case EIO: return "EIO"; case ENOENT: return "ENOENT";
    case EPERM: return "EPERM"; case ENODEV: return "ENODEV"; case EOVERFLOW: return "EOVERFLOW"; case EBADF: return "EBADF";
    default: return "EOTHER";
  }
}
static int errno_value(const std::string& s) {
  static const int all[] = {ENOMEM, EINVAL, EACCES, EAGAIN, EMFILE, ENFILE, ENOSYS, EEXIST, ENOSPC, EFBIG, EIO, ENOENT, EPERM, ENODEV, EOVERFLOW, EBADF};
  for (int e : all) if (s == errno_name(e)) return e;
  return ENOMEM;
}

// returns 0 (no failure) or the errno to fail with; numbers the request
static int fault(char letter, long* k_out) {
  if (!g_armed) { *k_out = 0; return 0; }
  long k = ++g_fcount;
  g_fseq.push_back(letter);
  *k_out = k;
  long kl = ++g_lcount[int(letter) & 127];
  for (auto& p : g_plan.ks) {
    if (p.letter == 0 && (p.k == k || (g_plan.sticky && k >= p.k))) return p.err;
    if (p.letter == letter && (p.k == kl || (g_plan.sticky && kl >= p.k))) return p.err;
  }
  return 0;
}

static void emit(vj::W& w) { if (g_out) { w.emit(g_out); fflush(g_out); } }

static const char* err_name(Error e) {
  switch (e) {
    case Error::kOk: return "Ok";
    case Error::kOutOfMemory: return "OutOfMemory";
    case Error::kInvalidArgument: return "InvalidArgument";
    case Error::kInvalidState: return "InvalidState";
    case Error::kNotInitialized: return "NotInitialized";
    case Error::kTooLarge: return "TooLarge";
    case Error::kTooManyHandles: return "TooManyHandles";
    case Error::kFeatureNotEnabled: return "FeatureNotEnabled";
    case Error::kNoCodeGenerated: return "NoCodeGenerated";
    case Error::kFailedToOpenAnonymousMemory: return "FailedToOpenAnonymousMemory";
    case Error::kFailedToOpenFile: return "FailedToOpenFile";
    case Error::kProtectionFailure: return "ProtectionFailure";
    default: return "Other";
  }
}

// =========================================================================================================
// OS layer (link-time interposition).  __real_X is the function the program would have called.
// =========================================================================================================
extern "C" {
void* __real_mmap(void*, size_t, int, int, int, off_t);
void* __real_mmap64(void*, size_t, int, int, int, off_t);
int __real_munmap(void*, size_t);
int __real_mprotect(void*, size_t, int);
int __real_madvise(void*, size_t, int);
int __real_ftruncate(int, off_t);
int __real_ftruncate64(int, off_t);
int __real_open(const char*, int, ...);
int __real_open64(const char*, int, ...);
int __real_close(int);
int __real_shm_open(const char*, int, mode_t);
int __real_shm_unlink(const char*);
int __real_unlink(const char*);
long __real_syscall(long, long, long, long, long, long, long);
ssize_t __real_read(int, void*, size_t);
int __real_uname(struct utsname*);
void* __real_malloc(size_t);
}

enum FdKind { FD_NONE = 0, FD_MEMFD = 1, FD_SHM = 2, FD_FILE = 3, FD_RO = 4 };
static unsigned char g_fdkind[4096];

// the harness' own table of mappings created through the wrappers (independent of the specification)
struct Range { uintptr_t a; size_t n; };
static Range g_ranges[4096];
static size_t g_nranges = 0;
static void ranges_add(uintptr_t a, size_t n) { if (g_nranges < 4096) g_ranges[g_nranges++] = Range{a, n}; }
static void ranges_sub(uintptr_t a, size_t n) {
  size_t cnt = g_nranges;
  for (size_t i = 0; i < cnt; i++) {
    Range r = g_ranges[i];
    if (r.a >= a + n || a >= r.a + r.n) continue;
    uintptr_t lo = std::max(r.a, a), hi = std::min(r.a + r.n, a + n);
    g_ranges[i].n = 0;
    if (r.a < lo) g_ranges[i] = Range{r.a, lo - r.a};
    if (hi < r.a + r.n) { if (g_ranges[i].n == 0) g_ranges[i] = Range{hi, r.a + r.n - hi}; else ranges_add(hi, r.a + r.n - hi); }
  }
  size_t j = 0;
  for (size_t i = 0; i < g_nranges; i++) if (g_ranges[i].n) g_ranges[j++] = g_ranges[i];
  g_nranges = j;
}

static int prot_bits(int prot) { return ((prot & PROT_READ) ? 1 : 0) | ((prot & PROT_WRITE) ? 2 : 0) | ((prot & PROT_EXEC) ? 4 : 0); }
static size_t page_up(size_t n) { return (n + 4095) & ~size_t(4095); }

static void os_head(vj::W& w, const char* fn, bool ok, int err, bool inj, bool pol, long k) {
  w.beginObj().kv("e", "Os").kv("fn", fn).kv("ok", ok).kv("err", errno_name(ok ? 0 : err)).kv("inj", inj).kv("pol", pol).kv("k", (long long)k);
}

static void* do_mmap(void* addr, size_t n, int prot, int flags, int fd, off_t off, bool is64) {
  if (!g_armed) return is64 ? __real_mmap64(addr, n, prot, flags, fd, off) : __real_mmap(addr, n, prot, flags, fd, off);
  long k = 0;
  int inj = fault('m', &k);
  int err = 0;
  bool pol = false;
  void* p = MAP_FAILED;
  bool huge = (flags & MAP_HUGETLB) != 0;
  if (inj) err = inj;
  else if (!g_env.rwx && (prot & PROT_WRITE) && (prot & PROT_EXEC)) { err = EACCES; pol = true; }
  else if (!g_env.shmexec && (prot & PROT_EXEC) && fd >= 0 && fd < 4096 && g_fdkind[fd] == FD_SHM) { err = EINVAL; pol = true; }
  else {
    int fl = flags;
    if (huge && g_env.hugesim) fl &= ~(MAP_HUGETLB | (0x3f << 26));       // simulated huge pages: ordinary pages
    p = is64 ? __real_mmap64(addr, n, prot, fl, fd, off) : __real_mmap(addr, n, prot, fl, fd, off);
    if (p == MAP_FAILED) err = errno;
  }
  bool ok = p != MAP_FAILED;
  if (ok) ranges_add(uintptr_t(p), page_up(n));
  vj::W w;
  os_head(w, "mmap", ok, err, inj != 0, pol, k);
  w.kv("a", (unsigned long long)(ok ? uintptr_t(p) : 0)).kv("n", (unsigned long long)n).kv("prot", prot_bits(prot))
   .kv("sh", (flags & MAP_SHARED) != 0).kv("fd", (flags & MAP_ANONYMOUS) ? -1 : fd).kv("huge", huge).kv("off", (long long)off).endObj();
  emit(w);
  if (!ok) errno = err;
  return p;
}

extern "C" {
void* __wrap_mmap(void* a, size_t n, int prot, int flags, int fd, off_t off) { return do_mmap(a, n, prot, flags, fd, off, false); }
void* __wrap_mmap64(void* a, size_t n, int prot, int flags, int fd, off_t off) { return do_mmap(a, n, prot, flags, fd, off, true); }

int __wrap_munmap(void* a, size_t n) {
  if (!g_armed) return __real_munmap(a, n);
  long k = 0;
  int inj = g_munmap_failable ? fault('u', &k) : 0;
  int err = 0, rc = -1;
  if (inj) err = inj;
  else { rc = __real_munmap(a, n); if (rc != 0) err = errno; }
  if (rc == 0) ranges_sub(uintptr_t(a), page_up(n));
  vj::W w;
  os_head(w, "munmap", rc == 0, err, inj != 0, false, k);
  w.kv("a", (unsigned long long)uintptr_t(a)).kv("n", (unsigned long long)n).endObj();
  emit(w);
  if (rc != 0) errno = err;
  return rc;
}

int __wrap_mprotect(void* a, size_t n, int prot) {
  if (!g_armed) return __real_mprotect(a, n, prot);
  long k = 0;
  int inj = fault('p', &k);
  int err = 0, rc = -1;
  bool pol = false;
  if (inj) err = inj;
  else if (!g_env.rwx && (prot & PROT_WRITE) && (prot & PROT_EXEC)) { err = EACCES; pol = true; }
  else { rc = __real_mprotect(a, n, prot); if (rc != 0) err = errno; }
  vj::W w;
  os_head(w, "mprotect", rc == 0, err, inj != 0, pol, k);
  w.kv("a", (unsigned long long)uintptr_t(a)).kv("n", (unsigned long long)n).kv("prot", prot_bits(prot)).endObj();
  emit(w);
  if (rc != 0) errno = err;
  return rc;
}

int __wrap_madvise(void* a, size_t n, int advice) {
  int rc = __real_madvise(a, n, advice);
  if (g_armed) {
    int err = errno;
    vj::W w;
    os_head(w, "madvise", rc == 0, err, false, false, 0);
    w.kv("a", (unsigned long long)uintptr_t(a)).kv("n", (unsigned long long)n).endObj();
    emit(w);
    errno = err;
  }
  return rc;
}

static int do_ftruncate(int fd, off_t n, bool is64) {
  if (!g_armed) return is64 ? __real_ftruncate64(fd, n) : __real_ftruncate(fd, n);
  long k = 0;
  int inj = fault('t', &k);
  int err = 0, rc = -1;
  if (inj) err = inj;
  else { rc = is64 ? __real_ftruncate64(fd, n) : __real_ftruncate(fd, n); if (rc != 0) err = errno; }
  vj::W w;
  os_head(w, "ftruncate", rc == 0, err, inj != 0, false, k);
  w.kv("fd", fd).kv("n", (long long)n).endObj();
  emit(w);
  if (rc != 0) errno = err;
  return rc;
}
int __wrap_ftruncate(int fd, off_t n) { return do_ftruncate(fd, n, false); }
int __wrap_ftruncate64(int fd, off_t n) { return do_ftruncate(fd, n, true); }

static int do_open(const char* path, int flags, mode_t mode, bool is64) {
  if (!g_armed) return is64 ? __real_open64(path, flags, mode) : __real_open(path, flags, mode);
  long k = 0;
  int inj = fault('o', &k);
  int err = 0, fd = -1;
  bool pol = false, creat = (flags & O_CREAT) != 0;
  if (inj) err = inj;
  else if (creat && g_eexist_left > 0) { g_eexist_left--; err = EEXIST; pol = true; }
  else if (!creat && !g_env.lpfile && strstr(path, "hpage_pmd_size")) { err = ENOENT; pol = true; }
  else { fd = is64 ? __real_open64(path, flags, mode) : __real_open(path, flags, mode); if (fd < 0) err = errno; }
  if (fd >= 0 && fd < 4096) g_fdkind[fd] = creat ? FD_FILE : FD_RO;
  vj::W w;
  os_head(w, "open", fd >= 0, err, inj != 0, pol, k);
  w.kv("name", path).kv("creat", creat).kv("fd", fd).endObj();
  emit(w);
  if (fd < 0) errno = err;
  return fd;
}
int __wrap_open(const char* path, int flags, ...) {
  mode_t mode = 0;
  if (flags & O_CREAT) { va_list ap; va_start(ap, flags); mode = mode_t(va_arg(ap, int)); va_end(ap); }
  return do_open(path, flags, mode, false);
}
int __wrap_open64(const char* path, int flags, ...) {
  mode_t mode = 0;
  if (flags & O_CREAT) { va_list ap; va_start(ap, flags); mode = mode_t(va_arg(ap, int)); va_end(ap); }
  return do_open(path, flags, mode, true);
}

int __wrap_shm_open(const char* name, int flags, mode_t mode) {
  if (!g_armed) return __real_shm_open(name, flags, mode);
  long k = 0;
  int inj = fault('s', &k);
  int err = 0, fd = -1;
  bool pol = false;
  if (inj) err = inj;
  else if ((flags & O_CREAT) && g_eexist_left > 0) { g_eexist_left--; err = EEXIST; pol = true; }
  else { fd = __real_shm_open(name, flags, mode); if (fd < 0) err = errno; }
  if (fd >= 0 && fd < 4096) g_fdkind[fd] = FD_SHM;
  vj::W w;
  os_head(w, "shm_open", fd >= 0, err, inj != 0, pol, k);
  w.kv("name", name).kv("fd", fd).endObj();
  emit(w);
  if (fd < 0) errno = err;
  return fd;
}

int __wrap_shm_unlink(const char* name) {
  int rc = __real_shm_unlink(name);
  if (g_armed) {
    int err = errno;
    vj::W w;
    os_head(w, "shm_unlink", rc == 0, err, false, false, 0);
    w.kv("name", name).endObj();
    emit(w);
    errno = err;
  }
  return rc;
}
int __wrap_unlink(const char* name) {
  int rc = __real_unlink(name);
  if (g_armed) {
    int err = errno;
    vj::W w;
    os_head(w, "unlink", rc == 0, err, false, false, 0);
    w.kv("name", name).endObj();
    emit(w);
    errno = err;
  }
  return rc;
}

int __wrap_close(int fd) {
  int rc = __real_close(fd);
  if (g_armed) {
    int err = errno;
    if (fd >= 0 && fd < 4096) g_fdkind[fd] = FD_NONE;
    vj::W w;
    os_head(w, "close", rc == 0, err, false, false, 0);
    w.kv("fd", fd).endObj();
    emit(w);
    errno = err;
  }
  return rc;
}

long __wrap_syscall(long nr, long a, long b, long c, long d, long e, long f) {
#if defined(__NR_memfd_create)
  if (nr == __NR_memfd_create && g_armed) {
    long k = 0;
    int err = 0;
    long fd = -1;
    bool pol = false;
    int inj = 0;
    if (!g_env.memfd) { err = ENOSYS; pol = true; }            // a kernel without memfd_create: not a numbered request
    else if ((inj = fault('f', &k)) != 0) err = inj;
    else { fd = __real_syscall(nr, a, b, c, d, e, f); if (fd < 0) err = errno; }
    if (fd >= 0 && fd < 4096) g_fdkind[fd] = FD_MEMFD;
    vj::W w;
    os_head(w, "memfd", fd >= 0, err, inj != 0, pol, k);
    w.kv("fd", (long long)fd).kv("flags", (long long)b).endObj();
    emit(w);
    if (fd < 0) errno = err;
    return fd;
  }
#endif
  return __real_syscall(nr, a, b, c, d, e, f);
}

ssize_t __wrap_read(int fd, void* buf, size_t n) {
  if (!g_armed || fd < 0 || fd >= 4096 || g_fdkind[fd] == FD_NONE) return __real_read(fd, buf, n);
  long k = 0;
  int inj = fault('r', &k);
  int err = 0;
  ssize_t rc = -1;
  if (inj) err = inj;
  else { rc = __real_read(fd, buf, n); if (rc < 0) err = errno; }
  vj::W w;
  os_head(w, "read", rc >= 0, err, inj != 0, false, k);
  w.kv("fd", fd).endObj();
  emit(w);
  if (rc < 0) errno = err;
  return rc;
}

int __wrap_uname(struct utsname* u) {
  int rc = __real_uname(u);
  if (rc == 0 && g_armed && g_env.oldkernel) { strcpy(u->release, "5.15.0-verif"); }
  return rc;
}

void* __wrap_malloc(size_t n) {
  if (!g_armed || !g_malloc_failable) return __real_malloc(n);
  long k = 0;
  int inj = fault('a', &k);
  void* p = inj ? nullptr : __real_malloc(n);
  vj::W w;
  os_head(w, "malloc", p != nullptr, ENOMEM, inj != 0, false, k);
  w.kv("n", (unsigned long long)n).endObj();
  emit(w);
  return p;
}
} // extern "C"

// =========================================================================================================
// /proc/self/maps
// =========================================================================================================
struct Probe { bool cov = false; int perms = 0; bool sh = false; unsigned long ino = 0; bool uniform = true; bool any = false; };
static char g_procbuf[1 << 21];

static size_t read_proc_maps() {
  int fd = __real_open("/proc/self/maps", O_RDONLY);
  if (fd < 0) return 0;
  size_t n = 0;
  for (;;) {
    ssize_t r = __real_read(fd, g_procbuf + n, sizeof(g_procbuf) - 1 - n);
    if (r <= 0) break;
    n += size_t(r);
    if (n >= sizeof(g_procbuf) - 1) break;
  }
  __real_close(fd);
  g_procbuf[n] = 0;
  return n;
}

// is [a, a+n) completely covered by lines of /proc/self/maps with one protection / sharing / inode?
static Probe probe(uintptr_t a, size_t n) {
  Probe pr;
  if (!a || !n) return pr;
  size_t len = read_proc_maps();
  uintptr_t cur = a & ~uintptr_t(4095), end = (a + n + 4095) & ~uintptr_t(4095);
  bool first = true;
  const char* p = g_procbuf;
  const char* e = g_procbuf + len;
  while (p < e) {
    const char* nl = (const char*)memchr(p, '\n', size_t(e - p));
    if (!nl) nl = e;
    unsigned long lo = 0, hi = 0, off = 0, ino = 0;
    char perms[8] = {0};
    unsigned dmaj = 0, dmin = 0;
    if (sscanf(p, "%lx-%lx %7s %lx %x:%x %lu", &lo, &hi, perms, &off, &dmaj, &dmin, &ino) >= 7) {
      if (lo < end && hi > (a & ~uintptr_t(4095))) pr.any = true;
      if (cur < end && lo <= cur && cur < hi) {
        int bits = (perms[0] == 'r' ? 1 : 0) | (perms[1] == 'w' ? 2 : 0) | (perms[2] == 'x' ? 4 : 0);
        bool sh = perms[3] == 's';
        if (first) { pr.perms = bits; pr.sh = sh; pr.ino = ino; first = false; }
        else if (bits != pr.perms || sh != pr.sh || ino != pr.ino) pr.uniform = false;
        cur = hi;
      }
      else if (lo >= end) break;
    }
    p = nl + 1;
  }
  pr.cov = cur >= end && pr.uniform;
  return pr;
}

static long count_fds() {
  long n = 0;
  DIR* d = opendir("/proc/self/fd");
  if (!d) return -1;
  while (readdir(d)) n++;
  closedir(d);
  return n;
}

// =========================================================================================================
// Using the memory: write / read back / execute
// =========================================================================================================
typedef int (*StubFn)();
static const uint8_t kStub[] = {0xB8, 0x2A, 0x00, 0x00, 0x00, 0xC3};   // mov eax, 42 ; ret

// acc bits as requested; rw / rx the views (equal for a single mapping).  Restores what it overwrote.
static bool use_memory(uint8_t* rw, uint8_t* rx, int acc_rw, int acc_rx, size_t n) {
  if (n < 16) return true;
  bool ok = true;
  size_t off = n - 16;                       // the last bytes of the range: checks the size as well
  if (acc_rw & 2) {
    uint8_t save[16];
    memcpy(save, rw + off, 16);
    for (int i = 0; i < 16; i++) rw[off + i] = uint8_t(0xA0 + i);
    if (acc_rx & 1) for (int i = 0; i < 16; i++) ok &= rx[off + i] == uint8_t(0xA0 + i);
    if (acc_rx & 4) {
      memcpy(rw + off, kStub, sizeof kStub);
      ok &= reinterpret_cast<StubFn>(rx + off)() == 42;
    }
    memcpy(rw + off, save, 16);
  }
  else if (acc_rx & 1) {
    volatile uint8_t v = rx[off];
    (void)v;
  }
  return ok;
}

// =========================================================================================================
// VirtMem layer (the mangled public symbols are wrapped at link time as well)
// =========================================================================================================
#define SYM(x) __asm__(x)
namespace vmw {
using VirtMem::MemoryFlags;
Error real_alloc(void**, size_t, MemoryFlags) noexcept SYM("__real__ZN6asmjit5v1_217VirtMem5allocEPPvmNS1_11MemoryFlagsE");
Error wrap_alloc(void**, size_t, MemoryFlags) noexcept SYM("__wrap__ZN6asmjit5v1_217VirtMem5allocEPPvmNS1_11MemoryFlagsE");
Error real_release(void*, size_t) noexcept SYM("__real__ZN6asmjit5v1_217VirtMem7releaseEPvm");
Error wrap_release(void*, size_t) noexcept SYM("__wrap__ZN6asmjit5v1_217VirtMem7releaseEPvm");
Error real_protect(void*, size_t, MemoryFlags) noexcept SYM("__real__ZN6asmjit5v1_217VirtMem7protectEPvmNS1_11MemoryFlagsE");
Error wrap_protect(void*, size_t, MemoryFlags) noexcept SYM("__wrap__ZN6asmjit5v1_217VirtMem7protectEPvmNS1_11MemoryFlagsE");
Error real_dual(Out<VirtMem::DualMapping>, size_t, MemoryFlags) noexcept SYM("__real__ZN6asmjit5v1_217VirtMem18alloc_dual_mappingENS0_3OutINS1_11DualMappingEEEmNS1_11MemoryFlagsE");
Error wrap_dual(Out<VirtMem::DualMapping>, size_t, MemoryFlags) noexcept SYM("__wrap__ZN6asmjit5v1_217VirtMem18alloc_dual_mappingENS0_3OutINS1_11DualMappingEEEmNS1_11MemoryFlagsE");
Error real_reldual(VirtMem::DualMapping&, size_t) noexcept SYM("__real__ZN6asmjit5v1_217VirtMem20release_dual_mappingERNS1_11DualMappingEm");
Error wrap_reldual(VirtMem::DualMapping&, size_t) noexcept SYM("__wrap__ZN6asmjit5v1_217VirtMem20release_dual_mappingERNS1_11DualMappingEm");
VirtMem::Info real_info() noexcept SYM("__real__ZN6asmjit5v1_217VirtMem4infoEv");
VirtMem::Info wrap_info() noexcept SYM("__wrap__ZN6asmjit5v1_217VirtMem4infoEv");
size_t real_lps() noexcept SYM("__real__ZN6asmjit5v1_217VirtMem15large_page_sizeEv");
size_t wrap_lps() noexcept SYM("__wrap__ZN6asmjit5v1_217VirtMem15large_page_sizeEv");
VirtMem::HardenedRuntimeInfo real_hri() noexcept SYM("__real__ZN6asmjit5v1_217VirtMem21hardened_runtime_infoEv");
VirtMem::HardenedRuntimeInfo wrap_hri() noexcept SYM("__wrap__ZN6asmjit5v1_217VirtMem21hardened_runtime_infoEv");
void real_pjm(VirtMem::ProtectJitAccess) noexcept SYM("__real__ZN6asmjit5v1_217VirtMem18protect_jit_memoryENS1_16ProtectJitAccessE");
void wrap_pjm(VirtMem::ProtectJitAccess) noexcept SYM("__wrap__ZN6asmjit5v1_217VirtMem18protect_jit_memoryENS1_16ProtectJitAccessE");
void real_flush(void*, size_t) noexcept SYM("__real__ZN6asmjit5v1_217VirtMem23flush_instruction_cacheEPvm");
void wrap_flush(void*, size_t) noexcept SYM("__wrap__ZN6asmjit5v1_217VirtMem23flush_instruction_cacheEPvm");

struct Scope {
  bool rec;
  Scope() { rec = g_armed && g_vm_depth == 0; g_vm_depth++; }
  ~Scope() { g_vm_depth--; }
};
// observations must not be recorded as requests of the component
struct Quiet { int saved; Quiet() { saved = g_armed; g_armed = 0; } ~Quiet() { g_armed = saved; } };

static int acc_of(MemoryFlags f) { return int(uint32_t(f) & 7u); }

Error wrap_alloc(void** p, size_t size, MemoryFlags flags) noexcept {
  Scope sc;
  if (sc.rec) {
    vj::W w;
    w.beginObj().kv("e", "VmCall").kv("api", "alloc").kv("n", (unsigned long long)size).kv("acc", acc_of(flags))
     .kv("sh", Support::test(flags, MemoryFlags::kMapShared)).kv("huge", Support::test(flags, MemoryFlags::kMMapLargePages))
     .kv("flags", (unsigned long long)uint32_t(flags)).endObj();
    emit(w);
  }
  Error e = real_alloc(p, size, flags);
  if (sc.rec) {
    Quiet q;
    vj::W w;
    w.beginObj().kv("e", "VmRet").kv("api", "alloc").kv("r", err_name(e)).kv("p", (unsigned long long)uintptr_t(*p)).kv("n", (unsigned long long)size);
    Probe pr;
    bool use = true;
    if (e == Error::kOk && *p) {
      pr = probe(uintptr_t(*p), size);
      if (pr.cov) use = use_memory((uint8_t*)*p, (uint8_t*)*p, pr.perms, pr.perms, size);
    }
    w.key("obs").beginObj().kv("cov", pr.cov).kv("perms", pr.perms).kv("sh", pr.sh).kv("use", use).endObj();
    w.endObj();
    emit(w);
  }
  return e;
}

Error wrap_release(void* p, size_t size) noexcept {
  Scope sc;
  if (sc.rec) {
    vj::W w;
    w.beginObj().kv("e", "VmCall").kv("api", "release").kv("p", (unsigned long long)uintptr_t(p)).kv("n", (unsigned long long)size).endObj();
    emit(w);
  }
  Error e = real_release(p, size);
  if (sc.rec) {
    vj::W w;
    w.beginObj().kv("e", "VmRet").kv("api", "release").kv("r", err_name(e)).endObj();
    emit(w);
  }
  return e;
}

Error wrap_protect(void* p, size_t size, MemoryFlags flags) noexcept {
  Scope sc;
  if (sc.rec) {
    vj::W w;
    w.beginObj().kv("e", "VmCall").kv("api", "protect").kv("p", (unsigned long long)uintptr_t(p)).kv("n", (unsigned long long)size).kv("acc", acc_of(flags)).endObj();
    emit(w);
  }
  Error e = real_protect(p, size, flags);
  if (sc.rec) {
    Quiet q;
    Probe pr = probe(uintptr_t(p), size);
    vj::W w;
    w.beginObj().kv("e", "VmRet").kv("api", "protect").kv("r", err_name(e));
    w.key("obs").beginObj().kv("cov", pr.cov).kv("perms", pr.perms).endObj();
    w.endObj();
    emit(w);
  }
  return e;
}

Error wrap_dual(Out<VirtMem::DualMapping> dm, size_t size, MemoryFlags flags) noexcept {
  Scope sc;
  if (sc.rec) {
    vj::W w;
    w.beginObj().kv("e", "VmCall").kv("api", "dual").kv("n", (unsigned long long)size).kv("acc", acc_of(flags))
     .kv("tmp", Support::test(flags, MemoryFlags::kMappingPreferTmp)).kv("flags", (unsigned long long)uint32_t(flags)).endObj();
    emit(w);
  }
  Error e = real_dual(dm, size, flags);
  if (sc.rec) {
    Quiet q;
    vj::W w;
    w.beginObj().kv("e", "VmRet").kv("api", "dual").kv("r", err_name(e)).kv("rx", (unsigned long long)uintptr_t(dm->rx))
     .kv("rw", (unsigned long long)uintptr_t(dm->rw)).kv("n", (unsigned long long)size);
    Probe px, pw;
    bool alias = true;
    if (e == Error::kOk && dm->rx && dm->rw) {
      px = probe(uintptr_t(dm->rx), size);
      pw = probe(uintptr_t(dm->rw), size);
      if (px.cov && pw.cov) alias = use_memory((uint8_t*)dm->rw, (uint8_t*)dm->rx, pw.perms, px.perms, size);
    }
    w.key("obs").beginObj().kv("cov", px.cov && pw.cov).kv("prx", px.perms).kv("prw", pw.perms).kv("sh", px.sh && pw.sh)
     .kv("ino", px.ino != 0 && px.ino == pw.ino).kv("alias", alias).endObj();
    w.endObj();
    emit(w);
  }
  return e;
}

Error wrap_reldual(VirtMem::DualMapping& dm, size_t size) noexcept {
  Scope sc;
  if (sc.rec) {
    vj::W w;
    w.beginObj().kv("e", "VmCall").kv("api", "reldual").kv("rx", (unsigned long long)uintptr_t(dm.rx)).kv("rw", (unsigned long long)uintptr_t(dm.rw))
     .kv("n", (unsigned long long)size).endObj();
    emit(w);
  }
  Error e = real_reldual(dm, size);
  if (sc.rec) {
    vj::W w;
    w.beginObj().kv("e", "VmRet").kv("api", "reldual").kv("r", err_name(e)).kv("rx", (unsigned long long)uintptr_t(dm.rx))
     .kv("rw", (unsigned long long)uintptr_t(dm.rw)).kv("n", (unsigned long long)size).endObj();
    emit(w);
  }
  return e;
}

VirtMem::Info wrap_info() noexcept {
  Scope sc;
  if (sc.rec) { vj::W w; w.beginObj().kv("e", "VmCall").kv("api", "info").endObj(); emit(w); }
  VirtMem::Info i = real_info();
  if (sc.rec) { vj::W w; w.beginObj().kv("e", "VmRet").kv("api", "info").kv("r", "Ok").kv("ps", i.page_size).kv("pg", i.page_granularity).endObj(); emit(w); }
  return i;
}

static long sys_hpage_size() {
  if (!g_env.lpfile) return 0;
  int fd = __real_open("/sys/kernel/mm/transparent_hugepage/hpage_pmd_size", O_RDONLY);
  if (fd < 0) return 0;
  char buf[32] = {0};
  ssize_t r = __real_read(fd, buf, 31);
  __real_close(fd);
  return r > 0 ? atol(buf) : 0;
}

size_t wrap_lps() noexcept {
  Scope sc;
  if (sc.rec) { vj::W w; w.beginObj().kv("e", "VmCall").kv("api", "lps").endObj(); emit(w); }
  size_t v = real_lps();
  if (sc.rec) {
    Quiet q;
    vj::W w; w.beginObj().kv("e", "VmRet").kv("api", "lps").kv("r", "Ok").kv("lp", (unsigned long long)v).kv("sys", (long long)sys_hpage_size()).endObj(); emit(w);
  }
  return v;
}

VirtMem::HardenedRuntimeInfo wrap_hri() noexcept {
  Scope sc;
  if (sc.rec) { vj::W w; w.beginObj().kv("e", "VmCall").kv("api", "hri").endObj(); emit(w); }
  VirtMem::HardenedRuntimeInfo h = real_hri();
  if (sc.rec) {
    vj::W w;
    w.beginObj().kv("e", "VmRet").kv("api", "hri").kv("r", "Ok").kv("en", h.has_flag(VirtMem::HardenedRuntimeFlags::kEnabled))
     .kv("mapjit", h.has_flag(VirtMem::HardenedRuntimeFlags::kMapJit)).kv("dual", h.has_flag(VirtMem::HardenedRuntimeFlags::kDualMapping)).endObj();
    emit(w);
  }
  return h;
}

void wrap_pjm(VirtMem::ProtectJitAccess acc) noexcept {
  if (g_armed) { vj::W w; w.beginObj().kv("e", "Jit").kv("acc", acc == VirtMem::ProtectJitAccess::kReadWrite ? "RW" : "RX").endObj(); emit(w); }
  real_pjm(acc);
}

void wrap_flush(void* p, size_t n) noexcept {
  if (g_armed) { vj::W w; w.beginObj().kv("e", "Flush").kv("a", (unsigned long long)uintptr_t(p)).kv("n", (unsigned long long)n).endObj(); emit(w); }
  real_flush(p, n);
}
} // namespace vmw

// =========================================================================================================
// Code for JitRuntime::add
// =========================================================================================================
static uint32_t helper_fn(uint32_t x) { return x * 3u + 1u; }

struct GenInfo { uint64_t site_off = 0; bool has_site = false; uint32_t expect5 = 0; };

// f(x): kind bits 1 = absolute call + embedded absolute address of the entry (needs relocation for the base),
//       2 = constant in a second section (cross-section fixup), 4 = zero-initialised virtual section (.bss).
static Error gen_code(CodeHolder& code, x86::Assembler& a, int kind, uint32_t K, size_t pad, GenInfo* gi) {
  Error e;
  Label entry = a.new_label(), site = a.new_label(), ldata = a.new_label(), lbss = a.new_label();
#define EM(x) do { if ((e = (x)) != Error::kOk) return e; } while (0)
  if (kind < 0) return Error::kOk;                                            // no code at all
  EM(a.bind(entry));
  uint32_t expect = K + 5;
  if (kind & 1) {
    EM(a.sub(x86::rsp, 8));
    EM(a.call(Imm(uint64_t(uintptr_t(&helper_fn)))));                         // edi = x -> eax = 3x+1
    EM(a.add(x86::rsp, 8));
    EM(a.add(x86::eax, K));
    expect = helper_fn(5) + K;
  }
  else {
    EM(a.mov(x86::eax, K));
    EM(a.add(x86::eax, x86::edi));
  }
  if (kind & 2) { EM(a.add(x86::eax, x86::dword_ptr(ldata))); expect += 0x1234; }
  if (kind & 4) { EM(a.add(x86::eax, x86::dword_ptr(lbss))); }
  EM(a.ret());
  if (kind & 1) {
    EM(a.align(AlignMode::kData, 8));
    EM(a.bind(site));
    EM(a.embed_label(entry));                                                  // 8 bytes: absolute address of the entry
  }
  if (pad) { uint8_t z = 0xCC; EM(a.embed_data_array(TypeId::kUInt8, &z, 1, pad)); }
  if (kind & 2) {
    Section* s = nullptr;
    EM(code.new_section(Out(s), ".rodata", SIZE_MAX, SectionFlags::kReadOnly, 16));
    EM(a.section(s));
    EM(a.bind(ldata));
    EM(a.embed_uint32(0x1234));
    EM(a.section(code.text_section()));
  }
  if (kind & 4) {
    Section* s = nullptr;
    EM(code.new_section(Out(s), ".bss", SIZE_MAX, SectionFlags::kZeroInitialized, 8));
    s->set_virtual_size(64);
    EM(a.section(s));
    EM(a.bind(lbss));
    EM(a.section(code.text_section()));
  }
#undef EM
  if (gi) {
    gi->expect5 = expect;
    gi->has_site = (kind & 1) != 0;
    // offsets are meaningful after flatten()
    if (code.flatten() == Error::kOk && gi->has_site) gi->site_off = code.label_offset_from_base(site);
  }
  return Error::kOk;
}

// =========================================================================================================
// Driver
// =========================================================================================================
struct Slot {
  int kind = 0;                 // 0 empty, 1 single, 2 dual, 3 function
  void* p = nullptr; size_t n = 0;
  VirtMem::DualMapping dm{};
  // function
  void* fn = nullptr; size_t code_size = 0; size_t span = 0; uint32_t expect5 = 0; std::vector<uint8_t> image; std::vector<std::pair<size_t, size_t>> ranges;
};

struct Driver {
  std::vector<Slot> slots;
  JitRuntime* rt = nullptr;
  std::vector<VirtMem::ProtectJitReadWriteScope*> scopes;
  long fd0 = 0;

  Slot& slot(size_t i) { if (slots.size() <= i) slots.resize(i + 1); return slots[i]; }

  struct Armed {
    Armed() { g_armed = 1; }
    ~Armed() { g_armed = 0; }
  };

  static VirtMem::MemoryFlags mkflags(const vj::Value& op) {
    uint32_t f = uint32_t(op["acc"].i()) & 7u;
    if (op["sh"].b) f |= uint32_t(VirtMem::MemoryFlags::kMapShared);
    if (op["huge"].b) f |= uint32_t(VirtMem::MemoryFlags::kMMapLargePages);
    if (op["tmp"].b) f |= uint32_t(VirtMem::MemoryFlags::kMappingPreferTmp);
    if (op.has("maxacc")) f |= (uint32_t(op["maxacc"].i()) & 7u) << 5;
    return VirtMem::MemoryFlags(f);
  }

  bool fn_intact() {
    bool ok = true;
    for (Slot& s : slots) if (s.kind == 3) {
      for (auto& r : s.ranges) ok &= memcmp((uint8_t*)s.fn + r.first, s.image.data() + r.first, r.second) == 0;
      if (ok) ok &= reinterpret_cast<uint32_t (*)(uint32_t)>(s.fn)(5) == s.expect5;
    }
    return ok;
  }

  static bool filled(const void* p, size_t n, uint32_t pattern) {
    const uint8_t* b = (const uint8_t*)p;
    for (size_t i = 0; i < n; i++) {
      uintptr_t addr = uintptr_t(b + i);
      if (b[i] != uint8_t(pattern >> (8 * (addr & 3)))) return false;
    }
    return true;
  }

  void run_op(const vj::Value& op) {
    const std::string& o = op["op"].s();
    size_t si = op.has("s") ? size_t(op["s"].i()) : 0;
    if (o == "info") { Armed a; (void)VirtMem::info(); }
    else if (o == "lps") { Armed a; (void)VirtMem::large_page_size(); }
    else if (o == "hri") { Armed a; (void)VirtMem::hardened_runtime_info(); }
    else if (o == "alloc") {
      Slot& s = slot(si);
      if (s.kind) return;
      void* p = (void*)uintptr_t(0x1234);
      size_t n = size_t(op["n"].i());
      Error e;
      { Armed a; e = VirtMem::alloc(&p, n, mkflags(op)); }
      if (e == Error::kOk && p) { s.kind = 1; s.p = p; s.n = n; }
    }
    else if (o == "release") {
      Slot& s = slot(si);
      void* p = s.p; size_t n = s.n;
      const std::string& bogus = op["bogus"].s();
      if (bogus == "null") { p = nullptr; n = 4096; }
      else if (bogus == "unaligned") { if (s.kind != 1) return; p = (uint8_t*)s.p + 8; }
      else if (s.kind != 1) return;
      Error e;
      { Armed a; g_munmap_failable = true; e = VirtMem::release(p, n); g_munmap_failable = false; }
      if (e == Error::kOk && bogus.empty()) s = Slot{};
    }
    else if (o == "protect") {
      Slot& s = slot(si);
      if (s.kind != 1 && s.kind != 2) return;
      uint8_t* base = (uint8_t*)(s.kind == 1 ? s.p : (op["view"].s() == "rw" ? s.dm.rw : s.dm.rx));
      size_t off = size_t(op["off"].i());
      if (off >= s.n) return;
      size_t n = op["n"].i() > 0 ? size_t(op["n"].i()) : s.n - off;
      Armed a;
      (void)VirtMem::protect(base + off, n, mkflags(op));
    }
    else if (o == "dual") {
      Slot& s = slot(si);
      if (s.kind) return;
      VirtMem::DualMapping dm{(void*)uintptr_t(0x1234), (void*)uintptr_t(0x5678)};
      size_t n = size_t(op["n"].i());
      Error e;
      { Armed a; e = VirtMem::alloc_dual_mapping(Out(dm), n, mkflags(op)); }
      if (e == Error::kOk && dm.rx && dm.rw) { s.kind = 2; s.dm = dm; s.n = n; }
    }
    else if (o == "reldual") {
      Slot& s = slot(si);
      if (s.kind != 2) return;
      Error e;
      { Armed a; g_munmap_failable = true; e = VirtMem::release_dual_mapping(s.dm, s.n); g_munmap_failable = false; }
      // after a failure the state of dm is unspecified (one view may be gone while dm still names it): the handle is abandoned
      if (e == Error::kOk) s = Slot{}; else s.kind = 4;
    }
    else if (o == "jit") { Armed a; VirtMem::protect_jit_memory(op["acc"].s() == "RW" ? VirtMem::ProtectJitAccess::kReadWrite : VirtMem::ProtectJitAccess::kReadExecute); }
    else if (o == "scope") {
      Slot& s = slot(si);
      void* p = s.kind == 1 ? s.p : s.kind == 2 ? s.dm.rx : nullptr;
      long policy = op["policy"].i();
      Armed a;
      { vj::W w; w.beginObj().kv("e", "VmCall").kv("api", "scope_open").kv("p", (unsigned long long)uintptr_t(p)).kv("n", (unsigned long long)s.n).kv("policy", (long long)policy).endObj(); emit(w); }
      scopes.push_back(new VirtMem::ProtectJitReadWriteScope(p, s.n, VirtMem::CachePolicy(uint32_t(policy))));
      { vj::W w; w.beginObj().kv("e", "VmRet").kv("api", "scope_open").kv("r", "Ok").endObj(); emit(w); }
    }
    else if (o == "unscope") {
      if (scopes.empty()) return;
      Armed a;
      VirtMem::ProtectJitReadWriteScope* sc = scopes.back();
      { vj::W w; w.beginObj().kv("e", "VmCall").kv("api", "scope_close").kv("p", (unsigned long long)uintptr_t(sc->_rx_ptr)).kv("n", (unsigned long long)sc->_size).kv("policy", (long long)uint32_t(sc->_policy)).endObj(); emit(w); }
      delete sc;
      scopes.pop_back();
      { vj::W w; w.beginObj().kv("e", "VmRet").kv("api", "scope_close").kv("r", "Ok").endObj(); emit(w); }
    }
    else if (o == "flush") {
      Slot& s = slot(si);
      Armed a;
      VirtMem::flush_instruction_cache(s.kind == 2 ? s.dm.rx : s.p, s.n);
    }
    else if (o == "rt_new") rt_new(op);
    else if (o == "rt_add") rt_add(op, si);
    else if (o == "rt_release") rt_release(op, si);
    else if (o == "rt_reset") rt_reset(op);
    else if (o == "rt_del") rt_del();
    else { fprintf(stderr, "unknown op %s\n", o.c_str()); exit(3); }
  }

  // ---- JitRuntime ----
  struct RtScope { RtScope() { g_rt_depth++; } ~RtScope() { g_rt_depth--; } };

  void rt_new(const vj::Value& op) {
    if (rt) return;
    JitAllocator::CreateParams p{};
    uint32_t o = 0;
    if (op["dual"].b) o |= uint32_t(JitAllocatorOptions::kUseDualMapping);
    if (op["multi"].b) o |= uint32_t(JitAllocatorOptions::kUseMultiplePools);
    if (op["fill"].b) o |= uint32_t(JitAllocatorOptions::kFillUnusedMemory);
    if (op["imm"].b) o |= uint32_t(JitAllocatorOptions::kImmediateRelease);
    if (op["nopad"].b) o |= uint32_t(JitAllocatorOptions::kDisableInitialPadding);
    if (op["lp"].b) o |= uint32_t(JitAllocatorOptions::kUseLargePages);
    if (op["alignlp"].b) o |= uint32_t(JitAllocatorOptions::kAlignBlockSizeToLargePage);
    p.options = JitAllocatorOptions(o);
    p.granularity = uint32_t(op["gran"].i());
    p.block_size = uint32_t(op["block"].i());
    vj::W w;
    w.beginObj().kv("e", "RtCall").kv("api", "new").kv("dual", op["dual"].b).kv("multi", op["multi"].b).kv("fill", op["fill"].b)
     .kv("imm", op["imm"].b).kv("nopad", op["nopad"].b).kv("lp", op["lp"].b).kv("alignlp", op["alignlp"].b)
     .kv("gran", (long long)p.granularity).kv("block", (long long)p.block_size).endObj();
    emit(w);
    { RtScope r; Armed a; rt = new JitRuntime(&p); }
    JitAllocator& al = rt->allocator();
    bool init = al.is_initialized();
    bool target = rt->arch() == Environment::host().arch() && rt->environment().object_format() == ObjectFormat::kJIT &&
                  rt->cpu_features() == CpuInfo::host().features();
    vj::W v;
    v.beginObj().kv("e", "RtRet").kv("api", "new").kv("r", "Ok").kv("init", init).kv("target", target);
    v.key("o").beginObj().kv("dual", al.has_option(JitAllocatorOptions::kUseDualMapping)).kv("multi", al.has_option(JitAllocatorOptions::kUseMultiplePools))
     .kv("fill", al.has_option(JitAllocatorOptions::kFillUnusedMemory)).kv("imm", al.has_option(JitAllocatorOptions::kImmediateRelease))
     .kv("nopad", al.has_option(JitAllocatorOptions::kDisableInitialPadding)).kv("gran", (long long)al.granularity()).kv("block", (long long)al.block_size()).endObj();
    v.endObj();
    emit(v);
  }

  void rt_add(const vj::Value& op, size_t si) {
    if (!rt) return;
    Slot& s = slot(si);
    if (s.kind) return;
    int kind = int(op["kind"].i());
    uint32_t K = uint32_t(op["K"].i());
    size_t pad = size_t(op["pad"].i());
    // the code to install, and an identical twin used to compute the reference image
    CodeHolder code, twin;
    code.init(rt->environment(), rt->cpu_features());
    twin.init(rt->environment(), rt->cpu_features());
    x86::Assembler a(&code), b(&twin);
    GenInfo gi, gi2;
    if (gen_code(code, a, kind, K, pad, nullptr) != Error::kOk || gen_code(twin, b, kind, K, pad, &gi2) != Error::kOk) { fprintf(stderr, "code generation failed\n"); exit(3); }
    size_t est = 0;
    if (kind >= 0) { twin.flatten(); twin.resolve_cross_section_fixups(); est = twin.code_size(); }
    vj::W w;
    w.beginObj().kv("e", "RtCall").kv("api", "add").kv("kind", kind).kv("size", (unsigned long long)est).endObj();
    emit(w);
    void* fn = (void*)uintptr_t(0x1234);
    Error e;
    { RtScope r; Armed ar; g_malloc_failable = true; e = rt->add(&fn, &code); g_malloc_failable = false; }
    vj::W v;
    v.beginObj().kv("e", "RtRet").kv("api", "add").kv("r", err_name(e)).kv("p", (unsigned long long)uintptr_t(fn));
    uint64_t base = 0;
    bool img = true, run = true;
    size_t size = 0;
    JitAllocator::Span sp;
    Error qe = Error::kInvalidState;
    if (e == Error::kOk && fn) {
      qe = rt->allocator().query(Out(sp), fn);
      // reference: the twin relocated for the returned address
      twin.relocate_to_base(uint64_t(uintptr_t(fn)));
      size = twin.code_size();
      std::vector<uint8_t> ref(size, 0);
      std::vector<std::pair<size_t, size_t>> ranges;
      for (Section* sec : twin.sections()) {
        size_t off = size_t(sec->offset()), bs = sec->buffer_size(), vs = size_t(sec->virtual_size());
        if (off + std::max(bs, vs) > size) { img = false; continue; }
        if (bs) memcpy(ref.data() + off, sec->data(), bs);
        if (std::max(bs, vs)) ranges.emplace_back(off, std::max(bs, vs));
      }
      for (auto& r : ranges) img &= memcmp((uint8_t*)fn + r.first, ref.data() + r.first, r.second) == 0;
      if (gi2.has_site && gi2.site_off + 8 <= size) memcpy(&base, (uint8_t*)fn + gi2.site_off, 8);
      else base = uint64_t(uintptr_t(fn));                               // position independent code: nothing to read back
      run = reinterpret_cast<uint32_t (*)(uint32_t)>(fn)(5) == gi2.expect5;
      s.kind = 3; s.fn = fn; s.code_size = size; s.span = sp.size(); s.expect5 = gi2.expect5; s.image = ref; s.ranges = ranges;
    }
    bool intact = fn_intact();
    v.kv("size", (unsigned long long)size).kv("q", err_name(qe)).kv("qrx", (unsigned long long)uintptr_t(sp.rx())).kv("qrw", (unsigned long long)uintptr_t(sp.rw()))
     .kv("qn", (unsigned long long)sp.size()).kv("base", (unsigned long long)base).kv("img", img).kv("run", run).kv("intact", intact).endObj();
    emit(v);
  }

  void rt_release(const vj::Value& op, size_t si) {
    if (!rt) return;
    Slot& s = slot(si);
    const std::string& bogus = op["bogus"].s();
    void* p = nullptr;
    static uint8_t foreign[64];
    if (bogus == "null") p = nullptr;
    else if (bogus == "foreign") p = foreign;
    else { if (s.kind != 3) return; p = s.fn; }
    vj::W w;
    w.beginObj().kv("e", "RtCall").kv("api", "release").kv("kind", bogus.empty() ? "live" : bogus.c_str()).kv("p", (unsigned long long)uintptr_t(p))
     .kv("n", (unsigned long long)(bogus.empty() ? s.span : 1)).endObj();
    emit(w);
    uint32_t pattern = rt->allocator().fill_pattern();
    size_t span = s.span;
    if (bogus.empty()) s.kind = 0;                                        // not a live function any more
    Error e;
    { RtScope r; Armed a; e = rt->release(p); }
    bool mapped = false, fil = true;
    if (bogus.empty()) {
      Probe pr = probe(uintptr_t(p), span);
      mapped = pr.cov;
      if (mapped && (pr.perms & 1)) fil = filled(p, span, pattern);
      if (e != Error::kOk) s.kind = 3; else s = Slot{};
    }
    vj::W v;
    v.beginObj().kv("e", "RtRet").kv("api", "release").kv("r", err_name(e)).kv("intact", fn_intact()).kv("mapped", mapped).kv("filled", fil).endObj();
    emit(v);
  }

  void rt_reset(const vj::Value& op) {
    if (!rt) return;
    bool hard = op["hard"].b;
    vj::W w;
    w.beginObj().kv("e", "RtCall").kv("api", "reset").kv("hard", hard).endObj();
    emit(w);
    uint32_t pattern = rt->allocator().fill_pattern();
    std::vector<std::pair<void*, size_t>> was;
    for (Slot& s : slots) if (s.kind == 3) { was.emplace_back(s.fn, s.span); s = Slot{}; }
    { RtScope r; Armed a; rt->reset(hard ? ResetPolicy::kHard : ResetPolicy::kSoft); }
    bool fil = true;
    for (auto& x : was) { Probe pr = probe(uintptr_t(x.first), x.second); if (pr.cov && (pr.perms & 1)) fil &= filled(x.first, x.second, pattern); }
    vj::W v;
    v.beginObj().kv("e", "RtRet").kv("api", "reset").kv("r", "Ok").kv("filled", fil).endObj();
    emit(v);
  }

  void rt_del() {
    if (!rt) return;
    vj::W w;
    w.beginObj().kv("e", "RtCall").kv("api", "del").endObj();
    emit(w);
    for (Slot& s : slots) if (s.kind == 3) s = Slot{};
    { RtScope r; Armed a; delete rt; rt = nullptr; }
    vj::W v;
    v.beginObj().kv("e", "RtRet").kv("api", "del").kv("r", "Ok").endObj();
    emit(v);
  }
};

// ---- one execution, inside a forked child ----
static void run_execution(const vj::Value& sc, const std::vector<PlanEntry>& ks, const char* trace_path, int count_fd) {
  g_out = fopen(trace_path, "a");
  if (!g_out) _exit(4);
  vj::install_abort_handlers(g_out);
  alarm(60);
  const vj::Value& env = sc["env"];
  g_env = Env{};
  if (env.has("memfd")) g_env.memfd = env["memfd"].b;
  if (env.has("shmexec")) g_env.shmexec = env["shmexec"].b;
  if (env.has("rwx")) g_env.rwx = env["rwx"].b;
  if (env.has("oldkernel")) g_env.oldkernel = env["oldkernel"].b;
  if (env.has("hugesim")) g_env.hugesim = env["hugesim"].b;
  if (env.has("eexist")) g_env.eexist = int(env["eexist"].i());
  if (env.has("lpfile")) g_env.lpfile = env["lpfile"].b;
  g_eexist_left = g_env.eexist;
  g_plan.ks = ks;
  g_plan.sticky = sc["sticky"].b;
  Driver d;
  d.fd0 = count_fds();
  vj::W w;
  w.beginObj().kv("e", "Reset").kv("x", sc["x"].s()).kv("page", (long long)getpagesize());
  w.key("env").beginObj().kv("memfd", g_env.memfd).kv("shmexec", g_env.shmexec).kv("rwx", g_env.rwx).kv("oldkernel", g_env.oldkernel)
   .kv("hugesim", g_env.hugesim).kv("eexist", g_env.eexist).kv("lpfile", g_env.lpfile).endObj();
  w.key("fail").beginArr();
  for (auto& p : ks) {
    w.beginArr();
    if (p.letter) { char l[2] = {p.letter, 0}; w.val(l); }
    w.val((long long)p.k).val(errno_name(p.err)).endArr();
  }
  w.endArr().kv("sticky", g_plan.sticky).endObj();
  emit(w);
  for (const vj::Value& op : sc["ops"].arr) d.run_op(op);
  // End: independent accounting
  long fdleak = count_fds() - d.fd0;
  size_t left = 0;
  for (size_t i = 0; i < g_nranges; i++) { Probe pr = probe(g_ranges[i].a, g_ranges[i].n); if (pr.any) left++; }
  vj::W v;
  v.beginObj().kv("e", "End").kv("fdleak", (long long)fdleak).kv("mapleft", (long long)left).kv("fc", (long long)g_fcount).endObj();
  emit(v);
  fflush(g_out);
  if (count_fd >= 0) { std::string s = g_fseq + "\n"; ssize_t r = write(count_fd, s.data(), s.size()); (void)r; }
  _exit(0);
}

static std::string spawn(const vj::Value& sc, const std::vector<PlanEntry>& ks, const char* trace_path, bool want_seq) {
  int pfd[2] = {-1, -1};
  if (want_seq && pipe(pfd) != 0) { perror("pipe"); exit(3); }
  fflush(nullptr);
  pid_t pid = fork();
  if (pid == 0) {
    if (want_seq) close(pfd[0]);
    run_execution(sc, ks, trace_path, want_seq ? pfd[1] : -1);
    _exit(0);
  }
  std::string seq;
  if (want_seq) {
    close(pfd[1]);
    char buf[4096];
    ssize_t r;
    while ((r = read(pfd[0], buf, sizeof buf)) > 0) seq.append(buf, size_t(r));
    close(pfd[0]);
    while (!seq.empty() && seq.back() == '\n') seq.pop_back();
  }
  int st = 0;
  waitpid(pid, &st, 0);
  if (!(WIFEXITED(st) && WEXITSTATUS(st) == 0)) {
    FILE* f = fopen(trace_path, "a");
    char why[96];
    if (WIFSIGNALED(st)) snprintf(why, sizeof why, "signal %d", WTERMSIG(st)); else snprintf(why, sizeof why, "exit %d", WEXITSTATUS(st));
    fprintf(f, "\n{\"e\":\"ABORT\",\"why\":\"%s\"}\n", why);
    fclose(f);
  }
  return seq;
}

static std::vector<int> errnos_for(char letter, bool all) {
  std::vector<int> v;
  switch (letter) {
    case 'm': v = {ENOMEM, EINVAL, EACCES, EAGAIN}; break;
    case 'u': v = {EINVAL, ENOMEM}; break;
    case 'p': v = {ENOMEM, EACCES}; break;
    case 't': v = {ENOSPC, EFBIG, EINVAL}; break;
    case 'o': v = {EMFILE, EEXIST, ENOENT, EACCES}; break;
    case 's': v = {EMFILE, EEXIST, EACCES}; break;
    case 'f': v = {EMFILE, ENOSYS, ENOMEM}; break;
    case 'r': v = {EIO}; break;
    default: v = {ENOMEM};
  }
  if (!all) {
    // the first errno plus the ones asmjit treats specially (fall-back paths)
    std::vector<int> w{v[0]};
    if (letter == 'm') w.push_back(EINVAL);
    if (letter == 'o' || letter == 's') w.push_back(EEXIST);
    if (letter == 'f') w.push_back(ENOSYS);
    return w;
  }
  return v;
}

int main(int argc, char** argv) {
  if (argc < 4 || std::string(argv[1]) != "run") { fprintf(stderr, "usage: virtmem run <scripts.ndjson> <trace.ndjson>\n"); return 2; }
  std::vector<vj::Value> scripts = vj::read_ndjson(argv[2]);
  const char* trace = argv[3];
  { FILE* f = fopen(trace, "w"); if (!f) { perror(trace); return 3; } fclose(f); }
  signal(SIGPIPE, SIG_IGN);
  long nexec = 0;
  for (const vj::Value& sc : scripts) {
    const vj::Value& fail = sc["fail"];
    if (fail.kind == vj::Value::Str && fail.s() == "each") {
      std::string seq = spawn(sc, {}, trace, true);
      nexec++;
      bool all = sc["errnos"].s() == "all";
      for (size_t k = 1; k <= seq.size(); k++)
        for (int e : errnos_for(seq[k - 1], all)) { spawn(sc, {PlanEntry{long(k), e, 0}}, trace, false); nexec++; }
    }
    else {
      std::vector<PlanEntry> ks;
      if (fail.kind == vj::Value::Arr) for (const vj::Value& x : fail.arr) {
        if (x.size() == 3) ks.push_back(PlanEntry{long(x[1].i()), errno_value(x[2].s()), x[0].s()[0]});
        else ks.push_back(PlanEntry{long(x[0].i()), errno_value(x[1].s()), 0});
      }
      spawn(sc, ks, trace, false);
      nexec++;
    }
  }
  fprintf(stderr, "virtmem: %ld executions\n", nexec);
  return 0;
}
