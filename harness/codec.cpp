// C17 harness: observations of the real displacement / immediate codecs of asmjit (ndjson, judged by TLC).
//
//   codec observe offsets <out> <nrandom>       point observations of CodeWriterUtils::write_offset
//   codec observe runs    <out> <maxbits> <chunk>  run-length coded decision function of write_offset (exhaustive)
//   codec observe rel     <out> <nrandom>       a64::Assembler: b/bl/b.cond/cbz/tbz/adr/adrp/ldr-literal with Imm targets
//   codec observe addsub  <out>                 a64::Assembler add/sub/adds/subs/cmp/cmn immediates + is_add_sub_imm
//   codec observe bitfield <out>                a64::Assembler lsl/lsr/asr/ror/ubfx/sbfx/bfxil/ubfiz/sbfiz/bfi/bfc/ubfm/sbfm/bfm
//   codec feed logical <in> <out> <asm-neigh-stride>   in: {"w":64,"v":[l0..l3]} (all encodable values, from TLC)
//   codec feed fp8     <in> <out>               in: {"w":16|32|64,"v":[l0..l3],"i":imm8}
//   codec feed mov     <in> <out> <nrandom>     in: {"v":[l0..l3]}
//   codec replay <in> <out>                     re-executes recorded observations (any kind) on the current tree
//
// The harness only records what the real code did.  All judgement is in spec/codec/*.tla.
#include <asmjit/core.h>
#include <asmjit/a64.h>
#include <asmjit/core/codewriter_p.h>
#include <asmjit/core/emitterutils_p.h>
#include <asmjit/arm/armutils.h>
#include "vjson.h"
#include <string>
#include <vector>
#include <set>

using namespace asmjit;

// ---------------------------------------------------------------------------------------------------------
// offset formats
// ---------------------------------------------------------------------------------------------------------
struct Fmt {
  const char* tname;
  OffsetType type;
  uint32_t vs, n, sh, d;
  uint64_t field_mask;   // bits the harness clears in `before` (precondition of write_offset, re-checked by the spec)
  int kind;              // 0 signed, 1 unsigned, 2 sign+magnitude
  bool x86;              // region with leading/trailing bytes
};

static uint64_t lsbm(uint32_t n) { return n >= 64 ? ~uint64_t(0) : ((uint64_t(1) << n) - 1); }

static std::vector<Fmt> formats() {
  std::vector<Fmt> f;
  auto gen = [&](const char* tn, OffsetType t, uint32_t vs, uint32_t n, uint32_t sh, uint32_t d, bool x86) {
    f.push_back(Fmt{tn, t, vs, n, sh, d, lsbm(n) << sh, t == OffsetType::kUnsignedOffset ? 1 : 0, x86});
  };
  // x86 backend (rel8 / rel32 / abs32) and core assembler (embed_label: unsigned 1..8, embed_label_delta: signed 1..8)
  for (uint32_t vs : {1u, 2u, 4u, 8u}) {
    gen("Signed", OffsetType::kSignedOffset, vs, vs * 8, 0, 0, true);
    gen("Unsigned", OffsetType::kUnsignedOffset, vs, vs * 8, 0, 0, true);
  }
  // a64 backend
  gen("Signed", OffsetType::kSignedOffset, 4, 19, 5, 2, false);    // b.cond, cbz, ldr literal
  gen("Signed", OffsetType::kSignedOffset, 4, 26, 0, 2, false);    // b, bl
  gen("Signed", OffsetType::kSignedOffset, 4, 14, 5, 2, false);    // tbz, tbnz
  f.push_back(Fmt{"A64_ADR", OffsetType::kAArch64_ADR, 4, 21, 5, 0, 0x60FFFFE0u, 0, false});
  f.push_back(Fmt{"A64_ADRP", OffsetType::kAArch64_ADRP, 4, 21, 5, 12, 0x60FFFFE0u, 0, false});
  // formats defined by OffsetType for the T32 / A32 backends (parameters as documented in fixup.h / the Arm ARM)
  f.push_back(Fmt{"T32_ADR", OffsetType::kThumb32_ADR, 4, 12, 0, 0, 0x04A070FFu, 2, false});
  f.push_back(Fmt{"T32_BLX", OffsetType::kThumb32_BLX, 4, 23, 0, 2, 0x07FF2FFFu, 0, false});  // H (bit 0) is a fixed 0 bit of BLX: the patcher ORs into it, so it belongs to the zero-before mask
  f.push_back(Fmt{"T32_B", OffsetType::kThumb32_B, 4, 24, 0, 1, 0x07FF2FFFu, 0, false});
  f.push_back(Fmt{"T32_BCond", OffsetType::kThumb32_BCond, 4, 20, 0, 1, 0x043F2FFFu, 0, false});
  f.push_back(Fmt{"A32_ADR", OffsetType::kAArch32_ADR, 4, 32, 0, 0, 0x00C00FFFu, 2, false});
  f.push_back(Fmt{"A32_U23_Signed", OffsetType::kAArch32_U23_SignedOffset, 4, 12, 0, 0, 0x00800FFFu, 2, false});  // ldr literal
  f.push_back(Fmt{"A32_U23_Signed", OffsetType::kAArch32_U23_SignedOffset, 4, 8, 0, 2, 0x008000FFu, 2, false});   // vldr literal
  f.push_back(Fmt{"A32_U23_0To3At0_4To7At8", OffsetType::kAArch32_U23_0To3At0_4To7At8, 4, 8, 0, 0, 0x00800F0Fu, 2, false});
  f.push_back(Fmt{"A32_1To24At0_0At24", OffsetType::kAArch32_1To24At0_0At24, 4, 25, 0, 1, 0x01FFFFFFu, 0, false});
  // generic formats with other shifts / discards / sizes (scaled variations of the shapes above)
  gen("Signed", OffsetType::kSignedOffset, 2, 11, 0, 1, false);     // t16 b
  gen("Signed", OffsetType::kSignedOffset, 2, 8, 0, 1, false);      // t16 b<cond>
  gen("Unsigned", OffsetType::kUnsignedOffset, 2, 8, 0, 2, false);  // t16 adr / ldr literal
  gen("Unsigned", OffsetType::kUnsignedOffset, 4, 12, 10, 3, false);
  gen("Signed", OffsetType::kSignedOffset, 8, 33, 7, 0, false);
  gen("Unsigned", OffsetType::kUnsignedOffset, 8, 40, 20, 4, false);
  gen("Signed", OffsetType::kSignedOffset, 1, 5, 2, 0, false);
  return f;
}

static OffsetFormat make_format(const Fmt& f, uint32_t lead, uint32_t trail) {
  OffsetFormat of;
  of.reset_to_imm_value(f.type, f.vs, f.sh, f.n, f.d);
  of.set_leading_and_trailing_size(lead, trail);
  return of;
}

static void write_fmt(vj::W& w, const Fmt& f) {
  w.key("f").beginObj().kv("t", f.tname).kv("vs", f.vs).kv("n", f.n).kv("sh", f.sh).kv("d", f.d).endObj();
}

static void observe_one_offset(FILE* out, const Fmt& f, int64_t x, vj::Rng& rng, vj::W& w) {
  uint32_t lead = f.x86 ? uint32_t(rng.below(4)) : 0;
  uint32_t trail = f.x86 ? uint32_t(rng.below(5)) : 0;
  uint8_t guard[32];
  uint8_t before[32], after[32];
  size_t n = lead + f.vs + trail;
  for (size_t i = 0; i < sizeof before; i++) before[i] = uint8_t(rng.next());
  // clear the field bits of the value word (write_offset ORs the field in)
  for (uint32_t i = 0; i < f.vs; i++) before[lead + i] &= uint8_t(~(f.field_mask >> (8 * i)));
  memcpy(after, before, sizeof before);
  memcpy(guard, before, sizeof before);
  OffsetFormat of = make_format(f, lead, trail);
  bool ok = CodeWriterUtils::write_offset(after, x, of);
  // bytes behind the region are part of the observation too (two guard bytes)
  size_t m = n + 2;
  w.beginObj();
  write_fmt(w, f);
  w.kv("vo", lead).wide("x", uint64_t(x)).bytes("b", before, m).bytes("a", after, m).kv("ok", ok);
  w.endObj().emit(out);
}

static void add_band(std::set<int64_t>& s, int64_t c, int64_t r) {
  for (int64_t k = -r; k <= r; k++) {
    // saturating
    if ((k > 0 && c > INT64_MAX - k) || (k < 0 && c < INT64_MIN - k)) continue;
    s.insert(c + k);
  }
}

static int cmd_observe_offsets(const char* path, uint64_t nrandom) {
  FILE* out = fopen(path, "w");
  if (!out) return 3;
  vj::install_abort_handlers(out);
  vj::Rng rng(vj::env_seed());
  vj::W w;
  for (const Fmt& f : formats()) {
    uint32_t e = f.n + f.d;
    std::set<int64_t> xs;
    int64_t step = int64_t(1) << f.d;
    if (e <= 16) {   // exhaustive: the representable hull and 64 steps on both sides
      int64_t lim = int64_t(1) << e;
      int64_t lo = f.kind == 1 ? 0 : f.kind == 0 ? -(lim / 2) : -lim;
      int64_t hi = f.kind == 0 ? lim / 2 : lim;
      for (int64_t x = lo - 64 * step; x <= hi + 64 * step; x++) xs.insert(x);
    }
    // boundary bands: 0, every power of two (covers every limit of every kind), the 64-bit extremes
    add_band(xs, 0, 64 * step > 4096 ? 4096 : 64 * step);
    for (uint32_t k = 0; k < 63; k++) {
      int64_t p = int64_t(1) << k;
      int64_t r = (k == e || k + 1 == e) ? (64 * step > 8192 ? 8192 : 64 * step) : 3;
      if (r > 300) {   // thin out wide bands: every multiple of step plus the 64 closest values
        for (int64_t q = -64; q <= 64; q++) { xs.insert(p + q * step); xs.insert(-p + q * step); }
        r = 64;
      }
      add_band(xs, p, r);
      add_band(xs, -p, r);
    }
    add_band(xs, INT64_MAX, 4);
    if (f.kind != 2) add_band(xs, INT64_MIN, 4);      // -INT64_MIN is not a displacement of a sign+magnitude format
    else for (int k = 1; k <= 4; k++) xs.insert(INT64_MIN + k);
    for (int64_t x : xs) observe_one_offset(out, f, x, rng, w);
    // stratified random: random magnitude class, random sign, half of them multiples of 2^d
    for (uint64_t i = 0; i < nrandom; i++) {
      uint32_t bits = uint32_t(rng.below(e + 4 > 63 ? 63 : e + 4)) + 1;
      if (rng.chance(1, 16)) bits = 63;
      uint64_t m = rng.next() & lsbm(bits);
      if (rng.chance(1, 2)) m &= ~lsbm(f.d);
      int64_t x = int64_t(m);
      if (rng.chance(1, 2)) x = -x;
      observe_one_offset(out, f, x, rng, w);
    }
  }
  fclose(out);
  return 0;
}

// Exhaustive decision function, run-length coded: for every residue r modulo m = 2^d one sweep of q over the
// representable hull of q*m + r plus 64 quotients on both sides; a run is cut whenever the answer changes or after
// `chunk` quotients (so TLC can spread the runs over its workers).
static int cmd_observe_runs(const char* path, uint32_t maxbits, int64_t chunk) {
  FILE* out = fopen(path, "w");
  if (!out) return 3;
  vj::W w;
  uint64_t calls = 0;
  for (const Fmt& f : formats()) {
    uint32_t e = f.n + f.d;
    if (e > maxbits || e > 29 || f.type == OffsetType::kAArch32_ADR) continue;
    OffsetFormat of = make_format(f, 0, 0);
    int64_t m = int64_t(1) << f.d;
    int64_t qlim = int64_t(1) << f.n;
    int64_t qlo = (f.kind == 1 ? 0 : (f.kind == 0 ? -(qlim >> 1) : -qlim)) - 64;
    int64_t qhi = (f.kind == 0 ? (qlim >> 1) : qlim) + 64;
    for (int64_t r = 0; r < m; r++) {
      int64_t start = qlo;
      bool cur = false;
      bool have = false;
      for (int64_t q = qlo; q <= qhi + 1; q++) {
        bool ok = false;
        if (q <= qhi) {
          uint64_t word = 0;
          ok = CodeWriterUtils::write_offset(&word, q * m + r, of);
          calls++;
        }
        if (have && (q > qhi || ok != cur || q - start >= chunk)) {
          w.beginObj().kv("run", 1);
          write_fmt(w, f);
          w.kv("m", (long long)m).kv("r", (long long)r).kv("lo", (long long)start).kv("hi", (long long)(q - 1)).kv("ok", cur);
          w.endObj().emit(out);
          start = q;
        }
        cur = ok;
        have = true;
      }
    }
  }
  fclose(out);
  fprintf(stderr, "calls=%llu\n", (unsigned long long)calls);
  return 0;
}

// ---------------------------------------------------------------------------------------------------------
// a64::Assembler driver
// ---------------------------------------------------------------------------------------------------------
static const uint64_t kBase = 0x0000004000000000ull;   // page aligned

struct A64 {
  Environment env{Arch::kAArch64};
  CodeHolder code;
  a64::Assembler a;
  Label origin;      // bound at offset 0: [origin, #off] is a pc-relative reference with displacement off
  A64() {
    code.init(env, kBase);
    code.attach(&a);
    origin = a.new_label();
    a.bind(origin);
  }
  // emits one instruction at offset 0; returns number of 32-bit words (0 on error)
  template<typename... Args>
  size_t emit(bool& err, uint32_t words[4], InstId id, Args&&... args) {
    a.set_offset(0);
    Error e = a.emit(id, std::forward<Args>(args)...);
    err = e != Error::kOk;
    size_t n = err ? 0 : a.offset() / 4;
    const uint8_t* p = a.buffer_data();
    for (size_t i = 0; i < n && i < 4; i++) memcpy(&words[i], p + 4 * i, 4);
    return n;
  }
};

static void write_words(vj::W& w, const uint32_t* words, size_t n) {
  w.key("words").beginArr();
  for (size_t i = 0; i < n; i++) {
    w.beginArr().val((long long)(words[i] & 0xFFFF)).val((long long)(words[i] >> 16)).endArr();
  }
  w.endArr();
}

struct RelInst { const char* name; InstId id; int nops; };

static void observe_rel_one(FILE* out, A64& as, vj::W& w, const char* name, int64_t off) {
  bool err = true;
  uint32_t words[4] = {0, 0, 0, 0};
  size_t n = 0;
  Imm target(uint64_t(kBase) + uint64_t(off));
  std::string s(name);
  if (s == "b") n = as.emit(err, words, a64::Inst::kIdB, target);
  else if (s == "bl") n = as.emit(err, words, a64::Inst::kIdBl, target);
  else if (s == "b.ne") n = as.emit(err, words, BaseInst::compose_arm_inst_id(a64::Inst::kIdB, arm::CondCode::kNE), target);
  else if (s == "cbz") n = as.emit(err, words, a64::Inst::kIdCbz, a64::x(3), target);
  else if (s == "cbnz") n = as.emit(err, words, a64::Inst::kIdCbnz, a64::w(3), target);
  else if (s == "tbz") n = as.emit(err, words, a64::Inst::kIdTbz, a64::x(3), Imm(37), target);
  else if (s == "tbnz") n = as.emit(err, words, a64::Inst::kIdTbnz, a64::w(3), Imm(5), target);
  else if (s == "adr") n = as.emit(err, words, a64::Inst::kIdAdr, a64::x(3), target);
  else if (s == "adrp") n = as.emit(err, words, a64::Inst::kIdAdrp, a64::x(3), target);
  else if (s == "ldr" || s == "ldrw" || s == "ldrsw") {
    // literal loads take a label based memory operand; its offset is 32-bit, other displacements are not observable
    if (off < INT32_MIN || off > INT32_MAX) return;
    a64::Mem m = a64::ptr(as.origin, int32_t(off));
    if (s == "ldr") n = as.emit(err, words, a64::Inst::kIdLdr, a64::x(3), m);
    else if (s == "ldrw") n = as.emit(err, words, a64::Inst::kIdLdr, a64::w(3), m);
    else n = as.emit(err, words, a64::Inst::kIdLdrsw, a64::x(3), m);
  }
  else { fprintf(stderr, "unknown rel inst %s\n", name); exit(3); }
  w.beginObj().kv("k", "rel").kv("inst", name).wide("x", uint64_t(off)).kv("ok", !err);
  write_words(w, words, n);
  w.endObj().emit(out);
}

static int cmd_observe_rel(const char* path, uint64_t nrandom) {
  FILE* out = fopen(path, "w");
  if (!out) return 3;
  vj::install_abort_handlers(out);
  vj::Rng rng(vj::env_seed() + 17);
  vj::W w;
  A64 as;
  struct R { const char* name; uint32_t n, d; };
  const R insts[] = {{"b", 26, 2}, {"bl", 26, 2}, {"b.ne", 19, 2}, {"cbz", 19, 2}, {"cbnz", 19, 2}, {"tbz", 14, 2}, {"tbnz", 14, 2},
                     {"adr", 21, 0}, {"adrp", 21, 12}, {"ldr", 19, 2}, {"ldrw", 19, 2}, {"ldrsw", 19, 2}};
  for (const R& r : insts) {
    uint32_t e = r.n + r.d;
    std::set<int64_t> xs;
    int64_t step = int64_t(1) << r.d;
    add_band(xs, 0, 40);
    for (uint32_t k = 0; k < 62; k++) {
      int64_t p = int64_t(1) << k;
      if (k + 1 == e || k == e) {
        for (int64_t q = -64; q <= 64; q++) { xs.insert(p + q * step); xs.insert(-p + q * step); }
        add_band(xs, p, 8); add_band(xs, -p, 8);
      } else { add_band(xs, p, 2); add_band(xs, -p, 2); }
    }
    if (e <= 16 && std::string(r.name) == "tbz")
      for (int64_t x = -(int64_t(1) << (e - 1)) - 256; x <= (int64_t(1) << (e - 1)) + 256; x++) xs.insert(x);
    for (uint64_t i = 0; i < nrandom; i++) {
      uint32_t bits = uint32_t(rng.below(e + 3)) + 1;
      uint64_t m = rng.next() & lsbm(bits);
      if (rng.chance(3, 4)) m &= ~lsbm(r.d);
      xs.insert(rng.chance(1, 2) ? int64_t(m) : -int64_t(m));
    }
    for (int64_t x : xs) observe_rel_one(out, as, w, r.name, x);
  }
  fclose(out);
  return 0;
}

// ---------------------------------------------------------------------------------------------------------
// add/sub immediates
// ---------------------------------------------------------------------------------------------------------
static void addsub_helper(FILE* out, vj::W& w, uint64_t v) {
  w.beginObj().kv("k", "addsubh").wide("v", v).kv("ok", arm::Utils::is_add_sub_imm(v)).endObj().emit(out);
}

static void addsub_one(FILE* out, vj::W& w, A64& as, const std::string& inst, int x, int sh, uint64_t v) {
  InstId id = inst == "add" ? a64::Inst::kIdAdd : inst == "sub" ? a64::Inst::kIdSub : inst == "adds" ? a64::Inst::kIdAdds :
              inst == "subs" ? a64::Inst::kIdSubs : inst == "cmp" ? a64::Inst::kIdCmp : a64::Inst::kIdCmn;
  bool err; uint32_t words[4] = {0};
  size_t n;
  a64::Gp rd = x ? a64::x(3) : a64::w(3), rn = x ? a64::x(5) : a64::w(5);
  if (inst == "cmp" || inst == "cmn") n = as.emit(err, words, id, rn, Imm(v));
  else if (sh < 0) n = as.emit(err, words, id, rd, rn, Imm(v));
  else n = as.emit(err, words, id, rd, rn, Imm(v), Imm(a64::lsl(uint32_t(sh))));
  w.beginObj().kv("k", "addsub").kv("inst", inst).kv("sf", x).kv("sh", sh).wide("v", v).kv("ok", !err);
  write_words(w, words, n);
  w.endObj().emit(out);
}

static int cmd_observe_addsub(const char* path) {
  FILE* out = fopen(path, "w");
  if (!out) return 3;
  vj::install_abort_handlers(out);
  vj::Rng rng(vj::env_seed() + 31);
  vj::W w;
  A64 as;
  std::set<uint64_t> vs;
  for (uint64_t v = 0; v <= 0x1100; v++) vs.insert(v);                       // all imm12 + band
  for (uint64_t v = 0; v <= 0x1003; v++) { vs.insert(v << 12); vs.insert((v << 12) + 1); vs.insert((v << 12) | 0x800); vs.insert((v << 12) - 1); }
  for (uint32_t k = 0; k < 64; k++) for (int d = -2; d <= 2; d++) vs.insert((uint64_t(1) << k) + uint64_t(int64_t(d)));
  for (uint32_t k = 12; k < 64; k++) { vs.insert(uint64_t(0xFFF) << k); vs.insert((uint64_t(0xFFF) << 12) | (uint64_t(1) << k)); }
  for (int i = 0; i < 2000; i++) vs.insert(rng.next() >> rng.below(64));
  uint64_t cnt = 0;
  for (uint64_t v : vs) {
    addsub_helper(out, w, v);
    bool all = v <= 0x1100 || (cnt++ % 8) == 0;      // every instruction form for the imm12 range, 1/8 of the rest
    for (const char* in : {"add", "sub", "adds", "subs", "cmp", "cmn"})
      for (int x = 0; x <= 1; x++)
        if (all || (std::string(in) == "add" && x == 1)) addsub_one(out, w, as, in, x, -1, v);
  }
  // explicit shift operand: add x3, x5, #imm, lsl #0|#12
  for (uint64_t v = 0; v <= 0x1010; v += (v < 0xFF0 ? 7 : 1))
    for (int sh : {0, 12}) addsub_one(out, w, as, "add", 1, sh, v);
  fclose(out);
  return 0;
}

// ---------------------------------------------------------------------------------------------------------
// bitfield aliases
// ---------------------------------------------------------------------------------------------------------
static void bitfield_one(FILE* out, vj::W& w, A64& as, const std::string& inst, int x, uint32_t a, uint32_t b) {
  struct I { const char* name; InstId id; int ops; };   // ops 1: Rd,Rn,#a  2: Rd,Rn,#a,#b  3: Rd,#a,#b
  static const I insts[] = {{"lsl", a64::Inst::kIdLsl, 1}, {"lsr", a64::Inst::kIdLsr, 1}, {"asr", a64::Inst::kIdAsr, 1}, {"ror", a64::Inst::kIdRor, 1},
                     {"ubfx", a64::Inst::kIdUbfx, 2}, {"sbfx", a64::Inst::kIdSbfx, 2}, {"bfxil", a64::Inst::kIdBfxil, 2},
                     {"ubfiz", a64::Inst::kIdUbfiz, 2}, {"sbfiz", a64::Inst::kIdSbfiz, 2}, {"bfi", a64::Inst::kIdBfi, 2},
                     {"bfc", a64::Inst::kIdBfc, 3},
                     {"ubfm", a64::Inst::kIdUbfm, 2}, {"sbfm", a64::Inst::kIdSbfm, 2}, {"bfm", a64::Inst::kIdBfm, 2}};
  for (const I& in : insts) {
    if (inst != in.name) continue;
    a64::Gp rd = x ? a64::x(3) : a64::w(3), rn = x ? a64::x(5) : a64::w(5);
    bool err; uint32_t words[4] = {0};
    size_t n;
    if (in.ops == 1) n = as.emit(err, words, in.id, rd, rn, Imm(a));
    else if (in.ops == 2) n = as.emit(err, words, in.id, rd, rn, Imm(a), Imm(b));
    else n = as.emit(err, words, in.id, rd, Imm(a), Imm(b));
    w.beginObj().kv("k", "bitfield").kv("inst", in.name).kv("sf", x).kv("a", a).kv("b", b).kv("ok", !err);
    write_words(w, words, n);
    w.endObj().emit(out);
  }
}

static int cmd_observe_bitfield(const char* path) {
  FILE* out = fopen(path, "w");
  if (!out) return 3;
  vj::install_abort_handlers(out);
  vj::W w;
  A64 as;
  for (const char* in : {"lsl", "lsr", "asr", "ror", "ubfx", "sbfx", "bfxil", "ubfiz", "sbfiz", "bfi", "bfc", "ubfm", "sbfm", "bfm"}) {
    bool one = std::string(in) == "lsl" || std::string(in) == "lsr" || std::string(in) == "asr" || std::string(in) == "ror";
    for (int x = 0; x <= 1; x++) {
      uint32_t size = x ? 64 : 32;
      for (uint32_t a = 0; a <= size + 2; a++)
        for (uint32_t b = 0; b <= (one ? 0 : size + 2); b++) bitfield_one(out, w, as, in, x, a, b);
    }
  }
  fclose(out);
  return 0;
}

// ---------------------------------------------------------------------------------------------------------
// feeds
// ---------------------------------------------------------------------------------------------------------
static uint64_t limbs(const vj::Value& v) {
  uint64_t r = 0;
  for (size_t i = 0; i < v.size() && i < 4; i++) r |= uint64_t(v[i].i() & 0xFFFF) << (16 * i);
  return r;
}

static void logical_helper(FILE* out, vj::W& w, uint64_t v, uint32_t width) {
  arm::Utils::LogicalImm li{0, 0, 0};
  bool ok = arm::Utils::encode_logical_imm(v, width, Out(li));
  bool is = arm::Utils::is_logical_imm(v, width);
  w.beginObj().kv("k", "logh").kv("w", width).wide("v", v).kv("ok", ok).kv("is", is)
   .kv("N", ok ? li.n : 0).kv("r", ok ? li.r : 0).kv("s", ok ? li.s : 0).endObj().emit(out);
}

static void logical_asm(FILE* out, vj::W& w, A64& as, uint64_t v, uint32_t width, const char* only = nullptr) {
  struct I { const char* name; InstId id; int form; };  // 0: Rd,Rn,imm  1: Rn,imm (tst)  2: Rd,imm (mov handled by feed mov)
  static const I insts[] = {{"and", a64::Inst::kIdAnd, 0}, {"orr", a64::Inst::kIdOrr, 0}, {"eor", a64::Inst::kIdEor, 0},
                            {"ands", a64::Inst::kIdAnds, 0}, {"tst", a64::Inst::kIdTst, 1}, {"bic", a64::Inst::kIdBic, 0}};
  int x = width == 64;
  a64::Gp rd = x ? a64::x(3) : a64::w(3), rn = x ? a64::x(5) : a64::w(5);
  for (const I& in : insts) {
    if (only && std::string(only) != in.name) continue;
    bool err; uint32_t words[4] = {0};
    size_t n;
    if (in.form == 0) n = as.emit(err, words, in.id, rd, rn, Imm(v));
    else n = as.emit(err, words, in.id, rn, Imm(v));
    w.beginObj().kv("k", "logi").kv("inst", in.name).kv("w", width).wide("v", v).kv("ok", !err);
    write_words(w, words, n);
    w.endObj().emit(out);
  }
}

static int cmd_feed_logical(const char* in, const char* path, uint64_t stride) {
  FILE* out = fopen(path, "w");
  if (!out) return 3;
  vj::install_abort_handlers(out);
  vj::W w;
  A64 as;
  uint64_t cnt = 0;
  for (const vj::Value& rec : vj::read_ndjson(in)) {
    uint32_t width = uint32_t(rec["w"].i());
    uint64_t v = limbs(rec["v"]);
    logical_helper(out, w, v, width);
    logical_asm(out, w, as, v, width);
    for (uint32_t k = 0; k < width; k++) {
      uint64_t nv = v ^ (uint64_t(1) << k);
      logical_helper(out, w, nv, width);
      if (stride && (cnt++ % stride) == 0) logical_asm(out, w, as, nv, width);
    }
  }
  // the two values every element size excludes, and a few structured non-members
  for (uint32_t width : {32u, 64u}) {
    uint64_t all = width == 64 ? ~uint64_t(0) : 0xFFFFFFFFu;
    for (uint64_t v : std::vector<uint64_t>{uint64_t(0), all, uint64_t(0x5), uint64_t(0x0F0F0F0F0F0F0F0Full) & all, uint64_t(0x00FF00FF00FF00F0ull) & all,
                       uint64_t(0x0000000100000001ull) & all, uint64_t(0xAAAAAAAAAAAAAAAAull) & all, uint64_t(0x0123456789ABCDEFull) & all}) {
      logical_helper(out, w, v, width);
      logical_asm(out, w, as, v, width);
    }
  }
  fclose(out);
  return 0;
}

static void fp8_helper(FILE* out, vj::W& w, uint32_t width, uint64_t v) {
  bool ok = width == 16 ? arm::Utils::is_fp16_imm8(uint32_t(v)) : width == 32 ? arm::Utils::is_fp32_imm8(uint32_t(v)) : arm::Utils::is_fp64_imm8(v);
  w.beginObj().kv("k", "fp8h").kv("w", width).wide("v", v).kv("ok", ok);
  if (width == 64) w.kv("imm8", ok ? arm::Utils::encode_fp64_to_imm8(v) : 0u);
  w.endObj().emit(out);
}

static void fmov_all(FILE* out, vj::W& w, A64& as, uint64_t v, const char* only) {
  double d;
  memcpy(&d, &v, 8);
  struct T { const char* name; InstId id; a64::Vec reg; };
  const T ts[] = {{"fmov_d", a64::Inst::kIdFmov_v, a64::d(3)}, {"fmov_s", a64::Inst::kIdFmov_v, a64::s(3)}, {"fmov_h", a64::Inst::kIdFmov_v, a64::h(3)},
                  {"fmov_2d", a64::Inst::kIdFmov_v, a64::v(3).d2()}, {"fmov_4s", a64::Inst::kIdFmov_v, a64::v(3).s4()}, {"fmov_2s", a64::Inst::kIdFmov_v, a64::v(3).s2()},
                  {"fmov_8h", a64::Inst::kIdFmov_v, a64::v(3).h8()}, {"fmov_4h", a64::Inst::kIdFmov_v, a64::v(3).h4()}};
  for (const T& t : ts) {
    if (only && std::string(only) != t.name) continue;
    bool err; uint32_t words[4] = {0};
    size_t n = as.emit(err, words, t.id, t.reg, Imm(d));
    w.beginObj().kv("k", "fmov").kv("inst", t.name).wide("v", v).kv("ok", !err);
    write_words(w, words, n);
    w.endObj().emit(out);
  }
}

static int cmd_feed_fp8(const char* in, const char* path) {
  FILE* out = fopen(path, "w");
  if (!out) return 3;
  vj::install_abort_handlers(out);
  vj::W w;
  A64 as;
  auto helper = [&](uint32_t width, uint64_t v) { fp8_helper(out, w, width, v); };
  auto inst = [&](uint64_t v) { fmov_all(out, w, as, v, nullptr); };
  for (const vj::Value& rec : vj::read_ndjson(in)) {
    uint32_t width = uint32_t(rec["w"].i());
    uint64_t v = limbs(rec["v"]);
    helper(width, v);
    if (width == 64) inst(v);
    for (uint32_t k = 0; k < width; k++) {
      uint64_t nv = v ^ (uint64_t(1) << k);
      helper(width, nv);
      if (width == 64) { fmov_all(out, w, as, nv, "fmov_d"); fmov_all(out, w, as, nv, "fmov_4s"); }
    }
  }
  // zeros, infinities, NaN and denormals have no imm8 encoding
  for (uint64_t v : std::vector<uint64_t>{uint64_t(0), uint64_t(1) << 63, 0x7FF0000000000000ull, 0xFFF0000000000000ull, 0x7FF8000000000000ull, uint64_t(1),
                     0x3FF0000000000001ull, 0x4040000000000000ull /* 32.0 */, 0x3FB0000000000000ull /* 0.0625 */}) {
    helper(64, v); inst(v);
  }
  for (uint64_t v : std::vector<uint64_t>{uint64_t(0), uint64_t(0x80000000u), uint64_t(0x7F800000u), uint64_t(0x42000000u), uint64_t(0x3D800000u)}) helper(32, v);
  for (uint64_t v : std::vector<uint64_t>{uint64_t(0), uint64_t(0x8000u), uint64_t(0x7C00u), uint64_t(0x5000u), uint64_t(0x2C00u)}) helper(16, v);
  fclose(out);
  return 0;
}

static void mov_one(FILE* out, vj::W& w, A64& as, uint64_t v, int x) {
  bool err; uint32_t words[4] = {0};
  size_t n = as.emit(err, words, a64::Inst::kIdMov, x ? a64::x(3) : a64::w(3), Imm(x ? v : (v & 0xFFFFFFFFu)));
  w.beginObj().kv("k", "mov").kv("sf", x).wide("v", x ? v : (v & 0xFFFFFFFFu)).kv("ok", !err);
  write_words(w, words, n);
  w.endObj().emit(out);
}

static int cmd_feed_mov(const char* in, const char* path, uint64_t nrandom) {
  FILE* out = fopen(path, "w");
  if (!out) return 3;
  vj::install_abort_handlers(out);
  vj::Rng rng(vj::env_seed() + 99);
  vj::W w;
  A64 as;
  for (const vj::Value& rec : vj::read_ndjson(in)) {
    uint64_t v = limbs(rec["v"]);
    mov_one(out, w, as, v, 1);
    if ((v >> 32) == 0) mov_one(out, w, as, v, 0);
  }
  for (uint64_t i = 0; i < nrandom; i++) {
    uint64_t v = rng.next();
    // force random lanes to 0x0000 / 0xFFFF half of the time
    for (int l = 0; l < 4; l++) {
      uint64_t c = rng.below(6);
      if (c == 0) v &= ~(uint64_t(0xFFFF) << (16 * l));
      if (c == 1) v |= uint64_t(0xFFFF) << (16 * l);
    }
    mov_one(out, w, as, v, 1);
    mov_one(out, w, as, v, 0);
  }
  fclose(out);
  return 0;
}

// Re-executes recorded observations on the current tree (same inputs, fresh outputs).
static int cmd_replay(const char* in, const char* path) {
  FILE* out = fopen(path, "w");
  if (!out) return 3;
  vj::install_abort_handlers(out);
  vj::W w;
  A64 as;
  std::vector<Fmt> fs = formats();
  for (const vj::Value& rec : vj::read_ndjson(in)) {
    if (rec.has("f")) {
      const vj::Value& f = rec["f"];
      const Fmt* fm = nullptr;
      for (const Fmt& c : fs)
        if (f["t"].s() == c.tname && f["vs"].i() == c.vs && f["n"].i() == c.n && f["sh"].i() == c.sh && f["d"].i() == c.d) { fm = &c; break; }
      if (!fm) { fprintf(stderr, "replay: unknown format\n"); return 3; }
      if (rec.has("run")) {
        OffsetFormat of = make_format(*fm, 0, 0);
        int64_t m = rec["m"].i(), r = rec["r"].i();
        for (int64_t q = rec["lo"].i(); q <= rec["hi"].i(); q++) {     // one run per quotient whose answer differs from the record
          uint64_t word = 0;
          bool ok = CodeWriterUtils::write_offset(&word, q * m + r, of);
          if (ok != rec["ok"].b || q == rec["lo"].i()) {
            w.beginObj().kv("run", 1); write_fmt(w, *fm);
            w.kv("m", (long long)m).kv("r", (long long)r).kv("lo", (long long)q).kv("hi", (long long)q).kv("ok", ok).endObj().emit(out);
          }
        }
        continue;
      }
      uint32_t lead = uint32_t(rec["vo"].i());
      uint8_t before[40] = {0}, after[40];
      size_t m = rec["b"].size();
      for (size_t i = 0; i < m && i < sizeof before; i++) before[i] = uint8_t(rec["b"][i].i());
      memcpy(after, before, sizeof before);
      OffsetFormat of = make_format(*fm, lead, uint32_t(m - 2 - lead - fm->vs));
      int64_t x = int64_t(limbs(rec["x"]));
      bool ok = CodeWriterUtils::write_offset(after, x, of);
      w.beginObj(); write_fmt(w, *fm);
      w.kv("vo", lead).wide("x", uint64_t(x)).bytes("b", before, m).bytes("a", after, m).kv("ok", ok).endObj().emit(out);
      continue;
    }
    std::string k = rec["k"].s();
    uint64_t v = rec.has("v") ? limbs(rec["v"]) : 0;
    if (k == "rel") observe_rel_one(out, as, w, rec["inst"].s().c_str(), int64_t(limbs(rec["x"])));
    else if (k == "logh") logical_helper(out, w, v, uint32_t(rec["w"].i()));
    else if (k == "logi") logical_asm(out, w, as, v, uint32_t(rec["w"].i()), rec["inst"].s().c_str());
    else if (k == "mov") mov_one(out, w, as, v, int(rec["sf"].i()));
    else if (k == "addsubh") addsub_helper(out, w, v);
    else if (k == "addsub") addsub_one(out, w, as, rec["inst"].s(), int(rec["sf"].i()), int(rec["sh"].i()), v);
    else if (k == "fp8h") fp8_helper(out, w, uint32_t(rec["w"].i()), v);
    else if (k == "fmov") fmov_all(out, w, as, v, rec["inst"].s().c_str());
    else if (k == "bitfield") bitfield_one(out, w, as, rec["inst"].s(), int(rec["sf"].i()), uint32_t(rec["a"].i()), uint32_t(rec["b"].i()));
    else { fprintf(stderr, "replay: unknown record kind %s\n", k.c_str()); return 3; }
  }
  fclose(out);
  return 0;
}

// ---------------------------------------------------------------------------------------------------------
int main(int argc, char** argv) {
  std::string c = argc > 1 ? argv[1] : "";
  std::string s = argc > 2 ? argv[2] : "";
  auto num = [&](int i, uint64_t dflt) { return argc > i ? strtoull(argv[i], nullptr, 10) : dflt; };
  if (c == "observe" && s == "offsets" && argc >= 4) return cmd_observe_offsets(argv[3], num(4, 1000));
  if (c == "observe" && s == "runs" && argc >= 4) return cmd_observe_runs(argv[3], uint32_t(num(4, 20)), int64_t(num(5, 1 << 16)));
  if (c == "observe" && s == "rel" && argc >= 4) return cmd_observe_rel(argv[3], num(4, 500));
  if (c == "observe" && s == "addsub" && argc >= 4) return cmd_observe_addsub(argv[3]);
  if (c == "observe" && s == "bitfield" && argc >= 4) return cmd_observe_bitfield(argv[3]);
  if (c == "feed" && s == "logical" && argc >= 5) return cmd_feed_logical(argv[3], argv[4], num(5, 0));
  if (c == "feed" && s == "fp8" && argc >= 5) return cmd_feed_fp8(argv[3], argv[4]);
  if (c == "feed" && s == "mov" && argc >= 5) return cmd_feed_mov(argv[3], argv[4], num(5, 0));
  if (c == "replay" && argc >= 4) return cmd_replay(argv[2], argv[3]);
  fprintf(stderr, "usage: codec observe offsets|runs|rel|addsub|bitfield <out> ... | feed logical|fp8|mov <in> <out> ...\n");
  return 3;
}
