// X07 harness, scalar / memory / register-transfer part (included by uniops.cpp)

static uint64_t mask_of(int sz) { return sz == 8 ? ~0ull : ((1ull << (sz * 8)) - 1); }

static void w_word(vj::W& w, const char* k, uint64_t v, int sz) {
  uint8_t b[8]; memcpy(b, &v, 8); w.bytes(k, b, size_t(sz));
}

// builds, dedupes and executes a scalar case.  `gen` fills the gp slots of the io block for input round k and returns
// false when there is no further input; `rec` writes the observation fields.
static void run_case(Jit& jit, CaseKey ck, const Level& lvl, int vw,
                     const std::function<void(UniCompiler&, x86::Compiler&, const x86::Gp&)>& body,
                     const std::function<void(Io&, vj::Rng&, int)>& gen,
                     const std::function<void(vj::W&, const Io& in, const Io& out)>& rec, int ninputs = -1) {
  g_ncompiled++;
  Built b = jit.build(lvl, vw, body);
  if (!b.fn) {
    emit_fail(ck, b);
    b = jit.build(lvl, vw, body, false);
    if (!b.fn) return;
    ck.var += ck.var.empty() ? "noval" : ",noval";
  }
  std::string id = case_id(ck);
  bool fresh = g_seen[id].insert(b.hash).second;
  emit_variant(ck, b, fresh);
  if (fresh) {
    g_nvariants++;
    int n = ninputs > 0 ? ninputs : (g_quick ? g_inputs_quick : g_inputs_thorough);
    vj::Rng r(vj::env_seed() * 1000003u + fnv(id) + b.hash);
    for (int k = 0; k < n; k++) {
      Io io; memset(io.b, 0xCD, sizeof(io.b));
      for (int i = 0; i < 64; i++) { io.b[kOffMem + i] = uint8_t(r.next()); }
      for (int i = 64; i < 128; i++) { io.b[kOffMem + i] = uint8_t(r.next()); }
      gen(io, r, k);
      Io in = io;
      int sig = run_guarded(b.fn, io.b);
      vj::W w; w.beginObj(); w.kv("t", "obs"); w_key(w, ck);
      w.kv("hash", (long long)b.hash).kv("sig", sig);
      rec(w, in, io);
      w.endObj(); w.emit(g_out); g_nobs++;
    }
  }
  jit.release(b.fn);
}

static uint64_t& slot(Io& io, int i) { return *reinterpret_cast<uint64_t*>(io.b + kOffGp + 8 * i); }
static uint64_t cslot(const Io& io, int i) { uint64_t v; memcpy(&v, io.b + kOffGp + 8 * i, 8); return v; }

static x86::Gp new_gp(UniCompiler& uc, int sz, const char* name) { return sz == 8 ? uc.new_gp64(name) : uc.new_gp32(name); }

// ---------------------------------------------------------------------------------------------------------------------
// UniOpRR / UniOpRRR
// ---------------------------------------------------------------------------------------------------------------------
static void constrain_rrr(const std::string& op, uint64_t& a, uint64_t& b, int sz, bool a_is_b, vj::Rng& r) {
  int bits = sz * 8;
  if (op == "kSll" || op == "kSrl" || op == "kSra" || op == "kRol" || op == "kRor") {
    b = r.below(4) == 0 ? (r.below(2) ? 0 : bits - 1) : r.below(bits);
    if (a_is_b) a = b;
  }
  if (op == "kUDiv" || op == "kUMod") { if ((b & mask_of(sz)) == 0) b = 1 + r.below(1000); if (a_is_b) a = b; }
  if (op == "kSBound") { b &= mask_of(sz) >> 1; if (a_is_b) a = b; }
}

static std::vector<long long> rrr_imms(const std::string& op, int sz) {
  int bits = sz * 8;
  if (op == "kSll" || op == "kSrl" || op == "kSra" || op == "kRol" || op == "kRor") {
    std::vector<long long> v = {0, 1, bits - 1, bits / 2};
    if (!g_quick) { v.push_back(7); v.push_back(8); v.push_back(bits / 2 + 1); v.push_back(bits - 2); }
    return v;
  }
  if (op == "kUDiv" || op == "kUMod") return g_quick ? std::vector<long long>{1, 7, 1000} : std::vector<long long>{1, 2, 3, 7, 255, 256, 1000, 0x7FFFFFFF};
  if (op == "kMul") return g_quick ? std::vector<long long>{0, 1, 2, 3, 5, 9, 8, -1, 1000} : std::vector<long long>{0, 1, 2, 3, 4, 5, 6, 8, 9, 10, 16, -1, -2, 1000, 65536, 0x7FFFFFFF, -2147483647 - 1};
  std::vector<long long> v = {0, 1, -1, 127, 128, -128, 255, 0x7FFFFFFF, -2147483647 - 1};
  if (!g_quick) { v.push_back(-129); v.push_back(256); v.push_back(0x12345678); v.push_back(-0x1234567); v.push_back(65535); }
  if (sz == 4) { v.push_back(0xFFFFFFFFll); v.push_back(0x80000000ll); }
  return v;
}

static void sweep_gp(Jit& jit) {
  // RR
  for (auto& on : kRR) {
    std::string n = on.name;
    if (!g_filter.op.empty() && g_filter.op != n) continue;
    for (auto& lvl : g_glevels) for (int sz : {4, 8}) for (const char* form : {"d,a", "d=a", "am"}) {
      CaseKey ck; ck.k = "rr"; ck.op = n; ck.form = form; ck.lvl = lvl.name; ck.sz = sz;
      std::string f = form;
      auto body = [&](UniCompiler& uc, x86::Compiler& cc, const x86::Gp& io) {
        Scaf s{cc, lvl, io};
        x86::Gp a = new_gp(uc, sz, "a"), d = f == "d=a" ? a : new_gp(uc, sz, "d");
        if (f != "am") s.gload(a, 1);
        if (f != "d=a") s.gload(d, 3);
        if (f == "am") uc.emit_2i(on.op, d, x86::ptr(io, kOffGp + 8, uint32_t(sz)));
        else uc.emit_2i(on.op, d, a);
        s.gstore(0, d);
      };
      auto gen = [&](Io& io, vj::Rng& r, int) { slot(io, 1) = bnd_int(sz, r); slot(io, 3) = r.next(); slot(io, 0) = r.next(); };
      auto rec = [&](vj::W& w, const Io& in, const Io& out) { w_word(w, "a", cslot(in, 1), sz); w_word(w, "out", cslot(out, 0), sz); };
      run_case(jit, ck, lvl, 0, body, gen, rec, g_quick ? 6 : 24);
    }
  }
  // RRR
  for (auto& on : kRRR) {
    std::string n = on.name;
    if (!g_filter.op.empty() && g_filter.op != n) continue;
    std::vector<std::string> forms = {"d,a,b", "d=a", "d=b", "a=b", "all", "bi", "d=a,bi", "bm", "d=a,bm", "am", "d=b,am", "am,bi"};
    if (n == "kSBound") forms = {"d,a,b", "d=a", "d=b", "a=b", "all", "bm", "d=a,bm"};
    for (auto& lvl : g_glevels) for (int sz : {4, 8}) for (auto& f : forms) {
      if (!g_filter.form.empty() && g_filter.form != f) continue;
      bool bi = has(f, "bi");
      std::vector<long long> imms = bi ? rrr_imms(n, sz) : std::vector<long long>{-1};
      for (long long imm : imms) {
        CaseKey ck; ck.k = "rrr"; ck.op = n; ck.form = f; ck.lvl = lvl.name; ck.sz = sz; ck.imm = bi ? imm : -1;
        if (bi) ck.var = "i" + std::to_string(imm);   // the immediate is part of the case identity (imm field is informative only)
        auto body = [&](UniCompiler& uc, x86::Compiler& cc, const x86::Gp& io) {
          Scaf s{cc, lvl, io};
          x86::Gp a = new_gp(uc, sz, "a"), b = new_gp(uc, sz, "b"), d = new_gp(uc, sz, "d");
          bool d_a = f == "d=a" || f == "d=a,bi" || f == "d=a,bm" || f == "all";
          bool d_b = f == "d=b" || f == "d=b,am";
          bool a_b = f == "a=b" || f == "all";
          bool am = has(f, "am"), bm = has(f, "bm");
          if (a_b) b = a;
          if (d_a) d = a;
          if (d_b) d = b;
          if (!am) s.gload(a, 1);
          if (!bm && !bi && !a_b) s.gload(b, 2);
          if (!d_a && !d_b) s.gload(d, 3);
          Operand oa = a, ob = b;
          if (am) oa = x86::ptr(io, kOffGp + 8, uint32_t(sz));
          if (bm) ob = x86::ptr(io, kOffGp + 16, uint32_t(sz));
          if (bi) ob = Imm(imm);
          uc.emit_3i(on.op, d, oa, ob);
          s.gstore(0, d);
        };
        bool a_b = f == "a=b" || f == "all";
        auto gen = [&](Io& io, vj::Rng& r, int) {
          uint64_t a = bnd_int(sz, r), b = bnd_int(sz, r);
          if (bi) b = uint64_t(imm);
          if (a_b) b = a;
          if (!bi) constrain_rrr(n, a, b, sz, a_b, r);
          if (n == "kSBound" && bi) {}
          slot(io, 1) = a; slot(io, 2) = b; slot(io, 3) = r.next(); slot(io, 0) = r.next();
        };
        auto rec = [&](vj::W& w, const Io& in, const Io& out) {
          w_word(w, "a", cslot(in, 1), sz); w_word(w, "b", cslot(in, 2), sz); w_word(w, "out", cslot(out, 0), sz);
        };
        run_case(jit, ck, lvl, 0, body, gen, rec, bi ? (g_quick ? 3 : 8) : (g_quick ? 6 : 24));
      }
    }
  }
}

// ---------------------------------------------------------------------------------------------------------------------
// UniCondition: every documented constructor x { branch, cmov, select } x { register, immediate, memory } second operand
// ---------------------------------------------------------------------------------------------------------------------
struct Ctor { const char* name; UniOpCond op; x86::CondCode cc; bool one_arg; };
static const Ctor kCtors[] = {
  {"and_z", UniOpCond::kAssignAnd, x86::CondCode::kZero, false}, {"and_nz", UniOpCond::kAssignAnd, x86::CondCode::kNotZero, false},
  {"or_z", UniOpCond::kAssignOr, x86::CondCode::kZero, false}, {"or_nz", UniOpCond::kAssignOr, x86::CondCode::kNotZero, false},
  {"xor_z", UniOpCond::kAssignXor, x86::CondCode::kZero, false}, {"xor_nz", UniOpCond::kAssignXor, x86::CondCode::kNotZero, false},
  {"add_z", UniOpCond::kAssignAdd, x86::CondCode::kZero, false}, {"add_nz", UniOpCond::kAssignAdd, x86::CondCode::kNotZero, false},
  {"add_c", UniOpCond::kAssignAdd, x86::CondCode::kCarry, false}, {"add_nc", UniOpCond::kAssignAdd, x86::CondCode::kNotCarry, false},
  {"add_s", UniOpCond::kAssignAdd, x86::CondCode::kSign, false}, {"add_ns", UniOpCond::kAssignAdd, x86::CondCode::kNotSign, false},
  {"sub_z", UniOpCond::kAssignSub, x86::CondCode::kZero, false}, {"sub_nz", UniOpCond::kAssignSub, x86::CondCode::kNotZero, false},
  {"sub_c", UniOpCond::kAssignSub, x86::CondCode::kUnsignedLT, false}, {"sub_nc", UniOpCond::kAssignSub, x86::CondCode::kUnsignedGE, false},
  {"sub_s", UniOpCond::kAssignSub, x86::CondCode::kSign, false}, {"sub_ns", UniOpCond::kAssignSub, x86::CondCode::kNotSign, false},
  {"sub_ugt", UniOpCond::kAssignSub, x86::CondCode::kUnsignedGT, false},
  {"shr_z", UniOpCond::kAssignShr, x86::CondCode::kZero, false}, {"shr_nz", UniOpCond::kAssignShr, x86::CondCode::kNotZero, false},
  {"cmp_eq", UniOpCond::kCompare, x86::CondCode::kEqual, false}, {"cmp_ne", UniOpCond::kCompare, x86::CondCode::kNotEqual, false},
  {"scmp_lt", UniOpCond::kCompare, x86::CondCode::kSignedLT, false}, {"scmp_le", UniOpCond::kCompare, x86::CondCode::kSignedLE, false},
  {"scmp_gt", UniOpCond::kCompare, x86::CondCode::kSignedGT, false}, {"scmp_ge", UniOpCond::kCompare, x86::CondCode::kSignedGE, false},
  {"ucmp_lt", UniOpCond::kCompare, x86::CondCode::kUnsignedLT, false}, {"ucmp_le", UniOpCond::kCompare, x86::CondCode::kUnsignedLE, false},
  {"ucmp_gt", UniOpCond::kCompare, x86::CondCode::kUnsignedGT, false}, {"ucmp_ge", UniOpCond::kCompare, x86::CondCode::kUnsignedGE, false},
  {"test_z", UniOpCond::kTest, x86::CondCode::kZero, false}, {"test_nz", UniOpCond::kTest, x86::CondCode::kNotZero, false},
  {"test_z1", UniOpCond::kCompare, x86::CondCode::kEqual, true}, {"test_nz1", UniOpCond::kCompare, x86::CondCode::kNotEqual, true},
  {"bt_z", UniOpCond::kBitTest, x86::CondCode::kBTZero, false}, {"bt_nz", UniOpCond::kBitTest, x86::CondCode::kBTNotZero, false},
};

static void sweep_cond(Jit& jit) {
  // the scalar feature levels do not matter for conditions (no gate predicate): first and last level only
  std::vector<const Level*> lv = { &g_glevels.front(), &g_glevels.back() };
  for (auto& ct : kCtors) {
    std::string n = ct.name;
    if (!g_filter.op.empty() && g_filter.op != n) continue;
    bool count = n == "shr_z" || n == "shr_nz" || n == "bt_z" || n == "bt_nz";
    for (const Level* lp : lv) for (int sz : {4, 8}) for (const char* var : {"j", "cmov", "cmov_m", "select", "select_ii", "select_ri", "select_ir", "select_mm", "select_d=t", "select_d=f"})
    for (const char* bf : {"r", "i", "m", "same"}) {
      const Level& lvl = *lp;
      std::string v = var, b_form = bf;
      if (ct.one_arg && b_form != "r") continue;
      std::vector<long long> imms = {-1};
      if (b_form == "i") {
        if (count) imms = {0, 1, 7, 8, sz * 8 - 1};
        else imms = g_quick ? std::vector<long long>{0, 1, -1, 255, 0x7FFFFFFF} : std::vector<long long>{0, 1, -1, 127, 128, 255, 256, -128, 65535, 0x7FFFFFFF, -2147483647 - 1};
      }
      for (long long imm : imms) {
        CaseKey ck; ck.k = "cond"; ck.op = n; ck.form = b_form; ck.lvl = lvl.name; ck.sz = sz; ck.cc = v; ck.imm = imm;
        if (b_form == "i") ck.var = "i" + std::to_string(imm);
        const long long TV = 0x1234567, FV = -0x7654321;
        auto body = [&](UniCompiler& uc, x86::Compiler& cc, const x86::Gp& io) {
          Scaf s{cc, lvl, io};
          x86::Gp a = new_gp(uc, sz, "a"), b = new_gp(uc, sz, "b"), res = new_gp(uc, sz, "res");
          s.gload(a, 1);
          Operand ob = b;
          if (b_form == "same") ob = a;
          else if (b_form == "r") s.gload(b, 2);
          else if (b_form == "i") ob = Imm(imm);
          else ob = x86::ptr(io, kOffGp + 16, uint32_t(sz));
          if (ct.one_arg) ob = Imm(0);
          UniCondition cond(ct.op, ct.cc, a, ob);
          if (v == "j") {
            Label done = uc.new_label();
            uc.mov(res, Imm(TV));
            uc.j(done, cond);
            uc.mov(res, Imm(FV));
            uc.bind(done);
          }
          else if (v == "cmov" || v == "cmov_m") {
            x86::Gp t = new_gp(uc, sz, "t");
            uc.mov(res, Imm(FV));
            if (v == "cmov") { uc.mov(t, Imm(TV)); uc.cmov(res, t, cond); }
            else { cc.mov(t, Imm(TV)); s.gstore(5, t); uc.cmov(res, x86::ptr(io, kOffGp + 40, uint32_t(sz)), cond); }
          }
          else {
            x86::Gp t = new_gp(uc, sz, "t"), fl = new_gp(uc, sz, "f");
            cc.mov(t, Imm(TV)); cc.mov(fl, Imm(FV));
            if (v == "select") uc.select(res, t, fl, cond);
            else if (v == "select_ii") uc.select(res, Imm(TV), Imm(FV), cond);
            else if (v == "select_ri") uc.select(res, t, Imm(FV), cond);
            else if (v == "select_ir") uc.select(res, Imm(TV), fl, cond);
            else if (v == "select_mm") { s.gstore(5, t); s.gstore(6, fl); uc.select(res, x86::ptr(io, kOffGp + 40, uint32_t(sz)), x86::ptr(io, kOffGp + 48, uint32_t(sz)), cond); }
            else if (v == "select_d=t") { uc.select(t, t, fl, cond); cc.mov(res, t); }
            else { uc.select(fl, t, fl, cond); cc.mov(res, fl); }
          }
          s.gstore(0, a);
          s.gstore(4, res);
        };
        auto gen = [&](Io& io, vj::Rng& r, int k) {
          uint64_t a = bnd_int(sz, r), b = bnd_int(sz, r);
          if (k % 3 == 1) b = a;                       // equal operands
          if (k % 3 == 2) b = (~a + 1) & mask_of(sz);  // a + b = 0 with carry
          if (count) b = r.below(sz * 8);
          if (count && k == 0) b = 0;
          if (b_form == "i") b = uint64_t(imm);
          if (b_form == "same") { if (count) a = r.below(sz * 8); b = a; }
          if (ct.one_arg) { b = 0; if (k % 2) a = 0; }
          slot(io, 1) = a; slot(io, 2) = b; slot(io, 0) = r.next(); slot(io, 4) = r.next();
        };
        auto rec = [&](vj::W& w, const Io& in, const Io& out) {
          w.kv("ctor", n);
          w_word(w, "a", cslot(in, 1), sz); w_word(w, "b", cslot(in, 2), sz);
          w_word(w, "aout", cslot(out, 0), sz); w_word(w, "res", cslot(out, 4), sz);
          w_word(w, "tv", uint64_t(TV), sz); w_word(w, "fv", uint64_t(FV), sz);
          uint64_t res = cslot(out, 4) & mask_of(sz);
          w.kv("taken", res == (uint64_t(TV) & mask_of(sz)) ? 1 : res == (uint64_t(FV) & mask_of(sz)) ? 0 : 2);
          // a shift by a zero count held in a register leaves the x86 flags untouched (see KNOWN findings)
          if ((n == "shr_z" || n == "shr_nz") && b_form != "i" && (cslot(in, 2) & mask_of(sz)) == 0) w.kv("tag", "count0");
        };
        run_case(jit, ck, lvl, 0, body, gen, rec, g_quick ? 6 : 18);
      }
    }
  }
}

// ---------------------------------------------------------------------------------------------------------------------
// memory operations: UniOpM / UniOpRM / UniOpMR (scalar), UniOpVM / UniOpMV / UniOpVR (vector <-> memory / register)
// ---------------------------------------------------------------------------------------------------------------------
static void sweep_mem(Jit& jit) {
  const int G = kMemGuard;   // the operand lives G bytes into the 128-byte memory area
  const Level& g0 = g_glevels.front();
  for (auto& on : kM) {
    std::string n = on.name;
    if (!g_filter.op.empty() && g_filter.op != n) continue;
    CaseKey ck; ck.k = "m"; ck.op = n; ck.form = "m"; ck.lvl = g0.name;
    auto body = [&](UniCompiler& uc, x86::Compiler&, const x86::Gp& io) { uc.emit_m(on.op, x86::ptr(io, kOffMem + G)); };
    auto gen = [&](Io&, vj::Rng&, int) {};
    auto rec = [&](vj::W& w, const Io& in, const Io& out) { w.bytes("m", in.b + kOffMem, 96); w.kv("g", G); w.bytes("out", out.b + kOffMem, 96); };
    run_case(jit, ck, g0, 0, body, gen, rec, 3);
  }
  for (auto& on : kRM) {
    std::string n = on.name;
    if (!g_filter.op.empty() && g_filter.op != n) continue;
    for (int sz : {4, 8}) {
      if ((n == "kLoadI64" || n == "kLoadU64") && sz == 4) continue;
      CaseKey ck; ck.k = "rm"; ck.op = n; ck.form = "r,m"; ck.lvl = g0.name; ck.sz = sz;
      auto body = [&](UniCompiler& uc, x86::Compiler& cc, const x86::Gp& io) {
        Scaf s{cc, g0, io};
        x86::Gp d = new_gp(uc, sz, "d");
        s.gload(d, 3);
        uc.emit_rm(on.op, d, x86::ptr(io, kOffMem + G));
        // the whole native register is stored: extension to the register width is part of the contract
        cc.mov(x86::ptr(io, kOffGp, uint32_t(sz)), d);
      };
      auto gen = [&](Io& io, vj::Rng& r, int) { uint64_t v = bnd_int(8, r); if (r.below(2)) v |= 0x8080808080808080ull; memcpy(io.b + kOffMem + G, &v, 8); slot(io, 3) = r.next(); };
      auto rec = [&](vj::W& w, const Io& in, const Io& out) { w_word(w, "d0", cslot(in, 3), sz); w.bytes("m", in.b + kOffMem + G, 8); w_word(w, "out", cslot(out, 0), sz); };
      run_case(jit, ck, g0, 0, body, gen, rec, g_quick ? 6 : 16);
    }
  }
  for (auto& on : kMR) {
    std::string n = on.name;
    if (!g_filter.op.empty() && g_filter.op != n) continue;
    for (int sz : {4, 8}) {
      if ((n == "kStoreU64" || n == "kAddU64") && sz == 4) continue;
      CaseKey ck; ck.k = "mr"; ck.op = n; ck.form = "m,r"; ck.lvl = g0.name; ck.sz = sz;
      auto body = [&](UniCompiler& uc, x86::Compiler& cc, const x86::Gp& io) {
        Scaf s{cc, g0, io};
        x86::Gp a = new_gp(uc, sz, "a");
        s.gload(a, 1);
        uc.emit_mr(on.op, x86::ptr(io, kOffMem + G), a);
      };
      auto gen = [&](Io& io, vj::Rng& r, int) { slot(io, 1) = bnd_int(sz, r); uint64_t v = bnd_int(8, r); memcpy(io.b + kOffMem + G, &v, 8); };
      auto rec = [&](vj::W& w, const Io& in, const Io& out) { w_word(w, "a", cslot(in, 1), sz); w.bytes("m", in.b + kOffMem, 96); w.kv("g", G); w.bytes("out", out.b + kOffMem, 96); };
      run_case(jit, ck, g0, 0, body, gen, rec, g_quick ? 6 : 16);
    }
  }

  // ---- UniOpVM ----
  for (auto& on : kVM) {
    std::string n = on.name;
    if (!g_filter.op.empty() && g_filter.op != n) continue;
    // smallest destination width (bytes) the operation needs
    int need = 16;
    {
      int a1 = 0, a2 = 0, a3 = 0;
      if (sscanf(n.c_str(), "kLoad%d", &a1) == 1 && !starts(n, "kLoadCvt") && !starts(n, "kLoadInsert") && !starts(n, "kLoadN")) need = std::max(16, a1 / 8);
      char t1, t2;
      if (sscanf(n.c_str(), "kLoadCvt%d_%c%dTo%c%d", &a1, &t1, &a2, &t2, &a3) == 5) need = std::max(16, a1 / 8 * a3 / a2);
    }
    std::vector<int> idxs = {-1};
    if (starts(n, "kLoadInsert")) {
      int cnt = n == "kLoadInsertU8" ? 16 : n == "kLoadInsertU16" ? 8 : (n == "kLoadInsertU32" || n == "kLoadInsertF32") ? 4 : 2;
      idxs = {0, 1, cnt - 1};
      if (!g_quick) for (int i = 2; i < cnt - 1; i += (cnt > 8 ? 3 : 1)) idxs.push_back(i);
      std::sort(idxs.begin(), idxs.end()); idxs.erase(std::unique(idxs.begin(), idxs.end()), idxs.end());
    }
    for (auto& lvl : g_vlevels) {
      if (!g_filter.lvl.empty() && g_filter.lvl != lvl.name) continue;
      for (int w = 0; w <= lvl.maxw; w++) {
        if ((16 << w) < need) continue;
        for (int al : {0, 1}) for (int idx : idxs) {
          CaseKey ck; ck.k = "vm"; ck.op = n; ck.form = al ? "u" : "a"; ck.lvl = lvl.name; ck.w = w; ck.idx = idx;
          int off = kOffMem + G + (al ? 1 : 0) + (al ? 0 : 32);   // aligned: +64 within the area (64-byte aligned), unaligned: +33
          auto body = [&](UniCompiler& uc, x86::Compiler& cc, const x86::Gp& io) {
            Scaf s{cc, lvl, io};
            x86::Vec d = uc.new_vec_with_width(VecWidth(w), "d");
            s.vload(d, kOffD0);
            uc.emit_vm(on.op, d, x86::ptr(io, off), Alignment(al ? 1 : 0), idx < 0 ? 0u : uint32_t(idx));
            s.vstore(kOffDst, d);
          };
          auto gen = [&](Io& io, vj::Rng& r, int) {
            for (int i = 0; i < 64; i += 8) { uint64_t v = bnd_int(r.below(2) ? 1 : 4, r) * 0x0101010101010101ull ^ (r.below(3) ? r.next() : 0); memcpy(io.b + off + i, &v, 8); }
            fill_vec(io.b + kOffD0, 4, 'x', r);
          };
          auto rec = [&](vj::W& wr, const Io& in, const Io& out) {
            int W = 16 << w;
            wr.bytes("m", in.b + off, 64); wr.bytes("d0", in.b + kOffD0, W); wr.bytes("out", out.b + kOffDst, W);
          };
          run_case(jit, ck, lvl, w, body, gen, rec);
        }
      }
    }
  }

  // ---- UniOpMV ----
  for (auto& on : kMV) {
    std::string n = on.name;
    if (!g_filter.op.empty() && g_filter.op != n) continue;
    int need = 16, a1 = 0;
    if (sscanf(n.c_str(), "kStore%d", &a1) == 1 && !starts(n, "kStoreExtract") && !starts(n, "kStoreN")) need = std::max(16, a1 / 8);
    std::vector<int> idxs = {-1};
    if (starts(n, "kStoreExtract")) {
      int cnt = n == "kStoreExtractU16" ? 8 : n == "kStoreExtractU32" ? 4 : 2;
      for (int i = 0; i < cnt; i++) idxs.push_back(i);
      idxs.erase(idxs.begin());
    }
    for (auto& lvl : g_vlevels) {
      if (!g_filter.lvl.empty() && g_filter.lvl != lvl.name) continue;
      for (int w = 0; w <= lvl.maxw; w++) {
        if ((16 << w) < need) continue;
        for (int al : {0, 1}) for (int idx : idxs) {
          CaseKey ck; ck.k = "mv"; ck.op = n; ck.form = al ? "u" : "a"; ck.lvl = lvl.name; ck.w = w; ck.idx = idx;
          // the area is 128 bytes at kOffMem (64-byte aligned): aligned stores go to +0 (guards are the neighbours D0 / below),
          // so the recorded window is [kOffMem-32, kOffMem+96); unaligned stores go to +1
          int g = 32 + (al ? 1 : 0);
          int off = kOffMem + (al ? 1 : 0);
          auto body = [&](UniCompiler& uc, x86::Compiler& cc, const x86::Gp& io) {
            Scaf s{cc, lvl, io};
            x86::Vec a = uc.new_vec_with_width(VecWidth(w), "a");
            s.vload(a, kOffA);
            uc.emit_mv(on.op, x86::ptr(io, off), a, Alignment(al ? 1 : 0), idx < 0 ? 0u : uint32_t(idx));
          };
          auto gen = [&](Io& io, vj::Rng& r, int) { fill_vec(io.b + kOffA, 4, 'x', r); for (int i = -32; i < 96; i++) io.b[kOffMem + i] = uint8_t(r.next()); };
          auto rec = [&](vj::W& wr, const Io& in, const Io& out) {
            int W = 16 << w;
            wr.bytes("a", in.b + kOffA, W); wr.bytes("m", in.b + kOffMem - 32, 128); wr.kv("g", g); wr.bytes("out", out.b + kOffMem - 32, 128);
          };
          run_case(jit, ck, lvl, w, body, gen, rec);
        }
      }
    }
  }

  // ---- UniOpVR ----
  for (auto& on : kVR) {
    std::string n = on.name;
    if (!g_filter.op.empty() && g_filter.op != n) continue;
    bool ins = starts(n, "kInsert"), ext = starts(n, "kExtract"), i2f = starts(n, "kCvtIntTo"), f2i = starts(n, "kCvtTrunc") || starts(n, "kCvtRound");
    std::vector<std::string> dirs;
    if (n == "kMov" || n == "kMovU32" || n == "kMovU64") dirs = {"g2v", "v2g"};
    else if (ins || i2f) dirs = {"g2v"};
    else dirs = {"v2g"};
    int lane = has(n, "U8") ? 1 : has(n, "U16") ? 2 : has(n, "U32") ? 4 : 8;
    std::vector<int> idxs = {-1};
    if (ins || ext) { idxs.clear(); int cnt = 16 / lane; idxs = {0, 1, cnt - 1}; if (!g_quick) for (int i = 2; i < cnt - 1; i += (cnt > 8 ? 3 : 1)) idxs.push_back(i);
      std::sort(idxs.begin(), idxs.end()); idxs.erase(std::unique(idxs.begin(), idxs.end()), idxs.end()); }
    for (auto& lvl : g_vlevels) {
      if (!g_filter.lvl.empty() && g_filter.lvl != lvl.name) continue;
      for (int w = 0; w <= lvl.maxw; w++) for (auto& dir : dirs) for (int sz : {4, 8}) for (int idx : idxs) for (const char* sf : {"r", "m"}) {
        std::string srcf = sf;
        if (srcf == "m" && !(i2f || f2i)) continue;
        if ((n == "kMovU64" || n == "kInsertU64" || n == "kExtractU64") && sz == 4) continue;
        CaseKey ck; ck.k = "vr"; ck.op = n; ck.form = dir + "," + srcf; ck.lvl = lvl.name; ck.w = w; ck.idx = idx; ck.sz = sz;
        char fcls = has(n, "F32") ? 'V' : 'V';
        int flane = has(n, "F32") ? 4 : 8;
        auto body = [&](UniCompiler& uc, x86::Compiler& cc, const x86::Gp& io) {
          Scaf s{cc, lvl, io};
          x86::Gp g = new_gp(uc, sz, "g");
          x86::Vec v = uc.new_vec_with_width(VecWidth(w), "v");
          uint32_t ix = idx < 0 ? 0u : uint32_t(idx);
          if (dir == "g2v") {
            s.vload(v, kOffD0);
            if (srcf == "m") uc.emit_2vs(on.op, v, x86::ptr(io, kOffGp + 8, uint32_t(sz)), ix);
            else { s.gload(g, 1); uc.emit_2vs(on.op, v, g, ix); }
            s.vstore(kOffDst, v);
          }
          else {
            s.gload(g, 3);
            if (srcf == "m") uc.emit_2vs(on.op, g, x86::ptr(io, kOffA, uint32_t(flane)), ix);
            else { s.vload(v, kOffA); uc.emit_2vs(on.op, g, v, ix); }
            s.gstore(0, g);
          }
        };
        auto gen = [&](Io& io, vj::Rng& r, int) {
          slot(io, 1) = bnd_int(sz, r); slot(io, 3) = r.next(); slot(io, 0) = r.next();
          fill_vec(io.b + kOffD0, 4, 'x', r);
          if (f2i) fill_vec(io.b + kOffA, flane, fcls, r); else fill_vec(io.b + kOffA, lane, 'i', r);
          if (f2i && sz == 8 && r.below(2)) {
            // values beyond the 32-bit range for 64-bit destinations
            double d = double(int64_t(r.next() >> r.below(40)) ) * (r.below(2) ? 1.0 : -1.0) / double(1u << r.below(4));
            if (flane == 4) { float f = float(d); memcpy(io.b + kOffA, &f, 4); } else memcpy(io.b + kOffA, &d, 8);
          }
        };
        auto rec = [&](vj::W& wr, const Io& in, const Io& out) {
          int W = 16 << w;
          wr.kv("dir", dir);
          if (dir == "g2v") { w_word(wr, "g", cslot(in, 1), sz); wr.bytes("d0", in.b + kOffD0, W); wr.bytes("out", out.b + kOffDst, W); }
          else { wr.bytes("a", in.b + kOffA, W); w_word(wr, "out", cslot(out, 0), sz); }
        };
        run_case(jit, ck, lvl, w, body, gen, rec);
      }
    }
  }
}

// ---------------------------------------------------------------------------------------------------------------------
// helpers of unicompiler.h
// ---------------------------------------------------------------------------------------------------------------------
static void sweep_misc(Jit& jit) {
  const Level& g0 = g_glevels.front();
  struct H { const char* name; int nsrc; };
  for (int sz : {4, 8}) {
    for (const char* form : {"d,a,b", "d=a", "d=b", "all"}) {
      std::string f = form;
      // adds_u8
      {
        CaseKey ck; ck.k = "help"; ck.op = "adds_u8"; ck.form = f; ck.lvl = g0.name; ck.sz = sz;
        auto body = [&](UniCompiler& uc, x86::Compiler& cc, const x86::Gp& io) {
          Scaf s{cc, g0, io};
          x86::Gp a = new_gp(uc, sz, "a"), b = new_gp(uc, sz, "b"), d = new_gp(uc, sz, "d");
          if (f == "all") { b = a; d = a; } else if (f == "d=a") d = a; else if (f == "d=b") d = b;
          s.gload(a, 1); if (f != "all") s.gload(b, 2);
          if (f == "d,a,b") s.gload(d, 3);
          uc.adds_u8(d, a, b);
          s.gstore(0, d);
        };
        auto gen = [&](Io& io, vj::Rng& r, int k) { uint64_t a = k == 0 ? 200 : k == 1 ? 255 : r.below(256), b = k == 0 ? 100 : k == 1 ? 255 : r.below(256); if (f == "all") b = a; slot(io, 1) = a; slot(io, 2) = b; slot(io, 3) = r.next(); };
        auto rec = [&](vj::W& w, const Io& in, const Io& out) { w_word(w, "a", cslot(in, 1), sz); w_word(w, "b", cslot(in, 2), sz); w_word(w, "out", cslot(out, 0), sz); };
        run_case(jit, ck, g0, 0, body, gen, rec, 12);
      }
      if (f == "d=b" || f == "all") continue;
      // one-source helpers
      for (const char* hn : {"inv_u8", "div_255_u32", "mul_257_hu16"}) {
        std::string h = hn;
        CaseKey ck; ck.k = "help"; ck.op = h; ck.form = f == "d,a,b" ? "d,a" : "d=a"; ck.lvl = g0.name; ck.sz = sz;
        auto body = [&](UniCompiler& uc, x86::Compiler& cc, const x86::Gp& io) {
          Scaf s{cc, g0, io};
          x86::Gp a = new_gp(uc, sz, "a"), d = f == "d=a" ? a : new_gp(uc, sz, "d");
          s.gload(a, 1); if (f != "d=a") s.gload(d, 3);
          if (h == "inv_u8") uc.inv_u8(d, a); else if (h == "div_255_u32") uc.div_255_u32(d, a); else uc.mul_257_hu16(d, a);
          s.gstore(0, d);
        };
        auto gen = [&](Io& io, vj::Rng& r, int) {
          uint64_t a = h == "inv_u8" ? bnd_int(sz, r) : h == "div_255_u32" ? r.below(65026) : r.below(65536);
          slot(io, 1) = a; slot(io, 3) = r.next();
        };
        auto rec = [&](vj::W& w, const Io& in, const Io& out) { w_word(w, "a", cslot(in, 1), sz); w_word(w, "out", cslot(out, 0), sz); };
        run_case(jit, ck, g0, 0, body, gen, rec, 12);
      }
    }
    // add_scaled(dst, a, b): dst += a * b
    for (int sc : {1, 2, 3, 4, 5, 8, 9, 12, -3}) {
      CaseKey ck; ck.k = "help"; ck.op = "add_scaled"; ck.form = "d,a"; ck.lvl = g0.name; ck.sz = sz; ck.var = "s" + std::to_string(sc);
      auto body = [&](UniCompiler& uc, x86::Compiler& cc, const x86::Gp& io) {
        Scaf s{cc, g0, io};
        x86::Gp a = new_gp(uc, sz, "a"), d = new_gp(uc, sz, "d");
        s.gload(a, 1); s.gload(d, 3);
        uc.add_scaled(d, a, sc);
        s.gstore(0, d);
      };
      auto gen = [&](Io& io, vj::Rng& r, int) { slot(io, 1) = bnd_int(sz, r); slot(io, 3) = bnd_int(sz, r); slot(io, 2) = uint64_t(int64_t(sc)); };
      auto rec = [&](vj::W& w, const Io& in, const Io& out) { w_word(w, "a", cslot(in, 1), sz); w_word(w, "b", cslot(in, 2), sz); w_word(w, "d0", cslot(in, 3), sz); w_word(w, "out", cslot(out, 0), sz); };
      run_case(jit, ck, g0, 0, body, gen, rec, 6);
    }
    // add_ext(dst, src, idx, scale, disp): dst = src + idx * scale + disp
    for (uint32_t sc : {1u, 2u, 3u, 4u, 5u, 8u, 9u, 12u}) for (int disp : {0, 16, -5}) for (const char* form : {"d,a,i", "d=a", "d=i", "a=i"}) {
      std::string f = form;
      CaseKey ck; ck.k = "help"; ck.op = "add_ext"; ck.form = f; ck.lvl = g0.name; ck.sz = sz; ck.var = "s" + std::to_string(sc) + "d" + std::to_string(disp);
      auto body = [&](UniCompiler& uc, x86::Compiler& cc, const x86::Gp& io) {
        Scaf s{cc, g0, io};
        x86::Gp a = new_gp(uc, sz, "a"), i = new_gp(uc, sz, "i"), d = new_gp(uc, sz, "d");
        if (f == "a=i") i = a;
        if (f == "d=a") d = a;
        if (f == "d=i") d = i;
        s.gload(a, 1); if (f != "a=i") s.gload(i, 2);
        if (f == "d,a,i" || f == "a=i") s.gload(d, 3);
        uc.add_ext(d, a, i, sc, disp);
        s.gstore(0, d);
      };
      auto gen = [&](Io& io, vj::Rng& r, int) {
        uint64_t a = bnd_int(sz, r), i = bnd_int(sz, r); if (f == "a=i") i = a;
        slot(io, 1) = a; slot(io, 2) = i; slot(io, 3) = uint64_t(int64_t(disp)); slot(io, 5) = sc;
      };
      auto rec = [&](vj::W& w, const Io& in, const Io& out) {
        w_word(w, "a", cslot(in, 1), sz); w_word(w, "b", cslot(in, 2), sz); w_word(w, "c", cslot(in, 5), sz); w_word(w, "d0", cslot(in, 3), sz); w_word(w, "out", cslot(out, 0), sz);
      };
      run_case(jit, ck, g0, 0, body, gen, rec, 5);
    }
  }
}

// ---------------------------------------------------------------------------------------------------------------------
// OpArray / VecArray (ujitbase.h): construction from n operands and the sub-array selectors
// ---------------------------------------------------------------------------------------------------------------------
static void sweep_oparray() {
  auto emit = [&](const char* op, int n, int arg, const OpArray& r) {
    vj::W w; w.beginObj(); w.kv("t", "obs").kv("k", "oparr").kv("op", op).kv("form", "").kv("w", 16).kv("lvl", "").kv("imm", -1).kv("idx", -1).kv("sz", 0).kv("sig", 0);
    w.kv("n", n).kv("arg", arg).kv("size", (long long)r.size());
    w.key("out").beginArr();
    for (size_t i = 0; i < r.size(); i++) w.val((long long)r.v[i].as<Imm>().value());      // the operands are the immediates 1..n
    w.endArr();
    w.endObj(); w.emit(g_out); g_nobs++;
  };
  Imm o[9]; for (int i = 0; i < 9; i++) o[i] = Imm(i);
  for (int n = 1; n <= 8; n++) {
    OpArray a = n == 1 ? OpArray(o[1]) : n == 2 ? OpArray(o[1], o[2]) : n == 3 ? OpArray(o[1], o[2], o[3]) : n == 4 ? OpArray(o[1], o[2], o[3], o[4]) :
                n == 5 ? OpArray(o[1], o[2], o[3], o[4], o[5]) : n == 6 ? OpArray(o[1], o[2], o[3], o[4], o[5], o[6]) :
                n == 7 ? OpArray(o[1], o[2], o[3], o[4], o[5], o[6], o[7]) : OpArray(o[1], o[2], o[3], o[4], o[5], o[6], o[7], o[8]);
    // selectors are applied to an array whose size is set independently of the constructor under test
    OpArray b; b.init(&o[1], size_t(n));
    emit("ctor", n, 0, a);
    emit("init", n, 0, b);
    emit("lo", n, 0, b.lo());
    emit("half", n, 0, b.half());
    emit("even", n, 0, b.even());
    if (n > 1) { emit("hi", n, 0, b.hi()); emit("odd", n, 0, b.odd()); emit("even_odd", n, 0, b.even_odd(0)); emit("even_odd", n, 1, b.even_odd(1)); }
    for (int k = 1; k <= 4; k++) emit("every_nth", n, k, b.every_nth(size_t(k)));
  }
}

// ---------------------------------------------------------------------------------------------------------------------
// the constant table: every p_<hex> constant is the 64-bit pattern its name says, repeated
// ---------------------------------------------------------------------------------------------------------------------
static void sweep_consts() {
  const VecConstTable& ct = vec_const_table;
  struct C { const char* name; const void* p; size_t n; };
#define K(x) { #x, &ct.x, sizeof(ct.x) }
  const C cs[] = {
    K(p_0000000000000000), K(p_FFFFFFFFFFFFFFFF), K(p_8080808080808080), K(p_8000800080008000), K(p_8000000080000000), K(p_8000000000000000),
    K(p_7F7F7F7F7F7F7F7F), K(p_7FFF7FFF7FFF7FFF), K(p_7FFFFFFF7FFFFFFF), K(p_7FFFFFFFFFFFFFFF), K(p_0100010001000100), K(p_00FF00FF00FF00FF),
    K(p_0F0F0F0F0F0F0F0F), K(p_1010101010101010), K(p_FFFFFFFF00000000), K(p_0000800000008000),
    K(sign32_scalar), K(sign64_scalar), K(f32_0_5_minus_1ulp), K(f32_0_5), K(f32_1), K(f32_round_magic), K(f64_0_5_minus_1ulp), K(f64_0_5), K(f64_1), K(f64_round_magic),
  };
#undef K
  for (auto& c : cs) {
    vj::W w; w.beginObj(); w.kv("t", "obs").kv("k", "const").kv("op", c.name).kv("form", "").kv("w", 16).kv("lvl", "").kv("imm", -1).kv("idx", -1).kv("sz", 0).kv("sig", 0);
    std::string nm = c.name;
    w.key("nib").beginArr();
    if (starts(nm, "p_")) for (size_t i = 2; i < nm.size(); i++) { char ch = nm[i]; w.val(int(ch <= '9' ? ch - '0' : ch - 'A' + 10)); }
    w.endArr();
    w.bytes("out", static_cast<const uint8_t*>(c.p), c.n);
    w.kv("align", (long long)(uintptr_t(c.p) % 64));
    w.endObj(); w.emit(g_out); g_nobs++;
  }
}
