// C13 harness: validator / encoder / ISA database agreement (pointwise observations, judged by TLC with spec/isa/Validate.tla).
//
//   instforms x86   <forms.ndjson> <out.ndjson> <quick|thorough> [<shard> <nshards>]
//        for every exported row of db/isa_x86.json (tools/db_export_x86.js) x {64,32}-bit mode: a fixed, seed-independent list of
//        REPRESENTATIVE instantiations (instance number n, see instance()) in the modes the row allows (kind "base"), one
//        instantiation in a mode the row excludes (kind "xmode") and near-miss mutations of instance 0 (kind "nm", what = ...).
//        Each request is executed three times on fresh holders:  InstAPI::validate(ValidationFlags::kNone)  /  Assembler::emit with
//        DiagnosticOptions::kValidateAssembler  /  Assembler::emit without it; the three answers are logged, nothing is judged here.
//   instforms a64   <cases.ndjson> <out.ndjson>      the same three legs for AArch64 cases (descriptors of lib_a64forms.h, generated
//                                                    by checks/c13.py from the rows exported by tools/db_export_a64.js)
//   instforms names <out.ndjson> [<aliases.txt>]     id -> name -> id2 -> name2 for every instruction id of both architectures, the
//                                                    aliases ("alias canonical" per line) and probes for unknown names
//   instforms replay <in.ndjson> <out.ndjson>        re-executes recorded x86 / a64 observations on the current tree
//
// Instance numbering is part of the vendored key set (data/accepted_forms_*.json): never renumber, only append.
#include "lib_x86forms.h"
#include "lib_a64forms.h"
#include <map>
#include <set>

using namespace asmjit;
using x86forms::Form; using x86forms::FOp; using x86forms::Inst; using x86forms::Opd;

// ---------------------------------------------------------------------------------------------------------------------
// execution: three legs
// ---------------------------------------------------------------------------------------------------------------------
struct Leg { std::string err; std::vector<uint8_t> bytes; };
static bool g_emitter_legs = true;
struct EmAns { int em, diag, log, pos; std::string err; };
struct Answer { std::string validate; Leg on, off; bool known = true; std::vector<EmAns> ev; };

static std::string ename(Error e) { return e == Error::kOk ? std::string("Ok") : std::string(DebugUtils::error_as_string(e)); }

// operand descriptor -> operand; labels (operand kind 'l', or memory with base type "label") are created on the emitter `e`:
// fwd = 0 the label is bound right before the instruction, fwd = 1 it is bound right after it (returned in `pending`)
static bool make_operands(BaseEmitter& e, const Inst& in, Operand_* ops, std::vector<Label>& pending, Error& lerr) {
  for (size_t j = 0; j < in.ops.size(); j++) {
    const Opd& o = in.ops[j];
    bool labelMem = o.t == 'm' && o.bt == "label";
    if (o.t == 'l' || labelMem) {
      Label L = e.new_label();
      if (labelMem ? o.b != 0 : o.fwd != 0) pending.push_back(L);      // (a label memory operand carries the state in its unused base id: the request format has no other place)
      else { Error be = e.bind(L); if (be != Error::kOk) lerr = be; }
      if (labelMem) { x86::Mem m = x86::ptr(L, int32_t(o.d)); m.set_size(uint32_t(o.sz)); ops[j] = m; }
      else ops[j] = L;
    }
    else if (!x86forms::build_operand(o, ops[j])) return false;
  }
  return true;
}

// emit on any emitter; "accepted" = emit Ok AND binding the forward labels afterwards Ok
static std::string emit_on(BaseEmitter& e, const Inst& in, InstId id) {
  Operand_ ops[6];
  std::vector<Label> pending; Error lerr = Error::kOk;
  if (!make_operands(e, in, ops, pending, lerr)) return "HarnessOperand";
  e.set_inst_options(x86forms::inst_options(in));
  if (in.k) e.set_extra_reg(x86::k(in.k)); else e.reset_extra_reg();
  Error err = e.emit_op_array(id, ops, in.ops.size());
  e.reset_inst_options(); e.reset_extra_reg();
  std::string res = ename(err);
  for (const Label& L : pending) {
    Error be = e.bind(L);
    if (err == Error::kOk && be != Error::kOk) res = std::string("BindFailed:") + ename(be);
  }
  if (err == Error::kOk && lerr != Error::kOk) res = std::string("BindFailed:") + ename(lerr);
  return res;
}

static Leg x86_emit(const Inst& in, InstId id, bool validation) {
  Leg leg;
  Environment env(in.m == 64 ? Arch::kX64 : Arch::kX86);
  CodeHolder code;
  if (code.init(env) != Error::kOk) { leg.err = "HarnessInitFailed"; return leg; }
  x86::Assembler a(&code);
  if (validation) a.add_diagnostic_options(DiagnosticOptions::kValidateAssembler);
  // the instruction bytes: from the offset after the backward labels were bound to the offset before the forward labels are bound
  Operand_ ops[6];
  std::vector<Label> pending; Error lerr = Error::kOk;
  if (!make_operands(a, in, ops, pending, lerr)) { leg.err = "HarnessOperand"; return leg; }
  a.set_inst_options(x86forms::inst_options(in));
  if (in.k) a.set_extra_reg(x86::k(in.k)); else a.reset_extra_reg();
  size_t before = a.offset();
  Error e = a.emit_op_array(id, ops, in.ops.size());
  size_t after = a.offset();
  leg.err = ename(e);
  for (const Label& L : pending) {
    Error be = a.bind(L);
    if (e == Error::kOk && be != Error::kOk) leg.err = std::string("BindFailed:") + ename(be);
  }
  const uint8_t* p = code.text_section()->buffer().data();
  for (size_t x = before; x < after; x++) leg.bytes.push_back(p[x]);
  return leg;
}

// ---------------------------------------------------------------------------------------------------------------------
// emitter-integrated validation: the same request on a real Assembler / Builder / Compiler with a subset of
// {kValidateAssembler = 1, kValidateIntermediate = 2}, with / without logger, as the 1st / 2nd / 100th instruction or right
// before the code buffer has to grow (pos = -1)
// ---------------------------------------------------------------------------------------------------------------------
struct EmCfg { int em; int diag; int log; int pos; };     // em: 0 assembler, 1 builder, 2 compiler
static const char* kEmNames[] = {"asm", "builder", "compiler"};
static const uint8_t g_fill[1 << 16] = {0};

static std::string emitter_leg(const Inst& in, InstId id, const EmCfg& c) {
  Environment env(in.m == 64 ? Arch::kX64 : Arch::kX86);
  CodeHolder code;
  if (code.init(env) != Error::kOk) return "HarnessInitFailed";
  StringLogger logger;
  if (c.log) code.set_logger(&logger);
  DiagnosticOptions d = DiagnosticOptions::kNone;
  if (c.diag & 1) d |= DiagnosticOptions::kValidateAssembler;
  if (c.diag & 2) d |= DiagnosticOptions::kValidateIntermediate;
  x86::Assembler a; x86::Builder b; x86::Compiler cc;
  BaseEmitter* e = c.em == 0 ? static_cast<BaseEmitter*>(&a) : c.em == 1 ? static_cast<BaseEmitter*>(&b) : static_cast<BaseEmitter*>(&cc);
  if (code.attach(e) != Error::kOk) return "HarnessAttachFailed";
  e->add_diagnostic_options(d);
  int before = c.pos > 0 ? c.pos - 1 : 1;
  for (int k = 0; k < before; k++) if (e->emit(x86::Inst::kIdNop) != Error::kOk) return "HarnessNopFailed";
  if (c.pos < 0 && c.em == 0) {            // fill the buffer so that fewer than 16 bytes remain: the next instruction makes it grow
    size_t cap = code.text_section()->buffer().capacity(), off = a.offset();
    if (cap > off + 8 && cap - off - 8 <= sizeof(g_fill)) a.embed(g_fill, cap - off - 8);
  }
  return emit_on(*e, in, id);
}

static Answer x86_execute(const Inst& in) {
  Answer r;
  Arch arch = in.m == 64 ? Arch::kX64 : Arch::kX86;
  InstId id = InstAPI::string_to_inst_id(arch, in.n.c_str(), in.n.size());
  if (id == BaseInst::kIdNone || in.ops.size() > 6) {
    r.known = false; r.validate = r.on.err = r.off.err = "UnknownInstructionName";
    return r;
  }
  {   // leg 1: the validator alone
    Environment env(arch); CodeHolder code; code.init(env);
    x86::Assembler la(&code);
    Operand_ ops[6];
    std::vector<Label> pending; Error lerr = Error::kOk;
    make_operands(la, in, ops, pending, lerr);
    BaseInst bi(id, x86forms::inst_options(in));
    if (in.k) bi.set_extra_reg(x86::k(in.k));
    r.validate = ename(InstAPI::validate(arch, bi, ops, in.ops.size(), ValidationFlags::kNone));
  }
  r.on = x86_emit(in, id, true);
  r.off = x86_emit(in, id, false);
  // emitter legs: every request that validate or the encoder refuses, and every 8th of the others, on two configurations
  // that rotate through all combinations (emitter x option subset x logger x position)
  static unsigned long counter = 0, rot = 0;
  counter++;
  if (g_emitter_legs && (r.validate != "Ok" || r.off.err != "Ok" || counter % 8 == 0)) {
    static std::vector<EmCfg> all;
    if (all.empty()) {
      for (int em = 0; em < 3; em++) for (int dg = 0; dg < 4; dg++) for (int lg = 0; lg < 2; lg++) for (int pos : {1, 2, 100, -1}) {
        if (em != 0 && (pos == -1)) continue;                 // buffer growth only exists for the assembler
        if (em != 0 && !(dg & 2)) continue;                   // a Builder / Compiler without kValidateIntermediate makes no claim
        if (em == 0 && dg == 0) continue;                     // = the plain leg
        all.push_back(EmCfg{em, dg, lg, pos});
      }
    }
    for (int k = 0; k < 2; k++) {
      const EmCfg& c = all[(rot++ * 7) % all.size()];
      r.ev.push_back(EmAns{c.em, c.diag, c.log, c.pos, emitter_leg(in, id, c)});
    }
  }
  return r;
}

static void write_ev(vj::W& w, const Answer& a) {
  w.key("ev").beginArr();
  for (const EmAns& e : a.ev) w.beginObj().kv("em", kEmNames[e.em]).kv("d", e.diag).kv("lg", e.log).kv("pos", e.pos).kv("e", e.err).endObj();
  w.endArr();
}

static void write_leg(vj::W& w, const char* k, const Leg& l) {
  w.key(k).beginObj().kv("e", l.err);
  w.key("b").beginArr(); for (uint8_t x : l.bytes) w.val(int(x)); w.endArr();
  w.endObj();
}

// ---------------------------------------------------------------------------------------------------------------------
// x86: representative instantiation
// ---------------------------------------------------------------------------------------------------------------------
struct Row { Form f; std::string ops_s, ext, why; bool apx = false, avx102 = false; };

static std::vector<Row> load_rows(const char* path) {
  std::vector<Form> forms = x86forms::load_forms(path);
  std::vector<vj::Value> raw = vj::read_ndjson(path);
  std::vector<Row> rows;
  for (size_t i = 0; i < forms.size(); i++) {
    Row r; r.f = forms[i];
    r.ops_s = raw[i]["ops_s"].s(); r.ext = raw[i]["ext"].s(); r.why = raw[i]["why"].s();
    r.apx = r.ext.find("APX_F") != std::string::npos || r.why.find("APX") != std::string::npos;
    r.avx102 = r.ext.find("AVX10_2") != std::string::npos;
    rows.push_back(r);
  }
  return rows;
}

static bool is_vec(const std::string& c) { return c == "xmm" || c == "ymm" || c == "zmm"; }

// register id for operand position j in id-set s (0 = set A, 1 = set B, 2.. = thorough sets); ids every mode / encoding has
static int pick_id(const std::string& c, int mode, size_t j, int s, bool evexRow) {
  static const int gpA[] = {1, 2, 3, 6, 7, 0}, gpB[] = {3, 6, 1, 2, 0, 7};
  static const int gp8[] = {1, 2, 3, 0};                                       // cl dl bl al: exist without REX in every mode
  static const int hi64[] = {8, 12, 15, 9, 13, 10};
  static const int v16[] = {16, 24, 31, 17, 20, 29};
  if (c == "gpb") { if (s >= 2 && mode == 64) return hi64[(j + s) % 6]; return gp8[(j + s) % 4]; }
  if (c == "gph") return (int(j) + s) % 4;
  if (c == "gpw" || c == "gpd" || c == "gpq") {
    if (s >= 2 && mode == 64) return hi64[(j + s) % 6];
    return (s % 2 ? gpB : gpA)[(j + size_t(s / 2)) % 6];
  }
  if (is_vec(c)) {
    if (s >= 4 && mode == 64 && evexRow) return v16[(j + s) % 6];
    if (s >= 2 && mode == 64) return hi64[(j + s) % 6];
    return 1 + int((j + 3 * size_t(s)) % 6);                                    // 1..6 (7 is kept for a VSIB index)
  }
  if (c == "mm" || c == "st" || c == "tmm") return 1 + int((j + s) % 6);
  if (c == "k") return 1 + int((j + 2 * s) % 6);
  if (c == "sreg") { static const int sr[] = {4, 5, 0, 3}; return sr[(j + s) % 4]; }
  if (c == "creg") { static const int cr[] = {0, 2, 3, 4}; return cr[(j + s) % 4]; }
  if (c == "dreg") { static const int dr[] = {1, 2, 3, 6, 7, 0}; return dr[(j + s) % 6]; }
  if (c == "bnd") return int((j + s) % 4);
  return 0;
}

static int64_t pick_imm(int bits, int s) {
  if (s % 2 == 0) return 1;
  switch (bits) { case 4: return 3; case 8: return 0x11; case 16: return 0x1111; case 32: return 0x11111111; default: return 0x1111111111111111ll; }
}

// One request for row r in `mode`: `kinds` = 'r' | 'm' | 'i' | 'l' per row operand, idset s, omitImp = pass explicit operands only.
static bool build_instance(const Row& row, int mode, const std::vector<char>& kinds, int s, bool omitImp, Inst& ob) {
  const Form& f = row.f;
  ob = Inst(); ob.f = f.id; ob.n = f.name; ob.m = mode;
  std::string nat = mode == 64 ? "gpq" : "gpd";
  for (size_t j = 0; j < f.ops.size(); j++) {
    const FOp& fo = f.ops[j];
    if (fo.imp && omitImp) continue;
    if (fo.pair) {                                  // k, k+1: an even / odd pair
      Opd o = x86forms::R("k", 1);
      for (Opd& p : ob.ops) if (p.t == 'r' && p.c == "k") { p.id &= ~1; o.id = p.id | 1; break; }
      ob.ops.push_back(o); continue;
    }
    switch (kinds[j]) {
      case 'r': {
        std::string c = fo.regs[0];                                              // gpb before gph; fixed registers carry their class
        ob.ops.push_back(x86forms::R(c.c_str(), fo.fixed >= 0 ? fo.fixed : pick_id(c, mode, j, s, f.pk == "E")));
        break;
      }
      case 'i': ob.ops.push_back(x86forms::I(fo.iconst >= 0 ? fo.iconst : pick_imm(fo.ibits, s))); break;
      case 'l': { Opd o; o.t = 'l'; ob.ops.push_back(o); break; }
      case 'm': {
        Opd o; o.t = 'm'; o.sz = fo.msz > 0 ? fo.msz : 0;
        if (fo.fld == "moff") { o.d = 0x1234; }
        else if (!fo.memreg.empty()) { o.bt = nat; o.b = fo.memreg == "zdi" ? 7 : fo.memreg == "zsi" ? 6 : 0; }
        else if (!fo.vsib.empty()) { o.bt = nat; o.b = 3; o.it = fo.vsib; o.i = 7; o.sh = s % 2 ? 2 : 0; o.d = s % 2 ? 0x40 : 0; }
        else if (fo.fld == "rm") {
          o.bt = nat; o.b = s % 2 ? 6 : 3; o.d = 0x40;
          if (s % 2) { o.it = nat; o.i = 1; o.sh = 2; o.d = 0x100; }
        } else { o.bt = nat; o.b = 3; }
        ob.ops.push_back(o);
        break;
      }
      default: return false;
    }
  }
  return true;
}

static const int kAddrFirst = 23, kAddrCount = 162;
static const int64_t kAddrValues[9] = {0x1000, 0x7FFFFFFF, 0x80000000ll, 0xFFFFF000ll, 0xFFFFFFFFll, 0x100000000ll, 0x1122334455667788ll,
                                       int64_t(0x8000000000000000ull), -1};

// instance n of a variant (see header comment).  Returns false when the row has no such instance.
static bool instance(const Row& row, int mode, const std::vector<char>& kinds, int n, Inst& ob) {
  const Form& f = row.f;
  bool anyImp = false, hasMem = false; int rmMem = -1, firstMem = -1;
  for (size_t j = 0; j < f.ops.size(); j++) {
    if (f.ops[j].imp) anyImp = true;
    if (kinds[j] == 'm') { hasMem = true; if (firstMem < 0) firstMem = int(j); if (f.ops[j].fld == "rm") rmMem = int(j); }
  }
  bool lockable = f.lock && rmMem >= 0;
  switch (n) {
    case 0: return build_instance(row, mode, kinds, 0, false, ob);
    case 1: return build_instance(row, mode, kinds, 1, anyImp, ob);
    case 2: if (!f.k) return false; build_instance(row, mode, kinds, 0, false, ob); ob.k = 1; return true;
    case 3: if (!f.k || !f.z || kinds.empty() || kinds[0] == 'm') return false;      // zeroing-masking needs a register destination (SDM 2.7: EVEX.z with a memory destination is #UD)
            build_instance(row, mode, kinds, 1, false, ob); ob.k = 2; ob.z = 1; return true;
    case 4: if (hasMem || !(f.er || f.sae)) return false; build_instance(row, mode, kinds, 0, false, ob); if (f.er) ob.er = 1; else ob.sae = 1; return true;
    case 5: {
      if (rmMem < 0 || f.ops[rmMem].bcst <= 0 || f.ops[rmMem].msz <= 0) return false;
      build_instance(row, mode, kinds, 0, false, ob);
      size_t at = 0; for (int j = 0; j < rmMem; j++) at++;                       // no implicit operands precede in EVEX rows
      Opd& o = ob.ops[at];
      o.bc = (f.ops[rmMem].msz * 8) / f.ops[rmMem].bcst; o.sz = f.ops[rmMem].bcst / 8;
      return o.bc >= 2;
    }
    case 6: if (!lockable) return false; build_instance(row, mode, kinds, 0, false, ob); ob.opt |= x86forms::O_LOCK; return true;
    case 7: if (!f.rep) return false; build_instance(row, mode, kinds, 0, false, ob); ob.opt |= x86forms::O_REP; return true;
    case 8: if (!f.repne) return false; build_instance(row, mode, kinds, 0, false, ob); ob.opt |= x86forms::O_REPNE; return true;
    case 9: if (!f.xacq || !lockable) return false; build_instance(row, mode, kinds, 0, false, ob); ob.opt |= x86forms::O_LOCK | x86forms::O_XACQ; return true;
    case 10: if (!f.xrel || rmMem < 0) return false; build_instance(row, mode, kinds, 0, false, ob); ob.opt |= (f.lock ? x86forms::O_LOCK : 0) | x86forms::O_XREL; return true;
    case 11: return build_instance(row, mode, kinds, 3, false, ob);
    // label state as a dimension: 16 label not bound yet (bound right after the instruction), 17 the same + short_(), 18 bound label + short_(),
    // 19 bound label + long_(), 20 unbound label + long_(); 21 / 22 the ModRM memory operand as [label] with the label bound before / after
    case 16: case 17: case 18: case 19: case 20: {
      bool hasLabel = false; for (char k : kinds) if (k == 'l') hasLabel = true;
      if (!hasLabel) return false;
      build_instance(row, mode, kinds, 0, false, ob);
      for (Opd& o : ob.ops) if (o.t == 'l') o.fwd = (n == 16 || n == 17 || n == 20) ? 1 : 0;
      if (n == 17 || n == 18) ob.opt |= x86forms::O_SHORT;
      if (n == 19 || n == 20) ob.opt |= x86forms::O_LONG;
      return true;
    }
    case 21: case 22: {
      if (rmMem < 0 || !f.ops[rmMem].vsib.empty()) return false;
      build_instance(row, mode, kinds, 0, false, ob);
      Opd& o = ob.ops[rmMem];
      o.bt = "label"; o.b = n == 22 ? 1 : 0; o.it = ""; o.i = 0; o.sh = 0; o.d = 0;
      return true;
    }
    default:
      if (n >= 12 && n <= 15) return build_instance(row, mode, kinds, n - 10, n == 13 && anyImp, ob);     // id sets 2..5 (r8.., xmm16.. for EVEX rows)
      if (n >= kAddrFirst && n < kAddrFirst + kAddrCount) {
        // absolute address as a dimension: instance = kAddrFirst + ((shape * 2 + seg) * 3 + addrtype) * 9 + value
        //   value 0..8 = kAddrValues; addrtype 0 default 1 abs 2 rel; seg 0 none 1 fs:; shape 0 [abs] 1 [abs + native index*2] 2 [abs + 32-bit index*2] (64-bit mode)
        int memJ = -1;
        for (size_t j = 0; j < f.ops.size(); j++)
          if (kinds[j] == 'm' && f.ops[j].memreg.empty() && f.ops[j].vsib.empty() && (f.ops[j].fld == "rm" || f.ops[j].fld == "moff")) memJ = int(j);
        if (memJ < 0) return false;
        int c = n - kAddrFirst, vi = c % 9, at = (c / 9) % 3, sg = (c / 27) % 2, shape = c / 54;
        int64_t v = kAddrValues[vi];
        if (mode == 32 && (v > 0xFFFFFFFFll || v < -0x80000000ll)) return false;
        if (shape == 2 && mode != 64) return false;
        if (shape != 0 && f.ops[memJ].fld == "moff") return false;
        build_instance(row, mode, kinds, 0, false, ob);
        Opd& o = ob.ops[memJ];
        o.bt = ""; o.b = 0; o.it = ""; o.i = 0; o.sh = 0; o.d = v; o.at = at; o.sg = sg ? 5 : 0;
        if (shape) { o.it = shape == 2 ? "gpd" : (mode == 64 ? "gpq" : "gpd"); o.i = 1; o.sh = 1; }
        return true;
      }
      return false;
  }
}

static const int kQuickInstances[] = {0, 1, 2, 3, 4, 5, 6, 7, 8, 9, 10, 16, 17, 18, 19, 20, 21, 22};
static const int kThoroughInstances[] = {0, 1, 2, 3, 4, 5, 6, 7, 8, 9, 10, 11, 12, 13, 14, 15, 16, 17, 18, 19, 20, 21, 22};

static std::string next_class(const std::string& c, bool up, int mode) {
  if (c == "gpb") return up ? "gpw" : "";
  if (c == "gpw") return up ? "gpd" : "gpb";
  if (c == "gpd") return up ? (mode == 64 ? "gpq" : "") : "gpw";
  if (c == "gpq") return up ? "" : "gpd";
  if (c == "xmm") return up ? "ymm" : "";
  if (c == "ymm") return up ? "zmm" : "xmm";
  if (c == "zmm") return up ? "" : "ymm";
  return "";
}
static int next_msz(int sz, bool up) {
  static const int S[] = {1, 2, 4, 8, 16, 32, 64};
  for (int j = 0; j < 7; j++) if (S[j] == sz) { int k = up ? j + 1 : j - 1; return k >= 0 && k < 7 ? S[k] : 0; }
  return 0;
}

struct Sink {
  FILE* f; long n = 0;
  void put(const Row& row, const Inst& in, const char* kind, const std::string& what, const std::string& var, int inst) {
    Answer a = x86_execute(in);
    vj::W w;
    w.beginObj();
    w.kv("a", "x86");
    x86forms::write_request(w, in);
    w.kv("kind", kind).kv("what", what).kv("var", var).kv("ix", inst).kv("sig", row.ops_s).kv("mb", row.f.arch);
    w.kv("known", a.known).kv("v", a.validate);
    write_leg(w, "on", a.on); write_leg(w, "off", a.off); write_ev(w, a);
    w.endObj();
    w.emit(f);
    n++;
  }
};

static void sweep_row(const Row& row, bool thorough, Sink& out) {
  const Form& f = row.f;
  size_t nops = f.ops.size();
  std::vector<std::vector<char>> alts(nops);
  size_t combos = 1;
  for (size_t j = 0; j < nops; j++) {
    const FOp& fo = f.ops[j];
    if (fo.pair) alts[j] = {'p'};
    else if (fo.ibits || fo.iconst >= 0) alts[j] = {'i'};
    else if (fo.rbits) alts[j] = {'l'};
    else {
      if (!fo.regs.empty()) alts[j].push_back('r');
      if (fo.msz >= 0) alts[j].push_back('m');
    }
    if (alts[j].empty()) return;                 // operand notation the exporter does not understand: listed as not covered by the check
    combos *= alts[j].size();
  }
  for (size_t cix = 0; cix < combos && cix < 8; cix++) {
    std::vector<char> kinds(nops);
    size_t x = cix; int nmem = 0;
    for (size_t j = 0; j < nops; j++) { kinds[j] = alts[j][x % alts[j].size()]; x /= alts[j].size(); if (kinds[j] == 'm' && f.ops[j].memreg.empty()) nmem++; }
    if (nmem > 1) continue;                       // at most one ModRM memory operand
    std::string var(kinds.begin(), kinds.end());
    for (int mode : {64, 32}) {
      bool allowed = f.arch == "ANY" || (f.arch == "X64" && mode == 64) || (f.arch == "X86" && mode == 32);
      Inst ob;
      if (!allowed) {
        if (instance(row, mode, kinds, 0, ob)) out.put(row, ob, "xmode", "", var, 0);
        continue;
      }
      const int* L = thorough ? kThoroughInstances : kQuickInstances;
      size_t LN = thorough ? sizeof(kThoroughInstances) / sizeof(int) : sizeof(kQuickInstances) / sizeof(int);
      for (size_t q = 0; q < LN; q++)
        if (instance(row, mode, kinds, L[q], ob)) out.put(row, ob, "base", "", var, L[q]);
      {  // absolute addresses: every combination for the moffs rows and for mov / lea / add, a rotating sample (quick 6, thorough 24) for the other rows
        bool moff = false; for (const FOp& fo : f.ops) if (fo.fld == "moff") moff = true;
        bool all = moff || f.name == "mov" || f.name == "lea" || f.name == "add";
        int take = all ? kAddrCount : (thorough ? 24 : 6);
        for (int k = 0; k < take; k++) {
          int n = kAddrFirst + (all ? k : int((size_t(f.id) * 31 + size_t(cix) * 7 + size_t(k) * 29 + (mode == 64 ? 0 : 13)) % kAddrCount));
          if (instance(row, mode, kinds, n, ob)) out.put(row, ob, "base", "", var, n);
        }
      }
      // ---- near misses of instance 0 ----
      Inst b0;
      if (!instance(row, mode, kinds, 0, b0)) continue;
      bool vecForm = f.pk != "L";
      bool hasMem = false; int memAt = -1;
      for (size_t j = 0; j < b0.ops.size(); j++) { if (b0.ops[j].t == 'r' && is_vec(b0.ops[j].c)) vecForm = true; if (b0.ops[j].t == 'm') { hasMem = true; memAt = int(j); } }
      size_t lim = std::min<size_t>(b0.ops.size(), 3);
      for (size_t j = 0; j < lim; j++) {
        for (int up = 1; up >= (j == 0 || thorough ? 0 : 1); up--) {
          Inst m = b0; Opd& o = m.ops[j];
          if (o.t == 'r') { std::string c = next_class(o.c, up != 0, mode); if (c.empty()) continue; if (c == "gpb" && o.id > 3) continue; o.c = c; }
          else if (o.t == 'm' && o.sz > 0 && !o.bc) { int s = next_msz(o.sz, up != 0); if (!s) continue; o.sz = s; }
          else continue;
          out.put(row, m, "nm", std::string("size-") + (up ? "up" : "down") + ":op" + std::to_string(j), var, 0);
        }
      }
      if (cix == 0 && !b0.ops.empty()) {          // the request without any operand (a form only for rows whose operands are all implicit)
        Inst m = b0; m.ops.clear();
        out.put(row, m, "nm", "no-operands", var, 0);
      }
      if (b0.ops.size() >= 2) {
        Inst m = b0; std::swap(m.ops[0], m.ops[1]);
        const Opd &p = b0.ops[0], &q = b0.ops[1];
        bool same = p.t == q.t && p.c == q.c && p.sz == q.sz && p.t != 'm';
        if (!same) out.put(row, m, "nm", "swap01", var, 0);
      }
      if (!f.k) { Inst m = b0; m.k = 1; out.put(row, m, "nm", "k", var, 0); }
      if (vecForm) {
        if (!f.z) { Inst m = b0; m.k = 1; m.z = 1; out.put(row, m, "nm", "z", var, 0); }
        if (!f.er && !hasMem) { Inst m = b0; m.er = 1; out.put(row, m, "nm", "er", var, 0); }
        if (!f.er && !f.sae && !hasMem) { Inst m = b0; m.sae = 1; out.put(row, m, "nm", "sae", var, 0); }
        if (f.er && hasMem) { Inst m = b0; m.er = 1; out.put(row, m, "nm", "er-with-memory", var, 0); }
        if (memAt >= 0 && b0.ops[memAt].sz >= 16 && b0.ops[memAt].it.size() != 3) {
          const FOp* fo = nullptr; size_t at = 0;
          for (size_t j = 0; j < nops; j++) { if (int(at) == memAt) { fo = &f.ops[j]; break; } at++; }
          if (fo && fo->bcst == 0) { Inst m = b0; Opd& o = m.ops[memAt]; o.bc = o.sz / 4; o.sz = 4; out.put(row, m, "nm", "bcst", var, 0); }
        }
      }
      if (f.pk == "L") {
        bool op0mem = !b0.ops.empty() && b0.ops[0].t == 'm';
        if (f.lock && !hasMem) { Inst m = b0; m.opt |= x86forms::O_LOCK; out.put(row, m, "nm", "lock-register-form", var, 0); }
        if (!f.lock) { Inst m = b0; m.opt |= x86forms::O_LOCK; out.put(row, m, "nm", op0mem ? "lock-not-lockable-mem" : "lock-not-lockable", var, 0); }
        if (!f.rep && !f.repne) { Inst m = b0; m.opt |= x86forms::O_REP; out.put(row, m, "nm", "rep", var, 0); }
      }
    }
  }
}

// ---------------------------------------------------------------------------------------------------------------------
// a64
// ---------------------------------------------------------------------------------------------------------------------
struct ErrH : public ErrorHandler { void handle_error(Error, const char*, BaseEmitter*) override {} };

static Leg a64_emit(const a64forms::Built& bo, bool validation) {
  Leg leg;
  Environment env(Arch::kAArch64);
  CodeHolder code;
  if (code.init(env, a64forms::kBase) != Error::kOk) { leg.err = "HarnessInitFailed"; return leg; }
  a64::Assembler a(&code);
  if (validation) a.add_diagnostic_options(DiagnosticOptions::kValidateAssembler);
  size_t before = a.offset();
  Error e = a.emit_op_array(bo.inst_id, bo.ops, bo.n);
  size_t after = a.offset();
  leg.err = ename(e);
  const uint8_t* p = code.text_section()->buffer().data();
  for (size_t x = before; x < after && x < before + 32; x++) leg.bytes.push_back(p[x]);
  return leg;
}

static void a64_one(const std::string& line, FILE* out) {
  vj::Value c = vj::parse(line);
  a64forms::Built bo;
  bool built = a64forms::build(c, bo);
  Answer r;
  if (!built || bo.inst_id == 0) { r.known = false; r.validate = r.on.err = r.off.err = built ? "UnknownInstructionName" : "NotBuilt"; }
  else {
    BaseInst bi(bo.inst_id);
    r.validate = ename(InstAPI::validate(Arch::kAArch64, bi, bo.ops, bo.n, ValidationFlags::kNone));
    r.on = a64_emit(bo, true);
    r.off = a64_emit(bo, false);
  }
  std::string rec(line, 0, line.size() - 1);
  vj::W w;
  w.beginObj(); w.kv("known", r.known).kv("v", r.validate); write_leg(w, "on", r.on); write_leg(w, "off", r.off); w.endObj();
  rec += ","; rec.append(w.s, 1, std::string::npos);
  fputs(rec.c_str(), out); fputc('\n', out);
}

// ---------------------------------------------------------------------------------------------------------------------
// names
// ---------------------------------------------------------------------------------------------------------------------
static void names_arch(FILE* out, const char* an, Arch arch, std::set<std::string>& all) {
  String s;
  for (uint32_t id = 1; id < 8192; id++) {
    s.clear();
    if (InstAPI::inst_id_to_string(arch, id, InstStringifyOptions::kNone, s) != Error::kOk) break;
    std::string name(s.data(), s.size());
    all.insert(name);
    InstId id2 = InstAPI::string_to_inst_id(arch, name.c_str(), name.size());
    std::string name2;
    if (id2 != 0) { s.clear(); if (InstAPI::inst_id_to_string(arch, id2, InstStringifyOptions::kNone, s) == Error::kOk) name2.assign(s.data(), s.size()); }
    vj::W w; w.beginObj().kv("a", an).kv("kind", "id").kv("id", (long long)id).kv("name", name).kv("id2", (long long)id2).kv("name2", name2).endObj(); w.emit(out);
  }
}

static void probe(FILE* out, const char* an, Arch arch, const char* kind, const std::string& name, const std::string& canon) {
  String s;
  InstId id2 = InstAPI::string_to_inst_id(arch, name.c_str(), name.size());
  std::string name2;
  if (id2 != 0 && InstAPI::inst_id_to_string(arch, id2, InstStringifyOptions::kNone, s) == Error::kOk) name2.assign(s.data(), s.size());
  InstId idc = canon.empty() ? 0 : InstAPI::string_to_inst_id(arch, canon.c_str(), canon.size());
  vj::W w; w.beginObj().kv("a", an).kv("kind", kind).kv("id", 0).kv("name", name).kv("canon", canon).kv("idc", (long long)idc).kv("id2", (long long)id2).kv("name2", name2).endObj(); w.emit(out);
}

int main(int argc, char** argv) {
  if (argc < 3) { fprintf(stderr, "usage: instforms x86 <forms> <out> <tier> [shard n] | a64 <cases> <out> | names <out> [aliases] | replay <in> <out>\n"); return 2; }
  std::string cmd = argv[1];
  if (cmd == "x86" && argc >= 5) {
    std::vector<Row> rows = load_rows(argv[2]);
    FILE* f = fopen(argv[3], "w"); if (!f) return 3;
    bool thorough = std::string(argv[4]) == "thorough";
    int shard = argc > 6 ? atoi(argv[5]) : 0, nshards = argc > 6 ? atoi(argv[6]) : 1;
    Sink out{f};
    for (const Row& r : rows) {
      if (r.f.id % nshards != shard) continue;
      if (r.apx || r.avx102) continue;              // APX / AVX10.2 rows: the pinned release supports neither extension (listed as not covered)
      sweep_row(r, thorough, out);
    }
    fclose(f);
    fprintf(stderr, "observations=%ld\n", out.n);
    return 0;
  }
  if (cmd == "a64" && argc >= 4) {
    std::ifstream in(argv[2]); FILE* out = fopen(argv[3], "w");
    if (!in || !out) return 3;
    std::string line; long n = 0;
    while (std::getline(in, line)) { if (line.empty()) continue; a64_one(line, out); n++; }
    fclose(out);
    fprintf(stderr, "observations=%ld\n", n);
    return 0;
  }
  if (cmd == "names") {
    FILE* out = fopen(argv[2], "w"); if (!out) return 3;
    std::set<std::string> x86n, a64n;
    names_arch(out, "x86", Arch::kX64, x86n);
    names_arch(out, "a64", Arch::kAArch64, a64n);
    std::set<std::string> aliases;
    if (argc > 3) {
      std::ifstream in(argv[3]); std::string al, canon;
      while (in >> al >> canon) { probe(out, "x86", Arch::kX64, "alias", al, canon); aliases.insert(al); }
    }
    // names that are neither an instruction name nor an alias (documented answer: BaseInst::kIdNone)
    for (int arch = 0; arch < 2; arch++) {
      const std::set<std::string>& S = arch ? a64n : x86n;
      std::vector<std::string> cand = {"zzzz", "q", "addq9", "movv", "xyzzy", "a", "vaddpdd", "ldrr", "nopp", "retx", "jmpp", "cmovzz", "b9", "thisnameiswaytoolongtobeaninstructionname"};
      size_t k = 0;
      for (const std::string& nm : S) { if (k++ % 97 == 0) { cand.push_back(nm + "q"); cand.push_back("q" + nm); if (nm.size() > 2) cand.push_back(nm.substr(0, nm.size() - 1) + "9"); } }
      for (const std::string& c : cand)
        if (!S.count(c) && !(arch == 0 && aliases.count(c))) probe(out, arch ? "a64" : "x86", arch ? Arch::kAArch64 : Arch::kX64, "unknown", c, "");
    }
    fclose(out);
    return 0;
  }
  if (cmd == "replay" && argc >= 4) {
    std::ifstream in(argv[2]); FILE* out = fopen(argv[3], "w");
    if (!in || !out) return 3;
    std::string line;
    while (std::getline(in, line)) {
      if (line.empty()) continue;
      vj::Value v = vj::parse(line);
      if (v["a"].s() == "x86") {
        Inst ob = x86forms::read_request(v);
        Answer a = x86_execute(ob);
        vj::W w; w.beginObj(); w.kv("a", "x86"); x86forms::write_request(w, ob);
        w.kv("kind", v["kind"].s()).kv("what", v["what"].s()).kv("var", v["var"].s()).kv("ix", int(v["ix"].i())).kv("sig", v["sig"].s()).kv("mb", v["mb"].s());
        w.kv("known", a.known).kv("v", a.validate); write_leg(w, "on", a.on); write_leg(w, "off", a.off); write_ev(w, a); w.endObj(); w.emit(out);
      } else if (v["a"].s() == "a64") {
        // strip the recorded answer: everything from ,"known": on
        size_t p = line.find(",\"known\":");
        std::string req = (p == std::string::npos ? line.substr(0, line.size() - 1) : line.substr(0, p)) + "}";
        a64_one(req, out);
      }
    }
    fclose(out);
    return 0;
  }
  fprintf(stderr, "bad arguments\n");
  return 2;
}
