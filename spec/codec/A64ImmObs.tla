------------------------------ MODULE A64ImmObs --------------------------------
(* Pointwise conformance of the AArch64 immediate observations (env OBS) against A64Imm.tla. *)
EXTENDS A64Imm, Json, IOUtils

VARIABLE i

ObsFile == IF "OBS" \in DOMAIN IOEnv THEN IOEnv.OBS ELSE "obs.ndjson"
Obs == ndJsonDeserialize(ObsFile)

Init == i \in 1..Len(Obs)
Next == UNCHANGED i
Spec == Init /\ [][Next]_i

Conforms == LET v == ImmVerdict(Obs[i]) IN v = "" \/ (PrintT(<<"REJECT", i, v>>) /\ FALSE)
=============================================================================
