------------------------------ MODULE OffsetCodec ------------------------------
(* C17, part 1: displacement ("offset") field formats.                            *)
(*                                                                                *)
(* For every OffsetType of asmjit/core/fixup.h this module states how the         *)
(* ARCHITECTURE reads the displacement out of an instruction word (Decode), which *)
(* displacements the field can hold (Representable) and which bits of the word    *)
(* belong to the field (FieldBits).  It is written from the instruction diagrams  *)
(* of the Arm ARM (A64: ADR/ADRP, B/BL, B.cond/CBZ/LDR-literal, TBZ; T32: ADR T2/ *)
(* T3, B T3/T4, BLX T2; A32: ADR A1/A2, LDR-literal style U:imm12, LDRH-literal   *)
(* style U:imm4H:imm4L, BLX A2) and from the trivial x86 definition (a rel8/rel32/*)
(* abs32/abs64 field is the little-endian two's complement / unsigned number),    *)
(* NOT from asmjit's codewriter.cpp.                                              *)
(*                                                                                *)
(* Bit strings are sequences of 0/1 with index 1 = bit 0, so that the Arm ARM      *)
(* notation can be copied literally:  w<hi:lo> = Slice(w,hi,lo),  a:b = Cat(a,b).  *)
(* 64-bit quantities never become TLC integers (TLC integers are 32-bit).          *)
EXTENDS Integers, Sequences, FiniteSets

Bit(w, i)        == w[i + 1]
Slice(w, hi, lo) == [k \in 1..(hi - lo + 1) |-> w[lo + k]]
Cat(hi, lo)      == lo \o hi
Zeros(n)         == [k \in 1..n |-> 0]
Not1(b)          == 1 - b
Eor1(a, b)       == (a + b) % 2
SignExtend(w, n) == [k \in 1..n |-> IF k <= Len(w) THEN w[k] ELSE w[Len(w)]]
ZeroExtend(w, n) == [k \in 1..n |-> IF k <= Len(w) THEN w[k] ELSE 0]
ROR(w, r)        == [k \in 1..Len(w) |-> w[((k - 1 + r) % Len(w)) + 1]]
(* two's complement negation: bits up to and including the lowest 1 stay, the rest flips *)
Neg(w)           == [k \in 1..Len(w) |-> IF \E j \in 1..(k - 1) : w[j] = 1 THEN 1 - w[k] ELSE w[k]]

BitsOfBytes(B, from, n) == [k \in 1..(8 * n) |-> (B[from + ((k - 1) \div 8) + 1] \div 2^((k - 1) % 8)) % 2]
BitsOfLimbs(L)          == [k \in 1..(16 * Len(L)) |-> (L[((k - 1) \div 16) + 1] \div 2^((k - 1) % 16)) % 2]
(* 64-bit two's complement string of a small integer (|v| < 2^30) *)
BitsOfNat(v)  == [k \in 1..64 |-> IF k <= 31 THEN (v \div 2^(k - 1)) % 2 ELSE 0]
BitsOfInt(v)  == IF v >= 0 THEN BitsOfNat(v) ELSE Neg(BitsOfNat(0 - v))

Types == {"Signed", "Unsigned", "A64_ADR", "A64_ADRP", "T32_ADR", "T32_BLX", "T32_B", "T32_BCond",
          "A32_ADR", "A32_U23_Signed", "A32_U23_0To3At0_4To7At8", "A32_1To24At0_0At24"}
SignMagnitude == {"T32_ADR", "A32_ADR", "A32_U23_Signed", "A32_U23_0To3At0_4To7At8"}

(* A format is a record [t, vs, n, sh, d]: type, size of the patched word in bytes, number of field bits,   *)
(* position of the field, number of discarded (implicit zero) low bits of the displacement.                 *)
Undef == <<>>

-----------------------------------------------------------------------------
(* Decode: the architecture's reading of the displacement, a 64-bit two's complement string (or Undef when *)
(* the word is not an encoding of the instruction class the format stands for).                             *)

PlusMinus(add, sub, imm) == IF add THEN ZeroExtend(imm, 64) ELSE IF sub THEN Neg(ZeroExtend(imm, 64)) ELSE Undef

Decode(f, w) ==
  CASE f.t = "Signed"   -> SignExtend(Cat(Slice(w, f.sh + f.n - 1, f.sh), Zeros(f.d)), 64)
    [] f.t = "Unsigned" -> ZeroExtend(Cat(Slice(w, f.sh + f.n - 1, f.sh), Zeros(f.d)), 64)
    (* A64 ADR   0|immlo|10000|immhi|Rd : imm = SignExtend(immhi:immlo, 64)                  *)
    [] f.t = "A64_ADR"  -> SignExtend(Cat(Slice(w, 23, 5), Slice(w, 30, 29)), 64)
    (* A64 ADRP  1|immlo|10000|immhi|Rd : imm = SignExtend(immhi:immlo:Zeros(12), 64)        *)
    [] f.t = "A64_ADRP" -> SignExtend(Cat(Cat(Slice(w, 23, 5), Slice(w, 30, 29)), Zeros(12)), 64)
    (* T32 ADR   11110|i|10000|0|1111 | 0|imm3|Rd|imm8  (T3, add)                             *)
    (*           11110|i|10101|0|1111 | 0|imm3|Rd|imm8  (T2, sub);  imm32 = ZeroExtend(i:imm3:imm8)        *)
    [] f.t = "T32_ADR"  -> LET imm == Cat(Cat(Slice(w, 26, 26), Slice(w, 14, 12)), Slice(w, 7, 0))
                           IN PlusMinus(Bit(w, 23) = 0 /\ Bit(w, 21) = 0, Bit(w, 23) = 1 /\ Bit(w, 21) = 1, imm)
    (* T32 B T4  11110|S|imm10 | 10|J1|1|J2|imm11 ; I1 = NOT(J1 EOR S), I2 = NOT(J2 EOR S)     *)
    (*           imm32 = SignExtend(S:I1:I2:imm10:imm11:'0')                                   *)
    [] f.t = "T32_B"    -> LET S == Bit(w, 26)  I1 == Not1(Eor1(Bit(w, 13), S))  I2 == Not1(Eor1(Bit(w, 11), S))
                           IN SignExtend(Cat(Cat(Cat(<<I2, I1, S>>, Slice(w, 25, 16)), Slice(w, 10, 0)), Zeros(1)), 64)
    (* T32 BLX T2 11110|S|imm10H | 11|J1|0|J2|imm10L|H ; H = '1' is UNDEFINED                  *)
    (*           imm32 = SignExtend(S:I1:I2:imm10H:imm10L:'00')                                *)
    [] f.t = "T32_BLX"  -> LET S == Bit(w, 26)  I1 == Not1(Eor1(Bit(w, 13), S))  I2 == Not1(Eor1(Bit(w, 11), S))
                           IN IF Bit(w, 0) = 1 THEN Undef
                              ELSE SignExtend(Cat(Cat(Cat(<<I2, I1, S>>, Slice(w, 25, 16)), Slice(w, 10, 1)), Zeros(2)), 64)
    (* T32 B T3  11110|S|cond|imm6 | 10|J1|0|J2|imm11 ; imm32 = SignExtend(S:J2:J1:imm6:imm11:'0')         *)
    [] f.t = "T32_BCond" -> SignExtend(Cat(Cat(Cat(<<Bit(w, 13), Bit(w, 11), Bit(w, 26)>>, Slice(w, 21, 16)), Slice(w, 10, 0)), Zeros(1)), 64)
    (* A32 ADR   cond|0010|100|0|1111|Rd|imm12 (A1, add) / cond|0010|010|0|1111|Rd|imm12 (A2, sub)         *)
    (*           imm32 = A32ExpandImm(imm12) = ROR(ZeroExtend(imm12<7:0>,32), 2*UInt(imm12<11:8>))         *)
    [] f.t = "A32_ADR"  -> LET rot == Bit(w, 8) + 2 * Bit(w, 9) + 4 * Bit(w, 10) + 8 * Bit(w, 11)
                               imm == ROR(ZeroExtend(Slice(w, 7, 0), 32), 2 * rot)
                           IN PlusMinus(Bit(w, 23) = 1 /\ Bit(w, 22) = 0, Bit(w, 23) = 0 /\ Bit(w, 22) = 1, imm)
    (* A32 literal loads: U (bit 23) = add, field = magnitude (LDR: imm12; VLDR: imm8:'00')    *)
    [] f.t = "A32_U23_Signed" -> LET imm == Cat(Slice(w, f.sh + f.n - 1, f.sh), Zeros(f.d))
                                 IN PlusMinus(Bit(w, 23) = 1, Bit(w, 23) = 0, imm)
    (* A32 LDRH/LDRD (literal): cond|000|P|U|1|W|x|1111|Rt|imm4H|1xx1|imm4L ; imm32 = ZeroExtend(imm4H:imm4L) *)
    [] f.t = "A32_U23_0To3At0_4To7At8" -> PlusMinus(Bit(w, 23) = 1, Bit(w, 23) = 0, Cat(Slice(w, 11, 8), Slice(w, 3, 0)))
    (* A32 BLX A2: 1111|101|H|imm24 ; imm32 = SignExtend(imm24:H:'0')                          *)
    [] f.t = "A32_1To24At0_0At24" -> SignExtend(Cat(Cat(Slice(w, 23, 0), Slice(w, 24, 24)), Zeros(1)), 64)

-----------------------------------------------------------------------------
(* Representable: low `d` bits zero and value within the signed / unsigned / sign+magnitude range of the field *)
LowZero(x, d) == \A k \in 1..d : x[k] = 0
SFits(x, m)   == \A k \in (m + 1)..64 : x[k] = x[m]
UFits(x, m)   == \A k \in (m + 1)..64 : x[k] = 0
Abs(x)        == IF x[64] = 1 THEN Neg(x) ELSE x
IsA32ModImm(m) == /\ UFits(m, 32)
                  /\ \E rot \in 0..15 : LET v == ROR(Slice(m, 31, 0), (32 - 2 * rot) % 32)   \* rotate left by 2*rot
                                        IN \A k \in 9..32 : v[k] = 0

Representable(f, x) ==
  CASE f.t \in {"Signed", "A64_ADR", "A64_ADRP", "T32_B", "T32_BLX", "T32_BCond", "A32_1To24At0_0At24"}
                        -> LowZero(x, f.d) /\ SFits(x, f.n + f.d)
    [] f.t = "Unsigned" -> LowZero(x, f.d) /\ UFits(x, f.n + f.d)
    [] f.t = "A32_ADR"  -> LET m == Abs(x) IN m[64] = 0 /\ IsA32ModImm(m)
    [] OTHER            -> LET m == Abs(x) IN m[64] = 0 /\ LowZero(m, f.d) /\ UFits(m, f.n + f.d)

(* Same predicate on TLC integers, usable when |x| < 2^30 (run-length coded exhaustive sweeps).  Only the    *)
(* contiguous two's complement / unsigned / sign+magnitude types; equality with Representable is a theorem  *)
(* checked in OffsetCodecMC.                                                                                  *)
RepresentableInt(f, x) ==
  LET p == 2^f.d  lim == 2^(f.n - 1) IN
  CASE f.t \in {"Signed", "A64_ADR", "A64_ADRP", "T32_B", "T32_BLX", "T32_BCond", "A32_1To24At0_0At24"}
                        -> x % p = 0 /\ (0 - lim) <= (x \div p) /\ (x \div p) < lim
    [] f.t = "Unsigned" -> x >= 0 /\ x % p = 0 /\ (x \div p) < 2 * lim
    [] f.t \in {"T32_ADR", "A32_U23_Signed", "A32_U23_0To3At0_4To7At8"}
                        -> LET m == IF x < 0 THEN 0 - x ELSE x IN m % p = 0 /\ (m \div p) < 2 * lim

(* Bits of the patched word that belong to the displacement field (including separate sign / J / U / N bits) *)
FieldBits(f) ==
  CASE f.t \in {"Signed", "Unsigned"} -> f.sh..(f.sh + f.n - 1)
    [] f.t \in {"A64_ADR", "A64_ADRP"} -> (5..23) \cup {29, 30}
    [] f.t = "T32_ADR"   -> (0..7) \cup (12..14) \cup {21, 23, 26}
    [] f.t = "T32_B"     -> (0..10) \cup {11, 13} \cup (16..25) \cup {26}
    [] f.t = "T32_BLX"   -> (1..10) \cup {11, 13} \cup (16..25) \cup {26}
    [] f.t = "T32_BCond" -> (0..10) \cup {11, 13} \cup (16..21) \cup {26}
    [] f.t = "A32_ADR"   -> (0..11) \cup {22, 23}
    [] f.t = "A32_U23_Signed" -> (f.sh..(f.sh + f.n - 1)) \cup {23}
    [] f.t = "A32_U23_0To3At0_4To7At8" -> (0..3) \cup (8..11) \cup {23}
    [] f.t = "A32_1To24At0_0At24" -> 0..24

(* The parameters the architecture fixes for the non-generic types (what a backend must pass) *)
WellFormed(f) ==
  /\ f.vs \in {1, 2, 4, 8} /\ f.n >= 1 /\ f.sh + f.n <= 8 * f.vs
  /\ CASE f.t \in {"Signed", "Unsigned"} -> TRUE
       [] f.t = "A64_ADR"   -> f.vs = 4 /\ f.n = 21 /\ f.sh = 5 /\ f.d = 0
       [] f.t = "A64_ADRP"  -> f.vs = 4 /\ f.n = 21 /\ f.sh = 5 /\ f.d = 12
       [] f.t = "T32_ADR"   -> f.vs = 4 /\ f.n = 12 /\ f.sh = 0 /\ f.d = 0
       [] f.t = "T32_B"     -> f.vs = 4 /\ f.n = 24 /\ f.sh = 0 /\ f.d = 1
       [] f.t = "T32_BLX"   -> f.vs = 4 /\ f.n = 23 /\ f.sh = 0 /\ f.d = 2
       [] f.t = "T32_BCond" -> f.vs = 4 /\ f.n = 20 /\ f.sh = 0 /\ f.d = 1
       [] f.t = "A32_ADR"   -> f.vs = 4 /\ f.n = 32 /\ f.sh = 0 /\ f.d = 0
       [] f.t = "A32_U23_Signed" -> f.vs = 4 /\ f.sh + f.n <= 23
       [] f.t = "A32_U23_0To3At0_4To7At8" -> f.vs = 4 /\ f.n = 8 /\ f.sh = 0 /\ f.d = 0
       [] f.t = "A32_1To24At0_0At24" -> f.vs = 4 /\ f.n = 25 /\ f.sh = 0 /\ f.d = 1

-----------------------------------------------------------------------------
(* Encode (only used for the spec-level theorems): the word with all non-field bits zero whose Decode is x. *)
(* Defined independently of Decode, bit by bit, again from the diagrams.                                     *)
EncBit(f, x, p) ==
  LET v == [k \in 0..63 |-> IF k + f.d <= 63 THEN x[k + f.d + 1] ELSE x[64]]      \* x >> d (arithmetic)
      neg == x[64] = 1
      m == LET a == Abs(x) IN [k \in 0..63 |-> IF k + f.d <= 63 THEN a[k + f.d + 1] ELSE 0]   \* |x| >> d
      In(lo, hi) == lo <= p /\ p <= hi
  IN
  CASE f.t \in {"Signed", "Unsigned"} -> IF In(f.sh, f.sh + f.n - 1) THEN v[p - f.sh] ELSE 0
    [] f.t \in {"A64_ADR", "A64_ADRP"} -> IF In(29, 30) THEN v[p - 29] ELSE IF In(5, 23) THEN v[p - 5 + 2] ELSE 0
    [] f.t = "T32_ADR"   -> IF In(0, 7) THEN m[p] ELSE IF In(12, 14) THEN m[p - 12 + 8] ELSE IF p = 26 THEN m[11]
                            ELSE IF p \in {21, 23} /\ neg THEN 1 ELSE 0
    [] f.t \in {"T32_B", "T32_BLX"} ->
         LET u == IF f.t = "T32_B" THEN v ELSE [k \in 0..63 |-> IF k = 0 THEN 0 ELSE v[k - 1]]   \* BLX: imm10L:H
         IN IF In(0, 10) THEN u[p] ELSE IF In(16, 25) THEN u[p - 16 + 11] ELSE IF p = 26 THEN u[23]
            ELSE IF p = 13 THEN Not1(Eor1(u[22], u[23])) ELSE IF p = 11 THEN Not1(Eor1(u[21], u[23])) ELSE 0
    [] f.t = "T32_BCond" -> IF In(0, 10) THEN v[p] ELSE IF In(16, 21) THEN v[p - 16 + 11] ELSE IF p = 26 THEN v[19]
                            ELSE IF p = 13 THEN v[17] ELSE IF p = 11 THEN v[18] ELSE 0
    [] f.t = "A32_ADR"   ->
         LET a32 == Slice(Abs(x), 31, 0)
             rot == CHOOSE r \in 0..15 : \A k \in 9..32 : ROR(a32, (32 - 2 * r) % 32)[k] = 0
             imm8 == ROR(a32, (32 - 2 * rot) % 32)
         IN IF In(0, 7) THEN imm8[p + 1] ELSE IF In(8, 11) THEN (rot \div 2^(p - 8)) % 2
            ELSE IF p = 23 /\ ~neg THEN 1 ELSE IF p = 22 /\ neg THEN 1 ELSE 0
    [] f.t = "A32_U23_Signed" -> IF In(f.sh, f.sh + f.n - 1) THEN m[p - f.sh] ELSE IF p = 23 /\ ~neg THEN 1 ELSE 0
    [] f.t = "A32_U23_0To3At0_4To7At8" -> IF In(0, 3) THEN m[p] ELSE IF In(8, 11) THEN m[p - 8 + 4]
                                          ELSE IF p = 23 /\ ~neg THEN 1 ELSE 0
    [] f.t = "A32_1To24At0_0At24" -> IF In(0, 23) THEN v[p + 1] ELSE IF p = 24 THEN v[0] ELSE 0

Encode(f, x) == [k \in 1..(8 * f.vs) |-> EncBit(f, x, k - 1)]

-----------------------------------------------------------------------------
(* Conformance of ONE observation of the real CodeWriterUtils::write_offset:                                 *)
(*   o.f       format record, o.vo = value offset inside the region                                          *)
(*   o.x       the displacement, four 16-bit limbs                                                           *)
(*   o.b, o.a  the bytes of the whole region before / after the call,  o.ok = returned true                  *)
(* Precondition of the patcher (it ORs the field in): the field bits are zero before the call.               *)
ObsShape(o) == /\ o.f.t \in Types /\ WellFormed(o.f)
               /\ Len(o.b) = Len(o.a) /\ o.vo + o.f.vs <= Len(o.b)

PreClear(f, Wb)            == \A p \in FieldBits(f) : Wb[p + 1] = 0
Decision(f, X, ok)         == ok <=> Representable(f, X)
DecodesBack(f, X, Wa)      == Decode(f, Wa) = X
OtherBitsKept(f, Wb, Wa)   == \A p \in (0..(8 * f.vs - 1)) \ FieldBits(f) : Wa[p + 1] = Wb[p + 1]
OutsideWordKept(o)         == \A k \in 1..Len(o.b) : (k <= o.vo \/ k > o.vo + o.f.vs) => o.a[k] = o.b[k]

(* "" when the observation conforms, otherwise the first clause that fails; "harness" = the observation      *)
(* itself is malformed (precondition not established) which is a broken check, not a finding.                *)
ObsVerdict(o) ==
  LET X  == BitsOfLimbs(o.x)
      Wb == BitsOfBytes(o.b, o.vo, o.f.vs)
      Wa == BitsOfBytes(o.a, o.vo, o.f.vs)
  IN IF ~(ObsShape(o) /\ PreClear(o.f, Wb)) THEN "harness"
     ELSE IF ~Decision(o.f, X, o.ok) THEN (IF o.ok THEN "accepts-unrepresentable" ELSE "refuses-representable")
     ELSE IF o.ok /\ ~DecodesBack(o.f, X, Wa) THEN "decode"
     ELSE IF o.ok /\ ~(OtherBitsKept(o.f, Wb, Wa) /\ OutsideWordKept(o)) THEN "otherbits"
     ELSE IF ~o.ok /\ o.a # o.b THEN "failclean"
     ELSE ""

(* A run-length coded piece of the decision function: for every q in lo..hi the real encoder answered `ok`   *)
(* for the displacement q * m + r.                                                                            *)
RunConforms(r) == \A q \in r.lo..r.hi : RepresentableInt(r.f, q * r.m + r.r) = r.ok
=============================================================================
