SPECIFICATION Spec
CONSTANT RandomLane = 48879
