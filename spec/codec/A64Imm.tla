-------------------------------- MODULE A64Imm ---------------------------------
(* C17, part 2: AArch64 immediates.  Written from the Arm ARM (DDI 0487) pseudocode and instruction       *)
(* diagrams: DecodeBitMasks (logical immediates), VFPExpandImm (8-bit floating point), ADD/SUB (immediate)*)
(* imm12 with LSL #12, MOVZ/MOVN/MOVK (+ the ORR alias of MOV) and the UBFM/SBFM/BFM/EXTR aliases          *)
(* (LSL/LSR/ASR/ROR immediate, UBFX/SBFX/BFXIL, UBFIZ/SBFIZ/BFI/BFC).  Nothing here is taken from asmjit. *)
(*                                                                                                          *)
(* 64-bit values are four 16-bit limbs (little endian); instruction words are <<lo16, hi16>>.               *)
EXTENDS OffsetCodec, TLC

(* field of an instruction word <<lo,hi>>: bits lo+n-1..lo, n <= 16 *)
Fld(w, lo, n) == IF lo >= 16 THEN (w[2] \div 2^(lo - 16)) % 2^n
                 ELSE IF lo = 0 THEN w[1] % 2^n
                 ELSE ((w[1] \div 2^lo) + (w[2] % 2^15) * 2^(16 - lo)) % 2^n
WBit(w, p) == Fld(w, p, 1)

Limb(b, k) == LET o == 16 * k IN
  b[o+1] + 2*b[o+2] + 4*b[o+3] + 8*b[o+4] + 16*b[o+5] + 32*b[o+6] + 64*b[o+7] + 128*b[o+8] + 256*b[o+9]
  + 512*b[o+10] + 1024*b[o+11] + 2048*b[o+12] + 4096*b[o+13] + 8192*b[o+14] + 16384*b[o+15] + 32768*b[o+16]
(* limbs of a bit string of length 16, 32 or 64, zero extended to four limbs *)
LimbsOf(b) == [k \in 1..4 |-> IF 16 * k <= Len(b) THEN Limb(b, k - 1) ELSE 0]
NotLimbs(v, M) == [k \in 1..4 |-> IF 16 * k <= M THEN 65535 - v[k] ELSE v[k]]

-----------------------------------------------------------------------------
(* DecodeBitMasks(immN, imms, immr, immediate = TRUE), datasize M: the wmask result as a bit string, or Undef *)
HighestSetBit7(c) == IF c >= 64 THEN 6 ELSE IF c >= 32 THEN 5 ELSE IF c >= 16 THEN 4 ELSE IF c >= 8 THEN 3
                     ELSE IF c >= 4 THEN 2 ELSE IF c >= 2 THEN 1 ELSE IF c >= 1 THEN 0 ELSE 0 - 1

DecodeBitMasks(N, imms, immr, M) ==
  LET len == HighestSetBit7(N * 64 + (63 - imms))          \* HighestSetBit(immN:NOT(imms))
  IN IF len < 1 THEN Undef
     ELSE IF M < 2^len THEN Undef
     ELSE LET levels == 2^len - 1                           \* ZeroExtend(Ones(len), 6)
              S == imms % 2^len                             \* UInt(imms AND levels)
              R == immr % 2^len                             \* UInt(immr AND levels)
              esize == 2^len
          IN IF S = levels THEN Undef
             ELSE (* welem = ZeroExtend(Ones(S+1), esize); wmask = Replicate(ROR(welem, R)) *)
                  [j \in 1..M |-> IF (((j - 1) % esize) + R) % esize <= S THEN 1 ELSE 0]

LogicalEncodings(M) == {e \in (0..1) \X (0..63) \X (0..63) : DecodeBitMasks(e[1], e[3], e[2], M) # Undef}   \* <<N, immr, imms>>
LogicalValues64 == {LimbsOf(DecodeBitMasks(e[1], e[3], e[2], 64)) : e \in LogicalEncodings(64)}
LogicalValues32 == {LimbsOf(DecodeBitMasks(e[1], e[3], e[2], 32)) : e \in LogicalEncodings(32)}
LogicalValues(M) == IF M = 64 THEN LogicalValues64 ELSE LogicalValues32

-----------------------------------------------------------------------------
(* VFPExpandImm(imm8, N), N = 16/32/64: sign:exp:frac with exp = NOT(imm8<6>):Replicate(imm8<6>,E-3):imm8<5:4>, *)
(* frac = imm8<3:0>:Zeros(F-4)                                                                                  *)
VFPExpandImm(imm8, N) ==
  LET E == IF N = 16 THEN 5 ELSE IF N = 32 THEN 8 ELSE 11
      F == N - E - 1
      b == [k \in 0..7 |-> (imm8 \div 2^k) % 2]
      frac == Cat(<<b[0], b[1], b[2], b[3]>>, Zeros(F - 4))
      exp  == Cat(Cat(<<Not1(b[6])>>, [k \in 1..(E - 3) |-> b[6]]), <<b[4], b[5]>>)
  IN Cat(Cat(<<b[7]>>, exp), frac)

FPValues16 == {LimbsOf(VFPExpandImm(i, 16)) : i \in 0..255}
FPValues32 == {LimbsOf(VFPExpandImm(i, 32)) : i \in 0..255}
FPValues64 == {LimbsOf(VFPExpandImm(i, 64)) : i \in 0..255}
FPSet(N) == IF N = 16 THEN FPValues16 ELSE IF N = 32 THEN FPValues32 ELSE FPValues64
(* Membership without enumerating: VFPExpandImm copies the bits of imm8 to fixed positions, so the only        *)
(* candidate pre-image of a pattern is read off those positions (theorem FPCandInverse in A64ImmGen:            *)
(* FPCand(VFPExpandImm(i, N), N) = i, hence  v \in FPSet(N)  <=>  VFPExpandImm(FPCand(v, N), N) = v).           *)
FPCand(bits, N) == LET F == N - (IF N = 16 THEN 5 ELSE IF N = 32 THEN 8 ELSE 11) - 1
                   IN 128 * bits[N] + 64 * bits[N - 2] + 32 * bits[F + 2] + 16 * bits[F + 1]
                      + 8 * bits[F] + 4 * bits[F - 1] + 2 * bits[F - 2] + bits[F - 3]
FPMember(v, N) == LET bits == BitsOfLimbs(v)
                  IN /\ \A k \in (N + 1)..64 : bits[k] = 0
                     /\ VFPExpandImm(FPCand(bits, N), N) = Slice(bits, N - 1, 0)
(* The number an imm8 denotes, independent of the precision: (-1)^a * (16 + efgh)/16 * 2^e, e in -3..4          *)
FPNumber(imm8) == LET b == [k \in 0..7 |-> (imm8 \div 2^k) % 2]
                      cd == b[4] + 2 * b[5]
                  IN <<b[7], 16 + (imm8 % 16), IF b[6] = 0 THEN cd + 1 ELSE cd - 3>>
(* reading an IEEE pattern: <<sign, 16 + top four fraction bits, unbiased exponent>>, defined when the other fraction bits are zero *)
IEEENumber(bits, N) ==
  LET E == IF N = 16 THEN 5 ELSE IF N = 32 THEN 8 ELSE 11
      F == N - E - 1
      ex == Slice(bits, N - 2, F)
      exv == ex[1] + 2 * ex[2] + 4 * ex[3] + 8 * ex[4] + 16 * ex[5] + (IF E > 5 THEN 32 * ex[6] + 64 * ex[7] + 128 * ex[8] ELSE 0)
             + (IF E > 8 THEN 256 * ex[9] + 512 * ex[10] + 1024 * ex[11] ELSE 0)
      top == Slice(bits, F - 1, F - 4)
  IN <<bits[N], 16 + top[1] + 2 * top[2] + 4 * top[3] + 8 * top[4], exv - (2^(E - 1) - 1)>>

-----------------------------------------------------------------------------
(* ADD/SUB (immediate): imm = ZeroExtend(imm12) or ZeroExtend(imm12:Zeros(12)) *)
AddSubValue(imm12, sh) == IF sh = 0 THEN <<imm12, 0, 0, 0>> ELSE <<(imm12 % 16) * 4096, imm12 \div 16, 0, 0>>
AddSubEncodable(v) == \/ (v[2] = 0 /\ v[3] = 0 /\ v[4] = 0 /\ v[1] < 4096)
                      \/ (v[3] = 0 /\ v[4] = 0 /\ v[1] % 4096 = 0 /\ v[2] < 256)
Shl12(v) == <<(v[1] % 16) * 4096, (v[1] \div 16) + (v[2] % 16) * 4096, (v[2] \div 16) + (v[3] % 16) * 4096, (v[3] \div 16) + (v[4] % 16) * 4096>>

-----------------------------------------------------------------------------
(* Move wide + the ORR (immediate) alias of MOV: effect of one instruction word on register Rd (four limbs).  *)
(*   sf|opc|100101|hw|imm16|Rd   opc: 00 MOVN, 10 MOVZ, 11 MOVK; sf = 0 requires hw<1> = 0                     *)
(*   sf|01|100100|N|immr|imms|11111|Rd   = MOV Rd, #bitmask                                                    *)
(* Writing a W register zeroes bits 63:32.  Result Undef when the word is neither.                             *)
MovStep(reg, w, rd) ==
  LET sf == WBit(w, 31)  opc == Fld(w, 29, 2)  hw == Fld(w, 21, 2)  imm16 == Fld(w, 5, 16)
      zext(v) == IF sf = 1 THEN v ELSE <<v[1], v[2], 0, 0>>
  IN IF Fld(w, 0, 5) # rd THEN Undef
     ELSE IF Fld(w, 23, 6) = 37 THEN                                      \* 100101
       IF sf = 0 /\ hw >= 2 THEN Undef
       ELSE IF opc = 2 THEN zext([k \in 1..4 |-> IF k = hw + 1 THEN imm16 ELSE 0])
       ELSE IF opc = 0 THEN zext([k \in 1..4 |-> IF k = hw + 1 THEN 65535 - imm16 ELSE 65535])
       ELSE IF opc = 3 THEN (IF reg = Undef THEN Undef ELSE zext([k \in 1..4 |-> IF k = hw + 1 THEN imm16 ELSE reg[k]]))
       ELSE Undef
     ELSE IF Fld(w, 23, 6) = 36 /\ opc = 1 /\ Fld(w, 5, 5) = 31 THEN      \* ORR Rd, ZR, #imm
       LET m == DecodeBitMasks(WBit(w, 22), Fld(w, 10, 6), Fld(w, 16, 6), IF sf = 1 THEN 64 ELSE 32)
       IN IF m = Undef THEN Undef ELSE LimbsOf(m)
     ELSE Undef

RECURSIVE MovEval(_, _, _, _)
MovEval(reg, ws, k, rd) == IF k > Len(ws) THEN reg ELSE MovEval(MovStep(reg, ws[k], rd), ws, k + 1, rd)

-----------------------------------------------------------------------------
(* Observations of the real code (harness/codec.cpp); every verdict is "" or the name of the failed clause.  *)

(* helper level: encode_logical_imm / is_logical_imm *)
VLogH(o) ==
  LET member == o.v \in LogicalValues(o.w)
  IN IF o.is # o.ok THEN "is-vs-encode"
     ELSE IF o.ok /\ ~member THEN "accepts-unencodable"
     ELSE IF ~o.ok /\ member THEN "refuses-encodable"
     ELSE IF o.ok /\ (LET m == DecodeBitMasks(o.N, o.s, o.r, o.w) IN m = Undef \/ LimbsOf(m) # o.v) THEN "decode"
     ELSE ""

(* instruction level: and/orr/eor/ands Rd=3,Rn=5 ; tst Rn=5 ; bic = and with the inverted immediate *)
LogOpc(inst) == CASE inst \in {"and", "bic"} -> 0 [] inst = "orr" -> 1 [] inst = "eor" -> 2 [] inst \in {"ands", "tst"} -> 3
VLogI(o) ==
  LET want == IF o.inst = "bic" THEN NotLimbs(o.v, o.w) ELSE o.v
      member == want \in LogicalValues(o.w)
  IN IF o.ok /\ ~member THEN "accepts-unencodable"
     ELSE IF ~o.ok /\ member THEN "refuses-encodable"
     ELSE IF ~o.ok THEN ""
     ELSE IF Len(o.words) # 1 THEN "length"
     ELSE LET w == o.words[1]
              m == DecodeBitMasks(WBit(w, 22), Fld(w, 10, 6), Fld(w, 16, 6), o.w)
          IN IF m = Undef \/ LimbsOf(m) # want THEN "decode"
             ELSE IF ~(/\ WBit(w, 31) = (IF o.w = 64 THEN 1 ELSE 0) /\ Fld(w, 29, 2) = LogOpc(o.inst) /\ Fld(w, 23, 6) = 36
                       /\ Fld(w, 5, 5) = 5 /\ Fld(w, 0, 5) = (IF o.inst = "tst" THEN 31 ELSE 3)) THEN "otherbits"
             ELSE ""

(* mov Rd(3), #imm : every value has an encoding (sequence) *)
VMov(o) ==
  IF ~o.ok THEN "refuses-encodable"
  ELSE IF Len(o.words) < 1 \/ Len(o.words) > 4 THEN "length"
  ELSE LET r == MovEval(Undef, o.words, 1, 3)
       IN IF r = Undef THEN "not-a-mov-sequence" ELSE IF r # o.v THEN "decode"
          ELSE IF o.sf = 0 /\ \E k \in 1..Len(o.words) : WBit(o.words[k], 31) = 1 THEN "otherbits" ELSE ""

VAddSubH(o) == IF o.ok = AddSubEncodable(o.v) THEN "" ELSE IF o.ok THEN "accepts-unencodable" ELSE "refuses-encodable"

(* add/sub/adds/subs Rd=3,Rn=5 ; cmp/cmn Rn=5 (Rd = 31).  o.sh = -1: no shift operand; 0 / 12: explicit LSL *)
VAddSub(o) ==
  LET want == IF o.sh = 12 THEN Shl12(o.v) ELSE o.v
      enc == AddSubEncodable(want) /\ (o.sh = 12 => (o.v[2] = 0 /\ o.v[3] = 0 /\ o.v[4] = 0))
      op == IF o.inst \in {"sub", "subs", "cmp"} THEN 1 ELSE 0
      S == IF o.inst \in {"adds", "subs", "cmp", "cmn"} THEN 1 ELSE 0
  IN IF o.ok /\ ~enc THEN "accepts-unencodable"
     ELSE IF ~o.ok /\ enc THEN "refuses-encodable"
     ELSE IF ~o.ok THEN ""
     ELSE IF Len(o.words) # 1 THEN "length"
     ELSE LET w == o.words[1] IN
          IF Fld(w, 22, 2) >= 2 \/ AddSubValue(Fld(w, 10, 12), Fld(w, 22, 2)) # want THEN "decode"
          ELSE IF ~(/\ WBit(w, 31) = o.sf /\ WBit(w, 30) = op /\ WBit(w, 29) = S /\ Fld(w, 24, 5) = 17
                    /\ Fld(w, 5, 5) = 5 /\ Fld(w, 0, 5) = (IF o.inst \in {"cmp", "cmn"} THEN 31 ELSE 3)) THEN "otherbits"
          ELSE ""

VFp8H(o) ==
  LET member == FPMember(o.v, o.w)
  IN IF o.ok /\ ~member THEN "accepts-unencodable"
     ELSE IF ~o.ok /\ member THEN "refuses-encodable"
     ELSE IF o.ok /\ o.w = 64 /\ (o.imm8 > 255 \/ LimbsOf(VFPExpandImm(o.imm8, 64)) # o.v) THEN "decode"
     ELSE ""

(* fmov Vd(3), #double.  Scalar: 0|0|0|11110|ftype|1|imm8|100|00000|Rd ; vector: 0|Q|op|0111100000|a|b|c|1111|o2|1|d|e|f|g|h|Rd *)
VFmov(o) ==
  LET member == FPMember(o.v, 64)
  IN IF o.ok /\ ~member THEN "accepts-unencodable"
     ELSE IF ~o.ok /\ member THEN "refuses-encodable"
     ELSE IF ~o.ok THEN ""
     ELSE IF Len(o.words) # 1 THEN "length"
     ELSE LET w == o.words[1]
              scalar == o.inst \in {"fmov_d", "fmov_s", "fmov_h"}
              imm8 == IF scalar THEN Fld(w, 13, 8) ELSE Fld(w, 16, 3) * 32 + Fld(w, 5, 5)
              ftype == CASE o.inst = "fmov_s" -> 0 [] o.inst = "fmov_d" -> 1 [] o.inst = "fmov_h" -> 3 [] OTHER -> 0
              Q == IF o.inst \in {"fmov_2d", "fmov_4s", "fmov_8h"} THEN 1 ELSE 0
              op == IF o.inst = "fmov_2d" THEN 1 ELSE 0
              o2 == IF o.inst \in {"fmov_8h", "fmov_4h"} THEN 1 ELSE 0
          IN IF LimbsOf(VFPExpandImm(imm8, 64)) # o.v THEN "decode"      \* same number in every precision (theorem FPSameNumber)
             ELSE IF scalar /\ ~(Fld(w, 24, 8) = 30 /\ Fld(w, 22, 2) = ftype /\ WBit(w, 21) = 1 /\ Fld(w, 10, 3) = 4
                                 /\ Fld(w, 5, 5) = 0 /\ Fld(w, 0, 5) = 3) THEN "otherbits"
             ELSE IF ~scalar /\ ~(WBit(w, 31) = 0 /\ WBit(w, 30) = Q /\ WBit(w, 29) = op /\ Fld(w, 19, 10) = 480
                                  /\ Fld(w, 12, 4) = 15 /\ WBit(w, 11) = o2 /\ WBit(w, 10) = 1 /\ Fld(w, 0, 5) = 3) THEN "otherbits"
             ELSE ""

(* bitfield aliases, Rd = 3, Rn = 5 (bfc: Rn = 31; ror: Rn = Rm = 5) *)
VBitfield(o) ==
  LET size == IF o.sf = 1 THEN 64 ELSE 32
      a == o.a  b == o.b
      shift == o.inst \in {"lsl", "lsr", "asr", "ror"}
      xform == o.inst \in {"ubfx", "sbfx", "bfxil"}
      iform == o.inst \in {"ubfiz", "sbfiz", "bfi", "bfc"}
      valid == IF shift THEN a < size
               ELSE IF xform \/ iform THEN a < size /\ b >= 1 /\ a + b <= size
               ELSE a < size /\ b < size
      opc == CASE o.inst \in {"asr", "sbfx", "sbfiz", "sbfm"} -> 0
               [] o.inst \in {"bfxil", "bfi", "bfc", "bfm"} -> 1
               [] o.inst \in {"lsl", "lsr", "ubfx", "ubfiz", "ubfm"} -> 2
               [] OTHER -> 0
      immr == IF o.inst = "lsl" THEN (size - a) % size ELSE IF iform THEN (size - a) % size ELSE a
      imms == IF o.inst = "lsl" THEN size - 1 - a ELSE IF o.inst \in {"lsr", "asr"} THEN size - 1
              ELSE IF xform THEN a + b - 1 ELSE IF iform THEN b - 1 ELSE b
  IN IF o.ok /\ ~valid THEN "accepts-unencodable"
     ELSE IF ~o.ok /\ valid THEN "refuses-encodable"
     ELSE IF ~o.ok THEN ""
     ELSE IF Len(o.words) # 1 THEN "length"
     ELSE LET w == o.words[1] IN
          IF o.inst = "ror"
          THEN (IF Fld(w, 10, 6) # a THEN "decode"
                ELSE IF ~(WBit(w, 31) = o.sf /\ Fld(w, 29, 2) = 0 /\ Fld(w, 23, 6) = 39 /\ WBit(w, 22) = o.sf /\ WBit(w, 21) = 0
                          /\ Fld(w, 16, 5) = 5 /\ Fld(w, 5, 5) = 5 /\ Fld(w, 0, 5) = 3) THEN "otherbits" ELSE "")
          ELSE (IF Fld(w, 16, 6) # immr \/ Fld(w, 10, 6) # imms THEN "decode"
                ELSE IF ~(WBit(w, 31) = o.sf /\ Fld(w, 29, 2) = opc /\ Fld(w, 23, 6) = 38 /\ WBit(w, 22) = o.sf
                          /\ Fld(w, 5, 5) = (IF o.inst = "bfc" THEN 31 ELSE 5) /\ Fld(w, 0, 5) = 3) THEN "otherbits" ELSE "")

(* pc-relative instructions assembled with an absolute target: the displacement formats of OffsetCodec + the  *)
(* fixed bits of the instruction (Rt/Rd = 3; b.ne; tbz x3,#37; tbnz w3,#5)                                     *)
RelFormat(inst) ==
  CASE inst \in {"b", "bl"} -> [t |-> "Signed", vs |-> 4, n |-> 26, sh |-> 0, d |-> 2]
    [] inst \in {"b.ne", "cbz", "cbnz", "ldr", "ldrw", "ldrsw"} -> [t |-> "Signed", vs |-> 4, n |-> 19, sh |-> 5, d |-> 2]
    [] inst \in {"tbz", "tbnz"} -> [t |-> "Signed", vs |-> 4, n |-> 14, sh |-> 5, d |-> 2]
    [] inst = "adr" -> [t |-> "A64_ADR", vs |-> 4, n |-> 21, sh |-> 5, d |-> 0]
    [] inst = "adrp" -> [t |-> "A64_ADRP", vs |-> 4, n |-> 21, sh |-> 5, d |-> 12]
RelBase(inst) ==
  CASE inst = "b" -> <<0, 5120>>          \* 0x14000000
    [] inst = "bl" -> <<0, 37888>>        \* 0x94000000
    [] inst = "b.ne" -> <<1, 21504>>      \* 0x54000001
    [] inst = "cbz" -> <<3, 46080>>       \* 0xB4000003  cbz x3
    [] inst = "cbnz" -> <<3, 13568>>      \* 0x35000003  cbnz w3
    [] inst = "tbz" -> <<3, 46632>>       \* 0xB6280003  tbz x3, #37
    [] inst = "tbnz" -> <<3, 14120>>      \* 0x37280003  tbnz w3, #5
    [] inst = "adr" -> <<3, 4096>>        \* 0x10000003
    [] inst = "adrp" -> <<3, 36864>>      \* 0x90000003
    [] inst = "ldr" -> <<3, 22528>>       \* 0x58000003  ldr x3, label
    [] inst = "ldrw" -> <<3, 6144>>       \* 0x18000003  ldr w3, label
    [] inst = "ldrsw" -> <<3, 38912>>     \* 0x98000003
VRel(o) ==
  LET f == RelFormat(o.inst)
      X == BitsOfLimbs(o.x)
      rep == Representable(f, X)
  IN IF o.ok /\ ~rep THEN "accepts-unrepresentable"
     ELSE IF ~o.ok /\ rep THEN "refuses-representable"
     ELSE IF ~o.ok THEN ""
     ELSE IF Len(o.words) # 1 THEN "length"
     ELSE LET W == BitsOfLimbs(o.words[1])
              Base == BitsOfLimbs(RelBase(o.inst))
          IN IF Decode(f, W) # X THEN "decode"
             ELSE IF \E p \in (0..31) \ FieldBits(f) : W[p + 1] # Base[p + 1] THEN "otherbits"
             ELSE ""

ImmVerdict(o) ==
  CASE o.k = "logh" -> VLogH(o)
    [] o.k = "logi" -> VLogI(o)
    [] o.k = "mov" -> VMov(o)
    [] o.k = "addsubh" -> VAddSubH(o)
    [] o.k = "addsub" -> VAddSub(o)
    [] o.k = "fp8h" -> VFp8H(o)
    [] o.k = "fmov" -> VFmov(o)
    [] o.k = "bitfield" -> VBitfield(o)
    [] o.k = "rel" -> VRel(o)
=============================================================================
