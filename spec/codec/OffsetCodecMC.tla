---------------------------- MODULE OffsetCodecMC ------------------------------
(* Spec-level theorems of OffsetCodec.tla, checked by TLC on the spec alone (no asmjit involved):            *)
(*   RoundTrip   Representable(f,x) => Decode(f, Encode(f,x)) = x                                             *)
(*   FieldOnly   Encode(f,x) has no bit outside FieldBits(f)                                                  *)
(*   Sound       every decodable word decodes to a Representable displacement                                 *)
(*   Tight       (1-byte generic formats, all 256 words, all x in -1100..1100) the image of Decode is exactly *)
(*               the Representable set                                                                        *)
(*   IntAgrees   RepresentableInt = Representable on small integers                                           *)
(* One initial state per format: all generic formats on a 1-byte word (every n, shift, discard 0..2), the     *)
(* generic and fixed formats with the real parameters used by the backends / defined by OffsetType.           *)
EXTENDS OffsetCodec, TLC

CONSTANT Dense      \* TRUE: every power of two 2^3..2^62 (+-3) as sample displacement; FALSE: the limits of the formats only
VARIABLES grp, f    \* grp: work group (only there to spread the formats over the workers of TLC), f: the format

F(t, vs, n, sh, d) == [t |-> t, vs |-> vs, n |-> n, sh |-> sh, d |-> d]

SmallFormats == {F(t, 1, n, sh, d) : t \in {"Signed", "Unsigned"}, n \in 1..8, sh \in 0..7, d \in 0..2} 
RealSeq == <<F("Signed", 4, 19, 5, 2), F("Signed", 4, 26, 0, 2), F("Signed", 4, 14, 5, 2), F("Signed", 1, 8, 0, 0), F("Signed", 2, 16, 0, 0),
                F("Signed", 4, 32, 0, 0), F("Signed", 8, 64, 0, 0), F("Unsigned", 4, 32, 0, 0), F("Unsigned", 8, 64, 0, 0),
                F("A64_ADR", 4, 21, 5, 0), F("A64_ADRP", 4, 21, 5, 12), F("T32_ADR", 4, 12, 0, 0), F("T32_BLX", 4, 23, 0, 2),
                F("T32_B", 4, 24, 0, 1), F("T32_BCond", 4, 20, 0, 1), F("A32_ADR", 4, 32, 0, 0), F("A32_U23_Signed", 4, 12, 0, 0),
                F("A32_U23_Signed", 4, 8, 0, 2), F("A32_U23_0To3At0_4To7At8", 4, 8, 0, 0), F("A32_1To24At0_0At24", 4, 25, 0, 1)>>
RealFormats == {RealSeq[k] : k \in 1..Len(RealSeq)}
Formats == {g \in SmallFormats : g.sh + g.n <= 8} \cup RealFormats

Ints == (0 - 1100)..1100
(* +-(2^k + e) as bit strings, k up to 62 *)
PowBits(k, e, neg) == LET base == [j \in 1..64 |-> IF j = k + 1 THEN 1 ELSE 0]
                          v == IF e = 0 THEN base
                               ELSE IF e > 0 THEN [j \in 1..64 |-> IF j = k + 1 \/ j = e THEN 1 ELSE 0]     \* 2^k + 2^(e-1)
                               ELSE [j \in 1..64 |-> IF j <= k /\ j >= 0 - e THEN 1 ELSE 0]                  \* 2^k - 2^(-e-1)
                      IN IF neg THEN Neg(v) ELSE v
Xs == {BitsOfInt(v) : v \in Ints} \cup {PowBits(k, e, s) : k \in (IF Dense THEN 3..62 ELSE {7, 8, 11, 12, 13, 15, 16, 20, 21, 22, 24, 25, 26, 27, 28, 31, 32, 33, 62}), e \in {0 - 3, 0 - 2, 0 - 1, 0, 1, 2, 3}, s \in BOOLEAN}

(* pseudo-random words of the format's size (16-bit LCG per limb) *)
Lcg(s) == (s * 25173 + 13849) % 65536
RECURSIVE LcgN(_, _)
LcgN(s, k) == IF k = 0 THEN s ELSE LcgN(Lcg(s), k - 1)
Words(g) == {BitsOfLimbs([k \in 1..(IF g.vs = 8 THEN 4 ELSE IF g.vs = 4 THEN 2 ELSE 1) |-> LcgN(j * 7 + k, 3 + k)]) : j \in 1..400}
Word(g, w) == [k \in 1..(8 * g.vs) |-> w[k]]

Groups == 1..(Len(RealSeq) + 24)
GroupOf(h) == IF h \in RealFormats THEN CHOOSE k \in 1..Len(RealSeq) : RealSeq[k] = h
              ELSE Len(RealSeq) + 1 + ((h.n + h.sh * 8 + h.d * 3 + (IF h.t = "Signed" THEN 12 ELSE 0)) % 24)
Init == grp \in Groups /\ f = F("Signed", 1, 8, 0, 0)
Next == grp > 0 /\ grp' = 0 /\ f' \in {h \in Formats : GroupOf(h) = grp}
Covered == Formats = UNION {{h \in Formats : GroupOf(h) = k} : k \in Groups}
ASSUME Covered

WF == WellFormed(f) /\ f.t \in Types
RoundTrip == \A x \in Xs : Representable(f, x) => Decode(f, Encode(f, x)) = x
FieldOnly == \A x \in Xs : Representable(f, x) => \A p \in (0..(8 * f.vs - 1)) \ FieldBits(f) : Encode(f, x)[p + 1] = 0
Sound == \A w \in Words(f) : LET d == Decode(f, Word(f, w)) IN d = Undef \/ Representable(f, d)
Tight == f.vs = 1 => LET img == {Decode(f, [k \in 1..8 |-> (b \div 2^(k - 1)) % 2]) : b \in 0..255}
                     IN img = {x \in {BitsOfInt(v) : v \in Ints} : Representable(f, x)}
IntAgrees == (f.t # "A32_ADR" /\ f.n + f.d <= 29) => \A v \in Ints : RepresentableInt(f, v) = Representable(f, BitsOfInt(v))
(* the A32 modified-immediate set restricted to 0..1100 is what the Arm ARM says: 0..255, then 4k multiples .. *)
ModImmLiteral == f.t = "A32_ADR" =>
   /\ \A v \in 0..255 : Representable(f, BitsOfInt(v)) /\ Representable(f, BitsOfInt(0 - v))
   /\ ~Representable(f, BitsOfInt(257)) /\ Representable(f, BitsOfInt(1020)) /\ ~Representable(f, BitsOfInt(1022))
   /\ Representable(f, BitsOfInt(1024)) /\ ~Representable(f, BitsOfInt(1025))
   /\ Representable(f, [j \in 1..64 |-> IF j \in {1, 2, 31, 32} THEN 1 ELSE 0])          \* 0xC0000003 = ROR(0x0F, 2)
   /\ Representable(f, [j \in 1..64 |-> IF j \in {1, 32} THEN 1 ELSE 0])                  \* 0x80000001 = ROR(0x06, 2)
   /\ ~Representable(f, BitsOfInt(258))                                                  \* 0x102 would need an odd rotation
=============================================================================
