SPECIFICATION Spec
INVARIANT Conforms
