------------------------------ MODULE A64ImmGen --------------------------------
(* Spec -> code direction: TLC enumerates the complete sets the architecture defines and prints them; the    *)
(* runner turns the lines into the feed files of harness/codec.cpp.                                           *)
(*   <<"LOG", M, value limbs, N, immr, imms>>   all valid logical-immediate encodings (7680 / 3648 encodings of    *)
(*                                              5334 / 1302 distinct values for M = 64 / 32)                   *)
(*   <<"FP8", N, value limbs, imm8>>            all 256 VFPExpandImm values for N = 16, 32, 64                 *)
(*   <<"MOV", value limbs>>                     all 16-bit lane combinations over Lanes                        *)
EXTENDS A64Imm
CONSTANT RandomLane
VARIABLE x

Lanes == {0, 65535, 4660, RandomLane}      \* 0x0000, 0xFFFF, 0x1234, seeded

PrintAll ==
  /\ \A M \in {32, 64} : \A e \in LogicalEncodings(M) :
        PrintT(<<"LOG", M, LimbsOf(DecodeBitMasks(e[1], e[3], e[2], M)), e[1], e[2], e[3]>>)
  /\ \A N \in {16, 32, 64} : \A i \in 0..255 : PrintT(<<"FP8", N, LimbsOf(VFPExpandImm(i, N)), i>>)
  /\ \A a \in Lanes, b \in Lanes, c \in Lanes, d \in Lanes : PrintT(<<"MOV", <<a, b, c, d>>>>)

(* the counts the Arm ARM implies: sum over element sizes e of e*(e-1) *)
Counts == /\ Cardinality(LogicalEncodings(64)) = 7680 /\ Cardinality(LogicalValues64) = 5334   \* immr bits above the element size are ignored
          /\ Cardinality(LogicalEncodings(32)) = 3648 /\ Cardinality(LogicalValues32) = 1302
          /\ Cardinality(FPValues16) = 256 /\ Cardinality(FPValues32) = 256 /\ Cardinality(FPValues64) = 256

(* every precision of an imm8 denotes the same number *)
FPSameNumber == \A i \in 0..255 : \A N \in {16, 32, 64} : IEEENumber(VFPExpandImm(i, N), N) = FPNumber(i)
(* ... and the fraction bits below the top four are zero, the numbers are pairwise distinct *)
FPShape == /\ \A i \in 0..255 : \A N \in {16, 32, 64} :
                LET F == N - (IF N = 16 THEN 5 ELSE IF N = 32 THEN 8 ELSE 11) - 1
                IN \A k \in 1..(F - 4) : VFPExpandImm(i, N)[k] = 0
           /\ Cardinality({FPNumber(i) : i \in 0..255}) = 256
(* a few literal rows of the Arm ARM tables / well-known encodings *)
Literals == /\ LimbsOf(DecodeBitMasks(1, 0, 0, 64)) = <<1, 0, 0, 0>>                       \* #0x1
            /\ LimbsOf(DecodeBitMasks(0, 60, 0, 64)) = <<21845, 21845, 21845, 21845>>      \* 0x5555... (esize 2)
            /\ LimbsOf(DecodeBitMasks(0, 7, 0, 32)) = <<255, 0, 0, 0>>                     \* and w, w, #0xff
            /\ LimbsOf(DecodeBitMasks(1, 7, 8, 64)) = <<0, 0, 0, 65280>>                   \* 0xFF00000000000000
            /\ DecodeBitMasks(1, 63, 0, 64) = Undef /\ DecodeBitMasks(1, 0, 0, 32) = Undef /\ DecodeBitMasks(0, 62, 0, 64) = Undef
            /\ LimbsOf(VFPExpandImm(112, 64)) = <<0, 0, 0, 16368>>                         \* 1.0  = 0x3FF0...
            /\ LimbsOf(VFPExpandImm(112, 32)) = <<0, 16256, 0, 0>>                         \* 1.0f = 0x3F800000
            /\ LimbsOf(VFPExpandImm(112, 16)) = <<15360, 0, 0, 0>>                         \* 1.0h = 0x3C00
            /\ LimbsOf(VFPExpandImm(0, 64)) = <<0, 0, 0, 16384>>                           \* 2.0
            /\ FPNumber(112) = <<0, 16, 0>> /\ FPNumber(0) = <<0, 16, 1>> /\ FPNumber(64) = <<0, 16, 0 - 3>> /\ FPNumber(63) = <<0, 31, 4>>

FPCandInverse == /\ \A N \in {16, 32, 64} : \A i \in 0..255 : FPCand(VFPExpandImm(i, N), N) = i
                 /\ \A N \in {16, 32, 64} : \A v \in FPSet(N) : FPMember(v, N)
                 /\ ~FPMember(<<0, 0, 0, 0>>, 64) /\ ~FPMember(<<0, 0, 0, 32768>>, 64) /\ ~FPMember(<<0, 16256, 1, 0>>, 32) /\ ~FPMember(<<1, 0, 0, 16368>>, 64)
ASSUME Counts
ASSUME FPCandInverse
ASSUME FPSameNumber
ASSUME FPShape
ASSUME Literals

Init == x = 0 /\ PrintAll
Next == UNCHANGED x
Spec == Init /\ [][Next]_x
=============================================================================
