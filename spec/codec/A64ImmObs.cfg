SPECIFICATION Spec
INVARIANT Conforms
