INIT Init
NEXT Next
INVARIANTS WF RoundTrip FieldOnly Sound Tight IntAgrees ModImmLiteral
