INIT Init
NEXT Next
CONSTANT Dense = TRUE
INVARIANTS WF RoundTrip FieldOnly Sound Tight IntAgrees ModImmLiteral
