---------------------------- MODULE OffsetCodecObs -----------------------------
(* Pointwise conformance (binding P): every line of the observation file (env OBS) is one initial state; the  *)
(* invariant is the conformance predicate of OffsetCodec.tla evaluated on that observation.  A rejected       *)
(* observation is printed as <<"REJECT", line, clause>>; TLC runs with -continue so that all of them are seen. *)
EXTENDS OffsetCodec, TLC, Json, IOUtils

VARIABLE i

ObsFile == IF "OBS" \in DOMAIN IOEnv THEN IOEnv.OBS ELSE "obs.ndjson"
Obs == ndJsonDeserialize(ObsFile)

Init == i \in 1..Len(Obs)
Next == UNCHANGED i
Spec == Init /\ [][Next]_i

Verdict(o) == IF "run" \in DOMAIN o
              THEN (IF RunConforms(o) THEN ""
                    ELSE LET q == CHOOSE q \in o.lo..o.hi : RepresentableInt(o.f, q * o.m + o.r) # o.ok
                         IN IF o.ok THEN "accepts-unrepresentable" ELSE "refuses-representable")
              ELSE ObsVerdict(o)

Conforms == LET v == Verdict(Obs[i]) IN v = "" \/ (PrintT(<<"REJECT", i, v>>) /\ FALSE)
=============================================================================
