SPECIFICATION TSpec
INVARIANTS ForwardIsSeq BackwardIsReverse EmptyOk
CONSTRAINT Progress
POSTCONDITION TraceAccepted
