--------------------------------- MODULE Hash ---------------------------------
(* Contract of ArenaHash<NodeT> (C18): each of the two tables is a set of       *)
(* nodes <<id, key>> (several nodes may carry the same key).  get(key) returns  *)
(* some node with that key iff one exists; remove(node) removes exactly that    *)
(* node iff it is in the table.  Structural invariants on the logged bucket     *)
(* lists: every stored node appears exactly once, in the bucket that get()      *)
(* searches for its hash (reachability), and size counts the nodes.             *)
(* Bucket counts, growth thresholds and chain order are not specified.          *)
EXTENDS AdtLib

VARIABLES tab,   \* [1..2 -> set of <<id, key>>]
          hst    \* logged projection: sequence of [t, size, nb, buckets]
hvars == <<tab, hst>>
HEmpty == [t \in 1 .. 2 |-> {}]
HInit == tab = HEmpty /\ hst = <<>>

HStep(op, r, s) ==
  LET t == op[2] m == tab[t] o == 3 - t IN
  /\ hst' = s
  /\ CASE op[1] = "ins" -> r[1] /\ tab' = [tab EXCEPT ![t] = m \cup {<<op[4], op[3]>>}]
       [] op[1] = "rem" -> IF \E e \in m : e[1] = op[3]
                             THEN r[1] = 1 /\ tab' = [tab EXCEPT ![t] = {e \in m : e[1] # op[3]}]
                             ELSE r[1] = 0 /\ tab' = tab
       [] op[1] = "get" -> /\ tab' = tab
                           /\ IF \E e \in m : e[2] = op[3] THEN <<r[1], r[2]>> \in m /\ r[2] = op[3] ELSE r[1] = 0
       [] op[1] = "insn" -> r[1] /\ tab' = [tab EXCEPT ![t] = m \cup {<<op[5] + k, op[3] + k>> : k \in 0 .. op[4] - 1}]
       [] op[1] = "insk" -> r[1] /\ tab' = [tab EXCEPT ![t] = m \cup {<<op[5] + k - 1, op[4][k]>> : k \in 1 .. Len(op[4])}]
       [] op[1] = "rehash" -> tab' = tab                \* _rehash(row) called directly: contents unchanged
       [] op[1] = "remn" -> LET ids == op[3] .. op[3] + op[4] - 1 gone == {e \in m : e[1] \in ids} IN
                            r[1] = Cardinality(gone) /\ tab' = [tab EXCEPT ![t] = m \ gone]
       [] op[1] = "swap" -> tab' = [tab EXCEPT ![t] = tab[o], ![o] = m]
       [] op[1] = "release" -> tab' = [tab EXCEPT ![t] = {}]
       [] op[1] = "all" -> tab' = tab

(* x.buckets lists the non-empty buckets only: <<bucket index, <<node, ...>>>> with node = <<id, key, home>> *)
Positions(x) == UNION {{<<i, j>> : j \in 1 .. Len(x.buckets[i][2])} : i \in 1 .. Len(x.buckets)}
NodeAt(x, p) == x.buckets[p[1]][2][p[2]]
BucketOf(x, p) == x.buckets[p[1]][1]
HoldsExactly == \A k \in DOMAIN hst : LET x == hst[k] IN
                  /\ {<<NodeAt(x, p)[1], NodeAt(x, p)[2]>> : p \in Positions(x)} = tab[x.t]
                  /\ Cardinality(Positions(x)) = Cardinality(tab[x.t])          \* no node linked twice
SizeOk == \A k \in DOMAIN hst : hst[k].size = Cardinality(tab[hst[k].t])
Reachable == \A k \in DOMAIN hst : LET x == hst[k] IN
               /\ x.nb >= 1
               /\ \A i \in DOMAIN x.buckets : x.buckets[i][1] >= 0 /\ x.buckets[i][1] < x.nb
               /\ \A i \in 1 .. Len(x.buckets) - 1 : x.buckets[i][1] < x.buckets[i + 1][1]
               /\ \A p \in Positions(x) : NodeAt(x, p)[3] = BucketOf(x, p)  \* node sits in the bucket get() searches
HInv == HoldsExactly /\ SizeOk /\ Reachable
=============================================================================
