SPECIFICATION TSpec
INVARIANTS HoldsExactly SizeOk
CONSTRAINT Progress
POSTCONDITION TraceAccepted
