----------------------------- MODULE RBTreeTrace ------------------------------
(* Trace validation for C18: a recorded execution of the real container is      *)
(* accepted iff it is a behaviour of the contract RBTree.tla; the structural      *)
(* invariants are evaluated on the logged projection after every event.         *)
EXTENDS RBTree, TraceLib

VARIABLE l
tvars == <<keys, tst, l>>
T == TraceLog
Ev == T[l]
IsEv(e) == l <= Len(T) /\ Ev.e = e /\ l' = l + 1

TInit == RInit /\ l = 1 /\ InitProgress
(* a new execution, or the shared arena was reset (every container was reset with it) *)
TReset == (IsEv("Reset") \/ IsEv("ArenaReset")) /\ keys' = REmpty /\ tst' = <<>>
TOp == IsEv("Op") /\ RStep(Ev.op, Ev.r, Ev.st)
TNext == TReset \/ TOp
TSpec == TInit /\ [][TNext]_tvars
Progress == NoteProgress(l)
TraceAccepted == Accepted(Len(T))
=============================================================================
