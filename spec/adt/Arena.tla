-------------------------------- MODULE Arena --------------------------------
(* Contract of asmjit::Arena (property C18, allocator clause).                  *)
(*                                                                              *)
(* Abstract state: the set of live blocks handed out and not yet released       *)
(* (`live`: id -> region).  Every operation is parameterised by what the real   *)
(* allocator returned; it is enabled exactly for results the property allows:   *)
(* the returned block is aligned to Arena::kAlignment, at least as large as     *)
(* requested, lies inside memory owned by the arena and overlaps no live block  *)
(* (so a block can only be recycled after it was released).  Which address is   *)
(* chosen, how blocks grow and how slots are pooled is left open.               *)
(* `cb` are the buffers of the containers sharing the arena (they are live      *)
(* blocks whose allocation happened inside the container code).                 *)
EXTENDS AdtLib, TLC

Alignment == 8

VARIABLES live,     \* function: id -> [reg |-> region, req |-> requested bytes, kind]
          cb,       \* sequence of <<name, region>>: container buffers
          cfg,      \* [static |-> region or <<>>]
          ast       \* last logged projection of the allocator (chain, dynamic blocks, integrity)

avars == <<live, cb, cfg, ast>>

EmptyFn == [x \in {} |-> 0]
AInit == /\ live = EmptyFn /\ cb = <<>> /\ cfg = [static |-> <<>>]
         /\ ast = [ptr |-> <<0, 0>>, end |-> <<0, 0>>, chain |-> <<>>, cur |-> 0, bad |-> FALSE, dyn |-> <<>>, intact |-> TRUE, live |-> <<>>, cbuf |-> <<>>, stats |-> <<>>]

AllRegions == {live[i].reg : i \in DOMAIN live} \cup {cb[i][2] : i \in DOMAIN cb}

(* memory owned by the arena: a block of the chain, or the payload that follows a dynamic block header *)
InChain(s, r) == \E i \in DOMAIN s.chain : RInside(r, s.chain[i])
InDynamic(s, r) == \E i \in DOMAIN s.dyn : ASub(r[1], s.dyn[i]) > 0 /\ ASub(r[1], s.dyn[i]) <= 64
Owned(s, r) == InChain(s, r) \/ InDynamic(s, r)

Entry(s, id) == CHOOSE x \in Range(s.live) : x[1] = id

(* op = <<kind, size, ..>>, r = <<"Ok"|"Null", id, allocated size, flag>> ; s = projection after the call *)
AllocStep(op, r, s) ==
  IF r[1] # "Ok" THEN UNCHANGED <<live, cfg>>                     \* a reported failure (e.g. the heap refused a new block) hands
                                                                   \* out nothing; every live block stays intact and disjoint from
                                                                   \* everything handed out later (invariants below)
  ELSE /\ \E x \in Range(s.live) : x[1] = r[2]
       /\ LET x == Entry(s, r[2]) reg == x[2] IN
          /\ r[2] \notin DOMAIN live
          /\ RAligned(reg, Alignment)
          /\ RSize(reg) >= op[2] /\ r[3] >= op[2] /\ x[3] = op[2]
          /\ r[4]                                                   \* zeroed / duplicated contents as promised
          /\ (s.bad \/ Owned(s, reg))                               \* a corrupted chain is reported by ChainOk
          /\ \A q \in AllRegions : RDisjoint(reg, q)                \* overlaps no live block
          /\ live' = [i \in DOMAIN live \cup {r[2]} |-> IF i = r[2] THEN [reg |-> reg, req |-> x[3], kind |-> x[4]] ELSE live[i]]
       /\ UNCHANGED cfg

FreeStep(op, r, s) ==
  /\ op[2] \in DOMAIN live /\ live[op[2]].kind = "r"
  /\ r[1]                                                            \* contents were intact until released
  /\ live' = [i \in DOMAIN live \ {op[2]} |-> live[i]]
  /\ UNCHANGED cfg

ResetStep(op, r, s) ==
  /\ live' = EmptyFn
  /\ (op[2] = "hard" => /\ s.dyn = <<>>
                        /\ Len(s.chain) = (IF cfg.static = <<>> THEN 0 ELSE 1))
  /\ UNCHANGED cfg

ExtStep(op, r, s) == UNCHANGED <<live, cfg>>

AStep(op, r, s) ==
  /\ CASE op[1] \in {"oneshot", "zeroed", "reusable", "rzeroed", "dup"} -> AllocStep(op, r, s)
       [] op[1] = "free" -> FreeStep(op, r, s)
       [] op[1] = "reset" -> ResetStep(op, r, s)
       [] op[1] = "ext" -> ExtStep(op, r, s)
  /\ cb' = s.cbuf
  /\ ast' = s

(* ---- the property as state invariants ---- *)
ChainOk == ~ast.bad                                      \* the block chain never references released memory
ContentsIntact == ast.intact                             \* nobody wrote into a live block
LiveAsLogged == /\ Len(ast.live) = Cardinality(DOMAIN live)
                /\ \A i \in DOMAIN ast.live : LET x == ast.live[i] IN x[1] \in DOMAIN live /\ live[x[1]].reg = x[2]
AllAligned == \A q \in AllRegions : RAligned(q, Alignment)
AllOwned == ast.bad \/ \A q \in AllRegions : Owned(ast, q)
AllDisjoint == /\ \A i, j \in DOMAIN live : i # j => RDisjoint(live[i].reg, live[j].reg)
               /\ \A i \in DOMAIN live, j \in DOMAIN cb : RDisjoint(live[i].reg, cb[j][2])
               /\ \A i, j \in DOMAIN cb : i < j => RDisjoint(cb[i][2], cb[j][2])
StaticFirst == (cfg.static # <<>> /\ ~ast.bad) => /\ Len(ast.chain) >= 1
                                    /\ RInside(ast.chain[1], cfg.static)
(* statistics(): reserved = bytes of all blocks, used <= reserved, and everything live inside the chain is counted as used *)
StatsOk == (ast.bad \/ ast.stats = <<>> \/ ast.chain = <<>>) \/
           /\ ast.stats[1] = Len(ast.chain)
           /\ ast.stats[3] = SumSeq([i \in DOMAIN ast.chain |-> RSize(ast.chain[i])])
           /\ ast.stats[2] <= ast.stats[3]
           /\ ast.stats[2] >= SumSeq([i \in DOMAIN ast.cbuf |-> IF InChain(ast, ast.cbuf[i][2]) THEN RSize(ast.cbuf[i][2]) ELSE 0])
                               + SumSeq([i \in DOMAIN ast.live |-> IF InChain(ast, ast.live[i][2]) THEN RSize(ast.live[i][2]) ELSE 0])
(* the bump cursor: [ptr, end) is the unallocated tail of the current block - no live block may reach into it, *)
(* whatever happened before (including a request that failed half way)                                        *)
CursorOk == (ast.bad \/ ast.cur = 0) \/
            /\ ALe(ast.ptr, ast.end)
            /\ ast.end = ast.chain[ast.cur][2]
            /\ ALe(ast.chain[ast.cur][1], ast.ptr)
BumpFree == (ast.bad \/ ast.cur = 0 \/ ~ALt(ast.ptr, ast.end)) \/
            \A q \in AllRegions : RDisjoint(q, <<ast.ptr, ast.end>>)
ChainBlocksDisjoint == \A i, j \in DOMAIN ast.chain : i < j => RDisjoint(ast.chain[i], ast.chain[j])
AInv == CursorOk /\ BumpFree /\ StatsOk /\ ChainOk /\ ContentsIntact /\ LiveAsLogged /\ AllAligned /\ AllOwned /\ AllDisjoint /\ StaticFirst /\ ChainBlocksDisjoint
=============================================================================
