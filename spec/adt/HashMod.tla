------------------------------- MODULE HashMod --------------------------------
(* C18, hash table arithmetic (pointwise binding): ArenaHashBase::_calc_mod()   *)
(* replaces `hash % bucket_count` by a multiplication with a precomputed        *)
(* reciprocal:  x = (hash * rcp) >> shift ;  mod = hash - x * count.            *)
(* The table of (prime, rcp, shift) rows lives in arenahash.cpp.  The harness   *)
(* (adt hashmod) logs every row and, per row, the value _calc_mod really        *)
(* returned for adversarial 32-bit hash codes.  TLC judges every observation:   *)
(*   row : the reciprocal is the round-up one, rcp = ceil(2^shift / prime),     *)
(*         i.e. (rcp - 1) * prime < 2^shift <= rcp * prime, and the error       *)
(*         e = rcp * prime - 2^shift is small enough for EVERY 32-bit hash:     *)
(*         with h = q * prime + r the product h * rcp equals                    *)
(*         q * 2^shift + (q * e + r * rcp), so floor(h * rcp / 2^shift) = q     *)
(*         iff q * e + r * rcp < 2^shift; the left side is largest for          *)
(*         (q, r) = (qmax, rmax) with 2^32 - 1 = qmax * prime + rmax and for    *)
(*         (qmax - 1, prime - 1) - both are checked.  A reciprocal rounded down *)
(*         fails the first inequality, one that is too coarse the second.       *)
(*   mod : got = hash mod prime, computed here by long division, and got < prime*)
(*         (so the bucket index is inside the bucket array).                    *)
EXTENDS Big, TLC, Json, IOUtils

ObsFile == IF "OBS" \in DOMAIN IOEnv THEN IOEnv.OBS ELSE "hashmod.ndjson"
Obs == ndJsonDeserialize(ObsFile)

(* Observations are judged independently.  Two levels (block, then observation) so that TLC's workers share the *)
(* work: the successors of the NB block states are generated and checked in parallel.                          *)
NB == 64
VARIABLES ph, i
Init == ph = "block" /\ i \in 0 .. NB - 1
Next == /\ ph = "block" /\ ph' = "obs"
        /\ i' \in {j \in 1 .. Len(Obs) : j % NB = i}
Spec == Init /\ [][Next]_<<ph, i>>

Max32 == <<4095, 4095, 255, 0, 0, 0>>                \* 2^32 - 1
One == FromSmall(1)

RowOk(o) ==
  LET d == From32(o.p) m == From32(o.rcp) s == o.sh
      two == Pow2(s)
      md == Mul(m, d)
      top == DivMod32(Max32, d)                        \* qmax, rmax
      IN
  /\ o.same                                            \* _rehash() installs exactly this row
  /\ s >= 32 /\ s <= 63
  /\ Le(two, md)                                       \* 2^shift <= rcp * prime      (not rounded down)
  /\ Lt(Mul(Sub(m, One), d), two)                      \* (rcp - 1) * prime < 2^shift  (round-UP, not larger)
  /\ LET e == Sub(md, two) IN
     /\ Lt(Add(Mul(top.q, e), Mul(top.r, m)), two)                             \* h = 2^32 - 1
     /\ (Le(One, top.q) => Lt(Add(Mul(Sub(top.q, One), e), Mul(Sub(d, One), m)), two))   \* largest h = -1 (mod prime) below

ModOk(o) ==
  LET d == From32(o.p) h == From32(o.h) g == From32(o.got) IN
  /\ Lt(g, d)                                          \* inside the bucket array
  /\ g = DivMod32(h, d).r                              \* = hash mod prime

ObsOk == ph = "obs" => IF Obs[i].k = "row" THEN RowOk(Obs[i]) ELSE ModOk(Obs[i])
=============================================================================
