SPECIFICATION TSpec
INVARIANTS CursorOk BumpFree StatsOk ChainOk ContentsIntact LiveAsLogged AllAligned AllOwned AllDisjoint StaticFirst ChainBlocksDisjoint
CONSTRAINT Progress
POSTCONDITION TraceAccepted
