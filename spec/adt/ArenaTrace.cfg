SPECIFICATION TSpec
INVARIANTS ChainOk ContentsIntact LiveAsLogged AllAligned AllOwned AllDisjoint StaticFirst ChainBlocksDisjoint
CONSTRAINT Progress
POSTCONDITION TraceAccepted
