SPECIFICATION Spec
CONSTANTS
  Comp = "tree"
  Depth = 6
  K = 5
INVARIANTS Sane Export
