SPECIFICATION Spec
CONSTANTS
  Comps = {"tree", "list", "vector", "bitset"}
  DTree = 6
  DList = 4
  DVec = 4
  DBit = 3
  KTree = 5
  KList = 4
INVARIANTS Sane Export
