----------------------------- MODULE BitSetTrace ------------------------------
(* Trace validation for C18: a recorded execution of the real container is      *)
(* accepted iff it is a behaviour of the contract BitSet.tla; the structural      *)
(* invariants are evaluated on the logged projection after every event.         *)
EXTENDS BitSet, TraceLib

VARIABLE l
tvars == <<bs, bst, l>>
T == TraceLog
Ev == T[l]
IsEv(e) == l <= Len(T) /\ Ev.e = e /\ l' = l + 1

TInit == BInit /\ l = 1 /\ InitProgress
(* a new execution, or the shared arena was reset (every container was reset with it) *)
TReset == (IsEv("Reset") \/ IsEv("ArenaReset")) /\ bs' = BEmpty /\ bst' = <<>>
TOp == IsEv("Op") /\ BStep(Ev.op, Ev.r, Ev.st)
TNext == TReset \/ TOp
TSpec == TInit /\ [][TNext]_tvars
Progress == NoteProgress(l)
TraceAccepted == Accepted(Len(T))
=============================================================================
