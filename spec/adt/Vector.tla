-------------------------------- MODULE Vector --------------------------------
(* Contract of ArenaVector<T> (C18): the abstract value of each of the four     *)
(* vectors (1,2: uint32_t items; 3,4: 12-byte items) is a sequence; every       *)
(* operation acts on it like the textbook sequence operation; the logged        *)
(* projection (items, size, capacity) must equal the abstract value and keep    *)
(* size <= capacity.  Capacity growth factors are not specified.                *)
EXTENDS AdtLib, TLC

VARIABLES vec,   \* [1..4 -> Seq(Nat)]
          vst    \* last logged projection: sequence of [i, items, size, cap, ok, null]
vvars == <<vec, vst>>
VEmpty == [i \in 1 .. 4 |-> <<>>]
VInit == vec = VEmpty /\ vst = <<>>

Other(v) == IF v % 2 = 1 THEN v + 1 ELSE v - 1
Proj(s, v) == s[CHOOSE i \in DOMAIN s : s[i].i = v]
Ok(r) == r[1] = "Ok"
Set1(v, val) == [vec EXCEPT ![v] = val]

(* op = <<name, v, a, b>> ; r = result tuple ; s = projection after the call *)
VStep(op, r, s) ==
  LET v == op[2] m == vec[v] a == op[3] b == op[4] o == Other(v) IN
  /\ vst' = s
  /\ CASE op[1] = "append"      -> vec' = IF Ok(r) THEN Set1(v, Append(m, a)) ELSE vec
       [] op[1] = "prepend"     -> vec' = IF Ok(r) THEN Set1(v, <<a>> \o m) ELSE vec
       [] op[1] = "insert"      -> a <= Len(m) /\ vec' = IF Ok(r) THEN Set1(v, InsertAt(m, a + 1, b)) ELSE vec
       [] op[1] = "remove_at"   -> a < Len(m) /\ vec' = Set1(v, RemoveAt(m, a + 1))
       [] op[1] = "pop"         -> Len(m) > 0 /\ r[1] = m[Len(m)] /\ vec' = Set1(v, Take(m, Len(m) - 1))
       [] op[1] = "clear"       -> vec' = Set1(v, <<>>)
       [] op[1] = "truncate"    -> vec' = Set1(v, Take(m, a))
       [] op[1] \in {"resize_fit", "resize_grow"} ->
            vec' = IF Ok(r) THEN Set1(v, IF a <= Len(m) THEN Take(m, a) ELSE m \o Fill(a - Len(m), 0)) ELSE vec
       [] op[1] \in {"reserve_fit", "reserve_grow"} -> vec' = vec /\ (Ok(r) => Proj(s, v).cap >= a)
       [] op[1] = "reserve_add"  -> vec' = vec /\ (Ok(r) => Proj(s, v).cap >= Len(m) + a)
       [] op[1] = "reserve_huge" -> vec' = vec /\ ~Ok(r)          \* >= 2^32-1 items cannot be promised: must be reported
       [] op[1] = "concat"      -> vec' = IF Ok(r) THEN Set1(v, m \o vec[o]) ELSE vec
       [] op[1] = "swap"        -> vec' = [vec EXCEPT ![v] = vec[o], ![o] = m]
       [] op[1] = "release"     -> vec' = Set1(v, <<>>) /\ Proj(s, v).cap = 0
       [] op[1] = "sort"        -> LET it == Proj(s, v).items IN Ascending(it) /\ SameBag(it, m) /\ vec' = Set1(v, it)
       [] op[1] = "sort_desc"   -> LET it == Proj(s, v).items IN Ascending(Reverse(it)) /\ SameBag(it, m) /\ vec' = Set1(v, it)
       [] op[1] = "appendn"     -> vec' = IF Ok(r) THEN Set1(v, m \o [k \in 1 .. a |-> b + k - 1]) ELSE Set1(v, Proj(s, v).items)
       [] op[1] = "append_u"    -> vec' = Set1(v, Append(m, a))
       [] op[1] = "prepend_u"   -> vec' = Set1(v, <<a>> \o m)
       [] op[1] = "insert_u"    -> a <= Len(m) /\ vec' = Set1(v, InsertAt(m, a + 1, b))
       [] op[1] = "concat_u"    -> vec' = Set1(v, m \o vec[o])
       [] op[1] = "assign_u"    -> vec' = Set1(v, vec[o])
       [] op[1] = "move"        -> vec' = vec /\ r[1] = 0 /\ r[2] = 0 /\ r[3]       \* the moved-from vector is empty
       [] op[1] = "index_of"    -> vec' = vec /\ r[1] = FirstPos(m, a) - 1
       [] op[1] = "last_index_of" -> vec' = vec /\ r[1] = LastPos(m, a) - 1
       [] op[1] = "contains"    -> vec' = vec /\ r[1] = (IF \E i \in DOMAIN m : m[i] = a THEN 1 ELSE 0)
       [] op[1] = "iter"        -> vec' = vec /\ r[1] = m
       [] op[1] = "riter"       -> vec' = vec /\ r[1] = Reverse(m)
       [] op[1] = "all"         -> vec' = vec

(* ---- invariants over the logged projection ---- *)
HoldsExactly == \A i \in DOMAIN vst : vst[i].items = vec[vst[i].i]             \* elements and order
SizeOk == \A i \in DOMAIN vst : vst[i].size = Len(vec[vst[i].i]) /\ vst[i].size <= vst[i].cap
ItemsWhole == \A i \in DOMAIN vst : vst[i].ok                                  \* no torn 12-byte item
NullMeansEmpty == \A i \in DOMAIN vst : vst[i].null => vst[i].cap = 0
VInv == HoldsExactly /\ SizeOk /\ ItemsWhole /\ NullMeansEmpty
=============================================================================
