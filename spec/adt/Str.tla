--------------------------------- MODULE Str ----------------------------------
(* Contract of asmjit::String / StringTmp<N> / ArenaString<N> (C18).            *)
(* Each of the three strings (1,2: String, 3: StringTmp<40>) is a byte          *)
(* sequence.  Every operation is the textbook one; number and printf-style      *)
(* formatting are defined here (reference formatting), independently of the     *)
(* C++ code.  Logged projection: bytes [0,size), whether data[size] = NUL,      *)
(* size, capacity, storage mode.  64-bit numbers are four 16-bit limbs.         *)
EXTENDS AdtLib

VARIABLES str,   \* [1..3 -> Seq(0..255)]
          sst    \* logged projection: sequence of [s, bytes, nul, size, cap, mode, emb, empty]
svars == <<str, sst>>
SEmpty == [i \in 1 .. 3 |-> <<>>]
SInit == str = SEmpty /\ sst = <<>>
Ok(r) == r[1] = "Ok"
Proj(s, v) == s[CHOOSE k \in DOMAIN s : s[k].s = v]

(* ---------------- reference number formatting ---------------- *)
UpDigit(d) == IF d < 10 THEN 48 + d ELSE 55 + d          \* 0-9 A-Z
LoDigit(d) == IF d < 10 THEN 48 + d ELSE 87 + d          \* 0-9 a-z
IsZero(v) == v = <<0, 0, 0, 0>>
(* little-endian 4 x 16 bit number divided by a small base *)
DivSmall(v, base) ==
  LET c4 == v[4]              q4 == c4 \div base r4 == c4 % base
      c3 == r4 * 65536 + v[3] q3 == c3 \div base r3 == c3 % base
      c2 == r3 * 65536 + v[2] q2 == c2 \div base r2 == c2 % base
      c1 == r2 * 65536 + v[1] q1 == c1 \div base r1 == c1 % base
  IN [q |-> <<q1, q2, q3, q4>>, r |-> r1]
RECURSIVE Digits(_, _)
Digits(v, base) == LET d == DivSmall(v, base) IN
                   IF IsZero(d.q) THEN <<UpDigit(d.r)>> ELSE Append(Digits(d.q, base), UpDigit(d.r))
(* two's complement negation *)
Neg(v) ==
  LET a1 == 65536 - v[1]                 l1 == a1 % 65536 k1 == a1 \div 65536
      a2 == 65535 - v[2] + k1            l2 == a2 % 65536 k2 == a2 \div 65536
      a3 == 65535 - v[3] + k2            l3 == a3 % 65536 k3 == a3 \div 65536
      a4 == 65535 - v[4] + k3            l4 == a4 % 65536
  IN <<l1, l2, l3, l4>>
HasFlag(f, bit) == (f \div bit) % 2 = 1      \* 1 ShowSign, 2 ShowSpace, 4 Alternate
(* sign, radix prefix, zero padding up to `width` digits, digits *)
NumText(v, base, width, flags, signed) ==
  LET neg == signed /\ v[4] >= 32768
      mag == IF neg THEN Neg(v) ELSE v
      sign == IF neg THEN <<45>> ELSE IF HasFlag(flags, 1) THEN <<43>> ELSE IF HasFlag(flags, 2) THEN <<32>> ELSE <<>>
      alt == IF ~HasFlag(flags, 4) THEN <<>>
             ELSE IF base = 8 THEN (IF IsZero(v) THEN <<>> ELSE <<48>>)
             ELSE IF base = 16 THEN <<48, 120>> ELSE <<>>
      dg == Digits(mag, base)
      zeros == IF width > Len(dg) THEN Fill(width - Len(dg), 48) ELSE <<>>
  IN sign \o alt \o zeros \o dg
NumTexts(v, base0, width, flags, signed) ==
  LET base == IF base0 = 0 THEN 10 ELSE base0 IN
  IF width <= 256 THEN {NumText(v, base, width, flags, signed)}
  ELSE {NumText(v, base, 256, flags, signed), NumText(v, base, width, flags, signed)}   \* a width cap of 256 is accepted

RECURSIVE IntDigits(_, _, _)
IntDigits(x, base, lower) == LET d == IF lower THEN LoDigit(x % base) ELSE UpDigit(x % base) IN
                             IF x < base THEN <<d>> ELSE Append(IntDigits(x \div base, base, lower), d)
(* printf "%<flags><width><conv>" for one int argument; flags in {"", "0", "-", "+"}, conv in d u x X *)
PrintfInt(x, flags, width, conv) ==
  LET mag == IF x < 0 THEN 0 - x ELSE x
      dg == IF conv = "x" THEN IntDigits(mag, 16, TRUE) ELSE IF conv = "X" THEN IntDigits(mag, 16, FALSE) ELSE IntDigits(mag, 10, FALSE)
      sign == IF x < 0 THEN <<45>> ELSE IF flags = "+" /\ conv = "d" THEN <<43>> ELSE <<>>
      n == Len(sign) + Len(dg)
      pad == IF width > n THEN width - n ELSE 0
  IN IF flags = "-" THEN sign \o dg \o Fill(pad, 32)
     ELSE IF flags = "0" THEN sign \o Fill(pad, 48) \o dg
     ELSE Fill(pad, 32) \o sign \o dg
HexByte(b) == <<UpDigit(b \div 16), UpDigit(b % 16)>>
RECURSIVE HexText(_, _)
HexText(bytes, sep) == IF bytes = <<>> THEN <<>>
                       ELSE IF Len(bytes) = 1 THEN HexByte(bytes[1])
                       ELSE HexByte(bytes[1]) \o (IF sep = 0 THEN <<>> ELSE <<sep>>) \o HexText(Tail(bytes), sep)

(* ---------------- operations ---------------- *)
(* op = <<name, s, assign, bytes, a, b, c, limbs, flags, conv>> *)
SStep(op, r, s) ==
  LET i == op[2] m == str[i] asg == op[3] = 1 bytes == op[4] a == op[5] b == op[6] c == op[7]
      Set(x) == [str EXCEPT ![i] = x]
      act == Proj(s, i).bytes
      (* a fallible modification producing `text`: assign replaces, append extends; on a reported error the   *)
      (* contents are unspecified (the model follows the projection, structural invariants still apply)       *)
      (* a refused heap request must leave the string as it was *)
      Keep == r[1] = "OutOfMemory" => act = m
      Mod(texts) == IF ~Ok(r) THEN str' = Set(act) /\ Keep
                    ELSE LET res(t) == IF asg THEN t ELSE m \o t IN        \* deterministic: one successor state
                         IF \E t \in texts : res(t) = act THEN str' = Set(act)
                         ELSE str' = Set(res(CHOOSE t \in texts : TRUE))
  IN
  /\ sst' = s
  /\ CASE op[1] \in {"assign", "assign_cstr"} -> str' = (IF Ok(r) THEN Set(bytes) ELSE Set(act)) /\ Keep
       [] op[1] = "str" -> Mod({bytes})
       [] op[1] = "char" -> Mod({<<a>>})
       [] op[1] = "chars" -> Mod({Fill(b, a)})
       [] op[1] = "num" -> LET base == IF a = 0 THEN 10 ELSE a IN
                           IF base \in 2 .. 36 THEN Mod(NumTexts(op[8], a, b, c, op[10] = "d"))
                           ELSE ~Ok(r) /\ str' = Set(act)                  \* there is no such base: must be reported
       [] op[1] = "hex" -> Mod({HexText(bytes, a)})
       [] op[1] = "fmts" -> Mod({Fill(a, 35) \o bytes})
       [] op[1] = "fmtd" -> Mod({PrintfInt(a, op[9], b, op[10])})
       [] op[1] = "pad_end" -> IF ~Ok(r) THEN str' = Set(act) /\ Keep ELSE str' = Set(IF a > Len(m) THEN m \o Fill(a - Len(m), b) ELSE m)
       [] op[1] = "truncate" -> Ok(r) /\ str' = Set(Take(m, a))
       [] op[1] \in {"clear", "reset"} -> Ok(r) /\ str' = Set(<<>>)
       [] op[1] = "swap" -> str' = [str EXCEPT ![1] = str[2], ![2] = str[1]]
       [] op[1] = "move" -> str' = [str EXCEPT ![i] = str[3 - i], ![3 - i] = <<>>]
       [] op[1] = "assign_str" -> str' = (IF Ok(r) THEN Set(str[a + 1]) ELSE Set(act)) /\ Keep
       [] op[1] = "append_str" -> str' = (IF Ok(r) THEN Set(m \o str[a + 1]) ELSE Set(act)) /\ Keep
       [] op[1] = "append_self" -> str' = IF Ok(r) THEN Set(m \o m) ELSE Set(act)
       [] op[1] = "assign_sub" -> a + b <= Len(m) /\ str' = IF Ok(r) THEN Set(SubSeq(m, a + 1, a + b)) ELSE Set(act)
       [] op[1] \in {"eq", "eq_cstr"} -> str' = str /\ r[1] = (IF m = bytes THEN 1 ELSE 0)
       [] op[1] = "eq_str" -> str' = str /\ r[1] = (IF m = str[a + 1] THEN 1 ELSE 0)
       [] op[1] = "astr" -> /\ str' = str                                  \* ArenaString<N>::set_data (stateless)
                            /\ (Ok(r) => /\ r[2] = bytes /\ r[3]
                                         /\ (r[4] => Len(bytes) + 1 <= (IF a = 0 THEN 16 ELSE 32) - 4))

HoldsExactly == \A k \in DOMAIN sst : sst[k].bytes = str[sst[k].s]
NulTerminated == \A k \in DOMAIN sst : sst[k].nul
SizeOk == \A k \in DOMAIN sst : LET x == sst[k] IN
            /\ x.size = Len(str[x.s]) /\ x.size <= x.cap
            /\ x.empty = (str[x.s] = <<>>)
ModeOk == \A k \in DOMAIN sst : LET x == sst[k] IN
            /\ x.mode \in {"small", "large", "external"}
            /\ (x.mode = "external" => x.s = 3 /\ x.emb)     \* external storage is the embedded buffer of StringTmp
SInv == HoldsExactly /\ NulTerminated /\ SizeOk /\ ModeOk
=============================================================================
