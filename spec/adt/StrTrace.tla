----------------------------- MODULE StrTrace ------------------------------
(* Trace validation for C18: a recorded execution of the real container is      *)
(* accepted iff it is a behaviour of the contract Str.tla; the structural      *)
(* invariants are evaluated on the logged projection after every event.         *)
EXTENDS Str, TraceLib

VARIABLE l
tvars == <<str, sst, l>>
T == TraceLog
Ev == T[l]
IsEv(e) == l <= Len(T) /\ Ev.e = e /\ l' = l + 1

TInit == SInit /\ l = 1 /\ InitProgress
(* a new execution, or the shared arena was reset (every container was reset with it) *)
TReset == (IsEv("Reset") \/ IsEv("ArenaReset")) /\ str' = SEmpty /\ sst' = <<>>
TOp == IsEv("Op") /\ SStep(Ev.op, Ev.r, Ev.st)
TNote == IsEv("Note") /\ UNCHANGED svars                   \* announcement of a call that may not return
TNext == TReset \/ TOp \/ TNote
TSpec == TInit /\ [][TNext]_tvars
Progress == NoteProgress(l)
TraceAccepted == Accepted(Len(T))
=============================================================================
