-------------------------------- MODULE AdtLib --------------------------------
(* Small library shared by the C18 container specifications: sequence editing,  *)
(* ordered sequences, addresses as <<hi, lo>> pairs (lo = 24 bits; TLC integers *)
(* are 32 bit, real addresses are 47 bit).                                      *)
EXTENDS Naturals, Integers, Sequences, FiniteSets, TLC, IOUtils

Range(s) == {s[i] : i \in DOMAIN s}
Reverse(s) == [i \in 1 .. Len(s) |-> s[Len(s) + 1 - i]]
InsertAt(s, i, x) == SubSeq(s, 1, i - 1) \o <<x>> \o SubSeq(s, i, Len(s))       \* x becomes element i
RemoveAt(s, i) == SubSeq(s, 1, i - 1) \o SubSeq(s, i + 1, Len(s))
Take(s, n) == SubSeq(s, 1, IF n < Len(s) THEN n ELSE Len(s))
Fill(n, x) == [i \in 1 .. n |-> x]
PosOf(s, x) == CHOOSE i \in DOMAIN s : s[i] = x
FirstPos(s, x) == IF \E i \in DOMAIN s : s[i] = x THEN CHOOSE i \in DOMAIN s : s[i] = x /\ \A j \in 1 .. i - 1 : s[j] # x ELSE 0
LastPos(s, x) == IF \E i \in DOMAIN s : s[i] = x THEN CHOOSE i \in DOMAIN s : s[i] = x /\ \A j \in i + 1 .. Len(s) : s[j] # x ELSE 0
Count(s, x) == Cardinality({i \in DOMAIN s : s[i] = x})
SameBag(s, t) == Len(s) = Len(t) /\ \A x \in Range(s) \cup Range(t) : Count(s, x) = Count(t, x)
Ascending(s) == \A i \in 1 .. Len(s) - 1 : s[i] <= s[i + 1]
StrictAsc(s) == \A i \in 1 .. Len(s) - 1 : s[i] < s[i + 1]
(* s enumerates exactly the set S in increasing order *)
IsSortedEnum(s, S) == StrictAsc(s) /\ Range(s) = S /\ Len(s) = Cardinality(S)
NoDup(s) == Cardinality(Range(s)) = Len(s)

(* ---- addresses ---- *)
ALe(a, b) == a[1] < b[1] \/ (a[1] = b[1] /\ a[2] <= b[2])
ALt(a, b) == a[1] < b[1] \/ (a[1] = b[1] /\ a[2] < b[2])
(* b - a, saturated to +-2^30 when the addresses are far apart *)
ASub(b, a) == IF b[1] = a[1] THEN b[2] - a[2]
              ELSE IF b[1] = a[1] + 1 THEN b[2] - a[2] + 16777216
              ELSE IF b[1] + 1 = a[1] THEN b[2] - a[2] - 16777216
              ELSE IF b[1] > a[1] THEN 1073741824 ELSE -1073741824
(* a region is <<start, end>> (end exclusive) *)
RInside(r, c) == ALe(c[1], r[1]) /\ ALe(r[2], c[2])
RDisjoint(r, q) == ALe(r[2], q[1]) \/ ALe(q[2], r[1])
RAligned(r, n) == r[1][2] % n = 0
RSize(r) == ASub(r[2], r[1])
RECURSIVE SumSeq(_)
SumSeq(s) == IF s = <<>> THEN 0 ELSE s[1] + SumSeq(Tail(s))
=============================================================================
