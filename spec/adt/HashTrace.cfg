SPECIFICATION TSpec
INVARIANTS HoldsExactly SizeOk Reachable
CONSTRAINT Progress
POSTCONDITION TraceAccepted
