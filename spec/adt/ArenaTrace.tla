----------------------------- MODULE ArenaTrace ------------------------------
(* Trace validation: a recorded execution of the real Arena is accepted iff it  *)
(* is a behaviour of the contract Arena.tla (invariants checked in every state).*)
EXTENDS Arena, TraceLib

VARIABLE l
tvars == <<live, cb, cfg, ast, l>>
T == TraceLog
Ev == T[l]
IsEv(e) == l <= Len(T) /\ Ev.e = e /\ l' = l + 1

TInit == AInit /\ l = 1 /\ InitProgress
TReset == /\ IsEv("Reset")
          /\ live' = EmptyFn /\ cb' = <<>> /\ cfg' = [static |-> Ev.static]
          /\ ast' = Ev.st
TOp == IsEv("Op") /\ AStep(Ev.op, Ev.r, Ev.st)
TDestroyed == IsEv("Destroyed") /\ UNCHANGED avars          \* the destructor (hard reset) returned
TNext == TReset \/ TOp \/ TDestroyed
TSpec == TInit /\ [][TNext]_tvars
Progress == NoteProgress(l)
TraceAccepted == Accepted(Len(T))
=============================================================================
