-------------------------------- MODULE RBTree --------------------------------
(* Contract of ArenaTree<NodeT> (C18): each of the two trees is a set of keys.  *)
(* The logged structure is the real tree as nested tuples                       *)
(*   <<left, key, colour, right>>   with <<>> for an absent child.              *)
(* Structural invariants, checked after every operation: binary-search order,   *)
(* black root, no red node with a red child, equal black height on every path   *)
(* (hence height <= 2*log2(n+1)).                                               *)
EXTENDS AdtLib

VARIABLES keys,  \* [1..2 -> SUBSET Nat]
          tst    \* logged projection: sequence of [t, tree]
rvars == <<keys, tst>>
REmpty == [t \in 1 .. 2 |-> {}]
RInit == keys = REmpty /\ tst = <<>>

RStep(op, r, s) ==
  LET t == op[2] m == keys[t] k == op[3] IN
  /\ tst' = s
  /\ CASE op[1] = "ins" -> k \notin m /\ keys' = [keys EXCEPT ![t] = m \cup {k}]
       [] op[1] = "rem" -> r[1] = (k \in m) /\ keys' = [keys EXCEPT ![t] = m \ {k}]
       [] op[1] = "get" -> keys' = keys /\ r[1] = (IF k \in m THEN k ELSE -1)
       [] op[1] = "insn" -> LET rg == k .. k + op[4] - 1 IN
                            r[1] = Cardinality(rg \ m) /\ keys' = [keys EXCEPT ![t] = m \cup rg]
       [] op[1] = "remn" -> LET rg == k .. k + op[4] - 1 IN
                            r[1] = Cardinality(rg \cap m) /\ keys' = [keys EXCEPT ![t] = m \ rg]
       [] op[1] = "swap" -> keys' = [keys EXCEPT ![t] = keys[3 - t], ![3 - t] = m]
       [] op[1] = "reset" -> keys' = [keys EXCEPT ![t] = {}]

Nil(n) == n = <<>>
RECURSIVE InOrder(_), BlackHeight(_), NoRedRed(_), Height(_)
InOrder(n) == IF Nil(n) THEN <<>> ELSE InOrder(n[1]) \o <<n[2]>> \o InOrder(n[4])
IsRed(n) == ~Nil(n) /\ n[3] = "R"
(* number of black nodes on every root-to-leaf path, or -1 when two paths differ *)
BlackHeight(n) == IF Nil(n) THEN 1
                  ELSE LET a == BlackHeight(n[1]) b == BlackHeight(n[4]) IN
                       IF a = -1 \/ b = -1 \/ a # b THEN -1 ELSE a + (IF n[3] = "B" THEN 1 ELSE 0)
NoRedRed(n) == Nil(n) \/ (/\ (IsRed(n) => ~IsRed(n[1]) /\ ~IsRed(n[4]))
                          /\ NoRedRed(n[1]) /\ NoRedRed(n[4]))
Height(n) == IF Nil(n) THEN 0 ELSE 1 + (LET a == Height(n[1]) b == Height(n[4]) IN IF a > b THEN a ELSE b)
RECURSIVE Log2Floor(_)
Log2Floor(x) == IF x <= 1 THEN 0 ELSE 1 + Log2Floor(x \div 2)

HoldsExactlyOrdered == \A i \in DOMAIN tst : IsSortedEnum(InOrder(tst[i].tree), keys[tst[i].t])   \* BST order + exact key set
RootBlack == \A i \in DOMAIN tst : ~IsRed(tst[i].tree)
RedHasBlackChildren == \A i \in DOMAIN tst : NoRedRed(tst[i].tree)
Balanced == \A i \in DOMAIN tst : BlackHeight(tst[i].tree) # -1
HeightBound == \A i \in DOMAIN tst : Height(tst[i].tree) <= 2 * (Log2Floor(Cardinality(keys[tst[i].t]) + 1) + 1)
RInv == HoldsExactlyOrdered /\ RootBlack /\ RedHasBlackChildren /\ Balanced /\ HeightBound
=============================================================================
