--------------------------------- MODULE Pool ---------------------------------
(* Contract of ArenaPool<T> (C18): the pool holds exactly the released objects. *)
(* alloc() hands out a released object while one exists (which one is free),    *)
(* otherwise fresh aligned arena memory that is no live or pooled object;       *)
(* release() adds exactly that object.  Objects are numbered by the harness in  *)
(* order of first appearance of their address (slot ids); their memory regions  *)
(* are also checked for overlap by the Arena trace.                             *)
EXTENDS AdtLib

VARIABLES plive, pfree,   \* sets of slot ids
          pst             \* logged projection [count, free (sequence of slot ids along the free list)]
pvars == <<plive, pfree, pst>>
PInit == plive = {} /\ pfree = {} /\ pst = [count |-> 0, free |-> <<>>]

PStep(op, r, s) ==
  /\ pst' = s
  /\ CASE op[1] = "alloc" ->
            IF r[1] = 0 THEN UNCHANGED <<plive, pfree>>                      \* reported failure
            ELSE /\ r[3]                                                       \* aligned
                 /\ IF pfree # {} THEN r[1] \in pfree /\ ~r[2]                \* reuses a released object
                                  ELSE r[2] /\ r[1] \notin plive              \* fresh memory
                 /\ plive' = plive \cup {r[1]} /\ pfree' = pfree \ {r[1]}
       [] op[1] = "release" -> /\ op[2] \in plive /\ r[1]                     \* contents intact while live
                               /\ plive' = plive \ {op[2]} /\ pfree' = pfree \cup {op[2]}

HoldsExactly == Range(pst.free) = pfree /\ NoDup(pst.free)
CountOk == pst.count = Cardinality(pfree)
PInv == HoldsExactly /\ CountOk
=============================================================================
