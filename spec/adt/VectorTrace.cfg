SPECIFICATION TSpec
INVARIANTS HoldsExactly SizeOk ItemsWhole NullMeansEmpty
CONSTRAINT Progress
POSTCONDITION TraceAccepted
