-------------------------------- MODULE BitVec --------------------------------
(* Contract of the raw bit-vector primitives of support.h (C18): two 256-bit    *)
(* buffers, each a subset of 0..255.  bit_vector_fill/clear are interval        *)
(* union/difference, index_of is the minimum matching index >= start, the       *)
(* iterators enumerate (combinations of) the sets in increasing order from a    *)
(* start index.  Guard words around the buffers must stay untouched.            *)
EXTENDS AdtLib

VARIABLES bv,    \* [1..2 -> SUBSET 0..255]
          vst    \* logged projection [b, bits, guards]
bvvars == <<bv, vst>>
BVEmpty == [i \in 1 .. 2 |-> {}]
BVInit == bv = BVEmpty /\ vst = [b |-> 1, bits |-> <<>>, guards |-> TRUE]
Iv(a, n) == a .. a + n - 1
BitsOf(x) == {i \in 0 .. 30 : (x \div (2 ^ i)) % 2 = 1}

BVStep(op, r, s) ==
  LET i == op[2] m == bv[i] o == bv[3 - i] a == op[3] c == op[4] Set(b) == [bv EXCEPT ![i] = b] IN
  /\ vst' = s
  /\ CASE op[1] = "fill" -> bv' = Set(m \cup Iv(a, c))
       [] op[1] = "clear" -> bv' = Set(m \ Iv(a, c))
       [] op[1] = "set" -> bv' = Set(IF c # 0 THEN m \cup {a} ELSE m \ {a})
       [] op[1] = "or" -> bv' = Set(IF c # 0 THEN m \cup {a} ELSE m)
       [] op[1] = "xor" -> bv' = Set(IF c = 0 THEN m ELSE IF a \in m THEN m \ {a} ELSE m \cup {a})
       [] op[1] = "get" -> bv' = bv /\ r[1] = (IF a \in m THEN 1 ELSE 0)
       [] op[1] = "index_of" -> /\ bv' = bv
                                /\ LET cand == {x \in a .. 255 : (x \in m) = (c # 0)} IN
                                   cand # {} /\ r[1] \in cand /\ \A x \in cand : r[1] <= x
       [] op[1] = "iter" -> bv' = bv /\ IsSortedEnum(r, {x \in m : x >= a})
       [] op[1] = "opiter" -> /\ bv' = bv
                              /\ LET comb == CASE c = 0 -> m \cap o [] c = 1 -> m \ o
                                               [] c = 2 -> (m \ o) \cup (o \ m) [] OTHER -> m \cup o IN
                                 IsSortedEnum(r, {x \in comb : x >= a})
       [] op[1] = "worditer" -> bv' = bv /\ IsSortedEnum(r, BitsOf(a))

HoldsExactly == Range(vst.bits) = bv[vst.b] /\ NoDup(vst.bits)
GuardsIntact == vst.guards
BVInv == HoldsExactly /\ GuardsIntact
=============================================================================
