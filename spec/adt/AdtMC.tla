--------------------------------- MODULE AdtMC ---------------------------------
(* Model checking of the abstract data types themselves (C18) and export of     *)
(* behaviours: TLC enumerates every operation sequence of length Depth over a   *)
(* small alphabet for each container in Comps, checks the sanity          *)
(* invariants of the abstract type in every state and prints each maximal       *)
(* behaviour as an operation script <<"BEH", hist>>.  The scripts are executed  *)
(* on the real container by harness/adt.cpp (script mode) and the recorded      *)
(* traces are judged by the contract modules (the Trace modules).                      *)
(* Operation tuples have the layout the harness and the contracts use.          *)
EXTENDS AdtLib

CONSTANTS Comps,          \* subset of {"tree", "list", "vector", "bitset"} explored in this run
          DTree, DList, DVec, DBit,   \* length of every exported behaviour, per container
          KTree, KList     \* alphabet size (keys / list node ids)

VARIABLES Comp, hist, m
vars == <<Comp, hist, m>>

Depth == CASE Comp = "tree" -> DTree [] Comp = "list" -> DList [] Comp = "vector" -> DVec [] Comp = "bitset" -> DBit
K == CASE Comp = "tree" -> KTree [] Comp = "list" -> KList [] OTHER -> 0

Init == /\ Comp \in Comps
        /\ hist = <<>>
        /\ m = CASE Comp = "tree" -> {}
                 [] Comp = "list" -> <<>>
                 [] Comp = "vector" -> <<>>
                 [] Comp = "bitset" -> [size |-> 0, bits |-> {}]

Do(op, nm) == hist' = Append(hist, op) /\ m' = nm
Step == Len(hist) + 1

TreeNext == \E k \in 1 .. K :
              \/ k \notin m /\ Do(<<"ins", 1, k>>, m \cup {k})
              \/ k \in m /\ Do(<<"rem", 1, k>>, m \ {k})

(* node ids 1..K are created by a fixed prefix of "new" operations added by the runner *)
ListNext == \/ \E a \in 1 .. K : a \notin Range(m) /\
                 \/ Do(<<"append", 1, a, 0>>, Append(m, a))
                 \/ Do(<<"prepend", 1, a, 0>>, <<a>> \o m)
                 \/ \E ref \in Range(m) : \/ Do(<<"ins_after", 1, ref, a>>, InsertAt(m, PosOf(m, ref) + 1, a))
                                          \/ Do(<<"ins_before", 1, ref, a>>, InsertAt(m, PosOf(m, ref), a))
            \/ \E a \in Range(m) : Do(<<"unlink", 1, a, 0>>, RemoveAt(m, PosOf(m, a)))
            \/ m # <<>> /\ Do(<<"pop", 1, 0, 0>>, Take(m, Len(m) - 1))
            \/ m # <<>> /\ Do(<<"pop_first", 1, 0, 0>>, Tail(m))

(* vector 3 holds 12-byte items; the value appended at step n is n *)
VecNext == \/ Do(<<"append", 3, Step, 0>>, Append(m, Step))
           \/ Do(<<"prepend", 3, Step, 0>>, <<Step>> \o m)
           \/ \E i \in 0 .. Len(m) : Do(<<"insert", 3, i, Step>>, InsertAt(m, i + 1, Step))
           \/ \E i \in 0 .. Len(m) - 1 : Do(<<"remove_at", 3, i, 0>>, RemoveAt(m, i + 1))
           \/ m # <<>> /\ Do(<<"pop", 3, 0, 0>>, Take(m, Len(m) - 1))
           \/ \E n \in {0, 1, 6} : Do(<<"resize_fit", 3, n, 0>>, IF n <= Len(m) THEN Take(m, n) ELSE m \o Fill(n - Len(m), 0))

Sizes == {0, 3, 64, 70, 130}
BitNext == \/ \E n \in Sizes, v \in 0 .. 1 :
                 Do(<<"resize", 1, n, v>>, [size |-> n, bits |-> IF n <= m.size THEN {x \in m.bits : x < n}
                                                                    ELSE m.bits \cup (IF v = 1 THEN m.size .. n - 1 ELSE {})])
           \/ \E s \in {0, 2, 63, 64, 69} : \E c \in {1, 3, 61, 66} : s + c <= m.size /\
                 \/ Do(<<"fill", 1, s, c>>, [m EXCEPT !.bits = @ \cup (s .. s + c - 1)])
                 \/ Do(<<"clearr", 1, s, c>>, [m EXCEPT !.bits = @ \ (s .. s + c - 1)])
           \/ \E v \in 0 .. 1 : Do(<<"append", 1, v, 0>>, [size |-> m.size + 1, bits |-> m.bits \cup (IF v = 1 THEN {m.size} ELSE {})])
           \/ \E n \in {1, 64, 65} : n < m.size /\ Do(<<"truncate", 1, n, 0>>, [size |-> n, bits |-> {x \in m.bits : x < n}])

Next == /\ Len(hist) < Depth
        /\ UNCHANGED Comp
        /\ CASE Comp = "tree" -> TreeNext [] Comp = "list" -> ListNext
             [] Comp = "vector" -> VecNext [] Comp = "bitset" -> BitNext
Spec == Init /\ [][Next]_vars

(* sanity of the abstract types *)
Sane == CASE Comp = "tree" -> m \subseteq 1 .. K /\ Cardinality(m) <= Len(hist)
          [] Comp = "list" -> NoDup(m) /\ Range(m) \subseteq 1 .. K
          [] Comp = "vector" -> Len(m) <= 6 + Len(hist) /\ \A i \in DOMAIN m : m[i] <= Len(hist)
          [] Comp = "bitset" -> m.bits \subseteq 0 .. m.size - 1
Export == Len(hist) = Depth => PrintT(<<"BEH", Comp, hist>>)
=============================================================================
