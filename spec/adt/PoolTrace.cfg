SPECIFICATION TSpec
INVARIANTS HoldsExactly CountOk
CONSTRAINT Progress
POSTCONDITION TraceAccepted
