SPECIFICATION TSpec
INVARIANTS HoldsExactly GuardsIntact
CONSTRAINT Progress
POSTCONDITION TraceAccepted
