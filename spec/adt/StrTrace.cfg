SPECIFICATION TSpec
INVARIANTS HoldsExactly NulTerminated SizeOk ModeOk
CONSTRAINT Progress
POSTCONDITION TraceAccepted
