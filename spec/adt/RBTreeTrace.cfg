SPECIFICATION TSpec
INVARIANTS HoldsExactlyOrdered RootBlack RedHasBlackChildren Balanced HeightBound
CONSTRAINT Progress
POSTCONDITION TraceAccepted
