SPECIFICATION Spec
INVARIANT ObsOk
