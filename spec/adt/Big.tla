--------------------------------- MODULE Big ----------------------------------
(* Natural numbers beyond TLC's 32-bit integers: little-endian sequences of     *)
(* base-4096 digits, always N = 6 digits long (72 bits).  Column sums of a      *)
(* 3-digit x 3-digit product stay below 2^26, so no intermediate overflows.     *)
EXTENDS Naturals, Integers, Sequences

B == 4096
N == 6
Zero == [i \in 1 .. N |-> 0]
(* a 32-bit value logged as <<lo16, hi16>> *)
From32(w) == LET v0 == w[1] % B
                 v1 == (w[1] \div B) + (w[2] % 256) * 16
                 v2 == w[2] \div 256
             IN <<v0, v1, v2, 0, 0, 0>>
FromSmall(x) == <<x % B, (x \div B) % B, x \div (B * B), 0, 0, 0>>          \* x < 2^31
(* carry propagation of a digit vector whose entries may exceed B - 1 *)
RECURSIVE NormFrom(_, _, _)
NormFrom(v, i, c) == IF i > N THEN v
                     ELSE LET t == v[i] + c IN NormFrom([v EXCEPT ![i] = t % B], i + 1, t \div B)
Norm(v) == NormFrom(v, 1, 0)
Add(a, b) == Norm([i \in 1 .. N |-> a[i] + b[i]])
(* a - b for a >= b : add B to every digit, subtract, renormalise, drop the surplus *)
RECURSIVE SubFrom(_, _, _, _)
SubFrom(a, b, i, br) == IF i > N THEN a
                        ELSE LET t == a[i] - b[i] - br IN
                             IF t < 0 THEN SubFrom([a EXCEPT ![i] = t + B], b, i + 1, 1)
                                      ELSE SubFrom([a EXCEPT ![i] = t], b, i + 1, 0)
Sub(a, b) == SubFrom(a, b, 1, 0)
RECURSIVE CmpFrom(_, _, _)
CmpFrom(a, b, i) == IF i = 0 THEN 0 ELSE IF a[i] < b[i] THEN -1 ELSE IF a[i] > b[i] THEN 1 ELSE CmpFrom(a, b, i - 1)
Cmp(a, b) == CmpFrom(a, b, N)
Lt(a, b) == Cmp(a, b) = -1
Le(a, b) == Cmp(a, b) # 1
(* product of two numbers below 2^36 (3 significant digits each) *)
Mul(a, b) == Norm([k \in 1 .. N |->
               IF k = 1 THEN a[1] * b[1]
               ELSE IF k = 2 THEN a[1] * b[2] + a[2] * b[1]
               ELSE IF k = 3 THEN a[1] * b[3] + a[2] * b[2] + a[3] * b[1]
               ELSE IF k = 4 THEN a[2] * b[3] + a[3] * b[2]
               ELSE IF k = 5 THEN a[3] * b[3] ELSE 0])
Pow2(s) == [i \in 1 .. N |-> IF i = (s \div 12) + 1 THEN 2 ^ (s % 12) ELSE 0]          \* s < 72
Bit(a, k) == (a[(k \div 12) + 1] \div (2 ^ (k % 12))) % 2
(* quotient and remainder of two 32-bit numbers by binary long division *)
RECURSIVE DivStep(_, _, _, _, _)
DivStep(h, d, k, q, r) ==
  IF k < 0 THEN [q |-> q, r |-> r]
  ELSE LET r2 == Add(Add(r, r), FromSmall(Bit(h, k))) IN
       IF Le(d, r2) THEN DivStep(h, d, k - 1, Add(q, Pow2(k)), Sub(r2, d))
                    ELSE DivStep(h, d, k - 1, q, r2)
DivMod32(h, d) == DivStep(h, d, 31, Zero, Zero)
=============================================================================
