-------------------------------- MODULE BitSet --------------------------------
(* Contract of ArenaBitSet (C18): each of the two bit sets is a pair            *)
(* (size, set of indices < size).  Range operations are set operations on       *)
(* index intervals; binary operations treat the other operand as truncated /    *)
(* zero-extended to this size.  The logged projection lists every 1 bit of the  *)
(* words covering `size` bits, so a stray bit at an index >= size (an "unused"  *)
(* bit the API keeps zero: equals(), or_(), iteration rely on it) is visible.   *)
EXTENDS AdtLib

VARIABLES bs,    \* [1..2 -> [size, bits]]
          bst    \* logged projection: sequence of [b, size, cap, bits (sequence of indices)]
bvars == <<bs, bst>>
BEmpty == [i \in 1 .. 2 |-> [size |-> 0, bits |-> {}]]
BInit == bs = BEmpty /\ bst = <<>>
Ok(r) == r[1] = "Ok"
Proj(s, v) == s[CHOOSE k \in DOMAIN s : s[k].b = v]
Iv(a, n) == a .. a + n - 1

BStep(op, r, s) ==
  LET i == op[2] m == bs[i] o == bs[3 - i] a == op[3] c == op[4]
      Put(sz, b) == [bs EXCEPT ![i] = [size |-> sz, bits |-> b]]
      Bits(b) == Put(m.size, b)
      val == c # 0 IN
  /\ bst' = s
  /\ CASE op[1] = "resize" ->
            bs' = IF ~Ok(r) THEN bs
                  ELSE IF a <= m.size THEN Put(a, {x \in m.bits : x < a})
                  ELSE Put(a, m.bits \cup (IF val THEN m.size .. a - 1 ELSE {}))
       [] op[1] = "append" -> bs' = IF Ok(r) THEN Put(m.size + 1, m.bits \cup (IF a # 0 THEN {m.size} ELSE {})) ELSE bs
       [] op[1] = "set" -> a < m.size /\ bs' = Bits(IF val THEN m.bits \cup {a} ELSE m.bits \ {a})
       [] op[1] = "clear_bit" -> a < m.size /\ bs' = Bits(m.bits \ {a})
       [] op[1] = "add" -> a < m.size /\ bs' = Bits(IF val THEN m.bits \cup {a} ELSE m.bits)
       [] op[1] = "xor" -> a < m.size /\ bs' = Bits(IF ~val THEN m.bits ELSE IF a \in m.bits THEN m.bits \ {a} ELSE m.bits \cup {a})
       [] op[1] = "get" -> a < m.size /\ bs' = bs /\ r[1] = (IF a \in m.bits THEN 1 ELSE 0)
       [] op[1] = "fill" -> a + c <= m.size /\ bs' = Bits(m.bits \cup Iv(a, c))
       [] op[1] = "clearr" -> a + c <= m.size /\ bs' = Bits(m.bits \ Iv(a, c))
       [] op[1] = "clear_all" -> bs' = Bits({})
       [] op[1] = "fill_all" -> bs' = Bits(0 .. m.size - 1)
       [] op[1] = "truncate" -> bs' = IF a < m.size THEN Put(a, {x \in m.bits : x < a}) ELSE bs
       [] op[1] = "clear" -> bs' = Put(0, {})
       [] op[1] = "and" -> bs' = Bits(m.bits \cap o.bits)
       [] op[1] = "or" -> bs' = Bits(m.bits \cup {x \in o.bits : x < m.size})
       [] op[1] = "andnot" -> bs' = Bits(m.bits \ o.bits)
       [] op[1] = "copy" -> bs' = IF Ok(r) THEN Put(o.size, o.bits) ELSE bs
       [] op[1] = "eq" -> bs' = bs /\ r[1] = (IF m = o THEN 1 ELSE 0)
       [] op[1] = "swap" -> bs' = [bs EXCEPT ![i] = o, ![3 - i] = m]
       [] op[1] = "release" -> bs' = Put(0, {})
       [] op[1] = "iter" -> bs' = bs /\ IsSortedEnum(r, m.bits)

HoldsExactly == \A k \in DOMAIN bst : LET x == bst[k] IN
                  /\ Range(x.bits) = bs[x.b].bits              \* includes: no bit set at an index >= size
                  /\ NoDup(x.bits)
SizeOk == \A k \in DOMAIN bst : bst[k].size = bs[bst[k].b].size /\ bst[k].size <= bst[k].cap
BInv == HoldsExactly /\ SizeOk
=============================================================================
