--------------------------------- MODULE List ---------------------------------
(* Contract of ArenaList<NodeT> (C18): each of the two lists is a sequence of   *)
(* node ids.  The logged projection is the id sequence obtained by following    *)
(* next from first() and the one obtained by following prev from last();        *)
(* they must be the abstract sequence and its reverse (prev/next are mutual     *)
(* inverses, first/last are the ends).                                          *)
EXTENDS AdtLib

VARIABLES lst,   \* [1..2 -> Seq(id)]
          lstt   \* logged projection: sequence of [l, fwd, bwd, empty]
lvars == <<lst, lstt>>
LEmpty == [i \in 1 .. 2 |-> <<>>]
LInit == lst = LEmpty /\ lstt = <<>>
InAny(id) == \E i \in 1 .. 2 : id \in Range(lst[i])

LStep(op, r, s) ==
  LET i == op[2] m == lst[i] a == op[3] b == op[4] IN
  /\ lstt' = s
  /\ CASE op[1] = "new" -> lst' = lst
       [] op[1] = "append" -> ~InAny(a) /\ lst' = [lst EXCEPT ![i] = Append(m, a)]
       [] op[1] = "prepend" -> ~InAny(a) /\ lst' = [lst EXCEPT ![i] = <<a>> \o m]
       [] op[1] = "ins_after" -> a \in Range(m) /\ ~InAny(b) /\ lst' = [lst EXCEPT ![i] = InsertAt(m, PosOf(m, a) + 1, b)]
       [] op[1] = "ins_before" -> a \in Range(m) /\ ~InAny(b) /\ lst' = [lst EXCEPT ![i] = InsertAt(m, PosOf(m, a), b)]
       [] op[1] = "unlink" -> a \in Range(m) /\ r[1] = a /\ lst' = [lst EXCEPT ![i] = RemoveAt(m, PosOf(m, a))]
       [] op[1] = "pop" -> Len(m) > 0 /\ r[1] = m[Len(m)] /\ lst' = [lst EXCEPT ![i] = Take(m, Len(m) - 1)]
       [] op[1] = "pop_first" -> Len(m) > 0 /\ r[1] = m[1] /\ lst' = [lst EXCEPT ![i] = Tail(m)]
       [] op[1] = "swap" -> lst' = [lst EXCEPT ![i] = lst[3 - i], ![3 - i] = m]
       [] op[1] = "reset" -> lst' = [lst EXCEPT ![i] = <<>>]

ForwardIsSeq == \A k \in DOMAIN lstt : lstt[k].fwd = lst[lstt[k].l]
BackwardIsReverse == \A k \in DOMAIN lstt : lstt[k].bwd = Reverse(lst[lstt[k].l])
EmptyOk == \A k \in DOMAIN lstt : lstt[k].empty = (lst[lstt[k].l] = <<>>)
LInv == ForwardIsSeq /\ BackwardIsReverse /\ EmptyOk
=============================================================================
