SPECIFICATION MCSpec
CONSTANTS
  N = 3
  MaxOps = 5
  Bug = "none"
INVARIANTS BlocksInv
PROPERTY PrependFirst
VIEW MCView
