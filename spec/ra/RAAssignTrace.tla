---------------------------- MODULE RAAssignTrace -----------------------------
(* Trace validation for X05 / RAAssignment: every recorded call must satisfy its  *)
(* asserted preconditions in the specification state, and the projection read    *)
(* back through the accessors (work_to_phys_id, phys_to_work_id, is_phys_assigned, *)
(* is_phys_dirty, assigned(group), dirty(group)) must be the state RAAssign.tla     *)
(* computes.  All invariants of RAAssign are evaluated after every event.         *)
EXTENDS RAAssign, TraceLib

VARIABLE l
tvars == <<lay, a, m, l>>
T == TraceLog
Ev == T[l]
IsEv(e) == l <= Len(T) /\ Ev.e = e /\ l' = l + 1

ToSet(s) == {s[i] : i \in 1 .. Len(s)}
ObsObj(x) == [w2p |-> x.w2p, p2w |-> x.p2w, asg |-> [g \in 1 .. 4 |-> ToSet(x.asg[g])], dty |-> [g \in 1 .. 4 |-> ToSet(x.dty[g])]]
ObsMap(x) == [p2w |-> x.p2w, asg |-> [g \in 1 .. 4 |-> ToSet(x.asgx[g])], dty |-> [g \in 1 .. 4 |-> ToSet(x.dtyx[g])]]
(* the per-register predicates and the raw masks tell the same story *)
MasksAgree(x) == \A g \in 1 .. 4 : ToSet(x.asg[g]) = ToSet(x.asgx[g]) /\ ToSet(x.dty[g]) = ToSet(x.dtyx[g])
Matches(st) == /\ B(MasksAgree(st.A)) /\ B(MasksAgree(st.B))
               /\ ObsObj(st.A) = a'.A /\ ObsObj(st.B) = a'.B /\ ObsMap(st.M) = m'

TInit == lay = [pc |-> <<0, 0, 0, 0>>, wg |-> <<>>] /\ a = [A |-> EmptyObj(lay), B |-> EmptyObj(lay)] /\ m = EmptyMap(lay)
         /\ l = 1 /\ InitProgress
TReset == /\ IsEv("Reset") /\ Ev.c = "assign"
          /\ lay' = [pc |-> Ev.pc, wg |-> Ev.wg]
          /\ a' = [A |-> EmptyObj(lay'), B |-> EmptyObj(lay')] /\ m' = EmptyMap(lay')
          /\ Ev.pidx = <<0, Ev.pc[1], Ev.pc[1] + Ev.pc[2], Ev.pc[1] + Ev.pc[2] + Ev.pc[3]>>      \* Layout::phys_index
          /\ Ev.ptotal = Ev.pc[1] + Ev.pc[2] + Ev.pc[3] + Ev.pc[4] /\ Ev.wcount = Len(Ev.wg)
          /\ Matches(Ev.st)
TOp == /\ IsEv("Op")
       /\ Step(Ev.op, IF "r" \in DOMAIN Ev THEN Ev.r ELSE FALSE)
       /\ Matches(Ev.st)
TNext == TReset \/ TOp
TSpec == TInit /\ [][TNext]_tvars
Progress == NoteProgress(l)
TraceAccepted == Accepted(Len(T))
=============================================================================
