------------------------------ MODULE RAAssignMC ------------------------------
(* Model checking of RAAssign.tla: every legal call sequence over a small layout *)
(* keeps the maps inverse, `assigned` exact and dirty a subset of assigned.       *)
(* Bug # "none" injects a slip into one method (negative controls: the           *)
(* invariants must then FAIL).                                                    *)
EXTENDS RAAssign, TLC

CONSTANTS MCpc, MCwg, MaxOps, Bug

VARIABLE hist

(* layouts (cfg files cannot hold tuples) *)
PcA == <<2, 2, 0, 1>>
WgA == <<0, 0, 1, 3>>
PcB == <<3, 1, 1, 0>>
WgB == <<0, 0, 0, 1, 2>>
PcC == <<2, 0, 0, 0>>
WgC == <<0, 0, 0>>
mcvars == <<lay, a, m, hist>>

Objs == {"A", "B"}
Ws == 0 .. Len(MCwg) - 1
Ps(g) == 0 .. MCpc[g + 1] - 1

Ops ==
  UNION {
    {<<"assign", o, MCwg[w + 1], w, p, d>> : o \in Objs, w \in Ws, p \in 0 .. 3, d \in {0, 1}},
    {<<"unassign", o, MCwg[w + 1], w, p>> : o \in Objs, w \in Ws, p \in 0 .. 3},
    {<<"reassign", o, MCwg[w + 1], w, p, q>> : o \in Objs, w \in Ws, p \in 0 .. 3, q \in 0 .. 3},
    {<<"swap", o, MCwg[w + 1], w, p, x, q>> : o \in Objs, w \in Ws, x \in Ws, p \in 0 .. 3, q \in 0 .. 3},
    {<<"dirty", o, MCwg[w + 1], w, p>> : o \in Objs, w \in Ws, p \in 0 .. 3},
    {<<"clean", o, MCwg[w + 1], w, p>> : o \in Objs, w \in Ws, p \in 0 .. 3},
    {<<"copy", o, Other(o)>> : o \in Objs}, {<<"copyp2w", o, "M">> : o \in Objs}, {<<"copyp2w", o, Other(o)>> : o \in Objs},
    {<<"clone", o>> : o \in Objs}, {<<"munassign", g, p>> : g \in Groups, p \in 0 .. 3},
    {<<"mreset">>, <<"swapobj">>}, {<<"resetmaps", o>> : o \in Objs}
  }

(* the injected slips *)
BugA(op, good) ==
  CASE Bug = "reassign_keeps_src" /\ op[1] = "reassign" ->
         [good EXCEPT ![op[2]].p2w[op[3] + 1][op[6] + 1] = op[4]]                      \* source entry not cleared
    [] Bug = "unassign_keeps_dirty" /\ op[1] = "unassign" ->
         [good EXCEPT ![op[2]].dty[op[3] + 1] = a[op[2]].dty[op[3] + 1]]                \* dirty bit survives
    [] Bug = "swap_keeps_dirty" /\ op[1] = "swap" ->
         [good EXCEPT ![op[2]].dty[op[3] + 1] = a[op[2]].dty[op[3] + 1]]                \* dirty bits do not travel
    [] OTHER -> good

MCInit == lay = [pc |-> MCpc, wg |-> MCwg] /\ a = [A |-> EmptyObj(lay), B |-> EmptyObj(lay)] /\ m = EmptyMap(lay) /\ hist = <<>>
MCNext == /\ Len(hist) < MaxOps
          /\ \E op \in Ops :
               /\ B(Pre(op, FALSE))
               /\ a' = BugA(op, EffA(op)) /\ m' = EffM(op) /\ UNCHANGED lay
               /\ hist' = Append(hist, op)
MCSpec == MCInit /\ [][MCNext]_mcvars

(* dirty state travels with the value: after swap/reassign the set of dirty WORK registers is unchanged *)
DirtyWork(o) == {w \in 0 .. NW - 1 : W2P(o, w) # None /\ W2P(o, w) \in Dty(o, WG(w))}
DirtyTravels ==
  [][\A o \in Objs : (hist' # hist /\ hist'[Len(hist')][1] \in {"swap", "reassign"} /\ hist'[Len(hist')][2] = o)
        => DirtyWork(a'[o]) = DirtyWork(a[o])]_mcvars

Export == Len(hist) = MaxOps => PrintT(<<"BEH", hist>>)
MCView == <<a, m, Len(hist)>>
=============================================================================
