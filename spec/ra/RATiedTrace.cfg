SPECIFICATION TSpec
INVARIANT TiedInv
CONSTRAINT Progress
POSTCONDITION TraceAccepted
