------------------------------- MODULE RAStack -------------------------------
(* Contract-level specification of asmjit's RAStackAllocator / RAStackSlot        *)
(* (asmjit/core/rastack_p.h, rastack.cpp) - extension check X05.                  *)
(*                                                                                *)
(* The state is the projection of the allocator read through its accessors:      *)
(*   slots  : sequence (creation order) of [size, align, flags, uc, w, off, base] *)
(*   order  : slots() order (creation indices, 0-based)                           *)
(*   ssize  : stack_size()      aalign : alignment()      bused : bytes_used()    *)
(* Every action is parameterised by the projection `st` observed AFTER the call   *)
(* and is enabled exactly for observations the documented contract allows; the   *)
(* choice of offsets, the packing strategy and the weights stay free.             *)
(*                                                                                *)
(* Documented contract (quoted from rastack_p.h):                                 *)
(*   RAStackSlot::_alignment  "Minimum alignment required by the slot."           *)
(*   RAStackSlot::_size       "Size of memory required by the slot."              *)
(*   RAStackSlot::_use_count  "Usage counter (one unit equals one memory access)."*)
(*   RAStackSlot::_weight     "Weight of the slot, calculated by                  *)
(*                             RAStackAllocator::calculate_stack_frame()."        *)
(*   RAStackSlot::_offset     "Stack offset, calculated by                        *)
(*                             RAStackAllocator::calculate_stack_frame()."        *)
(*   kFlagRegHome             "Stack slot is register home slot."                 *)
(*   kFlagStackArg            "Stack slot position matches argument passed via    *)
(*                             stack."  (such a slot is NOT placed by the         *)
(*                             allocator: its position is the argument's)         *)
(*   _bytes_used              "Count of bytes used by all slots."                 *)
(*   _stack_size              "Calculated stack size (can be a bit greater than   *)
(*                             `_bytes_used`)."                                   *)
(*   _alignment               "Minimum stack alignment."                          *)
(* and from rastack.cpp (calculate_stack_frame):                                  *)
(*   STEP 1 "We boost smaller slots in a way that 32-bit register has a higher    *)
(*           priority than a 128-bit register, however, if one 128-bit register   *)
(*           is used 4 times more than some other 32-bit register it will         *)
(*           overweight it."                                                      *)
(*   STEP 2 "Sort stack slots based on their newly calculated weight (in          *)
(*           descending order)."                                                  *)
(*   STEP 3 "Calculate offset of each slot. We start from the slot that has the   *)
(*           highest weight and advance to slots with lower weight."              *)
EXTENDS Integers, Sequences, FiniteSets

VARIABLES v,         \* [slots, order, ssize, aalign, bused]
          scale      \* sizes and offsets are in units of `scale` bytes (1, or 4096 in the executions that probe the 32-bit limits)

RegHome  == 1
StackArg == 2

B(x) == x = TRUE     \* evaluate a pure predicate as a value (TLC must not split its disjunctions into successor branches)

RECURSIVE BitOr(_, _)
BitOr(a, b) == IF a = 0 THEN b ELSE IF b = 0 THEN a
               ELSE (IF a % 2 = 1 \/ b % 2 = 1 THEN 1 ELSE 0) + 2 * BitOr(a \div 2, b \div 2)
HasFlag(f, b) == (f \div b) % 2 = 1
IsArg(s)  == HasFlag(s.flags, StackArg)
IsHome(s) == HasFlag(s.flags, RegHome)
Max(a, b) == IF a >= b THEN a ELSE b
IsPow2(a) == a \in {1, 2, 4, 8, 16, 32, 64, 128}
(* x * scale is a multiple of a (computed without leaving TLC's 32-bit integers) *)
Aligned(x, a) == (((x % a) + a) % a) * (scale % a) % a = 0

Slot(t) == [size |-> t[1], align |-> t[2], flags |-> t[3], uc |-> t[4], w |-> t[5], off |-> t[6], base |-> t[7]]
View(st) == [slots |-> [i \in 1 .. Len(st.slots) |-> Slot(st.slots[i])], order |-> st.order,
             ssize |-> st.ssize, aalign |-> st.aalign, bused |-> st.bused]

Empty == [slots |-> <<>>, order |-> <<>>, ssize |-> 0, aalign |-> 1, bused |-> 0]
Init == v = Empty /\ scale = 1

(* the observation itself is well formed: accessor predicates agree with the flags, slots() is a permutation of   *)
(* the created slots, scaled quantities were exact multiples of the scale                                         *)
SaneObs(st) ==
  /\ st.exact
  /\ st.n = Len(st.slots) /\ Len(st.order) = st.n
  /\ \A i \in 1 .. st.n : \E j \in 1 .. st.n : st.order[j] = i - 1
  /\ \A i \in 1 .. st.n : LET t == st.slots[i] IN
        /\ t[8] = HasFlag(t[3], RegHome)          \* is_reg_home()
        /\ t[9] = HasFlag(t[3], StackArg)         \* is_stack_arg()
        /\ t[2] >= 1 /\ t[2] <= 255               \* uint8_t alignment, never 0

(* everything except the named per-slot field of slot k (1-based) is unchanged *)
SlotsSameExcept(new, k, f) ==
  /\ Len(new.slots) = Len(v.slots)
  /\ \A i \in 1 .. Len(v.slots) :
       IF i # k THEN new.slots[i] = v.slots[i]
       ELSE \A g \in {"size", "align", "flags", "uc", "w", "off", "base"} \ {f} : new.slots[i][g] = v.slots[i][g]
GlobalsSame(new) == new.order = v.order /\ new.ssize = v.ssize /\ new.aalign = v.aalign /\ new.bused = v.bused

(* ---- new_slot(base_reg_id, size, alignment, flags) ------------------------------------------------------------ *)
(* "Minimum alignment required by the slot": the slot keeps max(alignment, 1) (uint8_t); the allocator's "Minimum *)
(* stack alignment" becomes the maximum over all slots.  Driver precondition: alignment is 0 or a power of two    *)
(* that fits the uint8_t field.                                                                                   *)
NewOk(size, align, flags, base, r, st) ==
  LET new == View(st) k == Len(v.slots) IN
  /\ B(align = 0 \/ IsPow2(align)) /\ size >= 0 /\ flags \in 0 .. 3
  /\ r = k                                                    \* a slot was returned (allocation failure is C15's matter)
  /\ B(SaneObs(st))
  /\ Len(new.slots) = k + 1
  /\ \A i \in 1 .. k : new.slots[i] = v.slots[i]
  /\ LET s == new.slots[k + 1] IN
       s.size = size /\ s.align = Max(align, 1) /\ s.flags = flags /\ s.uc = 0 /\ s.base = base % 256
  /\ new.order = Append(v.order, k)
  /\ new.aalign = Max(v.aalign, align)
  /\ new.ssize = v.ssize /\ new.bused = v.bused
  /\ v' = new

(* ---- RAStackSlot mutators -------------------------------------------------------------------------------------- *)
UseOk(i, k, st) ==
  LET new == View(st) IN
  /\ i + 1 \in 1 .. Len(v.slots) /\ B(SaneObs(st))
  /\ SlotsSameExcept(new, i + 1, "uc") /\ new.slots[i + 1].uc = v.slots[i + 1].uc + k
  /\ GlobalsSame(new) /\ v' = new

FlagOk(i, f, st) ==
  LET new == View(st) IN
  /\ i + 1 \in 1 .. Len(v.slots) /\ B(SaneObs(st))
  /\ SlotsSameExcept(new, i + 1, "flags") /\ new.slots[i + 1].flags = BitOr(v.slots[i + 1].flags, f)
  /\ GlobalsSame(new) /\ v' = new

SetOffOk(i, off, st) ==
  LET new == View(st) IN
  /\ i + 1 \in 1 .. Len(v.slots) /\ B(SaneObs(st))
  /\ SlotsSameExcept(new, i + 1, "off") /\ new.slots[i + 1].off = off
  /\ GlobalsSame(new) /\ v' = new

SetBaseOk(i, base, st) ==
  LET new == View(st) IN
  /\ i + 1 \in 1 .. Len(v.slots) /\ B(SaneObs(st))
  /\ SlotsSameExcept(new, i + 1, "base") /\ new.slots[i + 1].base = base % 256
  /\ GlobalsSame(new) /\ v' = new

(* ---- calculate_stack_frame() ------------------------------------------------------------------------------------ *)
Placed(ss) == {i \in 1 .. Len(ss) : ~IsArg(ss[i])}
Disjoint(a, b) == a.size = 0 \/ b.size = 0 \/ a.off + a.size <= b.off \/ b.off + b.size <= a.off

(* the layout itself: what every user of the frame relies on *)
LayoutOk(ss, ssz, al) ==
  /\ \A i \in Placed(ss) : ss[i].off >= 0 /\ Aligned(ss[i].off, ss[i].align)
  /\ \A i \in Placed(ss) : \A j \in Placed(ss) : i < j => B(Disjoint(ss[i], ss[j]))
  /\ \A i \in Placed(ss) : ss[i].off + ss[i].size <= ssz
  /\ ssz >= 0 /\ Aligned(ssz, al)

(* the weights as far as STEP 1 documents them (register-home slots only) *)
WeightDoc(ss) ==
  \A i \in 1 .. Len(ss) : \A j \in 1 .. Len(ss) :
    LET a == ss[i] b == ss[j] IN
    (IsHome(a) /\ IsHome(b)) =>
      /\ B((a.uc = b.uc /\ a.align <= b.align) => a.w >= b.w)              \* smaller slots are boosted
      /\ B((a.align = b.align /\ a.uc <= b.uc) => a.w <= b.w)              \* more accesses weigh more
      /\ B((a.align = 16 /\ b.align = 4 /\ a.uc >= 4 * b.uc) => a.w >= b.w)  \* "used 4 times more ... will overweight it"

(* STEP 2: slots() is sorted by weight, descending *)
OrderDoc(new) ==
  \A i \in 1 .. Len(new.order) : \A j \in 1 .. Len(new.order) :
    i < j => new.slots[new.order[i] + 1].w >= new.slots[new.order[j] + 1].w

RECURSIVE SumSizes(_, _)
SumSizes(ss, i) == IF i = 0 THEN 0 ELSE (IF IsArg(ss[i]) THEN 0 ELSE ss[i].size) + SumSizes(ss, i - 1)     \* slots the allocator places
BytesUsedDoc(new) == new.bused = SumSizes(new.slots, Len(new.slots))

CalcFrame(new) ==
  /\ Len(new.slots) = Len(v.slots)
  /\ \A i \in 1 .. Len(v.slots) :
       /\ \A g \in {"size", "align", "flags", "uc", "base"} : new.slots[i][g] = v.slots[i][g]
       /\ IsArg(v.slots[i]) => new.slots[i].off = v.slots[i].off          \* position of a stack argument is not the allocator's
  /\ new.aalign = v.aalign

CalcOk(r, st, strictOrder, strictBytes) ==
  LET new == View(st) IN
  /\ r = "Ok" /\ B(SaneObs(st))
  /\ B(CalcFrame(new))
  /\ B(LayoutOk(new.slots, new.ssize, new.aalign))
  /\ B(WeightDoc(new.slots))
  /\ (strictOrder => B(OrderDoc(new)))
  /\ (strictBytes => BytesUsedDoc(new))
  /\ v' = new

(* A refusal (the only documented failure is allocation failure, which never happens in this check; "too large"  *)
(* would be the natural answer to a frame that does not fit 32 bits) must leave the inputs alone.                  *)
CalcRefused(r, st) ==
  LET new == View(st) IN
  /\ r # "Ok" /\ B(SaneObs(st))
  /\ CalcFrame(new)
  /\ v' = new

(* ---- adjust_slot_offsets(offset) -------------------------------------------------------------------------------- *)
AdjustOk(d, r, st) ==
  LET new == View(st) IN
  /\ r = "Ok" /\ B(SaneObs(st))
  /\ Len(new.slots) = Len(v.slots)
  /\ \A i \in 1 .. Len(v.slots) :
       /\ \A g \in {"size", "align", "flags", "uc", "w", "base"} : new.slots[i][g] = v.slots[i][g]
       /\ new.slots[i].off = IF IsArg(v.slots[i]) THEN v.slots[i].off ELSE v.slots[i].off + d
  /\ GlobalsSame(new)
  /\ v' = new

(* ---- reset(arena) ------------------------------------------------------------------------------------------------ *)
ResetOk(st) == B(SaneObs(st)) /\ View(st) = Empty /\ v' = Empty

(* ---- many slots at once (columns sorted by offset; neighbours decide disjointness) ------------------------------- *)
BigCalcOk(ev) ==
  LET n == Len(ev.off) IN
  /\ ev.r = "Ok" /\ ev.argskept
  /\ Len(ev.size) = n /\ Len(ev.align) = n /\ n + ev.nargs = ev.n
  /\ B(\A i \in 1 .. n : ev.off[i] >= 0 /\ ev.off[i] % ev.align[i] = 0 /\ ev.off[i] + ev.size[i] <= ev.ssize /\ ev.aalign % ev.align[i] = 0)
  /\ B(\A i \in 1 .. n - 1 : ev.off[i] <= ev.off[i + 1] /\ ev.off[i] + ev.size[i] <= ev.off[i + 1])
  /\ ev.ssize % ev.aalign = 0
  /\ UNCHANGED v

(* ---- state invariants of the contract state --------------------------------------------------------------------- *)
AlignCovers == \A i \in 1 .. Len(v.slots) : v.aalign % v.slots[i].align = 0 /\ v.aalign >= 1
OrderIsPerm == Len(v.order) = Len(v.slots) /\ \A i \in 1 .. Len(v.slots) : \E j \in 1 .. Len(v.order) : v.order[j] = i - 1
StackInv == AlignCovers /\ OrderIsPerm
=============================================================================
