---------------------------- MODULE RABlocksTrace -----------------------------
(* Trace validation for X05 / RABlock edges and flags (see RABlocks.tla); also    *)
(* used for the block graphs snapshotted from real register-allocator runs.       *)
EXTENDS RABlocks, TraceLib

VARIABLE l
tvars == <<bl, l>>
T == TraceLog
Ev == T[l]
IsEv(e) == l <= Len(T) /\ Ev.e = e /\ l' = l + 1
ToSet(s) == {s[i] : i \in 1 .. Len(s)}

Matches(st, b) ==
  /\ Len(st) = Len(b)
  /\ \A i \in 1 .. Len(b) :
       /\ st[i].id = i - 1                                   \* add_block numbers blocks in creation order
       /\ st[i].succ = b[i].succ                              \* the order of successors is documented (natural flow first)
       /\ Len(st[i].pred) = Len(b[i].pred) /\ ToSet(st[i].pred) = ToSet(b[i].pred)     \* the order of predecessors is not
       /\ ToSet(st[i].f) = b[i].f
       /\ st[i].q = Queries(b[i])
       /\ B(9 \in b[i].f /\ b[i].succ = <<>>) \/ st[i].cons = Consecutive(b[i])

TInit == bl = <<>> /\ l = 1 /\ InitProgress
TReset == /\ IsEv("Reset") /\ Ev.c = "blocks"
          /\ bl' = EmptyBlocks(Ev.n) /\ Ev.created = Ev.n /\ Ev.count = Ev.n
          /\ Matches(Ev.st, bl')
TOp == /\ IsEv("Op")
       /\ B(Pre(Ev.op, IF "r" \in DOMAIN Ev THEN Ev.r ELSE "Ok"))
       /\ bl' = Eff(Ev.op)
       /\ Matches(Ev.st, bl')
TNext == TReset \/ TOp
TSpec == TInit /\ [][TNext]_tvars
Progress == NoteProgress(l)
TraceAccepted == Accepted(Len(T))
=============================================================================
