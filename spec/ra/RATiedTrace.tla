----------------------------- MODULE RATiedTrace ------------------------------
(* Trace validation for X05 / RAInstBuilder + RATiedReg.  After every call the    *)
(* builder is read back (tied registers with all fields and all predicate         *)
(* accessors, counts, aggregated flags, statistics, used/clobbered masks, the      *)
(* work registers' back pointers) and compared with the state RATied.tla computes. *)
(* A register mask is only compared when its slot exists (use mask: kUse, out      *)
(* mask: kOut); an error result ends the instruction (the partially updated        *)
(* builder is thrown away by the caller), so nothing is compared after it.         *)
EXTENDS RATied, TraceLib

VARIABLES l, dead
tvars == <<wg, tb, l, dead>>
T == TraceLog
Ev == T[l]
IsEv(e) == l <= Len(T) /\ Ev.e = e /\ l' = l + 1
ToSet(s) == {s[i] : i \in 1 .. Len(s)}

PredOf(f, uid, oid) ==
  <<Read \in f, Write \in f, Read \in f /\ Write \notin f, Write \in f /\ Read \notin f, Read \in f /\ Write \in f, Use \in f, Out \in f,
    LeadCons \in f, UseCons \in f, OutCons \in f, Unique \in f, (LeadCons \in f \/ UseCons \in f \/ OutCons \in f),
    UseRM \in f, OutRM \in f, Duplicate \in f, First \in f, Last \in f, Kill \in f, (Out \in f \/ Kill \in f),
    uid # NoId, oid # NoId, UseDone \in f, OutDone \in f>>

TiedMatches(o, t) ==
  LET f == ToSet(o.f) IN
  /\ o.w = t.w /\ f = t.f /\ o.ref = t.ref /\ o.rm = t.rm /\ o.uid = t.uid /\ o.oid = t.oid /\ o.par = t.par
  /\ B(Use \in f => ToSet(o.um) = t.um)
  /\ B(Out \in f => ToSet(o.om) = t.om)
  /\ ToSet(o.urw) = t.urw /\ ToSet(o.orw) = t.orw
  /\ o.cdata = (IF 13 \in f THEN 1 ELSE 0) + (IF 14 \in f THEN 2 ELSE 0)
  /\ o.pred = PredOf(f, o.uid, o.oid)

OutFixedGroups(b) == {8 + G(b.tied[i].w) : i \in {j \in 1 .. Len(b.tied) : b.tied[j].oid # NoId}}
Matches(st, b) ==
  /\ st.n = Len(b.tied) /\ Len(st.tied) = st.n
  /\ \A i \in 1 .. st.n : B(TiedMatches(st.tied[i], b.tied[i]))
  /\ st.cnt = b.cnt
  /\ ToSet(st.agg) = b.agg
  /\ b.stats \subseteq ToSet(st.stats) /\ ToSet(st.stats) \subseteq (b.stats \cup OutFixedGroups(b))
  /\ \A g \in 1 .. 4 : ToSet(st.used[g]) = b.used[g] /\ ToSet(st.clob[g]) = b.clob[g]
  /\ st.wt = b.wt

TInit == wg = <<>> /\ tb = EmptyB(0) /\ l = 1 /\ dead = FALSE /\ InitProgress
TReset == /\ IsEv("Reset") /\ Ev.c = "tied"
          /\ wg' = Ev.wg /\ tb' = EmptyB(Len(Ev.wg)) /\ dead' = FALSE
          /\ Matches(Ev.st, tb')
TOp == /\ IsEv("Op") /\ ~dead
       /\ B(Pre(Ev.op, IF "r" \in DOMAIN Ev THEN Ev.r ELSE "Ok"))
       /\ IF "r" \in DOMAIN Ev /\ Ev.r \notin {"Ok"} /\ Ev.op[1] \in {"add", "arg", "ret"}
            THEN dead' = TRUE /\ UNCHANGED <<wg, tb>>
            ELSE /\ tb' = Eff(Ev.op) /\ dead' = FALSE /\ UNCHANGED wg
                 /\ Matches(Ev.st, tb')
                 /\ (Ev.op[1] = "cdata") => (Ev.cd = Ev.op[2] /\ ToSet(Ev.fl) = {13 + i : i \in Bits(Ev.op[2])})
TNext == TReset \/ TOp
TSpec == TInit /\ [][TNext]_tvars
Progress == NoteProgress(l)
TraceAccepted == Accepted(Len(T))
=============================================================================
