SPECIFICATION TSpec
INVARIANT SpansInv
CONSTRAINT Progress
POSTCONDITION TraceAccepted
