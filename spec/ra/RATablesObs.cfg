SPECIFICATION Spec
INVARIANT Judge
