------------------------------- MODULE RABlocks -------------------------------
(* Specification of RABlock's control-flow edges and flags                         *)
(* (asmjit/core/racfgblock_p.h, rapass.cpp).  Extension check X05.                 *)
(*                                                                                 *)
(*   append_successor  "Adds a successor to this block, and predecessor to         *)
(*                      `successor`, making connection on both sides. This API     *)
(*                      must be used to manage successors and predecessors, never   *)
(*                      manage it manually."                                       *)
(*   prepend_successor "Similar to `append_successor()`, but does a prepend         *)
(*                      operation instead of append. This function is used to add   *)
(*                      a natural flow (always first) to the block."               *)
(*   consecutive()     the first successor when kHasConsecutive ("Block naturally   *)
(*                      flows to the next block") is set                           *)
(* An edge that exists already is not added again (both functions return Ok).      *)
(* Flags are bit indices; the predicate accessors are functions of the flags.      *)
EXTENDS Integers, Sequences, FiniteSets

VARIABLE bl      \* sequence of [succ : Seq(block index), pred : Seq(block index), f : set of flag bits]; blocks 0-based

B(x) == x = TRUE
Bits(n) == {i \in 0 .. 30 : (n \div (2 ^ i)) % 2 = 1}
Has(s, x) == \E i \in 1 .. Len(s) : s[i] = x
EmptyBlocks(n) == [i \in 1 .. n |-> [succ |-> <<>>, pred |-> <<>>, f |-> {}]]
ValidB(x) == x \in 0 .. Len(bl) - 1

AppendEff(x, y) ==
  IF Has(bl[x + 1].succ, y) THEN bl
  ELSE IF x = y THEN [bl EXCEPT ![x + 1] = [@ EXCEPT !.succ = Append(@, y), !.pred = Append(@, x)]]
  ELSE [bl EXCEPT ![x + 1].succ = Append(@, y), ![y + 1].pred = Append(@, x)]
PrependEff(x, y) ==
  IF Has(bl[x + 1].succ, y) THEN bl
  ELSE IF x = y THEN [bl EXCEPT ![x + 1] = [@ EXCEPT !.succ = <<y>> \o @, !.pred = <<x>> \o @]]
  ELSE [bl EXCEPT ![x + 1].succ = <<y>> \o @, ![y + 1].pred = <<x>> \o @]

Pre(op, r) ==
  LET k == op[1] IN
  CASE k \in {"append", "prepend"} -> ValidB(op[2]) /\ ValidB(op[3]) /\ r = "Ok"
    [] k = "hassucc" -> ValidB(op[2]) /\ ValidB(op[3]) /\ r = Has(bl[op[2] + 1].succ, op[3])
    [] k \in {"flag", "clear", "reach", "target", "alloc", "constructed"} -> ValidB(op[2])
    [] OTHER -> FALSE
Eff(op) ==
  LET k == op[1] IN
  CASE k = "append"  -> AppendEff(op[2], op[3])
    [] k = "prepend" -> PrependEff(op[2], op[3])
    [] k = "flag"    -> [bl EXCEPT ![op[2] + 1].f = @ \cup Bits(op[3])]
    [] k = "clear"   -> [bl EXCEPT ![op[2] + 1].f = @ \ Bits(op[3])]
    [] k = "constructed" -> [bl EXCEPT ![op[2] + 1].f = @ \cup {0}]       \* kIsConstructed
    [] k = "reach"   -> [bl EXCEPT ![op[2] + 1].f = @ \cup {1}]           \* kIsReachable
    [] k = "target"  -> [bl EXCEPT ![op[2] + 1].f = @ \cup {2}]           \* kIsTargetable
    [] k = "alloc"   -> [bl EXCEPT ![op[2] + 1].f = @ \cup {3}]           \* kIsAllocated
    [] OTHER -> bl

(* predicate accessors in the order the harness logs them *)
Queries(b) == <<TRUE, 0 \in b.f, 1 \in b.f, 2 \in b.f, 3 \in b.f, 4 \in b.f, 5 \in b.f, 8 \in b.f, 9 \in b.f, 10 \in b.f,
                b.pred # <<>>, b.succ # <<>>>>
Consecutive(b) == IF 9 \in b.f /\ b.succ # <<>> THEN b.succ[1] ELSE -1

(* ---- the property: both sides of every edge, once ------------------------------------------------------------------ *)
Count(s, x) == Cardinality({i \in 1 .. Len(s) : s[i] = x})
Symmetric == \A x, y \in 0 .. Len(bl) - 1 : Count(bl[x + 1].succ, y) = Count(bl[y + 1].pred, x)
NoDuplicate == \A x, y \in 0 .. Len(bl) - 1 : Count(bl[x + 1].succ, y) <= 1
BlocksInv == Symmetric /\ NoDuplicate
=============================================================================
