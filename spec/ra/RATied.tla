-------------------------------- MODULE RATied --------------------------------
(* Specification of RATiedReg and RAInstBuilder (asmjit/core/radefs_p.h,           *)
(* rainst_p.h): the per-instruction summary of how every virtual (work) register   *)
(* is accessed.  Extension check X05.                                               *)
(*                                                                                  *)
(* radefs_p.h: "Tied register merges one ore more register operand into a single    *)
(* entity. It contains information about its access (Read|Write) and allocation     *)
(* slots (Use|Out) that are used by the register allocator and liveness analysis."  *)
(*   _ref_count       "How many times the VirtReg is referenced in all operands."   *)
(*   _rm_size         "Size of a memory operand in case that it's use instead of    *)
(*                     the register."                                               *)
(*   _use_id/_out_id  "Physical register for use operation (ReadOnly / ReadWrite)"  *)
(*                    / "for out operation (WriteOnly)"; kUseFixed/kOutFixed        *)
(*                    "Register has a fixed USE/OUT slot"                           *)
(*   _use_reg_mask    "Registers where inputs {R|X} can be allocated to."            *)
(*   _out_reg_mask    "Registers where outputs {W} can be allocated to."            *)
(*   _use/_out_rewrite_mask "Indexes used to rewrite USE/OUT regs."                 *)
(*   kDuplicate       "Register must be duplicated (function call only)."           *)
(* rainst_p.h (RAInstBuilder): _aggregated_flags "Flags combined from all           *)
(* RATiedReg's."; add() refuses a second, different fixed register for the same     *)
(* slot (Error::kOverlappedRegs) and a second consecutive parent (kInvalidState).    *)
(*                                                                                  *)
(* Merging is what the documented meaning forces: a register referenced by several  *)
(* operands can only live where ALL of them allow (masks intersect), every operand  *)
(* that names it must be rewritten (rewrite masks unite), flags unite, the widest    *)
(* memory form counts.  Masks and flags are sets of bit indices.                     *)
EXTENDS Integers, Sequences, FiniteSets

VARIABLES wg,     \* group of every work register
          tb      \* [tied : Seq(record), cnt, agg, stats, used, clob, wt]

B(x) == x = TRUE
NoId == 255
Bits(n) == {i \in 0 .. 30 : (n \div (2 ^ i)) % 2 = 1}
FlagsOf(lo, hi) == Bits(lo) \cup {16 + i : i \in Bits(hi)}

Read == 0
Write == 1
Use == 2
Out == 3
UseRM == 4
OutRM == 5
UseFixed == 6
OutFixed == 7
UseDone == 8
OutDone == 9
UseCons == 10
OutCons == 11
LeadCons == 12
Unique == 15
Duplicate == 16
First == 17
Last == 18
Kill == 19

EmptyB(n) == [tied |-> <<>>, cnt |-> <<0, 0, 0, 0>>, agg |-> {}, stats |-> {}, used |-> <<{}, {}, {}, {}>>, clob |-> <<{}, {}, {}, {}>>,
              wt |-> [w \in 1 .. n |-> -1]]
G(w) == wg[w + 1]
Idx(w) == tb.wt[w + 1]                       \* index into tb.tied, 0-based, -1 = not tied in this instruction
Tied(w) == tb.tied[Idx(w) + 1]
Max(a, b) == IF a >= b THEN a ELSE b

(* ---- add(work_reg, flags, use_mask, use_id, use_rewrite, out_mask, out_id, out_rewrite, rm_size, parent) ---------- *)
AddFlags(f, uid, oid) == f \cup (IF uid # NoId THEN {UseFixed} ELSE {}) \cup (IF oid # NoId THEN {OutFixed} ELSE {})
AddErr(w, uid, oid, par) ==
  /\ Idx(w) >= 0
  /\ \/ (par # Tied(w).par /\ Tied(w).par # -1)
     \/ (uid # NoId /\ Tied(w).uid # NoId)
     \/ (oid # NoId /\ Tied(w).oid # NoId)
(* a second, DIFFERENT fixed register / parent must be refused; repeating the same one may be refused *)
AddErrStrict(w, uid, oid, par) ==
  /\ Idx(w) >= 0
  /\ \/ (par # Tied(w).par /\ Tied(w).par # -1)
     \/ (uid # NoId /\ Tied(w).uid # NoId /\ uid # Tied(w).uid)
     \/ (oid # NoId /\ Tied(w).oid # NoId /\ oid # Tied(w).oid)
Common(b, w, f2, usedId, clobId, fixed) ==
  [b EXCEPT !.agg = @ \cup f2,
            !.used[G(w) + 1] = @ \cup (IF usedId # NoId THEN {usedId} ELSE {}),
            !.clob[G(w) + 1] = @ \cup (IF clobId # NoId THEN {clobId} ELSE {}),
            !.stats = @ \cup {G(w)} \cup (IF fixed THEN {8 + G(w)} ELSE {})]
NewTied(b, w, rec) == [b EXCEPT !.tied = Append(@, rec), !.cnt[G(w) + 1] = @ + 1, !.wt[w + 1] = Len(b.tied)]

AddEff(w, f, um, uid, urw, om, oid, orw, rm, par) ==
  LET f2 == AddFlags(f, uid, oid)
      b1 == Common(tb, w, f2, uid, oid, uid # NoId)
  IN IF Idx(w) < 0
       THEN NewTied(b1, w, [w |-> w, f |-> f2, ref |-> 1, rm |-> rm, uid |-> uid, oid |-> oid, um |-> um, om |-> om, urw |-> urw, orw |-> orw, par |-> par])
       ELSE [b1 EXCEPT !.tied[Idx(w) + 1] =
               [@ EXCEPT !.par = IF par # @ THEN par ELSE @,
                         !.uid = IF uid # NoId THEN uid ELSE @,
                         !.oid = IF oid # NoId THEN oid ELSE @,
                         !.ref = @ + 1, !.f = @ \cup f2,
                         !.um = @ \cap um, !.urw = @ \cup urw, !.om = @ \cap om, !.orw = @ \cup orw,
                         !.rm = Max(@, rm)]]

(* ---- add_call_arg(work_reg, use_id) ---------------------------------------------------------------------------------- *)
ArgEff(w, uid) ==
  LET f == {Use, Read, UseFixed}
      b1 == Common(tb, w, f, uid, NoId, TRUE)
  IN IF Idx(w) < 0
       THEN NewTied(b1, w, [w |-> w, f |-> f, ref |-> 1, rm |-> 0, uid |-> uid, oid |-> NoId, um |-> {uid}, om |-> {uid}, urw |-> {}, orw |-> {}, par |-> -1])
       ELSE [b1 EXCEPT !.tied[Idx(w) + 1] =
               IF @.uid # NoId THEN [@ EXCEPT !.f = @ \cup f \cup {Duplicate}, !.um = @ \cup {uid}, !.ref = @ + 1]
                               ELSE [@ EXCEPT !.f = @ \cup f, !.um = @ \cap {uid}, !.uid = uid, !.ref = @ + 1]]

(* ---- add_call_ret(work_reg, out_id) ---------------------------------------------------------------------------------- *)
RetErr(w) == Idx(w) >= 0 /\ Tied(w).oid # NoId
RetEff(w, oid) ==
  LET f == {Out, Write, OutFixed}
      b1 == Common(tb, w, f, oid, NoId, TRUE)          \* the builder records a returned register in `_used`
  IN IF Idx(w) < 0
       THEN NewTied(b1, w, [w |-> w, f |-> f, ref |-> 1, rm |-> 0, uid |-> NoId, oid |-> oid, um |-> 0 .. 31, om |-> {oid}, urw |-> {}, orw |-> {}, par |-> -1])
       ELSE [b1 EXCEPT !.tied[Idx(w) + 1] = [@ EXCEPT !.f = @ \cup f, !.oid = oid, !.ref = @ + 1]]

(* ---- RATiedReg mutators -------------------------------------------------------------------------------------------------- *)
ReadOnlyEff(w) == [tb EXCEPT !.tied[Idx(w) + 1] = [@ EXCEPT !.f = (@ \ {Out, Write}) \cup {Use}, !.urw = @ \cup tb.tied[Idx(w) + 1].orw, !.orw = {}]]
WriteOnlyEff(w) == [tb EXCEPT !.tied[Idx(w) + 1] = [@ EXCEPT !.f = (@ \ {Use, Read}) \cup {Out}, !.orw = @ \cup tb.tied[Idx(w) + 1].urw, !.urw = {}]]
MarkEff(w, bit) == [tb EXCEPT !.tied[Idx(w) + 1].f = @ \cup {bit}]

(* ---- one call --------------------------------------------------------------------------------------------------------------- *)
(* returns [ok : the call was legal and its result is the documented one, err : the call must be refused, b : new state] *)
ValidW(w) == w \in 0 .. Len(wg) - 1
Pre(op, r) ==
  LET k == op[1] IN
  CASE k = "add"  -> /\ ValidW(op[2]) /\ (op[12] = -1 \/ ValidW(op[12]))
                     /\ (r # "Ok" => AddErr(op[2], op[6], op[9], op[12])) /\ (AddErrStrict(op[2], op[6], op[9], op[12]) => r # "Ok")
    [] k = "arg"  -> ValidW(op[2]) /\ op[3] # NoId /\ r = "Ok"
    [] k = "ret"  -> ValidW(op[2]) /\ op[3] # NoId /\ (r # "Ok" => RetErr(op[2])) /\ ((RetErr(op[2]) /\ Tied(op[2]).oid # op[3]) => r # "Ok")
    [] k \in {"ro", "wo", "usedone", "outdone"} -> ValidW(op[2]) /\ Idx(op[2]) >= 0
    [] k = "cdata" -> op[2] \in 0 .. 3
    [] k \in {"aggr", "reset"} -> TRUE
    [] OTHER -> FALSE
Eff(op) ==
  LET k == op[1] IN
  CASE k = "add"  -> AddEff(op[2], FlagsOf(op[3], op[4]), Bits(op[5]), op[6], Bits(op[7]), Bits(op[8]), op[9], Bits(op[10]), op[11], op[12])
    [] k = "arg"  -> ArgEff(op[2], op[3])
    [] k = "ret"  -> RetEff(op[2], op[3])
    [] k = "ro"   -> ReadOnlyEff(op[2])
    [] k = "wo"   -> WriteOnlyEff(op[2])
    [] k = "usedone" -> MarkEff(op[2], UseDone)
    [] k = "outdone" -> MarkEff(op[2], OutDone)
    [] k = "aggr" -> [tb EXCEPT !.agg = @ \cup Bits(op[2])]
    [] k = "reset" -> EmptyB(Len(wg))
    [] OTHER -> tb

(* ---- invariants of the summary ------------------------------------------------------------------------------------------------ *)
OnePerReg == \A i, j \in 1 .. Len(tb.tied) : i # j => tb.tied[i].w # tb.tied[j].w
BackPointers == \A w \in 0 .. Len(wg) - 1 : B(Idx(w) >= 0 => (Idx(w) < Len(tb.tied) /\ tb.tied[Idx(w) + 1].w = w))
                /\ \A i \in 1 .. Len(tb.tied) : tb.wt[tb.tied[i].w + 1] = i - 1
Counts == \A g \in 0 .. 3 : tb.cnt[g + 1] = Cardinality({i \in 1 .. Len(tb.tied) : G(tb.tied[i].w) = g})
FixedFlags == \A i \in 1 .. Len(tb.tied) : LET t == tb.tied[i] IN
                /\ B(t.uid # NoId => UseFixed \in t.f) /\ B(t.oid # NoId => OutFixed \in t.f)
                /\ B(t.uid # NoId => t.uid \in tb.used[G(t.w) + 1])
Aggregated == \A i \in 1 .. Len(tb.tied) : (tb.tied[i].f \ {Duplicate, UseDone, OutDone, Use, Out, Read, Write}) \subseteq tb.agg
TiedInv == OnePerReg /\ BackPointers /\ Counts /\ FixedFlags /\ Aggregated
=============================================================================
