------------------------------ MODULE LiveSpansMC ------------------------------
(* Implementation-shaped model of RALiveSpans (open_at, close_at, intersects,     *)
(* non_overlapping_union_of transcribed loop by loop from radefs_p.h) checked      *)
(* against the set-level contract LiveSpans.tla for every legal call sequence     *)
(* over a small position universe.  Variant # "head" injects a slip (negative     *)
(* controls).                                                                      *)
EXTENDS LiveSpans, TLC

CONSTANTS U,         \* kInf stands at position U; finite positions are 0 .. U-1
          MaxOps, Variant

VARIABLE hist
mcvars == <<sp, tjunk, inf, hist>>

(* ---- open_at: "if (last.b >= start) { was_open = last.b > start; last.b = end; } else append" ---------------------- *)
ImplOpen(s0, s, e) ==
  IF s0 # <<>> /\ (IF Variant = "open_gt" THEN LastOf(s0)[2] > s ELSE LastOf(s0)[2] >= s)
    THEN [spans |-> [s0 EXCEPT ![Len(s0)] = <<@[1], e>>], was |-> LastOf(s0)[2] > s]
    ELSE [spans |-> Append(s0, <<s, e>>), was |-> FALSE]
ImplClose(s0, e) == [s0 EXCEPT ![Len(s0)] = <<@[1], e>>]

(* ---- intersects -------------------------------------------------------------------------------------------------------- *)
SkipY(y, j, xa) == LET c == {k \in j .. Len(y) : ~(y[k][2] <= xa)}
                   IN IF c = {} THEN 0 ELSE CHOOSE k \in c : \A q \in c : k <= q
SkipX(x, i, ya) == LET c == {k \in i .. Len(x) : ~(x[k][2] <= ya)} IN IF c = {} THEN 0 ELSE CHOOSE k \in c : \A q \in c : k <= q
RECURSIVE IsectLoop(_, _, _, _)
IsectLoop(x, y, i, j) ==
  LET j2 == SkipY(y, j, x[i][1]) IN
  IF j2 = 0 THEN FALSE
  ELSE LET i2 == SkipX(x, i, y[j2][1]) IN
       IF i2 = 0 THEN FALSE
       ELSE IF y[j2][2] > x[i2][1] THEN TRUE
       ELSE IF Variant = "isect_touch" /\ y[j2][2] = x[i2][1] THEN TRUE          \* ">=" instead of ">"
       ELSE IsectLoop(x, y, i2, j2)
ImplIsect(x, y) == IF x = <<>> \/ y = <<>> THEN FALSE ELSE IsectLoop(x, y, 1, 1)

(* ---- non_overlapping_union_of ------------------------------------------------------------------------------------------ *)
RECURSIVE UnionLoop(_, _, _, _, _)
UnionLoop(x, y, i, j, dst) ==
  LET j2 == SkipY(y, j, x[i][1])
      dy == dst \o SubSeq(y, j, (IF j2 = 0 THEN Len(y) ELSE j2 - 1))
  IN
  IF j2 = 0 THEN [r |-> "Ok", spans |-> dy \o SubSeq(x, i, Len(x))]
  ELSE LET i2 == SkipX(x, i, y[j2][1])
           dx == dy \o SubSeq(x, i, (IF i2 = 0 THEN Len(x) ELSE i2 - 1))
       IN
       IF i2 = 0 THEN [r |-> "Ok", spans |-> dx \o SubSeq(y, j2, Len(y))]
       ELSE IF y[j2][2] > x[i2][1] /\ Variant # "union_nocheck" THEN [r |-> "ByPass", spans |-> <<>>]
       ELSE IF y[j2][2] > x[i2][1] THEN [r |-> "Ok", spans |-> dx \o SubSeq(x, i2, Len(x)) \o SubSeq(y, j2, Len(y))]
       ELSE UnionLoop(x, y, i2, j2, dx)
ImplUnion(x, y) == IF x = <<>> \/ y = <<>> THEN [r |-> "Ok", spans |-> x \o y] ELSE UnionLoop(x, y, 1, 1, <<>>)

RECURSIVE SumWidth(_, _)
SumWidth(s, i) == IF i = 0 THEN 0 ELSE (s[i][2] - s[i][1]) + SumWidth(s, i - 1)

(* ---- one model step = one call of the transcription, judged by the contract ---------------------------------------------- *)
Call(op) ==
  LET k == op[1] IN
  CASE k = "open"   -> /\ B(OpenPre(op[2], op[3], op[4]))
                       /\ LET res == ImplOpen(sp[op[2]], op[3], op[4]) IN OpenOk(op[2], op[3], op[4], "Ok", TRUE, res.was, res.spans)
    [] k = "close"  -> /\ B(ClosePre(op[2], op[3]))
                       /\ CloseOk(op[2], op[3], ImplClose(sp[op[2]], op[3]))
    [] k = "isect"  -> LET r == ImplIsect(sp[op[2]], sp[op[3]]) IN IsectOk(op[2], op[3], r, r)
    [] k = "union"  -> LET res == ImplUnion(sp[op[2]], sp[op[3]]) IN UnionOk(op[2], op[3], res.r, res.spans)
    [] k = "swap"   -> SwapOk(op[2], op[3])
    [] k = "reset"  -> ResetOk(op[2])
    [] k = "width"  -> WidthOk(op[2], SumWidth(sp[op[2]], Len(sp[op[2]])))
    [] OTHER -> FALSE

(* the calls offered to the model: legal ones (preconditions) over the universe *)
Enabled(op) ==
  LET k == op[1] IN
  CASE k = "open"  -> OpenPre(op[2], op[3], op[4])
    [] k = "close" -> ClosePre(op[2], op[3])
    [] k = "isect" -> (op[2] = "T" \/ op[3] = "T") => ~tjunk
    [] k = "union" -> TRUE
    [] k = "swap"  -> ~tjunk /\ sp.T # <<>>
    [] k = "reset" -> sp[op[2]] # <<>>
    [] k = "width" -> (op[2] = "T" => ~tjunk) /\ (sp[op[2]] = <<>> \/ LastOf(sp[op[2]])[2] # inf)
    [] OTHER -> FALSE

Ops == UNION {
  {<<"open", o, s, e>> : o \in {"X", "Y"}, s \in 0 .. U - 1, e \in 1 .. U},
  {<<"close", o, e>> : o \in {"X", "Y"}, e \in 1 .. U - 1},
  {<<"isect", "X", "Y">>, <<"isect", "Y", "X">>, <<"isect", "X", "T">>, <<"union", "X", "Y">>, <<"union", "Y", "X">>,
   <<"swap", "X", "T">>, <<"swap", "Y", "T">>, <<"reset", "X">>, <<"width", "X">>, <<"width", "T">>} }

MCInit == Init0 /\ inf = U /\ hist = <<>>
(* a call the contract does not admit is a refinement failure: the model then stops in state "stuck" *)
VARIABLE stuck
allvars == <<sp, tjunk, inf, hist, stuck>>
MCInit2 == MCInit /\ stuck = FALSE
MCNext == /\ Len(hist) < MaxOps /\ ~stuck
          /\ \E op \in Ops :
               /\ B(Enabled(op))
               /\ hist' = Append(hist, op)
               /\ IF ENABLED Call(op) THEN Call(op) /\ stuck' = FALSE
                                      ELSE stuck' = TRUE /\ UNCHANGED <<sp, tjunk, inf>>
MCSpec == MCInit2 /\ [][MCNext]_allvars

Refines == ~stuck                         \* every call of the transcription is a contract step
(* interval formulation used for the in-vivo observations = point-set formulation *)
IntervalsAgree == (WellFormed(sp.X) /\ WellFormed(sp.Y)) => (IntervalsMeet(sp.X, sp.Y) = (Pts(sp.X) \cap Pts(sp.Y) # {}))
(* lists built by open_at/close_at only stay coalesced until a union is swapped in *)
Export == (Len(hist) = MaxOps \/ stuck) => PrintT(<<"BEH", hist>>)
MCView == <<sp, tjunk, stuck, Len(hist)>>
=============================================================================
