SPECIFICATION Spec
CONSTANTS
  Sizes = {4, 8, 12}
  Aligns = {0, 4, 16}
  FlagSet = {0, 1, 3}
  UseCounts = {5}
  Deltas <- MCDeltas
  MaxSlots = 3
  MaxOps = 12
  Variant = "head"
INVARIANTS ContractInv NeverFails GapsDead
PROPERTY RefinesContract
VIEW View
