------------------------------- MODULE LiveSpans -------------------------------
(* Contract of asmjit's RALiveSpans / RALiveSpan (asmjit/core/radefs_p.h) stated   *)
(* over the SET of positions a span list denotes: a span is "Span that contains    *)
(* start (a) and end (b)", half open [a, b) ("is_valid: a < b", "width: b - a");    *)
(* kInf marks a span that is still open.  Extension check X05.                      *)
(*                                                                                  *)
(*   open_at(start, end)  "Open the current live span."  live' = (live \cap [0,start)) \cup [start,end); *)
(*                        was_open tells whether `start` was already live           *)
(*   close_at(end)        the last span now ends at `end`: live' = live \cap [0,end) *)
(*   intersects(x, y)     the two lists have a position in common                   *)
(*   non_overlapping_union_of(x, y)  the union of the two lists, refused with       *)
(*                        Error::kByPass exactly when they overlap                   *)
(*   width()              "Returns the sum of width of all spans."                  *)
(*   is_open()            the last span ends at kInf                                *)
(* Representation invariant: sorted, pairwise disjoint, every span valid            *)
(* (WellFormed); lists built by open_at/close_at alone are moreover coalesced       *)
(* (Canonical: neighbours do not touch).                                            *)
(* Protocol of the only caller of open_at/close_at (BaseRAPass::build_liveness):    *)
(* positions never decrease - start is not before the start of the last span, and   *)
(* close_at shortens the last span (a < end <= b).  The drivers keep to it.         *)
(* Objects: "X", "Y" (work registers) and "T" (the scratch list that receives       *)
(* unions and is swapped in on success); after a refused union T holds rubbish.     *)
EXTENDS Integers, Sequences, FiniteSets

VARIABLES sp,      \* [X, Y, T |-> sequence of <<a, b>>]
          tjunk,   \* T was the target of a refused union
          inf      \* the value that stands for RALiveSpan::kInf in this execution

B(x) == x = TRUE
Objs == {"X", "Y", "T"}

Pts(s) == UNION {s[i][1] .. s[i][2] - 1 : i \in 1 .. Len(s)}
Valid(s) == \A i \in 1 .. Len(s) : s[i][1] < s[i][2] /\ s[i][1] >= 0
WellFormed(s) == Valid(s) /\ \A i \in 1 .. Len(s) - 1 : s[i][2] <= s[i + 1][1]
Canonical(s) == Valid(s) /\ \A i \in 1 .. Len(s) - 1 : s[i][2] < s[i + 1][1]
LastOf(s) == s[Len(s)]
Below(n) == 0 .. n - 1

(* the same notion without point sets (used on long real lists): two half-open intervals overlap *)
IntervalsMeet(x, y) == \E i \in 1 .. Len(x) : \E j \in 1 .. Len(y) : x[i][1] < y[j][2] /\ y[j][1] < x[i][2]

Init0 == sp = [X |-> <<>>, Y |-> <<>>, T |-> <<>>] /\ tjunk = FALSE

(* ---- open_at(arena, start, end [, was_open]) ---------------------------------------------------------------------- *)
OpenPre(o, s, e) == o \in Objs /\ 0 <= s /\ s < e /\ e <= inf /\ B(sp[o] = <<>> \/ LastOf(sp[o])[1] <= s) /\ (o = "T" => ~tjunk)
OpenOk(o, s, e, r, hasWas, was, obs) ==
  /\ B(OpenPre(o, s, e))
  /\ r = "Ok"
  /\ hasWas => (was = (s \in Pts(sp[o])))
  /\ WellFormed(obs)
  /\ Pts(obs) = (Pts(sp[o]) \cap Below(s)) \cup (s .. e - 1)
  /\ Canonical(sp[o]) => Canonical(obs)
  /\ sp' = [sp EXCEPT ![o] = obs]
  /\ UNCHANGED <<tjunk, inf>>

(* ---- close_at(end):  ASSERT(!is_empty()) --------------------------------------------------------------------------- *)
ClosePre(o, e) == o \in Objs /\ sp[o] # <<>> /\ LastOf(sp[o])[1] < e /\ e <= LastOf(sp[o])[2] /\ (o = "T" => ~tjunk)
CloseOk(o, e, obs) ==
  /\ B(ClosePre(o, e))
  /\ WellFormed(obs)
  /\ Pts(obs) = Pts(sp[o]) \cap Below(e)
  /\ Canonical(sp[o]) => Canonical(obs)
  /\ sp' = [sp EXCEPT ![o] = obs]
  /\ UNCHANGED <<tjunk, inf>>

(* ---- intersects (static and member form) ---------------------------------------------------------------------------- *)
IsectOk(x, y, r, r2) ==
  /\ x \in Objs /\ y \in Objs /\ B((x = "T" \/ y = "T") => ~tjunk)
  /\ r = (Pts(sp[x]) \cap Pts(sp[y]) # {})
  /\ r2 = r
  /\ UNCHANGED <<sp, tjunk, inf>>

(* ---- T.non_overlapping_union_of(arena, x, y) ------------------------------------------------------------------------ *)
UnionOk(x, y, r, obsT) ==
  LET meet == Pts(sp[x]) \cap Pts(sp[y]) # {} IN
  /\ x \in {"X", "Y"} /\ y \in {"X", "Y"}
  /\ r \in {"Ok", "ByPass"}
  /\ (r = "ByPass") = meet
  /\ IF meet THEN tjunk' = TRUE /\ sp' = [sp EXCEPT !.T = <<>>]
             ELSE /\ WellFormed(obsT) /\ Pts(obsT) = Pts(sp[x]) \cup Pts(sp[y])
                  /\ tjunk' = FALSE /\ sp' = [sp EXCEPT !.T = obsT]
  /\ UNCHANGED inf

SwapOk(x, y) == /\ x \in Objs /\ y \in Objs /\ x # y /\ ~tjunk
                /\ sp' = [sp EXCEPT ![x] = sp[y], ![y] = sp[x]] /\ UNCHANGED <<tjunk, inf>>
ResetOk(o) == /\ o \in Objs /\ sp' = [sp EXCEPT ![o] = <<>>]
              /\ tjunk' = (IF o = "T" THEN FALSE ELSE tjunk) /\ UNCHANGED inf

(* width(): only asked of closed lists (an open span ends at 0xFFFFFFFF) *)
WidthOk(o, r) == /\ o \in Objs /\ (o = "T" => ~tjunk) /\ B(sp[o] = <<>> \/ LastOf(sp[o])[2] # inf)
                 /\ r = Cardinality(Pts(sp[o])) /\ UNCHANGED <<sp, tjunk, inf>>
IsOpenOk(o, r, empty, size) ==
  /\ o \in Objs /\ (o = "T" => ~tjunk)
  /\ r = B(sp[o] # <<>> /\ LastOf(sp[o])[2] = inf)
  /\ empty = (sp[o] = <<>>) /\ size = Len(sp[o])
  /\ UNCHANGED <<sp, tjunk, inf>>

(* ---- invariants ------------------------------------------------------------------------------------------------------- *)
AllWellFormed == WellFormed(sp.X) /\ WellFormed(sp.Y) /\ (~tjunk => WellFormed(sp.T))
NoneBeyondInf == \A o \in Objs : \A i \in 1 .. Len(sp[o]) : sp[o][i][2] <= inf
SpansInv == AllWellFormed /\ NoneBeyondInf
=============================================================================
