SPECIFICATION MCSpec
CONSTANTS
  MaxOps = 4
  Bug = "none"
INVARIANTS TiedInv MaskWithinAll RefCounts
VIEW MCView
