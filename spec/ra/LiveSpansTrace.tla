---------------------------- MODULE LiveSpansTrace ----------------------------
(* Trace validation for X05 / RALiveSpans: the recorded calls on the real lists  *)
(* must be a behaviour of the set-level contract LiveSpans.tla; after every call *)
(* the lists read back (data(), size()) must be the ones the contract admits and *)
(* the untouched lists must be unchanged.                                        *)
EXTENDS LiveSpans, TraceLib

VARIABLE l
tvars == <<sp, tjunk, inf, l>>
T == TraceLog
Ev == T[l]
IsEv(e) == l <= Len(T) /\ Ev.e = e /\ l' = l + 1
Op == Ev.op
St == Ev.st

(* lists not named by the call are untouched; a T full of rubbish is not compared *)
Matches == /\ St.X = sp'.X /\ St.Y = sp'.Y
           /\ tjunk' \/ St.T = sp'.T

TInit == Init0 /\ inf = 0 /\ l = 1 /\ InitProgress
TReset == /\ IsEv("Reset") /\ Ev.c = "spans"
          /\ inf' = Ev.inf /\ sp' = [X |-> <<>>, Y |-> <<>>, T |-> <<>>] /\ tjunk' = FALSE
          /\ St.X = <<>> /\ St.Y = <<>> /\ St.T = <<>>
TOp == /\ IsEv("Op")
       /\ CASE Op[1] = "open"   -> OpenOk(Op[2], Op[3], Op[4], Ev.r, TRUE, Ev.was, St[Op[2]])
            [] Op[1] = "open2"  -> OpenOk(Op[2], Op[3], Op[4], Ev.r, FALSE, FALSE, St[Op[2]])
            [] Op[1] = "close"  -> CloseOk(Op[2], Op[3], St[Op[2]])
            [] Op[1] = "isect"  -> IsectOk(Op[2], Op[3], Ev.r, Ev.r2)
            [] Op[1] = "union"  -> UnionOk(Op[2], Op[3], Ev.r, St.T)
            [] Op[1] = "swap"   -> SwapOk(Op[2], Op[3])
            [] Op[1] = "reset"  -> ResetOk(Op[2])
            [] Op[1] = "release" -> ResetOk(Op[2])
            [] Op[1] = "width"  -> WidthOk(Op[2], Ev.r)
            [] Op[1] = "isopen" -> IsOpenOk(Op[2], Ev.r, Ev.empty, Ev.size)
            [] OTHER -> FALSE
       /\ Matches
TNext == TReset \/ TOp
TSpec == TInit /\ [][TNext]_tvars
Progress == NoteProgress(l)
TraceAccepted == Accepted(Len(T))
=============================================================================
