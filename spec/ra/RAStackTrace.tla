---------------------------- MODULE RAStackTrace -----------------------------
(* Trace validation for X05 / RAStackAllocator: a recorded execution of the real *)
(* allocator is accepted iff it is a behaviour of the contract RAStack.tla.      *)
(* Environment switches (set by checks/x05.py):                                  *)
(*   X05_ORDER = "1"  also demand STEP 2's documented order of slots()            *)
(*   X05_BYTES = "1"  also demand the documented meaning of bytes_used()          *)
EXTENDS RAStack, TraceLib

VARIABLE l
tvars == <<v, scale, l>>
T == TraceLog
Ev == T[l]
IsEv(e) == l <= Len(T) /\ Ev.e = e /\ l' = l + 1

StrictOrder == "X05_ORDER" \in DOMAIN IOEnv /\ IOEnv.X05_ORDER = "1"
StrictBytes == "X05_BYTES" \in DOMAIN IOEnv /\ IOEnv.X05_BYTES = "1"

TInit == Init /\ l = 1 /\ InitProgress
TReset == IsEv("Reset") /\ Ev.c = "stack" /\ B(SaneObs(Ev.st)) /\ View(Ev.st) = Empty /\ v' = Empty /\ scale' = Ev.scale
TNew == IsEv("New") /\ NewOk(Ev.size, Ev.align, Ev.flags, Ev.base, Ev.r, Ev.st) /\ UNCHANGED scale
TUse == IsEv("Use") /\ UseOk(Ev.i, Ev.k, Ev.st) /\ UNCHANGED scale
TFlag == IsEv("Flag") /\ FlagOk(Ev.i, Ev.f, Ev.st) /\ UNCHANGED scale
TSetOff == IsEv("SetOff") /\ SetOffOk(Ev.i, Ev.off, Ev.st) /\ UNCHANGED scale
TSetBase == IsEv("SetBase") /\ SetBaseOk(Ev.i, Ev.base, Ev.st) /\ UNCHANGED scale
TCalc == IsEv("Calc") /\ (CalcOk(Ev.r, Ev.st, StrictOrder, StrictBytes) \/ CalcRefused(Ev.r, Ev.st)) /\ UNCHANGED scale
TAdjust == IsEv("Adjust") /\ AdjustOk(Ev.d, Ev.r, Ev.st) /\ UNCHANGED scale
TResetAlloc == IsEv("ResetAlloc") /\ ResetOk(Ev.st) /\ UNCHANGED scale
TBig == IsEv("BigCalc") /\ BigCalcOk(Ev) /\ UNCHANGED scale

TNext == TReset \/ TNew \/ TUse \/ TFlag \/ TSetOff \/ TSetBase \/ TCalc \/ TAdjust \/ TResetAlloc \/ TBig
TSpec == TInit /\ [][TNext]_tvars
Progress == NoteProgress(l)
TraceAccepted == Accepted(Len(T))
=============================================================================
