------------------------------- MODULE RAAssign -------------------------------
(* Specification of asmjit's RAAssignment (asmjit/core/raassignment_p.h): the     *)
(* current assignment of work registers to physical registers, kept as two maps   *)
(* (WorkToPhysMap / PhysToWorkMap) plus the `assigned` and `dirty` masks per       *)
(* register group.  Extension check X05.                                          *)
(*                                                                                *)
(* Header: "These are low-level allocation helpers that are used to update the    *)
(* current mappings between physical and virt/work registers and also to update   *)
(* masks that represent allocated and dirty registers. These functions don't emit *)
(* any code; they are only used to update and keep all mappings in sync."         *)
(*   PhysToWorkMap::assigned "Assigned registers (each bit represents one         *)
(*                            physical reg)."                                     *)
(*   PhysToWorkMap::dirty    "Dirty registers (spill slot out of sync or no spill *)
(*                            slot)."                                             *)
(* The preconditions of every action are the ASMJIT_ASSERTs of the method; the    *)
(* property is that the two maps stay mutually inverse partial bijections per     *)
(* group, `assigned` is exactly the domain, and dirty is a subset of assigned.    *)
(*                                                                                *)
(* Objects: two RAAssignment instances "A" and "B" over one Layout (copy_from /    *)
(* swap / equals relate them) and one detached PhysToWorkMap "M" (the entry        *)
(* assignment of a block: cloned, edited with PhysToWorkMap::unassign, installed   *)
(* with copy_from(PhysToWorkMap ptr) which rebuilds the WorkToPhysMap).               *)
(* Register ids, work ids and groups are 0-based as in the code; sequences are    *)
(* indexed id + 1.                                                                *)
EXTENDS Integers, Sequences, FiniteSets

VARIABLES lay,     \* [pc : <<n0,n1,n2,n3>> physical registers per group, wg : group of every work register]
          a,       \* [A |-> obj, B |-> obj];  obj = [w2p, p2w, asg, dty]
          m        \* detached PhysToWorkMap [p2w, asg, dty]

None == -1          \* RAAssignment::kPhysNone (0xFF) / kBadWorkId, as logged by the harness
B(x) == x = TRUE

NW == Len(lay.wg)
PC(g) == lay.pc[g + 1]
WG(w) == lay.wg[w + 1]
Groups == 0 .. 3

EmptyMap(l) == [p2w |-> [g \in 1 .. 4 |-> [p \in 1 .. l.pc[g] |-> None]], asg |-> [g \in 1 .. 4 |-> {}], dty |-> [g \in 1 .. 4 |-> {}]]
EmptyObj(l) == [w2p |-> [w \in 1 .. Len(l.wg) |-> None], p2w |-> EmptyMap(l).p2w, asg |-> EmptyMap(l).asg, dty |-> EmptyMap(l).dty]
PartOf(o) == [p2w |-> o.p2w, asg |-> o.asg, dty |-> o.dty]

W2P(o, w) == o.w2p[w + 1]
P2W(o, g, p) == o.p2w[g + 1][p + 1]
Asg(o, g) == o.asg[g + 1]
Dty(o, g) == o.dty[g + 1]
ValidW(w) == w \in 0 .. NW - 1
ValidP(g, p) == g \in Groups /\ p \in 0 .. PC(g) - 1

(* ---- assign(group, work_id, phys_id, dirty) ---------------------------------------------------------------------- *)
(* ASSERT(work_to_phys_id(group, work_id) == kPhysNone); ASSERT(phys_to_work_id(group, phys_id) == kBadWorkId);       *)
(* ASSERT(!is_phys_assigned(group, phys_id)); ASSERT(!is_phys_dirty(group, phys_id));                                 *)
AssignPre(o, g, w, p) == ValidW(w) /\ ValidP(g, p) /\ WG(w) = g /\ W2P(o, w) = None /\ P2W(o, g, p) = None
                         /\ p \notin Asg(o, g) /\ p \notin Dty(o, g)
AssignEff(o, g, w, p, d) == [o EXCEPT !.w2p[w + 1] = p, !.p2w[g + 1][p + 1] = w, !.asg[g + 1] = @ \cup {p},
                                      !.dty[g + 1] = IF d THEN @ \cup {p} ELSE @]

(* ---- unassign(group, work_id, phys_id) --------------------------------------------------------------------------- *)
(* ASSERT(work_to_phys_id == phys_id); ASSERT(phys_to_work_id == work_id); ASSERT(is_phys_assigned)                   *)
UnassignPre(o, g, w, p) == ValidW(w) /\ ValidP(g, p) /\ W2P(o, w) = p /\ P2W(o, g, p) = w /\ p \in Asg(o, g)
UnassignEff(o, g, w, p) == [o EXCEPT !.w2p[w + 1] = None, !.p2w[g + 1][p + 1] = None, !.asg[g + 1] = @ \ {p}, !.dty[g + 1] = @ \ {p}]

(* ---- reassign(group, work_id, dst_phys_id, src_phys_id) ---------------------------------------------------------- *)
(* ASSERT(dst != src); ASSERT(work_to_phys_id == src); ASSERT(phys_to_work_id(src) == work_id);                       *)
(* ASSERT(is_phys_assigned(src)); ASSERT(!is_phys_assigned(dst))                                                      *)
ReassignPre(o, g, w, dst, src) == ValidW(w) /\ ValidP(g, dst) /\ ValidP(g, src) /\ dst # src /\ W2P(o, w) = src
                                  /\ P2W(o, g, src) = w /\ src \in Asg(o, g) /\ dst \notin Asg(o, g)
ReassignEff(o, g, w, dst, src) ==
  [o EXCEPT !.w2p[w + 1] = dst, !.p2w[g + 1] = [@ EXCEPT ![src + 1] = None, ![dst + 1] = w],
            !.asg[g + 1] = (@ \ {src}) \cup {dst},
            !.dty[g + 1] = IF src \in @ THEN (@ \ {src}) \cup {dst} ELSE @ \ {dst}]      \* the dirty state travels with the value

(* ---- swap(group, a_work_id, a_phys_id, b_work_id, b_phys_id) ----------------------------------------------------- *)
SwapPre(o, g, aw, ap, bw, bp) == ValidW(aw) /\ ValidW(bw) /\ ValidP(g, ap) /\ ValidP(g, bp) /\ ap # bp
                                 /\ W2P(o, aw) = ap /\ W2P(o, bw) = bp /\ P2W(o, g, ap) = aw /\ P2W(o, g, bp) = bw
                                 /\ ap \in Asg(o, g) /\ bp \in Asg(o, g)
SwapEff(o, g, aw, ap, bw, bp) ==
  [o EXCEPT !.w2p = [@ EXCEPT ![aw + 1] = bp, ![bw + 1] = ap],
            !.p2w[g + 1] = [@ EXCEPT ![ap + 1] = bw, ![bp + 1] = aw],
            !.dty[g + 1] = (@ \ {ap, bp}) \cup (IF ap \in @ THEN {bp} ELSE {}) \cup (IF bp \in @ THEN {ap} ELSE {})]

(* ---- make_dirty / make_clean (no ASSERT in the header; a register that holds nothing cannot be out of sync with  *)
(* its spill slot: the drivers call them for the current holder only)                                               *)
DirtyPre(o, g, w, p) == ValidW(w) /\ ValidP(g, p) /\ P2W(o, g, p) = w /\ p \in Asg(o, g)
MakeDirtyEff(o, g, p) == [o EXCEPT !.dty[g + 1] = @ \cup {p}]
MakeCleanEff(o, g, p) == [o EXCEPT !.dty[g + 1] = @ \ {p}]

(* ---- copy_from(PhysToWorkMap ptr): "assign_work_ids_from_phys_ids" rebuilds the WorkToPhysMap ----------------------- *)
(* ASSERT(work_id != kBadWorkId) for every assigned register                                                          *)
MapWhole(x) == \A g \in Groups : \A p \in x.asg[g + 1] : p \in 0 .. PC(g) - 1 /\ x.p2w[g + 1][p + 1] # None
Holders(x, w) == {gp \in UNION {{<<g, p>> : p \in x.asg[g + 1]} : g \in Groups} : x.p2w[gp[1] + 1][gp[2] + 1] = w}
MapInjective(x) == \A w \in 0 .. NW - 1 : Cardinality(Holders(x, w)) <= 1
FromMap(x) == [w2p |-> [w \in 1 .. NW |-> IF Holders(x, w - 1) = {} THEN None ELSE (CHOOSE gp \in Holders(x, w - 1) : TRUE)[2]],
               p2w |-> x.p2w, asg |-> x.asg, dty |-> x.dty]

(* ---- PhysToWorkMap::unassign(group, phys_id, index) on the detached map ------------------------------------------ *)
MUnassignEff(x, g, p) == [x EXCEPT !.p2w[g + 1][p + 1] = None, !.asg[g + 1] = @ \ {p}, !.dty[g + 1] = @ \ {p}]

Other(n) == IF n = "A" THEN "B" ELSE "A"

(* One call.  op = <<name, args...>> exactly as the harness logs it; res = the value it returned (equals only).      *)
MapArg(op) == IF op[3] = "M" THEN m ELSE PartOf(a[op[3]])
Pre(op, res) ==
  LET k == op[1] IN
  CASE k = "assign"    -> AssignPre(a[op[2]], op[3], op[4], op[5])
    [] k = "unassign"  -> UnassignPre(a[op[2]], op[3], op[4], op[5])
    [] k = "reassign"  -> ReassignPre(a[op[2]], op[3], op[4], op[5], op[6])
    [] k = "swap"      -> SwapPre(a[op[2]], op[3], op[4], op[5], op[6], op[7])
    [] k = "dirty"     -> DirtyPre(a[op[2]], op[3], op[4], op[5])
    [] k = "clean"     -> DirtyPre(a[op[2]], op[3], op[4], op[5])
    [] k = "copy"      -> op[2] # op[3]
    [] k = "copymaps"  -> op[2] # op[3]
    [] k = "copyp2w"   -> op[2] # op[3] /\ MapWhole(MapArg(op)) /\ MapInjective(MapArg(op))
    [] k = "clone"     -> TRUE
    [] k = "munassign" -> ValidP(op[2], op[3])
    [] k = "mreset"    -> TRUE
    [] k = "swapobj"   -> TRUE
    [] k = "equals"    -> res = (a[op[2]] = a[op[3]])            \* "equals": all maps and masks agree (same layout)
    [] k = "resetmaps" -> TRUE
    [] OTHER           -> FALSE

EffA(op) ==
  LET k == op[1] IN
  CASE k = "assign"    -> [a EXCEPT ![op[2]] = AssignEff(@, op[3], op[4], op[5], op[6] # 0)]
    [] k = "unassign"  -> [a EXCEPT ![op[2]] = UnassignEff(@, op[3], op[4], op[5])]
    [] k = "reassign"  -> [a EXCEPT ![op[2]] = ReassignEff(@, op[3], op[4], op[5], op[6])]
    [] k = "swap"      -> [a EXCEPT ![op[2]] = SwapEff(@, op[3], op[4], op[5], op[6], op[7])]
    [] k = "dirty"     -> [a EXCEPT ![op[2]] = MakeDirtyEff(@, op[3], op[5])]
    [] k = "clean"     -> [a EXCEPT ![op[2]] = MakeCleanEff(@, op[3], op[5])]
    [] k = "copy"      -> [a EXCEPT ![op[2]] = a[op[3]]]
    [] k = "copymaps"  -> [a EXCEPT ![op[2]] = a[op[3]]]
    [] k = "copyp2w"   -> [a EXCEPT ![op[2]] = FromMap(MapArg(op))]
    [] k = "swapobj"   -> [A |-> a.B, B |-> a.A]
    [] k = "resetmaps" -> [a EXCEPT ![op[2]] = EmptyObj(lay)]
    [] OTHER           -> a
EffM(op) ==
  LET k == op[1] IN
  CASE k = "clone"     -> PartOf(a[op[2]])
    [] k = "munassign" -> MUnassignEff(m, op[2], op[3])
    [] k = "mreset"    -> EmptyMap(lay)
    [] OTHER           -> m

Step(op, res) == B(Pre(op, res)) /\ a' = EffA(op) /\ m' = EffM(op) /\ UNCHANGED lay

(* ---- the property ------------------------------------------------------------------------------------------------- *)
Inverse(o) ==
  /\ \A w \in 0 .. NW - 1 : B(W2P(o, w) # None => (W2P(o, w) \in 0 .. PC(WG(w)) - 1 /\ P2W(o, WG(w), W2P(o, w)) = w))
  /\ \A g \in Groups : \A p \in 0 .. PC(g) - 1 :
       B(P2W(o, g, p) # None => (P2W(o, g, p) \in 0 .. NW - 1 /\ WG(P2W(o, g, p)) = g /\ W2P(o, P2W(o, g, p)) = p))
AsgExact(x) == \A g \in Groups : x.asg[g + 1] = {p \in 0 .. PC(g) - 1 : x.p2w[g + 1][p + 1] # None}
DirtySub(x) == \A g \in Groups : x.dty[g + 1] \subseteq x.asg[g + 1]

Bijection == Inverse(a.A) /\ Inverse(a.B)
MasksExact == AsgExact(a.A) /\ AsgExact(a.B) /\ AsgExact(m)
DirtyAssigned == DirtySub(a.A) /\ DirtySub(a.B) /\ DirtySub(m)
MInjective == MapInjective(m)
AssignInv == Bijection /\ MasksExact /\ DirtyAssigned /\ MInjective

(* Layout (init_layout): "Index of architecture registers per group" = prefix sums, phys_total = sum *)
LayoutOk(pidx, ptotal, wcount) ==
  /\ pidx = <<0, lay.pc[1], lay.pc[1] + lay.pc[2], lay.pc[1] + lay.pc[2] + lay.pc[3]>>
  /\ ptotal = lay.pc[1] + lay.pc[2] + lay.pc[3] + lay.pc[4]
  /\ wcount = NW
=============================================================================
