------------------------------- MODULE RATiedMC -------------------------------
(* All add/add_call_arg/add_call_ret/mutator sequences of one instruction over a  *)
(* few work registers keep the summary consistent (RATied!TiedInv) and make the    *)
(* use mask the intersection of everything that was asked for.  Bug injects a slip *)
(* (negative controls).                                                            *)
EXTENDS RATied, TLC
CONSTANTS MaxOps, Bug
VARIABLES hist, asked     \* asked[w] = set of use masks given for w by add() so far
mcvars == <<wg, tb, hist, asked>>
MCwg == <<0, 1>>
Ws == 0 .. Len(MCwg) - 1
(* ["add", w, flagsLo, flagsHi, useMask, useId, useRw, outMask, outId, outRw, rm, parent] *)
Ops == UNION {
  {<<"add", w, 5, 0, um, uid, 1, 7, 255, 2, rm, -1>> : w \in Ws, um \in {3, 6}, uid \in {255, 1}, rm \in {0, 8}},     \* read / use
  {<<"add", w, 10, 0, 7, 255, 1, 5, oid, 2, 0, -1>> : w \in Ws, oid \in {255, 2}},                                 \* write / out
  {<<"add", w, 7, 0, 3, 255, 4, 7, 255, 2, 0, -1>> : w \in Ws},                                                   \* read-write / use
  {<<"arg", w, p>> : w \in Ws, p \in {1, 2}}, {<<"ret", w, p>> : w \in Ws, p \in {0}},
  {<<"ro", w>> : w \in Ws}, {<<"wo", w>> : w \in Ws}, {<<"reset", 0>>} }
Res(op) == IF op[1] = "add" THEN (IF AddErr(op[2], op[6], op[9], op[12]) THEN "Err" ELSE "Ok")
           ELSE IF op[1] = "ret" THEN (IF RetErr(op[2]) THEN "Err" ELSE "Ok") ELSE "Ok"
BugEff(op) ==
  LET good == Eff(op) IN
  IF Bug = "count_every_add" /\ op[1] = "add" /\ Idx(op[2]) >= 0 THEN [good EXCEPT !.cnt[G(op[2]) + 1] = @ + 1]
  ELSE IF Bug = "mask_union" /\ op[1] = "add" /\ Idx(op[2]) >= 0 THEN [good EXCEPT !.tied[Idx(op[2]) + 1].um = tb.tied[Idx(op[2]) + 1].um \cup Bits(op[5])]
  ELSE good
MCInit == wg = MCwg /\ tb = EmptyB(Len(MCwg)) /\ hist = <<>> /\ asked = [w \in Ws |-> {}]
MCNext == /\ Len(hist) < MaxOps
          /\ \E op \in Ops :
               /\ B(Pre(op, Res(op))) /\ Res(op) = "Ok"
               /\ tb' = BugEff(op) /\ hist' = Append(hist, op) /\ UNCHANGED wg
               /\ asked' = IF op[1] = "reset" THEN [w \in Ws |-> {}]
                           ELSE IF op[1] = "add" THEN [asked EXCEPT ![op[2]] = @ \cup {Bits(op[5])}] ELSE asked
MCSpec == MCInit /\ [][MCNext]_mcvars
(* a register referenced by several operands can only live where all of them allow *)
MaskWithinAll == \A w \in Ws : B((Idx(w) >= 0 /\ Duplicate \notin Tied(w).f) => \A mk \in asked[w] : Tied(w).um \subseteq mk)
RefCounts == \A w \in Ws : B(Idx(w) >= 0 => Tied(w).ref = Cardinality({i \in 1 .. Len(hist) : hist[i][1] \in {"add", "arg", "ret"} /\ hist[i][2] = w
                                                            /\ \A j \in i .. Len(hist) : hist[j][1] # "reset"}))
Export == Len(hist) = MaxOps => PrintT(<<"BEH", hist>>)
MCView == <<tb, asked, Len(hist)>>
=============================================================================
