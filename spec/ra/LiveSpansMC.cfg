SPECIFICATION MCSpec
CONSTANTS
  U = 6
  MaxOps = 5
  Variant = "head"
INVARIANTS SpansInv Refines IntervalsAgree
VIEW MCView
