----------------------------- MODULE RATablesObs -----------------------------
(* Pointwise verdicts (X05) over observations of the small value types of the      *)
(* register allocator (radefs_p.h: RARegCount, RARegIndex, RARegMask, RARegsStats,  *)
(* RALiveSpan, RALiveCount; rareg_p.h: RAWorkReg flags / masks / ids;               *)
(* raconstraints_p.h: RAConstraints::init) and over snapshots of REAL allocator     *)
(* runs taken in BaseRAPass::on_done() ("vivo": physical-register layout, available *)
(* registers, stack slots, live spans, home registers, block graph).                *)
(* Every observation is one initial state; Judge prints a REJECT line with the      *)
(* names of the clauses that fail.                                                  *)
(*                                                                                  *)
(* Documented meaning used as the oracle:                                           *)
(*  RARegCount   "Count of virtual or physical registers per group ... uses 8-bit   *)
(*                integers"; get/set/add per group                                  *)
(*  RARegIndex   "Provides mapping that can be used to fast index architecture      *)
(*                register groups." = prefix sums of the counts                     *)
(*  RARegMask    one mask per group; op<Operator>, clear = and-not, has, is_empty    *)
(*  RAWorkReg    _use_id_mask "If this mask is non-zero and not a power of two, it   *)
(*                means that the register is used multiple times in instructions     *)
(*                where it requires to have a different use ID."                     *)
(*               _preferred_mask / _consecutive_mask start as all ones and are       *)
(*                restricted (and-ed); has_* = "differs from all ones"               *)
(*  RAConstraints "Provides architecture constraints used by register allocator":   *)
(*                available registers per group - never the stack pointer, only      *)
(*                registers the architecture has; AArch64 x18 is the platform        *)
(*                register ("OS-specific use, usually TLS", a64rapass.cpp)           *)
EXTENDS Integers, Sequences, FiniteSets, TLC, Json, IOUtils

ObsFile == IF "OBS" \in DOMAIN IOEnv THEN IOEnv.OBS ELSE "obs.ndjson"
Obs == ndJsonDeserialize(ObsFile)

VARIABLE i
ToSet(s) == {s[k] : k \in 1 .. Len(s)}
Sets4(x) == [g \in 1 .. 4 |-> ToSet(x[g])]
All32 == 0 .. 31
Max(a, b) == IF a >= b THEN a ELSE b
Has(o, f) == f \in DOMAIN o

(* ---- RARegCount ---------------------------------------------------------------------------------------------------- *)
RECURSIVE CountFold(_, _, _)
CountFold(ops, k, c) ==
  IF k > Len(ops) THEN c
  ELSE LET op == ops[k] IN
       CountFold(ops, k + 1, IF op[1] = "set" THEN [c EXCEPT ![op[2] + 1] = op[3]] ELSE [c EXCEPT ![op[2] + 1] = @ + op[3]])
CountWhy(o) ==
  LET c == CountFold(o.ops, 1, <<0, 0, 0, 0>>) IN
  (IF o.get = c THEN {} ELSE {"count:get"}) \cup
  (IF o.eqcopy /\ ~o.necopy THEN {} ELSE {"count:equality"}) \cup
  (IF o.eqzero = (c = <<0, 0, 0, 0>>) THEN {} ELSE {"count:equality-zero"})

IndexWhy(o) == IF o.idx = <<0, o.cnt[1], o.cnt[1] + o.cnt[2], o.cnt[1] + o.cnt[2] + o.cnt[3]>> THEN {} ELSE {"index:prefix-sums"}

(* ---- RARegMask ------------------------------------------------------------------------------------------------------- *)
MaskExpected(o) ==
  LET a == Sets4(o.a) b == Sets4(o.b) gm == ToSet(o.gm) g == o.g + 1 IN
  CASE o.op = "or"      -> [k \in 1 .. 4 |-> a[k] \cup b[k]]
    [] o.op = "and"     -> [k \in 1 .. 4 |-> a[k] \cap b[k]]
    [] o.op = "andnot"  -> [k \in 1 .. 4 |-> a[k] \ b[k]]
    [] o.op = "xor"     -> [k \in 1 .. 4 |-> (a[k] \ b[k]) \cup (b[k] \ a[k])]
    [] o.op = "gor"     -> [a EXCEPT ![g] = @ \cup gm]
    [] o.op = "gand"    -> [a EXCEPT ![g] = @ \cap gm]
    [] o.op = "gandnot" -> [a EXCEPT ![g] = @ \ gm]
    [] o.op = "clear"   -> [a EXCEPT ![g] = @ \ gm]
    [] o.op = "clearall" -> [k \in 1 .. 4 |-> a[k] \ b[k]]
MaskWhy(o) ==
  LET e == MaskExpected(o) r == Sets4(o.r) g == o.g + 1 IN
  (IF r = e THEN {} ELSE {"mask:" \o o.op}) \cup
  (IF o.empty = (\A k \in 1 .. 4 : r[k] = {}) /\ o.zempty THEN {} ELSE {"mask:is_empty"}) \cup
  (IF o.has = (r[g] # {}) /\ o.hasm = (r[g] \cap ToSet(o.gm) # {}) THEN {} ELSE {"mask:has"}) \cup
  (IF o.eq = (r = Sets4(o.a)) /\ o.ne = ~o.eq /\ o.cpeq THEN {} ELSE {"mask:equality"})

(* ---- RARegsStats: kIndexUsed 0, kIndexFixed 8, kIndexClobbered 16 ------------------------------------------------------ *)
StatsWhy(o) ==
  LET S(kind) == {o.ops[k][2] : k \in {j \in 1 .. Len(o.ops) : o.ops[j][1] = kind}}
      e == <<S("used") # {}, S("fixed") # {}, S("clob") # {}>> \o [g \in 1 .. 4 |-> (g - 1) \in S("used")]
           \o [g \in 1 .. 4 |-> (g - 1) \in S("fixed")] \o [g \in 1 .. 4 |-> (g - 1) \in S("clob")]
  IN IF o.q = e THEN {} ELSE {"stats:queries"}

SpanWhy(o) ==
  (IF o.valid = (o.a < o.b) THEN {} ELSE {"span:is_valid"}) \cup
  (IF o.a > o.b \/ o.width = o.b - o.a THEN {} ELSE {"span:width"}) \cup
  (IF o.ta = o.a /\ o.tb = o.b /\ o.ua = 0 /\ o.ub = 0 THEN {} ELSE {"span:init-reset"})

LiveCountWhy(o) ==
  (IF o.max = [g \in 1 .. 4 |-> Max(o.a[g], o.b[g])] THEN {} ELSE {"livecount:max"}) \cup
  (IF o.sum = [g \in 1 .. 4 |-> o.a[g] + o.b[g]] THEN {} ELSE {"livecount:add"}) \cup
  (IF o.rst = <<0, 0, 0, 0>> THEN {} ELSE {"livecount:reset"})

(* ---- RAWorkReg ------------------------------------------------------------------------------------------------------------- *)
RECURSIVE WorkFold(_, _, _)
WorkFold(ops, k, st) ==
  IF k > Len(ops) THEN st
  ELSE LET op == ops[k] m == ToSet(op[2]) IN
       WorkFold(ops, k + 1,
         CASE op[1] = "addf"  -> [st EXCEPT !.flags = @ \cup m]
           [] op[1] = "xorf"  -> [st EXCEPT !.flags = (@ \ m) \cup (m \ @)]
           [] op[1] = "clrf"  -> [st EXCEPT !.flags = @ \ m]
           [] op[1] = "useid" -> [st EXCEPT !.useid = @ \cup m]
           [] op[1] = "pref"  -> [st EXCEPT !.pref = @ \cap m]
           [] op[1] = "cons"  -> [st EXCEPT !.cons = @ \cap m]
           [] op[1] = "clob"  -> [st EXCEPT !.clob = @ \cup m]
           [] op[1] = "alloc" -> [st EXCEPT !.alloc = @ \cup m])
WorkWhy(o) ==
  LET st == WorkFold(o.ops, 1, [flags |-> {}, useid |-> {}, pref |-> All32, cons |-> All32, clob |-> {}, alloc |-> {}])
      f == st.flags
  IN
  (IF ToSet(o.flags) = f THEN {} ELSE {"workreg:flags"}) \cup
  (IF o.q = <<0 \in f, 3 \notin f, 12 \in f, 13 \in f, 4 \in f, 5 \in f>> THEN {} ELSE {"workreg:flag-queries"}) \cup
  (IF ToSet(o.useid) = st.useid /\ ToSet(o.pref) = st.pref /\ ToSet(o.cons) = st.cons /\ ToSet(o.clob) = st.clob /\ ToSet(o.alloc) = st.alloc
     THEN {} ELSE {"workreg:masks"}) \cup
  (IF o.hasuse = (st.useid # {}) THEN {} ELSE {"workreg:has_use_id_mask"}) \cup
  (IF o.multi = (Cardinality(st.useid) >= 2) THEN {} ELSE {"workreg:has_multiple_use_ids"}) \cup
  (IF o.haspref = (st.pref # All32) /\ o.hascons = (st.cons # All32) THEN {} ELSE {"workreg:has_preferred/consecutive_mask"}) \cup
  (IF /\ o.hashome = (o.sethome >= 0) /\ (o.sethome >= 0 => o.home = o.sethome)
      /\ o.hashint = (o.sethint >= 0) /\ (o.sethint >= 0 => o.hint = o.sethint)
      /\ o.hasarg = (o.setarg >= 0) /\ (o.setarg >= 0 => (o.arg = o.setarg /\ o.val = o.setval))
     THEN {} ELSE {"workreg:ids"}) \cup
  (IF o.ggrp = o.grp /\ o.gwid = o.wid /\ ~o.hasslot /\ ~o.hastied THEN {} ELSE {"workreg:identity"}) \cup
  (IF o.icok /\ ToSet(o.icbits) = ToSet(o.ic) /\ o.hasic = (o.ic # <<>>) THEN {} ELSE {"workreg:immediate_consecutives"})

(* ---- RAConstraints::init(arch) ------------------------------------------------------------------------------------------------ *)
(* registers the architecture has, per RegGroup (GP, vector, mask / extra, MM): Intel SDM vol.1 3.4 / 10-15; Arm ARM B1.2       *)
ArchRegs(arch) ==
  CASE arch = "x86"     -> <<0 .. 7, 0 .. 7, 0 .. 7, 0 .. 7>>
    [] arch = "x64"     -> <<0 .. 15, 0 .. 31, 0 .. 7, 0 .. 7>>
    [] arch = "aarch64" -> <<0 .. 30, 0 .. 31, {}, {}>>
StackPointer(arch) == IF arch = "aarch64" THEN 31 ELSE 4
ConstraintsWhy(o) ==
  LET av == Sets4(o.avail) IN
  IF o.arch \in {"x86", "x64", "aarch64"} THEN
    (IF o.r = "Ok" THEN {} ELSE {"constraints:" \o o.arch \o ":refused"}) \cup
    (IF o.sp = StackPointer(o.arch) /\ o.sp \notin av[1] THEN {} ELSE {"constraints:" \o o.arch \o ":stack-pointer-available"}) \cup
    (IF \A g \in 1 .. 4 : av[g] \subseteq ArchRegs(o.arch)[g] THEN {} ELSE {"constraints:" \o o.arch \o ":register-does-not-exist"}) \cup
    (IF av[1] # {} /\ av[2] # {} THEN {} ELSE {"constraints:" \o o.arch \o ":nothing-available"}) \cup
    (IF o.arch # "aarch64" \/ 18 \notin av[1] THEN {} ELSE {"constraints:aarch64:platform-register-available"}) \cup
    (LET want == IF o.arch = "x86" THEN (0 .. 7) \ {4} ELSE IF o.arch = "x64" THEN (0 .. 15) \ {4} ELSE (0 .. 30) \ {18} IN
     IF av[1] \subseteq want /\ (want \ av[1]) \subseteq {o.fp} THEN {}          \* everything but SP (x18), the frame pointer may be held back
     ELSE {"constraints:" \o o.arch \o ":gp-set"})
  ELSE IF o.arch = "unknown" THEN (IF o.r # "Ok" THEN {} ELSE {"constraints:unknown-arch-accepted"})
  ELSE {}

(* ---- snapshot of a real allocator run ------------------------------------------------------------------------------------------- *)
WellFormed(s) == (\A k \in 1 .. Len(s) : s[k][1] < s[k][2] /\ s[k][1] >= 0) /\ \A k \in 1 .. Len(s) - 1 : s[k][2] <= s[k + 1][1]
Canonical(s) == (\A k \in 1 .. Len(s) : s[k][1] < s[k][2] /\ s[k][1] >= 0) /\ \A k \in 1 .. Len(s) - 1 : s[k][2] < s[k + 1][1]
IntervalsMeet(x, y) == \E p \in 1 .. Len(x) : \E q \in 1 .. Len(y) : x[p][1] < y[q][2] /\ y[q][1] < x[p][2]
RECURSIVE SumW(_, _)
SumW(s, k) == IF k = 0 THEN 0 ELSE (s[k][2] - s[k][1]) + SumW(s, k - 1)
Count(s, x) == Cardinality({k \in 1 .. Len(s) : s[k] = x})
IsArgSlot(t) == (t[3] \div 2) % 2 = 1
IsHomeSlot(t) == t[3] % 2 = 1

VivoWhy(o) ==
  IF ~Has(o, "snap") THEN (IF o.r = "Ok" THEN {"vivo:no-snapshot"} ELSE {})
  ELSE
  LET s == o.snap
      av == Sets4(s.avail)
      pc == s.pcount
      regs == s.regs
      slots == s.stack.slots
      placed == {k \in 1 .. Len(slots) : ~IsArgSlot(slots[k])}
      okrun == o.r = "Ok"
      A == o.arch
  IN
  (* physical register layout *)
  (IF s.pindex = <<0, pc[1], pc[1] + pc[2], pc[1] + pc[2] + pc[3]>> /\ s.ptotal = pc[1] + pc[2] + pc[3] + pc[4] THEN {} ELSE {"vivo:" \o A \o ":phys-index"}) \cup
  (IF s.sp = s.tsp /\ s.sp \notin av[1] THEN {} ELSE {"vivo:" \o A \o ":stack-pointer-available"}) \cup
  (IF ~s.hasfp \/ s.tfp \notin av[1] THEN {} ELSE {"vivo:" \o A \o ":preserved-frame-pointer-available"}) \cup
  (IF \A g \in 1 .. 4 : av[g] \subseteq 0 .. pc[g] - 1 THEN {} ELSE {"vivo:" \o A \o ":available-beyond-count"}) \cup
  (IF A # "aarch64" \/ 18 \notin av[1] THEN {} ELSE {"vivo:aarch64:platform-register-available"}) \cup
  (* stack frame of the function (after adjust_slot_offsets(local_stack_offset)) *)
  (IF ~okrun \/ (\A k \in placed : slots[k][4] >= s.loff /\ (slots[k][4] - s.loff) % slots[k][2] = 0) THEN {} ELSE {"vivo:" \o A \o ":slot-misaligned"}) \cup
  (IF ~okrun \/ (\A k \in placed : \A m \in placed : k < m =>
        (slots[k][1] = 0 \/ slots[m][1] = 0 \/ slots[k][4] + slots[k][1] <= slots[m][4] \/ slots[m][4] + slots[m][1] <= slots[k][4]))
     THEN {} ELSE {"vivo:" \o A \o ":slots-overlap"}) \cup
  (IF ~okrun \/ (\A k \in placed : slots[k][4] + slots[k][1] <= s.loff + s.stack.ssize) THEN {} ELSE {"vivo:" \o A \o ":slot-beyond-frame"}) \cup
  (IF ~okrun \/ (s.stack.ssize % s.stack.aalign = 0 /\ \A k \in 1 .. Len(slots) : s.stack.aalign % slots[k][2] = 0) THEN {} ELSE {"vivo:" \o A \o ":frame-alignment"}) \cup
  (IF ~okrun \/ (s.lsize >= s.stack.ssize /\ s.lalign >= s.stack.aalign) THEN {} ELSE {"vivo:" \o A \o ":frame-smaller-than-allocator"}) \cup
  (* work register <-> stack slot binding (rareg_p.h "Stack slot associated with the register") *)
  (IF \A k \in 1 .. Len(regs) : LET r == regs[k] IN
        /\ r.hasslot = (r.slot >= 0) /\ (r.hasslot => r.stackused)
        /\ r.hasslot => (IsHomeSlot(slots[r.slot + 1]) /\ slots[r.slot + 1][1] = r.vsize /\ slots[r.slot + 1][2] = r.valign)
     THEN {} ELSE {"vivo:" \o A \o ":slot-binding"}) \cup
  (IF \A k, m \in 1 .. Len(regs) : (k # m /\ regs[k].slot >= 0) => regs[k].slot # regs[m].slot THEN {} ELSE {"vivo:" \o A \o ":slot-shared"}) \cup
  (* live spans as built by open_at/close_at *)
  (IF \A k \in 1 .. Len(regs) : Canonical(regs[k].spans) THEN {} ELSE {"vivo:" \o A \o ":spans-not-canonical"}) \cup
  (IF ~okrun \/ \A k \in 1 .. Len(regs) : regs[k].width = SumW(regs[k].spans, Len(regs[k].spans)) THEN {} ELSE {"vivo:" \o A \o ":width"}) \cup
  (IF \A k \in 1 .. Len(s.pairs) : LET p == s.pairs[k] IN p[3] = IntervalsMeet(regs[p[1] + 1].spans, regs[p[2] + 1].spans)
     THEN {} ELSE {"vivo:" \o A \o ":intersects"}) \cup
  (* two registers that share a home register are never live at the same position *)
  (IF \A k, m \in 1 .. Len(regs) : (k < m /\ regs[k].g = regs[m].g /\ regs[k].alloc /\ regs[m].alloc /\ regs[k].home = regs[m].home)
        => ~IntervalsMeet(regs[k].spans, regs[m].spans)
     THEN {} ELSE {"vivo:" \o A \o ":home-register-shared-while-live"}) \cup
  (IF \A k \in 1 .. Len(regs) : regs[k].alloc => (regs[k].home >= 0 /\ regs[k].home \in av[regs[k].g + 1]) THEN {} ELSE {"vivo:" \o A \o ":home-not-available"}) \cup
  (* the per-physical-register span lists are the non-overlapping union of their tenants *)
  (IF \A k \in 1 .. Len(s.gspans) : LET gs == s.gspans[k]
                                       ten == {m \in 1 .. Len(regs) : regs[m].g = gs.g /\ regs[m].alloc /\ regs[m].home = gs.p} IN
        /\ WellFormed(gs.spans)
        /\ \A m \in ten : \A q \in 1 .. Len(regs[m].spans) : Count(gs.spans, regs[m].spans[q]) = 1
        /\ \A q \in 1 .. Len(gs.spans) : \E m \in ten : Count(regs[m].spans, gs.spans[q]) = 1
     THEN {} ELSE {"vivo:" \o A \o ":global-spans"}) \cup
  (* block graph *)
  (IF \A k \in 1 .. Len(s.blocks) : s.blocks[k].id = k - 1 THEN {} ELSE {"vivo:" \o A \o ":block-ids"}) \cup
  (IF \A k, m \in 1 .. Len(s.blocks) : Count(s.blocks[k].succ, m - 1) = Count(s.blocks[m].pred, k - 1) /\ Count(s.blocks[k].succ, m - 1) <= 1
     THEN {} ELSE {"vivo:" \o A \o ":block-edges"})

Why(o) ==
  CASE o.k = "count" -> CountWhy(o) [] o.k = "index" -> IndexWhy(o) [] o.k = "mask" -> MaskWhy(o) [] o.k = "stats" -> StatsWhy(o)
    [] o.k = "span" -> SpanWhy(o) [] o.k = "livecount" -> LiveCountWhy(o) [] o.k = "workreg" -> WorkWhy(o)
    [] o.k = "constraints" -> ConstraintsWhy(o) [] o.k = "vivo" -> VivoWhy(o) [] OTHER -> {"unknown-kind"}

Init == i \in 1 .. Len(Obs)
Next == UNCHANGED i
Spec == Init /\ [][Next]_i
Judge == LET w == Why(Obs[i]) IN IF w = {} THEN TRUE ELSE PrintT(<<"REJECT", i, w>>)
=============================================================================
