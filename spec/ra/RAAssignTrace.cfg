SPECIFICATION TSpec
INVARIANT AssignInv
CONSTRAINT Progress
POSTCONDITION TraceAccepted
