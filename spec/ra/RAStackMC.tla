------------------------------- MODULE RAStackMC -------------------------------
(* Model-checking configurations of RAStackImpl (see the .cfg files).            *)
EXTENDS RAStackImpl
MCDeltas == {-8, 32}
MCDeltasWide == {-24, -8, 16, 4096}
=============================================================================
