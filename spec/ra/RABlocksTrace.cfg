SPECIFICATION TSpec
INVARIANT BlocksInv
CONSTRAINT Progress
POSTCONDITION TraceAccepted
