SPECIFICATION MCSpec
CONSTANTS
  MCpc <- PcA
  MCwg <- WgA
  MaxOps = 5
  Bug = "none"
INVARIANTS AssignInv
PROPERTY DirtyTravels
VIEW MCView
