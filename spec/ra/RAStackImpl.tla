----------------------------- MODULE RAStackImpl -----------------------------
(* Implementation-shaped specification of RAStackAllocator (rastack.cpp),        *)
(* transcribed statement by statement: new_slot, calculate_stack_frame (STEP 1   *)
(* weights, STEP 2 sort, STEP 3 placement with the gap lists) and                *)
(* adjust_slot_offsets.  TLC checks that every step refines the contract         *)
(* RAStack.tla for all short histories, and exports histories for replay.        *)
(*                                                                                *)
(* Variant selects the text that is transcribed:                                  *)
(*   "head"    the code as it is (the sort comparator yields ASCENDING weights;    *)
(*             `gap_offset = aligned_offset` makes every gap fail the "weird      *)
(*             case" test, so no gap is ever recorded - invariant GapsDead)       *)
(*   "desc"    STEP 2 as documented (descending)                                  *)
(*   "gapfix"  the first gap assignment repaired (`gap_offset = offset`): the     *)
(*             latent defects of the gap path become reachable (negative control) *)
(*   "noalign" stack size not rounded up (negative control)                       *)
(*   "argmove" stack-argument slots are placed like the others (negative control) *)
EXTENDS Integers, Sequences, FiniteSets, TLC

CONSTANTS Sizes, Aligns, FlagSet, UseCounts, Deltas, MaxSlots, MaxOps, Variant

VARIABLES v,        \* the allocator as the contract sees it
          phase,    \* model reduction: build -> calc1 -> (adj | calc2 | build2) -> final
          resets,   \* number of resets so far
          gapsSeen, \* a gap was recorded by some calculate_stack_frame
          failed,   \* the transcription left the domain of defined behaviour (out-of-range index, underflow)
          hist      \* call history (behaviour export)

vars == <<v, phase, resets, gapsSeen, failed, hist>>

C == INSTANCE RAStack WITH scale <- 1

Min(a, b) == IF a <= b THEN a ELSE b
RECURSIVE Ctz(_)
Ctz(n) == IF n = 0 THEN 32 ELSE IF n % 2 = 1 THEN 0 ELSE 1 + Ctz(n \div 2)
AlignUp(x, a) == ((x + a - 1) \div a) * a
Pow2(k) == 2 ^ k

(* STEP 1 *)
Weight(s) ==
  LET power == Min(Ctz(s.align), 6) IN
  IF C!IsHome(s) THEN 16 + s.uc * (7 - power) ELSE power

(* STEP 2: every order the (unstable) quick sort may produce; beyond 4 slots only the two stable tie orders *)
Perms(n) == {p \in [1 .. n -> 1 .. n] : \A i, j \in 1 .. n : i # j => p[i] # p[j]}
RECURSIVE SelSort(_, _)
SelSort(S, key) == IF S = {} THEN <<>>
                   ELSE LET m == CHOOSE x \in S : \A y \in S : key[x] <= key[y] IN <<m>> \o SelSort(S \ {m}, key)
SortedOrders(ss) ==
  LET n == Len(ss)
      sign == IF Variant = "desc" THEN -1 ELSE 1
  IN IF n <= 4
       THEN {p \in Perms(n) : \A i \in 1 .. n - 1 : sign * ss[p[i]].w <= sign * ss[p[i + 1]].w}
       ELSE {SelSort(1 .. n, [i \in 1 .. n |-> sign * ss[i].w * 64 + i]), SelSort(1 .. n, [i \in 1 .. n |-> sign * ss[i].w * 64 + (63 - i)])}

(* distribute [gapOffset, gapEnd) to the gap lists - "while (gap_offset < gap_end)";  r = [ok, g] *)
RECURSIVE Distribute(_, _, _)
Distribute(r, gapOffset, gapEnd) ==
  IF ~r.ok THEN r
  ELSE IF gapOffset >= gapEnd THEN r
  ELSE LET index == Ctz(gapOffset) IN
       IF index >= 31 THEN [r EXCEPT !.ok = FALSE]                          \* ctz(0): undefined
       ELSE LET slotSize == Pow2(index) IN
            IF gapEnd - gapOffset < slotSize THEN r                          \* "Weird case, better to bail..."
            ELSE IF index > 5 THEN [r EXCEPT !.ok = FALSE]                   \* gaps[index] out of bounds
            ELSE Distribute([r EXCEPT !.g[index] = Append(@, [off |-> gapOffset, size |-> slotSize])], gapOffset + slotSize, gapEnd)

(* first non-empty gap list at or above ctz(size) *)
FirstGap(g, size) ==
  LET cand == {k \in Ctz(size) .. 5 : g[k] # <<>>} IN
  IF size >= 64 \/ cand = {} THEN -1 ELSE CHOOSE k \in cand : \A m \in cand : k <= m

(* STEP 3: st = [ok, offset, gaps, ss, seen] *)
RECURSIVE Place(_, _, _)
Place(p, i, st) ==
  IF ~st.ok THEN st
  ELSE IF i > Len(p) THEN st
  ELSE
    LET s == st.ss[p[i]] IN
    IF C!IsArg(s) /\ Variant # "argmove" THEN Place(p, i + 1, st)
    ELSE IF s.size = 0 THEN [st EXCEPT !.ok = FALSE]                          \* ctz(0) indexes the gap array
    ELSE
      LET aligned == AlignUp(st.offset, s.align)
          k == FirstGap(st.gaps, s.size)
      IN
      IF k >= 0 THEN
        LET gap == st.gaps[k][Len(st.gaps[k])]
            g1 == [st.gaps EXCEPT ![k] = SubSeq(@, 1, Len(@) - 1)]
            gapSize == gap.size - s.size
            gapOffset == gap.off - s.size                                     \* as written
        IN
        IF gapSize < 0 \/ gapOffset < 0 THEN [st EXCEPT !.ok = FALSE]        \* uint32 underflow
        ELSE LET d == IF gapSize > 0 THEN Distribute([ok |-> TRUE, g |-> g1], gapOffset, gapSize + gapOffset) ELSE [ok |-> TRUE, g |-> g1] IN
             IF ~d.ok THEN [st EXCEPT !.ok = FALSE]
             ELSE Place(p, i + 1, [st EXCEPT !.gaps = d.g, !.ss[p[i]].off = gap.off, !.seen = TRUE])
      ELSE
        LET needGap == st.offset # aligned
            gapSize == aligned - st.offset
            gapOffset == IF Variant = "gapfix" THEN st.offset ELSE aligned    \* "gap_offset = aligned_offset"
            d == IF needGap THEN Distribute([ok |-> TRUE, g |-> st.gaps], gapOffset, gapSize + gapOffset) ELSE [ok |-> TRUE, g |-> st.gaps]
        IN
        IF ~d.ok THEN [st EXCEPT !.ok = FALSE]
        ELSE Place(p, i + 1, [ok |-> TRUE, offset |-> aligned + s.size, gaps |-> d.g,
                              ss |-> [st.ss EXCEPT ![p[i]].off = aligned],
                              seen |-> st.seen \/ d.g # st.gaps])

NoGaps == [k \in 0 .. 5 |-> <<>>]

(* ---- actions ------------------------------------------------------------------------------------------------------ *)
Log(op) == hist' = Append(hist, op)
Bound == Len(hist) < MaxOps /\ failed = FALSE
Building == phase \in {"build", "build2"}

New(size, align, flags) ==
  /\ Bound /\ Len(v.slots) < MaxSlots /\ phase \in {"build", "build2", "calc1"}
  /\ phase' = (IF phase = "calc1" THEN "build2" ELSE phase)
  /\ LET s == [size |-> size, align |-> C!Max(align, 1), flags |-> flags, uc |-> 0, w |-> 0, off |-> 0, base |-> 4] IN
     v' = [v EXCEPT !.slots = Append(@, s), !.order = Append(@, Len(v.slots)), !.aalign = C!Max(@, align)]
  /\ Log(<<"new", size, align, flags, 4>>)
  /\ UNCHANGED <<resets, gapsSeen, failed>>

(* (model reduction: counters and argument positions are set right after the slot was created) *)
Use(i, k) ==
  /\ Bound /\ i = Len(v.slots) /\ i >= 1 /\ hist[Len(hist)][1] = "new"
  /\ v' = [v EXCEPT !.slots[i].uc = @ + k]
  /\ Log(<<"use", i - 1, k>>)
  /\ Building
  /\ UNCHANGED <<phase, resets, gapsSeen, failed>>

SetOff(i, off) ==
  /\ Bound /\ i = Len(v.slots) /\ i >= 1 /\ hist[Len(hist)][1] \in {"new", "use"} /\ C!IsArg(v.slots[i])
  /\ v' = [v EXCEPT !.slots[i].off = off]
  /\ Log(<<"setoff", i - 1, off>>)
  /\ Building
  /\ UNCHANGED <<phase, resets, gapsSeen, failed>>

Calc ==
  /\ Bound /\ phase # "final"
  /\ phase' = (IF phase = "build" THEN "calc1" ELSE "final")
  /\ UNCHANGED resets
  /\ Log(<<"calc">>)
  /\ LET ss1 == [i \in 1 .. Len(v.slots) |-> [v.slots[i] EXCEPT !.w = Weight(v.slots[i])]] IN
     \E p \in SortedOrders(ss1) :
       LET res == Place(p, 1, [ok |-> TRUE, offset |-> 0, gaps |-> NoGaps, ss |-> ss1, seen |-> FALSE]) IN
       IF ~res.ok
         THEN failed' = TRUE /\ UNCHANGED <<v, gapsSeen>>
         ELSE /\ v' = [v EXCEPT !.slots = res.ss, !.order = [i \in 1 .. Len(p) |-> p[i] - 1],
                                !.ssize = IF Variant = "noalign" THEN res.offset ELSE AlignUp(res.offset, v.aalign)]
              /\ gapsSeen' = (gapsSeen \/ res.seen)
              /\ UNCHANGED failed

Adjust(d) ==
  /\ Bound /\ phase = "calc1" /\ phase' = "adj"
  /\ v' = [v EXCEPT !.slots = [i \in 1 .. Len(v.slots) |->
                                 IF C!IsArg(v.slots[i]) THEN v.slots[i] ELSE [v.slots[i] EXCEPT !.off = @ + d]]]
  /\ Log(<<"adjust", d>>)
  /\ UNCHANGED <<resets, gapsSeen, failed>>

Reset ==
  /\ Bound /\ Len(v.slots) > 0 /\ resets = 0 /\ phase \in {"adj", "calc1"} /\ Len(v.slots) < MaxSlots
  /\ v' = C!Empty /\ phase' = "build2" /\ resets' = 1
  /\ Log(<<"reset">>)
  /\ UNCHANGED <<gapsSeen, failed>>

Init == v = C!Empty /\ phase = "build" /\ resets = 0 /\ gapsSeen = FALSE /\ failed = FALSE /\ hist = <<>>
Next == \/ \E s \in Sizes, a \in Aligns, f \in FlagSet : New(s, a, f)
        \/ \E i \in 1 .. MaxSlots, k \in UseCounts : Use(i, k)
        \/ \E i \in 1 .. MaxSlots : SetOff(i, 1000)
        \/ Calc
        \/ \E d \in Deltas : Adjust(d)
        \/ Reset
Spec == Init /\ [][Next]_vars

(* ---- refinement: every step of the algorithm is a step of the contract (projection = the state itself) ---------- *)
St(x) == [n |-> Len(x.slots), order |-> x.order, ssize |-> x.ssize, aalign |-> x.aalign, bused |-> x.bused, exact |-> TRUE,
          slots |-> [i \in 1 .. Len(x.slots) |-> LET s == x.slots[i] IN
                       <<s.size, s.align, s.flags, s.uc, s.w, s.off, s.base, C!IsHome(s), C!IsArg(s)>>]]
Last == hist'[Len(hist')]
ContractStep ==
  \/ (Last[1] = "new" /\ C!NewOk(Last[2], Last[3], Last[4], Last[5], Len(v.slots), St(v')))
  \/ (Last[1] = "use" /\ C!UseOk(Last[2], Last[3], St(v')))
  \/ (Last[1] = "setoff" /\ C!SetOffOk(Last[2], Last[3], St(v')))
  \/ (Last[1] = "calc" /\ failed' = FALSE /\ C!CalcOk("Ok", St(v'), Variant = "desc", FALSE))
  \/ (Last[1] = "adjust" /\ C!AdjustOk(Last[2], "Ok", St(v')))
  \/ (Last[1] = "reset" /\ C!ResetOk(St(v')))
RefinesContract == [][ContractStep]_vars

NeverFails == failed = FALSE
GapsDead == gapsSeen = FALSE              \* "head": the gap lists stay empty - the reuse code is unreachable
ContractInv == C!StackInv

(* behaviour export *)
Export == (phase = "final" \/ Len(hist) = MaxOps \/ failed) => PrintT(<<"BEH", hist>>)
View == <<v, phase, resets, gapsSeen, failed, Len(hist), IF hist = <<>> THEN "" ELSE hist[Len(hist)][1]>>
=============================================================================
