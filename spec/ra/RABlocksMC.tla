------------------------------ MODULE RABlocksMC ------------------------------
(* All append/prepend/flag sequences over N blocks keep both sides of every edge  *)
(* in step and free of duplicates.  Bug = "nodupcheck" drops the has_successor     *)
(* test (negative control).                                                        *)
EXTENDS RABlocks, TLC
CONSTANTS N, MaxOps, Bug
VARIABLE hist
mcvars == <<bl, hist>>
Ops == UNION { {<<"append", x, y>> : x, y \in 0 .. N - 1}, {<<"prepend", x, y>> : x, y \in 0 .. N - 1},
               {<<"flag", x, 512>> : x \in 0 .. N - 1}, {<<"clear", x, 512>> : x \in 0 .. N - 1} }
BugEff(op) ==
  IF Bug = "nodupcheck" /\ op[1] = "append"
    THEN IF op[2] = op[3] THEN [bl EXCEPT ![op[2] + 1] = [@ EXCEPT !.succ = Append(@, op[3]), !.pred = Append(@, op[2])]]
         ELSE [bl EXCEPT ![op[2] + 1].succ = Append(@, op[3]), ![op[3] + 1].pred = Append(@, op[2])]
  ELSE IF Bug = "onesided" /\ op[1] = "prepend" /\ ~Has(bl[op[2] + 1].succ, op[3])
    THEN [bl EXCEPT ![op[2] + 1].succ = <<op[3]>> \o @]
  ELSE Eff(op)
MCInit == bl = EmptyBlocks(N) /\ hist = <<>>
MCNext == Len(hist) < MaxOps /\ \E op \in Ops : bl' = BugEff(op) /\ hist' = Append(hist, op)
MCSpec == MCInit /\ [][MCNext]_mcvars
(* the natural flow, once prepended, stays the first successor until another prepend *)
PrependFirst == [][(hist' # hist /\ hist'[Len(hist')][1] = "prepend") => bl'[hist'[Len(hist')][2] + 1].succ[1] = hist'[Len(hist')][3]
                                                                     \/ Has(bl[hist'[Len(hist')][2] + 1].succ, hist'[Len(hist')][3])]_mcvars
Export == Len(hist) = MaxOps => PrintT(<<"BEH", hist>>)
MCView == <<bl, Len(hist)>>
=============================================================================
