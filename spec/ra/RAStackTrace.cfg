SPECIFICATION TSpec
INVARIANT StackInv
CONSTRAINT Progress
POSTCONDITION TraceAccepted
