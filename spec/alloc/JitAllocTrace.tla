------------------------------ MODULE JitAllocTrace ------------------------------
(* Trace validation for C09: a trace recorded from the real JitAllocator is accepted *)
(* iff it is a behaviour of the contract JitAlloc.tla.                               *)
EXTENDS JitAlloc, TraceLib

VARIABLE l
tvars == <<live, opts, lastFree, prevRes, l>>

T == TraceLog
Ev == T[l]
IsEv(e) == l <= Len(T) /\ Ev.e = e /\ l' = l + 1
Obs == [nonnull |-> Ev.nonnull, alias |-> Ev.alias, intact |-> Ev.intact, mapped |-> Ev.mapped, filled |-> Ev.filled]

NoOpts == [dual |-> FALSE, multi |-> FALSE, fill |-> FALSE, imm |-> FALSE, nopad |-> FALSE, gran |-> 64, block |-> 65536, pools |-> 1]
TInit == JInit(NoOpts) /\ l = 1 /\ InitProgress

(* a new allocator: reports itself initialised, reports the configuration it was given, accounts nothing *)
TReset == /\ IsEv("Reset")
          /\ Ev.init /\ Ev.same
          /\ Ev.st.cnt = 0 /\ Ev.st.used = 0 /\ Ev.st.res = 0 /\ Ev.st.blk = 0
          /\ live' = <<>> /\ opts' = Ev.opts /\ lastFree' = 0 /\ prevRes' = 0

TAllocOk == IsEv("Alloc") /\ Ev.r = "Ok" /\ AllocOk(Ev.id, Ev.req, Ev.rx, Ev.rw, Ev.len, Obs, Ev.st)
(* refusals: size 0 and sizes the 32-bit bookkeeping cannot express must be refused; an OutOfMemory answer  *)
(* of the operating system is tolerated (counted by the runner) - either way nothing may change             *)
TAllocRefused == /\ IsEv("Alloc") /\ Ev.r # "Ok"
                 /\ (Ev.req = 0 \/ Ev.req >= 2147483647 \/ Ev.r = "OutOfMemory")
                 /\ AllocRefused(Ev.req, Obs, Ev.st)
TRelease == IsEv("Release") /\ Ev.r = "Ok" /\ ReleaseOk(Ev.id, Obs, Ev.st)
TShrink0 == IsEv("Shrink") /\ Ev.n = 0 /\ Ev.r = "Ok" /\ ReleaseOk(Ev.id, Obs, Ev.st)
TShrinkOk == IsEv("Shrink") /\ Ev.n > 0 /\ Ev.r = "Ok" /\ ShrinkOk(Ev.id, Ev.n, Ev.rx, Ev.rw, Ev.len, Obs, Ev.st)
TShrinkRefused == IsEv("Shrink") /\ Ev.n > 0 /\ Ev.r # "Ok" /\ ShrinkRefused(Ev.id, Ev.n, Ev.len, Obs, Ev.st)
TQueryLive == IsEv("Query") /\ Ev.kind = "live" /\ Ev.r = "Ok" /\ QueryLiveOk(Ev.id, Ev.rx, Ev.rw, Ev.len, Obs, Ev.st)
TQueryInterior == IsEv("Query") /\ Ev.kind = "interior" /\ Ev.r = "Ok" /\ QueryInteriorOk(Ev.id, Ev.n, Ev.rx, Ev.rw, Ev.len, Obs, Ev.st)
TQueryForeign == IsEv("Query") /\ Ev.kind \notin {"live", "interior"} /\ Ev.r # "Ok" /\ QueryForeignRefused(Obs, Ev.st)
TWrite == IsEv("Write") /\ Ev.r = "Ok" /\
            IF Ev.trunc < 0 THEN WriteOk(Ev.id, Ev.rx, Ev.rw, Ev.len, Obs, Ev.st)
            ELSE ShrinkOk(Ev.id, Ev.trunc, Ev.rx, Ev.rw, Ev.len, Obs, Ev.st)
TResetAlloc == IsEv("ResetAlloc") /\ ResetOk(Ev.policy, Ev.init, Ev.wiped, Ev.st)

TNext == TReset \/ TAllocOk \/ TAllocRefused \/ TRelease \/ TShrink0 \/ TShrinkOk \/ TShrinkRefused
         \/ TQueryLive \/ TQueryInterior \/ TQueryForeign \/ TWrite \/ TResetAlloc
TSpec == TInit /\ [][TNext]_tvars

Progress == NoteProgress(l)
TraceAccepted == Accepted(Len(T))
=============================================================================
