SPECIFICATION TSpec
INVARIANT JInv
CONSTRAINT Progress
POSTCONDITION TraceAccepted
