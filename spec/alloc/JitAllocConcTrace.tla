---------------------------- MODULE JitAllocConcTrace ----------------------------
(* Trace validation for C11 (allocator / runtime part).                             *)
(*                                                                                  *)
(* Events: Call / Ret are recorded by the calling thread (per-thread order), Acq /   *)
(* Rel are emitted by hook H3 while the allocator lock is held and carry a sequence  *)
(* number taken under that lock (g).  The harness merges them into one order that    *)
(* respects both.  The trace is accepted iff                                         *)
(*   - the lock protocol holds (mutual exclusion, dense g, a thread acquires only    *)
(*     inside one of its calls, every successful guarded operation contains a        *)
(*     critical section),                                                            *)
(*   - the operations, applied at their critical sections in lock order, form a      *)
(*     behaviour of the sequential contract JitAlloc.tla with exactly the results    *)
(*     the threads observed (linearizability with the lock as linearization point).  *)
EXTENDS JitAlloc, TraceLib

VARIABLES l, lockOwner, pend, csDone, lastG, nthreads
tvars == <<live, opts, lastFree, prevRes, l, lockOwner, pend, csDone, lastG, nthreads>>

T == TraceLog
Ev == T[l]
IsEv(e) == l <= Len(T) /\ Ev.e = e /\ l' = l + 1
NoOp == [op |-> "None"]
NoOpts == [dual |-> FALSE, multi |-> FALSE, fill |-> FALSE, imm |-> FALSE, nopad |-> FALSE, gran |-> 64, block |-> 65536, pools |-> 1]
Unknown == <<>>     \* statistics not sampled

TInit == JInit(NoOpts) /\ l = 1 /\ lockOwner = 0 /\ pend = <<>> /\ csDone = <<>> /\ lastG = 0 /\ nthreads = 0 /\ InitProgress

TReset == /\ IsEv("Reset") /\ "opts" \in DOMAIN Ev
          /\ live' = <<>> /\ opts' = Ev.opts /\ lastFree' = 0 /\ prevRes' = 0
          /\ lockOwner' = 0 /\ lastG' = 0 /\ nthreads' = Ev.threads
          /\ pend' = [t \in 1 .. Ev.threads |-> NoOp]
          /\ csDone' = [t \in 1 .. Ev.threads |-> 0]

Contract == <<live, opts, lastFree, prevRes>>

TCall == /\ IsEv("Call")
         /\ pend[Ev.t] = NoOp
         /\ pend' = [pend EXCEPT ![Ev.t] = Ev]
         /\ csDone' = [csDone EXCEPT ![Ev.t] = 0]
         /\ UNCHANGED <<live, opts, lastFree, prevRes, lockOwner, lastG, nthreads>>

TAcq == /\ IsEv("Acq")
        /\ lockOwner = 0                     \* mutual exclusion
        /\ pend[Ev.t] # NoOp                 \* only inside a call of that thread
        /\ Ev.g = lastG + 1
        /\ lockOwner' = Ev.t /\ lastG' = Ev.g
        /\ UNCHANGED <<live, opts, lastFree, prevRes, pend, csDone, nthreads>>

ObsOf(p) == [nonnull |-> p.nonnull, alias |-> p.alias, intact |-> p.intact, mapped |-> FALSE, filled |-> TRUE]
StOf(p) == IF "st" \in DOMAIN p THEN p.st ELSE Unknown

(* effect of the operation, applied at its first critical section *)
Effect(p) ==
  CASE p.op = "Alloc" /\ p.r = "Ok"   -> AllocOk(p.id, p.req, p.rx, p.rw, p.len, ObsOf(p), Unknown)
    [] p.op = "Alloc" /\ p.r # "Ok"   -> p.r = "OutOfMemory" /\ AllocRefused(p.req, ObsOf(p), Unknown)
    [] p.op = "RtAdd" /\ p.r = "Ok"   -> AllocOk(p.id, p.req, p.rx, p.rx, p.len, ObsOf(p), Unknown)
    [] p.op = "RtAdd" /\ p.r # "Ok"   -> p.r = "OutOfMemory" /\ AllocRefused(p.req, ObsOf(p), Unknown)
    [] p.op \in {"Release", "RtRelease"} -> p.r = "Ok" /\ ReleaseOk(p.id, ObsOf(p), Unknown)
    [] p.op = "Shrink" /\ p.r = "Ok"  -> ShrinkOk(p.id, p.n, p.rx, p.rw, p.len, ObsOf(p), Unknown)
    [] p.op = "Shrink" /\ p.r # "Ok"  -> ShrinkRefused(p.id, p.n, p.len, ObsOf(p), Unknown)
    [] p.op = "Query"                 -> p.r = "Ok" /\ QueryLiveOk(p.id, p.rx, p.rw, p.len, ObsOf(p), Unknown)
    [] p.op = "Stats"                 -> StatsExact(live, p.st) /\ lastFree' = 0 /\ UNCHANGED <<live, opts, prevRes>>
    [] p.op = "Write"                 -> p.r = "Ok" /\ p.trunc >= 0 /\ ShrinkOk(p.id, p.trunc, p.rx, p.rw, p.len, ObsOf(p), Unknown)
    [] OTHER -> FALSE

TRel == /\ IsEv("Rel")
        /\ lockOwner = Ev.t
        /\ Ev.g = lastG + 1
        /\ Ev.cs = csDone[Ev.t]
        /\ IF Ev.cs = 0 THEN Effect(pend[Ev.t])
           ELSE /\ pend[Ev.t].op \in {"RtAdd"}          \* only the runtime's add has a second section (its shrink)
                /\ UNCHANGED Contract
        /\ lockOwner' = 0 /\ lastG' = Ev.g
        /\ csDone' = [csDone EXCEPT ![Ev.t] = @ + 1]
        /\ UNCHANGED <<pend, nthreads>>

Guarded == {"Alloc", "Release", "Shrink", "Query", "Stats", "RtAdd", "RtRelease"}

TRet == /\ IsEv("Ret")
        /\ pend[Ev.t] # NoOp /\ lockOwner # Ev.t
        /\ LET p == pend[Ev.t] IN
             \* a successful guarded operation went through the lock; so did a write that truncated
             /\ (p.op \in Guarded /\ p.r = "Ok" => csDone[Ev.t] >= 1)
             /\ (p.op = "Write" => p.r = "Ok" /\ p.intact)
             /\ (p.op = "Write" /\ csDone[Ev.t] = 0 => p.id \in DOMAIN live /\ p.len = live[p.id].len)
             /\ (p.op = "Alloc" /\ p.r # "Ok" /\ csDone[Ev.t] = 0 => FALSE)    \* the driver only issues valid sizes
        /\ pend' = [pend EXCEPT ![Ev.t] = NoOp]
        /\ UNCHANGED <<live, opts, lastFree, prevRes, lockOwner, csDone, lastG, nthreads>>

(* independent code generation: the code a thread obtains concurrently equals what it obtains alone *)
TGenReset == /\ IsEv("Reset") /\ "mode" \in DOMAIN Ev
             /\ UNCHANGED <<live, opts, lastFree, prevRes, lockOwner, pend, csDone, lastG, nthreads>>
TGen == /\ IsEv("Gen")
        /\ Ev.equal /\ Ev.conc = Ev.solo
        /\ UNCHANGED <<live, opts, lastFree, prevRes, lockOwner, pend, csDone, lastG, nthreads>>

TNext == TReset \/ TCall \/ TAcq \/ TRel \/ TRet \/ TGenReset \/ TGen
TSpec == TInit /\ [][TNext]_tvars

MutexOK == lockOwner \in 0 .. nthreads
Progress == NoteProgress(l)
TraceAccepted == Accepted(Len(T))
=============================================================================
