SPECIFICATION TSpec
INVARIANT MutexOK Aligned
CONSTRAINT Progress
POSTCONDITION TraceAccepted
