------------------------------ MODULE JitAllocImpl ------------------------------
(* Implementation-shaped specification of one JitAllocator pool                  *)
(* (asmjit/core/jitallocator.cpp): per block the used/stop bit vectors, the      *)
(* search window [ss, se), the largest-unused cache, the empty / dirty /         *)
(* incremental flags; per pool the block list, the cursor and the empty-block    *)
(* count.  alloc / release / shrink / reset are transcribed statement by         *)
(* statement, including the incremental fast path, the cache update after a      *)
(* failed scan and the block-size doubling rule.                                 *)
(*                                                                               *)
(* TLC checks, for every history over tiny blocks, that each step is a step of   *)
(* the contract JitAlloc.tla (refinement as an action property) and that the     *)
(* structural invariants the algorithm relies on hold.  All sizes are granules.  *)
EXTENDS Naturals, Sequences, FiniteSets, TLC

CONSTANTS B,          \* configured block size (granules); the first block is 2*B (the code doubles first)
          MaxArea,    \* cap for block doubling (kJitAllocatorMaxBlockSize)
          Pad,        \* initial padding enabled
          Imm,        \* kImmediateRelease
          Sizes,      \* request sizes offered to Alloc
          MaxLive, MaxOps

VARIABLES blocks,     \* Seq of block records, in pool list order
          cursor,     \* id of the cursor block, 0 = none
          emptyCnt, allocCount, nextBlock, nextSpan,
          live, opts, lastFree, prevRes,      \* contract state (ghost)
          last,                               \* report of the last call
          hist

vars == <<blocks, cursor, emptyCnt, allocCount, nextBlock, nextSpan, live, opts, lastFree, prevRes, last, hist>>

C == INSTANCE JitAlloc

Stride == 1000                      \* address of granule o of block b is b * Stride + o
PadN == IF Pad THEN 1 ELSE 0
Min(S) == CHOOSE x \in S : \A y \in S : x <= y
Max(S) == CHOOSE x \in S : \A y \in S : x >= y

BlockIdx(id) == CHOOSE i \in 1 .. Len(blocks) : blocks[i].id = id
Free(b) == (0 .. b.area - 1) \ b.used

Stats(bl, cnt) ==
  [cnt |-> cnt,
   used |-> LET RECURSIVE S(_) S(i) == IF i = 0 THEN 0 ELSE Cardinality(bl[i].used) + S(i - 1) IN S(Len(bl)),
   res  |-> LET RECURSIVE S(_) S(i) == IF i = 0 THEN 0 ELSE bl[i].area + S(i - 1) IN S(Len(bl)),
   blk  |-> Len(bl)]

(* maximal runs of free granules inside the window [s, e), clipped to the window, in ascending order *)
Runs(b, s, e) ==
  LET W == {x \in Free(b) : x >= s /\ x < e}
      starts == {x \in W : (x - 1) \notin W}
      RunEnd(x) == Min({y \in x .. e : y \notin W})          \* exclusive end; e \notin W
      RECURSIVE Build(_)
      Build(S) == IF S = {} THEN <<>> ELSE LET x == Min(S) IN <<[s |-> x, e |-> RunEnd(x)]>> \o Build(S \ {x})
  IN Build(starts)

(* ---- clear_block ---- *)
NewBlock(id, area) ==
  [id |-> id, area |-> area, used |-> (IF Pad THEN {0} ELSE {}), stop |-> (IF Pad THEN {0} ELSE {}),
   ss |-> PadN, se |-> area, lu |-> area - PadN, flags |-> {"empty", "incr"}]

(* ---- mark_allocated_area ---- *)
MarkAllocated(b, s, e) ==
  LET u == b.used \cup (s .. e - 1)
      st == b.stop \cup {e - 1}
  IN IF b.area - Cardinality(u) = 0
       THEN [b EXCEPT !.used = u, !.stop = st, !.ss = b.area, !.se = 0, !.lu = 0, !.flags = @ \ {"dirty", "empty"}]
       ELSE [b EXCEPT !.used = u, !.stop = st,
                      !.ss = IF b.ss = s THEN e ELSE b.ss,
                      !.se = IF b.se = e THEN s ELSE b.se,
                      !.flags = (@ \cup {"dirty"}) \ {"empty"}]

(* ---- mark_released_area ---- *)
MarkReleased(b, s, e) ==
  LET u == b.used \ (s .. e - 1)
      st == b.stop \ {e - 1}
      n == e - s
  IN IF "incr" \in b.flags /\ b.ss = e
       THEN LET b1 == [b EXCEPT !.used = u, !.stop = st, !.ss = @ - n, !.lu = @ + n]
            IN IF Cardinality(u) = PadN
                 THEN [b1 EXCEPT !.se = b.area, !.flags = (@ \cup {"empty"}) \ {"dirty"}]
                 ELSE b1
       ELSE IF Cardinality(u) = PadN
              THEN [b EXCEPT !.used = u, !.stop = st, !.ss = PadN, !.se = b.area, !.lu = b.area - PadN,
                             !.flags = (@ \ {"dirty", "incr"}) \cup {"empty"}]
              ELSE [b EXCEPT !.used = u, !.stop = st,
                             !.ss = IF b.ss < s THEN b.ss ELSE s,
                             !.se = IF b.se > e THEN b.se ELSE e,
                             !.flags = (@ \ {"incr"}) \cup {"dirty"}]

(* ---- mark_shrunk_area ---- *)
MarkShrunk(b, s, e) ==
  LET u == b.used \ (s .. e - 1)
      st == (b.stop \ {e - 1}) \cup {s - 1}
      n == e - s
  IN IF "incr" \in b.flags /\ b.ss = e
       THEN [b EXCEPT !.used = u, !.stop = st, !.ss = @ - n, !.lu = @ + n]
       ELSE [b EXCEPT !.used = u, !.stop = st,
                      !.ss = IF b.ss < s THEN b.ss ELSE s,
                      !.se = IF b.se > e THEN b.se ELSE e,
                      !.flags = (@ \ {"incr"}) \cup {"dirty"}]

(* ---- the search loop of alloc(): walks the list cyclically from the cursor.  Returns the updated block  *)
(*      sequence (cache updates of failed scans are kept), the index of the block found (0 = none) and the  *)
(*      granule index.                                                                                       *)
RECURSIVE Search(_, _, _, _)
Search(bl, i, todo, n) ==
  IF todo = 0 THEN [bl |-> bl, at |-> 0, idx |-> 0]
  ELSE LET b == bl[i]
           nxt == IF i = Len(bl) THEN 1 ELSE i + 1
       IN IF "incr" \in b.flags /\ b.lu >= n
            THEN [bl |-> [bl EXCEPT ![i].lu = @ - n], at |-> i, idx |-> b.ss]
          ELSE IF b.area - Cardinality(b.used) >= n /\ ("dirty" \in b.flags \/ b.lu >= n)
            THEN LET rs == Runs(b, b.ss, b.se)
                     fit == {k \in 1 .. Len(rs) : rs[k].e - rs[k].s >= n}
                 IN IF fit # {}
                      THEN [bl |-> bl, at |-> i, idx |-> rs[Min(fit)].s]
                      ELSE IF Len(rs) > 0
                        THEN Search([bl EXCEPT ![i].ss = rs[1].s,
                                               ![i].se = rs[Len(rs)].e,
                                               ![i].lu = Max({rs[k].e - rs[k].s : k \in 1 .. Len(rs)}),
                                               ![i].flags = @ \ {"dirty"}], nxt, todo - 1, n)
                        ELSE Search(bl, nxt, todo - 1, n)
          ELSE Search(bl, nxt, todo - 1, n)

IdealArea(n) ==
  LET lastA == IF Len(blocks) = 0 THEN B ELSE blocks[Len(blocks)].area
      need == n + PadN
      dbl == IF lastA < MaxArea THEN lastA * 2 ELSE lastA
  IN IF need > dbl THEN ((need + B - 1) \div B) * B ELSE dbl

Alloc(n) ==
  /\ Cardinality(DOMAIN live) < MaxLive
  /\ LET sr == IF cursor = 0 THEN [bl |-> blocks, at |-> 0, idx |-> 0]
               ELSE Search(blocks, BlockIdx(cursor), Len(blocks), n)
     IN IF sr.at = 0
          THEN \* new block
               LET nb0 == NewBlock(nextBlock, IdealArea(n))
                   nb1 == [nb0 EXCEPT !.ss = @ + n, !.lu = @ - n]
                   nb2 == MarkAllocated(nb1, PadN, PadN + n)
                   bl2 == Append(sr.bl, nb2)
               IN /\ blocks' = bl2
                  /\ cursor' = IF cursor = 0 THEN nextBlock ELSE cursor
                  /\ nextBlock' = nextBlock + 1
                  /\ emptyCnt' = emptyCnt
                  /\ allocCount' = allocCount + 1
                  /\ last' = [op |-> "Alloc", id |-> nextSpan, req |-> n, rx |-> nextBlock * Stride + PadN, len |-> n,
                              st |-> Stats(bl2, allocCount + 1)]
          ELSE LET b == sr.bl[sr.at]
                   wasEmpty == "empty" \in b.flags
                   b1 == [b EXCEPT !.flags = @ \ {"empty"}]
                   b2 == MarkAllocated(b1, sr.idx, sr.idx + n)
                   bl2 == [sr.bl EXCEPT ![sr.at] = b2]
               IN /\ blocks' = bl2
                  /\ emptyCnt' = IF wasEmpty THEN emptyCnt - 1 ELSE emptyCnt
                  /\ allocCount' = allocCount + 1
                  /\ last' = [op |-> "Alloc", id |-> nextSpan, req |-> n, rx |-> b.id * Stride + sr.idx, len |-> n,
                              st |-> Stats(bl2, allocCount + 1)]
                  /\ UNCHANGED <<cursor, nextBlock>>
  /\ nextSpan' = nextSpan + 1

SpanBlock(id) == live[id].rx \div Stride
SpanIdx(id) == live[id].rx % Stride

RemoveAt(s, i) == SubSeq(s, 1, i - 1) \o SubSeq(s, i + 1, Len(s))

Release(id) ==
  LET i == BlockIdx(SpanBlock(id))
      b == blocks[i]
      s == SpanIdx(id)
      e == Min({x \in b.stop : x >= s}) + 1
      b1 == MarkReleased(b, s, e)
  IN /\ allocCount' = allocCount - 1
     /\ IF "empty" \in b1.flags /\ (emptyCnt > 0 \/ Imm)
          THEN /\ blocks' = RemoveAt(blocks, i)
               /\ cursor' = IF cursor = b.id
                              THEN (IF i > 1 THEN blocks[i - 1].id ELSE IF i < Len(blocks) THEN blocks[i + 1].id ELSE 0)
                              ELSE cursor
               /\ emptyCnt' = emptyCnt
          ELSE /\ blocks' = [blocks EXCEPT ![i] = b1]
               /\ emptyCnt' = IF "empty" \in b1.flags THEN emptyCnt + 1 ELSE emptyCnt
               /\ cursor' = cursor
     /\ last' = [op |-> "Release", id |-> id, req |-> 0, rx |-> 0, len |-> 0, st |-> Stats(blocks', allocCount - 1)]
     /\ UNCHANGED <<nextBlock, nextSpan>>

Shrink(id, n) ==
  LET i == BlockIdx(SpanBlock(id))
      b == blocks[i]
      s == SpanIdx(id)
      e == Min({x \in b.stop : x >= s}) + 1
  IN /\ n >= 1 /\ n < e - s
     /\ blocks' = [blocks EXCEPT ![i] = MarkShrunk(b, s + n, e)]
     /\ last' = [op |-> "Shrink", id |-> id, req |-> n, rx |-> live[id].rx, len |-> n, st |-> Stats(blocks', allocCount)]
     /\ UNCHANGED <<cursor, emptyCnt, allocCount, nextBlock, nextSpan>>

ResetAll(hard) ==
  LET keep == ~hard /\ ~Imm /\ Len(blocks) > 0
      kb == NewBlock(blocks[1].id, blocks[1].area)
  IN /\ blocks' = IF keep THEN <<kb>> ELSE <<>>
     /\ cursor' = IF keep THEN kb.id ELSE 0
     /\ emptyCnt' = IF keep THEN 1 ELSE emptyCnt       \* as written: not cleared when no block is kept
     /\ allocCount' = 0
     /\ last' = [op |-> (IF hard THEN "ResetHard" ELSE "ResetSoft"), id |-> 0, req |-> 0, rx |-> 0, len |-> 0, st |-> Stats(blocks', 0)]
     /\ UNCHANGED <<nextBlock, nextSpan>>

(* ---- ghost: the contract state follows the reports ---- *)
Ghost ==
  /\ opts' = opts
  /\ prevRes' = last'.st.res
  /\ live' = CASE last'.op = "Alloc" -> [j \in DOMAIN live \cup {last'.id} |-> IF j = last'.id
                                           THEN [rx |-> last'.rx, rw |-> last'.rx, len |-> last'.len, orig |-> last'.len] ELSE live[j]]
               [] last'.op = "Release" -> [j \in DOMAIN live \ {last'.id} |-> live[j]]
               [] last'.op = "Shrink" -> [live EXCEPT ![last'.id].len = last'.len]
               [] OTHER -> <<>>
  /\ lastFree' = CASE last'.op = "Release" -> (IF last'.st.res = prevRes THEN live[last'.id].len ELSE 0)
                   [] last'.op = "Shrink" -> (IF last'.st.res = prevRes THEN live[last'.id].len - last'.len ELSE 0)
                   [] OTHER -> 0

Init == /\ blocks = <<>> /\ cursor = 0 /\ emptyCnt = 0 /\ allocCount = 0 /\ nextBlock = 1 /\ nextSpan = 1
        /\ live = <<>> /\ lastFree = 0 /\ prevRes = 0
        /\ opts = [dual |-> FALSE, multi |-> FALSE, fill |-> FALSE, imm |-> Imm, nopad |-> ~Pad, gran |-> 1, block |-> B, pools |-> 1]
        /\ last = [op |-> "None", id |-> 0, req |-> 0, rx |-> 0, len |-> 0, st |-> [cnt |-> 0, used |-> 0, res |-> 0, blk |-> 0]]
        /\ hist = <<>>

Op == \/ \E n \in Sizes : Alloc(n) /\ hist' = Append(hist, <<"A", n>>)
      \/ \E id \in DOMAIN live : Release(id) /\ hist' = Append(hist, <<"R", id>>)
      \/ \E id \in DOMAIN live : \E n \in 1 .. live[id].len - 1 : Shrink(id, n) /\ hist' = Append(hist, <<"S", id, n>>)
      \/ \E h \in BOOLEAN : ResetAll(h) /\ hist' = Append(hist, <<"X", IF h THEN 1 ELSE 0>>)

Next == Len(hist) < MaxOps /\ Op /\ Ghost
Spec == Init /\ [][Next]_vars

OkObs == [nonnull |-> TRUE, alias |-> TRUE, intact |-> TRUE, mapped |-> TRUE, filled |-> TRUE]

(* ---- refinement: every step of the algorithm is a step of the contract ---- *)
RefinesContract ==
  [][ CASE last'.op = "Alloc"   -> C!AllocOk(last'.id, last'.req, last'.rx, last'.rx, last'.len, OkObs, last'.st)
        [] last'.op = "Release" -> C!ReleaseOk(last'.id, OkObs, last'.st)
        [] last'.op = "Shrink"  -> C!ShrinkOk(last'.id, last'.req, last'.rx, last'.rx, last'.len, OkObs, last'.st)
        [] last'.op = "ResetHard" -> C!ResetOk("hard", TRUE, TRUE, last'.st)
        [] last'.op = "ResetSoft" -> C!ResetOk("soft", TRUE, TRUE, last'.st)
        [] OTHER -> TRUE ]_vars

(* ---- structural invariants of the algorithm ---- *)
LiveIn(b) == {id \in DOMAIN live : live[id].rx \div Stride = b.id}
UsedIsUnionOfLive == \A i \in 1 .. Len(blocks) : LET b == blocks[i] IN
   b.used = (IF Pad THEN {0} ELSE {}) \cup UNION {(live[id].rx % Stride) .. ((live[id].rx % Stride) + live[id].len - 1) : id \in LiveIn(b)}
StopMarksEnds == \A i \in 1 .. Len(blocks) : LET b == blocks[i] IN
   b.stop = (IF Pad THEN {0} ELSE {}) \cup {(live[id].rx % Stride) + live[id].len - 1 : id \in LiveIn(b)}
(* what the fast paths rely on: in incremental mode everything from ss on is free and lu is exactly that tail;  *)
(* a clean (not dirty) cache never under-estimates a free run inside its window.                               *)
(* NOTE (design observation, not part of the C09 verdict): the window [ss, se) itself may exclude free granules *)
(* after the history  fill block completely -> shrink last span -> release an earlier span  (se stays below    *)
(* the shrunk-away tail until a neighbouring span is released).  WindowComplete states the stronger property   *)
(* and is checked separately (expected to fail on this algorithm; see DESIGN.md C09).                         *)
CacheSound == \A i \in 1 .. Len(blocks) : LET b == blocks[i] IN
   /\ ("incr" \in b.flags => /\ \A x \in Free(b) : x >= b.ss
                             /\ b.lu = b.area - b.ss
                             /\ \A x \in b.ss .. b.area - 1 : x \in Free(b))
   /\ ("incr" \notin b.flags /\ "dirty" \notin b.flags /\ Free(b) # {} =>
          LET rs == Runs(b, b.ss, b.se) IN \A k \in 1 .. Len(rs) : rs[k].e - rs[k].s <= b.lu)
WindowComplete == \A i \in 1 .. Len(blocks) : LET b == blocks[i] IN
   "incr" \notin b.flags => \A x \in Free(b) : x >= b.ss /\ x < b.se
EmptyFlag == \A i \in 1 .. Len(blocks) : ("empty" \in blocks[i].flags) = (LiveIn(blocks[i]) = {})
(* the counter may over-approximate after a hard reset (pool.reset() does not clear it): the pool then retains *)
(* fewer empty blocks than allowed, never more                                                              *)
EmptyCount == Cardinality({i \in 1 .. Len(blocks) : "empty" \in blocks[i].flags}) <= emptyCnt /\ emptyCnt <= 1
CursorValid == (cursor = 0) = (Len(blocks) = 0) /\ (cursor # 0 => \E i \in 1 .. Len(blocks) : blocks[i].id = cursor)
CountExact == allocCount = Cardinality(DOMAIN live)

View == <<blocks, cursor, emptyCnt, allocCount, live, lastFree, prevRes>>
Export == Len(hist) = MaxOps => PrintT(<<"BEH", hist>>)
=============================================================================
