-------------------------------- MODULE JitAlloc --------------------------------
(* Contract-level specification of asmjit::JitAllocator (property C09).          *)
(*                                                                               *)
(* The abstract state is the set of live spans (with their executable and        *)
(* writable address ranges) plus the allocator's configuration.  Every action is *)
(* parameterised by what the implementation *reported* (addresses, sizes,        *)
(* statistics, observations of memory made by the harness) and is enabled        *)
(* exactly when that report is allowed by the property.  The implementation is   *)
(* free in everything the property leaves open: which free range it picks, how   *)
(* it caches its search, how many blocks it maps.                                *)
EXTENDS Naturals, Sequences, FiniteSets, TLC

VARIABLES live,      \* [id -> [rx, rw, len, orig]]  (byte addresses, normalised)
          opts,      \* [dual, multi, fill, imm, nopad, gran, block, pools]
          lastFree,  \* bytes freed by the immediately preceding call that kept its block mapped, else 0
          prevRes    \* reserved size reported by the preceding call

jvars == <<live, opts, lastFree, prevRes>>

Ids == DOMAIN live
Range(a, n) == a .. (a + n - 1)
Disjoint(a, n, b, m) == (a + n <= b) \/ (b + m <= a)

RECURSIVE SumLen(_)
SumLen(S) == IF S = {} THEN 0 ELSE LET x == CHOOSE x \in S : TRUE IN live[x].len + SumLen(S \ {x})

MaxPoolGran == IF opts.multi THEN opts.gran * 4 ELSE opts.gran

(* What the statistics must say, given the abstract state `lv` (the live function after the call). *)
StatsExact(lv, st) ==
  LET sum == IF DOMAIN lv = {} THEN 0 ELSE
               LET RECURSIVE S(_)
                   S(D) == IF D = {} THEN 0 ELSE LET x == CHOOSE x \in D : TRUE IN lv[x].len + S(D \ {x})
               IN S(DOMAIN lv)
  IN /\ st.cnt = Cardinality(DOMAIN lv)                                 \* allocation count = number of live spans
     /\ IF opts.nopad THEN st.used = sum                                \* used bytes = live bytes (+ block padding)
        ELSE st.used >= sum + st.blk * opts.gran /\ st.used <= sum + st.blk * MaxPoolGran
     /\ st.res >= st.used
     /\ (st.blk = 0) = (st.res = 0)

(* Statistics are optional in a report: a concurrent trace cannot sample them atomically with the operation. *)
Known(st) == "res" \in DOMAIN st
StatsOK(lv, st) == Known(st) => StatsExact(lv, st)
ResOf(st) == IF Known(st) THEN st.res ELSE prevRes

(* Retention policy when nothing is live. *)
EmptyPolicy(lv, st) ==
  (Known(st) /\ DOMAIN lv = {}) => st.blk <= (IF opts.imm THEN 0 ELSE opts.pools)

NoOverlapWith(lv, rx, rw, len) ==
  \A j \in DOMAIN lv : /\ Disjoint(rx, len, lv[j].rx, lv[j].len)
                       /\ Disjoint(rw, len, lv[j].rw, lv[j].len)

JInit(o) == /\ live = <<>>
            /\ opts = o
            /\ lastFree = 0
            /\ prevRes = 0

(* ---- alloc ---- *)
AllocOk(id, req, rx, rw, len, obs, st) ==
  /\ req >= 1
  /\ id \notin Ids
  /\ obs.nonnull /\ obs.alias /\ obs.intact
  /\ len >= req                                   \* at least as large as requested
  /\ len % opts.gran = 0
  /\ rx % opts.gran = 0 /\ rw % opts.gran = 0     \* aligned to the granularity
  /\ (~opts.dual => rx = rw)
  /\ NoOverlapWith(live, rx, rw, len)             \* disjoint from every live span, in both views
  /\ live' = [j \in Ids \cup {id} |-> IF j = id THEN [rx |-> rx, rw |-> rw, len |-> len, orig |-> len] ELSE live[j]]
  /\ StatsOK(live', st)
  \* released / shrunk-away memory is reusable: a request equal to what was just freed needs no new block
  /\ (lastFree # 0 /\ ((req + opts.gran - 1) \div opts.gran) * opts.gran = lastFree /\ Known(st) => st.res = prevRes)
  /\ lastFree' = 0
  /\ prevRes' = ResOf(st)
  /\ UNCHANGED opts

AllocRefused(req, obs, st) ==
  /\ obs.intact
  /\ StatsOK(live, st)
  /\ ResOf(st) = prevRes
  /\ lastFree' = 0
  /\ UNCHANGED <<live, opts, prevRes>>

(* ---- release ---- *)
ReleaseOk(id, obs, st) ==
  /\ id \in Ids
  /\ obs.intact
  /\ (opts.fill /\ obs.mapped => obs.filled)
  /\ live' = [j \in Ids \ {id} |-> live[j]]
  /\ StatsOK(live', st)
  /\ EmptyPolicy(live', st)
  \* (with several pools the pool is chosen by the size requested at allocation time, so only a span that still
  \*  has its original size is guaranteed to be served from the hole it leaves)
  /\ lastFree' = IF Known(st) /\ st.res = prevRes /\ (~opts.multi \/ live[id].len = live[id].orig) THEN live[id].len ELSE 0
  /\ prevRes' = ResOf(st)
  /\ UNCHANGED opts

(* ---- shrink (n > 0) / write with truncation ---- *)
ShrinkOk(id, n, rx, rw, len, obs, st) ==
  /\ id \in Ids /\ n >= 1 /\ n <= live[id].len
  /\ obs.intact
  /\ rx = live[id].rx /\ rw = live[id].rw
  /\ len >= n /\ len <= live[id].len /\ len % opts.gran = 0
  /\ (opts.fill /\ len < live[id].len => obs.filled)
  /\ live' = [live EXCEPT ![id].len = len]
  /\ StatsOK(live', st)
  /\ lastFree' = IF Known(st) /\ st.res = prevRes /\ ~opts.multi THEN live[id].len - len ELSE 0
  /\ prevRes' = ResOf(st)
  /\ UNCHANGED opts

(* shrinking to a size larger than the span must not grow it *)
ShrinkRefused(id, n, len, obs, st) ==
  /\ id \in Ids /\ n > live[id].len
  /\ obs.intact
  /\ len = live[id].len
  /\ StatsOK(live, st)
  /\ lastFree' = 0
  /\ UNCHANGED <<live, opts, prevRes>>

(* ---- query ---- *)
QueryLiveOk(id, rx, rw, len, obs, st) ==
  /\ id \in Ids
  /\ rx = live[id].rx /\ rw = live[id].rw /\ len = live[id].len
  /\ obs.intact
  /\ StatsOK(live, st)
  /\ lastFree' = 0
  /\ UNCHANGED <<live, opts, prevRes>>

(* jitallocator.h: "Queries information about an allocated memory block that contains the given rx" - a pointer *)
(* inside a live span must be matched; the span handed back lies inside that live span, contains the pointer  *)
(* and its two views alias the same memory (which part of the span is reported is left open).                 *)
QueryInteriorOk(id, off, rx, rw, len, obs, st) ==
  /\ id \in Ids
  /\ off >= 0 /\ off < live[id].len
  /\ rx >= live[id].rx /\ rx <= live[id].rx + off
  /\ rx + len > live[id].rx + off /\ rx + len <= live[id].rx + live[id].len
  /\ rw - live[id].rw = rx - live[id].rx
  /\ obs.intact
  /\ StatsOK(live, st)
  /\ lastFree' = 0
  /\ UNCHANGED <<live, opts, prevRes>>

QueryForeignRefused(obs, st) ==
  /\ ~obs.nonnull                     \* no span is handed back
  /\ StatsOK(live, st)
  /\ lastFree' = 0
  /\ UNCHANGED <<live, opts, prevRes>>

(* ---- write without truncation ---- *)
WriteOk(id, rx, rw, len, obs, st) ==
  /\ id \in Ids
  /\ rx = live[id].rx /\ rw = live[id].rw /\ len = live[id].len
  /\ obs.intact                       \* the written span holds the new contents, all others their old ones
  /\ StatsOK(live, st)
  /\ lastFree' = 0
  /\ UNCHANGED <<live, opts, prevRes>>

(* ---- reset ---- *)
(* `wiped`: every byte of a span that was live before the call and is still mapped afterwards carries the fill  *)
(* pattern ("released ... memory ... carries the fill pattern when filling is enabled"; a reset releases every span, *)
(* and reset(kSoft) keeps one block per pool mapped, which is where the old code would otherwise stay readable).     *)
ResetOk(policy, init, wiped, st) ==
  /\ init
  /\ (opts.fill => wiped)
  /\ live' = <<>>
  /\ StatsOK(live', st)
  /\ Known(st) => st.blk <= (IF policy = "hard" \/ opts.imm THEN 0 ELSE opts.pools)
  /\ lastFree' = 0
  /\ prevRes' = ResOf(st)
  /\ UNCHANGED opts

(* ---- invariants over the contract state (hold by construction of the actions; checked anyway) ---- *)
NoOverlap == \A a, b \in Ids : a # b =>
               /\ Disjoint(live[a].rx, live[a].len, live[b].rx, live[b].len)
               /\ Disjoint(live[a].rw, live[a].len, live[b].rw, live[b].len)
Aligned   == \A a \in Ids : live[a].rx % opts.gran = 0 /\ live[a].rw % opts.gran = 0 /\ live[a].len % opts.gran = 0 /\ live[a].len > 0
JInv == NoOverlap /\ Aligned
=============================================================================
