SPECIFICATION Spec
CONSTANTS
  Threads = {1, 2}
  G = 4
  Sizes = {1, 2, 3}
  OpsPerThread = 2
  UseLock = FALSE
INVARIANTS NoOverlap
