SPECIFICATION FairSpec
CONSTANTS
  Threads = {1, 2}
  G = 3
  Sizes = {1, 2}
  OpsPerThread = 1
  UseLock = TRUE
PROPERTY EveryCallReturns
