------------------------------ MODULE JitAllocConc ------------------------------
(* Design-level model of the locking discipline of JitAllocator / JitRuntime (C11). *)
(*                                                                                  *)
(* Each public operation is split the way the code is: Call; Acquire (enabled iff    *)
(* the lock is free); the bookkeeping, which is NOT atomic in the code and is        *)
(* therefore modelled as two steps - Scan (read the bit vector, choose) and Commit   *)
(* (write the bit vector, statistics); Release of the lock; Return.  The unlocked    *)
(* part of write() touches only the caller's own span.  TLC explores every           *)
(* interleaving of a few threads.  With UseLock = FALSE (negative control) the same  *)
(* model must violate NoOverlap / CountExact - this shows that the invariants are    *)
(* not vacuous and that the lock is what makes them hold.                            *)
EXTENDS Naturals, Sequences, FiniteSets, TLC

CONSTANTS Threads, G, Sizes, OpsPerThread, UseLock

VARIABLES used,       \* set of used granules (the shared bit vector)
          count,      \* shared allocation counter
          owner,      \* granule -> owning thread (ghost), 0 = free
          lockOwner,  \* 0 = free
          pc,         \* thread -> "idle" | "called" | "locked" | "scanned" | "committed" | "unlocked"
          pending,    \* thread -> [op, n, at]
          mine,       \* thread -> set of [at, n] spans held
          opsDone,
          overlap     \* ghost: set when a commit hits a granule that is already owned

vars == <<used, count, owner, lockOwner, pc, pending, mine, opsDone, overlap>>
None == [op |-> "none", n |-> 0, at |-> 0]

Init == /\ used = {} /\ count = 0 /\ owner = [g \in 0 .. G - 1 |-> 0] /\ lockOwner = 0
        /\ pc = [t \in Threads |-> "idle"] /\ pending = [t \in Threads |-> None]
        /\ mine = [t \in Threads |-> {}] /\ opsDone = [t \in Threads |-> 0] /\ overlap = FALSE

Call(t) == /\ pc[t] = "idle" /\ opsDone[t] < OpsPerThread
           /\ \/ \E n \in Sizes : pending' = [pending EXCEPT ![t] = [op |-> "alloc", n |-> n, at |-> 0]]
              \/ \E s \in mine[t] : pending' = [pending EXCEPT ![t] = [op |-> "release", n |-> s.n, at |-> s.at]]
              \/ pending' = [pending EXCEPT ![t] = [op |-> "stats", n |-> 0, at |-> 0]]
           /\ pc' = [pc EXCEPT ![t] = "called"]
           /\ UNCHANGED <<used, count, owner, lockOwner, mine, opsDone, overlap>>

Acquire(t) == /\ pc[t] = "called"
              /\ IF UseLock THEN lockOwner = 0 /\ lockOwner' = t ELSE lockOwner' = lockOwner
              /\ pc' = [pc EXCEPT ![t] = "locked"]
              /\ UNCHANGED <<used, count, owner, pending, mine, opsDone, overlap>>

FreeRuns(n) == {a \in 0 .. G - n : \A g \in a .. a + n - 1 : g \notin used}

(* read phase of the critical section *)
Scan(t) == /\ pc[t] = "locked"
           /\ CASE pending[t].op = "alloc" ->
                     IF FreeRuns(pending[t].n) = {} THEN pending' = [pending EXCEPT ![t].at = G]       \* no room: fails
                     ELSE \E a \in FreeRuns(pending[t].n) : pending' = [pending EXCEPT ![t].at = a]
                [] pending[t].op = "stats" -> pending' = [pending EXCEPT ![t].n = count]                \* sample
                [] OTHER -> pending' = pending
           /\ pc' = [pc EXCEPT ![t] = "scanned"]
           /\ UNCHANGED <<used, count, owner, lockOwner, mine, opsDone, overlap>>

(* write phase of the critical section *)
Commit(t) ==
  /\ pc[t] = "scanned"
  /\ LET p == pending[t] R == p.at .. p.at + p.n - 1 IN
       CASE p.op = "alloc" /\ p.at < G ->
              /\ overlap' = (overlap \/ \E g \in R : owner[g] # 0)
              /\ used' = used \cup R /\ count' = count + 1
              /\ owner' = [g \in 0 .. G - 1 |-> IF g \in R THEN t ELSE owner[g]]
              /\ mine' = [mine EXCEPT ![t] = @ \cup {[at |-> p.at, n |-> p.n]}]
         [] p.op = "release" ->
              /\ used' = used \ R /\ count' = count - 1
              /\ owner' = [g \in 0 .. G - 1 |-> IF g \in R THEN 0 ELSE owner[g]]
              /\ mine' = [mine EXCEPT ![t] = @ \ {[at |-> p.at, n |-> p.n]}]
              /\ UNCHANGED overlap
         [] OTHER -> UNCHANGED <<used, count, owner, mine, overlap>>
  /\ pc' = [pc EXCEPT ![t] = "committed"]
  /\ UNCHANGED <<lockOwner, pending, opsDone>>

Unlock(t) == /\ pc[t] = "committed"
             /\ IF UseLock THEN lockOwner = t /\ lockOwner' = 0 ELSE lockOwner' = lockOwner
             /\ pc' = [pc EXCEPT ![t] = "unlocked"]
             /\ UNCHANGED <<used, count, owner, pending, mine, opsDone, overlap>>

Return(t) == /\ pc[t] = "unlocked"
             /\ pc' = [pc EXCEPT ![t] = "idle"] /\ pending' = [pending EXCEPT ![t] = None]
             /\ opsDone' = [opsDone EXCEPT ![t] = @ + 1]
             /\ UNCHANGED <<used, count, owner, lockOwner, mine, overlap>>

Next == \E t \in Threads : Call(t) \/ Acquire(t) \/ Scan(t) \/ Commit(t) \/ Unlock(t) \/ Return(t)
Spec == Init /\ [][Next]_vars
FairSpec == Spec /\ \A t \in Threads : WF_vars(Acquire(t)) /\ WF_vars(Scan(t)) /\ WF_vars(Commit(t)) /\ WF_vars(Unlock(t)) /\ WF_vars(Return(t))

(* ---- properties ---- *)
InCS(t) == pc[t] \in {"locked", "scanned", "committed"}
MutexOK == \A a, b \in Threads : (InCS(a) /\ InCS(b)) => a = b
NoOverlap == ~overlap /\ \A a, b \in Threads : \A s \in mine[a], u \in mine[b] :
               (a # b \/ s # u) => (s.at + s.n <= u.at \/ u.at + u.n <= s.at)
UsedIsUnion == used = UNION {UNION {s.at .. s.at + s.n - 1 : s \in mine[t]} : t \in Threads}
Quiescent == \A t \in Threads : ~InCS(t)
CountExact == Quiescent => count = Cardinality(UNION {mine[t] : t \in Threads})
(* linearizability of statistics: the sampled value equals the number of spans at the sampling point - since  *)
(* Scan of a stats operation happens under the lock, count is exact there:                                   *)
StatsLinearizable == \A t \in Threads : (pending[t].op = "stats" /\ pc[t] = "scanned") =>
                        pending[t].n = Cardinality(UNION {mine[u] : u \in Threads})
EveryCallReturns == \A t \in Threads : (pc[t] = "called") ~> (pc[t] = "idle")
=============================================================================
