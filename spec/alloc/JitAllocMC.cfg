SPECIFICATION Spec
CONSTANTS
  B = 4
  MaxArea = 16
  Pad = TRUE
  Imm = FALSE
  Sizes = {1, 2, 3, 5, 7, 9}
  MaxLive = 4
  MaxOps = 7
INVARIANTS UsedIsUnionOfLive StopMarksEnds CacheSound EmptyFlag EmptyCount CursorValid CountExact
PROPERTY RefinesContract
VIEW View
