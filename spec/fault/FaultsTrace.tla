------------------------------ MODULE FaultsTrace ------------------------------
(* Trace validation for C15: a file of executions recorded by harness/faults.cpp is accepted iff it is a *)
(* behaviour of the contract Faults.tla.  An ABORT line (crash, sanitizer report, hang of the traced    *)
(* process) is consumed by no contract action.                                                          *)
(*                                                                                                      *)
(* A file holds thousands of executions (one per injected failure position) that all need the ghost of  *)
(* the clean execution at its head, so a rejected execution must not hide the ones behind it: when NO   *)
(* contract action can consume line l (~Consumable: no guard of Faults.tla holds for the recorded event)*)
(* the only enabled step is TRecover, which                                                             *)
(* records <<l, job>> in `rej` and resumes at the next Reset line.  The file is accepted iff it was     *)
(* consumed to the end AND rej is empty; every entry of rej is a rejection of that execution at that    *)
(* line, reported one by one by checks/c15.py.                                                          *)
EXTENDS Faults, TraceLib, FiniteSets

VARIABLES l, job, rej
tvars == <<phase, wl, expWl, expected, pos, sync, hits, heap, cont, repaired, l, job, rej>>

T == TraceLog
Ev == T[l]
IsEv(e) == l <= Len(T) /\ Ev.e = e /\ l' = l + 1

TInit == CInit /\ l = 1 /\ job = 0 /\ rej = <<>> /\ InitProgress /\ TLCSet(2, <<>>)

TStartClean == IsEv("Reset") /\ Ev.cls = "none" /\ StartClean(Ev.w) /\ job' = Ev.job
TStartFault == IsEv("Reset") /\ Ev.cls # "none" /\ Len(Ev.k) > 0 /\ StartFault(Ev.w, Ev.cls, Ev.cont) /\ job' = Ev.job

TCall == /\ IsEv("Call")
         /\ \/ Ev.ph = "C" /\ CleanCall(Ev.i, Ev.c, Ev.r, Ev.f, Ev.d, Ev.s, Ev.p, Ev.redo)
            \/ Ev.ph = "F" /\ FaultCall(Ev.i, Ev.c, Ev.r, Ev.f, Ev.d, Ev.s, Ev.p, Ev.redo)
            \/ Ev.ph = "R" /\ RetryCall(Ev.i, Ev.c, Ev.r, Ev.f, Ev.d, Ev.s, Ev.p, Ev.redo)
         /\ UNCHANGED job

TResetObjects == IsEv("ResetObjects") /\ ResetObjects(Ev.r) /\ UNCHANGED job
TDestroy == IsEv("Destroy") /\ Destroy /\ UNCHANGED job
TLeak == IsEv("Leak") /\ LeakReport(Ev.heap, Ev.vm, Ev.fd) /\ UNCHANGED job

(* last line of a complete file: nothing may be in progress (a truncated file has no End line) *)
TEnd == IsEv("End") /\ Quiescent /\ UNCHANGED cvars /\ UNCHANGED job

(* the disjunction of the guards of the contract actions for the event at line l (a state predicate) *)
Consumable ==
  /\ l <= Len(T)
  /\ CASE Ev.e = "Reset" -> IF Ev.cls = "none" THEN StartCleanOk(Ev.w) ELSE Len(Ev.k) > 0 /\ StartFaultOk(Ev.w, Ev.cls, Ev.cont)
       [] Ev.e = "Call" -> CASE Ev.ph = "C" -> CleanCallOk(Ev.i, Ev.c, Ev.r, Ev.f, Ev.d, Ev.s, Ev.p, Ev.redo)
                             [] Ev.ph = "F" -> FaultCallOk(Ev.i, Ev.c, Ev.r, Ev.f, Ev.d, Ev.s, Ev.p, Ev.redo)
                             [] Ev.ph = "R" -> RetryCallOk(Ev.i, Ev.c, Ev.r, Ev.f, Ev.d, Ev.s, Ev.p, Ev.redo)
                             [] OTHER -> FALSE
       [] Ev.e = "ResetObjects" -> ResetObjectsOk(Ev.r)
       [] Ev.e = "Destroy" -> DestroyOk
       [] Ev.e = "Leak" -> LeakReportOk(Ev.heap, Ev.vm, Ev.fd)
       [] Ev.e = "End" -> Quiescent
       [] OTHER -> FALSE                      \* ABORT and anything unknown

TContract == (TStartClean \/ TStartFault \/ TCall \/ TResetObjects \/ TDestroy \/ TLeak \/ TEnd) /\ UNCHANGED rej

NextStart(from) ==
  LET S == {j \in (from + 1)..Len(T) : T[j].e \in {"Reset", "End"}}
  IN IF S = {} THEN Len(T) + 1 ELSE CHOOSE j \in S : \A m \in S : j <= m

TRecover ==
  /\ l <= Len(T)
  /\ ~Consumable
  /\ rej' = Append(rej, <<l, IF Ev.e = "Reset" THEN Ev.job ELSE job>>)
  /\ l' = NextStart(l)
  /\ phase' = "done" /\ pos' = 0 /\ heap' = <<0, 0, 0>>
  (* a rejected clean execution leaves no usable ghost: every execution that depends on it is rejected too *)
  /\ IF phase = "clean" \/ (Ev.e = "Reset" /\ Ev.cls = "none")
       THEN expWl' = "" /\ expected' = <<>>
       ELSE UNCHANGED <<expWl, expected>>
  /\ UNCHANGED <<wl, sync, hits, job, cont, repaired>>

TNext == TContract \/ TRecover
TSpec == TInit /\ [][TNext]_tvars

Progress == /\ NoteProgress(l)
            /\ IF Len(rej) > Len(TLCGet(2)) THEN TLCSet(2, rej) ELSE TRUE
TraceAccepted == /\ PrintT(<<"REJECTED", TLCGet(2)>>)
                 /\ PrintT(<<"MAXL", IF TLCGet(2) = <<>> THEN TLCGet(1) ELSE TLCGet(2)[1][1], Len(T)>>)
                 /\ TLCGet(1) = Len(T) + 1
                 /\ TLCGet(2) = <<>>
=============================================================================
