-------------------------------- MODULE Faults --------------------------------
(* C15 - CONTRACT: allocation failure yields an error, never a crash, leak or wrong code.              *)
(*                                                                                                     *)
(* One *execution* = one workload (a fixed program of public API calls on asmjit objects) run          *)
(*   clean  : without any injected failure (this records the ghost `expected`), or                     *)
(*   fault  : with the k-th request of one class (arena | heap | vm) failing (or a set of them),       *)
(*            the program CONTINUES after an error, then the objects are reset, the whole program is   *)
(*            repeated on the SAME objects without failures (retry), the objects are destroyed and     *)
(*            the outstanding heap blocks / mappings / descriptors are counted.                        *)
(* The state is the abstract status of the execution; the actions are parameterised by what the code   *)
(* reported (call name, returned error, whether a failure was injected during the call, digest of the  *)
(* observable state after the call).  An action is enabled exactly for the results the property        *)
(* allows, so a recorded execution is a behaviour of this module iff the property held on it:          *)
(*   PrefixEqualsClean  while no injected failure has been answered with an error, every call returns  *)
(*                      the clean result and leaves the clean digest (an injected failure the code     *)
(*                      tolerated must be invisible);                                                  *)
(*   ErrorOrCorrect     a call during which a failure was injected returns an error, or it returns     *)
(*                      the clean result with the clean digest - never success with different output;  *)
(*   (after an error the program has legitimately diverged: later calls are unconstrained, they only   *)
(*    must not crash - a crash ends the trace with an ABORT line no action consumes)                   *)
(*   Reusable           the reset between fault phase and retry succeeds;                              *)
(*   RetryEqualsClean   the retry reproduces the clean run call by call (error, digest) and is complete*)
(*   NoLeak             after destruction nothing allocated since the start of the execution is left.  *)
(* Which error code a failing call returns, and which partial internal state it leaves, is free.       *)
EXTENDS Naturals, Sequences

VARIABLES
  phase,      \* "idle" | "clean" | "fault" | "reset" | "retry" | "destroyed" | "done"
  wl,         \* workload of the execution in progress
  expWl,      \* workload the ghost belongs to
  expected,   \* ghost: sequence of <<call, result, digest>> of the failure-free run of expWl
  pos,        \* calls consumed in the current phase
  sync,       \* fault phase: TRUE while the run is still indistinguishable from the clean run
  hits,       \* number of calls during which a failure was injected (fault phase)
  heap        \* <<blocks, mappings, descriptors>> outstanding after destruction (0,0,0 before)

cvars == <<phase, wl, expWl, expected, pos, sync, hits, heap>>

Ok == "Ok"
Classes == {"arena", "heap", "vm"}

CInit == /\ phase = "idle" /\ wl = "" /\ expWl = "" /\ expected = <<>> /\ pos = 0
         /\ sync = TRUE /\ hits = 0 /\ heap = <<0, 0, 0>>

Quiescent == phase \in {"idle", "done"}

(* ---- clean run: defines the ghost ---- *)
StartClean(w) ==
  /\ Quiescent
  /\ phase' = "clean" /\ wl' = w /\ expWl' = w /\ expected' = <<>> /\ pos' = 0
  /\ sync' = TRUE /\ hits' = 0 /\ heap' = <<0, 0, 0>>

CleanCall(i, c, r, f, d) ==
  /\ phase = "clean" /\ i = pos + 1 /\ ~f
  /\ expected' = Append(expected, <<c, r, d>>) /\ pos' = i
  /\ UNCHANGED <<phase, wl, expWl, sync, hits, heap>>

(* ---- fault run ---- *)
StartFault(w, cls) ==
  /\ Quiescent /\ cls \in Classes
  /\ w = expWl /\ Len(expected) > 0           \* the ghost of this workload is known
  /\ phase' = "fault" /\ wl' = w /\ pos' = 0 /\ sync' = TRUE /\ hits' = 0 /\ heap' = <<0, 0, 0>>
  /\ UNCHANGED <<expWl, expected>>

SameAsClean(i, c, r, d) == i <= Len(expected) /\ expected[i] = <<c, r, d>>

FaultCall(i, c, r, f, d) ==
  /\ phase = "fault" /\ i = pos + 1 /\ i <= Len(expected)
  /\ c = expected[i][1]                       \* the program is fixed
  /\ IF sync
       THEN IF ~f THEN SameAsClean(i, c, r, d)                            \* PrefixEqualsClean
                  ELSE r # Ok \/ SameAsClean(i, c, r, d)                  \* ErrorOrCorrect
       ELSE TRUE                                                         \* diverged after a reported error
  /\ sync' = (sync /\ SameAsClean(i, c, r, d))
  /\ hits' = IF f THEN hits + 1 ELSE hits
  /\ pos' = i
  /\ UNCHANGED <<phase, wl, expWl, expected, heap>>

ResetObjects(r) ==
  /\ phase = "fault" /\ pos = Len(expected)   \* the whole program was executed, errors or not
  /\ r = Ok                                   \* Reusable
  /\ phase' = "retry" /\ pos' = 0
  /\ UNCHANGED <<wl, expWl, expected, sync, hits, heap>>

RetryCall(i, c, r, f, d) ==
  /\ phase = "retry" /\ i = pos + 1 /\ ~f
  /\ SameAsClean(i, c, r, d)                  \* RetryEqualsClean
  /\ pos' = i
  /\ UNCHANGED <<phase, wl, expWl, expected, sync, hits, heap>>

Destroy ==
  /\ \/ phase = "retry" /\ pos = Len(expected)
     \/ phase = "clean" /\ pos > 0
  /\ phase' = "destroyed"
  /\ UNCHANGED <<wl, expWl, expected, pos, sync, hits, heap>>

LeakReport(blocks, maps, fds) ==
  /\ phase = "destroyed"
  /\ blocks = 0 /\ maps = 0 /\ fds = 0        \* NoLeak
  /\ heap' = <<blocks, maps, fds>>
  /\ phase' = "done"
  /\ UNCHANGED <<wl, expWl, expected, pos, sync, hits>>

CInv == /\ phase \in {"idle", "clean", "fault", "retry", "destroyed", "done"}
        /\ pos <= Len(expected)
        /\ heap = <<0, 0, 0>>
        /\ (phase \in {"fault", "retry"} => wl = expWl)
=============================================================================
