-------------------------------- MODULE Faults --------------------------------
(* C15 - CONTRACT: allocation failure yields an error, never a crash, leak or wrong code.              *)
(*                                                                                                     *)
(* One *execution* = one workload (a fixed program of public API calls on asmjit objects) run          *)
(*   clean  : without any injected failure (this records the ghost `expected`), or                     *)
(*   fault  : with the k-th request of one class (arena | heap | vm) failing (or a set of them),       *)
(*            the program CONTINUES after an error, then the objects are reset, the whole program is   *)
(*            repeated on the SAME objects without failures (retry), the objects are destroyed and     *)
(*            the outstanding heap blocks / mappings / descriptors are counted.                        *)
(* The state is the abstract status of the execution; the actions are parameterised by what the code   *)
(* reported: call name, returned error, whether a failure was injected during the call, and two        *)
(* digests of the observable state after the call:                                                     *)
(*   d  exact      - the representation (section bytes, labels, relocations, node list, layouts ...)   *)
(*   s  semantic   - what that state means: for the assembler and the containers s covers the same as  *)
(*                   d; where asmjit is free to produce a different but equivalent result after an     *)
(*                   internal request failed and was repeated later (register allocator: spill slot    *)
(*                   numbering; ConstPool: a lost gap record makes the pool less compact) s is the     *)
(*                   meaning only - results of EXECUTING the generated functions, "every constant is   *)
(*                   found, aligned, at the offset that was returned".                                 *)
(* An action is enabled exactly for the results the property allows, so a recorded execution is a      *)
(* behaviour of this module iff the property held on it:                                               *)
(*   Deterministic      before any failure was injected every call equals the clean run exactly        *)
(*                      (otherwise the harness, not asmjit, is at fault);                              *)
(*   ErrorOrCorrect     from the first injected failure on, while no error has been reported: a call   *)
(*                      returns an error (the run has then legitimately diverged), or it returns what  *)
(*                      the clean run returned AND leaves a state that means the same (s) - never      *)
(*                      success with a different meaning.  This also covers failures that asmjit       *)
(*                      tolerates at the failing request and reports (or repairs) in a later call;     *)
(*   (after an error the program has diverged: later calls are unconstrained, they only must not       *)
(*    crash - a crash ends the trace with an ABORT line no action consumes)                            *)
(*   RepairInPlace      continuation "inplace": when an API call that had a failure injected returns an *)
(*                      error, memory is made available and exactly that call is repeated on the same  *)
(*                      objects without any reset (redo > 0).  A failed call is atomic: the repeated    *)
(*                      call must return what the clean run returned, and from then on every call must *)
(*                      return what the clean run returned and leave the clean PRODUCT p (section      *)
(*                      bytes/offsets/alignments, pool size+alignment, results of executed code,       *)
(*                      container contents - no ids, no counters).  Calls that are not repeatable      *)
(*                      (finalize, serialize_to, reinit - see harness) are never repeated: after their *)
(*                      failure only reset/destroy are demanded, as in continuation "restart";         *)
(*   Reusable           the reset between fault phase and retry succeeds;                              *)
(*   RetryEqualsClean   the retry reproduces the clean run call by call - error, d and s: exactly the  *)
(*                      code a failure-free run produces - and is complete;                            *)
(*   NoLeak             after destruction nothing allocated since the start of the execution is left.  *)
(* Which error code a failing call returns, and which partial internal state it leaves, is free.       *)
EXTENDS Naturals, Sequences

VARIABLES
  phase,      \* "idle" | "clean" | "fault" | "reset" | "retry" | "destroyed" | "done"
  wl,         \* workload of the execution in progress
  expWl,      \* workload the ghost belongs to
  expected,   \* ghost: sequence of <<call, result, d, s, p>> of the failure-free run of expWl
  pos,        \* calls consumed in the current phase
  sync,       \* fault phase: TRUE while no error was reported and every call meant what the clean run's call meant
  hits,       \* number of calls during which a failure was injected (fault phase)
  cont,       \* continuation of the fault run: "restart" | "inplace"
  repaired,   \* inplace: some failed call has been repeated with memory available
  heap        \* <<blocks, mappings, descriptors>> outstanding after destruction (0,0,0 before)

cvars == <<phase, wl, expWl, expected, pos, sync, hits, heap, cont, repaired>>

Ok == "Ok"
Classes == {"arena", "heap", "vm"}

CInit == /\ phase = "idle" /\ wl = "" /\ expWl = "" /\ expected = <<>> /\ pos = 0
         /\ sync = TRUE /\ hits = 0 /\ heap = <<0, 0, 0>> /\ cont = "restart" /\ repaired = FALSE

Quiescent == phase \in {"idle", "done"}

(* Every action is written  Guard /\ Effect : the guard (suffix Ok) is a state predicate - it is the whole *)
(* verdict - and the effect is a total function of state and event.                                       *)

(* ---- clean run: defines the ghost ---- *)
StartCleanOk(w) == Quiescent
StartClean(w) ==
  /\ StartCleanOk(w)
  /\ phase' = "clean" /\ wl' = w /\ expWl' = w /\ expected' = <<>> /\ pos' = 0
  /\ sync' = TRUE /\ hits' = 0 /\ heap' = <<0, 0, 0>> /\ cont' = "restart" /\ repaired' = FALSE

CleanCallOk(i, c, r, f, d, s, p, redo) == phase = "clean" /\ i = pos + 1 /\ ~f /\ redo = 0
CleanCall(i, c, r, f, d, s, p, redo) ==
  /\ CleanCallOk(i, c, r, f, d, s, p, redo)
  /\ expected' = Append(expected, <<c, r, d, s, p>>) /\ pos' = i
  /\ UNCHANGED <<phase, wl, expWl, sync, hits, heap, cont, repaired>>

(* ---- fault run ---- *)
StartFaultOk(w, cls, ct) ==
  /\ Quiescent /\ cls \in Classes /\ ct \in {"restart", "inplace"}
  /\ w = expWl /\ Len(expected) > 0           \* the ghost of this workload is known
StartFault(w, cls, ct) ==
  /\ StartFaultOk(w, cls, ct)
  /\ phase' = "fault" /\ wl' = w /\ pos' = 0 /\ sync' = TRUE /\ hits' = 0 /\ heap' = <<0, 0, 0>>
  /\ cont' = ct /\ repaired' = FALSE
  /\ UNCHANGED <<expWl, expected>>

ExactlyClean(i, c, r, d, s, p) == i <= Len(expected) /\ expected[i] = <<c, r, d, s, p>>
MeansClean(i, c, r, s) == i <= Len(expected) /\ expected[i][1] = c /\ expected[i][2] = r /\ expected[i][4] = s
ProductClean(i, c, r, p) == i <= Len(expected) /\ expected[i][1] = c /\ expected[i][2] = r /\ expected[i][5] = p

FaultCallOk(i, c, r, f, d, s, p, redo) ==
  /\ phase = "fault" /\ i = pos + 1 /\ i <= Len(expected)
  /\ c = expected[i][1]                       \* the program is fixed
  /\ (redo > 0 => cont = "inplace" /\ f)      \* only a call that had a failure injected is ever repeated
  /\ IF ~sync THEN TRUE                                                  \* diverged after a reported error
     ELSE IF hits = 0 /\ ~f THEN ExactlyClean(i, c, r, d, s, p)           \* Deterministic
     ELSE IF redo > 0 \/ repaired
       THEN \/ redo = 0 /\ f /\ r # Ok                                   \* a call that is not repeatable failed: diverged
            \/ ProductClean(i, c, r, p)                                  \* RepairInPlace
     ELSE r # Ok \/ MeansClean(i, c, r, s)                                \* ErrorOrCorrect
InSync(i, c, r, s, p, redo) == IF redo > 0 \/ repaired THEN ProductClean(i, c, r, p) ELSE MeansClean(i, c, r, s)
FaultCall(i, c, r, f, d, s, p, redo) ==
  /\ FaultCallOk(i, c, r, f, d, s, p, redo)
  /\ sync' = (sync /\ InSync(i, c, r, s, p, redo))
  /\ repaired' = (repaired \/ (sync /\ redo > 0))
  /\ hits' = IF f THEN hits + 1 ELSE hits
  /\ pos' = i
  /\ UNCHANGED <<phase, wl, expWl, expected, heap, cont>>

ResetObjectsOk(r) ==
  /\ phase = "fault" /\ pos = Len(expected)   \* the whole program was executed, errors or not
  /\ r = Ok                                   \* Reusable
ResetObjects(r) ==
  /\ ResetObjectsOk(r)
  /\ phase' = "retry" /\ pos' = 0
  /\ UNCHANGED <<wl, expWl, expected, sync, hits, heap, cont, repaired>>

RetryCallOk(i, c, r, f, d, s, p, redo) ==
  /\ phase = "retry" /\ i = pos + 1 /\ ~f /\ redo = 0
  /\ ExactlyClean(i, c, r, d, s, p)           \* RetryEqualsClean
RetryCall(i, c, r, f, d, s, p, redo) ==
  /\ RetryCallOk(i, c, r, f, d, s, p, redo)
  /\ pos' = i
  /\ UNCHANGED <<phase, wl, expWl, expected, sync, hits, heap, cont, repaired>>

DestroyOk ==
  \/ phase = "retry" /\ pos = Len(expected)    \* the retry was complete
  \/ phase = "clean" /\ pos > 0
Destroy ==
  /\ DestroyOk
  /\ phase' = "destroyed"
  /\ UNCHANGED <<wl, expWl, expected, pos, sync, hits, heap, cont, repaired>>

LeakReportOk(blocks, maps, fds) ==
  /\ phase = "destroyed"
  /\ blocks = 0 /\ maps = 0 /\ fds = 0        \* NoLeak
LeakReport(blocks, maps, fds) ==
  /\ LeakReportOk(blocks, maps, fds)
  /\ heap' = <<blocks, maps, fds>>
  /\ phase' = "done"
  /\ UNCHANGED <<wl, expWl, expected, pos, sync, hits, cont, repaired>>

CInv == /\ phase \in {"idle", "clean", "fault", "retry", "destroyed", "done"}
        /\ pos <= Len(expected)
        /\ heap = <<0, 0, 0>>
        /\ (phase \in {"fault", "retry"} => wl = expWl)
=============================================================================
