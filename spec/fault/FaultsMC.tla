------------------------------- MODULE FaultsMC -------------------------------
(* C15 - design-level model, explored exhaustively by TLC: the two failure-handling disciplines the      *)
(* property rests on, with every allocation request an explicit step and every single and double        *)
(* failure position.                                                                                    *)
(*                                                                                                      *)
(*  "S"  reserve-then-append (CodeHolder::new_section, new_reloc_entry, new_label_id, BaseBuilder nodes):*)
(*       two vectors A (by id) and B (by order) must hold the same elements; the transaction first      *)
(*       reserves room in both, then allocates the object, and only then appends - the appends are      *)
(*       `append_unchecked`: they do not test the capacity (writing beyond it corrupts memory).         *)
(*  "B"  acquire-two-then-link with roll-back (JitAllocator_new_block, JitRuntime::_add): a VM mapping  *)
(*       then a heap header; when the second request fails the first must be released.                  *)
(*                                                                                                      *)
(* A program is any sequence of MaxOps transactions; `fail` is any set of at most MaxFail request       *)
(* numbers that fail.  After the program the objects are reset (arena memory goes back wholesale; VM    *)
(* mappings and heap headers of LINKED blocks are released by the owner) and the program is repeated    *)
(* without failures.  Checked: NoCorruption, Consistent, ErrorIffFailed (+ atomicity), NoLeak,          *)
(* RetryEqualsClean, and with InPlace = TRUE (a failed transaction is repeated at once on the same objects)         *)
(* InPlaceCompletes.  Negative controls (must be violated): Discipline = "AppendFirst" (append before   *)
(* the second reserve: Consistent), RollBack = FALSE (NoLeak), Discipline = "NoReserve" (NoCorruption). *)
EXTENDS Naturals, Sequences, FiniteSets, TLC

CONSTANTS MaxOps, MaxFail, Discipline, RollBack,
          InPlace      \* TRUE: a transaction that reported an error is repeated at once on the same objects (no reset)

StepsOf(op) ==
  IF op = "S"
    THEN IF Discipline = "ReserveFirst"
           THEN <<"reserveA", "reserveB", "allocObj", "appendA", "appendB", "commit">>
           ELSE IF Discipline = "AppendFirst"
                  THEN <<"reserveA", "allocObj", "appendA", "reserveB", "appendB", "commit">>   \* negative control 1
                  ELSE <<"reserveA", "allocObj", "appendA", "appendB", "commit">>                \* negative control 3: B never reserved
    ELSE <<"mapVM", "allocHdr", "link", "commit">>

MaxReq == 3 * MaxOps

VARIABLES
  prog,      \* the program: sequence of "S" | "B"
  fail,      \* request numbers that fail (empty in the retry)
  phase,     \* "run" | "retry" | "done"
  op, st,    \* current transaction and step
  req,       \* requests issued so far in this phase
  failedNow, \* a request failed during the current transaction
  A, B,      \* vectors: [items |-> seq, cap |-> Nat]
  objs,      \* arena objects allocated (released wholesale by reset)
  pendVM,    \* mapping obtained by the transaction in progress (0 = none)
  vm, hdr,   \* outstanding VM mappings / heap headers (ids)
  blocks,    \* linked blocks <<vm, hdr>>
  results,   \* per finished transaction "Ok" | "Err"
  corrupt,   \* an unchecked append wrote beyond the capacity
  snap       \* abstract contents at the start of the current transaction (for atomicity)

vars == <<prog, fail, phase, op, st, req, failedNow, A, B, objs, pendVM, vm, hdr, blocks, results, corrupt, snap>>

Empty == [items |-> <<>>, cap |-> 0]
Abs == <<A.items, B.items, blocks>>
Range(s) == {s[i] : i \in 1..Len(s)}

Init ==
  /\ prog \in [1..MaxOps -> {"S", "B"}]
  /\ fail \in {F \in SUBSET (1..MaxReq) : Cardinality(F) <= MaxFail}
  /\ phase = "run" /\ op = 1 /\ st = 1 /\ req = 0 /\ failedNow = FALSE
  /\ A = Empty /\ B = Empty /\ objs = 0 /\ pendVM = 0 /\ vm = {} /\ hdr = {} /\ blocks = {}
  /\ results = <<>> /\ corrupt = FALSE /\ snap = <<<<>>, <<>>, {}>>

Cur == StepsOf(prog[op])[st]
Fails(n) == phase = "run" /\ n \in fail

Baseline == IF st = 1 THEN Abs ELSE snap          \* abstract contents when the current transaction started
Advance == st' = st + 1 /\ UNCHANGED <<op, results>> /\ snap' = Baseline
Abort ==      \* the transaction returns an error; continuation "retry in place": the same transaction is started again
  /\ results' = Append(results, "Err") /\ op' = (IF InPlace /\ phase = "run" THEN op ELSE op + 1)
  /\ st' = 1 /\ failedNow' = FALSE /\ snap' = Baseline

Grow(v) == [v EXCEPT !.cap = IF v.cap = 0 THEN 1 ELSE 2 * v.cap]
Push(v, x) == [v EXCEPT !.items = Append(v.items, x)]

Reserve(v, vp) ==
  IF Len(v.items) < v.cap
    THEN vp = v /\ UNCHANGED <<req, failedNow>> /\ Advance
    ELSE /\ req' = req + 1
         /\ IF Fails(req + 1) THEN vp = v /\ Abort ELSE vp = Grow(v) /\ UNCHANGED failedNow /\ Advance

Step ==
  /\ phase \in {"run", "retry"} /\ op <= MaxOps
  /\ CASE Cur = "reserveA" -> Reserve(A, A') /\ UNCHANGED <<B, objs, pendVM, vm, hdr, blocks, corrupt>>
       [] Cur = "reserveB" -> Reserve(B, B') /\ UNCHANGED <<A, objs, pendVM, vm, hdr, blocks, corrupt>>
       [] Cur = "allocObj" -> /\ req' = req + 1
                              /\ IF Fails(req + 1) THEN Abort /\ UNCHANGED objs
                                                   ELSE objs' = objs + 1 /\ UNCHANGED failedNow /\ Advance
                              /\ UNCHANGED <<A, B, pendVM, vm, hdr, blocks, corrupt>>
       [] Cur = "appendA" -> /\ IF Len(A.items) < A.cap THEN A' = Push(A, op) /\ UNCHANGED corrupt
                                                        ELSE corrupt' = TRUE /\ UNCHANGED A
                             /\ Advance /\ UNCHANGED <<B, objs, pendVM, vm, hdr, blocks, req, failedNow>>
       [] Cur = "appendB" -> /\ IF Len(B.items) < B.cap THEN B' = Push(B, op) /\ UNCHANGED corrupt
                                                        ELSE corrupt' = TRUE /\ UNCHANGED B
                             /\ Advance /\ UNCHANGED <<A, objs, pendVM, vm, hdr, blocks, req, failedNow>>
       [] Cur = "mapVM" -> /\ req' = req + 1
                           /\ IF Fails(req + 1) THEN Abort /\ UNCHANGED <<pendVM, vm>>
                                                ELSE pendVM' = req + 1 /\ vm' = vm \cup {req + 1} /\ UNCHANGED failedNow /\ Advance
                           /\ UNCHANGED <<A, B, objs, hdr, blocks, corrupt>>
       [] Cur = "allocHdr" -> /\ req' = req + 1
                              /\ IF Fails(req + 1)
                                   THEN /\ vm' = IF RollBack THEN vm \ {pendVM} ELSE vm      \* roll-back of the first acquisition
                                        /\ pendVM' = 0 /\ UNCHANGED <<hdr, blocks>> /\ Abort
                                   ELSE /\ hdr' = hdr \cup {req + 1} /\ blocks' = blocks \cup {<<pendVM, req + 1>>}
                                        /\ pendVM' = 0 /\ UNCHANGED <<vm, failedNow>> /\ Advance
                              /\ UNCHANGED <<A, B, objs, corrupt>>
       [] Cur = "link" -> Advance /\ UNCHANGED <<A, B, objs, pendVM, vm, hdr, blocks, corrupt, req, failedNow>>
       [] Cur = "commit" -> /\ results' = Append(results, "Ok") /\ op' = op + 1 /\ st' = 1 /\ snap' = Baseline
                            /\ UNCHANGED <<A, B, objs, pendVM, vm, hdr, blocks, corrupt, req, failedNow>>
  /\ UNCHANGED <<prog, fail, phase>>

(* reset of all objects: containers emptied, arena memory returned wholesale, every LINKED block released *)
ResetAndRetry ==
  /\ phase = "run" /\ op = MaxOps + 1
  /\ phase' = "retry" /\ op' = 1 /\ st' = 1 /\ req' = 0 /\ failedNow' = FALSE
  /\ A' = Empty /\ B' = Empty /\ objs' = 0 /\ pendVM' = 0
  /\ vm' = vm \ {b[1] : b \in blocks} /\ hdr' = hdr \ {b[2] : b \in blocks} /\ blocks' = {}
  /\ results' = <<>> /\ snap' = <<<<>>, <<>>, {}>>
  /\ UNCHANGED <<prog, fail, corrupt>>

Finish == phase = "retry" /\ op = MaxOps + 1 /\ phase' = "done" /\ UNCHANGED <<prog, fail, op, st, req, failedNow, A, B, objs, pendVM, vm, hdr, blocks, results, corrupt, snap>>

Next == Step \/ ResetAndRetry \/ Finish
Spec == Init /\ [][Next]_vars

(* ---------------- properties ---------------- *)
NoCorruption == ~corrupt
AtBoundary == st = 1
Consistent == AtBoundary => /\ Range(A.items) = Range(B.items) /\ Len(A.items) = Len(B.items)
                            /\ Len(A.items) <= A.cap /\ Len(B.items) <= B.cap
(* a transaction that reported an error left the abstract contents as they were; one that reported Ok applied its effect *)
Atomic == [][(Len(results') = Len(results) + 1 /\ phase' = phase) =>
               IF results'[Len(results')] = "Err" THEN Abs' = Baseline
               ELSE IF prog[op] = "S" THEN A'.items = Append(Baseline[1], op) /\ B'.items = Append(Baseline[2], op)
                    ELSE Cardinality(blocks') = Cardinality(Baseline[3]) + 1]_vars
NoLeak == (phase = "retry" /\ op = 1 /\ st = 1) => (vm = {} /\ hdr = {})
NoLeakAtEnd == phase = "done" => /\ vm = {b[1] : b \in blocks} /\ hdr = {b[2] : b \in blocks}
CleanItems == SelectSeq([i \in 1..MaxOps |-> i], LAMBDA i : prog[i] = "S")
(* retry in place: when the program is through, everything is as in the failure-free run - without any reset *)
InPlaceCompletes == (InPlace /\ phase = "run" /\ op = MaxOps + 1) =>
                      /\ A.items = CleanItems /\ B.items = CleanItems
                      /\ Cardinality(blocks) = Cardinality({i \in 1..MaxOps : prog[i] = "B"})
                      /\ vm = {b[1] : b \in blocks} /\ hdr = {b[2] : b \in blocks}
RetryEqualsClean == phase = "done" => /\ A.items = CleanItems /\ B.items = CleanItems
                                      /\ Cardinality(blocks) = Cardinality({i \in 1..MaxOps : prog[i] = "B"})
                                      /\ results = [i \in 1..MaxOps |-> "Ok"]
=============================================================================
