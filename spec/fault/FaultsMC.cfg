SPECIFICATION Spec
CONSTANTS
  MaxOps = 4
  MaxFail = 2
  Discipline = "ReserveFirst"
  RollBack = TRUE
INVARIANTS NoCorruption Consistent NoLeak NoLeakAtEnd RetryEqualsClean
PROPERTY Atomic
