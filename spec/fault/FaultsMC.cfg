SPECIFICATION Spec
CONSTANTS
  MaxOps = 4
  MaxFail = 2
  Discipline = "ReserveFirst"
  RollBack = TRUE
  InPlace = FALSE
INVARIANTS NoCorruption Consistent NoLeak NoLeakAtEnd RetryEqualsClean InPlaceCompletes
PROPERTY Atomic
