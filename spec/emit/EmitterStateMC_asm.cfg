SPECIFICATION Spec
CONSTANTS
  Kinds <- KindsA
  Arch = "x64"
  Loggers = {1, 2}
  Handlers = {1, 3}
  Classes = {"G", "V", "B", "Z"}
  MaxOps = 14
  MaxNodes = 0
  Bug = "none"
  FixFinalize = FALSE
  Helpers = {"lock", "k"}
  EncOpts = {"size"}
  DiagOpts = {"va", "vi"}
  MiscKinds = {"C", "F", "L"}
  UseCm = TRUE
  Known <- KnownBoth
INVARIANTS Refines ContractType ForcedExact CachedPointersExact LogCommentsExact
VIEW View
