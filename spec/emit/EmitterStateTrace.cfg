SPECIFICATION TSpec
CONSTANTS
  Known = {}
INVARIANT StateOK
CONSTRAINT Progress
POSTCONDITION TraceAccepted
