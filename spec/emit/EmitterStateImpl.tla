-------------------------- MODULE EmitterStateImpl --------------------------
(* X08 - the algorithm of asmjit/core/emitter.cpp, codeholder.cpp (attach / detach / settings propagation),        *)
(* assembler.cpp, builder.cpp and the _emit() prologue / epilogue of x86assembler.cpp / a64assembler.cpp,            *)
(* TRANSCRIBED: the members _logger, _error_handler, the emitter flags kAttached / kLogComments / kOwnLogger /       *)
(* kOwnErrorHandler, the kReserved bit of _forced_inst_options maintained by BaseEmitter_updateForcedOptions(),      *)
(* and the fast / slow path selection of _emit().  TLC checks that EVERY step of this algorithm is a step of the      *)
(* contract EmitterState.tla (Refines) and the structural invariants the fast path relies on (ForcedExact,          *)
(* CachedPointersExact, LogCommentsExact).  `Bug` switches in one transcription slip at a time: the negative        *)
(* controls, each of which must be rejected.  The histories of this model are exported and replayed on the real      *)
(* code (harness/emitstate.cpp).                                                                                     *)
EXTENDS Naturals, Sequences, FiniteSets, TLC, SequencesExt

CONSTANTS Kinds,        \* <<"asm", "bld", ...>>
          Arch,         \* "x64" | "a64"
          Loggers,      \* subset of 1..2 used by the model
          Handlers,     \* subset of 1..3
          Classes,      \* request classes emitted by the model
          MaxOps,       \* history bound
          MaxNodes,     \* bound on recorded nodes per Builder
          Bug,          \* "none" or the name of a slip
          FixFinalize,  \* TRUE: the proposed repairs are applied: the serialising assembler of finalize() is given the Builder's
                        \* logger / handler in effect; emit_op_array() with too many operands resets the state and reports
          UseEmitN,     \* emit_op_array(op_count > 6) is part of the model
          Helpers,      \* x86 option helpers used by the model: subset of {"lock", "k"}
          EncOpts,      \* encoding options toggled by the model: subset of {"size"}
          DiagOpts,     \* diagnostic options toggled by the model: subset of {"va", "vi"}
          MiscKinds,    \* subset of {"C", "F", "L"}
          UseCm         \* inline comments
CONSTANT Known

C == INSTANCE EmitterState

VARIABLES h,      \* holder [in, lg, eh]
          es,      \* emitters: [code, lgr, ehr, ownL, ownH, logC, frc, dg, en, op, xr, cm, nodes]
          cs,     \* contract state (C!InitState ... C!CNext)
          last,   \* the event produced by the last step
          ok,     \* was the last step a step of the contract:  C!COk(cs, last')
          hist    \* calls so far

vars == <<h, es, cs, last, ok, hist>>
E == 1 .. Len(Kinds)
IsAsm(i) == Kinds[i] = "asm"

Fresh == [code |-> FALSE, lgr |-> 0, ehr |-> 0, ownL |-> FALSE, ownH |-> FALSE, logC |-> FALSE, frc |-> TRUE,
          dg |-> {}, en |-> {}, op |-> {}, xr |-> 0, cm |-> 0, nodes |-> <<>>]

(* ---- emitter.cpp BaseEmitter_updateForcedOptions() ---- *)
UpdateForced(i, m) ==
  LET vaKey == IF Bug = "swapdiag" THEN "vi" ELSE "va"
      viKey == IF Bug = "swapdiag" THEN "va" ELSE "vi"
      emitComments == IF IsAsm(i) THEN m.code /\ m.lgr # 0 ELSE m.code
      hasDiag == IF IsAsm(i) THEN vaKey \in m.dg ELSE viKey \in m.dg
  IN [m EXCEPT !.logC = emitComments,
               !.frc = (~m.code) \/ (m.lgr # 0) \/ hasDiag]

(* ---- emitter.cpp on_settings_updated() ---- *)
SettingsUpdated(i, m, hh) ==
  LET m1 == IF m.ownL /\ Bug # "overrideown" THEN m ELSE [m EXCEPT !.lgr = hh.lg]
      m2 == IF m1.ownH THEN m1 ELSE [m1 EXCEPT !.ehr = hh.eh]
  IN UpdateForced(i, m2)

(* ---- emitter.cpp on_detach() + codeholder.cpp detach(): _code = nullptr ---- *)
OnDetach(i, m) ==
  [m EXCEPT !.lgr = IF m.ownL \/ Bug = "stalelogger" THEN m.lgr ELSE 0,
            !.ehr = IF m.ownH THEN m.ehr ELSE 0,
            !.logC = FALSE, !.frc = TRUE,
            !.op = {}, !.xr = 0, !.cm = 0, !.nodes = <<>>, !.code = FALSE]

ResetState(m) == [m EXCEPT !.op = {}, !.xr = 0, !.cm = 0]

(* ---- projection of the implementation state (what the harness reads through the public getters) ---- *)
ProjEm(m) == [att |-> m.code, lg |-> m.lgr, ol |-> m.ownL, eh |-> m.ehr, oh |-> m.ownH, hl |-> (m.lgr # 0), hh |-> (m.ehr # 0),
              dg |-> SetToSeq(m.dg), en |-> SetToSeq(m.en), op |-> SetToSeq(m.op), xr |-> m.xr, cm |-> m.cm]
ProjLo == [fl |-> <<>>, ic |-> 0, il |-> 0, im |-> 0, pd |-> 0]
Proj(hh, ee) == [h |-> hh, em |-> [i \in E |-> ProjEm(ee[i])], lo |-> <<ProjLo, ProjLo>>]

Quiet == [r |-> "Ok", hc |-> <<>>, th |-> 0, ln |-> <<0, 0>>]
LinesTo(l, n) == <<IF l = 1 THEN n ELSE 0, IF l = 2 THEN n ELSE 0>>

(* report_error(): the cached _error_handler, once; a throwing handler (3) leaves by exception *)
Report(i, m, cls) ==
  LET hs == IF m.ehr = 0 THEN <<>> ELSE <<[h |-> m.ehr, c |-> cls, eq |-> TRUE, o |-> i, cl |-> (m.op = {} /\ m.xr = 0 /\ m.cm = 0), msg |-> TRUE]>>
      hs2 == IF Bug = "dblreport" /\ m.ownH /\ m.code /\ h.eh # 0 /\ h.eh # m.ehr
               THEN hs \o <<[h |-> h.eh, c |-> cls, eq |-> TRUE, o |-> i, cl |-> TRUE, msg |-> TRUE]>> ELSE hs
  IN [r |-> IF m.ehr = 3 THEN "Thrown" ELSE cls, hc |-> hs2, th |-> IF m.ehr = 3 THEN 1 ELSE 0]

Step(op, ev, h2, e2) ==
  LET full == ev @@ [P |-> Proj(h2, e2)] IN
  /\ Len(hist) < MaxOps
  /\ hist' = Append(hist, op)
  /\ h' = h2 /\ es' = e2
  /\ last' = full
  /\ ok' = C!COk(cs, full)
  /\ cs' = C!CNext(cs, full)

(* ============================================================================================================ *)
(* codeholder.cpp                                                                                                 *)
(* ============================================================================================================ *)
Init ==
  Step(<<"Init">>, [e |-> "Init"] @@ [Quiet EXCEPT !.r = IF h.in THEN "Err" ELSE "Ok"], [h EXCEPT !.in = TRUE], es)

ResetH ==
  Step(<<"ResetH">>, [e |-> "ResetH"] @@ Quiet,
       IF h.in THEN [in |-> FALSE, lg |-> 0, eh |-> 0] ELSE h,
       IF h.in THEN [i \in E |-> IF es[i].code THEN OnDetach(i, es[i]) ELSE es[i]] ELSE es)

Reinit ==
  Step(<<"Reinit">>, [e |-> "Reinit"] @@ [Quiet EXCEPT !.r = IF h.in THEN "Ok" ELSE "NotInitialized"], h,
       IF h.in THEN [i \in E |-> IF es[i].code THEN [ResetState(es[i]) EXCEPT !.nodes = <<>>] ELSE es[i]] ELSE es)

Attach(i) ==
  LET m == es[i] IN
  IF ~h.in THEN Step(<<"Attach", i>>, [e |-> "Attach", em |-> i] @@ [Quiet EXCEPT !.r = "Err"], h, es)
  ELSE IF m.code THEN Step(<<"Attach", i>>, [e |-> "Attach", em |-> i] @@ Quiet, h, es)
  ELSE Step(<<"Attach", i>>, [e |-> "Attach", em |-> i] @@ Quiet, h,
            [es EXCEPT ![i] = SettingsUpdated(i, [m EXCEPT !.code = TRUE], h)])

Detach(i) ==
  LET m == es[i] IN
  IF ~m.code THEN Step(<<"Detach", i>>, [e |-> "Detach", em |-> i] @@ [Quiet EXCEPT !.r = "Err"], h, es)
  ELSE Step(<<"Detach", i>>, [e |-> "Detach", em |-> i] @@ Quiet, h, [es EXCEPT ![i] = OnDetach(i, m)])

(* set_logger / set_error_handler: store, then CodeHolder_on_settings_updated() walks the attached emitters *)
HSetLogger(l) ==
  LET h2 == [h EXCEPT !.lg = l] IN
  Step(<<"HSetLogger", l>>, [e |-> "HSetLogger", l |-> l] @@ Quiet, h2,
       [i \in E |-> IF es[i].code THEN SettingsUpdated(i, es[i], h2) ELSE es[i]])
HSetHandler(x) ==
  LET h2 == [h EXCEPT !.eh = x] IN
  Step(<<"HSetHandler", x>>, [e |-> "HSetHandler", h |-> x] @@ Quiet, h2,
       IF Bug = "ehpropagate" THEN es ELSE [i \in E |-> IF es[i].code THEN SettingsUpdated(i, es[i], h2) ELSE es[i]])

(* ============================================================================================================ *)
(* emitter.cpp setters                                                                                            *)
(* ============================================================================================================ *)
ESetLogger(i, l) ==
  LET m == es[i]
      m1 == IF l # 0 THEN [m EXCEPT !.lgr = l, !.ownL = TRUE]
            ELSE [m EXCEPT !.lgr = IF m.code /\ Bug # "nofallback" THEN h.lg ELSE 0, !.ownL = FALSE]
      m2 == IF Bug = "forcedstale" THEN m1 ELSE UpdateForced(i, m1)
  IN Step(<<"ESetLogger", i, l>>, [e |-> "ESetLogger", em |-> i, l |-> l] @@ Quiet, h, [es EXCEPT ![i] = m2])

ESetHandler(i, x) ==
  LET m == es[i]
      m1 == IF x # 0 THEN [m EXCEPT !.ehr = x, !.ownH = TRUE]
            ELSE [m EXCEPT !.ehr = IF m.code THEN h.eh ELSE 0, !.ownH = FALSE]
  IN Step(<<"ESetHandler", i, x>>, [e |-> "ESetHandler", em |-> i, h |-> x] @@ Quiet, h, [es EXCEPT ![i] = m1])

AddDiag(i, o) ==
  Step(<<"AddDiag", i, o>>, [e |-> "AddDiag", em |-> i, o |-> <<o>>] @@ Quiet, h,
       [es EXCEPT ![i] = UpdateForced(i, [@ EXCEPT !.dg = @ \cup {o}])])
ClearDiag(i, o) ==
  Step(<<"ClearDiag", i, o>>, [e |-> "ClearDiag", em |-> i, o |-> <<o>>] @@ Quiet, h,
       [es EXCEPT ![i] = UpdateForced(i, [@ EXCEPT !.dg = @ \ {o}])])
AddEnc(i, o) ==
  Step(<<"AddEnc", i, o>>, [e |-> "AddEnc", em |-> i, o |-> <<o>>] @@ Quiet, h, [es EXCEPT ![i].en = @ \cup {o}])
ClearEnc(i, o) ==
  Step(<<"ClearEnc", i, o>>, [e |-> "ClearEnc", em |-> i, o |-> <<o>>] @@ Quiet, h, [es EXCEPT ![i].en = @ \ {o}])

Helper(i, name) ==
  Step(<<"Helper", i, name>>, [e |-> "Helper", em |-> i, name |-> name] @@ Quiet, h,
       [es EXCEPT ![i] = IF name = "k" THEN [@ EXCEPT !.xr = 1] ELSE [@ EXCEPT !.op = @ \cup {name}]])
SetCm(i, v) ==
  Step(<<"SetCm", i, v>>, [e |-> "SetCm", em |-> i, v |-> v] @@ Quiet, h, [es EXCEPT ![i].cm = v])
ResetStateOp(i) ==
  Step(<<"ResetState", i>>, [e |-> "ResetState", em |-> i] @@ Quiet, h, [es EXCEPT ![i] = ResetState(@)])

Recreate(i) ==          \* ~BaseEmitter(): kDestroyed, _code->detach(this) without on_detach(); then a new object
  Step(<<"Recreate", i>>, [e |-> "Recreate", em |-> i] @@ Quiet, h, [es EXCEPT ![i] = Fresh])

(* ============================================================================================================ *)
(* _emit()                                                                                                        *)
(* ============================================================================================================ *)
PendingOf(m) == (m.op \cap {"lock", "rep"}) \cup (IF m.xr = 1 THEN {"xr"} ELSE {}) \cup (IF m.cm = 1 THEN {"cm"} ELSE {})
EvEmit(i, cls) == [e |-> "Emit", em |-> i, cls |-> cls, vc |-> 0, nb |-> 0, ap |-> <<>>, apx |-> <<>>,
                   ind |-> 0, col |-> 0, tl |-> 0, sz |-> 0] @@ Quiet

(* x86assembler.cpp / a64assembler.cpp.  `grow`: fewer than 16 (4) bytes are left in the buffer, which sets the      *)
(* kReserved bit of `options` for this instruction; lock / rep also enter the special-handling branch (x86).         *)
EmitAsm(i, cls, grow) ==
  LET m == es[i]
      reserved == m.frc \/ grow
      special == reserved \/ (m.op \cap {"lock", "rep"}) # {}
      validates == special /\ m.code /\ "va" \in m.dg
      refusedV == validates /\ cls = "V"
      refused == refusedV \/ cls = "B"
      logged == reserved /\ m.lgr # 0
      kept == IF Bug = "keepstate" THEN m ELSE ResetState(m)
      opx == <<"Emit", i, cls, grow>>
  IN
  IF special /\ ~m.code
    THEN Step(opx, Report(i, kept, "NotInitialized") @@ EvEmit(i, cls), h, [es EXCEPT ![i] = kept])
  ELSE IF refused
    THEN Step(opx, Report(i, ResetState(m), "Err") @@ [vc |-> IF validates THEN 1 ELSE 0] @@ EvEmit(i, cls), h,
              [es EXCEPT ![i] = ResetState(m)])
  ELSE Step(opx, [vc |-> IF validates THEN 1 ELSE 0, nb |-> 2, ln |-> LinesTo(m.lgr, IF logged THEN 1 ELSE 0),
                  apx |-> SetToSeq({"lock", "rep", "xr"} \cup (IF logged THEN {"cm"} ELSE {})),
                  ap |-> SetToSeq(PendingOf(m) \cap ({"lock", "rep", "xr"} \cup (IF logged THEN {"cm"} ELSE {}))),
                  sz |-> IF "size" \in m.en THEN 5 ELSE 7] @@ EvEmit(i, cls), h,
            [es EXCEPT ![i] = ResetState(m)])

(* builder.cpp BaseBuilder::_emit() *)
EmitBld(i, cls) ==
  LET m == es[i]
      reserved == m.frc
      validates == reserved /\ m.code /\ "vi" \in m.dg
      refused == validates /\ cls \in {"V", "B"}
      opx == <<"Emit", i, cls, FALSE>>
      kept == IF Bug = "keepstate" THEN m ELSE ResetState(m)
  IN
  IF reserved /\ ~m.code
    THEN Step(opx, Report(i, kept, "NotInitialized") @@ EvEmit(i, cls), h, [es EXCEPT ![i] = kept])
  ELSE IF refused
    THEN Step(opx, Report(i, ResetState(m), "Err") @@ [vc |-> 1] @@ EvEmit(i, cls), h, [es EXCEPT ![i] = ResetState(m)])
  ELSE /\ Len(m.nodes) < MaxNodes
       /\ Step(opx, [vc |-> IF validates THEN 1 ELSE 0, nb |-> 1,
                     apx |-> SetToSeq({"lock", "rep", "xr", "cm"}), ap |-> SetToSeq(PendingOf(m))] @@ EvEmit(i, cls), h,
               [es EXCEPT ![i] = [ResetState(m) EXCEPT !.nodes = Append(@, cls)]])

Emit(i, cls, grow) == IF IsAsm(i) THEN EmitAsm(i, cls, grow) ELSE (~grow /\ EmitBld(i, cls))

(* emitter.cpp BaseEmitter::_emit_op_array(): `default: return make_error(Error::kInvalidArgument);` *)
EmitN(i) ==
  LET m == es[i] IN
  IF FixFinalize
    THEN Step(<<"EmitN", i>>, Report(i, ResetState(m), "Err") @@ [e |-> "EmitN", em |-> i] @@ Quiet, h, [es EXCEPT ![i] = ResetState(m)])
    ELSE Step(<<"EmitN", i>>, [e |-> "EmitN", em |-> i, r |-> "Err"] @@ Quiet, h, es)

(* ---- comment(): assembler.cpp / builder.cpp; commentf(): emitter.cpp ---- *)
EvMisc(i, k) == [e |-> "Misc", em |-> i, k |-> k, tx |-> TRUE, ind |-> 0] @@ Quiet
Comment(i, k) ==                 \* k = "C" comment(), "F" commentf()
  LET m == es[i]
      opx == <<"Misc", i, k>> IN
  IF IsAsm(i) \/ k = "F"
    THEN IF ~m.logC
           THEN IF ~m.code THEN Step(opx, Report(i, m, "NotInitialized") @@ EvMisc(i, k), h, es)
                ELSE Step(opx, EvMisc(i, k), h, es)
           ELSE IF IsAsm(i) THEN Step(opx, [ln |-> LinesTo(m.lgr, 1)] @@ EvMisc(i, k), h, es)
                ELSE Len(m.nodes) < MaxNodes /\ Step(opx, EvMisc(i, k), h, [es EXCEPT ![i].nodes = Append(@, k)])
    ELSE IF ~m.code THEN Step(opx, [r |-> "NotInitialized"] @@ EvMisc(i, k), h, es)      \* make_error() only
         ELSE Len(m.nodes) < MaxNodes /\ Step(opx, EvMisc(i, k), h, [es EXCEPT ![i].nodes = Append(@, k)])

(* ---- bind(new_label()): assembler.cpp logs the label with the inline comment and resets the comment ---- *)
Bind(i) ==
  LET m == es[i]
      opx == <<"Misc", i, "L">> IN
  IF IsAsm(i)
    THEN IF ~m.code THEN Step(opx, Report(i, m, "NotInitialized") @@ EvMisc(i, "L"), h, es)
         ELSE Step(opx, [ln |-> LinesTo(m.lgr, IF m.lgr # 0 THEN 1 ELSE 0)] @@ EvMisc(i, "L"), h, [es EXCEPT ![i].cm = 0])
    ELSE IF ~m.code THEN Step(opx, [r |-> "NotInitialized"] @@ EvMisc(i, "L"), h, es)
         ELSE Len(m.nodes) < MaxNodes /\ Step(opx, EvMisc(i, "L"), h, [es EXCEPT ![i].nodes = Append(@, "L")])

ReportOp(i) ==
  Step(<<"Report", i>>, Report(i, es[i], "Err") @@ [e |-> "Report", em |-> i] @@ Quiet, h, es)

(* ---- finalize(): x86builder.cpp / x86compiler.cpp: run_passes(); Assembler a(_code); a.add_encoding_options(...);     *)
(* a.add_diagnostic_options(diagnostic_options()); serialize_to(&a).  `a` is a NEW emitter attached to the holder: it     *)
(* inherits the HOLDER's logger and handler.                                                                           *)
RECURSIVE Serialize(_, _, _)
Serialize(nodes, va, k) ==        \* number of nodes emitted before the first refusal, and whether one was refused
  IF k > Len(nodes) THEN [n |-> Len(nodes), bad |-> FALSE]
  ELSE IF nodes[k] = "B" \/ (nodes[k] = "V" /\ va) THEN [n |-> k - 1, bad |-> TRUE]
  ELSE Serialize(nodes, va, k + 1)

Finalize(i) ==
  LET m == es[i]
      opx == <<"Finalize", i>>
      ev0 == [e |-> "Finalize", em |-> i] @@ Quiet IN
  IF IsAsm(i) THEN Step(opx, ev0, h, es)
  ELSE IF ~m.code THEN Step(opx, [r |-> "NotInitialized"] @@ ev0, h, es)
  ELSE LET alg == IF FixFinalize THEN m.lgr ELSE h.lg
           aeh == IF FixFinalize THEN m.ehr ELSE h.eh
           sr == Serialize(m.nodes, "va" \in m.dg, 1)
           lines == LinesTo(alg, IF alg # 0 THEN sr.n + 1 ELSE 0)          \* + the ".section" line
       IN IF sr.bad
            THEN Step(opx, [r |-> IF aeh = 3 THEN "Thrown" ELSE "Err",
                            hc |-> IF aeh = 0 THEN <<>> ELSE <<[h |-> aeh, c |-> "Err", eq |-> TRUE, o |-> 0, cl |-> TRUE, msg |-> TRUE]>>,
                            th |-> IF aeh = 3 THEN 1 ELSE 0, ln |-> lines] @@ ev0, h, es)
            ELSE Step(opx, [ln |-> lines] @@ ev0, h, es)

(* ============================================================================================================ *)
Next ==
  \/ Init \/ ResetH \/ Reinit
  \/ \E i \in E : Attach(i) \/ Detach(i) \/ Recreate(i) \/ Finalize(i) \/ ReportOp(i) \/ ResetStateOp(i)
  \/ \E i \in E : "L" \in MiscKinds /\ Bind(i)
  \/ \E l \in Loggers \cup {0} : HSetLogger(l)
  \/ \E x \in Handlers \cup {0} : HSetHandler(x)
  \/ \E i \in E, l \in Loggers \cup {0} : ESetLogger(i, l)
  \/ \E i \in E, x \in Handlers \cup {0} : ESetHandler(i, x)
  \/ \E i \in E, o \in DiagOpts : AddDiag(i, o) \/ ClearDiag(i, o)
  \/ \E i \in E, o \in EncOpts : AddEnc(i, o) \/ ClearEnc(i, o)
  \/ \E i \in E, n \in Helpers : Helper(i, n)
  \/ \E i \in E : UseCm /\ SetCm(i, 1)
  \/ \E i \in E, c \in Classes, g \in BOOLEAN : Emit(i, c, g)
  \/ \E i \in E, k \in MiscKinds \ {"L"} : Comment(i, k)
  \/ \E i \in E : UseEmitN /\ EmitN(i)

InitS == /\ h = [in |-> FALSE, lg |-> 0, eh |-> 0]
         /\ es = [i \in E |-> Fresh]
         /\ cs = C!InitState(Kinds, Arch)
         /\ last = [e |-> "None"]
         /\ ok = TRUE
         /\ hist = <<>>
Spec == InitS /\ [][Next]_vars

(* ---- every step of the algorithm is a step of the contract ---- *)
Refines == ok
ContractType == C!TypeOK(cs)

(* ---- what the fast path relies on (emitter.cpp: "The reserved option tells emitter that there may be either a      *)
(* border case (CodeHolder not attached, for example) or that logging or validation is required.")                  *)
ForcedExact ==
  \A i \in E : es[i].frc = ((~es[i].code) \/ es[i].lgr # 0 \/ (IF IsAsm(i) THEN "va" \in es[i].dg ELSE "vi" \in es[i].dg))
CachedPointersExact ==
  \A i \in E : /\ es[i].lgr = C!EffL(cs, i) /\ es[i].ehr = C!EffH(cs, i)
               /\ es[i].ownL = (cs.em[i].ol # 0) /\ es[i].ownH = (cs.em[i].oh # 0)
LogCommentsExact ==
  \A i \in E : es[i].logC = (es[i].code /\ (IsAsm(i) => es[i].lgr # 0))

View == <<h, es, cs, ok>>
Export == PrintT(<<"BEH", hist>>)
ExportInv == (hist # <<>>) => Export                   \* exhaustive runs: the (shortest) history to every distinct state
ExportEnd == (Len(hist) = MaxOps) => Export            \* simulation runs: the complete behaviour
=============================================================================
