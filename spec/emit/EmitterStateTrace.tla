-------------------------- MODULE EmitterStateTrace --------------------------
(* X08 trace validation: a trace recorded by harness/emitstate.cpp from real CodeHolder / emitters / loggers / error  *)
(* handlers is accepted iff every call, with the outputs it reported and the projection read back through the public  *)
(* getters, is a step of the contract EmitterState.tla.                                                               *)
EXTENDS EmitterState, TraceLib

VARIABLES l,      \* next line of the trace
          st      \* contract state

tvars == <<l, st>>
T == TraceLog
Ev == T[l]

TInit == l = 1 /\ st = InitState(<<"asm">>, "x64") /\ InitProgress

(* a new execution: fresh holder, emitters, loggers and handlers *)
TReset == /\ l <= Len(T) /\ Ev.e = "Reset"
          /\ st' = InitState(Ev.kinds, Ev.arch)
          /\ l' = l + 1

TCall == /\ l <= Len(T) /\ Ev.e # "Reset"
         /\ COk(st, Ev)
         /\ st' = CNext(st, Ev)
         /\ l' = l + 1

TNext == TReset \/ TCall
TSpec == TInit /\ [][TNext]_tvars

StateOK == TypeOK(st)
Progress == NoteProgress(l)
TraceAccepted == Accepted(Len(T))
=============================================================================
