---------------------------- MODULE EmitterState ----------------------------
(* X08 - contract of the OBSERVABLE BEHAVIOUR OF EMITTER SETTINGS.                                                *)
(*                                                                                                                *)
(* One CodeHolder, N emitters (x86::Assembler / x86::Builder / x86::Compiler, or a64::Assembler), two Loggers      *)
(* (1 = A, 2 = B; 0 = none) and three ErrorHandlers (1, 2 = recording, 3 = throwing; 0 = none).                    *)
(*                                                                                                                *)
(* The contract is written in FUNCTIONAL style over a state record `s` and an event record `ev`:                  *)
(*      COk(s, ev)    is the call `ev` with the OUTPUTS it reported allowed in state s ?                          *)
(*      CNext(s, ev)  the state after it.                                                                         *)
(* `ev` carries the call (ev.e, arguments), what the code reported (result class r, handler notifications hc,      *)
(* exception th, lines appended to each logger ln, validator invocations vc, ...) and the projection ev.P of all   *)
(* real objects after the call.  Where the documentation leaves the implementation free, CNext follows ev.P and    *)
(* COk restricts it to the documented alternatives.  The same two operators judge (1) the transcribed algorithm    *)
(* (EmitterStateImpl.tla, model checked: every step of the algorithm is a contract step) and (2) traces recorded   *)
(* from the real code (EmitterStateTrace.tla).                                                                     *)
(*                                                                                                                *)
(* s.h     = [in, lg, eh]                  holder: initialised?, logger id, handler id                             *)
(* s.em[i] = [att, ol, oh, dg, en, op, xr, cm, ns]                                                                 *)
(*             att  attached to the holder          ol / oh  OWN logger / handler id (0 = none: inherits)          *)
(*             dg   diagnostic options (set of "va" kValidateAssembler, "vi" kValidateIntermediate, "ra" ...)      *)
(*             en   encoding options   (set of "size", "align", "jumps")                                           *)
(*             op, xr, cm   pending one-shot state: instruction options, extra register, inline comment            *)
(*             ns   Builder / Compiler: classes of the nodes recorded and not yet dropped                          *)
(*             fz   Builder / Compiler: finalize() ran on these nodes (a second run binds their labels again)      *)
(* s.lo[l] = [fl, ic, il, im, pd]          logger l: format flags, indentation code/label/comment, line padding    *)
(* s.kinds = <<"asm" | "bld" | "cmp", ...>>     s.arch = "x64" | "a64"                                            *)
EXTENDS Naturals, Sequences, FiniteSets

CONSTANT Known     \* keys of known findings (KNOWN_FINDINGS.txt); a listed key relaxes exactly the clause that names it

KFinEh == "finalize:own-error-handler-bypassed"
KFinLg == "finalize:own-logger-bypassed"
KArrN == "emit_op_array:more-than-6-operands:unreported"

SetOf(q) == {q[x] : x \in DOMAIN q}
Max(a, b) == IF a > b THEN a ELSE b

Kind(s, i) == s.kinds[i]
IsAsm(s, i) == Kind(s, i) = "asm"

(* ------------------------------------------------------------------------------------------------------------ *)
(* emitter.h  logger(): "The returned logger is either the emitter's own logger or it's logger used by            *)
(*            CodeHolder this emitter is attached to."   has_own_logger(): "Own logger means that it overrides    *)
(*            the possible logger that may be used by CodeHolder this emitter is attached to."                    *)
(* errorhandler.h: "ErrorHandler can be attached to CodeHolder or BaseEmitter, which has a priority."             *)
(* ------------------------------------------------------------------------------------------------------------ *)
EffL(s, i) == LET m == s.em[i] IN IF m.ol # 0 THEN m.ol ELSE IF m.att THEN s.h.lg ELSE 0
EffH(s, i) == LET m == s.em[i] IN IF m.oh # 0 THEN m.oh ELSE IF m.att THEN s.h.eh ELSE 0

(* emitter.h DiagnosticOptions: kValidateAssembler "Perform strict validation in BaseAssembler::emit()            *)
(* implementations"; kValidateIntermediate "Perform strict validation in BaseBuilder::emit() and                  *)
(* BaseCompiler::emit() implementations".                                                                        *)
Validates(s, i) == IF IsAsm(s, i) THEN "va" \in s.em[i].dg ELSE "vi" \in s.em[i].dg

FreshEm == [att |-> FALSE, ol |-> 0, oh |-> 0, dg |-> {}, en |-> {}, op |-> {}, xr |-> 0, cm |-> 0, ns |-> <<>>, fz |-> FALSE]
FreshLo == [fl |-> {}, ic |-> 0, il |-> 0, im |-> 0, pd |-> 0]

InitState(kinds, arch) ==
  [h |-> [in |-> FALSE, lg |-> 0, eh |-> 0],
   em |-> [i \in 1 .. Len(kinds) |-> FreshEm],
   lo |-> <<FreshLo, FreshLo>>,
   kinds |-> kinds, arch |-> arch]

Consume(m) == [m EXCEPT !.op = {}, !.xr = 0, !.cm = 0]
DropNodes(m) == [m EXCEPT !.ns = <<>>, !.fz = FALSE]

(* ------------------------------------------------------------------------------------------------------------ *)
(* The projection every event carries and what it must equal.                                                    *)
(* ------------------------------------------------------------------------------------------------------------ *)
EmMatches(s, i, p) ==
  LET m == s.em[i] IN
  /\ p.att = m.att
  /\ p.lg = EffL(s, i) /\ p.ol = (m.ol # 0) /\ p.hl = (EffL(s, i) # 0)         \* logger(), has_own_logger(), has_logger()
  /\ p.eh = EffH(s, i) /\ p.oh = (m.oh # 0) /\ p.hh = (EffH(s, i) # 0)         \* error_handler(), has_own_.., has_error_handler()
  /\ SetOf(p.dg) = m.dg /\ SetOf(p.en) = m.en
  /\ SetOf(p.op) = m.op /\ p.xr = m.xr /\ p.cm = m.cm

LoMatches(s, l, p) ==
  LET g == s.lo[l] IN SetOf(p.fl) = g.fl /\ p.ic = g.ic /\ p.il = g.il /\ p.im = g.im /\ p.pd = g.pd

Matches(s, P) ==
  /\ P.h.in = s.h.in /\ P.h.lg = s.h.lg /\ P.h.eh = s.h.eh
  /\ Len(P.em) = Len(s.kinds)
  /\ \A i \in 1 .. Len(s.kinds) : EmMatches(s, i, P.em[i])
  /\ \A l \in 1 .. 2 : LoMatches(s, l, P.lo[l])

(* ------------------------------------------------------------------------------------------------------------ *)
(* Reporting discipline.                                                                                          *)
(*   ev.r   "Ok" | "NotInitialized" | "Err" (any other code) | "Thrown" (the call was left by an exception)        *)
(*   ev.hc  notifications in order: [h handler id, c class of the code, eq the code is the one returned,           *)
(*          o index of the emitter passed as origin (0 = some other emitter), cl one-shot state of the origin      *)
(*          empty at the time of the notification]                                                                 *)
(*   ev.th  1 iff an exception left the call                                                                       *)
(* emitter.h report_error(): "If the emitter has ErrorHandler attached, it calls its handle_error() member         *)
(* function first, and then returns the error. The handle_error() function may throw. if the emitter doesn't       *)
(* have ErrorHandler, the error is simply returned."   errorhandler.h: "Error handler is called after an error     *)
(* happened and before it's propagated to the caller."  "Asmjit always puts BaseEmitter to a consistent state       *)
(* before calling handle_error() so longjmp() can be used without any issues".                                      *)
(* ------------------------------------------------------------------------------------------------------------ *)
Failed(ev) == ev.r # "Ok"
ErrClass(ev) == IF ev.r = "Thrown" THEN (IF Len(ev.hc) >= 1 THEN ev.hc[Len(ev.hc)].c ELSE "Err") ELSE ev.r

NoHandler(ev) == ev.hc = <<>> /\ ev.th = 0 /\ ev.r # "Thrown"

ToldOnce(ev, h) ==
  /\ Failed(ev)
  /\ Len(ev.hc) = 1
  /\ ev.hc[1].h = h /\ ev.hc[1].eq
  /\ ev.th = (IF h = 3 THEN 1 ELSE 0)
  /\ (ev.r = "Thrown") = (h = 3)

Told(ev, h) == IF h = 0 THEN NoHandler(ev) /\ Failed(ev) ELSE ToldOnce(ev, h)     \* the call failed and h (if any) knows
ToldAtMost(ev, h) == (NoHandler(ev) /\ Failed(ev)) \/ (h # 0 /\ ToldOnce(ev, h))
Quiet(ev) == ev.r = "Ok" /\ NoHandler(ev)

(* lines appended to the loggers during the call: ev.ln = <<lines to A, lines to B>> *)
NoLines(ev) == ev.ln[1] = 0 /\ ev.ln[2] = 0
LinesOnlyTo(ev, l, lo, hi) ==
  \A j \in 1 .. 2 : IF j = l THEN ev.ln[j] >= lo /\ ev.ln[j] <= hi ELSE ev.ln[j] = 0
Lots == 1000000

(* one-shot state after a call that is not an instruction: kept, or consumed component-wise (never invented)      *)
KeptOrCleared(m, p) ==
  /\ SetOf(p.op) \in {m.op, {}} /\ p.xr \in {m.xr, 0} /\ p.cm \in {m.cm, 0}
FollowOneShot(m, p) == [m EXCEPT !.op = SetOf(p.op), !.xr = p.xr, !.cm = p.cm]

Pending(m) == (m.op \cap {"lock", "rep"}) \cup (IF m.xr = 1 THEN {"xr"} ELSE {}) \cup (IF m.cm = 1 THEN {"cm"} ELSE {})

(* ============================================================================================================ *)
(*  HOLDER                                                                                                        *)
(* ============================================================================================================ *)

(* codeholder.h init(): "calling init() twice doesn't work and would return an error".                            *)
InitOk(s, ev) == IF s.h.in THEN ev.r = "Err" ELSE ev.r = "Ok"
InitNext(s, ev) == IF s.h.in THEN s ELSE [s EXCEPT !.h.in = TRUE]

DetachedEm(m, p) == DropNodes(FollowOneShot([m EXCEPT !.att = FALSE], p))

(* codeholder.h reset(): "Detaches all code-generators attached and resets the CodeHolder."  reinit() "won't       *)
(* detach Logger, ErrorHandler, nor attached emitters" - reset() does.  On an uninitialised holder reset() is a     *)
(* no-op.  Own logger / handler and the option sets are settings of the emitter and survive.                        *)
ResetHOk(s, ev) ==
  /\ ev.r = "Ok"
  /\ \A i \in 1 .. Len(s.kinds) : KeptOrCleared(s.em[i], ev.P.em[i])
ResetHNext(s, ev) ==
  IF ~s.h.in THEN s
  ELSE [s EXCEPT !.h = [in |-> FALSE, lg |-> 0, eh |-> 0],
                 !.em = [i \in 1 .. Len(s.kinds) |-> IF s.em[i].att THEN DetachedEm(s.em[i], ev.P.em[i]) ELSE s.em[i]]]

(* codeholder.h reinit(): "If the CodeHolder was not initialized, Error::kNotInitialized is returned."            *)
(* "it wipes out all intermediate states of CodeHolder and the attached emitters. It won't detach Logger,           *)
(* ErrorHandler, nor attached emitters."                                                                           *)
ReinitOk(s, ev) == IF s.h.in THEN ev.r = "Ok" ELSE ev.r = "NotInitialized"
ReinitNext(s, ev) ==
  IF ~s.h.in THEN s
  ELSE [s EXCEPT !.em = [i \in 1 .. Len(s.kinds) |-> IF s.em[i].att THEN DropNodes(Consume(s.em[i])) ELSE s.em[i]]]

(* codeholder.h attach(): "Emitters can be only attached to initialized CodeHolder instances."  codeholder.cpp:     *)
(* "don't fail if emitter is already attached to this code holder".  An attached emitter uses the holder's logger   *)
(* and handler unless it has its own (Matches after the step).  The pending one-shot state is not mentioned: kept    *)
(* or cleared.                                                                                                      *)
AttachOk(s, ev) ==
  LET m == s.em[ev.em] IN
  IF ~s.h.in THEN Failed(ev)
  ELSE ev.r = "Ok" /\ KeptOrCleared(m, ev.P.em[ev.em])
AttachNext(s, ev) ==
  LET m == s.em[ev.em] IN
  IF ~s.h.in \/ m.att THEN s
  ELSE [s EXCEPT !.em[ev.em] = FollowOneShot([m EXCEPT !.att = TRUE], ev.P.em[ev.em])]

(* detach(): an emitter that is not attached to this holder is refused (codeholder.cpp kInvalidState).              *)
DetachOk(s, ev) ==
  LET m == s.em[ev.em] IN
  IF ~m.att THEN Failed(ev) ELSE ev.r = "Ok" /\ KeptOrCleared(m, ev.P.em[ev.em])
DetachNext(s, ev) ==
  LET m == s.em[ev.em] IN
  IF ~m.att THEN s ELSE [s EXCEPT !.em[ev.em] = DetachedEm(m, ev.P.em[ev.em])]

(* codeholder.h set_logger(): "Attaches a logger to CodeHolder and propagates it to all attached emitters."         *)
(* reset_logger(): "Resets the logger to none."  set_error_handler(): "Attach an error handler to this CodeHolder"  *)
(* (emitter.h on_settings_updated(): "ensures that the settings are properly propagated from CodeHolder to the       *)
(* emitter").  The propagation itself is the clause Matches: every attached emitter without an own logger now        *)
(* answers logger() = ev.l.                                                                                         *)
HSetLoggerOk(s, ev) == ev.l \in 0 .. 2
HSetLoggerNext(s, ev) == [s EXCEPT !.h.lg = ev.l]
HSetHandlerOk(s, ev) == ev.h \in 0 .. 3
HSetHandlerNext(s, ev) == [s EXCEPT !.h.eh = ev.h]

(* ============================================================================================================ *)
(*  EMITTER SETTINGS                                                                                              *)
(* ============================================================================================================ *)

(* emitter.h set_logger(): "If the logger argument is non-null then the logger will be considered emitter's own      *)
(* logger ... If the given logger is null then the emitter will automatically use logger that is attached to the     *)
(* CodeHolder this emitter is attached to."  reset_logger(): "The emitter will bail to using a logger attached to     *)
(* CodeHolder this emitter is attached to, or no logger at all if CodeHolder doesn't have one."                      *)
ESetLoggerOk(s, ev) == ev.l \in 0 .. 2
ESetLoggerNext(s, ev) == [s EXCEPT !.em[ev.em].ol = ev.l]
(* set_error_handler(): "Sets or resets the error handler of the emitter."                                          *)
ESetHandlerOk(s, ev) == ev.h \in 0 .. 3
ESetHandlerNext(s, ev) == [s EXCEPT !.em[ev.em].oh = ev.h]

(* add_diagnostic_options(): "Activates the given diagnostic options."  clear_...: "Deactivates the given            *)
(* validation options."  add_encoding_options(): "Enables the given encoding options."  clear: "Disables".          *)
DiagNames == {"va", "vi", "ra", "dc", "dl"}
EncNames == {"size", "align", "jumps"}
OptOk(s, ev) == TRUE
AddDiagNext(s, ev) == [s EXCEPT !.em[ev.em].dg = @ \cup SetOf(ev.o)]
ClearDiagNext(s, ev) == [s EXCEPT !.em[ev.em].dg = @ \ SetOf(ev.o)]
AddEncNext(s, ev) == [s EXCEPT !.em[ev.em].en = @ \cup SetOf(ev.o)]
ClearEncNext(s, ev) == [s EXCEPT !.em[ev.em].en = @ \ SetOf(ev.o)]

(* ---- one-shot state.  emitter.h: inst_options() "Returns options of the next instruction", set_/add_/reset_,      *)
(* set_extra_reg() "Sets an extra operand that will be used by the next instruction", set_inline_comment(),          *)
(* reset_state() "Resets the emitter state, which contains instruction options, extra register, and inline          *)
(* comment."  x86emitter.h helpers: lock() / rep() / short_() / long_() / taken() ... add the option, k(kreg) sets     *)
(* the extra register, rep(zcx) sets the extra register and the option.                                             *)
SetOptNext(s, ev) == [s EXCEPT !.em[ev.em].op = SetOf(ev.o)]
AddOptNext(s, ev) == [s EXCEPT !.em[ev.em].op = @ \cup SetOf(ev.o)]
ResetOptNext(s, ev) == [s EXCEPT !.em[ev.em].op = {}]
SetXrNext(s, ev) == [s EXCEPT !.em[ev.em].xr = ev.v]          \* v = 1 set_extra_reg(reg), 0 reset_extra_reg()
SetCmNext(s, ev) == [s EXCEPT !.em[ev.em].cm = ev.v]
ResetStateNext(s, ev) == [s EXCEPT !.em[ev.em] = Consume(@)]
HelperEffect(m, name) ==
  CASE name = "k" -> [m EXCEPT !.xr = 1]
    [] name = "repx" -> [m EXCEPT !.xr = 1, !.op = @ \cup {"rep"}]
    [] OTHER -> [m EXCEPT !.op = @ \cup {name}]          \* lock rep short long taken ...
HelperNext(s, ev) == [s EXCEPT !.em[ev.em] = HelperEffect(@, ev.name)]

(* ---- loggers (logger.h): set_flags "Sets formatting flags to flags", add_flags "Enables", clear_flags "Disables",  *)
(* set_indentation "Sets indentation of the given indentation group to n spaces", reset_indentation "to 0 spaces",    *)
(* set_padding / reset_padding, set_options / reset_options "Resets formatting options of this Logger to defaults".   *)
LFlagsNext(s, ev) ==
  [s EXCEPT !.lo[ev.l].fl = CASE ev.mode = "set" -> SetOf(ev.o) [] ev.mode = "add" -> @ \cup SetOf(ev.o) [] OTHER -> @ \ SetOf(ev.o)]
LIndNext(s, ev) ==
  [s EXCEPT !.lo[ev.l] = CASE ev.g = "code" -> [@ EXCEPT !.ic = ev.n] [] ev.g = "label" -> [@ EXCEPT !.il = ev.n]
                           [] OTHER -> [@ EXCEPT !.im = ev.n]]
LPadNext(s, ev) == [s EXCEPT !.lo[ev.l].pd = ev.n]
LResetNext(s, ev) == [s EXCEPT !.lo[ev.l] = FreshLo]
LCopyNext(s, ev) == [s EXCEPT !.lo[ev.l] = s.lo[ev.from]]

(* ============================================================================================================ *)
(*  EMISSION                                                                                                      *)
(* ============================================================================================================ *)
(* Request classes (chosen by the driver so that they hold for the pending one-shot state):                         *)
(*   "G" well formed: validator and raw encoder accept         "Z" = G, `mov r64, small imm` (kOptimizeForSize probe) *)
(*   "V" the validator refuses it, the raw encoder accepts it  "B" everybody refuses it                              *)
(*   "X" the driver makes no claim                                                                                   *)
(* ev.vc = number of times the emitter's validation function ran; ev.nb = bytes / nodes appended;                   *)
(* ev.apx = the pending one-shot components whose effect on THIS instruction the driver can see (prefix byte, EVEX   *)
(* mask field, node fields, comment in the logged line), ev.ap = those it saw.                                       *)
(*                                                                                                                 *)
(* emitter.h: "Next instruction options (affects the next instruction)", set_inline_comment(): "This string is set   *)
(* back to null by _emit()"; EVERY _emit - accepted, refused, or on a detached emitter - consumes the one-shot state. *)
(* DiagnosticOptions: "by default assemblers prefer speed over strictness" - without the option of the emitter's      *)
(* kind the validation function does not run; with it "each instruction is checked before it's encoded" / "before    *)
(* an InstNode representing the instruction is created".                                                              *)
(* core.h (logging): with a logger "everything emitted will be logged".                                              *)
EmitOk(s, ev) ==
  LET i == ev.em
      m == s.em[i]
      L == EffL(s, i)
      H == EffH(s, i)
      val == Validates(s, i)
      c == ev.cls
  IN
  IF ~m.att
    THEN (* "a detached emitter reports kNotInitialized" and can only know its own handler *)
         /\ ErrClass(ev) = "NotInitialized"
         /\ Told(ev, m.oh)
         /\ NoLines(ev) /\ ev.vc = 0 /\ ev.nb = 0
    ELSE (* Assembler: the raw encoder refuses B, the validator (when on) refuses V as well.  Builder / Compiler:       *)
         (* kValidateIntermediate "it's allowed to emit invalid instructions (for example with missing operands) that    *)
         (* will be fixed later before finalizing it" - without the option every request becomes a node.                  *)
         /\ IF IsAsm(s, i)
              THEN /\ (c = "B" \/ (c = "V" /\ val)) => Failed(ev)
                   /\ (c \in {"G", "Z"} \/ (c = "V" /\ ~val)) => ~Failed(ev)
              ELSE /\ (val /\ c \in {"V", "B"}) => Failed(ev)
                   /\ (~val \/ c \in {"G", "Z"}) => ~Failed(ev)
         /\ IF val THEN (IF c \in {"G", "Z", "V"} THEN ev.vc = 1 ELSE ev.vc <= 1) ELSE ev.vc = 0
         /\ IF Failed(ev)
              THEN /\ ErrClass(ev) = "Err"
                   /\ Told(ev, H)
                   /\ \A x \in DOMAIN ev.hc : ev.hc[x].o = i /\ ev.hc[x].cl
                   /\ ev.nb = 0
                   /\ LinesOnlyTo(ev, L, 0, 1)
              ELSE /\ Quiet(ev)
                   /\ ev.nb >= 1
                   /\ IF IsAsm(s, i) THEN LinesOnlyTo(ev, L, 1, 1) ELSE LinesOnlyTo(ev, L, 0, 1)
                   /\ SetOf(ev.ap) = Pending(m) \cap SetOf(ev.apx)
                   /\ (IsAsm(s, i) /\ L # 0) =>
                        /\ ev.ind = s.lo[L].ic                                       \* FormatIndentationGroup::kCode
                        /\ "cm" \in SetOf(ev.apx)
                        /\ (s.lo[L].pd # 0 /\ ev.col > 0) => ev.col = Max(ev.tl, s.lo[L].pd)   \* kRegularLine padding
                   /\ (c = "Z" /\ IsAsm(s, i) /\ s.arch = "x64") =>
                        ev.sz = (IF "size" \in m.en THEN 5 ELSE 7)          \* EncodingOptions::kOptimizeForSize
EmitNext(s, ev) ==
  LET i == ev.em
      m == Consume(s.em[i]) IN
  IF s.em[i].att /\ ~Failed(ev) /\ ~IsAsm(s, i)
    THEN [s EXCEPT !.em[i] = [m EXCEPT !.ns = Append(@, ev.cls)]]
    ELSE [s EXCEPT !.em[i] = m]

(* ---- emit_op_array(id, operands, op_count) with op_count > 6 (Globals::kMaxOpCount): "Similar to emit(), but uses      *)
(* array of operands instead" - an emit that is refused: error returned, handler in effect told once, one-shot state      *)
(* consumed.                                                                                                              *)
EmitNOk(s, ev) ==
  LET i == ev.em
      m == s.em[i]
      p == ev.P.em[i] IN
  /\ Failed(ev) /\ NoLines(ev)
  /\ \/ /\ Told(ev, EffH(s, i))
        /\ \A x \in DOMAIN ev.hc : ev.hc[x].o = i /\ ev.hc[x].cl
        /\ SetOf(p.op) = {} /\ p.xr = 0 /\ p.cm = 0
     \/ /\ KArrN \in Known
        /\ NoHandler(ev) /\ KeptOrCleared(m, p)
EmitNNext(s, ev) == [s EXCEPT !.em[ev.em] = FollowOneShot(@, ev.P.em[ev.em])]

(* ---- comment() / commentf(): Assembler - the text goes to the logger in effect, without one it is dropped;        *)
(* Builder / Compiler - a CommentNode is recorded.  Other emission calls (bind of a new label "L", align "A",         *)
(* embed "E", section switch "S") likewise: Assembler - done now and logged to the logger in effect; Builder - a node. *)
(* A detached emitter refuses all of them with kNotInitialized (its own handler may be told, nobody else).            *)
MiscOk(s, ev) ==
  LET i == ev.em
      m == s.em[i]
      L == EffL(s, i)
  IN
  /\ KeptOrCleared(m, ev.P.em[i])
  /\ IF ~m.att
       THEN ErrClass(ev) = "NotInitialized" /\ ToldAtMost(ev, m.oh) /\ NoLines(ev)
       ELSE /\ Quiet(ev)
            /\ IF IsAsm(s, i)
                 THEN /\ LinesOnlyTo(ev, L, IF ev.k = "A" THEN 0 ELSE 1, Lots)   \* an align that pads nothing may stay silent (a64)
                      /\ (L # 0 /\ ev.k \in {"C", "F"}) => ev.tx                        \* the logged text is the comment + newline
                      /\ (L # 0 /\ ev.k = "L") => ev.ind = s.lo[L].il          \* FormatIndentationGroup::kLabel
                      /\ (L # 0 /\ ev.k = "A" /\ ev.ln[L] > 0) => ev.ind = s.lo[L].ic
                 ELSE LinesOnlyTo(ev, L, 0, Lots)
MiscNext(s, ev) ==
  LET i == ev.em
      m == FollowOneShot(s.em[i], ev.P.em[i]) IN
  IF s.em[i].att /\ ~IsAsm(s, i)
    THEN [s EXCEPT !.em[i] = [m EXCEPT !.ns = Append(@, ev.k)]]
    ELSE [s EXCEPT !.em[i] = m]

(* ---- report_error(err, message) called directly: routing = the handler in effect, exactly once.                  *)
ReportOk(s, ev) ==
  /\ Told(ev, EffH(s, ev.em))
  /\ \A x \in DOMAIN ev.hc : ev.hc[x].o = ev.em /\ ev.hc[x].msg
  /\ NoLines(ev)
ReportNext(s, ev) == s

(* ---- finalize().  emitter.h: "This function won't do anything if the emitter inherits from BaseAssembler ...        *)
(* if this is an emitter that inherits from BaseBuilder or BaseCompiler then these emitters need the                   *)
(* materialization phase".  DiagnosticOptions::kValidateAssembler: "can be set in any other emitter type, in that       *)
(* case if that emitter needs to create an assembler on its own, for the purpose of finalize() it would propagate       *)
(* this flag to such assembler so all instructions passed to it are explicitly validated."                            *)
(* The serialising assembler works for the Builder: lines go to the Builder's logger in effect and a failure is         *)
(* told to the Builder's handler in effect ("which has a priority") before finalize() returns it.                       *)
FinMustFail(m) == "B" \in SetOf(m.ns) \/ ("va" \in m.dg /\ "V" \in SetOf(m.ns))   \* B: the raw encoder refuses it anyway
FinFree(m) == "X" \in SetOf(m.ns) \/ (m.fz /\ "L" \in SetOf(m.ns))     \* serialising a bound label again is refused
FinalizeOk(s, ev) ==
  LET i == ev.em
      m == s.em[i]
      L == EffL(s, i)
      H == EffH(s, i)
      n == Len(m.ns)
  IN
  /\ KeptOrCleared(m, ev.P.em[i])
  /\ IF IsAsm(s, i)
       THEN Quiet(ev) /\ NoLines(ev)                         \* also when detached: there is nothing to do
       ELSE IF ~m.att
         THEN ErrClass(ev) = "NotInitialized" /\ ToldAtMost(ev, m.oh) /\ NoLines(ev)
         ELSE /\ (~FinFree(m)) => (Failed(ev) <=> FinMustFail(m))
              /\ IF Failed(ev)
                   THEN /\ ErrClass(ev) = "Err"
                        /\ \/ Told(ev, H)
                           \/ (KFinEh \in Known /\ m.oh # 0 /\ Told(ev, s.h.eh))
                        /\ \/ LinesOnlyTo(ev, L, 0, Lots)
                           \/ (KFinLg \in Known /\ m.ol # 0 /\ LinesOnlyTo(ev, s.h.lg, 0, Lots))
                   ELSE /\ Quiet(ev)
                        /\ \/ LinesOnlyTo(ev, L, n, Lots)
                           \/ (KFinLg \in Known /\ m.ol # 0 /\ LinesOnlyTo(ev, s.h.lg, IF s.h.lg # 0 THEN n ELSE 0, Lots))
FinalizeNext(s, ev) ==
  LET m == FollowOneShot(s.em[ev.em], ev.P.em[ev.em]) IN
  [s EXCEPT !.em[ev.em] = IF s.em[ev.em].att /\ ~IsAsm(s, ev.em) THEN [m EXCEPT !.fz = TRUE] ELSE m]

(* ---- the emitter object is destroyed while attached (the holder must forget it) and a fresh one is constructed     *)
RecreateOk(s, ev) == TRUE
RecreateNext(s, ev) == [s EXCEPT !.em[ev.em] = FreshEm]

(* ============================================================================================================ *)
Simple == {"HSetLogger", "HSetHandler", "ESetLogger", "ESetHandler", "AddDiag", "ClearDiag", "AddEnc", "ClearEnc",
           "SetOpt", "AddOpt", "ResetOpt", "SetXr", "SetCm", "ResetState", "Helper",
           "LFlags", "LInd", "LPad", "LReset", "LCopy", "Recreate"}

CallOk(s, ev) ==
  CASE ev.e = "Init" -> InitOk(s, ev)
    [] ev.e = "ResetH" -> ResetHOk(s, ev)
    [] ev.e = "Reinit" -> ReinitOk(s, ev)
    [] ev.e = "Attach" -> AttachOk(s, ev)
    [] ev.e = "Detach" -> DetachOk(s, ev)
    [] ev.e = "HSetLogger" -> HSetLoggerOk(s, ev)
    [] ev.e = "HSetHandler" -> HSetHandlerOk(s, ev)
    [] ev.e = "ESetLogger" -> ESetLoggerOk(s, ev)
    [] ev.e = "ESetHandler" -> ESetHandlerOk(s, ev)
    [] ev.e = "Emit" -> EmitOk(s, ev)
    [] ev.e = "EmitN" -> EmitNOk(s, ev)
    [] ev.e = "Misc" -> MiscOk(s, ev)
    [] ev.e = "Report" -> ReportOk(s, ev)
    [] ev.e = "Finalize" -> FinalizeOk(s, ev)
    [] ev.e \in Simple -> TRUE
    [] OTHER -> FALSE

CNext(s, ev) ==
  CASE ev.e = "Init" -> InitNext(s, ev)
    [] ev.e = "ResetH" -> ResetHNext(s, ev)
    [] ev.e = "Reinit" -> ReinitNext(s, ev)
    [] ev.e = "Attach" -> AttachNext(s, ev)
    [] ev.e = "Detach" -> DetachNext(s, ev)
    [] ev.e = "HSetLogger" -> HSetLoggerNext(s, ev)
    [] ev.e = "HSetHandler" -> HSetHandlerNext(s, ev)
    [] ev.e = "ESetLogger" -> ESetLoggerNext(s, ev)
    [] ev.e = "ESetHandler" -> ESetHandlerNext(s, ev)
    [] ev.e = "AddDiag" -> AddDiagNext(s, ev)
    [] ev.e = "ClearDiag" -> ClearDiagNext(s, ev)
    [] ev.e = "AddEnc" -> AddEncNext(s, ev)
    [] ev.e = "ClearEnc" -> ClearEncNext(s, ev)
    [] ev.e = "SetOpt" -> SetOptNext(s, ev)
    [] ev.e = "AddOpt" -> AddOptNext(s, ev)
    [] ev.e = "ResetOpt" -> ResetOptNext(s, ev)
    [] ev.e = "SetXr" -> SetXrNext(s, ev)
    [] ev.e = "SetCm" -> SetCmNext(s, ev)
    [] ev.e = "ResetState" -> ResetStateNext(s, ev)
    [] ev.e = "Helper" -> HelperNext(s, ev)
    [] ev.e = "LFlags" -> LFlagsNext(s, ev)
    [] ev.e = "LInd" -> LIndNext(s, ev)
    [] ev.e = "LPad" -> LPadNext(s, ev)
    [] ev.e = "LReset" -> LResetNext(s, ev)
    [] ev.e = "LCopy" -> LCopyNext(s, ev)
    [] ev.e = "Emit" -> EmitNext(s, ev)
    [] ev.e = "EmitN" -> EmitNNext(s, ev)
    [] ev.e = "Misc" -> MiscNext(s, ev)
    [] ev.e = "Report" -> ReportNext(s, ev)
    [] ev.e = "Finalize" -> FinalizeNext(s, ev)
    [] ev.e = "Recreate" -> RecreateNext(s, ev)
    [] OTHER -> s

(* Calls that can neither fail nor tell anybody anything: setters.  (Emission events carry these fields themselves.) *)
(* codeholder.h: "CodeHolder has an ability to attach an ErrorHandler, however, the error handler is not triggered by  *)
(* CodeHolder itself, it's instead propagated to all emitters that attach to it." - init / reset / reinit / attach /    *)
(* detach report by return value only and log nothing.                                                                 *)
SilentOk(ev) == (ev.e \in Simple) => (ev.r = "Ok" /\ ev.hc = <<>> /\ ev.th = 0 /\ ev.ln[1] = 0 /\ ev.ln[2] = 0)
HolderCallsQuiet(ev) ==
  (ev.e \in {"Init", "ResetH", "Reinit", "Attach", "Detach"}) => (ev.hc = <<>> /\ ev.th = 0 /\ ev.ln[1] = 0 /\ ev.ln[2] = 0)

(* THE CONTRACT: the call is allowed with these outputs, and every real object projects onto the next state *)
COk(s, ev) == CallOk(s, ev) /\ SilentOk(ev) /\ HolderCallsQuiet(ev) /\ Matches(CNext(s, ev), ev.P)

(* ------------------------------------------------------------------------------------------------------------ *)
(* State invariants of the contract state (type correctness; the behavioural clauses live in COk).               *)
(* ------------------------------------------------------------------------------------------------------------ *)
TypeOK(s) ==
  /\ s.h.in \in BOOLEAN /\ s.h.lg \in 0 .. 2 /\ s.h.eh \in 0 .. 3
  /\ \A i \in 1 .. Len(s.kinds) :
       LET m == s.em[i] IN
       /\ m.att \in BOOLEAN /\ m.ol \in 0 .. 2 /\ m.oh \in 0 .. 3 /\ m.xr \in 0 .. 1 /\ m.cm \in 0 .. 1
       /\ (m.att => s.h.in)                                  \* only an initialised holder has emitters
       /\ (IsAsm(s, i) => m.ns = <<>>)
=============================================================================
