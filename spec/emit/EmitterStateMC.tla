--------------------------- MODULE EmitterStateMC ---------------------------
(* model-checking configurations of EmitterStateImpl (tuples cannot be written in a .cfg file) *)
EXTENDS EmitterStateImpl
KindsA == <<"asm">>
KindsB == <<"bld">>
KindsC == <<"cmp">>
KindsAB == <<"asm", "bld">>
KindsABC == <<"asm", "bld", "cmp">>
KnownFin == {"finalize:own-error-handler-bypassed", "finalize:own-logger-bypassed"}
KnownAll == KnownFin \cup {"emit_op_array:more-than-6-operands:unreported"}
=============================================================================
