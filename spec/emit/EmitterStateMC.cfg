SPECIFICATION Spec
CONSTANTS
  Kinds <- KindsA
  Arch = "x64"
  Loggers = {1, 2}
  Handlers = {1, 3}
  Classes = {"G", "V", "B", "Z"}
  MaxOps = 16
  MaxNodes = 0
  Bug = "none"
  FixFinalize = FALSE
  UseEmitN = TRUE
  Helpers = {"lock", "k"}
  EncOpts = {"size"}
  DiagOpts = {"va", "vi"}
  MiscKinds = {"C", "F", "L"}
  UseCm = TRUE
  Known <- KnownAll
INVARIANTS Refines ContractType ForcedExact CachedPointersExact LogCommentsExact
VIEW View
