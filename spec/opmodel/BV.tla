---------------------------------- MODULE BV ----------------------------------
(* X04 library: fixed-width machine words for TLC (whose integers are 32-bit).     *)
(*                                                                                 *)
(* A BIT VECTOR is a sequence of 0/1, index 1 = bit 0 (LSB first), so a w-bit       *)
(* machine word of any width never becomes a TLC integer.  JSON observations carry  *)
(* words as little-endian byte arrays (BitsOfBytes) or 16-bit limbs (BitsOfLimbs).  *)
(* All operators are written from the mathematical definition (two's complement,    *)
(* modulo 2^w), not from any C++ idiom.                                             *)
EXTENDS Integers, Sequences, FiniteSets, TLC

(* TLC keeps [k \in S |-> e] as an unevaluated lambda and re-evaluates e on every application; TLCEval makes it a table. *)
Tab(f) == TLCEval(f)

BitsOfBytes(B)   == Tab([k \in 1..(8 * Len(B)) |-> (B[((k - 1) \div 8) + 1] \div 2^((k - 1) % 8)) % 2])
BitsOfLimbs(L)   == Tab([k \in 1..(16 * Len(L)) |-> (L[((k - 1) \div 16) + 1] \div 2^((k - 1) % 16)) % 2])
BytesOfBits(x)   == Tab([j \in 1..(Len(x) \div 8) |->
                       x[8*j-7] + 2*x[8*j-6] + 4*x[8*j-5] + 8*x[8*j-4] + 16*x[8*j-3] + 32*x[8*j-2] + 64*x[8*j-1] + 128*x[8*j]])
LimbsOfBits(x)   == LET B == BytesOfBits(x) IN Tab([j \in 1..(Len(x) \div 16) |-> B[2*j-1] + 256 * B[2*j]])
IsBytes(B, n)    == Len(B) = n /\ \A j \in 1..n : B[j] \in 0..255
IsLimbs(L, n)    == Len(L) = n /\ \A j \in 1..n : L[j] \in 0..65535

Zeros(n)         == Tab([k \in 1..n |-> 0])
Ones(n)          == Tab([k \in 1..n |-> 1])
(* the w-bit word of a small natural number (v < 2^30) *)
OfNat(v, w)      == Tab([k \in 1..w |-> IF k <= 30 THEN (v \div 2^(k - 1)) % 2 ELSE 0])
(* the natural number of a word whose value is known to be below 2^30 *)
RECURSIVE NatOfFrom(_, _)
NatOfFrom(x, k)  == IF k > Len(x) THEN 0 ELSE x[k] * 2^(k - 1) + NatOfFrom(x, k + 1)
IsSmall(x)       == \A k \in 1..Len(x) : k > 30 => x[k] = 0
ToNat(x)         == NatOfFrom(Tab([k \in 1..(IF Len(x) < 30 THEN Len(x) ELSE 30) |-> x[k]]), 1)

Trunc(x, w)      == Tab([k \in 1..w |-> x[k]])
ZExt(x, w)       == Tab([k \in 1..w |-> IF k <= Len(x) THEN x[k] ELSE 0])
SExt(x, w)       == Tab([k \in 1..w |-> IF k <= Len(x) THEN x[k] ELSE x[Len(x)]])
Ext(x, w, sgn)   == IF sgn THEN SExt(x, w) ELSE ZExt(x, w)
Slice(x, lo, n)  == Tab([k \in 1..n |-> x[lo + k]])  \* bits lo .. lo+n-1
Msb(x)           == x[Len(x)]
IsZero(x)        == \A k \in 1..Len(x) : x[k] = 0
SetBits(x)       == {k - 1 : k \in {j \in 1..Len(x) : x[j] = 1}}     \* positions of the 1 bits
OfSet(S, w)      == Tab([k \in 1..w |-> IF (k - 1) \in S THEN 1 ELSE 0])
MinOf(S)         == CHOOSE m \in S : \A y \in S : m <= y
MaxOf(S)         == CHOOSE m \in S : \A y \in S : m >= y

Not(x)           == Tab([k \in 1..Len(x) |-> 1 - x[k]])
And(x, y)        == Tab([k \in 1..Len(x) |-> x[k] * y[k]])
Or(x, y)         == Tab([k \in 1..Len(x) |-> IF x[k] + y[k] > 0 THEN 1 ELSE 0])
Xor(x, y)        == Tab([k \in 1..Len(x) |-> (x[k] + y[k]) % 2])
(* x + y + cin modulo 2^w.  Evaluated on 16-bit limbs (sums stay far below 2^31) for speed: the carry chain has w/16 links. *)
AddLimbs(a, b, cin) == LET n == Len(a)
                           c[k \in 0..n] == IF k = 0 THEN cin ELSE (a[k] + b[k] + c[k - 1]) \div 65536
                       IN Tab([k \in 1..n |-> (a[k] + b[k] + c[k - 1]) % 65536])
Pad16(w)         == ((w + 15) \div 16) * 16
AddC(x, y, cin)  == LET w == Len(x) p == Pad16(w) IN
                    Trunc(BitsOfLimbs(AddLimbs(LimbsOfBits(ZExt(x, p)), LimbsOfBits(ZExt(y, p)), cin)), w)
Add(x, y)        == AddC(x, y, 0)
Neg(x)           == AddC(Not(x), Zeros(Len(x)), 1)
Sub(x, y)        == AddC(x, Not(y), 1)
Shl(x, n)        == Tab([k \in 1..Len(x) |-> IF k - n >= 1 THEN x[k - n] ELSE 0])
Shr(x, n)        == Tab([k \in 1..Len(x) |-> IF k + n <= Len(x) THEN x[k + n] ELSE 0])
Sar(x, n)        == Tab([k \in 1..Len(x) |-> IF k + n <= Len(x) THEN x[k + n] ELSE x[Len(x)]])
Ror(x, n)        == Tab([k \in 1..Len(x) |-> x[((k - 1 + n) % Len(x)) + 1]])
(* x * y modulo 2^w: schoolbook multiplication on bytes (column sums stay below 2^31 for up to 128-bit words) *)
RECURSIVE ColSum(_, _, _, _)
ColSum(a, b, k, i) == IF i > k THEN 0 ELSE a[i] * b[k + 1 - i] + ColSum(a, b, k, i + 1)      \* sum of a[i]*b[j] with i + j = k + 1
MulBytes(a, b)   == LET n == Len(a)
                        t[k \in 0..n] == IF k = 0 THEN 0 ELSE ColSum(a, b, k, 1) + t[k - 1] \div 256
                    IN Tab([k \in 1..n |-> t[k] % 256])
Mul(x, y)        == LET w == Len(x) p == ((w + 7) \div 8) * 8 IN
                    Trunc(BitsOfBytes(MulBytes(BytesOfBits(ZExt(x, p)), BytesOfBits(ZExt(y, p)))), w)

(* unsigned order: compare from the most significant bit *)
ULt(x, y)        == \E k \in 1..Len(x) : x[k] < y[k] /\ \A j \in (k + 1)..Len(x) : x[j] = y[j]
ULe(x, y)        == x = y \/ ULt(x, y)
(* signed (two's complement) order *)
SLt(x, y)        == IF Msb(x) # Msb(y) THEN Msb(x) = 1 ELSE ULt(x, y)
SLe(x, y)        == x = y \/ SLt(x, y)
Lt(x, y, sgn)    == IF sgn THEN SLt(x, y) ELSE ULt(x, y)

(* the value of x, read as signed/unsigned, is representable in an n-bit signed / unsigned integer *)
FitsSigned(x, sgn, n)   == IF sgn THEN (n >= Len(x) \/ \A k \in n..Len(x) : x[k] = x[Len(x)])
                                  ELSE (n > Len(x) \/ \A k \in n..Len(x) : x[k] = 0)
FitsUnsigned(x, sgn, n) == /\ sgn => Msb(x) = 0
                           /\ n >= Len(x) \/ \A k \in (n + 1)..Len(x) : x[k] = 0

ReverseBytes(x)  == LET n == Len(x) \div 8 IN Tab([k \in 1..Len(x) |-> x[8 * (n - 1 - ((k - 1) \div 8)) + ((k - 1) % 8) + 1]])
=============================================================================
