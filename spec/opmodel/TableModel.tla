------------------------------ MODULE TableModel ------------------------------
(* X04 - the relations that asmjit's static tables must satisfy: the type system (core/type.h), register     *)
(* traits (core/operand.h), architecture traits (core/archtraits.h, x86/x86archtraits_p.h,                   *)
(* arm/a64archtraits_p.h), type id -> register mapping, error strings (core/globals.h), the predefined       *)
(* register constants, OperandSignature field arithmetic.  One row of a table = one observation (harness     *)
(* `tables`); TableVerdict(row) = "" iff the row satisfies the relation stated here from the documentation.  *)
EXTENDS Operand

U32(v) == v                       \* 32-bit values arrive as <<lo16, hi16>>

(* ===== type system ======================================================================================= *)
(* TypeId: "kIntPtr = 32 Abstract signed integer type that has a native size", kUIntPtr 33, kInt8 34, kUInt8 35, *)
(* kInt16 36 ... kUInt64 41, kFloat32 42, kFloat64 43, kFloat80 44, kMask8..kMask64 45..48, kMmx32 49,           *)
(* kMmx64 50, then five vector blocks of ten element types each.                                                *)
TIntPtr == 32  TUIntPtr == 33  TUInt8 == 35  TUInt16 == 37  TUInt32 == 39  TUInt64 == 41  TFloat32 == 42  TFloat64 == 43
TMask8 == 45  TMask64 == 48  TMmx32 == 49
(* size in bytes of the scalar types 34..44 *)
ScalarSize == [t \in 34..44 |-> CASE t \in {34, 35} -> 1 [] t \in {36, 37} -> 2 [] t \in {38, 39, 42} -> 4 [] t \in {40, 41, 43} -> 8 [] OTHER -> 10]
VecBlocks == <<<<51, 4>>, <<61, 8>>, <<71, 16>>, <<81, 32>>, <<91, 64>>>>       \* <<first id, vector size in bytes>>
BlockOf(t) == IF \E i \in 1..5 : t >= VecBlocks[i][1] /\ t <= VecBlocks[i][1] + 9 THEN CHOOSE i \in 1..5 : t >= VecBlocks[i][1] /\ t <= VecBlocks[i][1] + 9 ELSE 0
ElemOf(t) == 34 + (t - VecBlocks[BlockOf(t)][1])                              \* kInt8x16 = block start + (kInt8 - kInt8) ...
(* the enumerators that exist (kInt64x1-like names only exist where the element fits the vector) *)
Assigned(t) == \/ t = 0 \/ t \in 32..50
               \/ BlockOf(t) # 0 /\ ScalarSize[ElemOf(t)] <= VecBlocks[BlockOf(t)][2]
TypeSize(t) == CASE t \in 34..44 -> ScalarSize[t] [] t \in 45..48 -> 2^(t - 45) [] t = 49 -> 4 [] t = 50 -> 8
                 [] BlockOf(t) # 0 -> VecBlocks[BlockOf(t)][2] [] OTHER -> 0
TypeFlags(t) == <<
  t = 0,                      \* is_void
  t \in 32..100,              \* is_valid: "a valid non-void type"
  t \in 32..44,               \* is_scalar: "scalar (has no vector part)"
  t \in 32..33,               \* is_abstract: "its size depends on register size"
  t \in 32..41,               \* is_int: "a scalar integer (signed or unsigned) of any size"
  t = 34, t = 35, t = 36, t = 37, t = 38, t = 39, t = 40, t = 41,
  t \in 34..35, t \in 36..37, t \in 38..39, t \in 40..41,       \* is_gp8 .. is_gp64
  t \in 42..44, t = 42, t = 43, t = 44,                         \* is_float, 32, 64, 80
  t \in 45..48, t = 45, t = 46, t = 47, t = 48,                 \* is_mask, 8..64
  t \in 49..50, t = 49, t = 50,                                 \* is_mmx, 32, 64
  t \in 51..100, t \in 51..60, t \in 61..70, t \in 71..80, t \in 81..90, t \in 91..100>>   \* is_vec, 32 .. 512
TypeVerdict(o) ==
  LET t == o.t IN
  IF ~Assigned(t) /\ t \in 32..100 THEN ""                      \* holes inside the vector blocks (no enumerator): not judged
  ELSE IF \E i \in 1..Len(o.f) : (o.f[i] = 1) # TypeFlags(t)[i] THEN "typeid:predicate"
  ELSE IF t \notin 32..33 /\ o.size # TypeSize(t) THEN "typeid:size_of"          \* "Returns the size [in bytes] of type_id"
  (* scalar_of: "Returns the scalar type of type_id": the element type of a vector, the type itself for scalars; for masks / mmx an integer of the same size *)
  ELSE IF t \in 32..44 /\ o.scalar # t THEN "typeid:scalar_of"
  ELSE IF BlockOf(t) # 0 /\ o.scalar # ElemOf(t) THEN "typeid:scalar_of"
  ELSE IF t \in 45..50 /\ ~(o.scalar \in 34..41 /\ ScalarSize[o.scalar] = TypeSize(t)) THEN "typeid:scalar_of"
  (* deabstract: "Deabstracts a given type_id into a native type": kIntPtr -> kInt32 / kInt64, kUIntPtr -> kUInt32 / kUInt64 by register size *)
  ELSE IF o.de4 # (IF t = 32 THEN 38 ELSE IF t = 33 THEN 39 ELSE t) \/ o.de8 # (IF t = 32 THEN 40 ELSE IF t = 33 THEN 41 ELSE t) THEN "typeid:deabstract"
  (* scalar_to_vector(scalar, vec_start): the vector type of the block with that element *)
  ELSE IF t \in 34..43 /\ o.s2v # [i \in 1..5 |-> VecBlocks[i][1] + (t - 34)] THEN "typeid:scalar_to_vector"
  ELSE ""
(* TypeIdOfT: integral -> signedness and size; floating -> size; pointers, references, functions -> kUIntPtr; Type:: tags *)
TagTypes(n) == CASE n = "void" -> {0} [] n = "Type::Bool" -> {34, 35} [] n = "Type::Int8" -> {34} [] n = "Type::UInt8" -> {35} [] n = "Type::Int16" -> {36}
                 [] n = "Type::UInt16" -> {37} [] n = "Type::Int32" -> {38} [] n = "Type::UInt32" -> {39} [] n = "Type::Int64" -> {40} [] n = "Type::UInt64" -> {41}
                 [] n = "Type::IntPtr" -> {32} [] n = "Type::UIntPtr" -> {33} [] n = "Type::Float32" -> {42} [] n = "Type::Float64" -> {43}
                 [] n = "Type::Vec128" -> 71..80 [] n = "Type::Vec256" -> 81..90 [] n = "Type::Vec512" -> 91..100 [] OTHER -> {}
CxxVerdict(o) ==
  LET exp == CASE o.cat = 0 -> {34 + 2 * (CHOOSE i \in 0..3 : 2^i = o.size) + (IF o.sgn THEN 0 ELSE 1)}
               [] o.cat = 1 -> {IF o.size = 4 THEN 42 ELSE 43}
               [] o.cat = 2 -> {33}
               [] OTHER -> TagTypes(o.name)
  IN IF o.t \in exp THEN "" ELSE "type_id_of_t:" \o o.name

(* ===== register traits ===================================================================================== *)
SigBitsOf(rt) == IF RT[rt].valid
                 THEN SigSet(DocLayout, SigSet(DocLayout, SigSet(DocLayout, SigSet(DocLayout, SigZero, "optype", OpReg), "regtype", rt), "reggroup", RT[rt].grp), "size", RT[rt].size)
                 ELSE SigZero       \* "Empty signature by default (not even having operand type set to register)."
RegTraitVerdict(o) ==
  LET rt == o.rt tr == RT[rt] sig == SigBitsOf(rt) IN
  IF o.valid # tr.valid THEN "regtrait:valid"
  ELSE IF tr.valid /\ o.tsize # tr.size THEN "regtrait:size"
  ELSE IF tr.valid /\ o.tgrp # tr.grp THEN "regtrait:group"
  ELSE IF tr.valid /\ o.ttid # tr.tid THEN "regtrait:type_id"
  ELSE IF SigOfLimbs(o.tsig) # sig THEN "regtrait:kSignature"
  ELSE IF SigOfLimbs(o.sig) # sig \/ SigOfLimbs(o.rsig) # sig THEN "regtrait:signature_of"
  ELSE IF o.grp # tr.grp THEN "regtrait:group_of"
  ELSE IF o.tid # tr.tid THEN "regtrait:type_id_of"
  ELSE IF tr.valid /\ (o.rrt # rt \/ o.rgrp # tr.grp \/ o.rsize # tr.size \/ o.rot # OpReg) THEN "regtrait:from_type_and_id"
  ELSE ""
VecSizeVerdict(o) == LET rt == CASE o.size = 16 -> RtVec128 [] o.size = 32 -> RtVec256 [] OTHER -> RtVec512 IN
                     IF SigOfLimbs(o.sig) = SigBitsOf(rt) THEN "" ELSE "signature_of_vec_by_size"

(* ===== architecture traits ================================================================================= *)
SupportedArchs == {ArchX86, ArchX64, ArchA64}
MayRegTypes(a) == CASE a = ArchX86 -> X86RegTypes [] a = ArchX64 -> X64RegTypes [] a = ArchA64 -> A64RegTypes [] OTHER -> {}
MustRegTypes(a) == CASE a = ArchX86 -> X86RegTypes \ {RtGp64} [] a = ArchX64 -> X64RegTypes
                     [] a = ArchA64 -> {RtGp32, RtGp64, RtVec8, RtVec16, RtVec32, RtVec64, RtVec128} [] OTHER -> {}
RegSizeOf(a) == IF a \in Archs32 THEN 4 ELSE 8
RegSetOf(o) == SetBits(BitsOfLimbs(o.regs))
NoId == 255                                      \* Reg::kIdBad: "None or any register"
(* the register kind a scalar type lives in *)
GroupsFor(t) == CASE t \in 32..41 -> {GrpGp} [] t \in 42..43 -> {GrpVec} [] t \in 45..48 -> {GrpMask} [] t \in 49..50 -> {GrpMm} [] OTHER -> {}
NaturalSize(a, t) == IF t \in 32..33 THEN RegSizeOf(a) ELSE TypeSize(t)
ArchVerdict(o) ==
  LET a == o.a regs == RegSetOf(o) IN
  IF o.defined # (a \in 0..16) \/ o.validarch # (a \in 1..16) THEN "arch:is_defined_arch"
  ELSE IF \E i \in 1..32 : (o.hasrt[i] = 1) # ((i - 1) \in regs) THEN "arch:has_reg_type"
  ELSE IF o.haslr # (o.lr # NoId) THEN "arch:has_link_reg"
  ELSE IF \E g \in 1..4 : (o.swap[g] = 1) # ((o.hints[g] % 2) = 1) \/ (o.pushpop[g] = 1) # ((o.hints[g] \div 2) % 2 = 1) THEN "arch:inst_hints"
  ELSE IF a \notin SupportedArchs THEN
    (* an architecture without a backend has no traits: no registers, no SP/FP/LR/PC, no type mapping - the same answer for every such architecture *)
    IF regs # {} \/ \E i \in 1..32 : o.t2r[i] # 0 THEN "arch:unsupported:regs"
    ELSE IF o.hw # 0 \/ o.min # Z32 \/ o.max # Z32 THEN "arch:unsupported:stack"
    ELSE IF o.sp # NoId \/ o.fp # NoId \/ o.lr # NoId \/ o.pc # NoId THEN "arch:unsupported:reg-ids" ELSE ""
  ELSE IF ~(MustRegTypes(a) \subseteq regs /\ regs \subseteq MayRegTypes(a)) THEN "arch:supported_reg_types"
  ELSE IF a \in {ArchX86, ArchX64} /\ ~(o.sp = X86Sp /\ o.fp = X86Bp /\ o.lr = NoId /\ o.pc = NoId) THEN "arch:x86:sp-fp-lr"
  ELSE IF a = ArchA64 /\ ~(o.sp = A64Sp /\ o.fp = A64Fp /\ o.lr = A64Lr /\ o.pc = NoId) THEN "arch:a64:sp-fp-lr"
  (* "AArch64 requires 16-byte alignment"; "Architectures that don't constrain it would return the lowest alignment (1)" *)
  ELSE IF o.hw # (IF a = ArchA64 THEN 16 ELSE 1) THEN "arch:hw_stack_alignment"
  ELSE IF U32Lt(o.max, o.min) THEN "arch:stack-offsets"
  (* the scalar type id -> register type table: every entry names a supported register type of the right kind that can hold the type *)
  ELSE IF \E i \in 1..32 : LET t == 31 + i rt == o.t2r[i] IN
            rt # 0 /\ ~(rt \in regs /\ t \in 32..50 /\ RT[rt].grp \in GroupsFor(t) /\ (RT[rt].size = 0 \/ RT[rt].size >= NaturalSize(a, t))
                        /\ (t \in 32..33 => RT[rt].size = RegSizeOf(a)))
       THEN "arch:type_id_to_reg_type:entry"
  (* and the types every supported architecture has registers for are mapped *)
  ELSE IF \E t \in (32..43) : NaturalSize(a, t) <= RegSizeOf(a) /\ o.t2r[t - 31] = 0 THEN "arch:type_id_to_reg_type:missing"
  ELSE IF \E t \in 40..41 : RegSizeOf(a) = 4 /\ o.t2r[t - 31] # 0 THEN "arch:type_id_to_reg_type:gp64-on-32-bit"
  ELSE ""

(* ArchUtils::type_id_to_reg_signature(arch, type_id) -> (type_id_out, reg_signature_out) *)
ErrOk == 0  ErrInvalidTypeId == 56  ErrInvalidUseOfGpq == 58  ErrInvalidUseOfF80 == 59
VecRegFor(a, size) == CASE a \in {ArchX86, ArchX64} -> (IF size <= 16 THEN RtVec128 ELSE IF size = 32 THEN RtVec256 ELSE RtVec512)
                        [] OTHER -> (IF size <= 8 THEN RtVec64 ELSE RtVec128)
T2RVerdict(o) ==
  LET a == o.a tin == o.t
      (* legacy: "Passed RegType instead of TypeId?" - values 0..31 are read as register types *)
      t0 == IF tin <= 31 THEN RT[tin].tid ELSE tin
      t == IF t0 = 32 THEN (IF RegSizeOf(a) = 4 THEN 38 ELSE 40) ELSE IF t0 = 33 THEN (IF RegSizeOf(a) = 4 THEN 39 ELSE 41) ELSE t0
      ok == o.err = ErrOk
      sig == SigOfLimbs(o.sig)
      rtOut == SigGet(DocLayout, sig, "regtype")
  IN
  IF ~Assigned(t0) /\ t0 \in 32..100 THEN ""                                         \* holes of the vector blocks: not judged
  ELSE IF a \notin SupportedArchs THEN (IF ok THEN "t2r:unsupported-arch-accepted" ELSE "")
  ELSE IF t0 \notin 32..100 THEN (IF ok THEN "t2r:invalid-type-accepted" ELSE "")       \* kInvalidTypeId: "Invalid TypeId."
  ELSE IF t = 44 THEN (IF o.err = ErrInvalidUseOfF80 THEN "" ELSE "t2r:f80")            \* "Invalid use of an 80-bit float"
  ELSE IF t \in 40..41 /\ RegSizeOf(a) = 4 THEN (IF o.err = ErrInvalidUseOfGpq THEN "" ELSE "t2r:gpq-in-32-bit")   \* "Invalid use of a 64-bit GPQ register in 32-bit mode."
  ELSE IF a = ArchA64 /\ t \in 45..50 THEN (IF ok /\ SigGet(DocLayout, sig, "reggroup") \notin GroupsFor(t) THEN "t2r:a64-mask-mmx" ELSE "")  \* no documented mapping: an error, or a register of the right kind
  ELSE IF a = ArchA64 /\ BlockOf(t) # 0 /\ TypeSize(t) > 16 THEN (IF ok THEN "t2r:a64-vector-wider-than-128" ELSE "")   \* no 256/512-bit registers (trait table columns)
  ELSE IF ~ok THEN "t2r:natural-type-refused"
  ELSE IF o.tout # t THEN "t2r:type_id_out"                                            \* the deabstracted type
  ELSE IF sig # SigBitsOf(rtOut) THEN "t2r:signature-not-a-trait-signature"
  ELSE IF rtOut \notin MayRegTypes(a) THEN "t2r:register-type-not-of-arch"
  ELSE IF BlockOf(t) # 0 THEN (IF RT[rtOut].grp = GrpVec /\ RT[rtOut].size >= TypeSize(t) /\ rtOut = VecRegFor(a, TypeSize(t)) THEN "" ELSE "t2r:vector-register")
  ELSE IF RT[rtOut].grp \notin GroupsFor(t) THEN "t2r:register-group"
  ELSE IF RT[rtOut].size # 0 /\ RT[rtOut].size < TypeSize(t) THEN "t2r:register-too-small"
  ELSE ""

(* ===== Environment::host() ================================================================================== *)
HostVerdict(o) ==
  LET arch == CASE o.cc_arch = "x86_64" -> ArchX64 [] o.cc_arch = "i386" -> ArchX86 [] o.cc_arch = "aarch64" -> ArchA64 [] OTHER -> -1 IN
  IF arch = -1 THEN "harness"
  ELSE IF o.arch # arch \/ o.khost # arch THEN "host:arch"                     \* "should precisely match the target host architecture ..."
  ELSE IF o.cc_os = "linux" /\ o.plat # PlatLinux THEN "host:platform"
  ELSE IF o.cc_libc = "glibc" /\ o.abi # 2 THEN "host:abi"                        \* PlatformABI::kGNU
  ELSE IF o.sub # 0 \/ o.vendor # 0 \/ o.fmt # 0 THEN "host:unknown-fields"
  ELSE IF o.native_le # o.cc_le THEN "host:byte-order"
  ELSE IF o.ptr # RegSizeOf(arch) THEN "host:register-size" ELSE ""

(* ===== error strings ========================================================================================= *)
(* enum class Error, in order; error_as_string: "Returns a printable version of asmjit::Error code." (the         *)
(* enumerator name without the k prefix); codes above kMaxValue -> "<Unknown>"                                   *)
ErrNames == <<"Ok", "OutOfMemory", "InvalidArgument", "InvalidState", "InvalidArch", "NotInitialized", "AlreadyInitialized", "FeatureNotEnabled",
  "TooManyHandles", "TooLarge", "NoCodeGenerated", "InvalidDirective", "InvalidLabel", "TooManyLabels", "LabelAlreadyBound", "LabelAlreadyDefined",
  "LabelNameTooLong", "InvalidLabelName", "InvalidParentLabel", "InvalidSection", "TooManySections", "InvalidSectionName", "TooManyRelocations",
  "InvalidRelocEntry", "RelocOffsetOutOfRange", "InvalidAssignment", "InvalidInstruction", "InvalidRegType", "InvalidRegGroup", "InvalidPhysId",
  "InvalidVirtId", "InvalidElementIndex", "InvalidPrefixCombination", "InvalidLockPrefix", "InvalidXAcquirePrefix", "InvalidXReleasePrefix",
  "InvalidRepPrefix", "InvalidRexPrefix", "InvalidExtraReg", "InvalidKMaskUse", "InvalidKZeroUse", "InvalidBroadcast", "InvalidEROrSAE", "InvalidAddress",
  "InvalidAddressIndex", "InvalidAddressScale", "InvalidAddress64Bit", "InvalidAddress64BitZeroExtension", "InvalidDisplacement", "InvalidSegment",
  "InvalidImmediate", "InvalidOperandSize", "AmbiguousOperandSize", "OperandSizeMismatch", "InvalidOption", "OptionAlreadyDefined", "InvalidTypeId",
  "InvalidUseOfGpbHi", "InvalidUseOfGpq", "InvalidUseOfF80", "NotConsecutiveRegs", "ConsecutiveRegsAllocation", "IllegalVirtReg", "TooManyVirtRegs",
  "NoMorePhysRegs", "OverlappedRegs", "OverlappingStackRegWithRegArg", "ExpressionLabelNotBound", "ExpressionOverflow", "FailedToOpenAnonymousMemory",
  "FailedToOpenFile", "ProtectionFailure">>
ErrDistinct == \A i, j \in 1..Len(ErrNames) : i # j => ErrNames[i] # ErrNames[j]
ErrVerdict(o) == LET small == o.code[2] = 0 /\ o.code[1] < Len(ErrNames) IN
                 IF o.s = (IF small THEN ErrNames[o.code[1] + 1] ELSE "<Unknown>") THEN "" ELSE "error_as_string"

(* ===== predefined register constants ========================================================================== *)
NamedReg(arch, name) ==
  IF arch = "x86" THEN
    CASE IndexOf(Gp8LoNames, name) # 0 -> <<RtGp8Lo, IndexOf(Gp8LoNames, name) - 1>>
      [] IndexOf(Gp8HiNames, name) # 0 -> <<RtGp8Hi, IndexOf(Gp8HiNames, name) - 1>>      \* AH/CH/DH/BH share the ids of AX/CX/DX/BX
      [] IndexOf(Gp16Names, name) # 0 -> <<RtGp16, IndexOf(Gp16Names, name) - 1>>
      [] IndexOf(Gp32Names, name) # 0 -> <<RtGp32, IndexOf(Gp32Names, name) - 1>>
      [] IndexOf(Gp64Names, name) # 0 -> <<RtGp64, IndexOf(Gp64Names, name) - 1>>
      [] IndexOf(SegNames, name) # 0 -> <<RtSegment, IndexOf(SegNames, name) - 1>>
      [] name = "rip" -> <<RtPC, 0>>
      [] OTHER -> <<-1, -1>>
  ELSE CASE name = "wzr" -> <<RtGp32, A64Zr>> [] name = "xzr" -> <<RtGp64, A64Zr>> [] name = "wsp" -> <<RtGp32, A64Sp>> [] name = "sp" -> <<RtGp64, A64Sp>>
         [] OTHER -> <<-1, -1>>
FamilyReg(arch, fam, n) == LET F == IF arch = "x86" THEN X86Families ELSE A64Families IN
                           IF \E i \in 1..Len(F) : F[i][1] = fam /\ n < F[i][3] THEN <<(CHOOSE i \in 1..Len(F) : F[i][1] = fam)[2], n>> ELSE <<-1, -1>>
RegNameVerdict(o) ==
  LET e == IF o.fam = "" THEN NamedReg(o.arch, o.name)
           ELSE LET F == IF o.arch = "x86" THEN X86Families ELSE A64Families i == CHOOSE i \in 1..Len(F) : F[i][1] = o.fam IN
                IF o.n < F[i][3] THEN <<F[i][2], o.n>> ELSE <<-1, -1>>
  IN IF e[1] = -1 THEN "harness"
     ELSE IF SigOfLimbs(o.sig) # SigBitsOf(e[1]) THEN "regname:type:" \o o.arch \o ":" \o o.name
     ELSE IF o.id # W32(e[2]) THEN "regname:id:" \o o.arch \o ":" \o o.name
     ELSE IF ~o.d0 THEN "regname:data" ELSE ""

(* virtual ids: "virtual identifiers start from kVirtIdMin (256) and end at kVirtIdMax (kInvalidId - 1)" *)
VirtIdVerdict(o) == LET x == BitsOfLimbs(o.x) IN
  IF o.isvirt # (~ULt(x, OfNat(256, 32)) /\ o.x # InvalidId) THEN "is_virt_id"
  ELSE IF BitsOfLimbs(o.toid) # Add(x, OfNat(256, 32)) THEN "virt_index_to_virt_id"
  ELSE IF BitsOfLimbs(o.toidx) # Sub(x, OfNat(256, 32)) THEN "virt_id_to_index" ELSE ""

(* ===== OperandSignature field arithmetic ====================================================================== *)
SigFVerdict(o) ==
  LET f == o.f sig == SigOfLimbs(o.bits) v == o.v L == DocLayout m == SigOfLimbs(o.m)
      fld == SigGet(L, sig, f)
      setv == SigSet(L, sig, f, v)
      only == SigSet(L, SigZero, f, v)
      masked == [b \in 0..31 |-> IF b \in BitsOfField(L, f) THEN sig[b] ELSE 0]
      named == f \in {"optype", "regtype", "reggroup", "membase", "memindex", "pred", "size"}
  IN
  IF v > FieldMax(L, f) THEN "harness"
  ELSE IF o.get # fld THEN "sig:get_field:" \o f
  ELSE IF o.has # (fld # 0) THEN "sig:has_field:" \o f
  ELSE IF SigOfLimbs(o.set) # setv THEN "sig:set_field:" \o f                      \* the field is replaced, every other bit kept
  ELSE IF SigOfLimbs(o.repl) # setv THEN "sig:replaced_value:" \o f
  ELSE IF SigOfLimbs(o.from) # only THEN "sig:from_value:" \o f
  ELSE IF o.msig # (masked = only) \/ o.mf # (masked = only) \/ o.mfs # (masked = only) THEN "sig:matches:" \o f
  ELSE IF o.a_ot # SigGet(L, sig, "optype") \/ o.a_rt # SigGet(L, sig, "regtype") \/ o.a_grp # SigGet(L, sig, "reggroup") \/ o.a_mb # SigGet(L, sig, "membase")
          \/ o.a_mi # SigGet(L, sig, "memindex") \/ o.a_pred # SigGet(L, sig, "pred") \/ o.a_size # SigGet(L, sig, "size") THEN "sig:named-getter"
  ELSE IF o.a_valid # (sig # SigZero) \/ o.a_not # (sig = SigZero) \/ o.a_bool # (sig # SigZero) THEN "sig:is_valid"
  ELSE IF o.a_isreg # (SigGet(L, sig, "optype") = OpReg) \/ o.a_isot # (SigGet(L, sig, "optype") = v % 8) THEN "sig:is_op_type"
  ELSE IF o.a_isregt # (SigGet(L, sig, "optype") = OpReg /\ SigGet(L, sig, "regtype") = v % 32) THEN "sig:is_reg(type)"
  ELSE IF o.a_isregg # (SigGet(L, sig, "optype") = OpReg /\ SigGet(L, sig, "reggroup") = v % 16) THEN "sig:is_reg(group)"
  ELSE IF named /\ SigOfLimbs(o.nset) # setv THEN "sig:named-setter:" \o f
  ELSE IF named /\ SigOfLimbs(o.nfrom) # only THEN "sig:named-from:" \o f
  ELSE IF SigOfLimbs(o.and) # [b \in 0..31 |-> sig[b] * m[b]] \/ SigOfLimbs(o.subset) # [b \in 0..31 |-> sig[b] * m[b]] THEN "sig:and"
  ELSE IF SigOfLimbs(o.or) # [b \in 0..31 |-> IF sig[b] + m[b] > 0 THEN 1 ELSE 0] THEN "sig:or"
  ELSE IF SigOfLimbs(o.xor) # [b \in 0..31 |-> (sig[b] + m[b]) % 2] \/ SigOfLimbs(o.not) # [b \in 0..31 |-> 1 - sig[b]] THEN "sig:xor-not"
  ELSE IF o.eqm # (sig = m) \/ o.nem # (sig # m) THEN "sig:eq"
  ELSE IF o.hasv # (fld = v) \/ ~o.hasself THEN "sig:has_field(value)"            \* has_field<Mask>(value): the field equals value
  ELSE ""

TableVerdict(o) ==
  CASE o.k = "typeid" -> TypeVerdict(o) [] o.k = "cxxtype" -> CxxVerdict(o) [] o.k = "regtrait" -> RegTraitVerdict(o) [] o.k = "vecsize" -> VecSizeVerdict(o)
    [] o.k = "arch" -> ArchVerdict(o) [] o.k = "t2r" -> T2RVerdict(o) [] o.k = "host" -> HostVerdict(o) [] o.k = "err" -> ErrVerdict(o)
    [] o.k = "regname" -> RegNameVerdict(o) [] o.k = "virtid" -> VirtIdVerdict(o) [] o.k = "sigf" -> SigFVerdict(o)
    [] OTHER -> "harness"
=============================================================================
