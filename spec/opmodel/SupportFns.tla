------------------------------ MODULE SupportFns ------------------------------
(* X04 - reference semantics of the pure helpers of asmjit/support/support.h, written from their doc comments  *)
(* (and, where a helper has none, from its name's standard meaning: byteswap, align_up, ...), as mathematics   *)
(* on bit vectors (BV.tla) - never as the C++ bit tricks the header uses.                                       *)
(* SupVerdict(o) = "" iff observation o (one call of the real helper, recorded by harness/opmodel.cpp) agrees.  *)
(* Preconditions the header states (clz/ctz: "The input MUST NOT be zero"; shift counts below the width;        *)
(* alignments that are powers of two) are established by the harness and re-checked here ("harness").           *)
EXTENDS BV, TLC

Has(o, f) == f \in DOMAIN o
W(o) == o.w
Sg(o) == Has(o, "sg") /\ o.sg
A(o) == BitsOfBytes(o.a)
Bv(o) == BitsOfBytes(o.b)
Cv(o) == BitsOfBytes(o.c)
RV(o) == BitsOfBytes(o.rv)
Popcnt(x) == Cardinality(SetBits(x))
Ctz(x) == MinOf(SetBits(x))
Clz(x) == Len(x) - 1 - MaxOf(SetBits(x))
Pow2(n, w) == OfSet({n}, w)
(* smallest / largest of three, by the order of the type *)
MinOf3(S, sgn) == CHOOSE m \in S : \A y \in S : m = y \/ Lt(m, y, sgn)
MaxOf3(S, sgn) == CHOOSE m \in S : \A y \in S : m = y \/ Lt(y, m, sgn)

(* exact arithmetic on the mathematical integers the words denote: extend to twice the width first *)
Wide(x, sgn) == Ext(x, 2 * Len(x), sgn)
Overflows(exact, w, sgn) == exact # Ext(Trunc(exact, w), Len(exact), sgn)

MemBits(o, bytes) == BitsOfBytes(bytes)
Endian(o) == IF o.bo = "native" THEN "le" ELSE o.bo            \* the observed machine is little endian (host row, checked there)
(* the bytes of memory that a w-bit access at offset n touches, as a value *)
ValueAt(mem, n, nbytes, bo) == LET raw == BitsOfBytes(Tab([j \in 1..nbytes |-> mem[n + j]])) IN IF bo = "be" THEN ReverseBytes(raw) ELSE raw

IsSortedAsc(s) == \A i \in 1..(Len(s) - 1) : s[i] <= s[i + 1]
IsSortedDesc(s) == \A i \in 1..(Len(s) - 1) : s[i] >= s[i + 1]
Count(s, v) == Cardinality({i \in 1..Len(s) : s[i] = v})
SamePerm(a, b) == Len(a) = Len(b) /\ \A i \in 1..Len(a) : Count(a, a[i]) = Count(b, a[i])

ArrOp(op, x, y) ==
  CASE op = "or" -> Or(x, y) [] op = "and" -> And(x, y) [] op = "xor" -> Xor(x, y) [] op = "add" -> Add(x, y) [] op = "sub" -> Sub(x, y)
    [] op = "andnot" -> And(x, Not(y)) [] op = "min" -> (IF ULt(y, x) THEN y ELSE x) [] op = "max" -> (IF ULt(x, y) THEN y ELSE x)
RECURSIVE FoldArr(_, _, _, _)
FoldArr(op, acc, xs, i) == IF i > Len(xs) THEN acc ELSE FoldArr(op, ArrOp(op, acc, xs[i]), xs, i + 1)

(* hash_string: "hash_char(existing_hash, c) = existing_hash * 65599 + c" folded over the bytes, modulo 2^32 *)
RECURSIVE HashFrom(_, _, _)
HashFrom(h, s, i) == IF i > Len(s) THEN h ELSE HashFrom(Add(Mul(h, OfNat(65599, 32)), OfNat(s[i], 32)), s, i + 1)
(* lexicographic comparison of byte strings, then by length: -1 / 0 / 1 *)
RECURSIVE CmpFrom(_, _, _)
CmpFrom(a, b, i) == IF i > Len(a) \/ i > Len(b) THEN (IF Len(a) < Len(b) THEN -1 ELSE IF Len(a) > Len(b) THEN 1 ELSE 0)
                    ELSE IF a[i] < b[i] THEN -1 ELSE IF a[i] > b[i] THEN 1 ELSE CmpFrom(a, b, i + 1)
(* offset of the id-th string inside "s0\0s1\0..." *)
RECURSIVE PackedOffset(_, _, _)
PackedOffset(p, id, pos) == IF id = 0 THEN pos ELSE LET z == MinOf({j \in (pos + 1)..Len(p) : p[j] = 0}) IN PackedOffset(p, id - 1, z)
AsciiLower(c) == IF c >= 65 /\ c <= 90 THEN c + 32 ELSE c
AsciiUpper(c) == IF c >= 97 /\ c <= 122 THEN c - 32 ELSE c

SupVerdict(o) ==
  LET f == o.f w == o.w IN
  CASE f = "clz" -> IF IsZero(A(o)) THEN "harness"         \* "Count leading zeros in x ... The input MUST NOT be zero"
                    ELSE IF o.rn2 # Clz(A(o)) THEN "clz_t" ELSE IF o.rn # Clz(A(o)) THEN "clz" ELSE ""
    [] f = "ctz" -> IF IsZero(A(o)) THEN "harness"         \* "Count trailing zeros in x"
                    ELSE IF o.rn2 # Ctz(A(o)) THEN "ctz_t" ELSE IF o.rn # Ctz(A(o)) THEN "ctz" ELSE ""
    [] f = "popcnt" -> IF o.rn # Popcnt(A(o)) THEN "popcnt" ELSE IF o.rn2 # Popcnt(A(o)) THEN "popcnt_t" ELSE ""   \* "count of bits set to 1"
    (* "Returns x & -x - extracts the lowest set isolated bit (like BLSI instruction)." *)
    [] f = "blsi" -> IF RV(o) = (IF IsZero(A(o)) THEN Zeros(w) ELSE Pow2(Ctz(A(o)), w)) THEN "" ELSE "blsi"
    (* "Fills all trailing bits right of the given value from the first most significant bit set." *)
    [] f = "fill_trailing_bits" -> IF RV(o) = Tab([k \in 1..w |-> IF \E j \in k..w : A(o)[j] = 1 THEN 1 ELSE 0]) THEN "" ELSE "fill_trailing_bits"
    [] f = "is_power_of_2" -> IF o.rb = (Popcnt(A(o)) = 1) THEN "" ELSE "is_power_of_2"          \* "only one bit is set"
    [] f = "is_zero_or_power_of_2" -> IF o.rb = (Popcnt(A(o)) <= 1) THEN "" ELSE "is_zero_or_power_of_2"
    (* "Tests whether x is a power of two up to n." *)
    [] f = "is_power_of_2_up_to" -> IF o.rb = (Popcnt(A(o)) = 1 /\ ULe(A(o), OfNat(o.n, w))) THEN "" ELSE "is_power_of_2_up_to"
    [] f = "is_zero_or_power_of_2_up_to" -> IF o.rb = (Popcnt(A(o)) <= 1 /\ ULe(A(o), OfNat(o.n, w))) THEN "" ELSE "is_zero_or_power_of_2_up_to"
    (* "Tests whether the given value has at least 2 bits set.  The operation it performs could be rewritten as popcnt(value) >= 2" *)
    [] f = "has_at_least_2_bits_set" -> IF o.rb = (Popcnt(A(o)) >= 2) THEN "" ELSE "has_at_least_2_bits_set"
    [] f = "byteswap" -> IF RV(o) # ReverseBytes(A(o)) THEN "byteswap" ELSE IF Has(o, "same") /\ ~o.same THEN "byteswapN" ELSE ""
    (* "Returns 0 - x in a safe way (no undefined behavior), works for unsigned numbers as well." *)
    [] f = "neg" -> IF RV(o) = Neg(A(o)) THEN "" ELSE "neg"
    (* align_up_power_of_2: the smallest power of two >= x (0 for 0; wraps to 0 above 2^(w-1)) *)
    [] f = "align_up_power_of_2" -> LET x == A(o) IN
         IF RV(o) = (IF IsZero(x) THEN Zeros(w) ELSE IF Popcnt(x) = 1 THEN x ELSE IF MaxOf(SetBits(x)) = w - 1 THEN Zeros(w) ELSE Pow2(MaxOf(SetBits(x)) + 1, w))
         THEN "" ELSE "align_up_power_of_2"
    (* "Returns x << y (shift left logical)", "value >> n (shift right logical)", "(shift right arithmetic)" *)
    [] f = "shl" -> IF o.n >= w THEN "harness" ELSE IF RV(o) = Shl(A(o), o.n) THEN "" ELSE "shl"
    [] f = "shr" -> IF o.n >= w THEN "harness" ELSE IF RV(o) = Shr(A(o), o.n) THEN "" ELSE "shr"
    [] f = "sar" -> IF o.n >= w THEN "harness" ELSE IF RV(o) = Sar(A(o), o.n) THEN "" ELSE "sar"
    [] f = "ror" -> IF o.n >= w \/ o.n = 0 THEN "harness" ELSE IF RV(o) = Ror(A(o), o.n) THEN "" ELSE "ror"
    [] f = "bit_test" -> IF o.n >= w THEN "harness" ELSE IF o.rb = (A(o)[o.n + 1] = 1) THEN "" ELSE "bit_test"   \* "has nth bit set"
    (* "Generates a trailing bit-mask that has n least significant bits set." *)
    [] f = "lsb_mask" -> IF o.n > w THEN "harness" ELSE IF RV(o) # [k \in 1..w |-> IF k <= o.n THEN 1 ELSE 0] THEN "lsb_mask" ELSE IF ~o.same THEN "lsb_mask_const" ELSE ""
    (* "Generates a leading bit-mask that has n most significant (leading) bits set." *)
    [] f = "msb_mask" -> IF o.n > w THEN "harness" ELSE IF RV(o) = [k \in 1..w |-> IF k > w - o.n THEN 1 ELSE 0] THEN "" ELSE "msb_mask"
    (* "Returns a bit-mask that has x bit set." / "(multiple arguments)" *)
    [] f = "bit_mask" -> IF o.n >= w THEN "harness" ELSE IF RV(o) = Pow2(o.n, w) THEN "" ELSE "bit_mask"
    [] f = "bit_mask3" -> IF RV(o) = OfSet({o.n, o.n1, o.n2}, 32) THEN "" ELSE "bit_mask"
    (* "Converts a boolean value b to a mask, which either contains all zeros or all bits set" *)
    [] f = "bool_as_mask" -> IF RV(o) = (IF o.n # 0 THEN Ones(w) ELSE Zeros(w)) THEN "" ELSE "bool_as_mask"
    (* "Checks whether the given integer x can be casted to a signed / an unsigned N-bit integer." *)
    [] f = "fits" -> IF o.ri # FitsSigned(A(o), Sg(o), o.n) THEN "is_int_n" ELSE IF o.ru # FitsUnsigned(A(o), Sg(o), o.n) THEN "is_uint_n" ELSE ""
    (* "Checks whether x is greater than or equal to a and lesser than or equal to b." *)
    [] f = "is_between" -> IF o.rb = (~Lt(A(o), Bv(o), Sg(o)) /\ ~Lt(Cv(o), A(o), Sg(o))) THEN "" ELSE "is_between"
    [] f = "minmax" -> LET S3 == {A(o), Bv(o), Cv(o)} S2 == {A(o), Bv(o)} IN
         IF RV(o) # MinOf3(S3, Sg(o)) \/ BitsOfBytes(o.rv3) # MinOf3(S2, Sg(o)) THEN "min"
         ELSE IF BitsOfBytes(o.rv2) # MaxOf3(S3, Sg(o)) \/ BitsOfBytes(o.rv4) # MaxOf3(S2, Sg(o)) THEN "max" ELSE ""
    (* alignment to 2^n: is_aligned = multiple of the alignment; align_up / align_down = nearest multiple above / below (modulo 2^w);   *)
    (* align_up_diff: "zero or a positive difference between base and base when aligned to alignment"                                   *)
    [] f = "align" -> LET x == A(o) n == o.n
                          down == Tab([k \in 1..w |-> IF k <= n THEN 0 ELSE x[k]])
                          aligned == \A k \in 1..n : x[k] = 0
                          up == IF aligned THEN x ELSE Add(down, Pow2(n, w))
                      IN IF n >= w THEN "harness" ELSE IF o.rb # aligned THEN "is_aligned" ELSE IF RV(o) # up THEN "align_up"
                         ELSE IF BitsOfBytes(o.rv2) # down THEN "align_down" ELSE IF BitsOfBytes(o.rv3) # Sub(up, x) THEN "align_up_diff" ELSE ""
    (* overflow arithmetic: result = exact result modulo 2^w; *of is OR-ed with "the exact result is not representable in T" *)
    [] f \in {"add_overflow", "sub_overflow", "mul_overflow", "madd_overflow"} ->
         LET sgn == Sg(o) x == Wide(A(o), sgn) y == Wide(Bv(o), sgn) z == Wide(Cv(o), sgn)
             prod == Mul(x, y)
             exact == CASE f = "add_overflow" -> Add(x, y) [] f = "sub_overflow" -> Sub(x, y) [] f = "mul_overflow" -> prod
                        [] OTHER -> Add(Wide(Trunc(prod, w), sgn), z)
             ovf == IF f = "madd_overflow" THEN Overflows(prod, w, sgn) \/ Overflows(exact, w, sgn) ELSE Overflows(exact, w, sgn)
         IN IF RV(o) # Trunc(exact, w) THEN f ELSE IF o.of # (o.of0 # 0 \/ ovf) THEN f \o ":flag" ELSE ""
    (* loads / stores of 8..64-bit quantities, little / big endian / native, aligned or not; a store changes only its own bytes *)
    [] f = "load" -> IF o.n + w \div 8 > 24 \/ (o.al /\ o.n % 8 # 0) THEN "harness"
                     ELSE IF RV(o) = ValueAt(o.mem, o.n, w \div 8, Endian(o)) THEN "" ELSE "load:" \o o.bo
    [] f = "store" -> IF o.n + w \div 8 > 24 \/ (o.al /\ o.n % 8 # 0) THEN "harness"
                      ELSE IF ValueAt(o.after, o.n, w \div 8, Endian(o)) # A(o) THEN "store:" \o o.bo
                      ELSE IF \E j \in 1..24 : (j <= o.n \/ j > o.n + w \div 8) /\ o.after[j] # o.mem[j] THEN "store:outside" ELSE ""
    (* "Bit-casts from Src type to Dst type." - the bits are unchanged *)
    [] f = "bit_cast" -> IF RV(o) = A(o) /\ BitsOfBytes(o.rv2) = A(o) /\ BitsOfBytes(o.rv3) = A(o) THEN "" ELSE "bit_cast"
    [] f = "unpack" -> IF RV(o) = Slice(A(o), 0, 32) /\ BitsOfBytes(o.rv2) = Slice(A(o), 32, 32) /\ BitsOfBytes(o.rv3) = Slice(A(o), 0, 32) THEN "" ELSE "unpack_u32"
    (* "Pack four 8-bit integer into a 32-bit integer as it is an array of {b0,b1,b2,b3}." *)
    [] f = "bytepack" -> IF o.mem = o.p THEN "" ELSE "bytepack32_4x8"
    [] f = "ascii" -> IF o.lo # AsciiLower(o.n) \/ o.lo32 # AsciiLower(o.n) \/ o.loc # AsciiLower(o.n) THEN "ascii_to_lower"
                      ELSE IF o.up # AsciiUpper(o.n) \/ o.up32 # AsciiUpper(o.n) THEN "ascii_to_upper" ELSE ""
    [] f = "strings" -> IF BitsOfBytes(o.hash) # HashFrom(Zeros(32), o.sa, 1) THEN "hash_string"
                        ELSE IF o.cmp # CmpFrom(o.sa, o.sb, 1) THEN "compare_string_views"
                        ELSE IF o.nlen # MinOf({o.n} \cup {j - 1 : j \in {i \in 1..Len(o.sa) : o.sa[i] = 0}} \cup {Len(o.sa)}) THEN "str_nlen" ELSE ""
    [] f = "packed" -> IF Cardinality({j \in 1..Len(o.p) : o.p[j] = 0}) < o.n THEN "harness" ELSE IF o.rn = PackedOffset(o.p, o.n, 0) THEN "" ELSE "find_packed_string"
    (* Support::Array<uint32_t, 4>: combine<Op> is element-wise, aggregate<Op>(initial) folds from the initial value *)
    [] f = "array" -> LET X == Tab([i \in 1..4 |-> BitsOfLimbs(o.x[i])]) Y == Tab([i \in 1..4 |-> BitsOfLimbs(o.y[i])]) R == Tab([i \in 1..4 |-> BitsOfLimbs(o.r[i])])
                          nn == OfNat(o.n, 32) op == o.op
                          expR == CASE op = "fill" -> [i \in 1..4 |-> nn] [] op \in {"copy", "swap"} -> Y [] OTHER -> [i \in 1..4 |-> ArrOp(op, X[i], Y[i])]
                          expAgg == CASE op = "fill" -> nn [] op = "copy" -> Y[4] [] op = "swap" -> X[1] [] OTHER -> FoldArr(op, nn, X, 1)
                      IN IF R # expR THEN "array:" \o op ELSE IF BitsOfLimbs(o.agg) # expAgg THEN "array:aggregate:" \o op
                         ELSE IF o.eq # (X = Y) \/ o.ne # (X # Y) THEN "array:eq" ELSE IF o.size # 4 \/ o.empty \/ ~o.span THEN "array:shape" ELSE ""
    (* sort / insertion_sort: the result is the input ordered by the comparison *)
    [] f = "sort" -> IF ~SamePerm(o.x, o.r) THEN "sort:" \o o.alg \o ":perm"
                     ELSE IF ~(IF o.desc THEN IsSortedDesc(o.r) ELSE IsSortedAsc(o.r)) THEN "sort:" \o o.alg \o ":order" ELSE ""
    (* BitWordIterator: "Iterates over each bit in a number which is set to 1" (ascending) *)
    [] f = "bwiter" -> LET S == SetBits(A(o)) IN
                       IF Len(o.r) = Cardinality(S) /\ {o.r[i] : i \in 1..Len(o.r)} = S /\ IsSortedAsc(o.r) THEN "" ELSE "BitWordIterator"
    [] OTHER -> "harness"
=============================================================================
