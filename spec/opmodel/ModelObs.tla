------------------------------- MODULE ModelObs -------------------------------
(* X04 - pointwise conformance (binding P): every line of the observation file (env OBS) is one initial state; *)
(* the invariant is the verdict of the reference model on that line.  A rejected line is printed as            *)
(* <<"REJECT", line, clause>>; TLC runs with -continue so that all of them are seen.                           *)
EXTENDS TableModel, SupportFns, Json, IOUtils

VARIABLE i
ObsFile == IF "OBS" \in DOMAIN IOEnv THEN IOEnv.OBS ELSE "obs.ndjson"
Obs == ndJsonDeserialize(ObsFile)

Init == i \in 1..Len(Obs)
Next == UNCHANGED i
Spec == Init /\ [][Next]_i

Verdict(o) == IF o.k = "sup" THEN SupVerdict(o) ELSE TableVerdict(o)
Conforms == LET v == Verdict(Obs[i]) IN IF v = "" THEN TRUE ELSE PrintT(<<"REJECT", i, v>>) /\ FALSE

(* spec-level sanity, checked once per run *)
ASSUME LayoutLossless(DocLayout)
ASSUME ErrDistinct
ASSUME \A t \in 0..255 : Len(TypeFlags(t)) = 35
=============================================================================
