SPECIFICATION Spec
CONSTANTS
  MCMachines = {"x86mem", "a64mem", "basemem", "x86reg", "a64reg", "imm", "label", "reglist", "regonly", "env"}
  Layout <- DocLayout
  Bug = "none"
  MaxDepth = 3
  ExportDepth = 0
CONSTRAINT Bounded
INVARIANTS TypeInv Lossless DocInv
PROPERTIES Frame RoundTrip
