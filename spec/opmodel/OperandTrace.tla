----------------------------- MODULE OperandTrace -----------------------------
(* X04 - trace validation: a recorded execution of the REAL operand classes (harness/opmodel.cpp record /      *)
(* script) is accepted iff it is a behaviour of the contract Operand.tla.                                       *)
(* Every line is one API call {"e": call, args..., "o": {answers of every getter after the call}};             *)
(* {"e":"Reset","m":machine,"o":{...}} starts an execution with a default-constructed object.                   *)
(* A line is consumed iff  View(Apply(s, line)) agrees with line.o on every judged field.                       *)
EXTENDS Operand, TraceLib

VARIABLES s, l
tvars == <<s, l>>
T == TraceLog
Ev == T[l]

(* the getters of the real object agree with the contract; a disagreement is printed (diagnostics only) *)
ViewOK(n, o) == LET v == View(n)
                    bad == {f \in DOMAIN v \ Unjudged(n) : f \notin DOMAIN o \/ o[f] # v[f]}
                IN IF bad = {} THEN TRUE ELSE PrintT(<<"MISMATCH", l, bad>>) /\ FALSE

TInit == s = [m |-> "none"] /\ l = 1 /\ InitProgress
TReset == /\ l <= Len(T) /\ Ev.e = "Reset" /\ Ev.m \in Machines
          /\ s' = InitOf(Ev.m) /\ ViewOK(InitOf(Ev.m), Ev.o) /\ l' = l + 1
TCall == /\ l <= Len(T) /\ Ev.e # "Reset" /\ s.m # "none"
         /\ Ev.e # "ABORT"                                      \* a truncated execution (crash / sanitizer abort) is never accepted
         /\ IF Ev.e \in EventsOf(s.m) /\ Pre(s, Ev) THEN TRUE ELSE PrintT(<<"HARNESS", l>>) /\ FALSE      \* malformed call: broken check, not a finding
         /\ LET n == Apply(s, Ev) IN s' = n /\ ViewOK(n, Ev.o)
         /\ l' = l + 1
TNext == TReset \/ TCall
TSpec == TInit /\ [][TNext]_tvars

TypeInv == s.m = "none" \/ TypeOK(s)
Progress == NoteProgress(l)
TraceAccepted == Accepted(Len(T))
=============================================================================
