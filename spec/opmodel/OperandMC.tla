------------------------------ MODULE OperandMC ------------------------------
(* X04 - model checking of the operand contract itself (Operand.tla) and export of behaviours.              *)
(*                                                                                                          *)
(* One TLC action per public API call (so that `-coverage` shows that every call was taken), arguments      *)
(* from small boundary alphabets.  Checked on every reachable state / step:                                 *)
(*   TypeInv     the abstract operand stays within the documented value ranges;                             *)
(*   Lossless    packing the abstract operand into the 32-bit signature with the documented field layout    *)
(*               and reading the fields back gives the same operand (Unpack(Pack(s)) = s);                  *)
(*   DocInv      the cross-getter relations the headers state ("If this is true then has_base() must       *)
(*               always report false", is_gp8 = lo or hi, is_int8 implies is_int16 ...);                    *)
(*   Frame       (action property) a call changes only the fields its frame table names;                    *)
(*   RoundTrip   (action property) what a setter stored is what the matching getter returns.                *)
(* Negative controls (must FAIL): Layout <- OverlapLayout breaks Lossless; Bug = "seg_clobbers_shift"       *)
(* breaks Frame; Bug = "offset_drops_high" breaks RoundTrip.                                                *)
EXTENDS Operand, Json

CONSTANTS MCMachines,     \* machines explored in this run
          Layout,         \* field layout used by Lossless
          Bug,            \* "none" or the name of an injected contract bug (negative controls)
          MaxDepth,       \* bound on the length of explored histories (BFS level)
          ExportDepth     \* behaviours of this length are printed (0 = no export)

VARIABLES s, last, hist
vars == <<s, last, hist>>

(* negative-control layout: the x86 segment field one bit too low (overlaps the shift field), a64 element  *)
(* index one bit too low (overlaps the element flag)                                                       *)
OverlapLayout == [DocLayout EXCEPT !.x86seg = <<17, 3>>, !.a64ei = <<15, 4>>]

(* ---- argument alphabets --------------------------------------------------------------------------------- *)
Ids   == {Z32, W32(1), W32(31), W32(255), W32(256), <<0, 32768>>, InvalidId}
Rts   == {0, RtLabelTag, RtGp32, RtGp64, RtVec128, RtPC}
V64   == {Z64, <<1, 0, 0, 0>>, <<65535, 65535, 65535, 65535>>, <<0, 32768, 0, 0>>, <<65535, 32767, 0, 0>>, <<0, 0, 1, 0>>, <<0, 0, 0, 32768>>, <<4660, 22136, 39612, 57072>>}
V32   == {Z32, W32(1), <<65535, 65535>>, <<0, 32768>>, <<65535, 32767>>}
RegRts == {RtGp8Lo, RtGp8Hi, RtGp32, RtGp64, RtVec64, RtVec128, RtVec512, RtMask, RtSegment, RtSt, RtPC}

ApplyMC(st, ev) ==
  LET n == Apply(st, ev) IN
  CASE Bug = "seg_clobbers_shift" /\ ev.e = "set_segment" -> [n EXCEPT !.sh = 0]
    [] Bug = "offset_drops_high" /\ ev.e = "set_offset" -> [n EXCEPT !.bid = st.bid]
    [] OTHER -> n

Do(ev) == /\ ev.e \in EventsOf(s.m) /\ Pre(s, ev)
          /\ s' = ApplyMC(s, ev) /\ last' = ev
          /\ hist' = IF ExportDepth > 0 THEN Append(hist, ev) ELSE hist

Init == \E m \in MCMachines : s = InitOf(m) /\ last = [e |-> "Reset", m |-> m] /\ hist = <<>>

(* ---- memory operands -------------------------------------------------------------------------------------- *)
ShiftVals == IF s.m = "a64mem" THEN {0, 1, 31} ELSE {0, 1, 3}
M_reset             == IsMem(s) /\ Do([e |-> "reset"])
M_make_x86          == s.m = "x86mem" /\ \E form \in {"b", "bi", "l", "li", "r", "a", "ai"}, fn \in {<<"ptr", "ptr", "">>, <<"ptr_abs", "ptr", "abs">>, <<"ptr_rel", "ptr", "rel">>, <<"dword_ptr", "dword_ptr", "">>, <<"zmmword_ptr_rel", "zmmword_ptr", "rel">>, <<"tbyte_ptr_abs", "tbyte_ptr", "abs">>},
                          bid \in {W32(5), W32(300)}, irt \in {RtGp64, RtVec256}, sh \in {0, 3}, off \in {Z32, <<65535, 65535>>}, size \in {0, 8} :
                          /\ fn[3] # "" => form \in {"a", "ai"}
                          /\ Do([e |-> "make", fn |-> fn[1], base_fn |-> fn[2], sfx |-> fn[3], form |-> form, brt |-> IF form = "r" THEN RtPC ELSE RtGp64, bid |-> IF form = "r" THEN Z32 ELSE bid,
                                 irt |-> irt, iid |-> W32(1), sh |-> sh, off |-> off, abs |-> <<4660, 22136, 39612, 57072>>, size |-> size])
M_make_a64          == s.m = "a64mem" /\ \E ff \in {<<"ptr", "b">>, <<"ptr", "bi">>, <<"ptr", "bis">>, <<"ptr", "l">>, <<"ptr", "a">>, <<"ptr_pre", "b">>, <<"ptr_pre", "bi">>, <<"ptr_post", "b">>, <<"ptr_post", "bi">>},
                          bid \in {W32(31), W32(300)}, sop \in {0, 8, 13}, sh \in {0, 4}, off \in {Z32, <<65520, 65535>>} :
                          Do([e |-> "make", fn |-> ff[1], form |-> ff[2], brt |-> RtGp64, bid |-> bid, irt |-> RtGp64, iid |-> W32(2), sop |-> sop, sh |-> sh, off |-> off,
                              abs |-> <<4660, 22136, 39612, 57072>>])
M_make_base         == IsMem(s) /\ \E rt \in {RtGp32, RtGp64}, id \in {W32(3), W32(256)}, off \in V32 : Do([e |-> "make_base", rt |-> rt, id |-> id, off |-> off])
M_set_base_id       == IsMem(s) /\ \E id \in Ids : Do([e |-> "set_base_id", id |-> id])
M_set_base_type     == IsMem(s) /\ \E rt \in Rts : Do([e |-> "set_base_type", rt |-> rt])
M_set_index_id      == IsMem(s) /\ \E id \in Ids : Do([e |-> "set_index_id", id |-> id])
M_set_index_type    == IsMem(s) /\ \E rt \in Rts : Do([e |-> "set_index_type", rt |-> rt])
M_set_base          == IsMem(s) /\ \E rt \in Rts \ {0, 1}, id \in Ids : Do([e |-> "set_base", rt |-> rt, id |-> id])
M_set_index         == IsMem(s) /\ \E rt \in Rts \ {0, 1}, id \in Ids : Do([e |-> "set_index", rt |-> rt, id |-> id])
M_reset_base        == IsMem(s) /\ Do([e |-> "reset_base"])
M_reset_index       == IsMem(s) /\ Do([e |-> "reset_index"])
M_set_offset        == IsMem(s) /\ \E v \in V64 : Do([e |-> "set_offset", v |-> v])
M_set_offset_lo32   == IsMem(s) /\ \E v \in V32 : Do([e |-> "set_offset_lo32", v |-> v])
M_add_offset        == IsMem(s) /\ \E v \in V64 : Do([e |-> "add_offset", v |-> v])
M_clone_adjusted    == IsMem(s) /\ \E v \in V64 : Do([e |-> "clone_adjusted", v |-> v])
M_add_offset_lo32   == IsMem(s) /\ \E v \in V32 : Do([e |-> "add_offset_lo32", v |-> v])
M_reset_offset      == IsMem(s) /\ Do([e |-> "reset_offset"])
M_reset_offset_lo32 == IsMem(s) /\ Do([e |-> "reset_offset_lo32"])
M_set_reg_home      == IsMem(s) /\ Do([e |-> "set_reg_home"])
M_clear_reg_home    == IsMem(s) /\ Do([e |-> "clear_reg_home"])
M_clone             == IsMem(s) /\ Do([e |-> "clone"])
M_set_size          == IsMem(s) /\ \E n \in {0, 1, 16, 255} : Do([e |-> "set_size", n |-> n])
M_clone_resized     == IsMem(s) /\ \E n \in {0, 10, 64} : Do([e |-> "clone_resized", n |-> n])
M_set_addr_type     == IsMem(s) /\ \E n \in 0..2 : Do([e |-> "set_addr_type", n |-> n])
M_reset_addr_type   == IsMem(s) /\ Do([e |-> "reset_addr_type"])
M_set_addr_abs      == IsMem(s) /\ Do([e |-> "set_addr_abs"])
M_set_addr_rel      == IsMem(s) /\ Do([e |-> "set_addr_rel"])
M_set_segment       == IsMem(s) /\ \E n \in {0, 1, 5, 6} : Do([e |-> "set_segment", n |-> n])
M_reset_segment     == IsMem(s) /\ Do([e |-> "reset_segment"])
M_set_shift         == IsMem(s) /\ \E n \in ShiftVals : Do([e |-> "set_shift", n |-> n])
M_reset_shift       == IsMem(s) /\ Do([e |-> "reset_shift"])
M_set_index_shift   == IsMem(s) /\ \E rt \in {RtGp64, RtVec128}, n \in ShiftVals : Do([e |-> "set_index_shift", rt |-> rt, id |-> W32(7), n |-> n])
M_set_broadcast     == IsMem(s) /\ \E n \in {0, 1, 6} : Do([e |-> "set_broadcast", n |-> n])
M_clone_broadcasted == IsMem(s) /\ \E n \in {0, 3, 6} : Do([e |-> "clone_broadcasted", n |-> n])
M_reset_broadcast   == IsMem(s) /\ Do([e |-> "reset_broadcast"])
M_set_offset_mode   == IsMem(s) /\ \E n \in 0..2 : Do([e |-> "set_offset_mode", n |-> n])
M_reset_offset_mode == IsMem(s) /\ Do([e |-> "reset_offset_mode"])
M_make_pre_index    == IsMem(s) /\ Do([e |-> "make_pre_index"])
M_make_post_index   == IsMem(s) /\ Do([e |-> "make_post_index"])
M_pre               == IsMem(s) /\ Do([e |-> "pre"])
M_post              == IsMem(s) /\ Do([e |-> "post"])
M_pre_off           == IsMem(s) /\ \E v \in V64 : Do([e |-> "pre_off", v |-> v])
M_post_off          == IsMem(s) /\ \E v \in V64 : Do([e |-> "post_off", v |-> v])
M_set_shift_op      == IsMem(s) /\ \E n \in {0, 1, 13} : Do([e |-> "set_shift_op", n |-> n])
M_reset_shift_op    == IsMem(s) /\ Do([e |-> "reset_shift_op"])
M_set_shift_s       == IsMem(s) /\ \E sop \in {0, 6, 13}, n \in {0, 31} : Do([e |-> "set_shift_s", sop |-> sop, n |-> n])
M_set_index_shift_s == IsMem(s) /\ \E sop \in {0, 12}, n \in {0, 3} : Do([e |-> "set_index_shift_s", rt |-> RtGp32, id |-> W32(9), sop |-> sop, n |-> n])
MemNext == \/ M_reset \/ M_make_x86 \/ M_make_a64 \/ M_make_base \/ M_set_base_id \/ M_set_base_type \/ M_set_index_id \/ M_set_index_type
           \/ M_set_base \/ M_set_index \/ M_reset_base \/ M_reset_index \/ M_set_offset \/ M_set_offset_lo32 \/ M_add_offset \/ M_clone_adjusted
           \/ M_add_offset_lo32 \/ M_reset_offset \/ M_reset_offset_lo32 \/ M_set_reg_home \/ M_clear_reg_home \/ M_clone \/ M_set_size
           \/ M_clone_resized \/ M_set_addr_type \/ M_reset_addr_type \/ M_set_addr_abs \/ M_set_addr_rel \/ M_set_segment \/ M_reset_segment
           \/ M_set_shift \/ M_reset_shift \/ M_set_index_shift \/ M_set_broadcast \/ M_clone_broadcasted \/ M_reset_broadcast
           \/ M_set_offset_mode \/ M_reset_offset_mode \/ M_make_pre_index \/ M_make_post_index \/ M_pre \/ M_post \/ M_pre_off \/ M_post_off
           \/ M_set_shift_op \/ M_reset_shift_op \/ M_set_shift_s \/ M_set_index_shift_s

(* ---- registers -------------------------------------------------------------------------------------------- *)
CastNames == IF s.m = "x86reg" THEN DOMAIN X86Casts ELSE DOMAIN A64Casts
R_reset               == IsRegM(s) /\ Do([e |-> "reset"])
R_default             == IsRegM(s) /\ Do([e |-> "default"])
R_make                == IsRegM(s) /\ \E rt \in RegRts, id \in Ids : Do([e |-> "make", rt |-> rt, id |-> id])
R_set_id              == IsRegM(s) /\ \E id \in Ids \cup {W32(63)} : Do([e |-> "set_id", id |-> id])
R_set_predicate       == IsRegM(s) /\ \E n \in {0, 1, 15} : Do([e |-> "set_predicate", n |-> n])
R_reset_predicate     == IsRegM(s) /\ Do([e |-> "reset_predicate"])
R_set_reg_t           == IsRegM(s) /\ \E rt \in RegRts, id \in {W32(2), W32(256)} : Do([e |-> "set_reg_t", rt |-> rt, id |-> id])
R_set_signature_and_id == IsRegM(s) /\ \E rt \in RegRts, n \in {0, 9}, id \in {W32(2), W32(255)} : Do([e |-> "set_signature_and_id", rt |-> rt, n |-> n, id |-> id])
R_clone_as            == IsRegM(s) /\ \E rt \in RegRts, n \in {0, 15} : Do([e |-> "clone_as", rt |-> rt, n |-> n])
R_clone               == IsRegM(s) /\ Do([e |-> "clone"])
R_cast                == IsRegM(s) /\ \E fn \in CastNames : Do([e |-> "cast", fn |-> fn])
R_half                == IsRegM(s) /\ Do([e |-> "half"])
R_arrangement         == IsRegM(s) /\ \E fn \in DOMAIN A64Arrangements : Do([e |-> "arrangement", fn |-> fn])
R_element             == IsRegM(s) /\ \E fn \in DOMAIN A64ElementAccess, n \in {0, 1, 15} : Do([e |-> "element", fn |-> fn, n |-> n])
R_make_et             == IsRegM(s) /\ \E rt \in {RtVec32, RtVec64, RtVec128}, n \in {0, 1, 6} : Do([e |-> "make_et", rt |-> rt, n |-> n, id |-> W32(30)])
R_make_ei             == IsRegM(s) /\ \E et \in {1, 4, 6}, n \in {0, 15} : Do([e |-> "make_ei", et |-> et, n |-> n, id |-> W32(0)])
R_set_element_type    == IsRegM(s) /\ \E n \in {0, 1, 6} : Do([e |-> "set_element_type", n |-> n])
R_reset_element_type  == IsRegM(s) /\ Do([e |-> "reset_element_type"])
R_set_element_index   == IsRegM(s) /\ \E n \in {0, 1, 15} : Do([e |-> "set_element_index", n |-> n])
R_reset_element_index == IsRegM(s) /\ Do([e |-> "reset_element_index"])
R_at                  == IsRegM(s) /\ \E n \in {0, 7, 15} : Do([e |-> "at", n |-> n])
RegNext == \/ R_reset \/ R_default \/ R_make \/ R_set_id \/ R_set_predicate \/ R_reset_predicate \/ R_set_reg_t \/ R_set_signature_and_id
           \/ R_clone_as \/ R_clone \/ R_cast \/ R_half \/ R_arrangement \/ R_element \/ R_make_et \/ R_make_ei \/ R_set_element_type
           \/ R_reset_element_type \/ R_set_element_index \/ R_reset_element_index \/ R_at

(* ---- immediates ------------------------------------------------------------------------------------------- *)
IntVals(T) == LET w == IntTypes[T][1] IN
              IF w = 64 THEN V64 ELSE {LimbsOfBits(ZExt(Trunc(BitsOfLimbs(v), w), 64)) : v \in V64}
I_reset             == s.m = "imm" /\ Do([e |-> "reset"])
I_default           == s.m = "imm" /\ Do([e |-> "default"])
I_make_int          == s.m = "imm" /\ \E T \in DOMAIN IntTypes : \E v \in IntVals(T), n \in {0, 3} : Do([e |-> "make_int", T |-> T, v |-> v, n |-> n])
I_make_fp           == s.m = "imm" /\ \E T \in {"f32", "f64"}, d \in {Z64, <<0, 0, 0, 16368>>, <<0, 0, 0, 49152>>} : Do([e |-> "make_fp", T |-> T, d |-> d, n |-> 0])
I_make_shift        == s.m = "imm" /\ \E sop \in {0, 13}, v \in {Z32, W32(63)} : Do([e |-> "make_shift", sop |-> sop, v |-> v])
I_set_value_int     == s.m = "imm" /\ \E T \in DOMAIN IntTypes : \E v \in IntVals(T) : Do([e |-> "set_value_int", T |-> T, v |-> v])
I_set_value_fp      == s.m = "imm" /\ \E T \in {"f32", "f64"}, d \in {<<0, 0, 0, 16368>>} : Do([e |-> "set_value_fp", T |-> T, d |-> d])
I_set_type          == s.m = "imm" /\ \E n \in 0..1 : Do([e |-> "set_type", n |-> n])
I_reset_type        == s.m = "imm" /\ Do([e |-> "reset_type"])
I_set_predicate     == s.m = "imm" /\ \E n \in {0, 1, 15} : Do([e |-> "set_predicate", n |-> n])
I_reset_predicate   == s.m = "imm" /\ Do([e |-> "reset_predicate"])
I_clone             == s.m = "imm" /\ Do([e |-> "clone"])
I_sign_extend_int8  == s.m = "imm" /\ Do([e |-> "sign_extend_int8"])
I_sign_extend_int16 == s.m = "imm" /\ Do([e |-> "sign_extend_int16"])
I_sign_extend_int32 == s.m = "imm" /\ Do([e |-> "sign_extend_int32"])
I_zero_extend_uint8 == s.m = "imm" /\ Do([e |-> "zero_extend_uint8"])
I_zero_extend_uint16 == s.m = "imm" /\ Do([e |-> "zero_extend_uint16"])
I_zero_extend_uint32 == s.m = "imm" /\ Do([e |-> "zero_extend_uint32"])
ImmNext == \/ I_reset \/ I_default \/ I_make_int \/ I_make_fp \/ I_make_shift \/ I_set_value_int \/ I_set_value_fp \/ I_set_type \/ I_reset_type
           \/ I_set_predicate \/ I_reset_predicate \/ I_clone \/ I_sign_extend_int8 \/ I_sign_extend_int16 \/ I_sign_extend_int32
           \/ I_zero_extend_uint8 \/ I_zero_extend_uint16 \/ I_zero_extend_uint32

(* ---- label, register list, RegOnly, Environment ------------------------------------------------------------ *)
L_default  == s.m = "label" /\ Do([e |-> "default"])
L_make     == s.m = "label" /\ \E id \in Ids : Do([e |-> "make", id |-> id])
L_set_id   == s.m = "label" /\ \E id \in Ids : Do([e |-> "set_id", id |-> id])
L_reset    == s.m = "label" /\ Do([e |-> "reset"])
L_op_reset == s.m = "label" /\ Do([e |-> "op_reset"])
L_clone    == s.m = "label" /\ Do([e |-> "clone"])
LabelNext == L_default \/ L_make \/ L_set_id \/ L_reset \/ L_op_reset \/ L_clone

Masks == {Z32, W32(1), <<65535, 65535>>, <<0, 32768>>, <<43690, 21845>>}
G_make       == s.m = "reglist" /\ \E rt \in {0, RtGp32, RtVec128}, v \in Masks : Do([e |-> "make", rt |-> rt, v |-> v])
G_default    == s.m = "reglist" /\ Do([e |-> "default"])
G_set_list   == s.m = "reglist" /\ \E v \in Masks : Do([e |-> "set_list", v |-> v])
G_reset_list == s.m = "reglist" /\ Do([e |-> "reset_list"])
G_add_list   == s.m = "reglist" /\ \E v \in Masks : Do([e |-> "add_list", v |-> v])
G_clear_list == s.m = "reglist" /\ \E v \in Masks : Do([e |-> "clear_list", v |-> v])
G_and_list   == s.m = "reglist" /\ \E v \in Masks : Do([e |-> "and_list", v |-> v])
G_xor_list   == s.m = "reglist" /\ \E v \in Masks : Do([e |-> "xor_list", v |-> v])
G_add_reg    == s.m = "reglist" /\ \E n \in {0, 15, 16, 31} : Do([e |-> "add_reg", n |-> n])
G_clear_reg  == s.m = "reglist" /\ \E n \in {0, 15, 16, 31} : Do([e |-> "clear_reg", n |-> n])
G_add_reg_r  == s.m = "reglist" /\ \E id \in {Z32, W32(31), W32(32), W32(256)} : Do([e |-> "add_reg_r", id |-> id])
G_clear_reg_r == s.m = "reglist" /\ \E id \in {Z32, W32(31), W32(32), W32(256)} : Do([e |-> "clear_reg_r", id |-> id])
G_clone      == s.m = "reglist" /\ Do([e |-> "clone"])
RegListNext == G_make \/ G_default \/ G_set_list \/ G_reset_list \/ G_add_list \/ G_clear_list \/ G_and_list \/ G_xor_list \/ G_add_reg
               \/ G_clear_reg \/ G_add_reg_r \/ G_clear_reg_r \/ G_clone

O_reset  == s.m = "regonly" /\ Do([e |-> "reset"])
O_init   == s.m = "regonly" /\ \E rt \in RegRts, id \in Ids : Do([e |-> "init", rt |-> rt, id |-> id])
O_set_id == s.m = "regonly" /\ \E id \in Ids : Do([e |-> "set_id", id |-> id])
RegOnlyNext == O_reset \/ O_init \/ O_set_id

E_reset    == s.m = "env" /\ Do([e |-> "reset"])
E_init     == s.m = "env" /\ \E a \in 0..16, p \in {0, 1, 3, 10}, abi \in {0, 2}, f \in {0, 1}, fa \in 0..1 : Do([e |-> "init", arch |-> a, plat |-> p, abi |-> abi, fmt |-> f, fabi |-> fa])
E_set_arch == s.m = "env" /\ \E n \in 0..16 : Do([e |-> "set_arch", n |-> n])
E_set_sub_arch == s.m = "env" /\ Do([e |-> "set_sub_arch", n |-> 0])
E_set_vendor == s.m = "env" /\ Do([e |-> "set_vendor", n |-> 0])
E_set_platform == s.m = "env" /\ \E n \in 0..14 : Do([e |-> "set_platform", n |-> n])
E_set_platform_abi == s.m = "env" /\ \E n \in 0..6 : Do([e |-> "set_platform_abi", n |-> n])
E_set_object_format == s.m = "env" /\ \E n \in 0..6 : Do([e |-> "set_object_format", n |-> n])
E_set_float_abi == s.m = "env" /\ \E n \in 0..1 : Do([e |-> "set_float_abi", n |-> n])
E_copy     == s.m = "env" /\ Do([e |-> "copy"])
EnvNext == E_reset \/ E_init \/ E_set_arch \/ E_set_sub_arch \/ E_set_vendor \/ E_set_platform \/ E_set_platform_abi \/ E_set_object_format
           \/ E_set_float_abi \/ E_copy

Next == MemNext \/ RegNext \/ ImmNext \/ LabelNext \/ RegListNext \/ RegOnlyNext \/ EnvNext
Spec == Init /\ [][Next]_vars
Bounded == TLCGet("level") <= MaxDepth

(* ---- invariants --------------------------------------------------------------------------------------------- *)
TypeInv == TypeOK(s)

(* the signature fields of the abstract operand, by layout field name *)
SigFields(st) ==
  CASE st.m = "x86mem" -> [optype |-> OpMem, membase |-> st.bt, memindex |-> st.it, home |-> B(st.home), x86addr |-> st.addr, x86shift |-> st.sh,
                           x86seg |-> st.seg, x86bcst |-> st.bc, size |-> st.size]
    [] st.m = "a64mem" -> [optype |-> OpMem, membase |-> st.bt, memindex |-> st.it, home |-> B(st.home), a64sh |-> st.sh, a64sop |-> st.sop, a64mode |-> st.mode]
    [] st.m = "basemem" -> [optype |-> OpMem, membase |-> st.bt, memindex |-> st.it, home |-> B(st.home)]
    [] st.m = "x86reg" -> [optype |-> st.ot, regtype |-> st.rt, reggroup |-> st.grp, pred |-> st.pred, size |-> st.size]
    [] st.m = "a64reg" -> [optype |-> st.ot, regtype |-> st.rt, reggroup |-> st.grp, a64et |-> st.et, a64ef |-> B(st.ef), a64ei |-> st.ei, pred |-> st.pred, size |-> st.size]
    [] st.m = "imm" -> [optype |-> st.ot, immtype |-> st.ity, pred |-> st.pred]
    [] st.m = "reglist" -> [optype |-> OpRegList, regtype |-> st.rt, reggroup |-> st.grp, size |-> st.size]
    [] OTHER -> [optype |-> 0]
RECURSIVE PackFrom(_, _, _, _)
PackFrom(L, sig, flds, F) == IF F = {} THEN sig ELSE LET f == CHOOSE x \in F : TRUE IN PackFrom(L, SigSet(L, sig, f, flds[f]), flds, F \ {f})
Pack(L, st)  == LET flds == SigFields(st) IN PackFrom(L, SigZero, flds, DOMAIN flds)
Lossless == LET flds == SigFields(s) sig == Pack(Layout, s) IN \A f \in DOMAIN flds : flds[f] <= FieldMax(Layout, f) /\ SigGet(Layout, sig, f) = flds[f]

DocInv ==
  LET v == View(s) IN
  CASE IsMem(s) -> /\ v.o64 => ~v.hasb                 \* is_offset_64bit: "If this is true then has_base() must always report false."
                   /\ v.hasbai => v.hasboi /\ v.hasb /\ v.hasi
                   /\ v.hasbl => v.hasb /\ ~v.hasbr
                   /\ v.hasbr => v.hasb
                   /\ ~v.hasoff => v.offset = Z64
                   /\ ~v.o64 => Hi32(v.offset) \in {Z32, <<65535, 65535>>}      \* a 32-bit displacement sign-extended
    [] IsRegM(s) -> /\ ~(v.phys /\ v.virt)
                    /\ v.ogp8 = (v.otf[1] = 1 \/ v.otf[2] = 1)                   \* is_gp8: "8-bit low or high general purpose register"
                    /\ Cardinality({i \in 1..Len(v.otf) : v.otf[i] = 1}) <= 1
                    /\ v.ophys => v.isreg
    [] s.m = "imm" -> /\ (v.isi8 => v.isi16) /\ (v.isi16 => v.isi32)
                      /\ (v.isu8 => v.isu16) /\ (v.isu16 => v.isu32)
                      /\ (v.isu8 /\ v.as["u8"][1] < 128) => v.isi8
    [] s.m = "env" -> s.arch \in DefinedArchs => (v.is32 # v.is64) /\ (v.le # v.be) /\ v.regsize \in {4, 8} /\ v.stackalign \in {4, 8, 16}
    [] OTHER -> TRUE

(* ---- action properties --------------------------------------------------------------------------------------- *)
TouchesOf(m, e) == CASE m \in {"x86mem", "a64mem", "basemem"} -> MemTouches(e)  [] m \in {"x86reg", "a64reg"} -> RegTouches(e)
                     [] m = "imm" -> ImmTouches(e)  [] m = "env" -> EnvTouches(e)  [] OTHER -> DOMAIN s
OffsetEvents == {"set_offset", "add_offset", "clone_adjusted", "reset_offset", "pre_off", "post_off"}
FrameStep == /\ \A f \in (DOMAIN s \ {"m"}) \ TouchesOf(s.m, last'.e) : s'[f] = s[f]
             (* "if the operand has a BASE register it will store only the low 32 bits of the offset": the base id is not the high half then *)
             /\ (IsMem(s) /\ s.bt # 0 /\ last'.e \in OffsetEvents) => s'.bid = s.bid
Frame == [][FrameStep]_vars

RoundTripStep ==
  LET ev == last' v == View(s') IN
  CASE IsMem(s) /\ ev.e = "set_offset" -> v.offset = IF v.o64 THEN ev.v ELSE SignExt64(Lo32(ev.v))     \* 64-bit offset is lossless without a base
    [] IsMem(s) /\ ev.e = "set_base" -> v.bt = ev.rt /\ v.bid = ev.id /\ v.id = ev.id
    [] IsMem(s) /\ ev.e = "set_index" -> v.it = ev.rt /\ v.iid = ev.id
    [] IsMem(s) /\ ev.e = "add_offset" /\ ev.v = Z64 -> s' = s
    [] IsRegM(s) /\ ev.e = "make" -> v.rt = ev.rt /\ v.id = ev.id /\ v.grp = RT[ev.rt].grp /\ v.size = RT[ev.rt].size /\ v.pred = 0
    [] IsRegM(s) /\ ev.e = "cast" -> v.id = View(s).id /\ v.pred = 0
    [] s.m = "imm" /\ ev.e \in {"make_int", "set_value_int"} -> v.isint /\ v.as[ev.T] = ev.v          \* every integer type round-trips through value_as<T>
    [] s.m = "imm" /\ ev.e = "sign_extend_int8" -> v.isint => v.isi8
    [] s.m = "imm" /\ ev.e = "zero_extend_uint16" -> v.isint => v.isu16
    [] s.m = "label" /\ ev.e \in {"make", "set_id"} -> v.id = ev.id /\ v.valid = (ev.id # InvalidId)
    [] OTHER -> TRUE
RoundTrip == [][RoundTripStep]_vars

(* ---- behaviour export ----------------------------------------------------------------------------------------- *)
Export == (ExportDepth > 0 /\ Len(hist) = ExportDepth) => PrintT(<<"BEH", s.m, ToJson(hist)>>)
ExportBound == ExportDepth > 0 => Len(hist) <= ExportDepth
=============================================================================
