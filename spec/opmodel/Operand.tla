------------------------------- MODULE Operand -------------------------------
(* X04 - CONTRACT of asmjit's operand objects (core/operand.h, x86/x86operand.h, arm/a64operand.h,          *)
(* core/environment.h) as a state machine.                                                                  *)
(*                                                                                                          *)
(*   state   s  = the ABSTRACT operand: a record of the documented fields of the object (never the 16 raw    *)
(*                bytes),  s.m names the machine (which C++ class is being driven);                         *)
(*   event   ev = one public API call, ev.e = its name, the other fields its arguments;                     *)
(*   Apply(s, ev) = the abstract operand after the call  (what the doc comment of the call promises);       *)
(*   View(s)      = what every public getter / predicate of the object must answer in state s.              *)
(*                                                                                                          *)
(* A setter "round-trips and touches no other field" iff the getters of the real object, after the real     *)
(* call, equal View(Apply(s, ev)).  OperandTrace.tla validates recorded executions of the real classes      *)
(* against exactly this; OperandMC.tla model-checks the contract itself (frame table, packing refinement).  *)
(*                                                                                                          *)
(* 32-bit values are pairs <<lo16, hi16>>, 64-bit values four 16-bit limbs (TLC integers are 32-bit).       *)
EXTENDS OperandLayout, BV, TLC

Z32 == <<0, 0>>
Z64 == <<0, 0, 0, 0>>
W32(n) == <<n % 65536, n \div 65536>>            \* n < 2^31
Is32(v) == IsLimbs(v, 2)
Is64(v) == IsLimbs(v, 4)
Lo32(v) == <<v[1], v[2]>>
Hi32(v) == <<v[3], v[4]>>
Cat64(lo, hi) == <<lo[1], lo[2], hi[1], hi[2]>>
SignExt64(v32) == LET f == IF v32[2] >= 32768 THEN 65535 ELSE 0 IN <<v32[1], v32[2], f, f>>
AddW(a, b) == LimbsOfBits(Add(BitsOfLimbs(a), BitsOfLimbs(b)))     \* modulo 2^(16 * Len)
Small32(v) == v[2] = 0                                               \* value below 65536
IdBad == W32(255)                                                    \* Reg::kIdBad = 0xFF
InvalidId == <<65535, 65535>>                                        \* Globals::kInvalidId = 0xFFFFFFFF
U32Lt(a, b) == a[2] < b[2] \/ (a[2] = b[2] /\ a[1] < b[1])
B(x) == IF x THEN 1 ELSE 0

Machines == {"x86mem", "a64mem", "basemem", "x86reg", "a64reg", "imm", "label", "reglist", "regonly", "env"}
IsMem(s) == s.m \in {"x86mem", "a64mem", "basemem"}
IsRegM(s) == s.m \in {"x86reg", "a64reg"}

(* ========================================================================================================= *)
(* Memory operands                                                                                            *)
(* ========================================================================================================= *)
(* BaseMem: "BASE - Base register or label ... the type of the BASE operand (label vs. register type) and     *)
(* ... 32 bits define the BASE id.  If BASE type is zero ... then BASE field contains a high DWORD of a       *)
(* possible 64-bit absolute address.  INDEX - ... INDEX type ... and 32-bit id.  OFFSET - ... if BASE is not  *)
(* specified then the OFFSET should be considered as ABSOLUTE address ... its low 32 bits are stored in       *)
(* DISPLACEMENT field and the remaining high 32 bits are stored in BASE."                                     *)
(* Hence: bt/bid, it/iid, off (low 32 bits of the offset); the 64-bit offset exists iff bt = 0 and then bid   *)
(* IS its high half.                                                                                          *)
MemDefault(m) == [m |-> m, bt |-> 0, bid |-> Z32, it |-> 0, iid |-> Z32, off |-> Z32, home |-> FALSE,
                  size |-> 0, addr |-> 0, sh |-> 0, seg |-> 0, bc |-> 0, sop |-> 0, mode |-> 0]
MemFields == {"bt", "bid", "it", "iid", "off", "home", "size", "addr", "sh", "seg", "bc", "sop", "mode"}

MemTypeOK(s) ==
  /\ s.bt \in 0..31 /\ s.it \in 0..31 /\ Is32(s.bid) /\ Is32(s.iid) /\ Is32(s.off) /\ s.home \in BOOLEAN
  /\ s.size \in 0..255 /\ s.addr \in 0..3 /\ s.seg \in 0..7 /\ s.bc \in 0..7 /\ s.sop \in 0..15 /\ s.mode \in 0..3
  /\ s.sh \in (IF s.m = "a64mem" THEN 0..31 ELSE 0..3)
  /\ s.m = "x86mem" => s.sop = 0 /\ s.mode = 0
  /\ s.m = "a64mem" => s.size = 0 /\ s.addr = 0 /\ s.seg = 0 /\ s.bc = 0
  /\ s.m = "basemem" => s.size = 0 /\ s.addr = 0 /\ s.seg = 0 /\ s.bc = 0 /\ s.sop = 0 /\ s.mode = 0 /\ s.sh = 0

Offset64(s) == IF s.bt = 0 THEN Cat64(s.off, s.bid) ELSE SignExt64(s.off)
(* set_offset: "attempts to set both high and low parts of a 64-bit offset, however, if the operand has a BASE *)
(* register it will store only the low 32 bits of the offset"                                                  *)
SetOffset(s, v) == IF s.bt = 0 THEN [s EXCEPT !.off = Lo32(v), !.bid = Hi32(v)] ELSE [s EXCEPT !.off = Lo32(v)]
(* add_offset: "Adjusts the memory operand offset by a `offset`" - 64-bit arithmetic without a base, 32-bit with *)
AddOffset(s, v) == IF s.bt = 0 THEN LET r == AddW(Cat64(s.off, s.bid), v) IN [s EXCEPT !.off = Lo32(r), !.bid = Hi32(r)]
                   ELSE [s EXCEPT !.off = AddW(s.off, Lo32(v))]

(* the constructors:  x86::ptr / ptr_abs / ptr_rel / <size>_ptr[_abs|_rel];  a64::ptr / ptr_pre / ptr_post.  *)
(* ev.form: "b" [base+off], "bi" [base+index<<shift+off], "l" [label+off], "li" [label+index<<shift+off],     *)
(*          "r" [rip+off], "a" [abs64], "ai" [abs64 + index<<shift]                                            *)
HasIndexForm(f) == f \in {"bi", "li", "ai"}
X86Make(ev) ==
  LET form == ev.form
      size == IF ev.base_fn = "ptr" THEN ev.size ELSE X86PtrSize[ev.base_fn]
      addr == IF ev.sfx = "abs" THEN AddrAbs ELSE IF ev.sfx = "rel" THEN AddrRel ELSE AddrDefault
      d == MemDefault("x86mem")
  IN [d EXCEPT
        !.bt  = CASE form \in {"b", "bi", "r"} -> ev.brt [] form \in {"l", "li"} -> RtLabelTag [] OTHER -> 0,
        !.bid = IF form \in {"a", "ai"} THEN Hi32(ev.abs) ELSE ev.bid,
        !.it  = IF HasIndexForm(form) THEN ev.irt ELSE 0,
        !.iid = IF HasIndexForm(form) THEN ev.iid ELSE Z32,
        !.sh  = IF HasIndexForm(form) THEN ev.sh ELSE 0,
        !.off = IF form \in {"a", "ai"} THEN Lo32(ev.abs) ELSE ev.off,
        !.size = size, !.addr = addr]
A64Make(ev) ==
  LET form == ev.form d == MemDefault("a64mem") IN
  [d EXCEPT
     !.bt  = CASE form \in {"b", "bi", "bis"} -> ev.brt [] form = "l" -> RtLabelTag [] OTHER -> 0,
     !.bid = IF form = "a" THEN Hi32(ev.abs) ELSE ev.bid,
     !.it  = IF form \in {"bi", "bis"} THEN ev.irt ELSE 0,
     !.iid = IF form \in {"bi", "bis"} THEN ev.iid ELSE Z32,
     !.sop = IF form = "bis" THEN ev.sop ELSE 0,
     !.sh  = IF form = "bis" THEN ev.sh ELSE 0,
     !.off = CASE form \in {"b", "l"} -> ev.off [] form = "a" -> Lo32(ev.abs) [] OTHER -> Z32,
     !.mode = CASE ev.fn = "ptr_pre" -> ModePre [] ev.fn = "ptr_post" -> ModePost [] OTHER -> ModeFixed]

(* argument well-formedness (what the harness must establish; a violation is a broken check, not a finding)  *)
MemPre(s, ev) ==
  LET e == ev.e IN
  CASE e \in {"set_base_id", "set_index_id"} -> Is32(ev.id)
    [] e \in {"set_base_type", "set_index_type"} -> ev.rt \in 0..31
    [] e \in {"set_base", "set_index"} -> ev.rt \in 0..31 /\ Is32(ev.id)
    [] e \in {"set_offset", "add_offset", "clone_adjusted"} -> Is64(ev.v)
    [] e \in {"set_offset_lo32", "add_offset_lo32"} -> Is32(ev.v)
    [] e \in {"set_size", "clone_resized"} -> s.m = "x86mem" /\ ev.n \in 0..255
    [] e = "set_addr_type" -> s.m = "x86mem" /\ ev.n \in 0..2
    [] e = "set_segment" -> s.m = "x86mem" /\ ev.n \in 0..6
    [] e \in {"set_broadcast", "clone_broadcasted"} -> s.m = "x86mem" /\ ev.n \in 0..6
    [] e = "set_shift" -> ev.n \in (IF s.m = "a64mem" THEN 0..31 ELSE 0..3)
    [] e = "set_index_shift" -> ev.rt \in 0..31 /\ Is32(ev.id) /\ ev.n \in (IF s.m = "a64mem" THEN 0..31 ELSE 0..3)
    [] e \in {"set_shift_s", "set_index_shift_s"} -> s.m = "a64mem" /\ ev.sop \in 0..13 /\ ev.n \in 0..31
    [] e = "set_shift_op" -> s.m = "a64mem" /\ ev.n \in 0..13
    [] e = "set_offset_mode" -> s.m = "a64mem" /\ ev.n \in 0..2
    [] e \in {"pre_off", "post_off"} -> s.m = "a64mem" /\ Is64(ev.v)
    [] e = "make" -> IF s.m = "x86mem"
                       THEN /\ ev.sh \in 0..3 /\ ev.size \in 0..255 /\ ev.brt \in 0..31 /\ ev.irt \in 0..31
                            /\ (ev.form = "li" /\ ev.base_fn # "ptr") => RT[ev.irt].grp = GrpGp      \* <size>_ptr(label, index) exists for Gp indexes only
                            /\ ev.sfx # "" => ev.form \in {"a", "ai"}                              \* ptr_abs / ptr_rel take an absolute address
                       ELSE ev.sh \in 0..31 /\ ev.sop \in 0..13 /\ ev.brt \in 0..31 /\ ev.irt \in 0..31
    [] e = "make_base" -> ev.rt \in 0..31 /\ Is32(ev.id) /\ Is32(ev.off)
    [] OTHER -> TRUE

MemApply(s, ev) ==
  LET e == ev.e IN
  CASE e = "reset" -> MemDefault(s.m)                    \* "Resets the memory operand - after the reset the memory points to [0]."
    [] e = "make" -> IF s.m = "x86mem" THEN X86Make(ev) ELSE A64Make(ev)
    (* BaseMem(const Reg& base_reg, int32_t offset): "Creates a BaseMem operand from base_reg and offset." *)
    [] e = "make_base" -> [MemDefault(s.m) EXCEPT !.bt = ev.rt, !.bid = ev.id, !.off = ev.off]
    [] e = "set_base_id" -> [s EXCEPT !.bid = ev.id]        \* "Sets the id of the BASE register (without modifying its type)."
    [] e = "set_base_type" -> [s EXCEPT !.bt = ev.rt]       \* "Sets the register type of the BASE register (without modifying its id)."
    [] e = "set_index_id" -> [s EXCEPT !.iid = ev.id]       \* "Sets the id of the INDEX register (without modifying its type)."
    [] e = "set_index_type" -> [s EXCEPT !.it = ev.rt]      \* "Sets the register type of the INDEX register (without modifying its id)."
    [] e = "set_base" -> [s EXCEPT !.bt = ev.rt, !.bid = ev.id]   \* "Sets the base register to type and id of the given base operand."
    [] e = "set_index" -> [s EXCEPT !.it = ev.rt, !.iid = ev.id]  \* "Sets the index register to type and id of the given index operand."
    [] e = "reset_base" -> [s EXCEPT !.bt = 0, !.bid = Z32]       \* "Resets the memory operand's BASE register or label."
    [] e = "reset_index" -> [s EXCEPT !.it = 0, !.iid = Z32]      \* "Resets the memory operand's INDEX register."
    [] e = "set_offset" -> SetOffset(s, ev.v)
    [] e = "set_offset_lo32" -> [s EXCEPT !.off = ev.v]     \* "Sets a low 32-bit offset to offset"
    [] e = "add_offset" -> AddOffset(s, ev.v)
    [] e = "clone_adjusted" -> AddOffset(s, ev.v)           \* "Creates a new copy of this memory operand adjusted by off." (m = m.clone_adjusted(off))
    [] e = "add_offset_lo32" -> [s EXCEPT !.off = AddW(s.off, ev.v)]  \* "Adds offset to a low 32-bit offset part"
    [] e = "reset_offset" -> SetOffset(s, Z64)              \* "Resets the memory offset to zero."
    [] e = "reset_offset_lo32" -> [s EXCEPT !.off = Z32]    \* "Resets the lo part of the memory offset to zero"
    [] e = "set_reg_home" -> [s EXCEPT !.home = TRUE]       \* "Mark this memory operand as register home"
    [] e = "clear_reg_home" -> [s EXCEPT !.home = FALSE]    \* "Marks this operand to not be a register home"
    [] e = "clone" -> s                                     \* m = m.clone(): "Clones the memory operand."
    (* ---- x86::Mem ---- *)
    [] e \in {"set_size", "clone_resized"} -> [s EXCEPT !.size = ev.n]   \* "Sets the memory operand size (in bytes)." / "copy ... resized to size"
    [] e = "set_addr_type" -> [s EXCEPT !.addr = ev.n]      \* "Sets the address type to addr_type."
    [] e = "reset_addr_type" -> [s EXCEPT !.addr = AddrDefault]  \* "Resets the address type to AddrType::kDefault."
    [] e = "set_addr_abs" -> [s EXCEPT !.addr = AddrAbs]    \* "Sets the address type to AddrType::kAbs."
    [] e = "set_addr_rel" -> [s EXCEPT !.addr = AddrRel]    \* "Sets the address type to AddrType::kRel."
    [] e = "set_segment" -> [s EXCEPT !.seg = ev.n]         \* "Sets the segment override to seg / id."
    [] e = "reset_segment" -> [s EXCEPT !.seg = 0]          \* "Resets the segment override."
    [] e = "set_shift" -> [s EXCEPT !.sh = ev.n]            \* "Sets the memory operand's shift (aka scale) value / constant."
    [] e = "reset_shift" -> [s EXCEPT !.sh = 0]             \* "Resets the memory operand's shift (aka scale) value to zero."
    [] e = "set_index_shift" -> [s EXCEPT !.it = ev.rt, !.iid = ev.id, !.sh = ev.n]   \* set_index(index, shift)
    [] e \in {"set_broadcast", "clone_broadcasted"} -> [s EXCEPT !.bc = ev.n]  \* "Sets the memory operand's broadcast." / "copy ... with a broadcast bcst" (_1toN)
    [] e = "reset_broadcast" -> [s EXCEPT !.bc = 0]         \* "Resets the memory operand's broadcast to none."
    (* ---- a64::Mem ---- *)
    [] e = "set_offset_mode" -> [s EXCEPT !.mode = ev.n]    \* "Sets offset mode to mode."
    [] e = "reset_offset_mode" -> [s EXCEPT !.mode = ModeFixed]  \* "Resets offset mode to default (fixed offset, without write-back)."
    [] e \in {"make_pre_index", "pre"} -> [s EXCEPT !.mode = ModePre]    \* "Sets offset mode ... to pre-index" / "Clones the memory operand and makes it pre-index."
    [] e \in {"make_post_index", "post"} -> [s EXCEPT !.mode = ModePost]
    [] e = "pre_off" -> AddOffset([s EXCEPT !.mode = ModePre], ev.v)    \* "Clones the memory operand, applies a given offset off and makes it pre-index."
    [] e = "post_off" -> AddOffset([s EXCEPT !.mode = ModePost], ev.v)
    [] e = "set_shift_op" -> [s EXCEPT !.sop = ev.n]        \* "Sets shift operation that is used by index register."
    [] e = "reset_shift_op" -> [s EXCEPT !.sop = 0]         \* "Resets shift operation that is used by index register to LSL (default value)."
    [] e = "set_shift_s" -> [s EXCEPT !.sop = ev.sop, !.sh = ev.n]      \* "Sets the memory operand's shift and shift operation."
    [] e = "set_index_shift_s" -> [s EXCEPT !.it = ev.rt, !.iid = ev.id, !.sop = ev.sop, !.sh = ev.n]

MemEvents == {"reset", "make", "make_base", "set_base_id", "set_base_type", "set_index_id", "set_index_type", "set_base", "set_index",
              "reset_base", "reset_index", "set_offset", "set_offset_lo32", "add_offset", "clone_adjusted", "add_offset_lo32",
              "reset_offset", "reset_offset_lo32", "set_reg_home", "clear_reg_home", "clone", "set_size", "clone_resized",
              "set_addr_type", "reset_addr_type", "set_addr_abs", "set_addr_rel", "set_segment", "reset_segment", "set_shift",
              "reset_shift", "set_index_shift", "set_broadcast", "clone_broadcasted", "reset_broadcast", "set_offset_mode",
              "reset_offset_mode", "make_pre_index", "pre", "make_post_index", "post", "pre_off", "post_off", "set_shift_op",
              "reset_shift_op", "set_shift_s", "set_index_shift_s"}
X86OnlyMemEvents == {"set_size", "clone_resized", "set_addr_type", "reset_addr_type", "set_addr_abs", "set_addr_rel", "set_segment",
                     "reset_segment", "set_broadcast", "clone_broadcasted", "reset_broadcast"}
A64OnlyMemEvents == {"set_offset_mode", "reset_offset_mode", "make_pre_index", "pre", "make_post_index", "post", "pre_off", "post_off",
                     "set_shift_op", "reset_shift_op", "set_shift_s", "set_index_shift_s"}
MemEventsOf(m) == CASE m = "x86mem" -> MemEvents \ A64OnlyMemEvents
                    [] m = "a64mem" -> MemEvents \ X86OnlyMemEvents
                    [] OTHER -> MemEvents \ (A64OnlyMemEvents \cup X86OnlyMemEvents \cup {"make", "set_shift", "reset_shift", "set_index_shift"})

(* Frame table: the state fields an API call is allowed to change (everything else must stay as it was).     *)
MemTouches(e) ==
  CASE e \in {"reset", "make", "make_base"} -> MemFields
    [] e = "set_base_id" -> {"bid"}  [] e = "set_base_type" -> {"bt"}  [] e = "set_index_id" -> {"iid"}  [] e = "set_index_type" -> {"it"}
    [] e \in {"set_base", "reset_base"} -> {"bt", "bid"}  [] e \in {"set_index", "reset_index"} -> {"it", "iid"}
    [] e \in {"set_offset", "add_offset", "clone_adjusted", "reset_offset"} -> {"off", "bid"}     \* bid only when it is the high half (bt = 0)
    [] e \in {"set_offset_lo32", "add_offset_lo32", "reset_offset_lo32"} -> {"off"}
    [] e \in {"set_reg_home", "clear_reg_home"} -> {"home"}  [] e = "clone" -> {}
    [] e \in {"set_size", "clone_resized"} -> {"size"}
    [] e \in {"set_addr_type", "reset_addr_type", "set_addr_abs", "set_addr_rel"} -> {"addr"}
    [] e \in {"set_segment", "reset_segment"} -> {"seg"}  [] e \in {"set_shift", "reset_shift"} -> {"sh"}
    [] e = "set_index_shift" -> {"it", "iid", "sh"}
    [] e \in {"set_broadcast", "clone_broadcasted", "reset_broadcast"} -> {"bc"}
    [] e \in {"set_offset_mode", "reset_offset_mode", "make_pre_index", "pre", "make_post_index", "post"} -> {"mode"}
    [] e \in {"pre_off", "post_off"} -> {"mode", "off", "bid"}
    [] e \in {"set_shift_op", "reset_shift_op"} -> {"sop"}  [] e = "set_shift_s" -> {"sop", "sh"}
    [] e = "set_index_shift_s" -> {"it", "iid", "sop", "sh"}

MemView(s) ==
  LET common == [
        ot |-> OpMem, none |-> FALSE, isreg |-> FALSE, ismem |-> TRUE, isimm |-> FALSE, islabel |-> FALSE, isreglist |-> FALSE,
        rom |-> TRUE,                       \* is_reg_or_mem
        rlm |-> TRUE,                       \* is_reg_or_reg_list_or_mem
        id |-> s.bid,                       \* Operand_::id(): "Mem - ... BASE address (register or label id), or high value of a 64-bit absolute address"
        eq |-> TRUE,                        \* the operand equals the one built from its own field values: no stray bits
        bt |-> s.bt, it |-> s.it, bid |-> s.bid, iid |-> s.iid,
        off |-> s.off,                      \* offset_lo32()
        home |-> s.home,                    \* is_reg_home()
        hasb |-> s.bt # 0,                  \* has_base(): "has a BASE register or label specified"
        hasi |-> s.it # 0,                  \* has_index()
        hasboi |-> s.bt # 0 \/ s.it # 0,    \* has_base_or_index()
        hasbai |-> s.bt # 0 /\ s.it # 0,    \* has_base_and_index()
        hasbl |-> s.bt = RtLabelTag,        \* has_base_label(): "Tests whether the BASE operand is a label."
        hasbr |-> s.bt > RtLabelTag,        \* has_base_reg(): "registers start after RegType::kLabelTag"
        hasir |-> s.it > RtLabelTag,        \* has_index_reg()
        bait |-> s.bt + 32 * s.it,          \* base_and_index_types(): "both BASE (4:0 bits) and INDEX (9:5 bits) types combined"
        o64 |-> s.bt = 0,                   \* is_offset_64bit(): "If this is true then has_base() must always report false."
        hasoff |-> s.off # Z32 \/ (s.bt = 0 /\ s.bid # Z32),   \* has_offset(): "has a non-zero offset or absolute address"
        offset |-> Offset64(s)]             \* offset(): "either relative offset or absolute address as 64-bit integer"
      x86 == [
        size |-> s.size, hassize |-> s.size # 0, rmsize |-> s.size,        \* size() / has_size() / Operand_::x86_rm_size()
        addr |-> s.addr, isabs |-> s.addr = AddrAbs, isrel |-> s.addr = AddrRel,
        seg |-> s.seg, hasseg |-> s.seg # 0, sh |-> s.sh, hassh |-> s.sh # 0, bc |-> s.bc, hasbc |-> s.bc # 0]
      a64 == [
        mode |-> s.mode, fixed |-> s.mode = ModeFixed, prepost |-> s.mode # ModeFixed, ispre |-> s.mode = ModePre, ispost |-> s.mode = ModePost,
        sop |-> s.sop, sh |-> s.sh, hassh |-> s.sh # 0]
  IN CASE s.m = "x86mem" -> common @@ x86 [] s.m = "a64mem" -> common @@ a64 [] OTHER -> common

(* ========================================================================================================= *)
(* Registers                                                                                                  *)
(* ========================================================================================================= *)
(* state: ot (operand type: Reg, or None after Operand_::reset()), rt/grp/size ("Base signature only contains *)
(* the operand type, register type, register group, and register size"), pred (predicate), a64 element type / *)
(* flag / index, id.                                                                                          *)
RegFields == {"ot", "rt", "grp", "size", "pred", "et", "ef", "ei", "id"}
RegOf(m, rt, id) == [m |-> m, ot |-> OpReg, rt |-> rt, grp |-> RT[rt].grp, size |-> RT[rt].size, pred |-> 0, et |-> 0, ef |-> FALSE, ei |-> 0, id |-> id]
RegDefault(m) == RegOf(m, RtNone, IdBad)        \* Reg(): "Creates a dummy register operand." (signature = operand type only, id = kIdBad)
RegNone(m) == [m |-> m, ot |-> OpNone, rt |-> 0, grp |-> 0, size |-> 0, pred |-> 0, et |-> 0, ef |-> FALSE, ei |-> 0, id |-> Z32]
RegTypeOK(s) == /\ s.ot \in {OpNone, OpReg} /\ s.rt \in 0..31 /\ s.grp \in 0..15 /\ s.size \in 0..255 /\ s.pred \in 0..15
                /\ s.et \in 0..7 /\ s.ef \in BOOLEAN /\ s.ei \in 0..15 /\ Is32(s.id)
                /\ s.m = "x86reg" => s.et = 0 /\ ~s.ef /\ s.ei = 0

(* casts: the member functions documented as "Clones and casts this register to ..." *)
X86Casts == [r8 |-> RtGp8Lo, r8_lo |-> RtGp8Lo, r8_hi |-> RtGp8Hi, r16 |-> RtGp16, r32 |-> RtGp32, r64 |-> RtGp64,
             v128 |-> RtVec128, v256 |-> RtVec256, v512 |-> RtVec512, xmm |-> RtVec128, ymm |-> RtVec256, zmm |-> RtVec512,
             u_r32 |-> RtGp32, u_r64 |-> RtGp64, u_v128 |-> RtVec128, u_v256 |-> RtVec256, u_v512 |-> RtVec512]   \* UniGp / UniVec "Unified Accessors"
A64Casts == [r32 |-> RtGp32, r64 |-> RtGp64, w |-> RtGp32, x |-> RtGp64, v8 |-> RtVec8, v16 |-> RtVec16, v32 |-> RtVec32,
             v64 |-> RtVec64, v128 |-> RtVec128, b |-> RtVec8, h |-> RtVec16, s |-> RtVec32, d |-> RtVec64, q |-> RtVec128,
             u_r32 |-> RtGp32, u_r64 |-> RtGp64, u_v128 |-> RtVec128, u_v256 |-> RtVec256, u_v512 |-> RtVec512]
(* "Clones and casts the register to V.8B" etc.: <<register type, element type>> *)
A64Arrangements == [b8 |-> <<RtVec64, EtB>>, b16 |-> <<RtVec128, EtB>>, h2 |-> <<RtVec32, EtH>>, h4 |-> <<RtVec64, EtH>>,
                    h8 |-> <<RtVec128, EtH>>, s2 |-> <<RtVec64, EtS>>, s4 |-> <<RtVec128, EtS>>, d2 |-> <<RtVec128, EtD>>]
(* "Clones and casts the register to a 128-bit V.B[element_index] register." *)
A64ElementAccess == [b_i |-> EtB, h_i |-> EtH, s_i |-> EtS, d_i |-> EtD, h2_i |-> EtH2, b4_i |-> EtB4]

RegPre(s, ev) ==
  LET e == ev.e IN
  CASE e = "make" -> ev.rt \in ValidRegTypes /\ Is32(ev.id)
    [] e = "set_id" -> Is32(ev.id)
    [] e = "set_predicate" -> ev.n \in 0..15
    [] e = "set_reg_t" -> ev.rt \in ValidRegTypes /\ Is32(ev.id)
    [] e = "set_signature_and_id" -> ev.rt \in ValidRegTypes /\ ev.n \in 0..15 /\ Is32(ev.id)
    [] e = "clone_as" -> ev.rt \in ValidRegTypes /\ ev.n \in 0..15
    [] e = "cast" -> ev.fn \in DOMAIN (IF s.m = "x86reg" THEN X86Casts ELSE A64Casts)
    [] e = "arrangement" -> s.m = "a64reg" /\ ev.fn \in DOMAIN A64Arrangements
    [] e = "element" -> s.m = "a64reg" /\ ev.fn \in DOMAIN A64ElementAccess /\ ev.n \in 0..15
    [] e = "set_element_type" -> s.m = "a64reg" /\ ev.n \in 0..6
    [] e \in {"set_element_index", "at"} -> s.m = "a64reg" /\ ev.n \in 0..15
    [] e = "make_et" -> s.m = "a64reg" /\ ev.rt \in {RtVec32, RtVec64, RtVec128} /\ ev.n \in 0..6 /\ Is32(ev.id)
    [] e = "make_ei" -> s.m = "a64reg" /\ ev.et \in 0..6 /\ ev.n \in 0..15 /\ Is32(ev.id)
    [] OTHER -> TRUE

RegApply(s, ev) ==
  LET e == ev.e IN
  CASE e = "reset" -> RegNone(s.m)                    \* Operand_::reset(): "reset operands have all members set to zero"
    [] e = "default" -> RegDefault(s.m)                \* r = Reg()
    (* Gp::make_r32(id), Vec::make_v128(id), x86::gpd(id), a64::w(id), KReg(id), Reg::from_type_and_id(type, id) ...:         *)
    (* "Creates a new register from register type and id." - the signature is RegTraits<type>::kSignature                       *)
    [] e = "make" -> RegOf(s.m, ev.rt, ev.id)
    [] e = "set_id" -> [s EXCEPT !.id = ev.id]         \* "Sets the register id to id."
    [] e = "set_predicate" -> [s EXCEPT !.pred = ev.n] \* "Sets operation predicate of the register to predicate"
    [] e = "reset_predicate" -> [s EXCEPT !.pred = 0]  \* "Resets shift operation type of the register to the default value"
    [] e = "set_reg_t" -> [RegOf(s.m, ev.rt, ev.id) EXCEPT !.ot = OpReg]            \* set_reg_t<kRegType>(id): signature of the type, id
    (* "Sets the register signature and id." (the signature given is traits-of-rt plus predicate n) *)
    [] e = "set_signature_and_id" -> [RegOf(s.m, ev.rt, ev.id) EXCEPT !.pred = ev.n]
    (* clone_as(other): "Casts this register to other by also changing its signature." - other's signature, this id *)
    [] e = "clone_as" -> [RegOf(s.m, ev.rt, s.id) EXCEPT !.pred = ev.n]
    [] e = "clone" -> s
    [] e = "cast" -> RegOf(s.m, (IF s.m = "x86reg" THEN X86Casts ELSE A64Casts)[ev.fn], s.id)
    (* x86::Vec::half(): "returns either YMM register if the input was ZMM, or XMM for whatever else input" *)
    [] e = "half" -> RegOf(s.m, IF s.ot = OpReg /\ s.rt = RtVec512 THEN RtVec256 ELSE RtVec128, s.id)
    [] e = "arrangement" -> [RegOf(s.m, A64Arrangements[ev.fn][1], s.id) EXCEPT !.et = A64Arrangements[ev.fn][2]]
    [] e = "element" -> [RegOf(s.m, RtVec128, s.id) EXCEPT !.et = A64ElementAccess[ev.fn], !.ef = TRUE, !.ei = ev.n]
    [] e = "make_et" -> [RegOf(s.m, ev.rt, ev.id) EXCEPT !.et = ev.n]   \* make_v{32,64,128}_with_element_type
    [] e = "make_ei" -> [RegOf(s.m, RtVec128, ev.id) EXCEPT !.et = ev.et, !.ef = TRUE, !.ei = ev.n]  \* make_v128_with_element_index
    [] e = "set_element_type" -> [s EXCEPT !.et = ev.n]   \* "Sets vector element type of the register to element_type."
    [] e = "reset_element_type" -> [s EXCEPT !.et = 0]    \* "Resets vector element type to none."
    [] e = "set_element_index" -> [s EXCEPT !.ef = TRUE, !.ei = ev.n]   \* "Sets element index of the register"
    [] e = "reset_element_index" -> [s EXCEPT !.ef = FALSE, !.ei = 0]   \* "Resets element index of the register."
    [] e = "at" -> [s EXCEPT !.ef = TRUE, !.ei = ev.n]    \* "Clones a vector register with element access enabled at the given element_index."

RegEvents == {"reset", "default", "make", "set_id", "set_predicate", "reset_predicate", "set_reg_t", "set_signature_and_id", "clone_as",
              "clone", "cast", "half", "arrangement", "element", "make_et", "make_ei", "set_element_type", "reset_element_type",
              "set_element_index", "reset_element_index", "at"}
A64OnlyRegEvents == {"arrangement", "element", "make_et", "make_ei", "set_element_type", "reset_element_type", "set_element_index",
                     "reset_element_index", "at"}
RegEventsOf(m) == IF m = "x86reg" THEN RegEvents \ A64OnlyRegEvents ELSE RegEvents \ {"half"}
RegTouches(e) ==
  CASE e \in {"reset", "default", "make", "set_reg_t", "set_signature_and_id", "make_et", "make_ei"} -> RegFields
    [] e = "set_id" -> {"id"}  [] e \in {"set_predicate", "reset_predicate"} -> {"pred"}  [] e = "clone" -> {}
    [] e \in {"clone_as", "cast", "half", "arrangement", "element"} -> RegFields \ {"id"}
    [] e \in {"set_element_type", "reset_element_type"} -> {"et"}
    [] e \in {"set_element_index", "reset_element_index", "at"} -> {"ef", "ei"}

(* type predicates, in the order the harness logs them *)
TypePreds == <<RtGp8Lo, RtGp8Hi, RtGp16, RtGp32, RtGp64, RtVec8, RtVec16, RtVec32, RtVec64, RtVec128, RtVec256, RtVec512,
               RtMask, RtTile, RtSegment, RtControl, RtDebug, RtMm, RtSt, RtBnd, RtPC>>
RegView(s) ==
  LET isr == s.ot = OpReg
      typed == isr /\ s.rt \in ValidRegTypes
      common == [
        ot |-> s.ot, none |-> s.ot = OpNone /\ s.rt = 0 /\ s.grp = 0 /\ s.size = 0 /\ s.pred = 0 /\ s.et = 0 /\ ~s.ef /\ s.ei = 0,
        isreg |-> isr, ismem |-> FALSE, isimm |-> FALSE, islabel |-> FALSE, isreglist |-> FALSE, rom |-> isr, rlm |-> isr,
        id |-> s.id, eq |-> TRUE,
        same |-> TRUE,                                 \* is_same(copy): "Tests whether this register is the same as other."
        valid |-> (s.ot # OpNone \/ s.rt # 0 \/ s.grp # 0 \/ s.size # 0 \/ s.pred # 0 \/ s.et # 0 \/ s.ef \/ s.ei # 0) /\ s.id # IdBad,
                                                       \* is_valid(): "Tests whether the register is valid (either virtual or physical)."
        phys |-> U32Lt(s.id, IdBad),                   \* Reg::is_phys_reg()
        virt |-> U32Lt(IdBad, s.id),                   \* Reg::is_virt_reg()
        ophys |-> isr /\ U32Lt(s.id, IdBad),           \* Operand_::is_phys_reg(): "Tests whether the operand is a physical register."
        ovirt |-> isr /\ U32Lt(IdBad, s.id),
        rt |-> s.rt, grp |-> s.grp, size |-> s.size, hassize |-> s.size # 0, pred |-> s.pred,
        (* Operand_::is_gp8_lo() ... is_pc(): "Tests whether the register is a <type>" (operand must be a register)     *)
        otf |-> [i \in 1..Len(TypePreds) |-> B(isr /\ s.rt = TypePreds[i])],
        (* Operand_::is_gp() / is_vec() / is_gp8(): group / either 8-bit type                                          *)
        ogp |-> isr /\ s.grp = GrpGp, ovec |-> isr /\ s.grp = GrpVec, ogp8 |-> isr /\ s.rt \in {RtGp8Lo, RtGp8Hi},
        (* Operand_::is_gp(id) / is_vec(id) / is_reg(type, id)                                                          *)
        ogpid |-> isr /\ s.grp = GrpGp, ovecid |-> isr /\ s.grp = GrpVec, otid |-> isr,    \* asked with the register's own id
        ogpidx |-> FALSE, ovecidx |-> FALSE, otidx |-> FALSE,                               \* asked with another id
        oidvar |-> TRUE, ridvar |-> TRUE,              \* every is_<type>(id) overload agrees with is_<type>() /\ id() = id
        basesig |-> TRUE,                              \* has_base_signature(RegTraits signature of its own type)
        (* Reg:: versions - judged for proper registers only (typed): "here we don't have to [check the operand type]" *)
        rtf |-> IF typed THEN [i \in 1..Len(TypePreds) |-> B(s.rt = TypePreds[i])] ELSE <<>>,
        rgp |-> typed /\ s.grp = GrpGp, rvec |-> typed /\ s.grp = GrpVec, rgp8 |-> typed /\ s.rt \in {RtGp8Lo, RtGp8Hi}]
      x86 == [xmm |-> typed /\ s.rt = RtVec128, ymm |-> typed /\ s.rt = RtVec256, zmm |-> typed /\ s.rt = RtVec512]
      arr(rt, et) == typed /\ s.rt = rt /\ s.et = et
      a64 == [
        zr |-> s.id = W32(A64Zr),                      \* "Test whether this register is ZR register."
        sp |-> s.id = W32(A64Sp),                      \* "Test whether this register is SP register."
        et |-> s.et, haset |-> s.et # 0, hasei |-> s.ef, ei |-> s.ei, hasetoi |-> s.et # 0 \/ s.ef,
        vb8 |-> arr(RtVec64, EtB), vh4 |-> arr(RtVec64, EtH), vs2 |-> arr(RtVec64, EtS),
        vb16 |-> arr(RtVec128, EtB), vh8 |-> arr(RtVec128, EtH), vs4 |-> arr(RtVec128, EtS), vd2 |-> arr(RtVec128, EtD),
        vb4x4 |-> arr(RtVec128, EtB4), vh2x4 |-> arr(RtVec128, EtH2)]
  IN IF s.m = "x86reg" THEN common @@ x86 ELSE common @@ a64

(* ========================================================================================================= *)
(* Immediates                                                                                                 *)
(* ========================================================================================================= *)
(* "Immediate operands are encoded with instruction data."  state: ity (ImmType: kInt 0 / kDouble 1),        *)
(* val ("the immediate value as int64_t, which is the internal format Imm uses"), pred (predicate).          *)
ImmFields == {"ot", "ity", "val", "pred"}
ImmDefault == [m |-> "imm", ot |-> OpImm, ity |-> 0, val |-> Z64, pred |-> 0]     \* Imm(): "Creates a new immediate value (initial value is 0)."
ImmTypeOK(s) == s.ot \in {OpNone, OpImm} /\ s.ity \in 0..1 /\ Is64(s.val) /\ s.pred \in 0..15
IntTypes == [i8 |-> <<8, TRUE>>, u8 |-> <<8, FALSE>>, i16 |-> <<16, TRUE>>, u16 |-> <<16, FALSE>>, i32 |-> <<32, TRUE>>, u32 |-> <<32, FALSE>>,
             i64 |-> <<64, TRUE>>, u64 |-> <<64, FALSE>>]
(* the int64 a C++ value x of integer type T converts to ("the value is casted to a signed 64-bit integer"): *)
(* ev.v carries x zero-extended to 64 bits                                                                    *)
ImmOfInt(T, v) == LET w == IntTypes[T][1] IN LimbsOfBits(Ext(Trunc(BitsOfLimbs(v), w), 64, IntTypes[T][2]))
(* value_as<T>(): "The value is masked before it's casted to T so the returned value is simply the           *)
(* representation of T considering the original value's lowest bits." (returned zero-extended to 64 bits)     *)
ValueAs(T, val) == LimbsOfBits(ZExt(Trunc(BitsOfLimbs(val), IntTypes[T][1]), 64))
ExtendEvents == {"sign_extend_int8", "sign_extend_int16", "sign_extend_int32", "zero_extend_uint8", "zero_extend_uint16", "zero_extend_uint32"}
ImmPre(s, ev) ==
  LET e == ev.e IN
  CASE e \in {"make_int", "set_value_int"} -> /\ ev.T \in DOMAIN IntTypes /\ Is64(ev.v) /\ (e = "make_int" => ev.n \in 0..15)
                                              /\ ValueAs(ev.T, ev.v) = ev.v                     \* ev.v is the value of type T, zero-extended
    [] e \in {"make_fp", "set_value_fp"} -> ev.T \in {"f32", "f64"} /\ Is64(ev.d) /\ (e = "make_fp" => ev.n \in 0..15)
    [] e = "make_shift" -> ev.sop \in 0..13 /\ Is32(ev.v)
    [] e = "set_type" -> ev.n \in 0..1
    [] e = "set_predicate" -> ev.n \in 0..15
    [] e \in ExtendEvents -> s.ity = 0          \* "Sign extend the INTEGER immediate value ..." - not defined for kDouble immediates
    [] OTHER -> TRUE
ImmApply(s, ev) ==
  LET e == ev.e IN
  CASE e = "reset" -> [ImmDefault EXCEPT !.ot = OpNone]     \* Operand_::reset(): "reset operands have all members set to zero"
    [] e = "default" -> ImmDefault
    (* Imm(const T& val, predicate): "Creates a new signed immediate value, assigning the value to val and an   *)
    (* architecture-specific predicate to predicate."                                                            *)
    [] e = "make_int" -> [ImmDefault EXCEPT !.val = ImmOfInt(ev.T, ev.v), !.pred = ev.n]
    (* Imm(float/double): ImmType::kDouble - "Immediate is a floating point stored as double-precision."; ev.d   *)
    (* is the IEEE double the C++ value converts to (computed by the harness, part of the trusted base)          *)
    [] e = "make_fp" -> [ImmDefault EXCEPT !.ity = 1, !.val = ev.d, !.pred = ev.n]
    (* Imm(const arm::Shift&): "Creates a new immediate value from ARM/AArch64 specific shift." *)
    [] e = "make_shift" -> [ImmDefault EXCEPT !.val = Cat64(ev.v, Z32), !.pred = ev.sop]
    (* set_value(val): "Sets immediate value to val, the value is casted to a signed 64-bit integer." (type follows T) *)
    [] e = "set_value_int" -> [s EXCEPT !.ity = 0, !.val = ImmOfInt(ev.T, ev.v)]
    [] e = "set_value_fp" -> [s EXCEPT !.ity = 1, !.val = ev.d]
    [] e = "set_type" -> [s EXCEPT !.ity = ev.n]            \* "Sets the immediate type to type."
    [] e = "reset_type" -> [s EXCEPT !.ity = 0]             \* "Resets immediate type to ImmType::kInt."
    [] e = "set_predicate" -> [s EXCEPT !.pred = ev.n]
    [] e = "reset_predicate" -> [s EXCEPT !.pred = 0]
    [] e = "clone" -> s
    (* "Sign extend the integer immediate value from 8-bit signed integer to 64 bits." (integer immediates) *)
    [] e = "sign_extend_int8" -> [s EXCEPT !.val = ImmOfInt("i8", ValueAs("u8", s.val))]
    [] e = "sign_extend_int16" -> [s EXCEPT !.val = ImmOfInt("i16", ValueAs("u16", s.val))]
    [] e = "sign_extend_int32" -> [s EXCEPT !.val = ImmOfInt("i32", ValueAs("u32", s.val))]
    (* "Zero extend the integer immediate value from 8-bit unsigned integer to 64 bits." *)
    [] e = "zero_extend_uint8" -> [s EXCEPT !.val = ValueAs("u8", s.val)]
    [] e = "zero_extend_uint16" -> [s EXCEPT !.val = ValueAs("u16", s.val)]
    [] e = "zero_extend_uint32" -> [s EXCEPT !.val = ValueAs("u32", s.val)]
ImmEvents == {"reset", "default", "make_int", "make_fp", "make_shift", "set_value_int", "set_value_fp", "set_type", "reset_type",
              "set_predicate", "reset_predicate", "clone", "sign_extend_int8", "sign_extend_int16", "sign_extend_int32",
              "zero_extend_uint8", "zero_extend_uint16", "zero_extend_uint32"}
ImmTouches(e) ==
  CASE e \in {"reset", "default", "make_int", "make_fp", "make_shift"} -> ImmFields
    [] e \in {"set_value_int", "set_value_fp"} -> {"ity", "val"}
    [] e \in {"set_type", "reset_type"} -> {"ity"}  [] e \in {"set_predicate", "reset_predicate"} -> {"pred"}  [] e = "clone" -> {}
    [] e \in ExtendEvents -> {"val"}
ImmView(s) ==
  LET n == s.ot = OpNone /\ s.ity = 0 /\ s.pred = 0 vb == BitsOfLimbs(s.val) isint == s.ity = 0 IN
  [ot |-> s.ot, none |-> n, isreg |-> FALSE, ismem |-> FALSE, isimm |-> s.ot = OpImm, islabel |-> FALSE, isreglist |-> FALSE,
   rom |-> FALSE, rlm |-> FALSE, id |-> Z32, eq |-> TRUE,
   ity |-> s.ity, isint |-> isint, isdouble |-> s.ity = 1, pred |-> s.pred, val |-> s.val,
   (* "Tests whether the immediate can be casted to 8-bit signed integer." ... (integer immediates only) *)
   isi8 |-> isint /\ FitsSigned(vb, TRUE, 8), isu8 |-> isint /\ FitsUnsigned(vb, TRUE, 8),
   isi16 |-> isint /\ FitsSigned(vb, TRUE, 16), isu16 |-> isint /\ FitsUnsigned(vb, TRUE, 16),
   isi32 |-> isint /\ FitsSigned(vb, TRUE, 32), isu32 |-> isint /\ FitsUnsigned(vb, TRUE, 32),
   as |-> [T \in DOMAIN IntTypes |-> ValueAs(T, s.val)],
   lo |-> Lo32(s.val), hi |-> Hi32(s.val)]       \* int_lo32 / uint_lo32, int_hi32 / uint_hi32

(* ========================================================================================================= *)
(* Label, register list, RegOnly                                                                              *)
(* ========================================================================================================= *)
LabelApply(s, ev) ==
  CASE ev.e = "default" -> [m |-> "label", ot |-> OpLabel, id |-> InvalidId]   \* Label(): "Creates a label operand without ID"
    [] ev.e = "make" -> [m |-> "label", ot |-> OpLabel, id |-> ev.id]           \* Label(id): "Creates a label operand of the given id."
    [] ev.e = "set_id" -> [s EXCEPT !.id = ev.id]                                \* "Sets the label id."
    [] ev.e = "reset" -> [m |-> "label", ot |-> OpLabel, id |-> InvalidId]       \* Label::reset(): "will reset all properties and set its ID to Globals::kInvalidId"
    [] ev.e = "op_reset" -> [m |-> "label", ot |-> OpNone, id |-> Z32]           \* Operand_::reset()
    [] ev.e = "clone" -> s
LabelEvents == {"default", "make", "set_id", "reset", "op_reset", "clone"}
LabelPre(s, ev) == ev.e \in {"make", "set_id"} => Is32(ev.id)
LabelView(s) ==
  [ot |-> s.ot, none |-> s.ot = OpNone, isreg |-> FALSE, ismem |-> FALSE, isimm |-> FALSE, islabel |-> s.ot = OpLabel, isreglist |-> FALSE,
   rom |-> FALSE, rlm |-> FALSE, id |-> s.id, eq |-> TRUE,
   valid |-> s.id # InvalidId]                    \* Label::is_valid(): "Tests whether the label was created by CodeHolder and/or an attached emitter."

(* BaseRegList: "List of physical registers (base)": signature (type, group, size) + "register list as a mask, where each bit represents one physical register" *)
RegListOf(rt, mask) == [m |-> "reglist", rt |-> rt, grp |-> RT[rt].grp, size |-> RT[rt].size, mask |-> mask]
MaskBits(mk) == BitsOfLimbs(mk)
MaskOf(bits) == LimbsOfBits(bits)
RegListPre(s, ev) ==
  CASE ev.e = "make" -> ev.rt \in ValidRegTypes \cup {0} /\ Is32(ev.v)
    [] ev.e \in {"set_list", "add_list", "clear_list", "and_list", "xor_list"} -> Is32(ev.v)
    [] ev.e \in {"add_reg", "clear_reg"} -> ev.n \in 0..31           \* "1u << phys_id" - a physical id below 32
    [] ev.e \in {"add_reg_r", "clear_reg_r"} -> Is32(ev.id)
    [] OTHER -> TRUE
RegListApply(s, ev) ==
  LET e == ev.e mb == MaskBits(s.mask) IN
  CASE e = "make" -> RegListOf(ev.rt, ev.v)                           \* BaseRegList(signature, reg_mask)
    [] e = "default" -> RegListOf(0, Z32)                             \* BaseRegList()
    [] e = "set_list" -> [s EXCEPT !.mask = ev.v]                     \* "Sets the register list to mask."
    [] e = "reset_list" -> [s EXCEPT !.mask = Z32]                    \* "Removes all registers from the register-list"
    [] e = "add_list" -> [s EXCEPT !.mask = MaskOf(Or(mb, MaskBits(ev.v)))]       \* "Adds registers passed by a register mask"
    [] e = "clear_list" -> [s EXCEPT !.mask = MaskOf(And(mb, Not(MaskBits(ev.v))))]  \* "Removes registers passed by a register mask"
    [] e = "and_list" -> [s EXCEPT !.mask = MaskOf(And(mb, MaskBits(ev.v)))]      \* "Uses AND operator to combine ..."
    [] e = "xor_list" -> [s EXCEPT !.mask = MaskOf(Xor(mb, MaskBits(ev.v)))]      \* "Uses XOR operator to combine ..."
    [] e = "add_reg" -> [s EXCEPT !.mask = MaskOf(Or(mb, OfSet({ev.n}, 32)))]     \* "Adds a physical register phys_id to the register-list."
    [] e = "clear_reg" -> [s EXCEPT !.mask = MaskOf(And(mb, Not(OfSet({ev.n}, 32))))]  \* "Removes a physical register phys_id"
    (* RegListT::add_reg(const RegT& reg) / clear_reg(reg): ids of 32 and above are ignored *)
    [] e = "add_reg_r" -> IF Small32(ev.id) /\ ev.id[1] < 32 THEN [s EXCEPT !.mask = MaskOf(Or(mb, OfSet({ev.id[1]}, 32)))] ELSE s
    [] e = "clear_reg_r" -> IF Small32(ev.id) /\ ev.id[1] < 32 THEN [s EXCEPT !.mask = MaskOf(And(mb, Not(OfSet({ev.id[1]}, 32))))] ELSE s
    [] e = "clone" -> s
RegListEvents == {"make", "default", "set_list", "reset_list", "add_list", "clear_list", "and_list", "xor_list", "add_reg", "clear_reg",
                  "add_reg_r", "clear_reg_r", "clone"}
RegListView(s) ==
  [ot |-> OpRegList, none |-> FALSE, isreg |-> FALSE, ismem |-> FALSE, isimm |-> FALSE, islabel |-> FALSE, isreglist |-> TRUE,
   rom |-> FALSE, rlm |-> TRUE, id |-> s.mask, eq |-> TRUE,
   rt |-> s.rt, grp |-> s.grp, size |-> s.size, list |-> s.mask,
   valid |-> s.mask # Z32,                        \* "it has a type and at least a single register in the list" (the operand type makes the signature non-zero)
   isgp |-> s.grp = GrpGp, isvec |-> s.grp = GrpVec,
   has |-> [i \in 1..34 |-> B(i <= 32 /\ MaskBits(s.mask)[i] = 1)]]   \* has_reg(0..33): "Checks whether a physical register phys_id is in the register-list."

(* RegOnly: "8-byte version of Reg that allows to store either register or nothing." *)
RegOnlyApply(s, ev) ==
  CASE ev.e = "reset" -> [m |-> "regonly", isnone |-> TRUE, rt |-> 0, grp |-> 0, id |-> Z32]       \* "Resets the RegOnly members to zeros (none)."
    [] ev.e = "init" -> [m |-> "regonly", isnone |-> FALSE, rt |-> ev.rt, grp |-> RT[ev.rt].grp, id |-> ev.id]   \* init(reg) / init(signature, id)
    [] ev.e = "set_id" -> [s EXCEPT !.id = ev.id]                                                   \* "Sets the register id."
RegOnlyEvents == {"reset", "init", "set_id"}
RegOnlyPre(s, ev) == (ev.e = "init" => ev.rt \in ValidRegTypes /\ Is32(ev.id)) /\ (ev.e = "set_id" => Is32(ev.id))
RegOnlyView(s) ==
  [isnone |-> s.isnone, isreg |-> ~s.isnone, phys |-> U32Lt(s.id, IdBad), virt |-> U32Lt(IdBad, s.id), id |-> s.id, rt |-> s.rt, grp |-> s.grp,
   back |-> TRUE]                                 \* to_reg<Reg>() gives back the register it was initialised from

(* ========================================================================================================= *)
(* Environment                                                                                                *)
(* ========================================================================================================= *)
(* Arch (archtraits.h): the doc comment of every enumerator states the bitness and the byte order.          *)
ArchUnknown == 0  ArchX86 == 1  ArchX64 == 2  ArchRV32 == 3  ArchRV64 == 4  ArchARM == 5  ArchA64 == 6  ArchThumb == 7  ArchLA64 == 8
ArchMIPS32LE == 9  ArchMIPS64LE == 10  ArchARMBE == 11  ArchA64BE == 12  ArchThumbBE == 13  ArchMIPS32BE == 15  ArchMIPS64BE == 16
DefinedArchs == (1..13) \cup {15, 16}
Archs32 == {ArchX86, ArchRV32, ArchARM, ArchThumb, ArchMIPS32LE, ArchARMBE, ArchThumbBE, ArchMIPS32BE}
Archs64 == {ArchX64, ArchRV64, ArchA64, ArchLA64, ArchMIPS64LE, ArchA64BE, ArchMIPS64BE}
ArchsBE == {ArchARMBE, ArchA64BE, ArchThumbBE, ArchMIPS32BE, ArchMIPS64BE}
(* Platform: kUnknown 0, kWindows 1, kOther 2, kLinux 3, kHurd 4, kFreeBSD 5, kOpenBSD 6, kNetBSD 7, kDragonFlyBSD 8, kHaiku 9, kOSX 10, kIOS 11, kTVOS 12, kWatchOS 13, kEmscripten 14 *)
PlatWindows == 1  PlatLinux == 3  PlatHurd == 4  PlatHaiku == 9
PlatBSD == {5, 6, 7, 8}
PlatApple == {10, 11, 12, 13}
EnvFields == {"arch", "sub", "vendor", "plat", "abi", "fmt", "fabi"}
EnvDefault == [m |-> "env", arch |-> 0, sub |-> 0, vendor |-> 0, plat |-> 0, abi |-> 0, fmt |-> 0, fabi |-> 0]
EnvTypeOK(s) == s.arch \in 0..16 /\ s.sub = 0 /\ s.vendor = 0 /\ s.plat \in 0..14 /\ s.abi \in 0..6 /\ s.fmt \in 0..6 /\ s.fabi \in 0..1
EnvPre(s, ev) ==
  CASE ev.e = "init" -> ev.arch \in 0..16 /\ ev.plat \in 0..14 /\ ev.abi \in 0..6 /\ ev.fmt \in 0..6 /\ ev.fabi \in 0..1
    [] ev.e = "set_arch" -> ev.n \in 0..16  [] ev.e = "set_platform" -> ev.n \in 0..14  [] ev.e = "set_platform_abi" -> ev.n \in 0..6
    [] ev.e = "set_object_format" -> ev.n \in 0..6  [] ev.e = "set_float_abi" -> ev.n \in 0..1
    [] ev.e \in {"set_sub_arch", "set_vendor"} -> ev.n = 0
    [] OTHER -> TRUE
EnvApply(s, ev) ==
  LET e == ev.e IN
  CASE e = "reset" -> EnvDefault                            \* "Resets all members of the environment to zero / unknown."
    (* init(arch, sub_arch, vendor, platform, platform_abi, object_format, float_abi) / the constructor of the same shape *)
    [] e = "init" -> [m |-> "env", arch |-> ev.arch, sub |-> 0, vendor |-> 0, plat |-> ev.plat, abi |-> ev.abi, fmt |-> ev.fmt, fabi |-> ev.fabi]
    [] e = "set_arch" -> [s EXCEPT !.arch = ev.n]           \* "Sets the architecture to arch."
    [] e = "set_sub_arch" -> [s EXCEPT !.sub = ev.n]
    [] e = "set_vendor" -> [s EXCEPT !.vendor = ev.n]
    [] e = "set_platform" -> [s EXCEPT !.plat = ev.n]
    [] e = "set_platform_abi" -> [s EXCEPT !.abi = ev.n]
    [] e = "set_object_format" -> [s EXCEPT !.fmt = ev.n]
    [] e = "set_float_abi" -> [s EXCEPT !.fabi = ev.n]
    [] e = "copy" -> s                                       \* e = Environment(e)
EnvEvents == {"reset", "init", "set_arch", "set_sub_arch", "set_vendor", "set_platform", "set_platform_abi", "set_object_format", "set_float_abi", "copy"}
EnvTouches(e) ==
  CASE e \in {"reset", "init"} -> EnvFields  [] e = "set_arch" -> {"arch"}  [] e = "set_sub_arch" -> {"sub"}  [] e = "set_vendor" -> {"vendor"}
    [] e = "set_platform" -> {"plat"}  [] e = "set_platform_abi" -> {"abi"}  [] e = "set_object_format" -> {"fmt"}
    [] e = "set_float_abi" -> {"fabi"}  [] e = "copy" -> {}
(* stack_alignment(): comment block of environment.cpp - "X86 Target: 32-bit - Linux, OSX, BSD, and apparently also Haiku    *)
(* guarantee 16-byte stack alignment.  Other operating systems are assumed to have 4-byte alignment by default ... 64-bit -   *)
(* stack must be aligned to 16 bytes.  ARM Target: 32-bit - Stack must be aligned to 8 bytes.  64-bit - 16 bytes".           *)
ArmFamily == {ArchARM, ArchThumb, ArchARMBE, ArchThumbBE, ArchA64, ArchA64BE}
StackAlignment(arch, plat) ==
  IF arch \in Archs64 THEN 16
  ELSE IF plat = PlatLinux \/ plat \in PlatBSD \/ plat \in PlatApple \/ plat = PlatHaiku THEN 16
  ELSE IF arch \in ArmFamily THEN 8 ELSE 4
EnvView(s) ==
  LET a == s.arch known == a \in DefinedArchs IN
  [arch |-> s.arch, sub |-> s.sub, vendor |-> s.vendor, plat |-> s.plat, abi |-> s.abi, fmt |-> s.fmt, fabi |-> s.fabi,
   empty |-> s.arch = 0 /\ s.sub = 0 /\ s.vendor = 0 /\ s.plat = 0 /\ s.abi = 0 /\ s.fmt = 0 /\ s.fabi = 0,   \* "Returns true if all members are zero, and thus unknown."
   init |-> s.arch # 0,                           \* "initialized, which means it must have a valid architecture"
   eqcopy |-> TRUE,                               \* equals(copy of itself)
   isx86 |-> a = ArchX86, isx64 |-> a = ArchX64, isarm |-> a \in {ArchARM, ArchARMBE}, isthumb |-> a \in {ArchThumb, ArchThumbBE},
   isa64 |-> a \in {ArchA64, ArchA64BE}, ismips32 |-> a \in {ArchMIPS32LE, ArchMIPS32BE}, ismips64 |-> a \in {ArchMIPS64LE, ArchMIPS64BE},
   isrv32 |-> a = ArchRV32, isrv64 |-> a = ArchRV64,
   is32 |-> IF known THEN a \in Archs32 ELSE FALSE, is64 |-> IF known THEN a \in Archs64 ELSE FALSE,
   le |-> IF known THEN a \notin ArchsBE ELSE FALSE, be |-> IF known THEN a \in ArchsBE ELSE FALSE,
   famx86 |-> a \in {ArchX86, ArchX64}, famarm |-> a \in ArmFamily, fama32 |-> a \in {ArchARM, ArchThumb, ArchARMBE, ArchThumbBE},
   fama64 |-> a \in {ArchA64, ArchA64BE}, fammips |-> a \in {ArchMIPS32LE, ArchMIPS32BE, ArchMIPS64LE, ArchMIPS64BE}, famrv |-> a \in {ArchRV32, ArchRV64},
   pwin |-> s.plat = PlatWindows, plinux |-> s.plat = PlatLinux, phurd |-> s.plat = PlatHurd, phaiku |-> s.plat = PlatHaiku,
   pbsd |-> s.plat \in PlatBSD, papple |-> s.plat \in PlatApple,
   amsvc |-> s.abi = 1, agnu |-> s.abi = 2, adarwin |-> s.abi = 5,
   regsize |-> IF known THEN (IF a \in Archs32 THEN 4 ELSE 8) ELSE 0,      \* "Returns a native register size of this architecture."
   stackalign |-> IF known THEN StackAlignment(a, s.plat) ELSE 0]
(* view fields whose value is only judged for defined architectures (Arch::kUnknown and the unassigned value 14 have no documented bitness) *)
EnvKnownOnly == {"is32", "is64", "le", "be", "regsize", "stackalign"}

(* ========================================================================================================= *)
(* dispatch                                                                                                   *)
(* ========================================================================================================= *)
InitOf(m) == CASE m \in {"x86mem", "a64mem", "basemem"} -> MemDefault(m)
               [] m \in {"x86reg", "a64reg"} -> RegDefault(m)
               [] m = "imm" -> ImmDefault
               [] m = "label" -> [m |-> "label", ot |-> OpLabel, id |-> InvalidId]
               [] m = "reglist" -> RegListOf(0, Z32)
               [] m = "regonly" -> [m |-> "regonly", isnone |-> TRUE, rt |-> 0, grp |-> 0, id |-> Z32]
               [] m = "env" -> EnvDefault
EventsOf(m) == CASE m \in {"x86mem", "a64mem", "basemem"} -> MemEventsOf(m)
                 [] m \in {"x86reg", "a64reg"} -> RegEventsOf(m)
                 [] m = "imm" -> ImmEvents  [] m = "label" -> LabelEvents  [] m = "reglist" -> RegListEvents
                 [] m = "regonly" -> RegOnlyEvents  [] m = "env" -> EnvEvents
Pre(s, ev) == CASE IsMem(s) -> MemPre(s, ev)  [] IsRegM(s) -> RegPre(s, ev)  [] s.m = "imm" -> ImmPre(s, ev)
                [] s.m = "label" -> LabelPre(s, ev)  [] s.m = "reglist" -> RegListPre(s, ev)  [] s.m = "regonly" -> RegOnlyPre(s, ev)
                [] s.m = "env" -> EnvPre(s, ev)
Apply(s, ev) == CASE IsMem(s) -> MemApply(s, ev)  [] IsRegM(s) -> RegApply(s, ev)  [] s.m = "imm" -> ImmApply(s, ev)
                  [] s.m = "label" -> LabelApply(s, ev)  [] s.m = "reglist" -> RegListApply(s, ev)  [] s.m = "regonly" -> RegOnlyApply(s, ev)
                  [] s.m = "env" -> EnvApply(s, ev)
View(s) == CASE IsMem(s) -> MemView(s)  [] IsRegM(s) -> RegView(s)  [] s.m = "imm" -> ImmView(s)
             [] s.m = "label" -> LabelView(s)  [] s.m = "reglist" -> RegListView(s)  [] s.m = "regonly" -> RegOnlyView(s)
             [] s.m = "env" -> EnvView(s)
(* view fields that are not judged in state s *)
RegTypedOnly == {"basesig", "rtf", "rgp", "rvec", "rgp8", "xmm", "ymm", "zmm", "vb8", "vh4", "vs2", "vb16", "vh8", "vs4", "vd2", "vb4x4", "vh2x4"}
Unjudged(s) == CASE IsRegM(s) -> IF s.ot = OpReg /\ s.rt \in ValidRegTypes THEN {} ELSE RegTypedOnly
                 [] s.m = "env" -> IF s.arch \in DefinedArchs THEN {} ELSE EnvKnownOnly
                 [] OTHER -> {}
TypeOK(s) == CASE IsMem(s) -> MemTypeOK(s)  [] IsRegM(s) -> RegTypeOK(s)  [] s.m = "imm" -> ImmTypeOK(s)
               [] s.m = "env" -> EnvTypeOK(s)  [] OTHER -> TRUE
=============================================================================
