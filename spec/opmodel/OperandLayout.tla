----------------------------- MODULE OperandLayout -----------------------------
(* X04: the documented vocabulary of asmjit's operand model.                        *)
(*                                                                                  *)
(* Everything here is transcribed from the DOCUMENTATION of asmjit/core/operand.h,  *)
(* asmjit/x86/x86operand.h, asmjit/arm/a64operand.h and core/archcommons.h (enum    *)
(* doc comments, the `|....XXXX|` bit diagrams above every field mask, the register *)
(* trait table with its X86|X64|A32|A64 columns), not from the C++ expressions.     *)
EXTENDS Integers, Sequences, FiniteSets, TLC

(* ---- OperandType ("Operand type used by Operand_") ------------------------------ *)
OpNone == 0   OpReg == 1   OpMem == 2   OpRegList == 3   OpImm == 4   OpLabel == 5

(* ---- RegType (doc comment of every enumerator gives width and architectures) ---- *)
RtNone == 0      RtLabelTag == 1   RtGp8Lo == 2    RtGp8Hi == 3     RtGp16 == 4     RtGp32 == 5    RtGp64 == 6
RtVec8 == 7      RtVec16 == 8      RtVec32 == 9    RtVec64 == 10    RtVec128 == 11  RtVec256 == 12 RtVec512 == 13
RtVec1024 == 14  RtVecNLen == 15   RtMask == 16    RtTile == 17     RtSegment == 25 RtControl == 26
RtDebug == 27    RtMm == 28        RtSt == 29      RtBnd == 30      RtPC == 31

(* ---- RegGroup -------------------------------------------------------------------- *)
GrpGp == 0  GrpVec == 1  GrpMask == 2  GrpExtra == 3  GrpTile == 4  GrpSegment == 10  GrpControl == 11  GrpDebug == 12
GrpMm == GrpExtra  \* "MMX register group (MM) - maps to RegGroup::kExtra"
GrpSt == 13  GrpBnd == 14  GrpPC == 15

(* ---- TypeId values needed by the trait table (see TypeModel.tla for the whole type system) *)
TVoid == 0  TInt8 == 34  TInt16 == 36  TInt32 == 38  TInt64 == 40  TFloat80 == 44  TMmx64 == 50
TInt32x1 == 55  TInt32x2 == 65  TInt32x4 == 75  TInt32x8 == 85  TInt32x16 == 95

(* Register traits: "Register traits contain metadata about a particular register type".                       *)
(* Size: the width stated in the RegType doc comment ("8-bit low general purpose register", "128-bit view of a *)
(* vector register", "80-bit" x87, "128-bit BND") in bytes; 0 where the doc gives none / implementation width. *)
(* TypeId: "TypeId representing this register type, could be TypeId::kVoid if such type doesn't exist".        *)
Trait(g, sz, t) == [valid |-> TRUE, grp |-> g, size |-> sz, tid |-> t]
NoTrait == [valid |-> FALSE, grp |-> GrpGp, size |-> 0, tid |-> TVoid]   \* "RegType is not valid by default"
RT == [r \in 0..31 |->
  CASE r = RtPC      -> Trait(GrpPC, 8, TInt64)
    [] r = RtGp8Lo   -> Trait(GrpGp, 1, TInt8)
    [] r = RtGp8Hi   -> Trait(GrpGp, 1, TInt8)
    [] r = RtGp16    -> Trait(GrpGp, 2, TInt16)
    [] r = RtGp32    -> Trait(GrpGp, 4, TInt32)
    [] r = RtGp64    -> Trait(GrpGp, 8, TInt64)
    [] r = RtVec8    -> Trait(GrpVec, 1, TVoid)
    [] r = RtVec16   -> Trait(GrpVec, 2, TVoid)
    [] r = RtVec32   -> Trait(GrpVec, 4, TInt32x1)
    [] r = RtVec64   -> Trait(GrpVec, 8, TInt32x2)
    [] r = RtVec128  -> Trait(GrpVec, 16, TInt32x4)
    [] r = RtVec256  -> Trait(GrpVec, 32, TInt32x8)
    [] r = RtVec512  -> Trait(GrpVec, 64, TInt32x16)
    [] r = RtVecNLen -> Trait(GrpVec, 0, TVoid)
    [] r = RtMask    -> Trait(GrpMask, 0, TVoid)
    [] r = RtTile    -> Trait(GrpTile, 0, TVoid)
    [] r = RtSegment -> Trait(GrpSegment, 2, TVoid)
    [] r = RtControl -> Trait(GrpControl, 0, TVoid)
    [] r = RtDebug   -> Trait(GrpDebug, 0, TVoid)
    [] r = RtMm      -> Trait(GrpMm, 8, TMmx64)
    [] r = RtSt      -> Trait(GrpSt, 10, TFloat80)
    [] r = RtBnd     -> Trait(GrpBnd, 16, TVoid)
    [] OTHER         -> NoTrait]
ValidRegTypes == {r \in 0..31 : RT[r].valid}

(* The X86|X64|A32|A64 columns of the trait table: which register types an architecture has. *)
X86RegTypes == {RtPC, RtGp8Lo, RtGp8Hi, RtGp16, RtGp32, RtGp64, RtVec128, RtVec256, RtVec512, RtMask, RtSegment,
                RtControl, RtDebug, RtMm, RtSt, RtBnd}
X64RegTypes == X86RegTypes \cup {RtTile}
A64RegTypes == {RtPC, RtGp32, RtGp64, RtVec8, RtVec16, RtVec32, RtVec64, RtVec128, RtVecNLen, RtMask}

(* ---- OperandSignature layout: field = <<shift, width>>, from the bit diagrams ----------------------------- *)
(*   kOpType     |........|........|........|.....XXX|   kRegType     |........|........|........|XXXXX...|   *)
(*   kRegGroup   |........|........|....XXXX|........|   kMemBaseType |........|........|........|XXXXX...|   *)
(*   kMemIndex   |........|........|...XXXXX|........|   kMemRegHome  |........|........|..X.....|........|   *)
(*   kImmType    |........|........|........|....X...|   kPredicate   |........|XXXX....|........|........|   *)
(*   kSize       |XXXXXXXX|........|........|........|                                                         *)
(* x86::Mem: addr type |........|........|XX......|........|  shift |........|......XX|........|........|       *)
(*           segment   |........|...XXX..|........|........|  broadcast |........|XXX.....|........|........|   *)
(* a64::Vec: element type |........|........|.XXX....|........| flag |........|........|X.......|........|     *)
(*           element index |........|....XXXX|........|........|                                               *)
(* a64::Mem: shift value |........|.....XXX|XX......|........| shift op |........|XXXX....|........|........|  *)
(*           offset mode |......XX|........|........|........|                                                 *)
DocLayout == [
  optype |-> <<0, 3>>, regtype |-> <<3, 5>>, reggroup |-> <<8, 4>>, membase |-> <<3, 5>>, memindex |-> <<8, 5>>,
  home |-> <<13, 1>>, immtype |-> <<3, 1>>, pred |-> <<20, 4>>, size |-> <<24, 8>>,
  x86addr |-> <<14, 2>>, x86shift |-> <<16, 2>>, x86seg |-> <<18, 3>>, x86bcst |-> <<21, 3>>,
  a64et |-> <<12, 3>>, a64ef |-> <<15, 1>>, a64ei |-> <<16, 4>>,
  a64sh |-> <<14, 5>>, a64sop |-> <<20, 4>>, a64mode |-> <<24, 2>>]

(* fields that coexist in one operand kind *)
KindFields == [
  x86mem  |-> {"optype", "membase", "memindex", "home", "x86addr", "x86shift", "x86seg", "x86bcst", "size"},
  a64mem  |-> {"optype", "membase", "memindex", "home", "a64sh", "a64sop", "a64mode"},
  basemem |-> {"optype", "membase", "memindex", "home"},
  x86reg  |-> {"optype", "regtype", "reggroup", "pred", "size"},
  a64reg  |-> {"optype", "regtype", "reggroup", "a64et", "a64ef", "a64ei", "pred", "size"},
  imm     |-> {"optype", "immtype", "pred"},
  reglist |-> {"optype", "regtype", "reggroup", "size"}]

BitsOfField(L, f) == L[f][1] .. (L[f][1] + L[f][2] - 1)
(* the packing of a kind is lossless iff its fields occupy pairwise disjoint bits inside the 32-bit signature *)
LayoutLossless(L) == \A k \in DOMAIN KindFields : \A f \in KindFields[k] :
                       /\ BitsOfField(L, f) \subseteq 0..31
                       /\ \A g \in KindFields[k] \ {f} : BitsOfField(L, f) \cap BitsOfField(L, g) = {}
FieldMax(L, f) == 2^(L[f][2]) - 1

(* signature as a function 0..31 -> {0,1} *)
SigZero == TLCEval([b \in 0..31 |-> 0])
SigGet(L, sig, f) == LET sh == L[f][1] w == L[f][2] g[k \in 0..w] == IF k = 0 THEN 0 ELSE g[k - 1] + sig[sh + k - 1] * 2^(k - 1) IN g[w]
(* `_bits = (_bits & ~FieldMask) | (value << shift)`: what the documented set_field does (value within the field) *)
SigSet(L, sig, f, v) == LET sh == L[f][1] w == L[f][2] IN
                        TLCEval([b \in 0..31 |-> IF b >= sh /\ b < sh + w THEN (v \div 2^(b - sh)) % 2 ELSE sig[b]])
SigOfLimbs(l) == TLCEval([b \in 0..31 |-> (l[(b \div 16) + 1] \div 2^(b % 16)) % 2])

(* ---- small enumerations of the backends ------------------------------------------------------------------ *)
(* x86::Mem::AddrType: kDefault = 0, kAbs = 1, kRel = 2;  Broadcast: kNone = 0, k1To2 = 1 ... k1To64 = 6      *)
AddrDefault == 0  AddrAbs == 1  AddrRel == 2
(* arm::OffsetMode: kFixed = 0, kPreIndex = 1, kPostIndex = 2 *)
ModeFixed == 0  ModePre == 1  ModePost == 2
(* arm::ShiftOp: LSL 0, LSR 1, ASR 2, ROR 3, RRX 4, MSL 5, UXTB 6, UXTH 7, UXTW 8, UXTX 9, SXTB 10 .. SXTX 13 *)
ShiftOpName == <<"lsl", "lsr", "asr", "ror", "rrx", "msl", "uxtb", "uxth", "uxtw", "uxtx", "sxtb", "sxth", "sxtw", "sxtx">>
ShiftOpOf(n) == (CHOOSE i \in 1..Len(ShiftOpName) : ShiftOpName[i] = n) - 1
(* a64::VecElementType: kNone 0, kB 1, kH 2, kS 3, kD 4, kB4 5, kH2 6 *)
EtNone == 0  EtB == 1  EtH == 2  EtS == 3  EtD == 4  EtB4 == 5  EtH2 == 6
(* a64::Gp::Id: kIdOs 18, kIdFp 29, kIdLr 30, kIdSp 31, kIdZr 63 *)
A64Fp == 29  A64Lr == 30  A64Sp == 31  A64Zr == 63
(* x86::Gp::Id: AX 0, CX 1, DX 2, BX 3, SP 4, BP 5, SI 6, DI 7, R8..R15 *)
X86Sp == 4  X86Bp == 5

(* x86 memory-operand constructor families: "ptr_N" (platform independent naming) and the X86 convention.     *)
X86PtrSize == [
  ptr_8 |-> 1, ptr_16 |-> 2, ptr_32 |-> 4, ptr_48 |-> 6, ptr_64 |-> 8, ptr_80 |-> 10, ptr_128 |-> 16, ptr_256 |-> 32, ptr_512 |-> 64,
  byte_ptr |-> 1, word_ptr |-> 2, dword_ptr |-> 4, fword_ptr |-> 6, qword_ptr |-> 8, tbyte_ptr |-> 10, tword_ptr |-> 10,
  oword_ptr |-> 16, dqword_ptr |-> 16, qqword_ptr |-> 32, xmmword_ptr |-> 16, ymmword_ptr |-> 32, zmmword_ptr |-> 64]

(* ---- names of the predefined register constants (Intel SDM / Arm ARM register names) --------------------- *)
Gp8LoNames == <<"al", "cl", "dl", "bl", "spl", "bpl", "sil", "dil", "r8b", "r9b", "r10b", "r11b", "r12b", "r13b", "r14b", "r15b">>
Gp8HiNames == <<"ah", "ch", "dh", "bh">>
Gp16Names  == <<"ax", "cx", "dx", "bx", "sp", "bp", "si", "di", "r8w", "r9w", "r10w", "r11w", "r12w", "r13w", "r14w", "r15w">>
Gp32Names  == <<"eax", "ecx", "edx", "ebx", "esp", "ebp", "esi", "edi", "r8d", "r9d", "r10d", "r11d", "r12d", "r13d", "r14d", "r15d">>
Gp64Names  == <<"rax", "rcx", "rdx", "rbx", "rsp", "rbp", "rsi", "rdi", "r8", "r9", "r10", "r11", "r12", "r13", "r14", "r15">>
SegNames   == <<"no_seg", "es", "cs", "ss", "ds", "fs", "gs">>       \* SReg::Id: kIdNone 0, ES 1, CS 2, SS 3, DS 4, FS 5, GS 6
IndexOf(seq, x) == IF \E i \in 1..Len(seq) : seq[i] = x THEN CHOOSE i \in 1..Len(seq) : seq[i] = x ELSE 0
(* numbered families: prefix, register type, number of registers *)
X86Families == <<<<"xmm", RtVec128, 32>>, <<"ymm", RtVec256, 32>>, <<"zmm", RtVec512, 32>>, <<"mm", RtMm, 8>>, <<"k", RtMask, 8>>,
                 <<"cr", RtControl, 16>>, <<"dr", RtDebug, 16>>, <<"st", RtSt, 8>>, <<"bnd", RtBnd, 4>>, <<"tmm", RtTile, 8>>>>
A64Families == <<<<"w", RtGp32, 31>>, <<"x", RtGp64, 31>>, <<"b", RtVec8, 32>>, <<"h", RtVec16, 32>>, <<"s", RtVec32, 32>>,
                 <<"d", RtVec64, 32>>, <<"q", RtVec128, 32>>, <<"v", RtVec128, 32>>>>
=============================================================================
