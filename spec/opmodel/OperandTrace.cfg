SPECIFICATION TSpec
INVARIANT TypeInv
CONSTRAINT Progress
POSTCONDITION TraceAccepted
