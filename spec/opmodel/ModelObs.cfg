SPECIFICATION Spec
INVARIANT Conforms
