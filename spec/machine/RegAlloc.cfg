SPECIFICATION Spec
INVARIANTS UsesSeeTheirValue SlotsInv
