SPECIFICATION Spec
INVARIANTS UsesSeeTheirValue SlotsInv ConsecutiveInv RenameInv
