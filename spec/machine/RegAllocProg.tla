---------------------------- MODULE RegAllocProg ----------------------------
(* C05, Leg 2: TLC generates well-defined programs of the virtual-register language (RegAllocInterp) and         *)
(* interprets them on the fixed inputs; every finished behaviour prints                                          *)
(*     <<"PROG", <<sk, P, hz>>, prog, <<result per input>>>>       result = <<ret, out-buffer, call log>>        *)
(* The harness builds the same program with the real Compiler, runs it and RegAllocProgObs.tla compares.        *)
(*                                                                                                             *)
(* Shape of a generated program:   initall(3..P)  [stack cells initialised]  skeleton(sk) with random blocks    *)
(* over the long-lived registers 1..P   fold(all of 1..P)  ret.   All P registers are live from the top to the  *)
(* fold, so P is the register pressure.  Registers P+1, P+2 are loop counters, P+3 the accumulator.             *)
(* Randomized = TRUE  : every choice is one RandomElement (use with -simulate)                                   *)
(* Randomized = FALSE : every choice is a full \E  (exhaustive enumeration, small constants only)               *)
EXTENDS RegAllocInterp

(* 64-bit registers q1..qW (W of WSet) share the GP file and are written with mixed widths; the skeleton "hdrloop"  *)
(* adds registers P+4..P+7 that are defined first and updated/read only in the header of a loop with a two-block body *)
(* (their liveness in the body exists only through the back edge; with P >= 66 the live sets span several words).      *)
CONSTANTS TSet,          \* type salts: which TypeId of its width every virtual register gets (kInt64/kUInt64/kIntPtr.., typed vectors)
          JAnn,          \* subset of {TRUE, FALSE}: indirect jumps with / without a JumpAnnotation
          PSet,          \* set of pressures to draw from
          QSet,          \* set of vector-register pressures (0 = no vector registers)
          WSet,          \* set of 64-bit general register counts (0 = none); they add to the GP pressure
          Skeletons,     \* subset of {"straight","diamond","nested","loop2","irreducible","jtab","jtabloop","hdrloop","tiny"}
          Hazards,       \* subset of {"plain","fixed","calls","mem"}: which instruction mix the blocks use
          BlockLen,      \* instructions per random block
          Randomized

VARIABLES phase, P, Q, W, T, sk, hz, plan, prog, ms
vars == <<phase, P, Q, W, T, sk, hz, plan, prog, ms>>

Inputs == << <<0, 0>>, <<1, 2>>, <<65535, 1>>, <<3, 65535>>, <<12345, 54321>>, <<256, 255>>, <<7, 7>>, <<40000, 2>> >>

Ch(S) == IF S = {} THEN {0} ELSE IF Randomized THEN {RandomElement(S)} ELSE S
(* secondary choices (immediates, cells, condition codes) are not enumerated in exhaustive mode *)
Ch1(S) == IF Randomized THEN {RandomElement(S)} ELSE {CHOOSE x \in S : TRUE}

Imms == {0, 1, 2, 3, 15, 16, 255, 256, 4660, 32768, 65535}
Conds == {"e", "ne", "b", "ae", "be", "a"}

(* instruction mixes; a sequence so that repetition = weight *)
PlainOps == <<"movi", "mov", "add", "sub", "imul", "and", "or", "xor", "addi", "neg", "not", "xorself", "xchg", "setcc", "cmov">>
FixedOps == <<"shl", "shr", "sar", "div", "idiv", "mul", "cmpxchg", "shl", "div", "mul", "xchg", "add", "mov", "setcc">>
ExhOps == <<"shl", "div", "mul", "cmpxchg", "xchg", "call1", "sstx", "setcc", "mov">>      \* alphabet of the exhaustive mode
CallOps  == <<"call1", "call2", "call1", "call2", "add", "mov", "sub", "shl", "div", "xor">>
VecOps   == <<"vset", "vget", "vmov", "vxor", "vor", "vand", "vandn", "vandn", "vset", "vget", "vmov", "vxor">>
WideOps  == <<"qset", "qhi", "qlo", "qmov", "qxor", "qmov32", "qsx", "qop0", "qop0", "qop0", "qset16", "qset8", "qhi", "qxor",
               "qsh", "qsh", "qsh", "call3", "call3", "call4", "call4", "shl", "mul", "div">>
Op0s     == {"add", "sub", "xor", "or", "shl", "shr", "sar", "rol", "ror"}
MemOps   == <<"st", "ld", "sst", "sld", "sstx", "sldx", "add", "mov", "xor", "sst", "sld", "imul">>
OpsFor(h) == CASE h = "plain" -> PlainOps [] h = "fixed" -> PlainOps \o FixedOps \o FixedOps
               [] h = "calls" -> PlainOps \o CallOps \o FixedOps [] h = "mem" -> PlainOps \o MemOps \o MemOps \o FixedOps
               [] h = "exh" -> ExhOps
               [] OTHER -> PlainOps \o FixedOps \o CallOps \o MemOps

(* the instruction(s) for a choice; operands a,b,c are distinct registers of 1..p (0 = not available) *)
Mk(op, p, a, b, c, k, imm, cc, args, xa, xb, qa, qb, o0) ==
  CASE op = "movi" -> << <<"movi", a, imm>> >>
    [] op \in {"qset", "qhi", "qlo", "qmov", "qxor", "qmov32", "qsx", "qop0", "qset16", "qset8", "qsh", "call3", "call4"} /\ qa = 0 -> << <<"addi", a, imm>> >>
    [] op = "qset" -> << <<"qset", qa, a, IF b = 0 THEN a ELSE b>> >>
    [] op \in {"qhi", "qlo"} -> << <<op, a, qa>> >>
    [] op = "qsh" -> << <<"qsh", IF o0 \in {"shl", "shr", "sar"} THEN o0 ELSE "shl", a, qa>> >>
    [] op = "call3" -> << <<"call3", a, qa, IF b = 0 THEN a ELSE b>> >>
    [] op = "call4" -> << <<"call4", qa, a>> >>
    [] op \in {"qsx", "qset16", "qset8"} -> << <<op, qa, a>> >>
    [] op = "qop0" -> << <<"qop0", o0, qa>> >>
    [] op \in {"qmov", "qxor", "qmov32"} -> IF qb = 0 THEN << <<"qop0", o0, qa>> >> ELSE << <<op, qa, qb>> >>
    [] op \in {"vset", "vget", "vmov", "vxor", "vor", "vand", "vandn"} /\ xa = 0 -> << <<"addi", a, imm>> >>
    [] op = "vset" -> << <<"vset", xa, a>> >>
    [] op = "vget" -> << <<"vget", a, xa>> >>
    [] op \in {"vmov", "vxor", "vor", "vand", "vandn"} -> << <<op, xa, IF xb = 0 THEN xa ELSE xb>> >>
    [] op \in {"neg", "not", "xorself"} -> << <<op, a>> >>
    [] op = "addi" -> << <<"addi", a, imm>> >>
    [] b = 0 -> << <<"addi", a, imm>> >>                                       \* only one register exists
    [] op \in {"mov", "add", "sub", "imul", "and", "or", "xor", "xchg"} -> << <<op, a, b>> >>
    [] op \in {"shl", "shr", "sar"} -> << <<op, a, b>> >>
    [] op = "setcc" -> << <<"setcc", cc, a, b, IF c = 0 THEN a ELSE c>> >>
    [] op = "st" -> << <<"st", k, a>> >>
    [] op = "ld" -> << <<"ld", a, k>> >>
    [] op = "sst" -> << <<"sst", k, a>> >>
    [] op = "sld" -> << <<"sld", a, k>> >>                                     \* all stack cells are initialised up front
    [] op = "sstx" -> << <<"sstx", a, b>> >>
    [] op = "sldx" -> << <<"sldx", a, b>> >>
    [] op = "call1" -> << <<"call1", a, b, IF c = 0 THEN a ELSE c>> >>
    [] op = "call2" -> << <<"call2", a, args>> >>
    [] c = 0 -> << <<"add", a, b>> >>                                          \* fewer than three registers
    [] op = "cmov" -> << <<"cmov", cc, a, b, c, a>> >>
    [] op \in {"div", "idiv"} -> << <<"movi", a, 0>>, <<"ori", c, 1>>, <<op, a, b, c>> >>
    [] op = "mul" -> << <<"mul", a, b, c>> >>
    [] op = "cmpxchg" -> << <<"cmpxchg", a, b, c>> >>

(* ---- skeletons: a plan is a sequence of items                                                               *)
(*   <<"I", instr>> literal   <<"B", n>> n random instructions   <<"J", L>> random conditional jump to L         *)
(*   <<"T", <<L1..L4>>>> jump table on a random register                                                          *)
I(x) == <<"I", x>>
XChunks(q, nm, acc) == [c \in 1..((q + 15) \div 16) |->
                         I(IF acc = 0 THEN <<nm, 1 + 16 * (c - 1), IF 16 * c < q THEN 16 * c ELSE q>>
                                      ELSE <<nm, acc, 1 + 16 * (c - 1), IF 16 * c < q THEN 16 * c ELSE q>>)]
Prologue(p) == (IF p >= 3 THEN << I(<<"initall", 3, p>>) >> ELSE << >>)
               \o (IF Q > 0 THEN XChunks(Q, "vinitall", 0) ELSE << >>)
               \o (IF W > 0 THEN XChunks(W, "qinitall", 0) ELSE << >>)
               \o [k \in 1..NS |-> I(<<"sst", k - 1, ((k - 1) % p) + 1>>)]
(* the final fold is emitted in chunks of 16 registers (bounded recursion depth of FoldVal in TLC) *)
FoldChunks(p) == [c \in 1..((p - 1 + 15) \div 16) |->
                    I(<<"fold", p + 3, 2 + 16 * (c - 1), IF 1 + 16 * c < p THEN 1 + 16 * c ELSE p>>)]
Epilogue(p) == << I(<<"mov", p + 3, 1>>) >> \o (IF p >= 2 THEN FoldChunks(p) ELSE << >>)
               \o (IF Q > 0 THEN XChunks(Q, "vfold", p + 3) ELSE << >>)
               \o (IF W > 0 THEN XChunks(W, "qfold", p + 3) ELSE << >>)
               \o << I(<<"st", 0, p + 3>>), I(<<"ret", p + 3>>) >>
Body(s, p, n) ==
  CASE s = "straight" -> << <<"B", 3 * n>> >>
    [] s = "tiny" -> << <<"B", n>> >>
    (* three diamonds in a loop; the two arms of each pin DIFFERENT values to the same register (shift count in CL, first *)
    (* call argument register): at the merge the two live values sit in each other's place and must be swapped          *)
    (* four small loops whose bodies pin values to fixed registers (CL, rdx:rax, argument / return registers): at every    *)
    (* back edge the header's assignment must be re-established, which is where the allocator exchanges registers        *)
    [] s = "swapl" -> << <<"B", n>>,
                         I(<<"movi", p + 1, 2>>), I(<<"label", 1>>), <<"F", "qsh">>, <<"F", "call4">>, <<"F", "call3">>, I(<<"subi", p + 1, 1>>), I(<<"jcci", "ne", p + 1, 0, 1>>),
                         I(<<"movi", p + 1, 2>>), I(<<"label", 2>>), <<"F", "call4">>, <<"F", "qsh">>, <<"B", 2>>, I(<<"subi", p + 1, 1>>), I(<<"jcci", "ne", p + 1, 0, 2>>),
                         I(<<"movi", p + 1, 2>>), I(<<"label", 3>>), <<"F", "div">>, <<"F", "call3">>, <<"F", "qsh">>, I(<<"subi", p + 1, 1>>), I(<<"jcci", "ne", p + 1, 0, 3>>),
                         I(<<"movi", p + 1, 2>>), I(<<"label", 4>>), <<"F", "call4">>, <<"F", "qsh">>, <<"F", "mul">>, <<"B", 2>>, I(<<"subi", p + 1, 1>>), I(<<"jcci", "ne", p + 1, 0, 4>>),
                         <<"B", n>> >>
    [] s = "swapd" -> << <<"B", n>>, I(<<"movi", p + 1, 2>>), I(<<"label", 5>>),
                         <<"J", 1>>, <<"F", "qsh">>, I(<<"jmp", 2>>), I(<<"label", 1>>), <<"F", "shl">>, I(<<"label", 2>>), <<"B", n>>,
                         <<"J", 3>>, <<"F", "call3">>, I(<<"jmp", 4>>), I(<<"label", 3>>), <<"F", "call1">>, I(<<"label", 4>>), <<"B", n>>,
                         <<"J", 6>>, <<"F", "qsh">>, I(<<"jmp", 7>>), I(<<"label", 6>>), <<"F", "qsh">>, I(<<"label", 7>>),
                         <<"B", n>>, I(<<"subi", p + 1, 1>>), I(<<"jcci", "ne", p + 1, 0, 5>>), <<"B", n>> >>
    (* loop H -> B1 -> B2 -> H (B1 conditional): registers p+4..p+7 are defined before everything else, updated and read   *)
    (* ONLY in the header H and never after the loop, so their liveness inside the body comes only from the back edge    *)
    [] s = "hdrloop" -> << <<"B", n>>, I(<<"movi", p + 1, 3>>), I(<<"label", 1>>), <<"H", p + 4>>, <<"H", p + 5>>, <<"H", p + 6>>, <<"H", p + 7>>,
                           <<"J", 2>>, <<"B", n>>, I(<<"label", 2>>), <<"B", n>>, I(<<"subi", p + 1, 1>>), I(<<"jcci", "ne", p + 1, 0, 1>>), <<"B", n>> >>
    [] s = "diamond" -> << <<"B", n>>, <<"J", 1>>, <<"B", n>>, I(<<"jmp", 2>>), I(<<"label", 1>>), <<"B", n>>, I(<<"label", 2>>), <<"B", n>> >>
    [] s = "loop2" -> << <<"B", n>>, I(<<"movi", p + 1, 2>>), I(<<"label", 1>>), <<"B", n>>, I(<<"movi", p + 2, 3>>), I(<<"label", 2>>),
                         <<"B", n>>, I(<<"subi", p + 2, 1>>), I(<<"jcci", "ne", p + 2, 0, 2>>), <<"B", n>>,
                         I(<<"subi", p + 1, 1>>), I(<<"jcci", "ne", p + 1, 0, 1>>), <<"B", n>> >>
    [] s = "irreducible" -> << <<"B", n>>, I(<<"movi", p + 1, 3>>), <<"J", 2>>, I(<<"label", 1>>), <<"B", n>>, I(<<"label", 2>>), <<"B", n>>,
                               I(<<"subi", p + 1, 1>>), I(<<"jcci", "ne", p + 1, 0, 1>>), <<"B", n>> >>
    [] s = "jtab" -> << <<"B", n>>, <<"T", <<1, 2, 3, 4>>>>, I(<<"label", 1>>), <<"B", n>>, I(<<"jmp", 5>>), I(<<"label", 2>>), <<"B", n>>,
                        I(<<"jmp", 5>>), I(<<"label", 3>>), <<"B", n>>, I(<<"label", 4>>), <<"B", n>>, I(<<"label", 5>>), <<"B", n>> >>
    [] s = "jtabloop" -> << <<"B", n>>, I(<<"movi", p + 1, 4>>), I(<<"label", 6>>), <<"B", n>>, <<"T", <<1, 2, 3, 1>>>>, I(<<"label", 1>>), <<"B", n>>,
                            I(<<"jmp", 5>>), I(<<"label", 2>>), <<"B", n>>, I(<<"jmp", 5>>), I(<<"label", 3>>), <<"B", n>>, I(<<"label", 5>>),
                            <<"B", n>>, I(<<"subi", p + 1, 1>>), I(<<"jcci", "ne", p + 1, 0, 6>>), <<"B", n>> >>
    [] s = "nested" -> << <<"B", n>>, <<"J", 1>>, <<"B", n>>, <<"J", 2>>, <<"B", n>>, I(<<"label", 2>>), <<"B", n>>, I(<<"jmp", 3>>), I(<<"label", 1>>),
                          I(<<"movi", p + 1, 2>>), I(<<"label", 4>>), <<"B", n>>, <<"J", 5>>, <<"B", n>>, I(<<"label", 5>>),
                          I(<<"subi", p + 1, 1>>), I(<<"jcci", "ne", p + 1, 0, 4>>), I(<<"label", 3>>), <<"B", n>> >>
InvInit(s, p) == IF s = "hdrloop" THEN << I(<<"movi", p + 4, 4660>>), I(<<"movi", p + 5, 255>>), I(<<"movi", p + 6, 32768>>), I(<<"movi", p + 7, 3>>) >> ELSE << >>
PlanFor(s, p, n) == InvInit(s, p) \o Prologue(p) \o Body(s, p, n) \o Epilogue(p)

Init == /\ phase = "gen"
        /\ P \in PSet /\ Q \in QSet /\ W \in WSet /\ T \in TSet /\ sk \in Skeletons /\ hz \in Hazards
        /\ plan = PlanFor(sk, P, BlockLen)
        /\ prog = <<>>
        /\ ms = <<>>

GenLiteral == /\ plan # <<>> /\ Head(plan)[1] = "I"
              /\ prog' = Append(prog, Head(plan)[2]) /\ plan' = Tail(plan)
GenBlockEnd == /\ plan # <<>> /\ Head(plan)[1] = "B" /\ Head(plan)[2] = 0
               /\ plan' = Tail(plan) /\ UNCHANGED prog
GenBlock ==
  /\ plan # <<>> /\ Head(plan)[1] = "B" /\ Head(plan)[2] > 0
  /\ LET ops == OpsFor(hz) \o (IF Q > 0 THEN VecOps \o VecOps ELSE <<>>) \o (IF W > 0 THEN WideOps \o WideOps \o WideOps ELSE <<>>) IN
     \E oi \in Ch(1..Len(ops)) : \E a \in Ch(1..P) : \E b \in Ch((1..P) \ {a}) : \E c \in Ch((1..P) \ {a, b}) :
     \E k \in Ch1(0..(NS - 1)) : \E imm \in Ch1(Imms) : \E cc \in Ch1(Conds) : \E xa \in Ch(1..Q) : \E xb \in Ch((1..Q) \ {xa}) :
     \E qa \in Ch(1..W) : \E qb \in Ch((1..W) \ {qa}) : \E o0 \in Ch1(Op0s) :
       LET args == IF Randomized THEN [j \in 1..8 |-> RandomElement(1..P)]
                   ELSE <<a, IF b = 0 THEN a ELSE b, IF c = 0 THEN a ELSE c, a, a, IF b = 0 THEN a ELSE b, IF c = 0 THEN a ELSE c, a>>
       IN prog' = prog \o Mk(ops[oi], P, a, b, c, k, imm, cc, args, xa, xb, qa, qb, o0)
  /\ plan' = <<[Head(plan) EXCEPT ![2] = @ - 1]>> \o Tail(plan)
(* <<"F", op>>: one instruction of the given (fixed-register) kind with random operands *)
GenFixed ==
  /\ plan # <<>> /\ Head(plan)[1] = "F"
  /\ \E a \in Ch(1..P) : \E b \in Ch((1..P) \ {a}) : \E c \in Ch((1..P) \ {a, b}) :
     \E k \in Ch1(0..(NS - 1)) : \E imm \in Ch1(Imms) : \E cc \in Ch1(Conds) : \E xa \in Ch(1..Q) : \E xb \in Ch((1..Q) \ {xa}) :
     \E qa \in Ch(1..W) : \E qb \in Ch((1..W) \ {qa}) : \E o0 \in Ch1(Op0s) :
       prog' = prog \o Mk(Head(plan)[2], P, a, b, c, k, imm, cc, <<a, a, a, a, a, a, a, a>>, xa, xb, qa, qb, o0)
  /\ plan' = Tail(plan)
GenJump == /\ plan # <<>> /\ Head(plan)[1] = "J"
           /\ \E cc \in Ch1(Conds) : \E a \in Ch(1..P) : \E b \in Ch(1..P) :
                prog' = Append(prog, <<"jcc", cc, a, b, Head(plan)[2]>>)
           /\ plan' = Tail(plan)
GenHdr == /\ plan # <<>> /\ Head(plan)[1] = "H"
          /\ \E a \in Ch(1..P) : \E o \in Ch1({"add", "xor", "sub"}) : \E imm \in Ch1({1, 3, 255}) :
               prog' = prog \o << <<"addi", Head(plan)[2], imm>>, <<o, a, Head(plan)[2]>> >>       \* loop-carried, header-only
          /\ plan' = Tail(plan)
(* shapes of the indirect jump of a table ("old" = jmp reg through a table of label deltas) *)
JForms == {"old", "reg", "mb", "mbi", "mbi", "mbid", "mbid", "mli", "mstk"} \cup {"mbi"}
GenTable == /\ plan # <<>> /\ Head(plan)[1] = "T"
            /\ \E a \in Ch(1..P) : \E form \in Ch1(JForms) : \E ann \in Ch1(JAnn) :
                 prog' = IF form = "old" THEN Append(prog, <<"jtab", a, Head(plan)[2]>>)
                         ELSE prog \o << <<"andi", a, 3>>, <<"jtabx", a, Head(plan)[2], form, ann>> >>
            /\ plan' = Tail(plan)
Gen == /\ phase = "gen" /\ (GenLiteral \/ GenBlockEnd \/ GenBlock \/ GenJump \/ GenTable \/ GenHdr \/ GenFixed)
       /\ UNCHANGED <<phase, P, Q, W, T, sk, hz, ms>>

Start == /\ phase = "gen" /\ plan = <<>>
         /\ phase' = "run"
         /\ ms' = [j \in 1..Len(Inputs) |-> InitMachineW(P + 7, Q, W, Inputs[j])]
         /\ UNCHANGED <<P, Q, W, T, sk, hz, plan, prog>>

(* THE INTERPRETER: all machines (one per input) advance by one instruction *)
Interp == /\ phase = "run" /\ ~(\A j \in 1..Len(ms) : ms[j].halted)
          /\ ms' = [j \in 1..Len(ms) |-> StepM(prog, ms[j])]
          /\ UNCHANGED <<phase, P, Q, W, T, sk, hz, plan, prog>>
Finish == /\ phase = "run" /\ \A j \in 1..Len(ms) : ms[j].halted
          /\ phase' = "done"
          /\ UNCHANGED <<P, Q, W, T, sk, hz, plan, prog, ms>>

Next == Gen \/ Start \/ Interp \/ Finish
Spec == Init /\ [][Next]_vars

(* the generator only produces well-defined programs (checked, not assumed) *)
WellDefined == phase \in {"run", "done"} => \A j \in 1..Len(ms) : ~ms[j].bad
Export == phase = "done" =>
            PrintT(<<"PROG", <<sk, P, hz, Q, W, T>>, prog, Inputs, [j \in 1..Len(ms) |-> Result(ms[j])]>>)
=============================================================================
