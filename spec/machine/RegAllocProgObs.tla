--------------------------- MODULE RegAllocProgObs ---------------------------
(* C05, Leg 2, verdict: every observation (program, inputs, what the allocated machine code really returned,     *)
(* stored and called on the host) must equal what the interpreter of RegAllocInterp computes for that program.  *)
(* Pointwise over the observation file: one initial state per observation, Next = the interpreter.              *)
(*   OBS  = ndjson file written by `regalloc run`                                                               *)
(*   MODE = "report": a mismatch prints a MISMATCH line and TLC goes on (all mismatches are collected);          *)
(*          "strict": the invariant fails (used to confirm each mismatch separately).                           *)
EXTENDS RegAllocInterp, Json, IOUtils

Obs == ndJsonDeserialize(IOEnv.OBS)
Strict == "MODE" \in DOMAIN IOEnv /\ IOEnv.MODE = "strict"

VARIABLES i, ms
vars == <<i, ms>>

Init == /\ i \in 1..Len(Obs)
        /\ ms = LET nv == ProgMaxReg(Obs[i].prog, Len(Obs[i].prog))
                    nx == ProgMaxXReg(Obs[i].prog, Len(Obs[i].prog))
                    nq == ProgMaxQReg(Obs[i].prog, Len(Obs[i].prog)) IN
                [j \in 1..Len(Obs[i].inputs) |-> InitMachineW(nv, nx, nq, Obs[i].inputs[j])]
Next == /\ ~(\A j \in 1..Len(ms) : ms[j].halted)
        /\ ms' = [j \in 1..Len(ms) |-> StepM(Obs[i].prog, ms[j])]
        /\ UNCHANGED i
Spec == Init /\ [][Next]_vars

Done == \A j \in 1..Len(ms) : ms[j].halted
(* the programs handed to the code are well-defined; anything else is a broken check, not a verdict *)
WellDefined == \A j \in 1..Len(ms) : ~ms[j].bad

Same(o, m) == /\ o.ret = m.ret
              /\ o.guards
              /\ Len(o.out) = NOUT /\ \A k \in 1..NOUT : o.out[k] = m.out[k]
              /\ Len(o.log) = Len(m.log) /\ \A k \in 1..Len(m.log) : o.log[k] = m.log[k]
Agrees == /\ Obs[i].status = "ran"
          /\ Len(Obs[i].obs) = Len(ms)
          /\ \A j \in 1..Len(ms) : Same(Obs[i].obs[j], ms[j])
FirstBad == IF Obs[i].status # "ran" THEN 0 ELSE CHOOSE j \in 1..Len(ms) : ~Same(Obs[i].obs[j], ms[j])
Report == PrintT(<<"MISMATCH", Obs[i].id, FirstBad,
                   IF FirstBad = 0 THEN <<>> ELSE <<ms[FirstBad].ret, ms[FirstBad].out, ms[FirstBad].log>>>>)
ObservedEqualsExpected == Done => (Agrees \/ (~Strict /\ Report))
=============================================================================
