------------------------------- MODULE RegAlloc -------------------------------
(* C05, Leg 1: translation validation of register allocation by location-map exploration.                       *)
(*                                                                                                             *)
(* Input (REC, ndjson, one function per line, produced from the node lists that `regalloc record` wrote before  *)
(* and after BaseBuilder::run_passes()):                                                                        *)
(*   nloc   number of locations (physical registers and stack cells of this function, numbered 1..nloc)         *)
(*   entry  <<loc, v>> pairs: where the calling convention puts the argument virtual registers                  *)
(*   vsz    size in bytes of every virtual register (index v+1)                                                 *)
(*   cells  <<loc, lo, hi>> byte range of every stack cell (relative to the stack pointer at entry)             *)
(*   ust    <<lo, hi>> byte ranges of the user's stack areas (cc.new_stack)                                     *)
(*   code   the FINAL instruction list, one op per node:                                                        *)
(*     <<"I", reads, clob, pclob, writes, kill>>  an ORIGINAL instruction (also calls, returns): reads/writes =  *)
(*            <<loc, v>>: virtual register v was an operand that the allocator rewrote to location loc          *)
(*            (a register, or a stack cell for a register->memory substitution); clob = locations the           *)
(*            instruction destroys (call-clobbered registers, directly used physical registers); pclob =        *)
(*            <<loc, n>>: location preserved only in its low n bytes; kill = registers dead afterwards          *)
(*     <<"C", dst, src, clob>>  an INSERTED move / load / save (content of src copied to dst; clob = overlapped  *)
(*            cells)                 <<"X", a, b>>  inserted swap          <<"K", clob>>  inserted constant load  *)
(*     <<"G", d, s, kill>>  a move `d <- s` the allocator REMOVED because both got the same register            *)
(*     <<"J", <<<<pc, kill>>, ...>>, fall, fallkill>>  jump: successor pcs (a jump table lists all annotated     *)
(*            targets) and whether control can fall through       <<"N">> nothing       <<"E">> function end    *)
(*                                                                                                             *)
(* State: pc and the location map L : location -> SET of virtual registers whose current value the location     *)
(* holds.  An original instruction is ENABLED-AND-CORRECT iff every register it reads is in the location the    *)
(* allocator substituted for it; otherwise the state is stuck.  Invariant UsesSeeTheirValue = never stuck, on     *)
(* every path (TLC's reachability is the fix-point over loops, irreducible flow and jump tables).  Values are    *)
(* symbolic (identities of virtual registers), so acceptance holds for every input.                             *)
(*   MODE = "report": a stuck state prints a REJECT line and that path ends;  "strict": the invariant fails.     *)
EXTENDS Integers, Sequences, FiniteSets, TLC, Json, IOUtils

Funcs == ndJsonDeserialize(IOEnv.REC)
Strict == "MODE" \in DOMAIN IOEnv /\ IOEnv.MODE = "strict"

VARIABLES f, pc, L, st
vars == <<f, pc, L, st>>

Code(g) == Funcs[g].code
Op == Code(f)[pc]

SetOf(s) == {s[k] : k \in 1..Len(s)}

Init == /\ f \in 1..Len(Funcs)
        /\ pc = 1
        /\ L = [l \in 1..Funcs[f].nloc |-> {e[2] : e \in {x \in SetOf(Funcs[f].entry) : x[1] = l}}]
        /\ st = "run"

Holds(l, v) == v \in L[l]
MissingReads(op) == {r \in SetOf(op[2]) : ~Holds(r[1], r[2])}

(* writes are applied in order: the written location holds exactly v, no other location holds v any more *)
RECURSIVE ApplyWrites(_, _, _)
ApplyWrites(M, ws, k) ==
  IF k > Len(ws) THEN M
  ELSE LET l == ws[k][1] v == ws[k][2] IN
       ApplyWrites([x \in DOMAIN M |-> IF x = l THEN {v} ELSE M[x] \ {v}], ws, k + 1)

Drop(M, vs) == [x \in DOMAIN M |-> M[x] \ vs]
VSize(v) == Funcs[f].vsz[v + 1]

StepI(op) ==
  LET clob == SetOf(op[3])
      pcl == SetOf(op[4])
      M1 == [x \in DOMAIN L |-> IF x \in clob THEN {}
                                ELSE IF \E p \in pcl : p[1] = x
                                     THEN {v \in L[x] : \A p \in pcl : p[1] = x => VSize(v) <= p[2]}
                                     ELSE L[x]]
      M2 == ApplyWrites(M1, op[5], 1)
  IN Drop(M2, SetOf(op[6]))

Next ==
  /\ st = "run"
  /\ LET op == Op kind == op[1] IN
     CASE kind = "I" ->
            IF MissingReads(op) # {} THEN st' = "stuck" /\ UNCHANGED <<f, pc, L>>
            ELSE L' = StepI(op) /\ pc' = pc + 1 /\ UNCHANGED <<f, st>>
       [] kind = "C" ->
            /\ L' = [x \in DOMAIN L |-> IF x = op[2] THEN L[op[3]] ELSE IF x \in SetOf(op[4]) THEN {} ELSE L[x]]
            /\ pc' = pc + 1 /\ UNCHANGED <<f, st>>
       [] kind = "X" ->
            /\ L' = [L EXCEPT ![op[2]] = L[op[3]], ![op[3]] = L[op[2]]]
            /\ pc' = pc + 1 /\ UNCHANGED <<f, st>>
       [] kind = "K" ->
            /\ L' = [x \in DOMAIN L |-> IF x \in SetOf(op[2]) THEN {} ELSE L[x]]
            /\ pc' = pc + 1 /\ UNCHANGED <<f, st>>
       [] kind = "G" ->
            /\ L' = Drop([x \in DOMAIN L |-> IF op[3] \in L[x] THEN L[x] \cup {op[2]} ELSE L[x] \ {op[2]}], SetOf(op[4]))
            /\ pc' = pc + 1 /\ UNCHANGED <<f, st>>
       [] kind = "J" ->
            /\ \/ \E t \in SetOf(op[2]) : pc' = t[1] /\ L' = Drop(L, SetOf(t[2]))
               \/ op[3] /\ pc' = pc + 1 /\ L' = Drop(L, SetOf(op[4]))
            /\ UNCHANGED <<f, st>>
       [] kind = "N" -> pc' = pc + 1 /\ UNCHANGED <<f, L, st>>
       [] kind = "E" -> st' = "end" /\ UNCHANGED <<f, pc, L>>

Spec == Init /\ [][Next]_vars

Report == PrintT(<<"REJECT", Funcs[f].fid, pc, CHOOSE r \in MissingReads(Op) : TRUE>>)
UsesSeeTheirValue == st # "stuck" \/ (~Strict /\ Report)

(* spill cells, pushed registers and outgoing stack arguments never overlap a user stack area *)
Overlap(a, b, c, d) == a < d /\ c < b
SlotsDisjoint == \A c \in SetOf(Funcs[f].cells) : \A u \in SetOf(Funcs[f].ust) : ~Overlap(c[2], c[3], u[1], u[2])
SlotsInv == SlotsDisjoint \/ (~Strict /\ PrintT(<<"REJECT", Funcs[f].fid, 0, "user stack area overlaps a spill cell">>))

(* register lists the ISA requires to be consecutive (modulo 32) are consecutive in the rewritten instruction;    *)
(* consec = <<node, <<id1, id2, ...>>>> for every operand group that query_rw_info marks with a consecutive lead  *)
ConsecutiveOK == \A c \in SetOf(Funcs[f].consec) : \A k \in 1..(Len(c[2]) - 1) : c[2][k + 1] = (c[2][k] + 1) % 32
ConsecutiveInv == ConsecutiveOK \/ (~Strict /\ PrintT(<<"REJECT", Funcs[f].fid, 0, "register list not consecutive">>))

(* The allocator may change the mnemonic of an ORIGINAL instruction only into its documented twin:                      *)
(*   VEX -> EVEX (a register 16..31 was assigned; Intel SDM: same operation on 32/64-bit elements),                      *)
(*   vround* -> vrndscale* (same immediate semantics for imm8[7:4] = 0), 128-bit lane ops -> their 32x4 EVEX forms,       *)
(*   and a register->memory substituted GP<-vector/mask move -> plain load of the same width.                            *)
(* renames = <<before, after>> mnemonic pairs of all original nodes whose mnemonic differs in the final code.            *)
Twins == { <<"vpand", "vpandd">>, <<"vpand", "vpandq">>, <<"vpandn", "vpandnd">>, <<"vpandn", "vpandnq">>,
           <<"vpor", "vpord">>, <<"vpor", "vporq">>, <<"vpxor", "vpxord">>, <<"vpxor", "vpxorq">>,
           <<"vmovdqa", "vmovdqa32">>, <<"vmovdqa", "vmovdqa64">>,
           <<"vmovdqu", "vmovdqu8">>, <<"vmovdqu", "vmovdqu16">>, <<"vmovdqu", "vmovdqu32">>, <<"vmovdqu", "vmovdqu64">>,
           <<"vbroadcastf128", "vbroadcastf32x4">>, <<"vbroadcasti128", "vbroadcasti32x4">>, <<"vextractf128", "vextractf32x4">>,
           <<"vextracti128", "vextracti32x4">>, <<"vinsertf128", "vinsertf32x4">>, <<"vinserti128", "vinserti32x4">>,
           <<"vroundpd", "vrndscalepd">>, <<"vroundps", "vrndscaleps">>, <<"vroundsd", "vrndscalesd">>, <<"vroundss", "vrndscaless">>,
           <<"kmovb", "movzx">>, <<"vmovw", "movzx">>, <<"movd", "mov">>, <<"vmovd", "mov">>, <<"kmovd", "mov">>,
           <<"movq", "mov">>, <<"vmovq", "mov">>, <<"kmovq", "mov">> }
RenameOK == \A p \in SetOf(Funcs[f].renames) : <<p[1], p[2]>> \in Twins
RenameInv == RenameOK \/ (~Strict /\ PrintT(<<"REJECT", Funcs[f].fid, 0, "mnemonic changed to something that is not its twin">>))
=============================================================================
