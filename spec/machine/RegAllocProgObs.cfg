SPECIFICATION Spec
INVARIANTS WellDefined ObservedEqualsExpected
