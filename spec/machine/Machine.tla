------------------------------- MODULE Machine -------------------------------
(* Abstract symbolic machine for the data-movement subset of x86-32/64 and AArch64 that asmjit's function     *)
(* glue code (entry argument assignment; later prolog/epilog and RA moves) emits.  It is purely functional:   *)
(* a machine state is a record, Exec(m, ins) is the state after one instruction, so that client specs (C06b   *)
(* ArgShuffle, later C07 Frame, C05 RegAlloc) own the variables.                                              *)
(*                                                                                                            *)
(* Values are symbolic:                                                                                       *)
(*   val   low `hi` bytes are known; of those, the low `lo` bytes are the low bytes of argument `i` (after    *)
(*         conversion `c` if c # ""), bytes lo..hi-1 are its sign ("s") or zero ("z") extension               *)
(*   ptr   a stack address: space x ("arg" = relative to the first stack argument, "sp" = relative to the     *)
(*         stack pointer after the prolog when the frame is dynamically aligned) + byte offset lo             *)
(*   entry the unknown content register <<x, i>> had at entry;   junk  anything else                          *)
(* Instructions are records [op, o] with operands [k, g, id, sz, bg, b, d, x] as logged by the harness        *)
(* (k = reg|mem|imm|other; reg: group g, id, size sz;  mem: base register b, displacement d, size sz (0 =     *)
(* implied by the register operand), x = TRUE when the address is not plain base+disp).                       *)
(* Anything that is not a known data movement writes Junk to its destination operand.                         *)
EXTENDS Naturals, Integers, Sequences, FiniteSets, TLC

MMin(a, b) == IF a <= b THEN a ELSE b
MMax(a, b) == IF a >= b THEN a ELSE b

Junk == [t |-> "junk", i |-> 0, c |-> "", lo |-> 0, hi |-> 0, x |-> ""]
Val(i, c, lo, hi, x) == [t |-> "val", i |-> i, c |-> c, lo |-> lo, hi |-> hi, x |-> IF lo = hi THEN "-" ELSE x]
ArgVal(i, n) == Val(i, "", n, n, "-")
Ptr(space, off) == [t |-> "ptr", i |-> 0, c |-> "", lo |-> off, hi |-> 0, x |-> space]
Entry(g, id) == [t |-> "entry", i |-> id, c |-> "", lo |-> 0, hi |-> 0, x |-> g]

(* the low n bytes of v, seen as a value whose bytes above n are unknown *)
Low(v, n) ==
  IF v.t = "val" THEN (IF v.hi <= n THEN v ELSE Val(v.i, v.c, MMin(v.lo, n), n, v.x))
  ELSE IF n >= 8 THEN v
  ELSE Junk

(* take the low n bytes of v and extend them (kind "s"/"z") to m bytes *)
Ext(v, kind, n, m) ==
  IF v.t # "val" THEN Junk
  ELSE IF v.hi < n THEN v                                      \* not all n bytes known: only v.hi bytes stay known
  ELSE IF v.lo >= n THEN Val(v.i, v.c, n, m, kind)
  ELSE IF v.x = kind \/ v.x = "z" THEN Val(v.i, v.c, v.lo, m, v.x)
  ELSE Val(v.i, v.c, v.lo, n, v.x)                              \* zero-extension of a sign-extended value: keep n bytes

(* ------------------------------------------------------------------------------------------------------- *)
(* state                                                                                                   *)
(*   reg  : sparse function <<group, id>> -> value (absent = Entry)                                        *)
(*   mem  : sparse function <<space, off>> -> [sz, v]                                                      *)
(*   wr   : registers written so far;  fault : "" or the reason execution became meaningless                *)
(* ------------------------------------------------------------------------------------------------------- *)
NewMachine(family, bits, spId) ==
  [reg |-> << >>, mem |-> << >>, wr |-> {}, fault |-> "", family |-> family, bits |-> bits, sp |-> spId]

RegGet(m, g, id) == IF <<g, id>> \in DOMAIN m.reg THEN m.reg[<<g, id>>] ELSE Entry(g, id)
FSet(f, k, v) == [q \in DOMAIN f \cup {k} |-> IF q = k THEN v ELSE f[q]]
RegPut(m, g, id, v) == [m EXCEPT !.reg = FSet(m.reg, <<g, id>>, v)]
RegSet(m, g, id, v) == [m EXCEPT !.reg = FSet(m.reg, <<g, id>>, v), !.wr = m.wr \cup {<<g, id>>}]
Fault(m, why) == IF m.fault = "" THEN [m EXCEPT !.fault = why] ELSE m

GpSize(m) == m.bits \div 8
ContainerSize(m, g) == IF g = "gp" THEN GpSize(m) ELSE IF g = "vec" THEN 64 ELSE 8

(* write the n-byte value v into register (g, id): x86-64 32-bit GP writes and AArch64 W writes zero-extend,   *)
(* narrower GP writes and legacy-SSE vector writes leave the rest alone (= unknown here)                       *)
WriteReg(m, g, id, n, v) ==
  LET lv == Low(v, n) IN
  IF g = "gp"
  THEN IF n >= GpSize(m) THEN RegSet(m, g, id, IF n = GpSize(m) /\ v.t # "val" THEN v ELSE lv)
       ELSE IF n = 4 THEN RegSet(m, g, id, Ext(lv, "z", 4, 8))
       ELSE RegSet(m, g, id, IF lv.t = "val" THEN lv ELSE Junk)
  ELSE RegSet(m, g, id, IF lv.t = "val" THEN lv ELSE IF n >= 8 THEN v ELSE Junk)

(* --- memory --- *)
Overlaps(a1, n1, a2, n2) == a1[1] = a2[1] /\ a1[2] < a2[2] + n2 /\ a2[2] < a1[2] + n1
MemStore(m, addr, n, v) ==
  LET keep == { a \in DOMAIN m.mem : ~Overlaps(a, m.mem[a].sz, addr, n) }
      cell == [sz |-> n, v |-> IF v.t = "val" THEN Low(v, n) ELSE IF n >= 8 THEN v ELSE Junk] IN
  [m EXCEPT !.mem = [a \in keep \cup {addr} |-> IF a = addr THEN cell ELSE m.mem[a]]]
MemLoad(m, addr, n) ==
  IF addr \in DOMAIN m.mem THEN LET cl == m.mem[addr] IN (IF cl.v.t = "val" THEN Low(cl.v, n) ELSE IF n >= 8 /\ cl.sz >= 8 THEN cl.v ELSE Junk)
  ELSE Junk

(* address of a memory operand, or <<"?", 0>> when its base register does not hold a stack address *)
AddrOf(m, o) ==
  LET b == RegGet(m, "gp", o.b) IN
  IF o.x \/ o.bg # "gp" \/ b.t # "ptr" THEN <<"?", 0>> ELSE <<b.x, b.lo + o.d>>

(* ------------------------------------------------------------------------------------------------------- *)
(* generic operand access                                                                                   *)
(* ------------------------------------------------------------------------------------------------------- *)
OpSize(o, other) == IF o.sz # 0 THEN o.sz ELSE other.sz
ReadOp(m, o, n) ==
  IF o.k = "reg" THEN Low(RegGet(m, o.g, o.id), n)
  ELSE IF o.k = "mem" THEN (IF AddrOf(m, o)[1] = "?" THEN Junk ELSE MemLoad(m, AddrOf(m, o), n))
  ELSE Junk
BadAddr(m, o) == o.k = "mem" /\ AddrOf(m, o)[1] = "?"

(* write an n-byte value; `ext` = how a register destination wider than n is filled: "z", "keep" *)
WriteOp(m, o, n, v, ext) ==
  IF o.k = "reg"
  THEN (IF ext = "z" /\ o.g # "gp" THEN WriteReg(m, o.g, o.id, ContainerSize(m, o.g), Ext(Low(v, n), "z", n, MMin(16, ContainerSize(m, o.g))))
        ELSE IF ext = "z" THEN WriteReg(m, o.g, o.id, GpSize(m), IF Low(v, n).t = "val" THEN Ext(Low(v, n), "z", n, GpSize(m)) ELSE IF n >= GpSize(m) THEN v ELSE Junk)
        ELSE WriteReg(m, o.g, o.id, n, v))
  ELSE IF o.k = "mem" THEN (IF BadAddr(m, o) THEN Fault(m, "store through a register that holds no stack address") ELSE MemStore(m, AddrOf(m, o), n, v))
  ELSE m

JunkDst(m, ins) ==
  IF Len(ins.o) = 0 THEN m
  ELSE LET d == ins.o[1] IN
       IF d.k = "reg" THEN RegSet(m, d.g, d.id, Junk)
       ELSE IF d.k = "mem" /\ ~BadAddr(m, d) THEN MemStore(m, AddrOf(m, d), MMax(d.sz, 1), Junk)
       ELSE m

(* ------------------------------------------------------------------------------------------------------- *)
(* x86                                                                                                      *)
(* ------------------------------------------------------------------------------------------------------- *)
X86FullVecMoves == {"movaps", "movups", "movapd", "movupd", "movdqa", "movdqu", "vmovaps", "vmovups", "vmovapd", "vmovupd",
                    "vmovdqa", "vmovdqu", "vmovdqa32", "vmovdqa64", "vmovdqu8", "vmovdqu16", "vmovdqu32", "vmovdqu64"}
KmovSize(op) == IF op = "kmovb" THEN 1 ELSE IF op = "kmovw" THEN 2 ELSE IF op = "kmovd" THEN 4 ELSE 8

(* conversion of the low `n` source bytes; only a raw (unconverted, unextended) argument can be converted *)
Convert(v, n, conv, outn) ==
  IF v.t = "val" /\ v.c = "" /\ v.lo >= n THEN Val(v.i, conv, outn, outn, "-") ELSE Junk

ExecX86(m, ins) ==
  LET op == ins.op
      no == Len(ins.o)
      d == ins.o[1]
      s == ins.o[IF no >= 2 THEN 2 ELSE 1]
      s3 == ins.o[IF no >= 3 THEN 3 ELSE 1]
  IN
  IF no = 0 THEN m
  ELSE IF no >= 2 /\ (BadAddr(m, d) \/ BadAddr(m, s)) /\ op # "lea"
  THEN Fault(m, "memory access through a register that holds no stack address")
  ELSE IF op = "mov" /\ no = 2 THEN
         (IF s.k = "imm" THEN JunkDst(m, ins)
          ELSE LET n == IF d.k = "reg" THEN d.sz ELSE OpSize(s, d) IN
               IF d.k = "reg" /\ s.k = "reg" /\ n = GpSize(m) THEN RegSet(m, d.g, d.id, RegGet(m, s.g, s.id))
               ELSE WriteOp(m, d, n, ReadOp(m, s, n), "keep"))
  ELSE IF op \in {"movzx", "movsx", "movsxd"} /\ no = 2 /\ d.k = "reg" THEN
         LET n == OpSize(s, s) kind == IF op = "movzx" THEN "z" ELSE "s" IN
         IF n = 0 THEN JunkDst(m, ins) ELSE WriteReg(m, d.g, d.id, d.sz, Ext(ReadOp(m, s, n), kind, n, d.sz))
  ELSE IF op = "xchg" /\ no = 2 /\ d.k = "reg" /\ s.k = "reg" THEN
         LET n == d.sz a == RegGet(m, d.g, d.id) b == RegGet(m, s.g, s.id) IN
         IF n = GpSize(m) THEN RegSet(RegSet(m, d.g, d.id, b), s.g, s.id, a)
         ELSE WriteReg(WriteReg(m, d.g, d.id, n, b), s.g, s.id, n, a)
  ELSE IF op \in {"movd", "vmovd", "movq", "vmovq"} /\ no = 2 THEN
         LET n == IF op \in {"movd", "vmovd"} THEN 4 ELSE 8 IN WriteOp(m, d, n, ReadOp(m, s, n), "z")
  ELSE IF op \in {"movss", "vmovss", "movsd", "vmovsd"} /\ no = 2 THEN
         LET n == IF op \in {"movss", "vmovss"} THEN 4 ELSE 8 IN
         IF d.k = "reg" /\ s.k = "reg" THEN WriteReg(m, d.g, d.id, n, ReadOp(m, s, n))      \* merge: upper part keeps old bytes
         ELSE WriteOp(m, d, n, ReadOp(m, s, n), "z")
  ELSE IF op \in X86FullVecMoves /\ no = 2 THEN
         \* the encoder goes by register id: an operand recorded with a GP type in a vector move is the XMM register
         \* of that id, and the move is 16 bytes wide
         LET fix(o) == IF o.k = "reg" /\ o.g = "gp" THEN [o EXCEPT !.g = "vec", !.sz = 16] ELSE o
             dd == fix(d) ss == fix(s)
             n == IF dd.k = "reg" THEN dd.sz ELSE ss.sz IN WriteOp(m, dd, n, ReadOp(m, ss, n), "keep")
  ELSE IF op \in {"kmovb", "kmovw", "kmovd", "kmovq"} /\ no = 2 THEN
         LET n == KmovSize(op) IN WriteOp(m, d, n, ReadOp(m, s, n), "z")
  ELSE IF op \in {"cvtss2sd", "vcvtss2sd"} /\ d.k = "reg" THEN
         LET src == IF no >= 3 THEN s3 ELSE s IN WriteReg(m, d.g, d.id, 8, Convert(ReadOp(m, src, 4), 4, "f2d", 8))
  ELSE IF op \in {"cvtsd2ss", "vcvtsd2ss"} /\ d.k = "reg" THEN
         LET src == IF no >= 3 THEN s3 ELSE s IN WriteReg(m, d.g, d.id, 4, Convert(ReadOp(m, src, 8), 8, "d2f", 4))
  ELSE IF op = "movq2dq" /\ no = 2 THEN WriteOp(m, d, 8, ReadOp(m, s, 8), "z")
  ELSE IF op = "movdq2q" /\ no = 2 THEN WriteOp(m, d, 8, ReadOp(m, s, 8), "keep")
  ELSE IF op = "lea" /\ no = 2 /\ d.k = "reg" /\ s.k = "mem" THEN
         (IF BadAddr(m, s) THEN RegSet(m, d.g, d.id, Junk) ELSE RegSet(m, d.g, d.id, Ptr(AddrOf(m, s)[1], AddrOf(m, s)[2])))
  ELSE IF op = "push" /\ no = 1 THEN
         LET spv == RegGet(m, "gp", m.sp) IN
         IF spv.t # "ptr" THEN Fault(m, "push with unknown stack pointer")
         ELSE LET a == <<spv.x, spv.lo - GpSize(m)>> IN
              RegPut(MemStore(m, a, GpSize(m), ReadOp(m, d, GpSize(m))), "gp", m.sp, Ptr(a[1], a[2]))
  ELSE IF op = "pop" /\ no = 1 /\ d.k = "reg" THEN
         LET spv == RegGet(m, "gp", m.sp) IN
         IF spv.t # "ptr" THEN Fault(m, "pop with unknown stack pointer")
         ELSE RegPut(RegSet(m, d.g, d.id, MemLoad(m, <<spv.x, spv.lo>>, GpSize(m))), "gp", m.sp, Ptr(spv.x, spv.lo + GpSize(m)))
  ELSE IF op \in {"add", "sub"} /\ no = 2 /\ d.k = "reg" /\ s.k = "imm" /\ RegGet(m, d.g, d.id).t = "ptr" THEN
         LET p == RegGet(m, d.g, d.id) IN RegSet(m, d.g, d.id, Ptr(p.x, IF op = "add" THEN p.lo + s.d ELSE p.lo - s.d))
  ELSE JunkDst(m, ins)

(* ------------------------------------------------------------------------------------------------------- *)
(* AArch64                                                                                                  *)
(* ------------------------------------------------------------------------------------------------------- *)
A64LoadSize(op, d) == CASE op \in {"ldrb", "ldrsb", "ldurb", "ldursb"} -> 1 [] op \in {"ldrh", "ldrsh", "ldurh", "ldursh"} -> 2
                        [] op \in {"ldrsw", "ldursw"} -> 4 [] OTHER -> d.sz
ExecA64(m, ins) ==
  LET op == ins.op
      no == Len(ins.o)
      d == ins.o[1]
      s == ins.o[IF no >= 2 THEN 2 ELSE 1]
  IN
  IF no = 0 THEN m
  ELSE IF no >= 2 /\ (BadAddr(m, d) \/ BadAddr(m, s))
  THEN Fault(m, "memory access through a register that holds no stack address")
  ELSE IF op = "mov" /\ no = 2 /\ d.k = "reg" /\ s.k = "reg" /\ d.g = "gp" /\ s.g = "gp" THEN
         (IF d.sz = 8 THEN RegSet(m, d.g, d.id, RegGet(m, s.g, s.id)) ELSE WriteReg(m, d.g, d.id, 4, ReadOp(m, s, 4)))
  ELSE IF op = "mov" /\ no = 2 /\ d.k = "reg" /\ s.k = "reg" /\ d.g = "vec" /\ s.g = "vec" THEN
         WriteOp(m, d, d.sz, ReadOp(m, s, d.sz), "z")
  ELSE IF op = "fmov" /\ no = 2 /\ d.k = "reg" /\ s.k = "reg" THEN
         LET n == MMin(d.sz, s.sz) IN WriteOp(m, d, n, ReadOp(m, s, n), "z")
  ELSE IF op \in {"ldr", "ldur", "ldrb", "ldrh", "ldurb", "ldurh"} /\ no = 2 /\ d.k = "reg" /\ s.k = "mem" THEN
         LET n == A64LoadSize(op, d) IN WriteOp(m, d, n, ReadOp(m, s, n), "z")
  ELSE IF op \in {"ldrsb", "ldrsh", "ldrsw", "ldursb", "ldursh", "ldursw"} /\ no = 2 /\ d.k = "reg" /\ s.k = "mem" THEN
         LET n == A64LoadSize(op, d) IN WriteReg(m, d.g, d.id, d.sz, Ext(ReadOp(m, s, n), "s", n, d.sz))
  ELSE IF op \in {"str", "stur", "strb", "strh", "sturb", "sturh"} /\ no = 2 /\ d.k = "reg" /\ s.k = "mem" THEN
         LET n == IF op \in {"strb", "sturb"} THEN 1 ELSE IF op \in {"strh", "sturh"} THEN 2 ELSE d.sz IN
         MemStore(m, AddrOf(m, s), n, Low(RegGet(m, d.g, d.id), n))
  ELSE IF op \in {"sxtb", "sxth", "sxtw", "uxtb", "uxth"} /\ no = 2 /\ d.k = "reg" /\ s.k = "reg" THEN
         LET n == IF op \in {"sxtb", "uxtb"} THEN 1 ELSE IF op \in {"sxth", "uxth"} THEN 2 ELSE 4
             kind == IF op \in {"uxtb", "uxth"} THEN "z" ELSE "s" IN
         WriteReg(m, d.g, d.id, d.sz, Ext(ReadOp(m, s, n), kind, n, d.sz))
  ELSE IF op \in {"str", "stur", "strb", "strh", "stp"} THEN m          \* store forms not understood: ignored stores would be unsound -> fault
         \* (kept explicit so that a future extension does not silently junk a register)
  ELSE JunkDst(m, ins)

A64UnknownStore(ins) == ins.op \in {"stp"} \/ (ins.op \in {"str", "stur", "strb", "strh"} /\ ~(Len(ins.o) = 2 /\ ins.o[1].k = "reg" /\ ins.o[2].k = "mem"))

Exec(m, ins) ==
  IF m.family = "x86" THEN ExecX86(m, ins)
  ELSE IF A64UnknownStore(ins) THEN Fault(m, "store form outside the modelled subset")
  ELSE ExecA64(m, ins)

(* every place (register or memory cell) that currently holds a value *)
AllValues(m) == { m.reg[r] : r \in DOMAIN m.reg } \cup { m.mem[a].v : a \in DOMAIN m.mem }
=============================================================================
