--------------------------- MODULE RegAllocInterp ---------------------------
(* C05, Leg 2: the virtual-register language and its interpreter.                                              *)
(*                                                                                                             *)
(* A program is a sequence of instructions (tuples, first element = mnemonic) over an UNBOUNDED set of virtual *)
(* registers 1,2,3,...  Every value is a 16-bit quantity 0..65535 held in a 32-bit register; every operation    *)
(* that could leave that range is followed, on the real machine, by an explicit `and r,0xFFFF` (the harness     *)
(* expansion), so "mod 2^16" below IS the machine's 32-bit wrap-around followed by that mask.  No intermediate  *)
(* value exceeds TLC's 32-bit integers (see Mul16).                                                            *)
(*                                                                                                             *)
(*   <<"movi",d,imm>> <<"mov",d,s>> <<"add",d,s>> <<"sub",d,s>> <<"imul",d,s>> <<"and",d,s>> <<"or",d,s>>        *)
(*   <<"xor",d,s>> <<"addi",d,imm>> <<"subi",d,imm>> <<"muli",d,imm>> <<"andi",d,imm>> <<"ori",d,imm>>          *)
(*   <<"neg",d>> <<"not",d>> <<"shl",d,c>> <<"shr",d,c>> <<"sar",d,c>>      (count in CL, masked mod 32 by CPU)  *)
(*   <<"xorself",d>>  (xor d,d)                                                                                *)
(*   <<"jcc",cc,a,b,L>> <<"jcci",cc,a,imm,L>> <<"jmp",L>> <<"label",L>> <<"jtab",v,<<L1..L4>>>>                  *)
(*   <<"jtabx",v,<<L1..L4>>,form,ann>>  indirect jump through a table of ABSOLUTE label addresses, requires v < 4;   *)
(*        form = operand shape of the jump: "reg" jmp r | "mb" jmp [b] | "mbi" jmp [b+v*W] | "mbid" jmp [b+v*W+16]   *)
(*        | "mli" jmp [table+v*W] (x86-32) | "mstk" (table built on the stack);  b = table base held in a register  *)
(*        that is loaded at function entry, v is used directly as the index;  ann = JumpAnnotation given or not      *)
(*   <<"setcc",cc,a,b,d>>  (writes the low byte of d only)      <<"cmov",cc,a,b,d,s>>                           *)
(*   <<"div",hi,lo,dv>> <<"idiv",hi,lo,dv>>  (edx:eax / dv; requires hi = 0, dv # 0)   <<"mul",hi,lo,s>>         *)
(*   <<"xchg",a,b>> <<"cmpxchg",d,s,acc>>                                                                        *)
(*   <<"st",k,s>> <<"ld",d,k>>   (cell k of the caller's buffer, through a pointer register)                    *)
(*   <<"sst",k,s>> <<"sld",d,k>> <<"sstx",i,s>> <<"sldx",d,i>>  (virtual stack array; x = indexed by i mod NS)    *)
(*   <<"call1",d,a,b>> <<"call2",d,<<a1..a8>>>>   (C helpers; 6 register + 2 stack arguments on SysV x64)        *)
(*   <<"initall",lo,hi>>  (v := InitConst(v) for v in lo..hi)   <<"fold",acc,lo,hi>>  (acc := acc*31+v ...)      *)
(*   <<"ret",v>>                                                                                               *)
(*   vector registers x1,x2,... (a second, independent unbounded set; lane 0 holds a 16-bit value):              *)
(*   <<"vset",x,s>> (movd x,s)  <<"vget",d,x>> (movd d,x)  <<"vmov",x,y>>  <<"vxor",x,y>> <<"vor",x,y>> <<"vand",x,y>> *)
(*   <<"vandn",x,y>>  (x := ~x & y: pandn / vpandn x,x,y / bic - note the operand order)                               *)
(*   with more than 16 vector registers the x86-64 builder enables AVX-512 in the frame and uses the VEX forms vpand,    *)
(*   vpandn, vpor, vpxor, vmovdqa, vmovdqu (the allocator rewrites them to their EVEX twins for registers 16..31)        *)
(*   <<"vinitall",lo,hi>>  (x := InitConst(1000+x))   <<"vfold",acc,lo,hi>>  (acc := acc*31 + x ...)              *)
(*   64-bit general registers q1,q2,... (a third set; value = <<hi,lo>>: upper / lower 32-bit half, each holding   *)
(*   a 16-bit quantity; they share the GP register file with the 32-bit registers):                               *)
(*   <<"qset",q,a,b>> (q := a<<32 | b)  <<"qhi",d,q>> <<"qlo",d,q>>  <<"qmov",q,p>>  <<"qxor",q,p>> (64-bit ops)      *)
(*   <<"qmov32",q,p>> (mov q32,p32)  <<"qsx",q,a>> (movsxd)  <<"qop0",op,q>> (op q32,0 with op in add sub xor or     *)
(*   shl shr sar rol ror):  a 32-bit write ZERO-EXTENDS, i.e. clears the upper half                                *)
(*   <<"qset16",q,a>> <<"qset8",q,a>>  (16/8-bit partial writes: everything else is preserved)                     *)
(*   <<"qinitall",lo,hi>>   <<"qfold",acc,lo,hi>>  (acc folds hi then lo of every q)                               *)
(*   <<"qsh",op,d,q>>  (shl/shr/sar d by CL = low byte of q: q must sit in rcx)                                    *)
(*   <<"call3",d,q,b>>  (C helper taking the 64-bit q and the 32-bit b in argument registers)                       *)
(*   <<"call4",q,a>>    (C helper returning a 64-bit value with non-zero upper half into q)                          *)
EXTENDS Integers, Sequences, FiniteSets, TLC, Bitwise

M16 == 65536
NOUT == 8          \* cells of the caller's buffer
NS == 8            \* cells of the virtual stack array (power of two)

Mul16(a, b) == ((a * (b % 256)) + ((a * (b \div 256)) % 256) * 256) % M16
Sub16(a, b) == (a + M16 - b) % M16
Pow2(n) == 2 ^ n
Shl16(a, c) == LET k == c % 32 IN IF k >= 16 THEN 0 ELSE (a * Pow2(k)) % M16
Shr16(a, c) == LET k == c % 32 IN IF k >= 16 THEN 0 ELSE a \div Pow2(k)

InitConst(v) == (v * 7919 + 13) % M16

H1(a, b) == (3 * a + b + 7) % M16
H3(h, l, b) == (h + 3 * l + b + 11) % M16
H2(s) == (s[1] + 2 * s[2] + 3 * s[3] + 4 * s[4] + 5 * s[5] + 6 * s[6] + 7 * s[7] + 8 * s[8] + 1) % M16

Cond(cc, a, b) ==
  CASE cc = "e"  -> a = b
    [] cc = "ne" -> a # b
    [] cc = "b"  -> a < b
    [] cc = "ae" -> a >= b
    [] cc = "be" -> a <= b
    [] cc = "a"  -> a > b

LabelPos(prog, L) == CHOOSE p \in 1..Len(prog) : prog[p][1] = "label" /\ prog[p][2] = L

(* highest virtual register id mentioned by a program *)
RECURSIVE SeqMax(_)
SeqMax(s) == IF s = <<>> THEN 0 ELSE LET t == SeqMax(Tail(s)) IN IF Head(s) > t THEN Head(s) ELSE t
RegsOf(I) ==
  LET op == I[1] IN
  CASE op \in {"movi", "addi", "subi", "muli", "andi", "ori", "neg", "not", "xorself", "ld", "sld"} -> <<I[2]>>
    [] op \in {"mov", "add", "sub", "imul", "and", "or", "xor", "shl", "shr", "sar", "xchg", "sstx", "sldx"} -> <<I[2], I[3]>>
    [] op = "jcc" -> <<I[3], I[4]>>
    [] op = "jcci" -> <<I[3]>>
    [] op \in {"jtab", "jtabx"} -> <<I[2]>>
    [] op = "setcc" -> <<I[3], I[4], I[5]>>
    [] op = "cmov" -> <<I[3], I[4], I[5], I[6]>>
    [] op \in {"div", "idiv", "mul", "cmpxchg", "call1"} -> <<I[2], I[3], I[4]>>
    [] op \in {"st", "sst"} -> <<I[3]>>
    [] op = "call2" -> <<I[2]>> \o I[3]
    [] op \in {"initall", "fold"} -> <<I[2], I[3], I[Len(I)]>>
    [] op = "ret" -> <<I[2]>>
    [] op = "vset" -> <<I[3]>>
    [] op = "vget" -> <<I[2]>>
    [] op = "vfold" -> <<I[2]>>
    [] op = "qset" -> <<I[3], I[4]>>
    [] op \in {"qhi", "qlo", "qfold"} -> <<I[2]>>
    [] op = "qsh" -> <<I[3]>>
    [] op = "call3" -> <<I[2], I[4]>>
    [] op = "call4" -> <<I[3]>>
    [] op \in {"qsx", "qset16", "qset8"} -> <<I[3]>>
    [] OTHER -> <<>>
QRegsOf(I) ==
  LET op == I[1] IN
  CASE op \in {"qset", "qsx", "qset16", "qset8", "call4"} -> <<I[2]>>
    [] op \in {"qhi", "qlo", "qop0", "call3"} -> <<I[3]>>
    [] op = "qsh" -> <<I[4]>>
    [] op \in {"qmov", "qxor", "qmov32", "qinitall"} -> <<I[2], I[3]>>
    [] op = "qfold" -> <<I[3], I[4]>>
    [] OTHER -> <<>>
RECURSIVE ProgMaxQReg(_, _)
ProgMaxQReg(prog, n) == IF n = 0 THEN 0 ELSE
  LET a == SeqMax(QRegsOf(prog[n])) b == ProgMaxQReg(prog, n - 1) IN IF a > b THEN a ELSE b
XRegsOf(I) ==
  LET op == I[1] IN
  CASE op = "vset" -> <<I[2]>>
    [] op = "vget" -> <<I[3]>>
    [] op \in {"vmov", "vxor", "vor", "vand", "vandn", "vinitall"} -> <<I[2], I[3]>>
    [] op = "vfold" -> <<I[3], I[4]>>
    [] OTHER -> <<>>
RECURSIVE ProgMaxXReg(_, _)
ProgMaxXReg(prog, n) == IF n = 0 THEN 0 ELSE
  LET a == SeqMax(XRegsOf(prog[n])) b == ProgMaxXReg(prog, n - 1) IN IF a > b THEN a ELSE b
RECURSIVE ProgMaxReg(_, _)
ProgMaxReg(prog, n) == IF n = 0 THEN 0 ELSE
  LET a == SeqMax(RegsOf(prog[n])) b == ProgMaxReg(prog, n - 1) IN IF a > b THEN a ELSE b

(* ---- machine ---- *)
InitMachineW(nv, nx, nq, in) ==
  [ r |-> [v \in 1..nv |-> IF v = 1 THEN in[1] ELSE IF v = 2 THEN in[2] ELSE 0],
    x |-> [v \in 1..nx |-> 0], xdef |-> {},
    q |-> [v \in 1..nq |-> <<0, 0>>], qdef |-> {},
    def |-> {v \in 1..nv : v <= 2},                       \* registers written so far (reads of others = ill-defined)
    pc |-> 1, out |-> [k \in 1..NOUT |-> 0], stk |-> [k \in 1..NS |-> 0], sdef |-> {},
    log |-> <<>>, ret |-> 0, halted |-> FALSE, bad |-> FALSE ]
InitMachineX(nv, nx, in) == InitMachineW(nv, nx, 0, in)
InitMachine(nv, in) == InitMachineX(nv, 0, in)

RECURSIVE FoldVal(_, _, _, _)
XReads(I) ==
  LET op == I[1] IN
  CASE op = "vget" -> {I[3]}
    [] op = "vmov" -> {I[3]}
    [] op \in {"vxor", "vor", "vand", "vandn"} -> {I[2], I[3]}
    [] op = "vfold" -> I[3]..I[4]
    [] OTHER -> {}
QReads(I) ==
  LET op == I[1] IN
  CASE op \in {"qhi", "qlo", "qop0", "call3"} -> {I[3]}
    [] op = "qsh" -> {I[4]}
    [] op \in {"qmov", "qmov32"} -> {I[3]}
    [] op = "qxor" -> {I[2], I[3]}
    [] op \in {"qset16", "qset8"} -> {I[2]}
    [] op = "qfold" -> I[3]..I[4]
    [] OTHER -> {}
QWrites(I) ==
  LET op == I[1] IN
  CASE op \in {"qset", "qmov", "qxor", "qmov32", "qsx", "qset16", "qset8", "call4"} -> {I[2]}
    [] op = "qop0" -> {I[3]}
    [] op = "qinitall" -> I[2]..I[3]
    [] OTHER -> {}
RECURSIVE QFoldVal(_, _, _, _)
QFoldVal(q, acc, lo, hi) ==
  IF lo > hi THEN acc
  ELSE QFoldVal(q, (Mul16((Mul16(acc, 31) + q[lo][1]) % M16, 31) + q[lo][2]) % M16, lo + 1, hi)
XWrites(I) ==
  LET op == I[1] IN
  CASE op \in {"vset", "vmov", "vxor", "vor", "vand", "vandn"} -> {I[2]}
    [] op = "vinitall" -> I[2]..I[3]
    [] OTHER -> {}
FoldVal(r, acc, lo, hi) == IF lo > hi THEN acc ELSE FoldVal(r, (Mul16(acc, 31) + r[lo]) % M16, lo + 1, hi)

(* registers read by an instruction (for the well-definedness check only) *)
Reads(I) ==
  LET op == I[1] IN
  CASE op \in {"movi", "xorself", "ld", "sld", "label", "jmp", "initall"} -> {}
    [] op \in {"addi", "subi", "muli", "andi", "ori", "neg", "not"} -> {I[2]}
    [] op = "mov" -> {I[3]}
    [] op \in {"add", "sub", "imul", "and", "or", "xor", "shl", "shr", "sar", "xchg"} -> {I[2], I[3]}
    [] op = "jcc" -> {I[3], I[4]}
    [] op = "jcci" -> {I[3]}
    [] op \in {"jtab", "jtabx"} -> {I[2]}
    [] op = "setcc" -> {I[3], I[4], I[5]}
    [] op = "cmov" -> {I[3], I[4], I[5], I[6]}
    [] op \in {"div", "idiv"} -> {I[2], I[3], I[4]}
    [] op = "mul" -> {I[3], I[4]}
    [] op = "cmpxchg" -> {I[2], I[3], I[4]}
    [] op \in {"st", "sst"} -> {I[3]}
    [] op = "sstx" -> {I[2], I[3]}
    [] op = "sldx" -> {I[3]}
    [] op = "call1" -> {I[3], I[4]}
    [] op = "call2" -> {I[3][k] : k \in 1..8}
    [] op = "fold" -> {I[2]} \cup (I[3]..I[4])
    [] op = "ret" -> {I[2]}
    [] op = "vset" -> {I[3]}
    [] op = "vfold" -> {I[2]}
    [] op \in {"vget", "vmov", "vxor", "vor", "vand", "vandn", "vinitall"} -> {}
    [] op = "qset" -> {I[3], I[4]}
    [] op \in {"qsx", "qset16", "qset8", "qsh", "call4"} -> {I[3]}
    [] op = "call3" -> {I[4]}
    [] op = "qfold" -> {I[2]}
    [] op \in {"qhi", "qlo", "qmov", "qxor", "qmov32", "qop0", "qinitall"} -> {}

Writes(I) ==
  LET op == I[1] IN
  CASE op \in {"movi", "mov", "add", "sub", "imul", "and", "or", "xor", "addi", "subi", "muli", "andi", "ori", "neg", "not",
               "shl", "shr", "sar", "xorself", "ld", "sld", "sldx", "call1", "call2", "fold", "vget", "vfold", "qhi", "qlo", "qfold", "call3"} -> {I[2]}
    [] op = "qsh" -> {I[3]}
    [] op = "setcc" -> {I[5]}
    [] op = "cmov" -> {I[5]}
    [] op \in {"div", "idiv", "mul"} -> {I[2], I[3]}
    [] op = "xchg" -> {I[2], I[3]}
    [] op = "cmpxchg" -> {I[2], I[4]}
    [] op = "initall" -> I[2]..I[3]
    [] OTHER -> {}

(* TRUE iff executing I in m is well-defined (no uninitialised read, no division fault, cells in range) *)
WellDefinedAt(m, I) ==
  /\ Reads(I) \subseteq m.def
  /\ XReads(I) \subseteq m.xdef
  /\ QReads(I) \subseteq m.qdef
  /\ (I[1] \in {"qmov32"} => I[2] # I[3])
  /\ (I[1] \in {"div", "idiv"} => m.r[I[2]] = 0 /\ m.r[I[4]] # 0 /\ Cardinality({I[2], I[3], I[4]}) = 3)
  /\ (I[1] = "mul" => Cardinality({I[2], I[3], I[4]}) = 3)
  /\ (I[1] = "cmpxchg" => Cardinality({I[2], I[3], I[4]}) = 3)
  /\ (I[1] = "xchg" => I[2] # I[3])
  /\ (I[1] = "jtabx" => m.r[I[2]] < 4)
  /\ (I[1] \in {"shl", "shr", "sar"} => I[2] # I[3])
  /\ (I[1] = "st" => I[2] \in 0..(NOUT - 1))
  /\ (I[1] = "ld" => I[3] \in 0..(NOUT - 1))
  /\ (I[1] \in {"sst"} => I[2] \in 0..(NS - 1))
  /\ (I[1] = "sld" => I[3] \in m.sdef)
  /\ (I[1] = "sldx" => (m.r[I[3]] % NS) \in m.sdef)

Set(m, d, val) == [m EXCEPT !.r[d] = val, !.pc = @ + 1]

Exec(prog, m) ==
  LET I == prog[m.pc]
      op == I[1]
      r == m.r
      m1 == [m EXCEPT !.def = @ \cup Writes(I), !.xdef = @ \cup XWrites(I), !.qdef = @ \cup QWrites(I)]
      x == m.x
      q == m.q
  IN
  CASE op = "movi" -> Set(m1, I[2], I[3])
    [] op = "mov"  -> Set(m1, I[2], r[I[3]])
    [] op = "add"  -> Set(m1, I[2], (r[I[2]] + r[I[3]]) % M16)
    [] op = "sub"  -> Set(m1, I[2], Sub16(r[I[2]], r[I[3]]))
    [] op = "imul" -> Set(m1, I[2], Mul16(r[I[2]], r[I[3]]))
    [] op = "and"  -> Set(m1, I[2], r[I[2]] & r[I[3]])
    [] op = "or"   -> Set(m1, I[2], r[I[2]] | r[I[3]])
    [] op = "xor"  -> Set(m1, I[2], r[I[2]] ^^ r[I[3]])
    [] op = "addi" -> Set(m1, I[2], (r[I[2]] + I[3]) % M16)
    [] op = "subi" -> Set(m1, I[2], Sub16(r[I[2]], I[3]))
    [] op = "muli" -> Set(m1, I[2], Mul16(r[I[2]], I[3]))
    [] op = "andi" -> Set(m1, I[2], r[I[2]] & I[3])
    [] op = "ori"  -> Set(m1, I[2], r[I[2]] | I[3])
    [] op = "neg"  -> Set(m1, I[2], Sub16(0, r[I[2]]))
    [] op = "not"  -> Set(m1, I[2], 65535 - r[I[2]])
    [] op = "xorself" -> Set(m1, I[2], 0)
    [] op = "shl"  -> Set(m1, I[2], Shl16(r[I[2]], r[I[3]]))
    [] op \in {"shr", "sar"} -> Set(m1, I[2], Shr16(r[I[2]], r[I[3]]))     \* values are non-negative 32-bit numbers
    [] op = "label" -> [m1 EXCEPT !.pc = @ + 1]
    [] op = "jmp"  -> [m1 EXCEPT !.pc = LabelPos(prog, I[2])]
    [] op = "jcc"  -> [m1 EXCEPT !.pc = IF Cond(I[2], r[I[3]], r[I[4]]) THEN LabelPos(prog, I[5]) ELSE @ + 1]
    [] op = "jcci" -> [m1 EXCEPT !.pc = IF Cond(I[2], r[I[3]], I[4]) THEN LabelPos(prog, I[5]) ELSE @ + 1]
    [] op \in {"jtab", "jtabx"} -> [m1 EXCEPT !.pc = LabelPos(prog, I[3][(r[I[2]] % 4) + 1])]
    [] op = "setcc" -> Set(m1, I[5], (r[I[5]] \div 256) * 256 + (IF Cond(I[2], r[I[3]], r[I[4]]) THEN 1 ELSE 0))
    [] op = "cmov" -> Set(m1, I[5], IF Cond(I[2], r[I[3]], r[I[4]]) THEN r[I[6]] ELSE r[I[5]])
    [] op \in {"div", "idiv"} ->
         [m1 EXCEPT !.r[I[2]] = r[I[3]] % r[I[4]], !.r[I[3]] = r[I[3]] \div r[I[4]], !.pc = @ + 1]
    [] op = "mul"  -> [m1 EXCEPT !.r[I[2]] = 0, !.r[I[3]] = Mul16(r[I[3]], r[I[4]]), !.pc = @ + 1]
    [] op = "xchg" -> [m1 EXCEPT !.r[I[2]] = r[I[3]], !.r[I[3]] = r[I[2]], !.pc = @ + 1]
    [] op = "cmpxchg" ->
         IF r[I[4]] = r[I[2]] THEN [m1 EXCEPT !.r[I[2]] = r[I[3]], !.pc = @ + 1]
                              ELSE [m1 EXCEPT !.r[I[4]] = r[I[2]], !.pc = @ + 1]
    [] op = "st"   -> [m1 EXCEPT !.out[I[2] + 1] = r[I[3]], !.pc = @ + 1]
    [] op = "ld"   -> Set(m1, I[2], m.out[I[3] + 1])
    [] op = "sst"  -> [m1 EXCEPT !.stk[I[2] + 1] = r[I[3]], !.sdef = @ \cup {I[2]}, !.pc = @ + 1]
    [] op = "sld"  -> Set(m1, I[2], m.stk[I[3] + 1])
    [] op = "sstx" -> [m1 EXCEPT !.stk[(r[I[2]] % NS) + 1] = r[I[3]], !.sdef = @ \cup {r[I[2]] % NS}, !.pc = @ + 1]
    [] op = "sldx" -> Set(m1, I[2], m.stk[(r[I[3]] % NS) + 1])
    [] op = "call1" -> [m1 EXCEPT !.r[I[2]] = H1(r[I[3]], r[I[4]]), !.log = Append(@, <<1, r[I[3]], r[I[4]]>>), !.pc = @ + 1]
    [] op = "call2" -> LET a == [k \in 1..8 |-> r[I[3][k]]] IN
                       [m1 EXCEPT !.r[I[2]] = H2(a), !.log = Append(@, <<2>> \o a), !.pc = @ + 1]
    [] op = "initall" -> [m1 EXCEPT !.r = [v \in DOMAIN r |-> IF v \in I[2]..I[3] THEN InitConst(v) ELSE r[v]], !.pc = @ + 1]
    [] op = "fold" -> Set(m1, I[2], FoldVal(r, r[I[2]], I[3], I[4]))
    [] op = "vset" -> [m1 EXCEPT !.x[I[2]] = r[I[3]], !.pc = @ + 1]
    [] op = "vget" -> Set(m1, I[2], x[I[3]])
    [] op = "vmov" -> [m1 EXCEPT !.x[I[2]] = x[I[3]], !.pc = @ + 1]
    [] op = "vxor" -> [m1 EXCEPT !.x[I[2]] = x[I[2]] ^^ x[I[3]], !.pc = @ + 1]
    [] op = "vor"  -> [m1 EXCEPT !.x[I[2]] = x[I[2]] | x[I[3]], !.pc = @ + 1]
    [] op = "vand" -> [m1 EXCEPT !.x[I[2]] = x[I[2]] & x[I[3]], !.pc = @ + 1]
    [] op = "vandn" -> [m1 EXCEPT !.x[I[2]] = (65535 - x[I[2]]) & x[I[3]], !.pc = @ + 1]
    [] op = "vinitall" -> [m1 EXCEPT !.x = [v \in DOMAIN x |-> IF v \in I[2]..I[3] THEN InitConst(1000 + v) ELSE x[v]], !.pc = @ + 1]
    [] op = "vfold" -> Set(m1, I[2], FoldVal(x, r[I[2]], I[3], I[4]))
    [] op = "qset" -> [m1 EXCEPT !.q[I[2]] = <<r[I[3]], r[I[4]]>>, !.pc = @ + 1]
    [] op = "qhi"  -> Set(m1, I[2], q[I[3]][1])
    [] op = "qlo"  -> Set(m1, I[2], q[I[3]][2])
    [] op = "qmov" -> [m1 EXCEPT !.q[I[2]] = q[I[3]], !.pc = @ + 1]
    [] op = "qxor" -> [m1 EXCEPT !.q[I[2]] = <<q[I[2]][1] ^^ q[I[3]][1], q[I[2]][2] ^^ q[I[3]][2]>>, !.pc = @ + 1]
    [] op = "qmov32" -> [m1 EXCEPT !.q[I[2]] = <<0, q[I[3]][2]>>, !.pc = @ + 1]        \* 32-bit write: upper half cleared
    [] op = "qsx"  -> [m1 EXCEPT !.q[I[2]] = <<0, r[I[3]]>>, !.pc = @ + 1]              \* value < 2^31: sign = zero extension
    [] op = "qop0" -> [m1 EXCEPT !.q[I[3]] = <<0, q[I[3]][2]>>, !.pc = @ + 1]            \* op r32,0: low half kept, upper half cleared
    [] op = "qset16" -> [m1 EXCEPT !.q[I[2]] = <<q[I[2]][1], r[I[3]]>>, !.pc = @ + 1]
    [] op = "qset8" -> [m1 EXCEPT !.q[I[2]] = <<q[I[2]][1], (q[I[2]][2] \div 256) * 256 + (r[I[3]] % 256)>>, !.pc = @ + 1]
    [] op = "qinitall" -> [m1 EXCEPT !.q = [v \in DOMAIN q |-> IF v \in I[2]..I[3] THEN <<InitConst(2000 + v), InitConst(3000 + v)>> ELSE q[v]], !.pc = @ + 1]
    [] op = "qfold" -> Set(m1, I[2], QFoldVal(q, r[I[2]], I[3], I[4]))
    [] op = "qsh"  -> Set(m1, I[3], IF I[2] = "shl" THEN Shl16(r[I[3]], q[I[4]][2]) ELSE Shr16(r[I[3]], q[I[4]][2]))
    [] op = "call4" -> [m1 EXCEPT !.q[I[2]] = <<(5 * r[I[3]] + 1) % M16, (r[I[3]] + 9) % M16>>, !.log = Append(@, <<4, r[I[3]]>>), !.pc = @ + 1]
    [] op = "call3" -> [m1 EXCEPT !.r[I[2]] = H3(q[I[3]][1], q[I[3]][2], r[I[4]]),
                                  !.log = Append(@, <<3, q[I[3]][1], q[I[3]][2], r[I[4]]>>), !.pc = @ + 1]
    [] op = "ret"  -> [m1 EXCEPT !.ret = r[I[2]], !.halted = TRUE]

(* one step of one machine; an ill-defined step or running off the end marks the machine bad (generator bug) *)
StepM(prog, m) ==
  IF m.halted THEN m
  ELSE IF m.pc > Len(prog) \/ ~WellDefinedAt(m, prog[m.pc]) THEN [m EXCEPT !.bad = TRUE, !.halted = TRUE]
  ELSE Exec(prog, m)

Result(m) == <<m.ret, m.out, m.log>>
=============================================================================
