------------------------------ MODULE LayoutImpl ------------------------------
(* Implementation-shaped specification of CodeHolder::new_section (ordered        *)
(* insertion), flatten(), code_size(), copy_flattened_data() and the address-table *)
(* shrink at the end of relocate_to_base() - asmjit/core/codeholder.cpp,           *)
(* transcribed statement by statement (overflow exits left out: all sizes small).  *)
(* TLC checks that every step is a step of the contract Layout.tla.                *)
(*                                                                                 *)
(* SkipEmptyPrev = FALSE : flatten() as in the pinned tree (`prev = section` for   *)
(*                         every section).                                         *)
(* SkipEmptyPrev = TRUE  : variant in which an empty section never becomes `prev`  *)
(*                         (the repair proposed for the finding of this check).    *)
EXTENDS Integers, Sequences, FiniteSets, TLC

CONSTANTS MaxUser,        \* number of user sections
          Aligns, Orders, Bufs, VSizes,   \* parameter domains of user sections
          TextBufs,       \* buffer sizes of .text
          ATSizes,        \* virtual sizes of .addrtab ({} = no address table)
          SkipEmptyPrev,  \* see above
          WithCopy,       \* explore copy_flattened_data as well
          CopyFlags       \* set of flag values explored by copy

VARIABLES isecs,     \* Seq of [order, align, buf, vsize, off], index = id + 1   (the Section objects)
          byorder,   \* Seq of indices                                          (_sections_by_order)
          pc,        \* "build" | "flat" | "reloc"
          sized,     \* code_size() already taken in this phase
          last,      \* last call and what it reported
          hist,      \* configuration history (for export)
          secs, phase, est, atid      \* contract (ghost) state

ivars == <<isecs, byorder, pc, sized>>
vars == <<isecs, byorder, pc, sized, last, hist, secs, phase, est, atid>>

C == INSTANCE Layout

MaxInt == 2147483647
MinInt == -2147483647 - 1
None == [op |-> "none"]

AlignUp(x, a) == IF a = 0 THEN 0 ELSE ((x + a - 1) \div a) * a      \* Support::align_up; a = 0 only for .text at 0
Max(a, b) == IF a > b THEN a ELSE b
Min(a, b) == IF a < b THEN a ELSE b
RealSize(s) == Max(s.vsize, s.buf)

(* marker bytes of section index i: head, middle, tail - never 0 and never 0xCD *)
Data(i, n) == IF n = 0 THEN <<>>
              ELSE IF n = 1 THEN << <<1, 16 * i + 1>> >>
              ELSE IF n = 2 THEN << <<1, 16 * i + 1>>, <<1, 16 * i + 3>> >>
              ELSE << <<1, 16 * i + 1>>, <<n - 2, 16 * i + 2>>, <<1, 16 * i + 3>> >>
DataByte(i, n, k) == IF k = 0 THEN 16 * i + 1 ELSE IF k = n - 1 THEN 16 * i + 3 ELSE 16 * i + 2

(* std::lower_bound(begin, end, section, (order, id) <) *)
Less(a, b) == isecs[a].order < isecs[b].order \/ (isecs[a].order = isecs[b].order /\ a < b)
InsertPos(order, id) ==
  LET less(k) == isecs[byorder[k]].order < order \/ (isecs[byorder[k]].order = order /\ byorder[k] < id)
      notless == {k \in 1 .. Len(byorder) : ~less(k)}
  IN IF notless = {} THEN Len(byorder) + 1 ELSE CHOOSE k \in notless : \A m \in notless : k <= m
InsertAt(s, pos, x) == SubSeq(s, 1, pos - 1) \o <<x>> \o SubSeq(s, pos, Len(s))

AddSection(order, align, buf, vsize) ==
  LET id == Len(isecs) + 1 IN
  /\ isecs' = Append(isecs, [order |-> order, align |-> IF align = 0 THEN 1 ELSE align, buf |-> buf,
                             vsize |-> vsize, off |-> -1])
  /\ byorder' = InsertAt(byorder, InsertPos(order, id), id)

Users == Len(isecs) - 1 - (IF atid = 0 THEN 0 ELSE 1)

INew(a, o, b, v) ==
  /\ pc = "build" /\ ~sized /\ Users < MaxUser
  /\ AddSection(o, a, b, v)
  /\ C!NewSectionFull("user", o, a, Data(Len(isecs) + 1, b), v)
  /\ last' = None
  /\ hist' = Append(hist, <<1, a, o, b, v>>)
  /\ UNCHANGED <<pc, sized>>

IAddrTab(v) ==
  /\ pc = "build" /\ ~sized /\ atid = 0
  /\ AddSection(MaxInt, 8, 0, v)
  /\ C!AddrTabOnly([id |-> Len(isecs), name |-> ".addrtab", align |-> 8, order |-> MaxInt, vsize |-> v, buf |-> 0])
  /\ last' = None
  /\ hist' = Append(hist, <<2, 8, MaxInt, 0, v>>)
  /\ UNCHANGED <<pc, sized>>

(* ---- flatten(): second loop (the first one only detects overflow) ---- *)
RECURSIVE FlatLoop(_, _, _, _)
FlatLoop(k, t, offset, prev) ==
  IF k > Len(byorder) THEN t
  ELSE LET i    == byorder[k]
           rs   == RealSize(t[i])
           off  == IF rs # 0 THEN AlignUp(offset, t[i].align) ELSE offset
           t1   == [t EXCEPT ![i].off = off]
           t2   == IF prev # 0 THEN [t1 EXCEPT ![prev].vsize = off - t1[prev].off] ELSE t1
           nprev == IF SkipEmptyPrev /\ rs = 0 THEN prev ELSE i
       IN FlatLoop(k + 1, t2, off + rs, nprev)
Flattened(t) == FlatLoop(1, t, 0, 0)

Report(t) == [i \in 1 .. Len(t) |-> [off |-> t[i].off, vsize |-> t[i].vsize, buf |-> t[i].buf]]

IFlatten ==
  /\ pc = "build"
  /\ isecs' = Flattened(isecs)
  /\ pc' = "flat" /\ sized' = FALSE
  /\ last' = [op |-> "flatten", rep |-> Report(isecs')]
  /\ C!FlattenEffect(Report(isecs'))
  /\ UNCHANGED <<byorder, hist>>

(* ---- code_size() ---- *)
RECURSIVE SizeLoop(_, _)
SizeLoop(k, offset) ==
  IF k > Len(byorder) THEN offset
  ELSE LET s == isecs[byorder[k]] IN
       SizeLoop(k + 1, IF RealSize(s) # 0 THEN AlignUp(offset, s.align) + RealSize(s) ELSE offset)
CodeSize == SizeLoop(1, 0)

ICodeSize ==
  /\ ~sized
  /\ sized' = TRUE
  /\ last' = [op |-> "codesize", n |-> CodeSize]
  /\ C!CodeSizeEffect(CodeSize)
  /\ UNCHANGED <<isecs, byorder, pc, hist>>

(* ---- tail of relocate_to_base(): `used` table slots were needed ---- *)
RelocReport(t) == [i \in 1 .. Len(t) |-> [off |-> t[i].off, vsize |-> t[i].vsize, buf |-> t[i].buf,
                                          data |-> IF i = atid THEN (IF t[i].buf = 0 THEN <<>> ELSE << <<t[i].buf, 7>> >>)
                                                   ELSE secs[i].data]]
IReloc(used) ==
  /\ pc = "flat"
  /\ IF atid = 0 THEN used = 0 ELSE used * 8 <= isecs[atid].vsize
  /\ isecs' = IF atid # 0 /\ byorder[Len(byorder)] = atid
                THEN [isecs EXCEPT ![atid].buf = used * 8, ![atid].vsize = used * 8]
                ELSE isecs
  /\ pc' = "reloc" /\ sized' = FALSE
  /\ last' = [op |-> "reloc", rep |-> RelocReport(isecs')]
  /\ C!RelocEffect(RelocReport(isecs'))
  /\ UNCHANGED <<byorder, hist>>

(* ---- copy_flattened_data(dst, dstSize, flags) ---- *)
RECURSIVE CopyLoop(_, _, _, _, _)
CopyLoop(k, img, end, dstSize, flags) ==
  IF k > Len(byorder) THEN [err |-> FALSE, img |-> img, end |-> end]
  ELSE LET i == byorder[k]
           s == isecs[i] IN
       IF s.off > dstSize THEN [err |-> TRUE, img |-> img, end |-> end]
       ELSE IF dstSize - s.off < s.buf THEN [err |-> TRUE, img |-> img, end |-> end]
       ELSE LET pad  == IF C!HasFlag(flags, C!PadSection) /\ s.buf < s.vsize
                          THEN Min(dstSize - s.off, s.vsize) - s.buf ELSE 0
                img1 == [p \in DOMAIN img |->
                           IF p >= s.off /\ p < s.off + s.buf THEN (IF i = atid THEN 7 ELSE DataByte(i, s.buf, p - s.off))
                           ELSE IF p >= s.off + s.buf /\ p < s.off + s.buf + pad THEN 0
                           ELSE img[p]]
            IN CopyLoop(k + 1, img1, Max(end, s.off + s.buf + pad), dstSize, flags)
(* run-length encoding of img[0 .. n-1]; recursion depth = number of runs *)
ToRle(img, p0, n) ==
  LET starts == {p \in 0 .. n - 1 : p = 0 \/ img[p] # img[p - 1]}
      NextStart(p) == LET later == {q \in starts : q > p} IN
                      IF later = {} THEN n ELSE CHOOSE q \in later : \A r \in later : q <= r
      RECURSIVE Build(_)
      Build(p) == IF p >= n THEN <<>> ELSE << <<NextStart(p) - p, img[p]>> >> \o Build(NextStart(p))
  IN Build(0)
CopyResult(dstSize, flags) ==
  LET r == CopyLoop(1, [p \in 0 .. dstSize - 1 |-> C!U], 0, dstSize, flags)
      img == IF ~r.err /\ r.end < dstSize /\ C!HasFlag(flags, C!PadTarget)
               THEN [p \in 0 .. dstSize - 1 |-> IF p >= r.end THEN 0 ELSE r.img[p]] ELSE r.img
  IN [r |-> IF r.err THEN "InvalidArgument" ELSE "Ok", runs |-> ToRle(img, 0, dstSize)]

DstSizes == LET n == CodeSize IN {0, n, n + 7} \cup (IF n > 0 THEN {n - 1} ELSE {})
ICopy(dstSize, flags) ==
  /\ WithCopy /\ pc \in {"flat", "reloc"}
  /\ last' = [op |-> "copy", size |-> dstSize, flags |-> flags, res |-> CopyResult(dstSize, flags)]
  /\ UNCHANGED <<isecs, byorder, pc, sized, hist, secs, phase, est, atid>>

Init == /\ \E b \in TextBufs :
             /\ isecs = << [order |-> MinInt, align |-> 0, buf |-> b, vsize |-> 0, off |-> 0] >>
             /\ secs = << [C!NewSec(".text", MinInt, 0) EXCEPT !.data = Data(1, b), !.buf = b, !.off = 0] >>
             /\ hist = << <<0, 0, MinInt, b, 0>> >>
        /\ byorder = <<1>>
        /\ pc = "build" /\ sized = FALSE
        /\ last = None
        /\ phase = "build" /\ est = {} /\ atid = 0

Next == \/ \E a \in Aligns, o \in Orders, b \in Bufs, v \in VSizes : INew(a, o, b, v)
        \/ \E v \in ATSizes : IAddrTab(v)
        \/ IFlatten
        \/ ICodeSize
        \/ \E u \in 0 .. 2 : IReloc(u)
        \/ \E d \in DstSizes, f \in CopyFlags : ICopy(d, f)
Spec == Init /\ [][Next]_vars

(* ---- refinement: every reported result is one the contract allows ---- *)
StepWhy ==
  CASE last'.op = "flatten"  -> C!FlattenWhy("Ok", last'.rep)
    [] last'.op = "codesize" -> C!CodeSizeWhy(last'.n)
    [] last'.op = "reloc"    -> C!RelocWhy(last'.rep)
    [] last'.op = "copy"     -> C!CopyWhy(last'.size, last'.flags, last'.res.r, last'.res.runs, <<>>, <<>>)
    [] OTHER -> {}
RefinesContract == [][StepWhy = {}]_vars

ContractInv == C!LInv
(* ghost and implementation agree on what is observable *)
Glue == /\ Len(secs) = Len(isecs)
        /\ \A i \in 1 .. Len(secs) : secs[i].buf = isecs[i].buf /\ secs[i].vsize = isecs[i].vsize /\ secs[i].off = isecs[i].off
        /\ phase = pc
(* informational (codeholder.h says flatten() must not be called twice): a second flatten changes nothing *)
Idempotent == pc = "flat" => Flattened(isecs) = isecs
(* _sections_by_order is sorted by (order, id) *)
Sorted == \A k \in 1 .. Len(byorder) - 1 : Less(byorder[k], byorder[k + 1])

View == <<isecs, byorder, pc, sized, secs, phase, est, atid>>

(* configuration export: one line per flattened configuration *)
Export == (pc = "flat" /\ ~sized /\ last.op = "flatten") => PrintT(<<"CFG", ToString(hist)>>)
=============================================================================
