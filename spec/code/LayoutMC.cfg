SPECIFICATION Spec
CONSTANTS
  MaxUser = 2
  Aligns <- AlignsStd
  Orders <- OrdersStd
  Bufs <- BufsStd
  VSizes <- VSizesStd
  TextBufs <- TextStd
  ATSizes <- ATNone
  SkipEmptyPrev = TRUE
  WithCopy = FALSE
  CopyFlags <- FlagsAll
INVARIANTS ContractInv Glue Sorted
PROPERTY RefinesContract
VIEW View
