SPECIFICATION Spec
CONSTANTS
  MaxLabelName = 2
  MaxSectionName = 2
  MaxLabels = 3
  MaxSections = 3
  MaxRelocs = 2
  RegSize = 8
  OrderMin <- MCOrderMin
  OrderMax <- MCOrderMax
  DupCheck = TRUE
  Groups = {"label", "bind"}
  WithFaults = TRUE
  MaxOps = 0
  MaxFix = 2
  MaxAddr = 2
  Emitters = {1, 2, 3}
  LNames <- MCNames
  LTypes <- MCTypes
  LParents <- MCParents
INVARIANT RInv
