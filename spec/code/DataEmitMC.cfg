SPECIFICATION Spec
CONSTANTS
  Archs <- ArchsAll
  Datas <- DatasStd
  Aligns <- AlignsStd
  Modes <- ModesStd
  Tids <- TidsStd
  Counts <- CountsStd
  Pools <- PoolsStd
  LabelSizes <- LabelSizesStd
  Offsets <- OffsetsStd
  SecKinds <- SecKindsStd
  ReserveSizes <- ReserveStd
  MaxOps = 3
  MaxLabels = 2
  MaxSecs = 2
  WithInst = TRUE
  Bug = "none"
INVARIANTS ContractInv PendSum
PROPERTIES RefinesContract StepProps
VIEW View
