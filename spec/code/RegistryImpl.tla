----------------------------- MODULE RegistryImpl -----------------------------
(* Implementation-shaped specification of the label name table of CodeHolder (X02):                           *)
(*   CodeHolder::new_named_label_id / label_id_by_name      asmjit/core/codeholder.cpp                        *)
(*   ArenaHashBase::_insert / _rehash, ArenaHash::get       asmjit/support/arenahash.{h,cpp}                  *)
(* transcribed statement by statement: the name hash (hash = hash * 65599 + byte, cut at the first NUL, xor   *)
(* parent id for local labels), the order of the argument checks (hence the error code that is returned),     *)
(* bucket index = hash mod bucket count, insertion at the head of the chain, growth when size exceeds 90% of   *)
(* the bucket count, to the prime two steps further in the prime table, and what happens when the allocation  *)
(* of the new bucket array fails.                                                                              *)
(*                                                                                                            *)
(* TLC checks that every step of this algorithm is a step of the contract (Registry.tla: NewNamed /           *)
(* LookupByName with the result the algorithm computed) and that lookups through the buckets agree with the   *)
(* contract's name map in every state.  GrowBug = TRUE transcribes the defect "counters updated before the    *)
(* allocation is checked" and must FAIL (negative control).  The histories are exported and replayed on the   *)
(* real code with the allocation failures injected at the same calls.                                         *)
EXTENDS Integers, Sequences, FiniteSets, TLC, Json

CONSTANTS PrimeArr,      \* ArenaHash_prime_array (bucket counts), as a sequence (index 0 of the C array is PrimeArr[1])
          INames, ITypes, IParents,   \* alphabet of the calls
          MaxNamed,      \* bound on the number of labels
          MaxOpsI,       \* bound on the history length
          GrowBug,       \* FALSE: the code as it is.  TRUE: negative control
          MaxLabelName

VARIABLES data,                 \* _data: Seq of chains, chain = Seq of nodes [hash, name, parent, id], head first
          count, grow, pidx,    \* _buckets_count, _buckets_grow, _prime_index
          size,                 \* _size
          labels, nmap,         \* the contract's view (what the accessors return / what lookups must answer)
          last,                 \* the last call and what it returned
          hist

ivars == <<data, count, grow, pidx, size, labels, nmap, last, hist>>

R == INSTANCE Registry WITH inited <- TRUE, base <- -1, eh <- 0, lg <- 0, att <- <<>>, sects <- <<>>, order <- <<>>,
                            relocs <- <<>>, atsec <- -1, atab <- {}, fix <- <<>>, bb <- {},
                            MaxSectionName <- 35, MaxLabels <- 1000000, MaxSections <- 10, MaxRelocs <- 10, RegSize <- 8,
                            OrderMin <- -1, OrderMax <- 1, DupCheck <- TRUE

(* ---- 32-bit arithmetic on two 16-bit limbs <<lo, hi>> (TLC integers are 32-bit) ---- *)
HashChar(h, c) == LET t == h[1] * 63 + c IN <<t % 65536, (h[1] + h[2] * 63 + t \div 65536) % 65536>>     \* h * 65599 + c
RECURSIVE Xor16(_, _, _)
Xor16(a, b, n) == IF n = 0 THEN 0 ELSE (((a % 2) + (b % 2)) % 2) + 2 * Xor16(a \div 2, b \div 2, n - 1)
XorSmall(h, p) == <<Xor16(h[1], p % 65536, 16), Xor16(h[2], p \div 65536, 16)>>
ModH(h, n) == (((h[2] % n) * (65536 % n)) + (h[1] % n)) % n                                                  \* _calc_mod

(* CodeHolder_hash_name_and_get_size: stops at the first NUL and "fixes" the size *)
RECURSIVE HashFrom(_, _, _)
HashFrom(s, i, h) == IF i > Len(s) \/ s[i] = 0 THEN [h |-> h, n |-> SubSeq(s, 1, i - 1)] ELSE HashFrom(s, i + 1, HashChar(h, s[i]))
HashName(s) == HashFrom(s, 1, <<0, 0>>)

(* ArenaHash::get with LabelByName::matches.  With GrowBug the bucket index can lie beyond the old array: the  *)
(* real code then reads whatever follows the array (undefined behaviour); the model reads an empty chain.      *)
Chain(idx) == IF idx + 1 <= Len(data) THEN data[idx + 1] ELSE <<>>
Get(h, n, p) == LET c == Chain(ModH(h, count))
                    hits == {k \in DOMAIN c : c[k].name = n /\ c[k].parent = p}
                IN IF hits = {} THEN -1 ELSE c[CHOOSE k \in hits : \A j \in hits : k <= j].id

(* ArenaHashBase::_rehash: old chains are walked bucket by bucket, head to tail, each node pushed to the head  *)
(* of its new chain                                                                                           *)
RECURSIVE PushAll(_, _, _)
PushAll(nd, nodes, n) == IF nodes = <<>> THEN nd
                         ELSE LET x == Head(nodes) b == ModH(x.hash, n) + 1
                              IN PushAll([nd EXCEPT ![b] = <<x>> \o @], Tail(nodes), n)
RECURSIVE Flat(_, _)
Flat(d, i) == IF i > Len(d) THEN <<>> ELSE d[i] \o Flat(d, i + 1)
Rehashed(d, n) == PushAll([i \in 1 .. n |-> <<>>], Flat(d, 1), n)

IInit == /\ data = << <<>> >> /\ count = 1 /\ grow = 1 /\ pidx = 0 /\ size = 0
         /\ labels = <<>> /\ nmap = {} /\ last = [op |-> "none"] /\ hist = <<>>

Ret(op, r, id) == last' = [op EXCEPT !.r = r, !.id = id]
Refuse(op, r) == Ret(op, r, -1) /\ UNCHANGED <<data, count, grow, pidx, size, labels, nmap>>

(* CodeHolder::new_named_label_id, in the order of the source *)
Named(name, type, parent, growfails) ==
  LET hn == HashName(name)
      n  == hn.n
      id == Len(labels)
      op == [op |-> "named", name |-> name, type |-> type, parent |-> parent, r |-> "?", id |-> -1,
             fault |-> IF growfails THEN "grow" ELSE "none"]
      lab(t, p) == [type |-> t, name |-> n, parent |-> p, sec |-> -1, off |-> 0]
  IN
  /\ Len(labels) < MaxNamed /\ (MaxOpsI = 0 \/ Len(hist) < MaxOpsI)
  /\ (growfails => (type \in 1 .. 3 /\ Len(n) > 0 /\ size + 1 > grow))      \* a failure is only injected where an allocation happens
  /\ hist' = IF MaxOpsI = 0 THEN hist ELSE Append(hist, [op |-> "named", name |-> name, type |-> type, parent |-> parent, fault |-> op.fault])
  /\ IF Len(n) = 0 THEN
       IF type # 0 THEN Refuse(op, "InvalidLabelName")
       ELSE /\ Ret(op, "Ok", id) /\ labels' = Append(labels, lab(0, -1)) /\ UNCHANGED <<data, count, grow, pidx, size, nmap>>
     ELSE IF Len(n) > MaxLabelName THEN Refuse(op, "LabelNameTooLong")
     ELSE IF type = 0 THEN
       IF parent # -1 THEN Refuse(op, "InvalidParentLabel")
       ELSE /\ Ret(op, "Ok", id) /\ labels' = Append(labels, lab(0, -1)) /\ UNCHANGED <<data, count, grow, pidx, size, nmap>>
     ELSE IF type = 1 /\ ~(parent \in 0 .. Len(labels) - 1) THEN Refuse(op, "InvalidParentLabel")
     ELSE IF type \in {2, 3} /\ parent # -1 THEN Refuse(op, "InvalidParentLabel")
     ELSE IF type \notin 1 .. 3 THEN Refuse(op, "InvalidArgument")
     ELSE LET h == IF type = 1 THEN XorSmall(hn.h, parent) ELSE hn.h IN
       IF Get(h, n, parent) # -1 THEN Refuse(op, "LabelAlreadyDefined")
       ELSE LET node == [hash |-> h, name |-> n, parent |-> parent, id |-> id]
                b    == ModH(h, count) + 1
                (* _insert: with GrowBug the bucket can lie outside the old array (a wild store in the real code) *)
                d1   == IF b <= Len(data) THEN [data EXCEPT ![b] = <<node>> \o @] ELSE data
                wantgrow == size + 1 > grow /\ pidx + 2 + 1 <= Len(PrimeArr)
                nc   == PrimeArr[pidx + 2 + 1]
            IN /\ Ret(op, "Ok", id)
               /\ labels' = Append(labels, lab(type, IF type = 1 THEN parent ELSE -1))
               /\ nmap' = nmap \cup {<<parent, n, id>>}
               /\ size' = size + 1
               /\ IF ~wantgrow THEN data' = d1 /\ UNCHANGED <<count, grow, pidx>> /\ ~growfails
                  ELSE IF ~growfails THEN data' = Rehashed(d1, nc) /\ count' = nc /\ grow' = (nc * 9) \div 10 /\ pidx' = pidx + 2
                  ELSE IF GrowBug THEN data' = d1 /\ count' = nc /\ grow' = (nc * 9) \div 10 /\ pidx' = pidx + 2
                  ELSE data' = d1 /\ UNCHANGED <<count, grow, pidx>>

(* CodeHolder::label_id_by_name - the contract's answer for the empty name (kInvalidId) is assumed here; the     *)
(* real code answers 0, which is finding label_id_by_name:empty_name_returns_0                                  *)
Lookup(name, parent) ==
  LET hn == HashName(name)
      h == IF parent # -1 THEN XorSmall(hn.h, parent) ELSE hn.h
      r == IF Len(hn.n) = 0 THEN -1 ELSE Get(h, hn.n, parent)
  IN /\ (MaxOpsI = 0 \/ Len(hist) < MaxOpsI)
     /\ hist' = IF MaxOpsI = 0 THEN hist ELSE Append(hist, [op |-> "lookup", name |-> name, parent |-> parent])
     /\ last' = [op |-> "lookup", name |-> name, parent |-> parent, r |-> r]
     /\ UNCHANGED <<data, count, grow, pidx, size, labels, nmap>>

INext == \/ \E n \in INames, t \in ITypes, p \in IParents, g \in BOOLEAN : Named(n, t, p, g)
         \/ \E n \in INames, p \in IParents : Lookup(n, p)
ISpec == IInit /\ [][INext]_ivars

MCPrimes == <<2, 2, 3, 4, 5, 6, 7>>                   \* small table: 1 -> 3 -> 5 -> 7 buckets (growth at the 2nd, 3rd and 5th name)
RealPrimes == <<2, 11, 29, 41, 59, 83, 131, 191, 269, 383, 541>>
MCINames == {<<>>, <<1>>, <<2>>, <<1, 0, 2>>, <<1, 1, 1>>}
MCIParents == {-1, 0, 1}
SimNames == {<<64 + k>> : k \in 1 .. 26} \cup {<<97, 64 + k>> : k \in 1 .. 26}
SimParents == {-1, 0, 1, 2}

(* ---- refinement: every call is a step of the contract with the result the algorithm returned ---- *)
ContractStep ==
  \/ /\ last'.op = "named"
     /\ R!NewNamed(last'.name, last'.type, last'.parent, last'.r, last'.id, last'.fault # "none")
  \/ /\ last'.op = "lookup"
     /\ R!LookupByName(last'.name, last'.parent, last'.r)
RefinesContract == [][ContractStep]_ivars

(* ---- the table answers exactly what the contract's name map answers, for every key of the alphabet ---- *)
KeyH(n, p) == IF p # -1 THEN XorSmall(HashName(n).h, p) ELSE HashName(n).h
LookupAgrees == \A n \in INames, p \in IParents :
                  LET e == HashName(n).n IN Len(e) > 0 => Get(KeyH(n, p), e, p) \in R!LookupSet(p, e)
(* ---- structure of the table ---- *)
Structure == /\ Len(data) = count
             /\ \A b \in DOMAIN data : \A k \in DOMAIN data[b] : ModH(data[b][k].hash, count) = b - 1
             /\ size = Cardinality(nmap)
             /\ Len(Flat(data, 1)) = size
IInv == LookupAgrees /\ Structure /\ R!KeysUnique /\ R!NMapExact /\ R!ParentsValid /\ R!NamesWellFormed

ExportStatesI == PrintT(<<"BEH", ToJson(hist)>>)
ExportI == (MaxOpsI > 0 /\ Len(hist) = MaxOpsI) => PrintT(<<"BEH", ToJson(hist)>>)
(* reachability control (must be violated): the table grows twice *)
NeverGrewTwice == pidx < 4
IView == <<data, count, grow, pidx, size, labels, nmap>>
=============================================================================
