----------------------------- MODULE DataEmitImpl -----------------------------
(* X03 - implementation-shaped specification of the data / alignment emission  *)
(* paths, transcribed from                                                     *)
(*   asmjit/core/assembler.cpp     set_offset, section, bind, embed,           *)
(*                                 embed_data_array, embed_const_pool,         *)
(*                                 embed_label, embed_label_delta, comment     *)
(*   asmjit/x86/x86assembler.cpp   Assembler::align (NOP table, greedy split)  *)
(*   asmjit/arm/a64assembler.cpp   Assembler::align                            *)
(*   asmjit/core/codewriter_p.h    CodeWriter::ensure_space / done             *)
(*   asmjit/core/codeholder.cpp    grow_buffer, reserve_buffer, bind_label     *)
(* one action per public call, statement order preserved (which check comes    *)
(* first, what has already happened when a later step refuses).                *)
(* TLC checks for all short histories over the small argument sets of the MC   *)
(* module that every step of this algorithm is a step of the contract          *)
(* DataEmit.tla (refinement as an action property) and that the contract's     *)
(* invariants hold; the histories are exported and replayed on the real code.  *)
(* `Bug` switches on one transcribed slip at a time (negative controls: the    *)
(* refinement check must FAIL for each of them).                               *)
EXTENDS DataEmit, TLC

CONSTANTS Archs, Datas, Aligns, Modes, Tids, Counts, Pools, LabelSizes, Offsets, SecKinds, ReserveSizes,
          MaxOps, MaxLabels, MaxSecs, WithInst, Bug

VARIABLES call,   \* the last call with its arguments and its result (for the refinement mapping)
          pend,   \* Seq: per label, number of pending fixups (LabelEntry fixup chain)
          hist    \* the calls so far, for behaviour export

ivars == <<arch, opt, att, secs, cur, off, labs, slots, nrel, nfix, last, call, pend, hist>>

(* ---- x86assembler.cpp: nop_table[kMaxNop_size][kMaxNop_size] ---- *)
ImplNopTab == << <<144>>,
                 <<102, 144>>,
                 <<15, 31, 0>>,
                 <<15, 31, 64, 0>>,
                 <<15, 31, 68, 0, 0>>,
                 <<102, 15, 31, 68, 0, 0>>,
                 IF Bug = "nop7" THEN <<15, 31, 132, 0, 0, 0, 0>> ELSE <<15, 31, 128, 0, 0, 0, 0>>,
                 <<15, 31, 132, 0, 0, 0, 0, 0>>,
                 <<102, 15, 31, 132, 0, 0, 0, 0, 0>> >>
(* do { n = min(i, 9); i -= n; emit nop_table[n - 1] } while (i) *)
RECURSIVE GreedyNops(_)
GreedyNops(i) == IF i = 0 THEN <<>> ELSE LET n == Min(i, 9) IN ImplNopTab[n] \o GreedyNops(i - n)

(* Support::is_power_of_2_up_to(x, n) *)
Pow2UpTo(x, n) == x >= 1 /\ x <= n /\ IsPow2(x)
AlignUpDiff(o, a) == ((o + a - 1) \div a) * a - o

(* ---- codeholder.cpp: grow_buffer / reserve_buffer; codewriter_p.h: ensure_space ---- *)
AllocOverhead == 32
GrowThreshold == 16777216
InitialCapacity == 8192 - AllocOverhead
RECURSIVE GrowLoop(_, _)
GrowLoop(c, required) == LET c2 == c + (IF c < GrowThreshold THEN c ELSE GrowThreshold)
                         IN IF c2 - AllocOverhead < required THEN GrowLoop(c2, required) ELSE c2
(* result: [err, cap] *)
GrowBuffer(s, n) ==
  LET required == Len(s.mem) + n IN
  IF required <= s.cap THEN [err |-> "Ok", cap |-> s.cap]
  ELSE IF s.fixed THEN [err |-> "TooLarge", cap |-> s.cap]
  ELSE LET c0 == IF s.cap < InitialCapacity THEN InitialCapacity ELSE s.cap + AllocOverhead
       IN [err |-> "Ok", cap |-> GrowLoop(c0, required) - AllocOverhead]
EnsureSpace(n) ==
  LET s == secs[cur] IN
  IF s.cap - off < n THEN GrowBuffer(s, n) ELSE [err |-> "Ok", cap |-> s.cap]

(* ---- Support::mul_overflow on size_t (two steps, as written) ---- *)
MulOvf(a, b) == LET pr == WMul(a, b) IN [v |-> Low64(pr), of |-> Overflows64(pr)]

RECURSIVE LEBytes(_, _)
LEBytes(d, n) == IF n = 0 THEN <<>> ELSE <<d % 256>> \o LEBytes(d \div 256, n - 1)

(* ---- state update helpers ---- *)
Note(c) == /\ call' = c
           /\ hist' = Append(hist, c.h)
(* CodeWriter: memcpy at the cursor; done(): _buffer_ptr = cursor, size = max(size, new_size) *)
IWrite(app, capn) ==
  /\ secs' = [secs EXCEPT ![cur] = [mem |-> Overwrite(@.mem, off, app), cap |-> capn, fixed |-> @.fixed]]
  /\ off' = off + Len(app)
ISlots(app) == Clobber(slots, cur, off, off + Len(app))
Fail(op, err) == last' = Last(op, err, 0, 0)

Init ==
  /\ \E a \in Archs : \E o \in BOOLEAN : DInit(a, o, 0)
  /\ call = [op |-> "Init", r |-> "Ok", app |-> <<>>, h |-> <<"Init">>]
  /\ pend = <<>>
  /\ hist = <<>>

JAttach ==
  /\ ~att
  /\ att' = TRUE /\ cur' = 1 /\ off' = Len(secs[1].mem)
  /\ last' = Last("Attach", "Ok", 0, 0)
  /\ Note([op |-> "Attach", r |-> "Ok", app |-> <<>>, h |-> <<"Attach">>])
  /\ UNCHANGED <<arch, opt, secs, labs, slots, nrel, nfix, pend>>

JDetached(op) ==
  /\ ~att
  /\ last' = Last(op, "NotInitialized", 0, 0)
  /\ Note([op |-> "Detached", dop |-> op, r |-> "NotInitialized", app |-> <<>>, h |-> <<"Detached", op>>])
  /\ UNCHANGED <<arch, opt, att, secs, cur, off, labs, slots, nrel, nfix, pend>>

JSetOpt(on) ==
  /\ att /\ on # opt
  /\ opt' = on
  /\ last' = Last("SetOpt", "Ok", 0, 0)
  /\ Note([op |-> "SetOpt", on |-> on, r |-> "Ok", app |-> <<>>, h |-> <<"SetOpt", on>>])
  /\ UNCHANGED <<arch, att, secs, cur, off, labs, slots, nrel, nfix, pend>>

(* ---- Assembler::align ---- *)
AlignResult(mode, a) ==
  IF mode > 2 THEN [r |-> "InvalidArgument", app |-> <<>>, cap |-> secs[cur].cap]
  ELSE IF a <= 1 THEN [r |-> "Ok", app |-> <<>>, cap |-> secs[cur].cap]
  ELSE IF ~Pow2UpTo(a, MaxAlignment) /\ Bug # "alignNoCheck" THEN [r |-> "InvalidArgument", app |-> <<>>, cap |-> secs[cur].cap]
  ELSE LET i == AlignUpDiff(off, a)
           es == EnsureSpace(i)
       IN IF i = 0 THEN [r |-> "Ok", app |-> <<>>, cap |-> secs[cur].cap]
          ELSE IF es.err # "Ok" THEN [r |-> es.err, app |-> <<>>, cap |-> es.cap]
          ELSE IF IsX86
            THEN [r |-> "Ok", cap |-> es.cap,
                  app |-> CASE mode = ModeCode -> IF opt THEN GreedyNops(i) ELSE Rep(144, i)
                            [] mode = ModeData -> Rep(IF Bug = "dataFillNop" THEN 144 ELSE 204, i)
                            [] OTHER -> Rep(0, i)]
            ELSE IF mode = ModeCode
                   THEN IF off % 4 # 0 /\ Bug # "a64misalign"
                          THEN [r |-> "InvalidState", app |-> <<>>, cap |-> es.cap]
                          ELSE [r |-> "Ok", cap |-> es.cap, app |-> Repeat(A64Nop, i \div 4)]
                   ELSE [r |-> "Ok", cap |-> es.cap, app |-> Rep(0, i)]
JAlign(mode, a) ==
  LET res == AlignResult(mode, a) IN
  /\ att
  /\ IWrite(res.app, res.cap)
  /\ slots' = ISlots(res.app)
  /\ last' = Last("Align", res.r, Len(res.app), a)
  /\ Note([op |-> "Align", mode |-> mode, a |-> a, r |-> res.r, app |-> res.app, h |-> <<"Align", mode, a>>])
  /\ UNCHANGED <<arch, opt, att, cur, labs, nrel, nfix, pend>>

(* ---- BaseAssembler::embed ---- *)
JEmbed(data) ==
  LET es == EnsureSpace(Len(data))
      ok == data = <<>> \/ es.err = "Ok"
      app == IF ok THEN data ELSE <<>>
      r == IF data = <<>> THEN "Ok" ELSE es.err
  IN /\ att
     /\ IWrite(app, IF data = <<>> THEN secs[cur].cap ELSE es.cap)
     /\ slots' = ISlots(app)
     /\ last' = Last("Embed", r, Len(app), 0)
     /\ Note([op |-> "Embed", data |-> data, r |-> r, app |-> app, h |-> <<"Embed", data>>])
     /\ UNCHANGED <<arch, opt, att, cur, labs, nrel, nfix, pend>>

(* ---- BaseAssembler::embed_data_array ---- *)
Deabstract(t) == IF t \in {32, 33} THEN t + (IF RegSize >= 8 THEN 8 ELSE 6) ELSE t
ArrayResult(tid, item, ic, rc) ==
  LET ft == Deabstract(tid)
      ts == TypeSize(ft)
      m1 == MulOvf(ic, <<ts>>)
      m2 == MulOvf(m1.v, rc)
      of == (m1.of \/ m2.of) /\ Bug # "noOverflowCheck"
      tot == m2.v
      data == Repeat(item, IF WSmall(ic) THEN WVal(ic) ELSE 0)          \* the caller's array: item_count items
  IN IF ~(ft >= 32 /\ ft <= 100) THEN [r |-> "InvalidArgument", app |-> <<>>, cap |-> secs[cur].cap]
     ELSE IF WIsZero(ic) \/ WIsZero(rc) THEN [r |-> "Ok", app |-> <<>>, cap |-> secs[cur].cap]
     ELSE IF of THEN [r |-> "OutOfMemory", app |-> <<>>, cap |-> secs[cur].cap]
     ELSE IF ~WSmall(tot) THEN [r |-> "OutOfMemory", app |-> <<>>, cap |-> secs[cur].cap]   \* malloc of a huge block
     ELSE LET es == EnsureSpace(WVal(tot)) IN
          IF es.err # "Ok" THEN [r |-> es.err, app |-> <<>>, cap |-> es.cap]
          ELSE [r |-> "Ok", cap |-> es.cap, app |-> Repeat(data, IF WSmall(rc) THEN WVal(rc) ELSE 0)]
JEmbedArray(tid, item, ic, rc) ==
  LET res == ArrayResult(tid, item, ic, rc) IN
  /\ att
  /\ IWrite(res.app, res.cap)
  /\ slots' = ISlots(res.app)
  /\ last' = Last("EmbedArray", res.r, Len(res.app), 0)
  /\ Note([op |-> "EmbedArray", tid |-> tid, data |-> Repeat(item, IF WSmall(ic) /\ WVal(ic) <= 8 THEN WVal(ic) ELSE 0),
           ic |-> ic, rc |-> rc, r |-> res.r, app |-> res.app, h |-> <<"EmbedArray", tid, item, ic, rc>>])
  /\ UNCHANGED <<arch, opt, att, cur, labs, nrel, nfix, pend>>

(* ---- bind (BaseAssembler::bind -> CodeHolder::bind_label) ---- *)
BindResult(l) == IF ~LabelValid(l) THEN "InvalidLabel" ELSE IF IsBound(l) THEN "LabelAlreadyBound" ELSE "Ok"
JBind(l) ==
  LET r == BindResult(l) IN
  /\ att
  /\ IF r = "Ok" THEN /\ labs' = [labs EXCEPT ![l] = BoundAt(cur, off)]
                      /\ nfix' = nfix - pend[l]
                      /\ pend' = [pend EXCEPT ![l] = 0]
                 ELSE UNCHANGED <<labs, nfix, pend>>
  /\ last' = Last("Bind", r, 0, 0)
  /\ Note([op |-> "Bind", l |-> l, r |-> r, app |-> <<>>, h |-> <<"Bind", l>>])
  /\ UNCHANGED <<arch, opt, att, secs, cur, off, slots, nrel>>

JNewLabel ==
  /\ att /\ Len(labs) < MaxLabels
  /\ labs' = Append(labs, Unbound)
  /\ pend' = Append(pend, 0)
  /\ last' = Last("NewLabel", "Ok", 0, 0)
  /\ Note([op |-> "NewLabel", r |-> "Ok", app |-> <<>>, h |-> <<"NewLabel">>])
  /\ UNCHANGED <<arch, opt, att, secs, cur, off, slots, nrel, nfix>>

(* ---- BaseAssembler::embed_const_pool: align(kData, pool.alignment()); bind(label); ensure_space; fill ---- *)
JEmbedConstPool(l, pool) ==
  LET palign == pool[1]
      image == pool[2]
      al == AlignResult(ModeData, palign)
      pad == IF Bug = "poolNoAlign" THEN <<>> ELSE al.app
      o1 == off + Len(pad)
      s1 == [mem |-> Overwrite(secs[cur].mem, off, pad), cap |-> al.cap, fixed |-> secs[cur].fixed]
      br == BindResult(l)
      es == IF s1.cap - o1 < Len(image) THEN GrowBuffer(s1, Len(image)) ELSE [err |-> "Ok", cap |-> s1.cap]
      c == [op |-> "EmbedConstPool", l |-> l, palign |-> palign, image |-> image, h |-> <<"EmbedConstPool", l, pool>>]
  IN /\ att
     /\ IF ~LabelValid(l)
          THEN /\ last' = Last("EmbedConstPool", "InvalidLabel", 0, palign)
               /\ Note(c @@ [r |-> "InvalidLabel", app |-> <<>>])
               /\ UNCHANGED <<secs, off, slots, labs, nfix, pend>>
        ELSE IF al.r # "Ok"
          THEN /\ last' = Last("EmbedConstPool", al.r, 0, palign)
               /\ Note(c @@ [r |-> al.r, app |-> <<>>])
               /\ secs' = [secs EXCEPT ![cur].cap = al.cap]
               /\ UNCHANGED <<off, slots, labs, nfix, pend>>
        ELSE IF br # "Ok"
          THEN /\ last' = Last("EmbedConstPool", br, Len(pad), palign)
               /\ Note(c @@ [r |-> br, app |-> pad])
               /\ secs' = [secs EXCEPT ![cur] = s1] /\ off' = o1 /\ slots' = ISlots(pad)
               /\ UNCHANGED <<labs, nfix, pend>>
        ELSE /\ labs' = [labs EXCEPT ![l] = BoundAt(cur, o1)]
             /\ nfix' = nfix - pend[l] /\ pend' = [pend EXCEPT ![l] = 0]
             /\ IF image # <<>> /\ es.err # "Ok"
                  THEN /\ last' = Last("EmbedConstPool", es.err, Len(pad), palign)
                       /\ Note(c @@ [r |-> es.err, app |-> pad])
                       /\ secs' = [secs EXCEPT ![cur] = s1] /\ off' = o1 /\ slots' = ISlots(pad)
                  ELSE /\ last' = Last("EmbedConstPool", "Ok", Len(pad) + Len(image), palign)
                       /\ Note(c @@ [r |-> "Ok", app |-> pad \o image])
                       /\ IWrite(pad \o image, IF image = <<>> THEN s1.cap ELSE es.cap)
                       /\ slots' = ISlots(pad \o image)
     /\ UNCHANGED <<arch, opt, att, cur, nrel>>

(* ---- BaseAssembler::embed_label ---- *)
JEmbedLabel(l, sz) ==
  LET ds == IF sz = 0 THEN RegSize ELSE sz
      es == EnsureSpace(ds)
      c == [op |-> "EmbedLabel", l |-> l, sz |-> sz, h |-> <<"EmbedLabel", l, sz>>]
      err == IF ~LabelValid(l) THEN "InvalidLabel"
             ELSE IF ~Pow2UpTo(ds, 8) THEN "InvalidOperandSize"
             ELSE es.err
  IN /\ att
     /\ IF err # "Ok"
          THEN /\ Fail("EmbedLabel", err)
               /\ Note(c @@ [r |-> err, app |-> <<>>])
               /\ secs' = [secs EXCEPT ![cur].cap = IF LabelValid(l) /\ Pow2UpTo(ds, 8) THEN es.cap ELSE @]
               /\ UNCHANGED <<off, slots, nrel, nfix, pend>>
          ELSE /\ nrel' = nrel + 1
               /\ IF IsBound(l) THEN UNCHANGED <<nfix, pend>>
                                ELSE nfix' = nfix + 1 /\ pend' = [pend EXCEPT ![l] = @ + 1]
               /\ IWrite(Rep(0, ds), es.cap)
               /\ slots' = ISlots(Rep(0, ds)) \cup {[sec |-> cur, lo |-> off, hi |-> off + ds]}
               /\ last' = Last("EmbedLabel", "Ok", ds, 0)
               /\ Note(c @@ [r |-> "Ok", app |-> Rep(0, ds)])
     /\ UNCHANGED <<arch, opt, att, cur, labs>>

(* ---- BaseAssembler::embed_label_delta ---- *)
JEmbedLabelDelta(l, b, sz) ==
  LET ds == IF sz = 0 THEN RegSize ELSE sz
      es == EnsureSpace(ds)
      c == [op |-> "EmbedLabelDelta", l |-> l, b |-> b, sz |-> sz, h |-> <<"EmbedLabelDelta", l, b, sz>>]
      pre == IF ~(LabelValid(l) /\ LabelValid(b)) THEN "InvalidLabel"
             ELSE IF ~Pow2UpTo(ds, 8) THEN "InvalidOperandSize"
             ELSE es.err
      now == IsBound(l) /\ IsBound(b) /\ labs[l][2] = labs[b][2]
      d == labs[l][3] - labs[b][3]
  IN /\ att
     /\ IF pre # "Ok"
          THEN /\ Fail("EmbedLabelDelta", pre)
               /\ Note(c @@ [r |-> pre, app |-> <<>>])
               /\ secs' = [secs EXCEPT ![cur].cap = IF LabelValid(l) /\ LabelValid(b) /\ Pow2UpTo(ds, 8) THEN es.cap ELSE @]
               /\ UNCHANGED <<off, slots, nrel>>
        ELSE IF now /\ ~Encodable(d, ds)
          THEN /\ Fail("EmbedLabelDelta", "InvalidDisplacement")
               /\ Note(c @@ [r |-> "InvalidDisplacement", app |-> <<>>])
               /\ secs' = [secs EXCEPT ![cur].cap = es.cap]
               /\ UNCHANGED <<off, slots, nrel>>
        ELSE LET app == IF now THEN LEBytes(d, ds) ELSE Rep(0, ds) IN
             /\ nrel' = IF now THEN nrel ELSE nrel + 1
             /\ IWrite(app, es.cap)
             /\ slots' = ISlots(app) \cup {[sec |-> cur, lo |-> off, hi |-> off + ds]}
             /\ last' = Last("EmbedLabelDelta", "Ok", ds, 0)
             /\ Note(c @@ [r |-> "Ok", app |-> app])
     /\ UNCHANGED <<arch, opt, att, cur, labs, nfix, pend>>

(* ---- BaseAssembler::set_offset ---- *)
JSetOffset(o) ==
  LET size == Max(Len(secs[cur].mem), off)
      limit == IF Bug = "setOffsetCap" THEN secs[cur].cap ELSE size
      r == IF o > limit THEN "InvalidArgument" ELSE "Ok"
  IN /\ att
     /\ off' = IF r = "Ok" THEN o ELSE off
     /\ last' = Last("SetOffset", r, 0, 0)
     /\ Note([op |-> "SetOffset", o |-> o, r |-> r, app |-> <<>>, h |-> <<"SetOffset", o>>])
     /\ UNCHANGED <<arch, opt, att, secs, cur, labs, slots, nrel, nfix, pend>>

(* ---- sections ---- *)
JNewSection(kind, capreq) ==
  /\ att /\ Len(secs) < MaxSecs
  /\ secs' = Append(secs, [mem |-> <<>>, cap |-> IF kind = "dyn" THEN 0 ELSE capreq, fixed |-> kind = "fix"])
  /\ last' = Last("NewSection", "Ok", 0, 0)
  /\ Note([op |-> "NewSection", kind |-> kind, capreq |-> capreq, r |-> "Ok", app |-> <<>>, h |-> <<"NewSection", kind, capreq>>])
  /\ UNCHANGED <<arch, opt, att, cur, off, labs, slots, nrel, nfix, pend>>

JSection(s) ==
  LET r == IF s \in 1 .. Len(secs) THEN "Ok" ELSE "InvalidSection" IN
  /\ att
  /\ IF r = "Ok" THEN cur' = s /\ off' = Len(secs[s].mem) ELSE UNCHANGED <<cur, off>>
  /\ last' = Last("Section", r, 0, 0)
  /\ Note([op |-> "Section", s |-> s, r |-> r, app |-> <<>>, h |-> <<"Section", s>>])
  /\ UNCHANGED <<arch, opt, att, secs, labs, slots, nrel, nfix, pend>>

JReserve(s, n) ==
  LET r == IF n <= secs[s].cap THEN "Ok" ELSE IF secs[s].fixed THEN "TooLarge" ELSE "Ok"
      c == IF n <= secs[s].cap \/ secs[s].fixed THEN secs[s].cap ELSE n
  IN /\ att /\ s \in 1 .. Len(secs)
     /\ secs' = [secs EXCEPT ![s].cap = c]
     /\ last' = Last("Reserve", r, 0, 0)
     /\ Note([op |-> "Reserve", s |-> s, n |-> n, r |-> r, app |-> <<>>, h |-> <<"Reserve", s, n>>])
     /\ UNCHANGED <<arch, opt, att, cur, off, labs, slots, nrel, nfix, pend>>

(* ---- an instruction: x86 `ret` (ensure_space(16)), AArch64 `ret` (ensure_space(4)) ---- *)
JInst ==
  LET es == EnsureSpace(IF IsX86 THEN 16 ELSE 4)
      app == IF es.err # "Ok" THEN <<>> ELSE IF IsX86 THEN <<195>> ELSE <<192, 3, 95, 214>>
  IN /\ att
     /\ IWrite(app, es.cap)
     /\ slots' = ISlots(app)
     /\ last' = Last("Inst", es.err, Len(app), 0)
     /\ Note([op |-> "Inst", r |-> es.err, app |-> app, h |-> <<"Inst">>])
     /\ UNCHANGED <<arch, opt, att, cur, labs, nrel, nfix, pend>>

JComment ==
  /\ att
  /\ last' = Last("Comment", "Ok", 0, 0)
  /\ Note([op |-> "Comment", r |-> "Ok", app |-> <<>>, h |-> <<"Comment">>])
  /\ UNCHANGED <<arch, opt, att, secs, cur, off, labs, slots, nrel, nfix, pend>>

(* the bound on the history length first, so that TLC does not expand calls it will not take *)
G == Len(hist) < MaxOps
IAttach == G /\ JAttach
IDetached(op) == G /\ JDetached(op)
ISetOpt(on) == G /\ JSetOpt(on)
IAlign(m, a) == G /\ JAlign(m, a)
IEmbed(d) == G /\ JEmbed(d)
IEmbedArray(t, item, ic, rc) == G /\ JEmbedArray(t, item, ic, rc)
IBind(l) == G /\ JBind(l)
INewLabel == G /\ JNewLabel
IEmbedConstPool(l, pl) == G /\ JEmbedConstPool(l, pl)
IEmbedLabel(l, sz) == G /\ JEmbedLabel(l, sz)
IEmbedLabelDelta(l, b, sz) == G /\ JEmbedLabelDelta(l, b, sz)
ISetOffset(o) == G /\ JSetOffset(o)
INewSection(k, c) == G /\ JNewSection(k, c)
ISection(s) == G /\ JSection(s)
IReserve(s, n) == G /\ JReserve(s, n)
IInst == G /\ WithInst /\ JInst
IComment == G /\ WithInst /\ JComment

(* the array handed to embed_data_array: item_count items of the type's size, bytes 1, 2, 3 ... *)
ItemOf(t) == LET ts == TypeSize(Deabstract(t)) IN IF ts = 0 THEN <<1>> ELSE [i \in 1 .. ts |-> i]

Next ==
     \/ IAttach
     \/ \E op \in {"align", "embed", "embed_data_array", "embed_const_pool", "embed_label", "embed_label_delta",
                   "bind", "set_offset", "comment"} : IDetached(op)
     \/ \E on \in BOOLEAN : ISetOpt(on)
     \/ \E m \in Modes, a \in Aligns : IAlign(m, a)
     \/ \E d \in Datas : IEmbed(d)
     \/ \E t \in Tids, ic \in Counts, rc \in Counts : IEmbedArray(t, ItemOf(t), ic, rc)
     \/ \E l \in 1 .. MaxLabels + 1, pl \in Pools : IEmbedConstPool(l, pl)
     \/ \E l \in 1 .. MaxLabels + 1, sz \in LabelSizes : IEmbedLabel(l, sz)
     \/ \E l \in 1 .. MaxLabels + 1, b \in 1 .. MaxLabels, sz \in LabelSizes : IEmbedLabelDelta(l, b, sz)
     \/ \E l \in 1 .. MaxLabels + 1 : IBind(l)
     \/ INewLabel
     \/ \E o \in Offsets : ISetOffset(o)
     \/ \E k \in SecKinds, c \in ReserveSizes : INewSection(k, c)
     \/ \E s \in 0 .. MaxSecs : ISection(s)
     \/ \E s \in 1 .. MaxSecs, n \in ReserveSizes : IReserve(s, n)
     \/ IInst
     \/ IComment

Spec == Init /\ [][Next]_ivars

(* ---- refinement: every step of the algorithm is the contract's step for that call ---- *)
P == [off |-> off', size |-> Len(secs'[cur'].mem), cap |-> secs'[cur'].cap, nrel |-> nrel', nfix |-> nfix']
CStep ==
  LET c == call' IN
  CASE c.op = "Attach" -> Attach(c.r, P)
    [] c.op = "Detached" -> Detached(c.dop, c.r)
    [] c.op = "SetOpt" -> SetOpt(c.on)
    [] c.op = "Align" -> Align(c.mode, c.a, c.r, c.app, P)
    [] c.op = "Embed" -> Embed(c.data, c.r, c.app, P)
    [] c.op = "EmbedArray" -> EmbedArray(c.tid, c.data, c.ic, c.rc, c.r, c.app, P)
    [] c.op = "EmbedConstPool" -> EmbedConstPool(c.l, c.palign, c.image, c.r, c.app, P, IF LabelValid(c.l) THEN labs'[c.l] ELSE <<>>)
    [] c.op = "EmbedLabel" -> EmbedLabel(c.l, c.sz, c.r, c.app, P)
    [] c.op = "EmbedLabelDelta" -> EmbedLabelDelta(c.l, c.b, c.sz, c.r, c.app, P)
    [] c.op = "Bind" -> Bind(c.l, c.r, P)
    [] c.op = "NewLabel" -> NewLabel
    [] c.op = "SetOffset" -> SetOffset(c.o, c.r, P)
    [] c.op = "NewSection" -> NewSection(c.kind, c.capreq, secs'[Len(secs')].cap)
    [] c.op = "Section" -> SwitchSection(c.s, c.r, P)
    [] c.op = "Reserve" -> Reserve(c.s, c.n, c.r, secs'[c.s].cap, P)
    [] c.op = "Inst" -> Inst(c.r, c.app, P)
    [] c.op = "Comment" -> Comment(c.r, P)
    [] OTHER -> FALSE
RefinesContract == [][CStep]_ivars
ContractInv == DInv
StepProps == [][WindowOnly /\ LabelsStable]_ivars
PendSum == LET RECURSIVE S(_)
               S(i) == IF i = 0 THEN 0 ELSE pend[i] + S(i - 1)
           IN nfix = S(Len(pend))

View == <<arch, opt, att, secs, cur, off, labs, slots, nrel, nfix, last, pend, Len(hist)>>
(* one string per behaviour, so that concurrent workers cannot interleave inside a value *)
Export == Len(hist) = MaxOps => PrintT(<<"BEH", ToString(<<arch, opt, hist>>)>>)
=============================================================================
