------------------------------- MODULE DataEmit -------------------------------
(* X03 - contract-level specification of data, alignment and constant-pool     *)
(* emission through BaseAssembler / x86::Assembler / a64::Assembler:           *)
(*   align, embed, embed_data_array (+ embed_int8..embed_double, db/dw/dd/dq), *)
(*   embed_const_pool, embed_label, embed_label_delta, bind, set_offset,       *)
(*   section, CodeHolder::reserve_buffer, fixed buffers, comment.              *)
(*                                                                             *)
(* State = what a user of the API can observe: per section the bytes written   *)
(* so far (`mem`, the first buffer_size() bytes of the CodeBuffer), its        *)
(* capacity and whether it is fixed; the current section and the cursor        *)
(* (`offset()`); the label table; the number of relocation entries / pending   *)
(* fixups.  Every action stands for ONE public call and is parameterised by    *)
(* what the code REPORTED: the result `r` ("Ok" or an error name - the error   *)
(* *code* is never compared), the bytes `app` found between the old and the    *)
(* new cursor, and the projection `p = [off, size, cap, nrel, nfix]` after the *)
(* call.  An action is enabled exactly for reports the documented contract     *)
(* allows, so it serves both the refinement check of DataEmitImpl.tla and the  *)
(* validation of traces recorded from the real assemblers (DataEmitTrace.tla). *)
(*                                                                             *)
(* Contract in one sentence: the bytes a call appends are a function of its    *)
(* arguments (and of the cursor for alignment) only; nothing outside the       *)
(* window [old cursor, new cursor) changes, in any section; a refused call     *)
(* appends nothing and leaves the cursor (embed_const_pool, documented as      *)
(* three steps, may have completed a prefix of its steps).                     *)
EXTENDS Integers, Sequences, FiniteSets

VARIABLES arch,   \* "x86" (32-bit) | "x64" | "a64"
          opt,    \* EncodingOptions::kOptimizedAlign is set
          att,    \* the assembler is attached to a CodeHolder
          secs,   \* Seq of [mem : Seq(0..255), cap : Nat, fixed : BOOLEAN]; index = section id + 1
          cur,    \* index of the current section
          off,    \* offset(): the cursor inside secs[cur]
          labs,   \* Seq of <<bound, section index, offset>>; index = order of creation
          slots,  \* set of [sec, lo, hi]: placeholders of embed_label / embed_label_delta (value owned by C03/C04)
          nrel,   \* number of relocation entries of the CodeHolder
          nfix,   \* unresolved_fixup_count()
          last    \* the last call: [op, r, n (bytes appended), a (alignment asked), o0 (cursor before)]

dvars == <<arch, opt, att, secs, cur, off, labs, slots, nrel, nfix, last>>

(* ---------------------------------------------------------------------------------------------------------- *)
(* Constants of the documented interface                                                                      *)
(* ---------------------------------------------------------------------------------------------------------- *)
MaxAlignment == 64            \* Globals::kMaxAlignment
ModeCode == 0                 \* AlignMode::kCode  "Align executable code."
ModeData == 1                 \* AlignMode::kData  "Align non-executable code."
ModeZero == 2                 \* AlignMode::kZero  "Align by a sequence of zeros."
IsX86 == arch \in {"x86", "x64"}
RegSize == IF arch = "x86" THEN 4 ELSE 8

Max(a, b) == IF a > b THEN a ELSE b
Min(a, b) == IF a < b THEN a ELSE b
IsPow2(a) == \E k \in 0 .. 30 : a = 2 ^ k
AllEq(s, b) == \A i \in DOMAIN s : s[i] = b
Rep(b, n) == [i \in 1 .. n |-> b]

(* Intel SDM Vol. 2B, NOP, table "Recommended Multi-Byte Sequence of NOP Instruction" (lengths 1..9):         *)
(*   90 | 66 90 | 0F 1F 00 | 0F 1F 40 00 | 0F 1F 44 00 00 | 66 0F 1F 44 00 00 | 0F 1F 80 00000000 |            *)
(*   0F 1F 84 00 00000000 | 66 0F 1F 84 00 00000000.                                                          *)
(* The table is validated against llvm-mc-14 / objdump by the check (spec validation, not a verdict).         *)
NopTab == << <<144>>,
             <<102, 144>>,
             <<15, 31, 0>>,
             <<15, 31, 64, 0>>,
             <<15, 31, 68, 0, 0>>,
             <<102, 15, 31, 68, 0, 0>>,
             <<15, 31, 128, 0, 0, 0, 0>>,
             <<15, 31, 132, 0, 0, 0, 0, 0>>,
             <<102, 15, 31, 132, 0, 0, 0, 0, 0>> >>
(* AArch64 NOP = 0xD503201F, little-endian *)
A64Nop == <<31, 32, 3, 213>>

(* Number of NOP instructions `s` decodes to, -1 when `s` is not a sequence of table NOPs.  The table is       *)
(* prefix-free, so decoding is deterministic (as it is for a CPU).                                             *)
RECURSIVE NopCount(_)
NopCount(s) ==
  IF s = <<>> THEN 0
  ELSE LET ns == {n \in 1 .. Min(9, Len(s)) : SubSeq(s, 1, n) = NopTab[n]}
       IN IF ns = {} THEN -1
          ELSE LET n == CHOOSE n \in ns : TRUE
                   r == NopCount(SubSeq(s, n + 1, Len(s)))
               IN IF r < 0 THEN -1 ELSE r + 1

(* "Aligns the current CodeBuffer position to the `alignment` specified." - minimum padding *)
Gap(o, a) == IF a <= 1 THEN 0 ELSE (a - (o % a)) % a

(* The fill of an alignment gap, by mode.                                                                      *)
(*  kZero: "a sequence of zeros".                                                                              *)
(*  kData: "non-executable code": one repeated byte that is not a NOP - zero, or INT3 (0xCC) on x86.           *)
(*  kCode: x86 without kOptimizedAlign: "one-byte (0x90) opcode"; with it: "specialized sequences" = valid     *)
(*         multi-byte NOPs of the table (at least one of them longer than one byte when the gap allows it);    *)
(*         AArch64: NOP words.                                                                                 *)
PadOK(mode, pad) ==
  CASE mode = ModeZero -> AllEq(pad, 0)
    [] mode = ModeData -> IF IsX86 THEN AllEq(pad, 0) \/ AllEq(pad, 204) ELSE AllEq(pad, 0)
    [] mode = ModeCode -> IF IsX86
                            THEN IF opt THEN /\ NopCount(pad) >= 0
                                             /\ (Len(pad) >= 2 => NopCount(pad) < Len(pad))
                                        ELSE AllEq(pad, 144)
                            ELSE /\ Len(pad) % 4 = 0
                                 /\ \A i \in DOMAIN pad : pad[i] = A64Nop[((i - 1) % 4) + 1]
    [] OTHER -> FALSE

(* TypeId -> item size (asmjit/core/type.h).  32/33 are the abstract kIntPtr/kUIntPtr (register size); ids      *)
(* outside _kBaseStart.._kVec512End are not valid; 57, 58, 60 lie inside the Vec32 range but are not assigned.  *)
TypeValid(t) == t \in 32 .. 100
TypeAssigned(t) == t \in (32 .. 100) \ {57, 58, 60}
TypeSize(t) ==
  CASE t \in {32, 33} -> RegSize
    [] t \in {34, 35, 45} -> 1
    [] t \in {36, 37, 46} -> 2
    [] t \in {38, 39, 42, 47, 49} -> 4
    [] t \in {40, 41, 43, 48, 50} -> 8
    [] t = 44 -> 10
    [] t \in 51 .. 60 -> 4
    [] t \in 61 .. 70 -> 8
    [] t \in 71 .. 80 -> 16
    [] t \in 81 .. 90 -> 32
    [] t \in 91 .. 100 -> 64
    [] OTHER -> 0

(* ---------------------------------------------------------------------------------------------------------- *)
(* size_t arithmetic: 64-bit values are sequences of eight 8-bit limbs, little-endian (TLC integers are 32-bit) *)
(* ---------------------------------------------------------------------------------------------------------- *)
WZero == <<0, 0, 0, 0, 0, 0, 0, 0>>
WIsZero(w) == \A i \in 1 .. 8 : w[i] = 0
WSmall(w) == \A i \in 4 .. 8 : w[i] = 0                       \* < 2^24
WVal(w) == w[1] + 256 * w[2] + 65536 * w[3]                   \* only for WSmall
WOf(n) == <<n % 256, (n \div 256) % 256, (n \div 65536) % 256, (n \div 16777216) % 256, 0, 0, 0, 0>>
(* exact product of two limb strings: Len(a) + Len(b) limbs *)
RECURSIVE ColSum(_, _, _, _)
ColSum(a, b, k, i) == IF i > Len(a) THEN 0
                      ELSE (IF k + 1 - i >= 1 /\ k + 1 - i <= Len(b) THEN a[i] * b[k + 1 - i] ELSE 0) + ColSum(a, b, k, i + 1)
RECURSIVE MulFrom(_, _, _, _)
MulFrom(a, b, k, c) == IF k > Len(a) + Len(b) THEN <<>>
                       ELSE LET t == ColSum(a, b, k, 1) + c IN <<t % 256>> \o MulFrom(a, b, k + 1, t \div 256)
Trim(w) == LET nz == {i \in 1 .. Len(w) : w[i] # 0} IN
           IF nz = {} THEN <<>> ELSE SubSeq(w, 1, CHOOSE i \in nz : \A j \in nz : j <= i)
WMul(a, b) == LET ta == Trim(a)  tb == Trim(b) IN MulFrom(ta, tb, 1, 0)     \* leading zero limbs dropped first
(* item_count * type_size * repeat_count (type_size < 256: one limb), 17 limbs *)
Prod3(ic, ts, rc) == WMul(WMul(ic, <<ts>>), rc)
Overflows64(pr) == \E i \in 9 .. Len(pr) : pr[i] # 0                \* does not fit size_t
Low64(pr) == [i \in 1 .. 8 |-> IF i <= Len(pr) THEN pr[i] ELSE 0]

(* `d` repeated n times *)
Repeat(d, n) == IF d = <<>> \/ n = 0 THEN <<>> ELSE [i \in 1 .. Len(d) * n |-> d[((i - 1) % Len(d)) + 1]]

(* ---------------------------------------------------------------------------------------------------------- *)
(* Buffer primitives                                                                                          *)
(* ---------------------------------------------------------------------------------------------------------- *)
(* write `w` at offset `o` (o <= Len(m)): bytes in the window are replaced, the buffer is extended as needed *)
Overwrite(m, o, w) == IF w = <<>> THEN m
                      ELSE IF o = Len(m) THEN m \o w
                      ELSE [i \in 1 .. Max(Len(m), o + Len(w)) |-> IF i > o /\ i <= o + Len(w) THEN w[i - o] ELSE m[i]]

(* capacity reported after a call: covers the size, never shrinks, never changes for a fixed buffer *)
CapOK(s, c, n) == c >= n /\ c >= s.cap /\ (s.fixed => c = s.cap)
(* `n` more bytes at the cursor fit; only a fixed buffer ("cannot be reallocated") can be too small.           *)
(* (Allocation failure of a growable buffer is out of scope here - C15.)                                       *)
Fits(n) == ~secs[cur].fixed \/ off + n <= secs[cur].cap

Clobber(sl, s, lo, hi) == IF lo >= hi THEN sl ELSE {x \in sl : ~(x.sec = s /\ x.lo < hi /\ lo < x.hi)}
Free(s, i) == \E x \in slots : x.sec = s /\ i - 1 >= x.lo /\ i - 1 < x.hi
HasSlots(s) == \E x \in slots : x.sec = s
ImgOK(s, img) == /\ Len(img) = Len(secs[s].mem)
                 /\ \A i \in 1 .. Len(img) : Free(s, i) \/ img[i] = secs[s].mem[i]

(* position-weighted checksum of a byte string (the harness computes the same over buffer_data()[0, size)) *)
DW(i) == ((i - 1) % 251) + 1
RECURSIVE DigR(_, _, _)
DigR(s, lo, hi) == IF lo > hi THEN 0
                   ELSE IF lo = hi THEN (s[lo] * DW(lo)) % 65521
                   ELSE LET mid == (lo + hi) \div 2 IN (DigR(s, lo, mid) + DigR(s, mid + 1, hi)) % 65521
Digest(s) == DigR(s, 1, Len(s))
DigOK(d) == HasSlots(cur) \/ d = Digest(secs[cur].mem)

LabelValid(l) == l \in 1 .. Len(labs)
Unbound == <<FALSE, 0, 0>>
BoundAt(s, o) == <<TRUE, s, o>>
IsBound(l) == labs[l][1]

Last(op, r, n, a) == [op |-> op, r |-> r, n |-> n, a |-> a, o0 |-> off]

(* Every action below has the shape  B(precondition on the report) /\ deterministic state update.               *)
(* B(x) makes TLC evaluate x as one boolean value (disjunctions inside are not split into successor branches).   *)
B(x) == x = TRUE

(* The write of `app` at the cursor of the current section, as reported by `p`; everything else in `secs` is   *)
(* untouched.  With app = <<>> this is "nothing written" (the capacity may still have grown).                  *)
Wr(app, p) ==
  LET s == secs[cur]
      nm == Overwrite(s.mem, off, app)
  IN /\ B(CapOK(s, p.cap, Len(nm)) /\ p.off = off + Len(app) /\ p.size = Len(nm))
     /\ secs' = [secs EXCEPT ![cur] = [mem |-> nm, cap |-> p.cap, fixed |-> s.fixed]]
     /\ off' = off + Len(app)
     /\ UNCHANGED <<arch, opt, att, cur>>
(* ... by a call that creates no placeholder: placeholders overlapping the written window are gone *)
WrP(app, p) == Wr(app, p) /\ slots' = Clobber(slots, cur, off, off + Len(app))
SameCounts(p) == B(p.nrel = nrel /\ p.nfix = nfix) /\ UNCHANGED <<nrel, nfix>>

(* ---------------------------------------------------------------------------------------------------------- *)
(* Initial state: a CodeHolder initialised for `a`, nothing attached; text section capacity as reported        *)
(* ---------------------------------------------------------------------------------------------------------- *)
DInit(a, o, c) ==
  /\ arch = a /\ opt = o /\ att = FALSE
  /\ secs = <<[mem |-> <<>>, cap |-> c, fixed |-> FALSE]>>
  /\ cur = 1 /\ off = 0
  /\ labs = <<>> /\ slots = {} /\ nrel = 0 /\ nfix = 0
  /\ last = [op |-> "Init", r |-> "Ok", n |-> 0, a |-> 0, o0 |-> 0]

(* Every emitting call on an emitter that is not attached: "if (!_code) return kNotInitialized".               *)
Detached(op, r) ==
  /\ B(~att /\ r # "Ok")
  /\ last' = Last(op, r, 0, 0)
  /\ UNCHANGED <<arch, opt, att, secs, cur, off, labs, slots, nrel, nfix>>

(* CodeHolder::attach(&assembler): "Attach to the end of the .text section." *)
Attach(r, p) ==
  /\ B(~att /\ r = "Ok")
  /\ B(p.off = Len(secs[1].mem) /\ p.size = Len(secs[1].mem) /\ p.cap = secs[1].cap /\ p.nrel = nrel /\ p.nfix = nfix)
  /\ att' = TRUE /\ cur' = 1 /\ off' = Len(secs[1].mem)
  /\ last' = Last("Attach", r, 0, 0)
  /\ UNCHANGED <<arch, opt, secs, labs, slots, nrel, nfix>>

(* add_encoding_options / clear_encoding_options(EncodingOptions::kOptimizedAlign) *)
SetOpt(on) ==
  /\ opt' = on
  /\ last' = Last("SetOpt", "Ok", 0, 0)
  /\ UNCHANGED <<arch, att, secs, cur, off, labs, slots, nrel, nfix>>

(* ---- align(AlignMode, alignment) ------------------------------------------------------------------------- *)
(* "Aligns the current CodeBuffer position to the `alignment` specified.  The sequence that is used to fill    *)
(*  the gap between the aligned location and the current location depends on the align `mode`."                *)
(* alignment 0 and 1 ask for nothing; otherwise it must be a power of two <= Globals::kMaxAlignment.           *)
(* AArch64 code alignment pads with 4-byte NOPs, so a gap that is not a multiple of 4 cannot be filled.        *)
AlignValid(mode, a) == mode \in 0 .. 2 /\ (a <= 1 \/ (IsPow2(a) /\ a <= MaxAlignment))
Align(mode, a, r, app, p) ==
  LET valid == AlignValid(mode, a)
      gap == IF valid THEN Gap(off, a) ELSE 0
      mustFail == ~valid \/ (arch = "a64" /\ mode = ModeCode /\ gap % 4 # 0)
      mayFail == mustFail \/ ~Fits(gap)
  IN /\ B(att)
     /\ B(IF r = "Ok" THEN ~mustFail /\ Len(app) = gap /\ PadOK(mode, app)
                      ELSE mayFail /\ app = <<>>)
     /\ WrP(app, p) /\ SameCounts(p)
     /\ last' = Last("Align", r, Len(app), a)
     /\ UNCHANGED labs

(* ---- embed(data, size): "Embeds raw data into the CodeBuffer." -------------------------------------------- *)
Embed(data, r, app, p) ==
  /\ B(att)
  /\ B(IF r = "Ok" THEN app = data ELSE ~Fits(Len(data)) /\ app = <<>>)
  /\ WrP(app, p) /\ SameCounts(p)
  /\ last' = Last("Embed", r, Len(app), 0)
  /\ UNCHANGED labs

(* ---- embed_data_array(type_id, data, item_count, repeat_count) -------------------------------------------- *)
(* "Embeds a typed data array ... Repeat the given data `repeat_count` times".  `data` = the item_count x       *)
(* sizeof(type) bytes of the array (given when that is small); ic, rc = item_count, repeat_count as limbs.     *)
(* Also: embed_int8 .. embed_uint64, embed_float, embed_double, db/dw/dd/dq (one item of the named type).      *)
EmbedArray(tid, data, ic, rc, r, app, p) ==
  LET ts == TypeSize(tid)
      empty == WIsZero(ic) \/ WIsZero(rc)
      pr == Prod3(ic, ts, rc)
      ovf == ~empty /\ Overflows64(pr)
      tot == Low64(pr)
      mustFail == ~TypeValid(tid) \/ (TypeAssigned(tid) /\ ovf)
      mayFail == mustFail \/ ~TypeAssigned(tid) \/ (~empty /\ (~WSmall(tot) \/ ~Fits(WVal(tot))))
  IN /\ B(att)
     /\ B(IF r = "Ok"
            THEN /\ ~mustFail
                 /\ IF empty THEN app = <<>>
                    ELSE /\ ~ovf /\ WSmall(tot) /\ WSmall(rc)
                         /\ Len(data) * WVal(rc) = WVal(tot)
                         /\ app = Repeat(data, WVal(rc))
            ELSE mayFail /\ app = <<>>)
     /\ WrP(app, p) /\ SameCounts(p)
     /\ last' = Last("EmbedArray", r, Len(app), 0)
     /\ UNCHANGED labs

(* ---- embed_const_pool(label, pool) ------------------------------------------------------------------------ *)
(* "1. Aligns by using AlignMode::kData to the minimum `pool` alignment.  2. Binds the ConstPool label so it's *)
(*  bound to an aligned location.  3. Emits ConstPool content."   palign/image = pool.alignment()/pool.fill()  *)
(* (the pool itself is C19's).  `lb` = the label as the CodeHolder reports it afterwards.                       *)
(* A refusal may leave a prefix of the three steps done (nothing / padding / padding + bound label).            *)
EmbedConstPool(l, palign, image, r, app, p, lb) ==
  LET valid == LabelValid(l)
      gap == Gap(off, palign)
      canBind == valid /\ ~IsBound(l)
      mayFail == ~canBind \/ ~Fits(gap + Len(image))
      same == IF valid THEN lb = labs[l] ELSE TRUE
      bound == lb = BoundAt(cur, off + gap)
  IN /\ B(att)
     /\ B(IF r = "Ok"
            THEN /\ canBind
                 /\ Len(app) = gap + Len(image)
                 /\ PadOK(ModeData, SubSeq(app, 1, gap))
                 /\ SubSeq(app, gap + 1, Len(app)) = image
                 /\ bound
            ELSE /\ mayFail
                 /\ \/ app = <<>> /\ same                                   \* refused before anything happened
                    \/ /\ valid /\ Len(app) = gap /\ PadOK(ModeData, app)   \* step 1 done
                       /\ (same \/ (canBind /\ bound)))                     \* ... and step 2
     /\ labs' = IF valid THEN [labs EXCEPT ![l] = lb] ELSE labs
     /\ WrP(app, p)
     /\ B(p.nrel = nrel /\ p.nfix <= nfix)               \* binding the label may resolve pending fixups
     /\ nfix' = p.nfix /\ UNCHANGED nrel
     /\ last' = Last("EmbedConstPool", r, Len(app), palign)

(* ---- embed_label(label, data_size) ------------------------------------------------------------------------ *)
(* "Embeds an absolute `label` address as data.  The `data_size` is an optional argument ... If it's zero       *)
(*  (default) the address size is deduced from the target architecture (either 4 or 8 bytes)."                 *)
(* The address is not known before relocation: a zero placeholder of that size is appended and exactly one      *)
(* relocation entry describes it (relocation ORs the value in - the placeholder must be zero); an unbound       *)
(* label additionally leaves a pending fixup.  The value itself belongs to C03/C04.                             *)
EffSize(sz) == IF sz = 0 THEN RegSize ELSE sz
Slot(es) == [sec |-> cur, lo |-> off, hi |-> off + es]
EmbedLabel(l, sz, r, app, p) ==
  LET es == EffSize(sz)
      mustFail == ~LabelValid(l) \/ es \notin {1, 2, 4, 8}
      mayFail == mustFail \/ ~Fits(es)
  IN /\ B(att)
     /\ B(IF r = "Ok"
            THEN /\ ~mustFail /\ Len(app) = es /\ AllEq(app, 0)
                 /\ p.nrel = nrel + 1
                 /\ (IF IsBound(l) THEN p.nfix = nfix ELSE p.nfix > nfix)
            ELSE mayFail /\ app = <<>> /\ p.nrel = nrel /\ p.nfix = nfix)
     /\ nrel' = p.nrel /\ nfix' = p.nfix
     /\ Wr(app, p)
     /\ slots' = IF r = "Ok" THEN Clobber(slots, cur, off, off + es) \cup {Slot(es)} ELSE slots
     /\ last' = Last("EmbedLabel", r, Len(app), 0)
     /\ UNCHANGED labs

(* ---- embed_label_delta(label, base, data_size) ------------------------------------------------------------ *)
(* "Embeds a delta (distance) between the `label` and `base` calculating it as `label - base`."                *)
(* Both bound in the same section: the value is known now (its bytes and its range check are C03's); else a     *)
(* zero placeholder plus one (expression) relocation entry.                                                     *)
Encodable(d, es) == es >= 4 \/ (es = 1 /\ d >= -128 /\ d <= 127) \/ (es = 2 /\ d >= -32768 /\ d <= 32767)
EmbedLabelDelta(l, b, sz, r, app, p) ==
  LET es == EffSize(sz)
      mustFail == ~LabelValid(l) \/ ~LabelValid(b) \/ es \notin {1, 2, 4, 8}
      now == ~mustFail /\ IsBound(l) /\ IsBound(b) /\ labs[l][2] = labs[b][2]
      mayFail == mustFail \/ ~Fits(es) \/ (now /\ ~Encodable(labs[l][3] - labs[b][3], es))
  IN /\ B(att)
     /\ B(IF r = "Ok"
            THEN /\ ~mustFail /\ Len(app) = es
                 /\ (IF now THEN p.nrel = nrel ELSE AllEq(app, 0) /\ p.nrel = nrel + 1)
                 /\ p.nfix >= nfix
            ELSE mayFail /\ app = <<>> /\ p.nrel = nrel /\ p.nfix = nfix)
     /\ nrel' = p.nrel /\ nfix' = p.nfix
     /\ Wr(app, p)
     /\ slots' = IF r = "Ok" THEN Clobber(slots, cur, off, off + es) \cup {Slot(es)} ELSE slots
     /\ last' = Last("EmbedLabelDelta", r, Len(app), 0)
     /\ UNCHANGED labs

(* ---- new_label / bind ------------------------------------------------------------------------------------- *)
NewLabel ==
  /\ B(att)
  /\ labs' = Append(labs, Unbound)
  /\ last' = Last("NewLabel", "Ok", 0, 0)
  /\ UNCHANGED <<arch, opt, att, secs, cur, off, slots, nrel, nfix>>

(* bind(label): binds to the current section and cursor; "Label can be bound only once."  Appends nothing.     *)
Bind(l, r, p) ==
  /\ B(att)
  /\ B(IF r = "Ok" THEN LabelValid(l) /\ ~IsBound(l) /\ p.nfix <= nfix
                   ELSE (IF LabelValid(l) THEN IsBound(l) ELSE TRUE) /\ p.nfix = nfix)
  /\ B(p.nrel = nrel)
  /\ labs' = IF r = "Ok" THEN [labs EXCEPT ![l] = BoundAt(cur, off)] ELSE labs
  /\ nfix' = p.nfix /\ UNCHANGED nrel
  /\ WrP(<<>>, p)
  /\ last' = Last("Bind", r, 0, 0)

(* ---- set_offset(offset) ----------------------------------------------------------------------------------- *)
(* "Sets the current position in the CodeBuffer to `offset`.  The `offset` cannot be greater than buffer size   *)
(*  even if it's within the buffer's capacity."  Later calls overwrite from there; the size never shrinks.      *)
SetOffset(o, r, p) ==
  LET no == IF r = "Ok" THEN o ELSE off IN
  /\ B(att)
  /\ B(IF r = "Ok" THEN o <= Len(secs[cur].mem) ELSE o > Len(secs[cur].mem))
  /\ B(p.off = no /\ p.size = Len(secs[cur].mem) /\ p.cap = secs[cur].cap)
  /\ off' = no
  /\ SameCounts(p)
  /\ last' = Last("SetOffset", r, 0, 0)
  /\ UNCHANGED <<arch, opt, att, secs, cur, labs, slots>>

(* ---- sections --------------------------------------------------------------------------------------------- *)
(* CodeHolder::new_section; kind "dyn" (empty growable buffer), "res" (reserve_buffer(capreq) called on it) or  *)
(* "fix" (the user installed an external fixed buffer of `capreq` bytes: CodeBufferFlags::kIsExternal|kIsFixed) *)
NewSection(kind, capreq, c) ==
  /\ B(att)
  /\ B(CASE kind = "dyn" -> TRUE
         [] kind = "res" -> c >= capreq
         [] kind = "fix" -> c = capreq
         [] OTHER -> FALSE)
  /\ secs' = Append(secs, [mem |-> <<>>, cap |-> c, fixed |-> kind = "fix"])
  /\ last' = Last("NewSection", "Ok", 0, 0)
  /\ UNCHANGED <<arch, opt, att, cur, off, labs, slots, nrel, nfix>>

(* section(Section): "Switches to the given `section`.  Once switched, everything is emitted to `section`" -    *)
(* at its end.  s = 0 stands for a Section that does not belong to the CodeHolder.                              *)
SwitchSection(s, r, p) ==
  LET ok == r = "Ok"
      nc == IF ok THEN s ELSE cur
      no == IF ok THEN Len(secs[s].mem) ELSE off
  IN /\ B(att)
     /\ B(IF ok THEN s \in 1 .. Len(secs) ELSE s \notin 1 .. Len(secs))
     /\ B(p.off = no /\ p.size = Len(secs[nc].mem) /\ p.cap = secs[nc].cap)
     /\ cur' = nc /\ off' = no
     /\ SameCounts(p)
     /\ last' = Last("Section", r, 0, 0)
     /\ UNCHANGED <<arch, opt, att, secs, labs, slots>>

(* CodeHolder::reserve_buffer(&section->buffer(), n): "Reserves the size of `cb` to at least `n` bytes."        *)
(* Contents, sizes and the cursor of an attached assembler survive the reallocation.  `c` = capacity of s after *)
Reserve(s, n, r, c, p) ==
  LET ns == IF r = "Ok" THEN [secs EXCEPT ![s].cap = c] ELSE secs IN
  /\ B(att /\ s \in 1 .. Len(secs))
  /\ B(IF r = "Ok" THEN c >= n /\ CapOK(secs[s], c, Len(secs[s].mem))
                   ELSE secs[s].fixed /\ n > secs[s].cap /\ c = secs[s].cap)
  /\ B(p.off = off /\ p.size = Len(secs[cur].mem) /\ p.cap = ns[cur].cap)
  /\ secs' = ns
  /\ SameCounts(p)
  /\ last' = Last("Reserve", r, 0, 0)
  /\ UNCHANGED <<arch, opt, att, cur, off, labs, slots>>

(* ---- other emitter calls that touch the buffer only inside their own window -------------------------------- *)
(* an instruction (its encoding is C01/C02's); an x86 instruction asks for 16 spare bytes, so a fixed buffer    *)
(* may refuse it although it would fit                                                                          *)
Inst(r, app, p) ==
  /\ B(att)
  /\ B(IF r = "Ok" THEN Len(app) > 0 ELSE secs[cur].fixed /\ app = <<>>)
  /\ WrP(app, p) /\ SameCounts(p)
  /\ last' = Last("Inst", r, Len(app), 0)
  /\ UNCHANGED labs

(* comment(): goes to the logger only *)
Comment(r, p) ==
  /\ B(att /\ r = "Ok")
  /\ WrP(<<>>, p) /\ SameCounts(p)
  /\ last' = Last("Comment", r, 0, 0)
  /\ UNCHANGED labs

(* ---------------------------------------------------------------------------------------------------------- *)
(* The properties, as state invariants / action properties over the contract state                            *)
(* ---------------------------------------------------------------------------------------------------------- *)
TypeOK == /\ cur \in 1 .. Len(secs)
          /\ off >= 0 /\ off <= Len(secs[cur].mem)
          /\ \A s \in 1 .. Len(secs) : secs[s].cap >= Len(secs[s].mem)
(* after a successful align the cursor is aligned and the padding was minimal *)
AlignPost == (last.op = "Align" /\ last.r = "Ok" /\ last.a > 1)
                => (off % last.a = 0 /\ last.n < last.a /\ off = last.o0 + last.n)
(* a refused call (other than the three-step embed_const_pool) appended nothing and left the cursor *)
RefusedNoop == (last.r # "Ok" /\ last.op # "EmbedConstPool") => (last.n = 0 /\ off = last.o0)
LabelsInside == \A l \in 1 .. Len(labs) : labs[l][1] =>
                   (labs[l][2] \in 1 .. Len(secs) /\ labs[l][3] <= Len(secs[labs[l][2]].mem))
SlotsInside == \A x \in slots : x.sec \in 1 .. Len(secs) /\ x.lo < x.hi /\ x.hi <= Len(secs[x.sec].mem)
SlotsDisjoint == \A x, y \in slots : (x # y /\ x.sec = y.sec) => (x.hi <= y.lo \/ y.hi <= x.lo)
FixedNeverOverflows == \A s \in 1 .. Len(secs) : secs[s].fixed => Len(secs[s].mem) <= secs[s].cap
DInv == TypeOK /\ AlignPost /\ RefusedNoop /\ LabelsInside /\ SlotsInside /\ SlotsDisjoint /\ FixedNeverOverflows

(* action properties: a step changes only the window it wrote; sizes and capacities never shrink; a fixed      *)
(* buffer keeps its capacity; sections other than the current one keep their bytes                              *)
Prefix(a, b) == Len(a) <= Len(b) /\ \A i \in 1 .. Len(a) : a[i] = b[i]
WindowOnly ==
  \A s \in 1 .. Len(secs) :
     LET m == secs[s].mem  m2 == secs'[s].mem IN
     /\ Len(m2) >= Len(m)
     /\ secs'[s].cap >= secs[s].cap
     /\ (secs[s].fixed => secs'[s].fixed /\ secs'[s].cap = secs[s].cap)
     /\ IF s = cur THEN \A i \in 1 .. Len(m) : (i <= off \/ i > off') => m2[i] = m[i]
                   ELSE m2 = m
LabelsStable == \A l \in 1 .. Len(labs) : labs[l][1] => labs'[l] = labs[l]
=============================================================================
