------------------------- MODULE EmitContractTrace --------------------------
(* Trace validation for C14: a trace recorded from real emitters by             *)
(* harness/emitfuzz.cpp is accepted iff it is a behaviour of EmitContract.      *)
(* Events:                                                                      *)
(*   Reset  arch em hk att p os      start of an execution (fresh emitter)      *)
(*   Call   k r hc th oi p os        one public API call and what it reported   *)
(*   Probe  u f p os                 FreshEquivalent observation                *)
(*   Finish u f cmp p os             consumers of the holder ran; reference run  *)
(* An ABORT line (sanitizer report, crash, uncaught exception) is no event of   *)
(* the contract and is therefore never consumed.                                *)
EXTENDS EmitContract, TraceLib

VARIABLE l
tvars == <<proj, os, cfg, pend, l>>

T == TraceLog
Ev == T[l]
IsEv(e) == l <= Len(T) /\ Ev.e = e /\ l' = l + 1

TInit == CInit /\ l = 1 /\ InitProgress

TReset == /\ IsEv("Reset")
          /\ proj' = Ev.p
          /\ os' = Ev.os
          /\ pend' = 0
          /\ cfg' = [arch |-> Ev.arch, em |-> Ev.em, hk |-> Ev.hk, att |-> Ev.att, vi |-> Ev.vi, va |-> Ev.va, fast |-> Ev.fast]

TCall == /\ IsEv("Call")
         /\ Call(Ev.k, Ev.r, Ev.hc, Ev.th, Ev.oi, Ev.p, Ev.os,
                 IF Has(Ev, "vr") THEN Ev.vr ELSE 0, IF Has(Ev, "sh") THEN Ev.sh ELSE 0,
                 IF Has(Ev, "fr") THEN Ev.fr ELSE 0, IF Has(Ev, "tw") THEN Ev.tw ELSE Ev.r,
                 IF Has(Ev, "ew") THEN Ev.ew ELSE 0, IF Has(Ev, "eb") THEN Ev.eb ELSE 0,
                 IF Has(Ev, "di") THEN Ev.di ELSE 0)

TProbe == /\ IsEv("Probe")
          /\ Probe(Ev.u, Ev.f, Ev.p, Ev.os)

TFinish == /\ IsEv("Finish")
           /\ Finish(Ev.u, Ev.f, Ev.cmp, Ev.p, Ev.os)

TNext == TReset \/ TCall \/ TProbe \/ TFinish
TSpec == TInit /\ [][TNext]_tvars

Progress == NoteProgress(l)
TraceAccepted == Accepted(Len(T))
=============================================================================
