------------------------- MODULE EmitContractTrace --------------------------
(* Trace validation for C14: a trace recorded from real emitters by             *)
(* harness/emitfuzz.cpp is accepted iff it is a behaviour of EmitContract.      *)
(* Events:                                                                      *)
(*   Reset  arch em hk att p os      start of an execution (fresh emitter)      *)
(*   Call   k r hc th oi p os        one public API call and what it reported   *)
(*   Probe  u f p os                 FreshEquivalent observation                *)
(* An ABORT line (sanitizer report, crash, uncaught exception) is no event of   *)
(* the contract and is therefore never consumed.                                *)
EXTENDS EmitContract, TraceLib

VARIABLE l
tvars == <<proj, os, cfg, l>>

T == TraceLog
Ev == T[l]
IsEv(e) == l <= Len(T) /\ Ev.e = e /\ l' = l + 1

TInit == CInit /\ l = 1 /\ InitProgress

TReset == /\ IsEv("Reset")
          /\ proj' = Ev.p
          /\ os' = Ev.os
          /\ cfg' = [arch |-> Ev.arch, em |-> Ev.em, hk |-> Ev.hk, att |-> Ev.att]

TCall == /\ IsEv("Call")
         /\ Call(Ev.k, Ev.r, Ev.hc, Ev.th, Ev.oi, Ev.p, Ev.os)

TProbe == /\ IsEv("Probe")
          /\ Probe(Ev.u, Ev.f, Ev.p, Ev.os)

TNext == TReset \/ TCall \/ TProbe
TSpec == TInit /\ [][TNext]_tvars

Progress == NoteProgress(l)
TraceAccepted == Accepted(Len(T))
=============================================================================
