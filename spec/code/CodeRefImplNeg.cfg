SPECIFICATION Spec
CONSTANTS
  NL = 2
  NS = 2
  R = 2
  MaxOps = 5
  Quanta = {1, 2}
  ChainBoundLabels = TRUE
INVARIANTS ChainShape PatchedExact ZeroIffNone NeverTruncated
