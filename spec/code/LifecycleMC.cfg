SPECIFICATION XSpec
CONSTANTS
  NH = 2
  KindsC <- KindsABC
  Progs = {1, 3, 4}
  MaxOps = 6
  MaxGen = 2
  Errors = TRUE
  Toggles = {"HLog", "HEh", "ELog", "EEh"}
  Mortal = TRUE
INVARIANT AbstractInv
PROPERTIES ResetIsInitM ReinitIsFreshM
VIEW View
