------------------------------ MODULE LayoutTrace ------------------------------
(* Trace validation for C10: a trace recorded from a real CodeHolder (harness/layout.cpp) is accepted iff   *)
(* it is a behaviour of the contract Layout.tla.                                                             *)
(*                                                                                                          *)
(* Strict mode (environment STRICT=1): an event the contract does not allow leaves the specification        *)
(* stuck and the POSTCONDITION fails.  Diagnostic mode (default): the event is reported as                  *)
(*   <<"REJ", line, event, ToString(reasons)>>  and validation resumes at the next execution (or, for section names,  *)
(* at the next event), so that one run finds every rejected execution of a file.  Each execution is Reset ... End; a missing End (crash) is rejected. *)
EXTENDS Layout, TraceLib

VARIABLES l,      \* next line of the trace
          open    \* inside an execution
tvars == <<secs, phase, est, atid, l, open>>

T == TraceLog
N == Len(T)
Ev == T[l]
Strict == "STRICT" \in DOMAIN IOEnv /\ IOEnv.STRICT = "1"
Idx(id) == id + 1

RECURSIVE NextReset(_)
NextReset(k) == IF k > N THEN N + 1 ELSE IF T[k].e = "Reset" THEN k ELSE NextReset(k + 1)

TInit == LInit /\ l = 1 /\ open = FALSE /\ InitProgress

Accept == l' = l + 1
Reject(why) == /\ ~Strict
               /\ PrintT(<<"REJ", l, Ev.e, ToString(why)>>)
               /\ l' = NextReset(l + 1)
               /\ open' = FALSE
               /\ UNCHANGED lvars

(* Name storage / lookup results do not influence the layout: they are reported and the execution goes on, *)
(* so that a name defect does not hide the layout checks of the same execution (strict mode: stuck).       *)
Soft(why) == ~Strict /\ PrintT(<<"REJ", l, Ev.e, ToString(why)>>)

(* one event: contract allows it -> effect, else reject *)
TReset == /\ l <= N /\ Ev.e = "Reset"
          /\ IF open THEN Reject({"execution-cut-short"})
             \* the sizes the layout starts from: the built-in section of a just initialised holder (fresh, or
             \* re-used through reset() + init()) is empty - no bytes and no virtual size
             ELSE IF Ev.text.vs # 0 \/ Ev.text.buf # 0 THEN Reject({"initialised-holder-text-section-not-empty"})
             ELSE /\ secs' = << [NewSec(Ev.text.name, Ev.text.order, Ev.text.align) EXCEPT !.off = Ev.text.off] >>
                  /\ phase' = "build" /\ est' = {} /\ atid' = 0
                  /\ open' = TRUE /\ Accept

TEnd == /\ l <= N /\ Ev.e = "End" /\ open
        /\ open' = FALSE /\ Accept /\ UNCHANGED lvars

TNew == /\ l <= N /\ Ev.e = "New" /\ open
        /\ LET why == NewSectionWhy(Ev.name, Ev.nlen, Ev.order, Ev.align, Ev.r, Ev.id, Ev.count, Ev.rname) IN
           IF why \subseteq {"name-not-stored"}
             THEN (IF why = {} THEN TRUE ELSE Soft(why)) /\ NewSectionEffect(Ev.name, Ev.order, Ev.align, Ev.r) /\ Accept /\ UNCHANGED open
             ELSE Reject(why)

TLookup == /\ l <= N /\ Ev.e = "Lookup" /\ open
           /\ LET why == LookupWhy(Ev.name, Ev.id) IN
              (IF why = {} THEN TRUE ELSE Soft(why)) /\ Accept /\ UNCHANGED <<secs, phase, est, atid, open>>

TEmbed == /\ l <= N /\ Ev.e = "Embed" /\ open
          /\ LET why == EmbedWhy(Idx(Ev.id), Ev.rle, Ev.buf) \cup (IF Ev.r = "Ok" /\ RleWf(Ev.rle) THEN {} ELSE {"embed-failed"}) IN
             IF why = {} THEN EmbedEffect(Idx(Ev.id), Ev.rle, FALSE) /\ Accept /\ UNCHANGED open ELSE Reject(why)

TVSize == /\ l <= N /\ Ev.e = "VSize" /\ open
          /\ LET why == SetVSizeWhy(Idx(Ev.id), Ev.v, Ev.rv) IN
             IF why = {} THEN SetVSizeEffect(Idx(Ev.id), Ev.v) /\ Accept /\ UNCHANGED open ELSE Reject(why)

TFar == /\ l <= N /\ Ev.e = "Far" /\ open
        /\ LET why == FarWhy(Idx(Ev.id), Ev.rle, Ev.buf, Ev.at) IN
           IF why = {} THEN FarEffect(Idx(Ev.id), Ev.rle, Ev.at) /\ Accept /\ UNCHANGED open ELSE Reject(why)

TNote == /\ l <= N /\ Ev.e = "Note" /\ open
         /\ Accept /\ UNCHANGED <<secs, phase, est, atid, open>>

TFlatten == /\ l <= N /\ Ev.e = "Flatten" /\ open
            /\ LET why == FlattenWhy(Ev.r, Ev.secs) IN
               IF why = {} THEN FlattenEffect(Ev.secs) /\ Accept /\ UNCHANGED open ELSE Reject(why)

(* a second flatten(): the header forbids it, so nothing is required of it; it ends the execution's checks *)
TFlatten2 == /\ l <= N /\ Ev.e = "Flatten2" /\ open
             /\ Accept /\ UNCHANGED <<secs, phase, est, atid, open>>

TCodeSize == /\ l <= N /\ Ev.e = "CodeSize" /\ open
             /\ LET why == CodeSizeWhy(Ev.n) IN
                IF why = {} THEN CodeSizeEffect(Ev.n) /\ Accept /\ UNCHANGED open ELSE Reject(why)

TCopy == /\ l <= N /\ Ev.e = "Copy" /\ open
         /\ LET why == CopyWhy(Ev.size, Ev.flags, Ev.r, Ev.runs, Ev.gpre, Ev.gpost) IN
            IF why = {} THEN Accept /\ UNCHANGED <<secs, phase, est, atid, open>> ELSE Reject(why)

TCopySec == /\ l <= N /\ Ev.e = "CopySec" /\ open
            /\ LET why == CopySectionWhy(Idx(Ev.id), Ev.size, Ev.flags, Ev.r, Ev.runs, Ev.gpre, Ev.gpost) IN
               IF why = {} THEN Accept /\ UNCHANGED <<secs, phase, est, atid, open>> ELSE Reject(why)

(* a failed relocation is not a C10 matter (the harness ends the execution there) *)
TReloc == /\ l <= N /\ Ev.e = "Reloc" /\ open
          /\ IF Ev.r # "Ok" THEN Accept /\ UNCHANGED <<secs, phase, est, atid, open>>
             ELSE LET why == RelocWhy(Ev.secs) IN
                  IF why = {} THEN RelocEffect(Ev.secs) /\ Accept /\ UNCHANGED open ELSE Reject(why)

Known == {"Reset", "End", "New", "Lookup", "Embed", "VSize", "Far", "Note", "Flatten", "Flatten2", "CodeSize", "Copy", "CopySec", "Reloc"}
(* ABORT lines, unknown events, events outside an execution *)
TOther == /\ l <= N
          /\ (Ev.e \notin Known \/ (~open /\ Ev.e # "Reset"))
          /\ Reject({"abort-or-unexpected-event"})
(* the file ends inside an execution *)
TCut == /\ l = N + 1 /\ open
        /\ ~Strict
        /\ PrintT(<<"REJ", N, "EOF", ToString({"execution-cut-short"})>>)
        /\ open' = FALSE /\ UNCHANGED <<secs, phase, est, atid, l>>

TNext == TReset \/ TEnd \/ TNew \/ TLookup \/ TEmbed \/ TVSize \/ TFar \/ TNote \/ TFlatten \/ TFlatten2 \/ TCodeSize
         \/ TCopy \/ TCopySec \/ TReloc \/ TOther \/ TCut
TSpec == TInit /\ [][TNext]_tvars

Progress == NoteProgress(IF l = N + 1 /\ open THEN N ELSE l)
TraceAccepted == Accepted(N)
=============================================================================
