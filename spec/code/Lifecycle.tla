------------------------------- MODULE Lifecycle -------------------------------
(* C16 - reset, reinit and reuse of code holders and emitters leave no residue.      *)
(*                                                                                    *)
(* The lifecycle of CodeHolders and emitters as an abstract state machine.  Every     *)
(* API call is an action with a documented outcome for EVERY state (a call the API    *)
(* refuses is an action that reports an error and changes nothing), so the same       *)
(* operators serve                                                                    *)
(*   (1) exploration: TLC enumerates histories (Next), exports them (hist) and the    *)
(*       harness replays them on real objects,                                        *)
(*   (2) trace validation (LifecycleTrace.tla): the recorded projection of the real   *)
(*       objects after every call must be the projection of this machine.             *)
(*                                                                                    *)
(* What the machine knows about an object is only what the property talks about:      *)
(* initialised or not, who is attached to whom in which order, which logger / error   *)
(* handler is in effect, whether something was generated since the last (re)init.     *)
(* Whenever the machine says "nothing was generated since (re)init / attach" the      *)
(* observable projection must EQUAL the one measured on fresh objects (fh, fe);       *)
(* otherwise the counts are unconstrained (the digest comparison covers them).        *)
EXTENDS Naturals, Sequences, FiniteSets, TLC

CONSTANTS NH,        \* number of holders
          KindsC,    \* exploration: sequence of emitter kinds, e.g. <<"asm","builder","compiler">>
          Progs,     \* exploration: program ids
          MaxOps,    \* exploration: history length
          MaxGen,    \* exploration: programs generated into one holder between (re)inits
          Errors,    \* exploration: also explore calls the API refuses
          Toggles,   \* exploration: which of {"HLog","HEh","ELog","EEh"} are explored
          Mortal     \* exploration: emitters may be destroyed and created again

VARIABLES hinit,     \* [holder -> BOOLEAN]           is_initialized
          hlog,      \* [holder -> BOOLEAN]           a logger is attached to the holder
          heh,       \* [holder -> BOOLEAN]           an error handler is attached to the holder
          att,       \* [holder -> Seq(emitter)]      attached emitters in attach order
          em,        \* [emitter -> [alive, code, ownlog, owneh, used, cursec]]   cursec: 0 = .text, 1 = a user section (Assembler)
          gen,       \* [holder -> Seq(<<kind, prog>>)]  generated since the last (re)init
          kinds,     \* Seq(kind) - fixed per execution
          hist       \* exploration only: the calls made so far (script format)

mvars == <<hinit, hlog, heh, att, em, gen, kinds>>
H == 1 .. NH
E == 1 .. Len(kinds)

FreshEm == [alive |-> TRUE, code |-> 0, ownlog |-> FALSE, owneh |-> FALSE, used |-> FALSE, cursec |-> 0]

MInit(ks) == /\ hinit = [h \in H |-> FALSE]
             /\ hlog = [h \in H |-> FALSE]
             /\ heh = [h \in H |-> FALSE]
             /\ att = [h \in H |-> <<>>]
             /\ kinds = ks
             /\ em = [e \in 1 .. Len(ks) |-> FreshEm]
             /\ gen = [h \in H |-> <<>>]

Rank(k) == CASE k = "asm" -> 0 [] k = "builder" -> 1 [] OTHER -> 2
(* programs: 1,2 assembler level; 3 node edits; 4..6 compiler functions; 7 = emits at the current position, then moves to a  *)
(* user section and STAYS there; 8 = unfinished emission (Builder cursor in the middle / Compiler function left open), *)
(* never finalized                                                                                                      *)
ProgRank(p) == IF p <= 2 \/ p = 7 THEN 0 ELSE IF p = 3 \/ p = 8 THEN 1 ELSE 2      \* 9 = Compiler program abandoned after end_func, before finalize
Remove(s, x) == SelectSeq(s, LAMBDA y : y # x)
Rev(s) == [i \in 1 .. Len(s) |-> s[Len(s) + 1 - i]]

(* ------------------------------------------------------------------------------ *)
(* Calls.  XOk = "the API accepts the call in this state"; X = its effect.         *)
(* ------------------------------------------------------------------------------ *)
InitOk(h) == ~hinit[h]
Init(h) == IF InitOk(h)
             THEN /\ hinit' = [hinit EXCEPT ![h] = TRUE]
                  /\ gen' = [gen EXCEPT ![h] = <<>>]
                  /\ UNCHANGED <<hlog, heh, att, em, kinds>>
             ELSE UNCHANGED mvars

(* reset(soft|hard): detaches every emitter, forgets environment, logger, handler, contents. Never fails. *)
DetachAllOf(h) == [e \in DOMAIN em |-> IF em[e].code = h THEN [em[e] EXCEPT !.code = 0, !.used = FALSE, !.cursec = 0] ELSE em[e]]
ResetH(h) == IF hinit[h]
               THEN /\ hinit' = [hinit EXCEPT ![h] = FALSE]
                    /\ hlog' = [hlog EXCEPT ![h] = FALSE]
                    /\ heh' = [heh EXCEPT ![h] = FALSE]
                    /\ att' = [att EXCEPT ![h] = <<>>]
                    /\ gen' = [gen EXCEPT ![h] = <<>>]
                    /\ em' = DetachAllOf(h)
                    /\ UNCHANGED kinds
               ELSE UNCHANGED mvars

(* reinit(): same environment, logger, handler and emitters; contents and emitters' private state as new *)
ReinitOk(h) == hinit[h]
Reinit(h) == IF ReinitOk(h)
               THEN /\ gen' = [gen EXCEPT ![h] = <<>>]
                    /\ em' = [e \in DOMAIN em |-> IF em[e].code = h THEN [em[e] EXCEPT !.used = FALSE, !.cursec = 0] ELSE em[e]]
                    /\ UNCHANGED <<hinit, hlog, heh, att, kinds>>
               ELSE UNCHANGED mvars

AttachOk(e, h) == em[e].alive /\ hinit[h] /\ em[e].code \in {0, h}
Attach(e, h) == IF AttachOk(e, h) /\ em[e].code = 0
                  THEN /\ att' = [att EXCEPT ![h] = Append(@, e)]
                       /\ em' = [em EXCEPT ![e].code = h, ![e].used = FALSE, ![e].cursec = 0]
                       /\ UNCHANGED <<hinit, hlog, heh, gen, kinds>>
                  ELSE UNCHANGED mvars

DetachOk(e, h) == em[e].alive /\ em[e].code = h
Detach(e, h) == IF DetachOk(e, h)
                  THEN /\ att' = [att EXCEPT ![h] = Remove(@, e)]
                       /\ em' = [em EXCEPT ![e].code = 0, ![e].used = FALSE, ![e].cursec = 0]
                       /\ UNCHANGED <<hinit, hlog, heh, gen, kinds>>
                  ELSE UNCHANGED mvars

HLog(h, on) == hlog' = [hlog EXCEPT ![h] = on] /\ UNCHANGED <<hinit, heh, att, em, gen, kinds>>
HEh(h, on) == heh' = [heh EXCEPT ![h] = on] /\ UNCHANGED <<hinit, hlog, att, em, gen, kinds>>
ELog(e, on) == em' = [em EXCEPT ![e].ownlog = on] /\ UNCHANGED <<hinit, hlog, heh, att, gen, kinds>>
EEh(e, on) == em' = [em EXCEPT ![e].owneh = on] /\ UNCHANGED <<hinit, hlog, heh, att, gen, kinds>>

(* Generate(e, p): emit program p through e into its holder (+ finalize for Builder/Compiler).  Legal when the   *)
(* emitter is attached to an initialised holder, the program needs no more than the emitter offers, and a         *)
(* Builder/Compiler has not been finalized since it was attached / reinitialised (finalize serialises all nodes).*)
Sealed(h) == gen[h] # <<>> /\ gen[h][Len(gen[h])][1] = "seal"
GenLegal(e, p) == /\ em[e].alive /\ em[e].code # 0 /\ hinit[em[e].code] /\ ~Sealed(em[e].code)
                  /\ Rank(kinds[e]) >= ProgRank(p)
                  /\ (kinds[e] = "asm" \/ ~em[e].used)
Gen(e, p) == /\ gen' = [gen EXCEPT ![em[e].code] = Append(@, <<kinds[e], p>>)]
             /\ em' = [em EXCEPT ![e].used = TRUE, ![e].cursec = IF kinds[e] = "asm" /\ p = 7 THEN 1 ELSE 0]
             /\ UNCHANGED <<hinit, hlog, heh, att, kinds>>

(* Seal(h): what JitRuntime::add does with a finished holder - flatten, resolve cross-section references, relocate. *)
(* flatten() and relocate_to_base() are documented as "never call more than once", so nothing is generated into a  *)
(* sealed holder until it is reinitialised or reset.                                                               *)
SealLegal(h) == hinit[h] /\ gen[h] # <<>> /\ ~Sealed(h)
Seal(h) == /\ gen' = [gen EXCEPT ![h] = Append(@, <<"seal", 0>>)]
           /\ UNCHANGED <<hinit, hlog, heh, att, em, kinds>>

(* an invalid call that reports an error: nothing changes *)
Fail(e) == UNCHANGED mvars

Destroy(e) == /\ att' = [h \in H |-> Remove(att[h], e)]
              /\ em' = [em EXCEPT ![e] = [FreshEm EXCEPT !.alive = FALSE]]
              /\ UNCHANGED <<hinit, hlog, heh, gen, kinds>>
Create(e) == /\ em' = [em EXCEPT ![e] = FreshEm]
             /\ UNCHANGED <<hinit, hlog, heh, att, gen, kinds>>

(* destruction of all holders (end of an execution): every emitter is detached *)
DestroyHolders == /\ hinit' = [h \in H |-> FALSE] /\ hlog' = [h \in H |-> FALSE] /\ heh' = [h \in H |-> FALSE]
                  /\ att' = [h \in H |-> <<>>] /\ gen' = [h \in H |-> <<>>]
                  /\ em' = [e \in DOMAIN em |-> [em[e] EXCEPT !.code = 0, !.used = FALSE, !.cursec = 0]]
                  /\ UNCHANGED kinds

(* ------------------------------------------------------------------------------ *)
(* The projection the real objects must show (ids: 10+h = holder h's logger/handler, *)
(* 20+e = emitter e's own one, 0 = none).                                            *)
(* ------------------------------------------------------------------------------ *)
EffLog(e) == IF em[e].ownlog THEN 20 + e ELSE IF em[e].code # 0 /\ hlog[em[e].code] THEN 10 + em[e].code ELSE 0
EffEh(e) == IF em[e].owneh THEN 20 + e ELSE IF em[e].code # 0 /\ heh[em[e].code] THEN 10 + em[e].code ELSE 0
PosIn(s, x) == CHOOSE i \in 1 .. Len(s) : s[i] = x
PrevOf(e) == IF em[e].code = 0 THEN 0 ELSE LET s == att[em[e].code] i == PosIn(s, e) IN IF i = 1 THEN 0 ELSE s[i - 1]
NextOf(e) == IF em[e].code = 0 THEN 0 ELSE LET s == att[em[e].code] i == PosIn(s, e) IN IF i = Len(s) THEN 0 ELSE s[i + 1]
KindIx(k) == Rank(k) + 1

(* o = observed holder record; fh = <<counts of a never initialised holder, counts of a freshly initialised one>> *)
HolderLinksOK(h, o) == /\ o.att = att[h] /\ o.rev = Rev(att[h])
HolderOK(h, o, fh, archid) ==
  \/ "gone" \in DOMAIN o
  \/ /\ o.init = hinit[h]
     /\ o.arch = (IF hinit[h] THEN archid ELSE 0)
     /\ o.log = (IF hlog[h] THEN 10 + h ELSE 0)
     /\ o.eh = (IF heh[h] THEN 10 + h ELSE 0)
     /\ HolderLinksOK(h, o)
     /\ (~hinit[h] => o.cnt = fh[1])                        \* as a holder that was never used
     /\ (hinit[h] /\ gen[h] = <<>> => o.cnt = fh[2])        \* as a freshly initialised holder

(* fe[kind] = <<private projection of a never attached emitter, of a freshly attached one>>                      *)
(* relaxEh / relaxJa: a listed known finding excuses exactly the handler fields / the jump-annotation count        *)
(* Builder: <<nodes, label nodes, section nodes, passes, cursor position, dirty-links, pending, align, private, gp sig>>;  *)
(* Compiler: <<nodes, label nodes, section nodes, passes, cursor position, vregs, open func, jump annotations, const    *)
(* pools (1 = local, 2 = global), dirty-links, pending, align, private, gp sig>>.  The dirty-section-links flag is logged *)
(* but not judged: it only schedules an idempotent recomputation and cannot influence output.                          *)
DirtyIx(k) == IF k = "builder" THEN 6 ELSE 10
PrivEq(k, a, b, relaxJa) == /\ Len(a) = Len(b)
                            /\ \A i \in 1 .. Len(b) : \/ a[i] = b[i]
                                                      \/ (k # "asm" /\ i = DirtyIx(k))
                                                      \/ (relaxJa /\ k = "compiler" /\ i = 8)
(* an attached Assembler: priv = <<current section id, stale buffer pointers?, cursor, pending, align, private, gp sig>>.  It is in .text unless its   *)
(* last program left it in a user section; a freshly attached or reinitialised one is at offset 0 of an empty holder *)
AsmPrivOK(e, pv, fresh) == /\ Len(pv) = 7 /\ Len(fresh) = 7
                           /\ (IF em[e].cursec = 0 THEN pv[1] = 0 ELSE pv[1] >= 1)
                           /\ pv[2] = 0
                           /\ (gen[em[e].code] = <<>> => pv[3] = 0)
                           /\ (~em[e].used => pv[4] = 0)                        \* no pending per-instruction state
                           /\ \A i \in 5 .. 7 : pv[i] = fresh[i]               \* what on_attach derives from the environment
EmitterOK(e, o, fe, archid, relaxEh, relaxJa) ==
  IF ~em[e].alive THEN ~o.alive
  ELSE /\ o.alive
       /\ o.code = em[e].code
       /\ o.init = (em[e].code # 0)
       /\ o.arch = (IF em[e].code # 0 THEN archid ELSE 0)
       /\ o.log = EffLog(e) /\ o.ownlog = em[e].ownlog
       /\ (relaxEh \/ (o.eh = EffEh(e) /\ o.owneh = em[e].owneh))
       /\ o.prev = PrevOf(e) /\ o.next = NextOf(e)
       /\ (em[e].code = 0 => PrivEq(kinds[e], o.priv, fe[KindIx(kinds[e])][1], relaxJa))
       /\ (em[e].code # 0 /\ ~em[e].used /\ kinds[e] # "asm" => PrivEq(kinds[e], o.priv, fe[KindIx(kinds[e])][2], relaxJa))
       /\ (em[e].code # 0 /\ kinds[e] = "asm" => AsmPrivOK(e, o.priv, fe[1][2]))

(* ------------------------------------------------------------------------------ *)
(* Invariants of the abstract machine (checked by TLC on the explored state space)  *)
(* ------------------------------------------------------------------------------ *)
NoDup(s) == \A i, j \in 1 .. Len(s) : i # j => s[i] # s[j]
AttachListWellFormed ==
  /\ \A h \in H : NoDup(att[h]) /\ \A i \in 1 .. Len(att[h]) : att[h][i] \in E
  /\ \A h \in H : \A i \in 1 .. Len(att[h]) : em[att[h][i]].alive /\ em[att[h][i]].code = h      \* list -> emitter
  /\ \A e \in E : em[e].code # 0 => \E i \in 1 .. Len(att[em[e].code]) : att[em[e].code][i] = e    \* emitter -> list
  /\ \A h1, h2 \in H : h1 # h2 => \A i \in 1 .. Len(att[h1]) : \A j \in 1 .. Len(att[h2]) : att[h1][i] # att[h2][j]
UninitIsEmpty == \A h \in H : ~hinit[h] => att[h] = <<>> /\ gen[h] = <<>> /\ (\A e \in E : em[e].code # h)
DeadIsBlank == \A e \in E : ~em[e].alive => em[e] = [FreshEm EXCEPT !.alive = FALSE]
DetachedIsClean == \A e \in E : em[e].code = 0 => ~em[e].used /\ em[e].cursec = 0
AbstractInv == AttachListWellFormed /\ UninitIsEmpty /\ DeadIsBlank /\ DetachedIsClean

(* model-level statements of the property: Reset brings the abstract holder to its initial value, Reinit to the  *)
(* value right after Init with the same emitters, all clean                                                      *)
ResetIsInitM == [][\A h \in H : (hinit[h] /\ ~hinit'[h]) =>
                      /\ att'[h] = <<>> /\ gen'[h] = <<>> /\ ~hlog'[h] /\ ~heh'[h]
                      /\ \A e \in E : em[e].code = h => em'[e].code = 0 /\ ~em'[e].used /\ em'[e].cursec = 0]_mvars
ReinitIsFreshM == [][\A h \in H : (hinit[h] /\ hinit'[h] /\ gen[h] # <<>> /\ gen'[h] = <<>>) =>
                      /\ att'[h] = att[h] /\ hlog'[h] = hlog[h] /\ heh'[h] = heh[h]
                      /\ \A e \in E : em'[e].code = h => ~em'[e].used /\ em'[e].cursec = 0]_mvars     \* every emitter back in .text, nothing pending

(* ------------------------------------------------------------------------------ *)
(* Exploration                                                                      *)
(* ------------------------------------------------------------------------------ *)
B(b) == IF b THEN 1 ELSE 0
Step(op) == hist' = Append(hist, op)

XInit == /\ MInit(KindsC) /\ hist = <<>>

XNext ==
  /\ Len(hist) < MaxOps
  /\ \/ \E h \in H : (Errors \/ InitOk(h)) /\ Init(h) /\ Step(<<"Init", h>>)
     \/ \E h \in H : \E hard \in BOOLEAN : (Errors \/ hinit[h]) /\ ResetH(h) /\ Step(<<"ResetH", h, B(hard)>>)
     \/ \E h \in H : (Errors \/ ReinitOk(h)) /\ Reinit(h) /\ Step(<<"Reinit", h>>)
     \/ \E e \in E : \E h \in H : em[e].alive /\ (Errors \/ (AttachOk(e, h) /\ em[e].code = 0)) /\ Attach(e, h) /\ Step(<<"Attach", e, h>>)
     \/ \E e \in E : \E h \in H : em[e].alive /\ (Errors \/ DetachOk(e, h)) /\ Detach(e, h) /\ Step(<<"Detach", e, h>>)
     \/ \E h \in H : "HLog" \in Toggles /\ hinit[h] /\ HLog(h, ~hlog[h]) /\ Step(<<"HLog", h, B(~hlog[h])>>)
     \/ \E h \in H : "HEh" \in Toggles /\ hinit[h] /\ HEh(h, ~heh[h]) /\ Step(<<"HEh", h, B(~heh[h])>>)
     \/ \E e \in E : "ELog" \in Toggles /\ em[e].alive /\ ELog(e, ~em[e].ownlog) /\ Step(<<"ELog", e, B(~em[e].ownlog)>>)
     \/ \E e \in E : "EEh" \in Toggles /\ em[e].alive /\ EEh(e, ~em[e].owneh) /\ Step(<<"EEh", e, B(~em[e].owneh)>>)
     \/ \E e \in E : \E p \in Progs : GenLegal(e, p) /\ Len(SelectSeq(gen[em[e].code], LAMBDA g : g[1] # "seal")) < MaxGen /\ Gen(e, p) /\ Step(<<"Gen", e, p>>)
     \/ \E h \in H : SealLegal(h) /\ Seal(h) /\ Step(<<"Seal", h>>)
     \/ \E e \in E : Errors /\ em[e].alive /\ Fail(e) /\ Step(<<"Fail", e>>)
     \/ \E e \in E : Mortal /\ em[e].alive /\ Destroy(e) /\ Step(<<"Destroy", e>>)
     \/ \E e \in E : ~em[e].alive /\ Create(e) /\ Step(<<"Create", e>>)

vars == <<hinit, hlog, heh, att, em, gen, kinds, hist>>
XSpec == XInit /\ [][XNext]_vars

(* the history is ghost state: TLC explores every abstract state once (shortest history first) *)
View == mvars
=============================================================================
