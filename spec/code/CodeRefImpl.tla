------------------------------ MODULE CodeRefImpl ------------------------------
(* Implementation-shaped model of CodeHolder's label / fixup bookkeeping            *)
(* (codeholder.cpp: new_fixup, bind_label, resolve_cross_section_fixups and the      *)
(* emit-time decision of the assemblers), on tiny numbers: a format that can         *)
(* represent distances in -R .. R-1 only, so "distance = limit-1, limit, limit+1"    *)
(* are ordinary states.                                                              *)
(*                                                                                  *)
(* Per label: bound flag, section, offset, and - while unbound - the LIFO chain of   *)
(* pending fixups; per holder: the list of fixups that survived a bind (cross-       *)
(* section or out of range) or that reference a label already bound elsewhere, and   *)
(* the unresolved counter.  TLC checks for every history that the bookkeeping is     *)
(* consistent (ChainShape), that whatever was patched is exact (PatchedExact) and    *)
(* that - once everything is bound, laid out and resolved - the counter is exactly   *)
(* the number of references that could not be represented (ZeroIffNone).             *)
EXTENDS Integers, Sequences, FiniteSets, TLC

CONSTANTS NL, NS, R, MaxOps, Quanta,
          ChainBoundLabels   \* negative control: TRUE = chain a fixup with an already bound label (the defect fixed in be0a70a)

VARIABLES lab,      \* [1..NL -> [bound, sec, off, chain]]   chain: Seq of fixup ids, head = newest
          fix,      \* Seq of [sec, off, label, state]        state: "pending" | "resolved"
          hlist,    \* holder-level list (Seq of fixup ids)
          count,    \* _unresolved_fixup_count
          size,     \* [1..NS -> Nat]  section sizes
          csec,     \* current section
          patched,  \* fixup id -> value written (ghost; 999 = placeholder)
          direct,   \* ghost: set of [sec, off, label, value] references encoded at emit time
          flat,     \* BOOLEAN: layout fixed (sections concatenated in id order)
          nops

vars == <<lab, fix, hlist, count, size, csec, patched, direct, flat, nops>>

Fits(d) == d >= -R /\ d < R
SecOff(s) == LET RECURSIVE Sum(_) Sum(k) == IF k = 0 THEN 0 ELSE size[k] + Sum(k - 1) IN Sum(s - 1)
Target(l) == SecOff(lab[l].sec) + lab[l].off
Site(f) == SecOff(fix[f].sec) + fix[f].off

Init == /\ lab = [l \in 1 .. NL |-> [bound |-> FALSE, sec |-> 0, off |-> 0, chain |-> <<>>]]
        /\ fix = <<>> /\ hlist = <<>> /\ count = 0
        /\ size = [s \in 1 .. NS |-> 0] /\ csec = 1 /\ patched = <<>> /\ direct = {} /\ flat = FALSE /\ nops = 0

NewFixup(l) == [sec |-> csec, off |-> size[csec], label |-> l, state |-> "pending"]

(* a reference to label l at the current position (one unit long) *)
Ref(l) ==
  /\ ~flat
  /\ IF lab[l].bound /\ lab[l].sec = csec
       THEN \* bound in this section: encoded now, or refused when out of range
            LET d == lab[l].off - size[csec] IN
            IF Fits(d) THEN /\ direct' = direct \cup {[sec |-> csec, off |-> size[csec], label |-> l, value |-> d]}
                            /\ size' = [size EXCEPT ![csec] = @ + 1]
                            /\ UNCHANGED <<lab, fix, hlist, count, patched>>
                       ELSE UNCHANGED <<lab, fix, hlist, count, size, patched, direct>>      \* InvalidDisplacement
     ELSE IF lab[l].bound /\ ~ChainBoundLabels
       THEN \* bound in another section: the fixup goes to the holder-level list (it cannot be chained with the label)
            /\ fix' = Append(fix, NewFixup(l))
            /\ hlist' = <<Len(fix) + 1>> \o hlist
            /\ count' = count + 1
            /\ patched' = Append(patched, 999)
            /\ size' = [size EXCEPT ![csec] = @ + 1]
            /\ UNCHANGED <<lab, direct>>
       ELSE \* unbound: chained with the label
            /\ fix' = Append(fix, NewFixup(l))
            /\ lab' = [lab EXCEPT ![l].chain = <<Len(fix) + 1>> \o @]
            /\ count' = count + 1
            /\ patched' = Append(patched, 999)
            /\ size' = [size EXCEPT ![csec] = @ + 1]
            /\ UNCHANGED <<hlist, direct>>
  /\ UNCHANGED <<csec, flat>>

(* bind_label: patch what is in this section and fits; splice the survivors onto the holder list *)
Bind(l) ==
  /\ ~flat /\ ~lab[l].bound
  /\ LET ch == lab[l].chain
         here == size[csec]
         ok(f) == fix[f].sec = csec /\ Fits(here - fix[f].off)
         surv == SelectSeq(ch, LAMBDA f : ~ok(f))
         done == {ch[i] : i \in {j \in 1 .. Len(ch) : ok(ch[j])}}
     IN /\ lab' = [lab EXCEPT ![l] = [bound |-> TRUE, sec |-> csec, off |-> here, chain |-> <<>>]]
        /\ fix' = [f \in 1 .. Len(fix) |-> IF f \in done THEN [fix[f] EXCEPT !.state = "resolved"] ELSE fix[f]]
        /\ patched' = [f \in 1 .. Len(fix) |-> IF f \in done THEN here - fix[f].off ELSE patched[f]]
        /\ hlist' = surv \o hlist
        /\ count' = count - Cardinality(done)
  /\ UNCHANGED <<size, csec, direct, flat>>

Emit(n) == /\ ~flat /\ size' = [size EXCEPT ![csec] = @ + n] /\ UNCHANGED <<lab, fix, hlist, count, csec, patched, direct, flat>>
Switch(s) == /\ ~flat /\ s # csec /\ csec' = s /\ UNCHANGED <<lab, fix, hlist, count, size, patched, direct, flat>>

(* flatten + resolve_cross_section_fixups *)
Resolve ==
  /\ ~flat /\ flat' = TRUE
  /\ LET ok(f) == lab[fix[f].label].bound /\ Fits(Target(fix[f].label) - Site(f))
         done == {hlist[i] : i \in {j \in 1 .. Len(hlist) : ok(hlist[j])}}
     IN /\ fix' = [f \in 1 .. Len(fix) |-> IF f \in done THEN [fix[f] EXCEPT !.state = "resolved"] ELSE fix[f]]
        /\ patched' = [f \in 1 .. Len(fix) |-> IF f \in done THEN Target(fix[f].label) - Site(f) ELSE patched[f]]
        /\ hlist' = SelectSeq(hlist, LAMBDA f : ~ok(f))
        /\ count' = count - Cardinality(done)
  /\ UNCHANGED <<lab, size, csec, direct>>

Next == /\ nops < MaxOps /\ nops' = nops + 1
        /\ \/ \E l \in 1 .. NL : Ref(l) \/ Bind(l)
           \/ \E n \in Quanta : Emit(n)
           \/ \E s \in 1 .. NS : Switch(s)
           \/ Resolve
Spec == Init /\ [][Next]_vars

(* ---- invariants ---- *)
Pending == {f \in 1 .. Len(fix) : fix[f].state = "pending"}
OnChain(f) == \E l \in 1 .. NL : \E i \in 1 .. Len(lab[l].chain) : lab[l].chain[i] = f
OnHolder(f) == \E i \in 1 .. Len(hlist) : hlist[i] = f
NoDup(s) == \A i, j \in 1 .. Len(s) : i # j => s[i] # s[j]
ChainShape ==
  /\ count = Cardinality(Pending)
  /\ \A f \in 1 .. Len(fix) :
       IF fix[f].state = "pending" THEN (OnChain(f) /\ ~OnHolder(f)) \/ (OnHolder(f) /\ ~OnChain(f))
       ELSE ~OnChain(f) /\ ~OnHolder(f)
  /\ \A l \in 1 .. NL : /\ NoDup(lab[l].chain)
                        /\ (lab[l].bound => lab[l].chain = <<>>)                 \* a bound label keeps its offset, no chain
                        /\ \A i \in 1 .. Len(lab[l].chain) : fix[lab[l].chain[i]].label = l
  /\ NoDup(hlist)
(* what was written is exact: same-section patches at bind time, everything once the layout is fixed *)
PatchedExact ==
  /\ \A f \in 1 .. Len(fix) : fix[f].state = "resolved" =>
        IF fix[f].sec = lab[fix[f].label].sec THEN patched[f] = lab[fix[f].label].off - fix[f].off
        ELSE flat /\ patched[f] = Target(fix[f].label) - Site(f)
  /\ \A d \in direct : d.value = lab[d.label].off - d.off /\ Fits(d.value)
(* after layout + resolution: the counter is exactly the number of references that are unbound or do not fit *)
ZeroIffNone ==
  flat => count = Cardinality({f \in 1 .. Len(fix) : ~lab[fix[f].label].bound \/ ~Fits(Target(fix[f].label) - Site(f))})
NeverTruncated == \A f \in 1 .. Len(fix) : fix[f].state = "resolved" => Fits(patched[f])
=============================================================================
