SPECIFICATION Spec
CONSTANTS
  MaxCalls = 4
  CommitBeforeCheck = FALSE
  DoubleReport = FALSE
INVARIANTS TypeOK ErrLeavesNothing
PROPERTY RefinesContract
