-------------------------------- MODULE Layout --------------------------------
(* Contract-level specification of section layout / flattening / copying in      *)
(* asmjit::CodeHolder (property C10).                                            *)
(*                                                                               *)
(* State: the section table as the *user* of the API knows it (what was asked    *)
(* for: order, alignment, bytes embedded, virtual size set) plus the layout the  *)
(* code last reported (offset, virtual size).  Every action is parameterised by  *)
(* the RESULT the code reported and is split into                                *)
(*     XWhy(args)    - the set of reasons why the result breaks the property      *)
(*                     (a state function; {} = the property allows the result)   *)
(*     XEffect(args) - the state update                                           *)
(*     XOk(args)     == XWhy(args) = {} /\ XEffect(args)                          *)
(* so that the same definitions serve refinement checking (LayoutImpl), strict   *)
(* trace validation and diagnostic trace validation (LayoutTrace).               *)
(*                                                                               *)
(* Nothing here prescribes a particular layout: any offsets that are aligned,    *)
(* ordered and disjoint are accepted.  Byte strings are run-length encoded:      *)
(* sequences of <<length, byte>> with length > 0.                                *)
EXTENDS Integers, Sequences, FiniteSets

VARIABLES secs,    \* Seq of section records, index = section id + 1
          phase,   \* "build" | "flat" (flatten() succeeded) | "reloc" (relocate_to_base() succeeded)
          est,     \* set of code_size() values reported before relocation
          atid     \* index of the address-table section, 0 = none

lvars == <<secs, phase, est, atid>>

U == 205          \* 0xCD: byte the harness pre-fills every destination (and guard) cell with
PadSection == 1   \* CopySectionFlags::kPadSectionBuffer
PadTarget  == 2   \* CopySectionFlags::kPadTargetBuffer

Max(a, b) == IF a > b THEN a ELSE b
Min(a, b) == IF a < b THEN a ELSE b
IsPow2(a) == \E k \in 0 .. 30 : a = 2 ^ k
EffAlign(a) == IF a = 0 THEN 1 ELSE a           \* "0 if no requirements"
HasFlag(flags, f) == (flags \div f) % 2 = 1

RECURSIVE RleLen(_)
RleLen(r) == IF r = <<>> THEN 0 ELSE Head(r)[1] + RleLen(Tail(r))
RleWf(r) == \A i \in 1 .. Len(r) : r[i][1] > 0 /\ r[i][2] \in 0 .. 255

(* absolute segments [lo, hi) with byte b of an RLE string placed at `base` *)
RECURSIVE RleSegs(_, _)
RleSegs(r, base) ==
  IF r = <<>> THEN <<>>
  ELSE <<[lo |-> base, hi |-> base + Head(r)[1], b |-> Head(r)[2]]>> \o RleSegs(Tail(r), base + Head(r)[1])

(* two RLE strings denote the same byte string *)
RECURSIVE RleEq(_, _)
RleEq(a, b) ==
  IF a = <<>> \/ b = <<>> THEN a = <<>> /\ b = <<>>
  ELSE /\ Head(a)[2] = Head(b)[2]
       /\ LET n == Min(Head(a)[1], Head(b)[1])
              ra == IF Head(a)[1] = n THEN Tail(a) ELSE <<<<Head(a)[1] - n, Head(a)[2]>>>> \o Tail(a)
              rb == IF Head(b)[1] = n THEN Tail(b) ELSE <<<<Head(b)[1] - n, Head(b)[2]>>>> \o Tail(b)
          IN RleEq(ra, rb)

NewSec(name, order, align) ==
  [name |-> name, order |-> order, align |-> EffAlign(align), data |-> <<>>, buf |-> 0, uv |-> 0, vsize |-> 0, off |-> -1,
   patch |-> FALSE]

LInit == /\ secs = <<>>
         /\ phase = "build"
         /\ est = {}
         /\ atid = 0

(* ------------------------------ the layout property ------------------------------ *)
(* occupied extent of a section: its bytes, the virtual size the user asked for, and *)
(* the virtual size the code reports (Section::real_size())                          *)
Ext(s) == Max(s.buf, Max(s.uv, s.vsize))

(* i is laid out before j: lower order first, creation order among equals *)
Before(t, i, j) == t[i].order < t[j].order \/ (t[i].order = t[j].order /\ i < j)

Misaligned(t) == {i \in 1 .. Len(t) : Ext(t[i]) > 0 /\ t[i].off % t[i].align # 0}
(* sections that were empty when flatten was called but were given a size by it *)
WasEmpty(t, i) == t[i].buf = 0 /\ t[i].uv = 0

LayoutWhy(t) ==
     (IF \E i \in 1 .. Len(t) : t[i].off < 0 THEN {"offset-unassigned"} ELSE {})
  \cup (IF \E i \in Misaligned(t) : ~WasEmpty(t, i) THEN {"align"} ELSE {})
  \cup (IF \E i \in Misaligned(t) : WasEmpty(t, i) THEN {"align-empty-extended"} ELSE {})
  \cup (IF \E i, j \in 1 .. Len(t) : Before(t, i, j) /\ t[i].off > t[j].off THEN {"order"} ELSE {})
  \cup (IF \E i, j \in 1 .. Len(t) :
             /\ i < j /\ Ext(t[i]) > 0 /\ Ext(t[j]) > 0
             /\ t[i].off < t[j].off + Ext(t[j]) /\ t[j].off < t[i].off + Ext(t[i])
        THEN {"overlap"} ELSE {})

(* end of the last section *)
RECURSIVE EndOf(_)
EndOf(t) == IF t = <<>> THEN 0 ELSE Max(Head(t).off + Ext(Head(t)), EndOf(Tail(t)))
(* end of the last real byte *)
RECURSIVE BytesEndOf(_)
BytesEndOf(t) == IF t = <<>> THEN 0
                 ELSE Max(IF Head(t).buf > 0 THEN Head(t).off + Head(t).buf ELSE 0, BytesEndOf(Tail(t)))

(* ------------------------------ building ------------------------------ *)
(* new_section(name, flags, alignment, order).  `id`, `count` are what the code reported. *)
NewSectionValid(nameLen, align) == nameLen <= 35 /\ (align = 0 \/ IsPow2(align))
(* `rname` = the new section's name() read back as a C string *)
NewSectionWhy(name, nameLen, order, align, r, id, count, rname) ==
  IF r = "Ok"
    THEN (IF id # Len(secs) THEN {"section-id"} ELSE {})
         \cup (IF count # Len(secs) + 1 THEN {"section-count"} ELSE {})
         \cup (IF rname # name THEN {"name-not-stored"} ELSE {})
    ELSE (IF NewSectionValid(nameLen, align) THEN {"refused-valid-section"} ELSE {})
         \cup (IF count # Len(secs) THEN {"section-count"} ELSE {})
NewSectionEffect(name, order, align, r) ==
  /\ secs' = IF r = "Ok" THEN Append(secs, NewSec(name, order, align)) ELSE secs
  /\ est' = {}                      \* an estimate only counts for the configuration it was computed from
  /\ UNCHANGED <<phase, atid>>
NewSectionOk(name, nameLen, order, align, r, id, count, rname) ==
  NewSectionWhy(name, nameLen, order, align, r, id, count, rname) = {} /\ NewSectionEffect(name, order, align, r)

(* section_by_name(q) returned section id `id` (-1 = null).  Any section carrying exactly that name is a *)
(* valid answer (duplicates are legal); a name nobody carries must not be found.                          *)
LookupWhy(q, id) ==
  LET named == {i \in 1 .. Len(secs) : secs[i].name = q} IN
  IF named = {} THEN (IF id # -1 THEN {"lookup-found-section-with-another-name"} ELSE {})
  ELSE IF id = -1 THEN {"lookup-missed-existing-section"}
  ELSE IF id + 1 \notin named THEN {"lookup-found-section-with-another-name"} ELSE {}
LookupOk(q, id) == LookupWhy(q, id) = {} /\ UNCHANGED lvars

(* bytes appended to section i (index) through an emitter; `nbuf` = reported buffer_size() *)
EmbedWhy(i, rle, nbuf) ==
     (IF i \notin 1 .. Len(secs) THEN {"no-such-section"} ELSE {})
  \cup (IF i \in 1 .. Len(secs) /\ nbuf # secs[i].buf + RleLen(rle) THEN {"buffer-size"} ELSE {})
EmbedEffect(i, rle, patch) ==
  /\ secs' = [secs EXCEPT ![i].data = @ \o rle, ![i].buf = @ + RleLen(rle), ![i].patch = @ \/ patch]
  /\ est' = {}
  /\ UNCHANGED <<phase, atid>>
EmbedOk(i, rle, nbuf) == EmbedWhy(i, rle, nbuf) = {} /\ EmbedEffect(i, rle, FALSE)

(* Section::set_virtual_size *)
SetVSizeWhy(i, v, rv) == IF i \in 1 .. Len(secs) /\ rv = v THEN {} ELSE {"virtual-size"}
SetVSizeEffect(i, v) ==
  /\ secs' = [secs EXCEPT ![i].uv = v, ![i].vsize = v]
  /\ est' = {}
  /\ UNCHANGED <<phase, atid>>
SetVSizeOk(i, v, rv) == SetVSizeWhy(i, v, rv) = {} /\ SetVSizeEffect(i, v)

(* new section with bytes and virtual size in one step (used by LayoutImpl only) *)
NewSectionFull(name, order, align, rle, v) ==
  /\ secs' = Append(secs, [NewSec(name, order, align) EXCEPT !.data = rle, !.buf = RleLen(rle), !.uv = v, !.vsize = v])
  /\ est' = {}
  /\ UNCHANGED <<phase, atid>>

(* The address table is a section the code creates by itself; its attributes are taken as reported. *)
(* at = [id, name, align, order, vsize, buf] as reported after the call that may have created / grown it. *)
AddrTabWhy(at) ==
  IF atid = 0
    THEN (IF at.id # Len(secs) THEN {"addrtab-id"} ELSE {})
    ELSE (IF at.id # atid - 1 THEN {"addrtab-id"} ELSE {})
         \cup (IF at.vsize < secs[atid].vsize THEN {"addrtab-shrunk-while-building"} ELSE {})
AddrTabSecs(s, at) ==
  IF atid = 0
    THEN Append(s, [NewSec(at.name, at.order, at.align) EXCEPT !.uv = at.vsize, !.vsize = at.vsize, !.buf = at.buf])
    ELSE [s EXCEPT ![atid].uv = at.vsize, ![atid].vsize = at.vsize]
(* a far jmp/call emitted into section i: bytes `rle` appended (read back), table as reported *)
FarWhy(i, rle, nbuf, at) == EmbedWhy(i, rle, nbuf) \cup AddrTabWhy(at)
FarEffect(i, rle, at) ==
  /\ secs' = AddrTabSecs([secs EXCEPT ![i].data = @ \o rle, ![i].buf = @ + RleLen(rle), ![i].patch = TRUE], at)
  /\ atid' = IF atid = 0 THEN Len(secs) + 1 ELSE atid
  /\ est' = {}
  /\ UNCHANGED phase
FarOk(i, rle, nbuf, at) == FarWhy(i, rle, nbuf, at) = {} /\ FarEffect(i, rle, at)
(* address table created without code (LayoutImpl) *)
AddrTabOnly(at) ==
  /\ secs' = AddrTabSecs(secs, at)
  /\ atid' = IF atid = 0 THEN Len(secs) + 1 ELSE atid
  /\ est' = {}
  /\ UNCHANGED phase

(* ------------------------------ flatten ------------------------------ *)
(* rep = Seq of [off, vsize, buf] in id order: what the sections report after flatten() returned r *)
Merge(rep) == [i \in 1 .. Len(secs) |-> [secs[i] EXCEPT !.off = rep[i].off, !.vsize = rep[i].vsize]]
FlattenWhy(r, rep) ==
  IF r # "Ok" THEN {"flatten-error"}              \* all sizes here are far from overflow
  ELSE IF Len(rep) # Len(secs) THEN {"section-count"}
  ELSE (IF \E i \in 1 .. Len(secs) : rep[i].buf # secs[i].buf THEN {"buffer-size-changed"} ELSE {})
       \cup LayoutWhy(Merge(rep))
FlattenEffect(rep) ==
  /\ secs' = Merge(rep)
  /\ phase' = "flat"
  /\ UNCHANGED <<est, atid>>
FlattenOk(r, rep) == FlattenWhy(r, rep) = {} /\ FlattenEffect(rep)

(* ------------------------------ code_size ------------------------------ *)
CodeSizeWhy(n) ==
  IF phase = "build" THEN {}
  ELSE (IF n # EndOf(secs) THEN {"codesize-not-end-of-last-section"} ELSE {})
       \cup (IF phase = "reloc" /\ \E e \in est : e < n THEN {"estimate-smaller-than-final"} ELSE {})
CodeSizeEffect(n) ==
  /\ est' = IF phase = "reloc" THEN est ELSE est \cup {n}
  /\ UNCHANGED <<secs, phase, atid>>
CodeSizeOk(n) == CodeSizeWhy(n) = {} /\ CodeSizeEffect(n)

(* ------------------------------ relocate_to_base ------------------------------ *)
(* rep = Seq of [off, vsize, buf, data] in id order after a successful relocate_to_base; data is the     *)
(* section's buffer content (RLE).  Only the address table may change size; only sections that contain   *)
(* relocation sites (and the table) may change content.                                                  *)
RelocMerge(rep) ==
  [i \in 1 .. Len(secs) |->
     IF i = atid
       THEN [secs[i] EXCEPT !.vsize = rep[i].vsize, !.buf = rep[i].buf, !.uv = 0, !.data = rep[i].data]
       ELSE [secs[i] EXCEPT !.data = rep[i].data]]
RelocWhy(rep) ==
  IF phase # "flat" THEN {"relocated-unflattened"}       \* harness never does this
  ELSE IF Len(rep) # Len(secs) THEN {"section-count"}
  ELSE (IF \E i \in 1 .. Len(secs) : rep[i].off # secs[i].off THEN {"relocation-moved-section"} ELSE {})
       \cup (IF \E i \in 1 .. Len(secs) : i # atid /\ (rep[i].buf # secs[i].buf \/ rep[i].vsize # secs[i].vsize)
             THEN {"relocation-resized-section"} ELSE {})
       \cup (IF \E i \in 1 .. Len(secs) : RleLen(rep[i].data) # rep[i].buf THEN {"data-length"} ELSE {})
       \cup (IF \E i \in 1 .. Len(secs) : i # atid /\ ~secs[i].patch /\ ~RleEq(rep[i].data, secs[i].data)
             THEN {"relocation-changed-bytes"} ELSE {})
       \cup LayoutWhy(RelocMerge(rep))
RelocEffect(rep) ==
  /\ secs' = RelocMerge(rep)
  /\ phase' = "reloc"
  /\ UNCHANGED <<est, atid>>
RelocOk(rep) == RelocWhy(rep) = {} /\ RelocEffect(rep)

(* ------------------------------ copying ------------------------------ *)
(* A destination is described by the RLE of its dstSize cells after the call (`runs`) and the RLE of     *)
(* the guard cells before and after it.  Every cell held U before the call.                              *)
Ov(a, b) == a.lo < b.hi /\ b.lo < a.hi
OvLen(a, b) == IF Ov(a, b) THEN Min(a.hi, b.hi) - Max(a.lo, b.lo) ELSE 0
RECURSIVE SumOv(_, _, _)
SumOv(run, segs, k) == IF k > Len(segs) THEN 0
                       ELSE (IF segs[k].b = run.b THEN OvLen(run, segs[k]) ELSE 0) + SumOv(run, segs, k + 1)
GuardsIntact(g) == \A k \in 1 .. Len(g) : g[k][2] = U

RECURSIVE AllDataSegs(_, _)
AllDataSegs(t, i) == IF i > Len(t) THEN <<>>
                     ELSE (IF t[i].buf > 0 THEN RleSegs(t[i].data, t[i].off) ELSE <<>>) \o AllDataSegs(t, i + 1)

(* cells of a destination that received the flattened image *)
ImageCellsOk(dstSize, flags, runs) ==
  LET rs    == RleSegs(runs, 0)
      data  == AllDataSegs(secs, 1)
      pads  == {[lo |-> secs[i].off + secs[i].buf, hi |-> secs[i].off + Ext(secs[i])] :
                  i \in {j \in 1 .. Len(secs) : Ext(secs[j]) > secs[j].buf}}
      tail  == [lo |-> EndOf(secs), hi |-> Max(dstSize, EndOf(secs)) + 1]
      padOk(b)  == IF HasFlag(flags, PadSection) THEN b = 0 ELSE b \in {0, U}
      tailOk(b) == IF HasFlag(flags, PadTarget) THEN b = 0 ELSE b \in {0, U}
  IN \A k \in 1 .. Len(rs) :
       LET run == rs[k] IN
       /\ \A d \in 1 .. Len(data) : Ov(run, data[d]) => run.b = data[d].b      \* section bytes at their offsets
       /\ \A p \in pads : Ov(run, p) => padOk(run.b)                           \* virtual part of a section
       /\ Ov(run, tail) => tailOk(run.b)                                       \* beyond the last section
       /\ run.b \notin {0, U} => SumOv(run, data, 1) = run.hi - run.lo         \* nothing else was written

CopyWhy(dstSize, flags, r, runs, gpre, gpost) ==
     (IF phase = "build" THEN {"copy-unflattened"} ELSE {})             \* harness never does this
  \cup (IF ~(GuardsIntact(gpre) /\ GuardsIntact(gpost)) THEN {"wrote-outside-destination"} ELSE {})
  \cup (IF RleLen(runs) # dstSize THEN {"harness-runs"} ELSE {})
  \cup (IF r = "Ok"
          THEN (IF dstSize < BytesEndOf(secs) THEN {"accepted-too-small-destination"} ELSE {})
               \cup (IF dstSize >= BytesEndOf(secs) /\ RleLen(runs) = dstSize /\ ~ImageCellsOk(dstSize, flags, runs)
                     THEN {"image-not-exact"} ELSE {})
          ELSE (IF dstSize >= EndOf(secs) THEN {"refused-sufficient-destination"} ELSE {}))
CopyOk(dstSize, flags, r, runs, gpre, gpost) ==
  CopyWhy(dstSize, flags, r, runs, gpre, gpost) = {} /\ UNCHANGED lvars

(* copy_section_data(dst, dstSize, id, flags) *)
SectionCellsOk(i, dstSize, flags, runs) ==
  LET rs   == RleSegs(runs, 0)
      data == RleSegs(secs[i].data, 0)
      rest == [lo |-> secs[i].buf, hi |-> Max(dstSize, secs[i].buf) + 1]
      padOk(b) == IF HasFlag(flags, PadSection) THEN b = 0 ELSE b \in {0, U}
  IN \A k \in 1 .. Len(rs) :
       LET run == rs[k] IN
       /\ \A d \in 1 .. Len(data) : Ov(run, data[d]) => run.b = data[d].b
       /\ Ov(run, rest) => padOk(run.b)
CopySectionWhy(i, dstSize, flags, r, runs, gpre, gpost) ==
     (IF ~(GuardsIntact(gpre) /\ GuardsIntact(gpost)) THEN {"wrote-outside-destination"} ELSE {})
  \cup (IF RleLen(runs) # dstSize THEN {"harness-runs"} ELSE {})
  \cup (IF i \notin 1 .. Len(secs) THEN (IF r = "Ok" THEN {"copied-invalid-section"} ELSE {})
        ELSE IF r = "Ok"
          THEN (IF dstSize < secs[i].buf THEN {"accepted-too-small-destination"}
                ELSE IF RleLen(runs) = dstSize /\ ~SectionCellsOk(i, dstSize, flags, runs) THEN {"image-not-exact"} ELSE {})
          ELSE (IF dstSize >= secs[i].buf THEN {"refused-sufficient-destination"} ELSE {}))
CopySectionOk(i, dstSize, flags, r, runs, gpre, gpost) ==
  CopySectionWhy(i, dstSize, flags, r, runs, gpre, gpost) = {} /\ UNCHANGED lvars

(* ------------------------------ invariants of the contract state ------------------------------ *)
(* once flattened, the recorded layout is valid (by construction of FlattenOk / RelocOk) *)
LInv == phase # "build" => LayoutWhy(secs) = {}
=============================================================================
